/-
C19 — Recursive resolution ignores out-of-bailiwick data and always terminates.
Property theorems about `Model/Recursor.lean` (the model of recursor/{handle,mod,error}.rs).

Everything is stated for an arbitrary network `net : Ip → Query → NetReply` — every delegation
graph, every hostile server — and an arbitrary starting state (caches of earlier requests).
-/
import HickoryVerif.Model.Recursor
import HickoryVerif.Proofs.C04
import HickoryVerif.Proofs.C04Bounds

namespace HickoryVerif.C19
open HickoryVerif HickoryVerif.Recursor

/-! ## 1. the response filter -/

theorem mem_bailiwick {zone : Name} {rs : List Record} {x : Record} (h : x ∈ bailiwick zone rs) :
    x ∈ rs ∧ isSubzone zone x.name = true := by
  simpa [bailiwick, List.mem_filter] using h

/-- **Whatever survives the response filter is in the bailiwick of the zone it was given.** -/
theorem filter_in_bailiwick {zone : Name} {resp r : Response}
    (h : filterResponse zone resp = some r) :
    ∀ x ∈ r.all, isSubzone zone x.name = true := by
  unfold filterResponse at h
  simp only at h
  split at h
  · cases h
  · cases h
    intro x hx
    simp only [Response.all, List.mem_append] at hx
    rcases hx with (hx | hx) | hx <;> exact (mem_bailiwick hx).2

/-- … and it is a part of what the server sent (nothing is invented). -/
theorem filter_sub {zone : Name} {resp r : Response} (h : filterResponse zone resp = some r) :
    (∀ x ∈ r.answers, x ∈ resp.answers) ∧ (∀ x ∈ r.authorities, x ∈ resp.authorities) ∧
    (∀ x ∈ r.additionals, x ∈ resp.additionals) ∧ r.rcode = resp.rcode ∧ r.aa = resp.aa := by
  unfold filterResponse at h
  simp only at h
  split at h
  · cases h
  · cases h
    exact ⟨fun x hx => (mem_bailiwick hx).1, fun x hx => (mem_bailiwick hx).1,
      fun x hx => (mem_bailiwick hx).1, rfl, rfl⟩

/-- non-vacuity: a Kaminsky-style response (`www.attacker.com A` + injected `www.victim.com A` in
the additional section) loses exactly the injected record. -/
def nAttacker : Name := ⟨[[97], [99]], true⟩      -- a.c.
def nWwwAttacker : Name := ⟨[[119], [97], [99]], true⟩  -- w.a.c.
def nWwwVictim : Name := ⟨[[119], [118], [99]], true⟩   -- w.v.c.
def kaminsky : Response :=
  { rcode := 0, aa := true, answers := [⟨nWwwAttacker, 60, .a 1⟩], authorities := [],
    additionals := [⟨nWwwVictim, 60, .a 666⟩] }

example : filterResponse nAttacker kaminsky =
    some { kaminsky with additionals := [] } := by decide
example : filterResponse nWwwVictim kaminsky = none := by decide

/-! the DNSSEC-record stripping at the end of `resolve` only removes records -/

@[simp] theorem stripRes_fst (cfg : Config) (q : Query) (x : St × Except Err Response) :
    (stripRes cfg q x).1 = x.1 := by
  obtain ⟨st, r⟩ := x
  cases r <;> rfl

theorem stripRes_ok {cfg : Config} {q : Query} {x : St × Except Err Response} {r' : Response}
    (h : (stripRes cfg q x).2 = .ok r') :
    ∃ r, x.2 = .ok r ∧ r' = stripDnssec cfg.dnssecOk q r := by
  obtain ⟨st, r⟩ := x
  cases r with
  | error e => cases h
  | ok r => exact ⟨r, rfl, by cases h; rfl⟩

theorem stripRes_err {cfg : Config} {q : Query} {x : St × Except Err Response} {e : Err}
    (h : (stripRes cfg q x).2 = .error e) : x.2 = .error e := by
  obtain ⟨st, r⟩ := x
  cases r with
  | error e' => exact h
  | ok r => cases h

theorem stripDnssec_mem {d : Bool} {q : Query} {r : Response} {x : Record}
    (h : x ∈ (stripDnssec d q r).all) : x ∈ r.all := by
  unfold stripDnssec at h
  split at h
  · exact h
  · simp only [Response.all, List.mem_append, List.mem_filter] at h ⊢
    rcases h with (h | h) | h
    · exact Or.inl (Or.inl h.1)
    · exact Or.inl (Or.inr h.1)
    · exact Or.inr h.1

/-! ## 2. a small framework: state invariants preserved by every function of the recursor

The recursor changes its state only through `poolLookup`, `lookup`, the insertion of a freshly
built pool into the name-server cache and the CNAME counter.  `Stable I PoolOK` says that the
state invariant `I` survives these four, given that the pools used satisfy `PoolOK`; the lemmas
below lift this through every loop and through both recursions, for every network. -/

structure StableNs (cfg : Config) (net : Net) (I : St → Prop) (PoolOK : Pool → Prop)
    (Ask : Pool → Name → Prop) (Fit : Pool → List Name → Prop) (RespOK : Response → Prop) :
    Prop where
  root : PoolOK (rootPool cfg)
  cached : ∀ st z p, I st → nsGet st.nscache z = some p → PoolOK p
  /-- `RespOK`: what is known about an NS response a pool is built from -/
  respCached : ∀ st q r, I st → rcGet st.rcache q = some (.ok r) → RespOK r
  respLookup : ∀ st pool q zone r, (lookup cfg net q zone pool st).2 = .ok r → RespOK r
  fresh : ∀ rec zone depth pool resp st, I st → RespOK resp →
    PoolOK (buildPool cfg net rec zone depth pool resp st).2
  rezone : ∀ p z, PoolOK p → PoolOK { p with zone := z }
  poolLookup : ∀ st pool q, I st → PoolOK pool → I (poolLookup cfg net pool q st).1
  /-- `Ask pool zone`: the recursor may call `lookup` on `pool` with `zone` as bailiwick -/
  lookup : ∀ st pool q zone, I st → PoolOK pool → Ask pool zone →
    I (lookup cfg net q zone pool st).1
  nsPut : ∀ st z ips, I st → PoolOK ⟨ips, z⟩ → I { st with nscache := nsPut st.nscache z ⟨ips, z⟩ }
  askSelf : ∀ p, PoolOK p → Ask p p.zone
  /-- `Fit pool zs`: `pool` is the right pool to continue the zone descent `zs` with -/
  fitRoot : ∀ n, Fit (rootPool cfg) (zonesOf n)
  fitHead : ∀ p z zs, Fit p (z :: zs) → Ask p (base z)
  fitTail : ∀ p z zs, Fit p (z :: zs) → Fit p zs
  fitCached : ∀ st p z zs p', I st → Fit p (z :: zs) → nsGet st.nscache z = some p' → Fit p' zs
  fitFresh : ∀ p z zs ips, Fit p (z :: zs) → Fit ⟨ips, z⟩ zs

structure Stable (cfg : Config) (net : Net) (I : St → Prop) (PoolOK : Pool → Prop)
    (Ask : Pool → Name → Prop) (Fit : Pool → List Name → Prop) (RespOK : Response → Prop) : Prop
    extends StableNs cfg net I PoolOK Ask Fit RespOK where
  cnames : ∀ st n, I st → I { st with cnames := n }
  targets : ∀ st n, I st → I { st with targets := n }

section framework
variable {cfg : Config} {net : Net} {I : St → Prop} {PoolOK : Pool → Prop}
  {Ask : Pool → Name → Prop} {Fit : Pool → List Name → Prop} {RespOK : Response → Prop}

/-- what the inner loops need to know about the recursive call of `ns_pool_for_name` -/
def NsRecOK (I : St → Prop) (PoolOK : Pool → Prop) (rec : NsRec) : Prop :=
  ∀ n d st, I st → I (rec n d st).1 ∧ ∀ d' p, (rec n d st).2 = .ok (d', p) → PoolOK p

theorem pickPools_stable (S : StableNs cfg net I PoolOK Ask Fit RespOK) {rec : NsRec} (hrec : NsRecOK I PoolOK rec)
    (zone : Name) (depth : Nat) (pool : Pool) (hpool : PoolOK pool) :
    ∀ (ns : List Name) (st : St), I st →
      I (pickPools rec zone depth pool ns st).1 ∧
      ∀ e ∈ (pickPools rec zone depth pool ns st).2, PoolOK e.1 := by
  intro ns
  induction ns with
  | nil => intro st h; exact ⟨h, by simp [pickPools]⟩
  | cons n ns ih =>
    intro st h
    unfold pickPools
    split
    · -- out of zone: recursive call
      have hr := hrec n depth st h
      split
      · rename_i st1 d1 p1 heq
        have h1 : I st1 := by have := hr.1; rw [heq] at this; exact this
        have hp1 : PoolOK p1 := hr.2 d1 p1 (by rw [heq])
        obtain ⟨h2, h3⟩ := ih st1 h1
        refine ⟨h2, ?_⟩
        intro e he
        simp only [List.mem_cons] at he
        rcases he with rfl | he
        · exact S.rezone _ _ hp1
        · exact h3 e he
      · rename_i st1 e1 heq
        have h1 : I st1 := by have := hr.1; rw [heq] at this; exact this
        exact ih st1 h1
    · obtain ⟨h2, h3⟩ := ih st h
      refine ⟨h2, ?_⟩
      intro e he
      simp only [List.mem_cons] at he
      rcases he with rfl | he
      · exact hpool
      · exact h3 e he

theorem lookupAddr_stable (S : StableNs cfg net I PoolOK Ask Fit RespOK) (p : Pool) (hp : PoolOK p) (n : Name)
    (ty : Nat) (st : St) (h : I st) : I (lookupAddr cfg net p n ty st).1 := by
  unfold lookupAddr
  have := S.poolLookup st p ⟨n, ty⟩ h hp
  split <;> rename_i heq <;> rw [heq] at this <;> exact this

theorem lookupAddrs_stable (S : StableNs cfg net I PoolOK Ask Fit RespOK) :
    ∀ (pools : List (Pool × Name)) (st : St), (∀ e ∈ pools, PoolOK e.1) → I st →
      I (lookupAddrs cfg net pools st).1 := by
  intro pools
  induction pools with
  | nil => intro st _ h; exact h
  | cons e rest ih =>
    intro st hp h
    obtain ⟨p, n⟩ := e
    simp only [lookupAddrs]
    have hp1 : PoolOK p := hp (p, n) (by simp)
    have h1 := lookupAddr_stable S p hp1 n T_A st h
    have h2 := lookupAddr_stable S p hp1 n T_AAAA _ h1
    exact ih _ (fun e he => hp e (by simp [he])) h2

theorem appendIps_stable (S : StableNs cfg net I PoolOK Ask Fit RespOK) {rec : NsRec} (hrec : NsRecOK I PoolOK rec)
    (zone : Name) (depth : Nat) (pool : Pool) (hpool : PoolOK pool) (need : List Name) (st : St)
    (h : I st) : I (appendIps cfg net rec zone depth pool need st).1 := by
  unfold appendIps
  obtain ⟨h1, h2⟩ := pickPools_stable S hrec zone depth pool hpool need st h
  exact lookupAddrs_stable S _ _ h2 h1

/-! addresses a pool is built from always pass the name-server filter -/

def GlueOK (f : Acs) (m : GlueMap) : Prop := ∀ e ∈ m, ∀ ip ∈ e.2, f.denied ip = false

theorem glueGet_ok {f : Acs} {m : GlueMap} (hm : GlueOK f m) {n : Name} {ips : List Ip}
    (h : glueGet m n = some ips) : ∀ ip ∈ ips, f.denied ip = false := by
  unfold glueGet at h
  simp only [Option.map_eq_some_iff] at h
  obtain ⟨e, he, rfl⟩ := h
  exact hm e (List.mem_of_find?_eq_some he)

theorem gluePut_ok {f : Acs} {m : GlueMap} (hm : GlueOK f m) (n : Name) {ip : Ip}
    (hip : f.denied ip = false) : GlueOK f (gluePut m n ip) := by
  unfold gluePut
  split
  · intro e he ip' hip'
    simp only [List.mem_append, List.mem_singleton] at he
    rcases he with he | rfl
    · exact hm e he ip' hip'
    · simp only [List.mem_singleton] at hip'
      subst hip'; exact hip
  · intro e he ip' hip'
    simp only [List.mem_map] at he
    obtain ⟨e0, he0, rfl⟩ := he
    split at hip'
    · split at hip'
      · exact hm e0 he0 ip' hip'
      · simp only [List.mem_append, List.mem_singleton] at hip'
        rcases hip' with h | rfl
        · exact hm e0 he0 ip' h
        · exact hip
    · exact hm e0 he0 ip' hip'

theorem addGlue_ok {f : Acs} : ∀ (rs : List Record) (m : GlueMap), GlueOK f m →
    GlueOK f (addGlue f m rs) := by
  intro rs
  induction rs with
  | nil => intro m hm; exact hm
  | cons r rs ih =>
    intro m hm
    unfold addGlue
    split
    · rename_i ip hip
      split
      · exact ih m hm
      · rename_i hden
        exact ih _ (gluePut_ok hm r.name (by simpa using hden))
    · exact ih m hm

theorem cachedGlue_ok {f : Acs} (st : St) (target : Name) {m : GlueMap} (hm : GlueOK f m) :
    GlueOK f (cachedGlue f st target m) := by
  unfold cachedGlue
  have h1 : GlueOK f (match rcGet st.rcache ⟨target, T_A⟩ with
      | some (.ok r) => addGlue f m r.all
      | _ => m) := by
    split
    · exact addGlue_ok _ _ hm
    · exact hm
  simp only
  split
  · exact addGlue_ok _ _ h1
  · exact h1

theorem collectNs_ok {f : Acs} (st : St) (parent : Name) :
    ∀ (rs : List Record) (m : GlueMap) (config : List Ip) (need : List Name),
      GlueOK f m → (∀ ip ∈ config, f.denied ip = false) →
      ∀ ip ∈ (collectNs f st parent rs m config need).1, f.denied ip = false := by
  intro rs
  induction rs with
  | nil => intro m config need _ hc; simpa [collectNs] using hc
  | cons r rs ih =>
    intro m config need hm hc
    unfold collectNs
    split
    · rename_i target hdata
      split
      · exact ih m config need hm hc
      · have hm' := cachedGlue_ok (f := f) st target hm
        dsimp only
        split
        · rename_i ip ips hg
          refine ih _ _ need hm' ?_
          intro ip' hip'
          simp only [List.mem_append] at hip'
          rcases hip' with h | h
          · exact hc ip' h
          · exact glueGet_ok hm' hg ip' h
        · exact ih _ config _ hm' hc
    · exact ih m config need hm hc

theorem answerIps_ok (f : Acs) (r : Response) : ∀ ip ∈ answerIps f r, f.denied ip = false := by
  intro ip h
  unfold answerIps at h
  simp only [List.mem_filter] at h
  simpa using h.2

theorem lookupAddr_ok (p : Pool) (n : Name) (ty : Nat) (st : St) :
    ∀ ip ∈ (lookupAddr cfg net p n ty st).2, cfg.serverFilter.denied ip = false := by
  unfold lookupAddr
  split
  · exact answerIps_ok _ _
  · simp

theorem lookupAddrs_ok : ∀ (pools : List (Pool × Name)) (st : St),
    ∀ ip ∈ (lookupAddrs cfg net pools st).2, cfg.serverFilter.denied ip = false := by
  intro pools
  induction pools with
  | nil => intro st; simp [lookupAddrs]
  | cons e rest ih =>
    intro st ip hip
    obtain ⟨p, n⟩ := e
    simp only [lookupAddrs, List.mem_append] at hip
    rcases hip with (h | h) | h
    · exact lookupAddr_ok p n T_A st ip h
    · exact lookupAddr_ok p n T_AAAA _ ip h
    · exact ih _ ip h

theorem appendIps_ok (rec : NsRec) (zone : Name) (depth : Nat) (pool : Pool) (need : List Name)
    (st : St) :
    ∀ ip ∈ (appendIps cfg net rec zone depth pool need st).2, cfg.serverFilter.denied ip = false := by
  unfold appendIps
  exact lookupAddrs_ok _ _

theorem nsQuery_stable (S : StableNs cfg net I PoolOK Ask Fit RespOK) (zone : Name) (pool : Pool)
    (hpool : PoolOK pool) (hask : Ask pool (base zone)) (st : St) (h : I st) :
    I (nsQuery cfg net zone pool st).1 := by
  unfold nsQuery
  split
  · exact h
  · exact S.lookup st pool _ _ h hpool hask

theorem buildPool_ips_ok (rec : NsRec) (zone : Name) (depth : Nat) (pool : Pool) (resp : Response)
    (st : St) :
    ∀ ip ∈ (buildPool cfg net rec zone depth pool resp st).2.ips,
      cfg.serverFilter.denied ip = false := by
  unfold buildPool
  dsimp only
  split
  · exact appendIps_ok _ _ _ _ _ _
  · exact collectNs_ok st _ _ _ _ _ (addGlue_ok _ _ (by intro e he; cases he)) (by simp)

theorem buildPool_stable (S : StableNs cfg net I PoolOK Ask Fit RespOK) {rec : NsRec}
    (hrec : NsRecOK I PoolOK rec) (zone : Name) (depth : Nat) (pool : Pool) (hpool : PoolOK pool)
    (resp : Response) (hresp : RespOK resp) (st : St) (h : I st) :
    I (buildPool cfg net rec zone depth pool resp st).1 ∧
      PoolOK (buildPool cfg net rec zone depth pool resp st).2 := by
  have hP : PoolOK (buildPool cfg net rec zone depth pool resp st).2 :=
    S.fresh rec zone depth pool resp st h hresp
  refine ⟨?_, hP⟩
  unfold buildPool at hP ⊢
  dsimp only at hP ⊢
  refine S.nsPut _ _ _ ?_ hP
  split
  · exact appendIps_stable S hrec _ _ _ hpool _ _ h
  · exact h

theorem nsQuery_resp (S : StableNs cfg net I PoolOK Ask Fit RespOK) (zone : Name) (pool : Pool)
    (st : St) (h : I st) (r : Response) (hr : (nsQuery cfg net zone pool st).2 = .ok r) :
    RespOK r := by
  unfold nsQuery at hr
  split at hr
  · rename_i v hv
    dsimp only at hr
    subst hr
    exact S.respCached st _ r h hv
  · exact S.respLookup st pool _ _ r hr

theorem buildPool_zone (rec : NsRec) (zone : Name) (depth : Nat) (pool : Pool) (resp : Response)
    (st : St) :
    (buildPool cfg net rec zone depth pool resp st).2 =
      ⟨(buildPool cfg net rec zone depth pool resp st).2.ips, zone⟩ := rfl

theorem nsStep_stable (S : StableNs cfg net I PoolOK Ask Fit RespOK) {rec : NsRec}
    (hrec : NsRecOK I PoolOK rec) (zone : Name) (zs : List Name) (depth : Nat) (pool : Pool)
    (hpool : PoolOK pool) (hfit : Fit pool (zone :: zs)) (st : St) (h : I st) :
    I (nsStep cfg net rec zone depth pool st).1 ∧
      ∀ d p, (nsStep cfg net rec zone depth pool st).2 = .next d p → PoolOK p ∧ Fit p zs := by
  have hsame : PoolOK pool ∧ Fit pool zs := ⟨hpool, S.fitTail _ _ _ hfit⟩
  unfold nsStep
  split
  · rename_i p hp
    exact ⟨h, fun d p' heq => by
      cases heq; exact ⟨S.cached st zone p h hp, S.fitCached st pool zone zs p h hfit hp⟩⟩
  · split
    · exact ⟨h, fun d p heq => by cases heq⟩
    · have hq := nsQuery_stable S zone pool hpool (S.fitHead _ _ _ hfit) st h
      split
      · rename_i st1 e heq
        rw [heq] at hq
        split
        · exact ⟨hq, fun d p heq => by cases heq⟩
        · exact ⟨hq, fun d p heq => by cases heq; exact hsame⟩
      · rename_i st1 resp heq
        rw [heq] at hq
        split
        · exact ⟨hq, fun d p heq => by cases heq; exact hsame⟩
        · have hresp : RespOK resp := by
            have := nsQuery_resp S zone pool st h resp
            rw [heq] at this
            exact this rfl
          have hb := buildPool_stable S hrec zone (depth + 1) pool hpool resp hresp st1 hq
          have hz := buildPool_zone (cfg := cfg) (net := net) rec zone (depth + 1) pool resp st1
          split
          rename_i st2 p2 heq2
          rw [heq2] at hb hz
          refine ⟨hb.1, fun d p heq => ?_⟩
          cases heq
          refine ⟨hb.2, ?_⟩
          dsimp only at hz
          rw [hz]
          exact S.fitFresh pool zone zs _ hfit

theorem nsLoop_stable (S : StableNs cfg net I PoolOK Ask Fit RespOK) {rec : NsRec}
    (hrec : NsRecOK I PoolOK rec) :
    ∀ (zs : List Name) (depth : Nat) (pool : Pool) (st : St), PoolOK pool → Fit pool zs → I st →
      I (nsLoop cfg net rec zs depth pool st).1 ∧
      ∀ d p, (nsLoop cfg net rec zs depth pool st).2 = .ok (d, p) → PoolOK p := by
  intro zs
  induction zs with
  | nil =>
    intro depth pool st hp _ h
    exact ⟨h, fun d p heq => by simp only [nsLoop] at heq; cases heq; exact hp⟩
  | cons z zs ih =>
    intro depth pool st hp hfit h
    have hs := nsStep_stable S hrec z zs depth pool hp hfit st h
    unfold nsLoop
    split
    · rename_i st1 e heq
      rw [heq] at hs
      exact ⟨hs.1, fun d p heq => by cases heq⟩
    · rename_i st1 d1 p1 heq
      rw [heq] at hs
      exact ih d1 p1 st1 (hs.2 d1 p1 rfl).1 (hs.2 d1 p1 rfl).2 hs.1

theorem nsPoolFuel_stable (S : StableNs cfg net I PoolOK Ask Fit RespOK) :
    ∀ f, NsRecOK I PoolOK (nsPoolFuel cfg net f) := by
  intro f
  induction f with
  | zero => intro n d st h; exact ⟨h, fun d' p heq => by cases heq⟩
  | succ f ih =>
    intro n d st h
    exact nsLoop_stable S ih _ _ _ _ S.root (S.fitRoot n) h

theorem nsPoolForName_stable (S : StableNs cfg net I PoolOK Ask Fit RespOK) :
    NsRecOK I PoolOK (nsPoolForName cfg net) := nsPoolFuel_stable S _

/-! the `resolve` side -/

def ResRecOK (I : St → Prop) (rec : ResRec) : Prop := ∀ q d st, I st → I (rec q d st).1

theorem chaseLoop_stable (S : Stable cfg net I PoolOK Ask Fit RespOK) {rec : ResRec} (hrec : ResRecOK I rec)
    (resp : Response) (qtype depth : Nat) :
    ∀ (rs chain : List Record) (st : St), I st →
      I (chaseLoop rec resp qtype depth rs chain st).1 := by
  intro rs
  induction rs with
  | nil => intro chain st h; exact h
  | cons r rs ih =>
    intro chain st h
    unfold chaseLoop
    split
    · exact ih chain st h
    · rename_i target _
      split
      · exact ih chain st h
      · dsimp only
        have hc := S.cnames st (st.cnames + 1) h
        split
        · exact hc
        · have hr := hrec ⟨target, qtype⟩ depth _ (S.targets _ (st.targets + 1) hc)
          split
          · rename_i st1 e heq
            rw [heq] at hr; exact hr
          · rename_i st1 r' heq
            rw [heq] at hr
            exact ih _ st1 hr

theorem resolveCnames_stable (S : Stable cfg net I PoolOK Ask Fit RespOK) {rec : ResRec} (hrec : ResRecOK I rec)
    (resp : Response) (q : Query) (depth : Nat) (st : St) (h : I st) :
    I (resolveCnames cfg rec resp q depth st).1 := by
  unfold resolveCnames
  split
  · exact h
  · split
    · exact h
    · dsimp only
      split
      · exact h
      · have hc := chaseLoop_stable S hrec resp q.qtype (depth + 1) resp.all [] st h
        split
        · rename_i st1 e heq; rw [heq] at hc; exact hc
        · rename_i st1 chain heq; rw [heq] at hc; exact hc

theorem answerQuery_stable (S : StableNs cfg net I PoolOK Ask Fit RespOK) (q : Query) (pool : Pool)
    (hpool : PoolOK pool) (st : St) (h : I st) : I (answerQuery cfg net q pool st).1 := by
  unfold answerQuery
  split
  · exact h
  · split
    · exact h
    · exact S.lookup st pool _ _ h hpool (S.askSelf pool hpool)
  · exact S.lookup st pool _ _ h hpool (S.askSelf pool hpool)

theorem resolveMiss_stable (S : Stable cfg net I PoolOK Ask Fit RespOK) {rec : ResRec} (hrec : ResRecOK I rec)
    (q : Query) (depth : Nat) (st : St) (h : I st) :
    I (resolveMiss cfg net rec q depth st).1 := by
  unfold resolveMiss
  dsimp only
  have hn := nsPoolForName_stable S.toStableNs (if q.qtype == T_DS then base q.name else q.name) depth st h
  split
  · rename_i st1 e heq
    rw [heq] at hn
    split <;> exact hn.1
  · rename_i st1 d1 pool heq
    rw [heq] at hn
    have ha := answerQuery_stable S.toStableNs q pool (hn.2 d1 pool rfl) st1 hn.1
    split
    · rename_i st2 e heq2; rw [heq2] at ha; exact ha
    · rename_i st2 resp heq2
      rw [heq2] at ha
      rw [stripRes_fst]
      exact resolveCnames_stable S hrec resp q d1 st2 ha

theorem resolveFuel_stable (S : Stable cfg net I PoolOK Ask Fit RespOK) :
    ∀ f, ResRecOK I (resolveFuel cfg net f) := by
  intro f
  induction f with
  | zero => intro q d st h; exact h
  | succ f ih =>
    intro q d st h
    unfold resolveFuel
    split
    · exact h
    · split
      · rw [stripRes_fst]
        exact resolveCnames_stable S ih _ q d st h
      · exact resolveMiss_stable S ih q d st h
    · exact resolveMiss_stable S ih q d st h

/-- **Every invariant that survives the four primitive state changes survives a whole
resolution — for every network.** -/
theorem resolve_stable (S : Stable cfg net I PoolOK Ask Fit RespOK) (q : Query) (st : St) (h : I st) :
    I (resolve cfg net q st).1 := by
  unfold resolve
  split
  · exact h
  · exact resolveFuel_stable S _ q 0 _ (S.cnames st 0 h)

end framework

/-! ## 3. frame lemmas: what the primitive operations touch -/

theorem trySend_frame (net : Net) (q : Query) : ∀ (ips : List Ip) (st : St),
    (trySend net q ips st).1.rcache = st.rcache ∧ (trySend net q ips st).1.nscache = st.nscache ∧
    (trySend net q ips st).1.asked = st.asked ∧ (trySend net q ips st).1.cnames = st.cnames ∧
    (trySend net q ips st).1.lookups = st.lookups ∧
    (∀ e ∈ (trySend net q ips st).1.log, e ∈ st.log ∨ (e.1 ∈ ips ∧ e.2 = q)) ∧
    (∀ e ∈ st.log, e ∈ (trySend net q ips st).1.log) := by
  intro ips
  induction ips with
  | nil => intro st; simp [trySend]
  | cons ip rest ih =>
    intro st
    unfold trySend
    dsimp only
    split
    · obtain ⟨h1, h2, h3, h4, h5, h6, h7⟩ := ih { st with log := (ip, q) :: st.log }
      refine ⟨h1, h2, h3, h4, h5, ?_, ?_⟩
      · intro e he
        rcases h6 e he with h | h
        · simp only [List.mem_cons] at h
          rcases h with rfl | h
          · right; simp
          · left; exact h
        · right; exact ⟨List.mem_cons_of_mem _ h.1, h.2⟩
      · intro e he
        exact h7 e (List.mem_cons_of_mem _ he)
    · refine ⟨rfl, rfl, rfl, rfl, rfl, ?_, ?_⟩
      · intro e he
        simp only [List.mem_cons] at he
        rcases he with rfl | h
        · right; simp
        · left; exact h
      · intro e he; exact List.mem_cons_of_mem _ he

/-- a response a pool hands back is the response of one of its servers -/
theorem trySend_ok (net : Net) (q : Query) : ∀ (ips : List Ip) (st : St) (r : Response),
    (trySend net q ips st).2 = .ok r → ∃ ip ∈ ips, net ip q = .msg r := by
  intro ips
  induction ips with
  | nil => intro st r h; simp [trySend] at h
  | cons ip rest ih =>
    intro st r h
    unfold trySend at h
    dsimp only at h
    split at h
    · obtain ⟨ip', hip', hn⟩ := ih _ r h
      exact ⟨ip', List.mem_cons_of_mem _ hip', hn⟩
    · rename_i r0 hnet
      refine ⟨ip, by simp, ?_⟩
      unfold fromResponse at h
      split at h
      · cases h
      · split at h
        · cases h
        · cases h; exact hnet

/-- section-wise sublist -/
def Sub (a b : Response) : Prop :=
  a.answers.Sublist b.answers ∧ a.authorities.Sublist b.authorities ∧
    a.additionals.Sublist b.additionals

theorem Sub.refl (a : Response) : Sub a a := ⟨List.Sublist.refl _, List.Sublist.refl _, List.Sublist.refl _⟩

theorem Sub.trans {a b c : Response} (h1 : Sub a b) (h2 : Sub b c) : Sub a c :=
  ⟨h1.1.trans h2.1, h1.2.1.trans h2.2.1, h1.2.2.trans h2.2.2⟩

theorem Sub.all {a b : Response} (h : Sub a b) : a.all.Sublist b.all := by
  unfold Response.all
  exact (h.1.append h.2.1).append h.2.2

theorem answerFilter_sub {f : Acs} {r r' : Response} (h : answerFilter f r = .ok r') : Sub r' r := by
  unfold answerFilter at h
  split at h
  · cases h; exact Sub.refl _
  · dsimp only at h
    split at h
    · cases h
    · cases h
      exact ⟨List.filter_sublist, List.filter_sublist, List.filter_sublist⟩

theorem filterResponse_sub {zone : Name} {r r' : Response} (h : filterResponse zone r = some r') :
    Sub r' r := by
  unfold filterResponse at h
  dsimp only at h
  split at h
  · cases h
  · cases h
    exact ⟨List.filter_sublist, List.filter_sublist, List.filter_sublist⟩

theorem poolLookup_frame (cfg : Config) (net : Net) (pool : Pool) (q : Query) (st : St) :
    (poolLookup cfg net pool q st).1.rcache = st.rcache ∧
    (poolLookup cfg net pool q st).1.nscache = st.nscache ∧
    (poolLookup cfg net pool q st).1.asked = st.asked ∧
    (poolLookup cfg net pool q st).1.cnames = st.cnames ∧
    (poolLookup cfg net pool q st).1.lookups = st.lookups + 1 ∧
    (∀ e ∈ (poolLookup cfg net pool q st).1.log, e ∈ st.log ∨ (e.1 ∈ pool.ips ∧ e.2 = q)) ∧
    (∀ e ∈ st.log, e ∈ (poolLookup cfg net pool q st).1.log) ∧
    (∀ r, (poolLookup cfg net pool q st).2 = .ok r →
      ∃ ip ∈ pool.ips, ∃ r0, net ip q = .msg r0 ∧ Sub r r0) := by
  have hf := trySend_frame net q pool.ips { st with lookups := st.lookups + 1 }
  have hk := trySend_ok net q pool.ips { st with lookups := st.lookups + 1 }
  unfold poolLookup
  dsimp only
  split
  · rename_i st1 r heq
    rw [heq] at hf hk
    obtain ⟨h1, h2, h3, h4, h5, h6, h7⟩ := hf
    refine ⟨h1, h2, h3, h4, h5, h6, h7, ?_⟩
    intro r' hr'
    obtain ⟨ip, hip, hn⟩ := hk r rfl
    exact ⟨ip, hip, r, hn, answerFilter_sub hr'⟩
  · rename_i st1 e heq
    rw [heq] at hf
    obtain ⟨h1, h2, h3, h4, h5, h6, h7⟩ := hf
    exact ⟨h1, h2, h3, h4, h5, h6, h7, fun r hr => by cases hr⟩

theorem mem_rcPut {c : List (Query × Except Err Response)} {q : Query} {v : Except Err Response}
    {e : Query × Except Err Response} (h : e ∈ rcPut c q v) : e = (q, v) ∨ e ∈ c := by
  unfold rcPut at h
  simp only [List.mem_cons, List.mem_filter] at h
  rcases h with h | h
  · left; exact h
  · right; exact h.1

theorem cacheOk_mem {st : St} {q : Query} {r : Response} {e : Query × Except Err Response}
    (h : e ∈ (cacheOk st q r).rcache) : e = (q, .ok r) ∨ e ∈ st.rcache := by
  unfold cacheOk at h
  split at h
  · right; exact h
  · exact mem_rcPut h

theorem cacheErr_mem {st : St} {q : Query} {e0 : Err} {e : Query × Except Err Response}
    (h : e ∈ (cacheErr st q e0).rcache) : e = (q, .error e0) ∨ e ∈ st.rcache := by
  unfold cacheErr at h
  split at h
  · split at h
    · right; exact h
    · exact mem_rcPut h
  · right; exact h

theorem cacheOk_frame (st : St) (q : Query) (r : Response) :
    (cacheOk st q r).nscache = st.nscache ∧ (cacheOk st q r).asked = st.asked ∧
    (cacheOk st q r).cnames = st.cnames ∧ (cacheOk st q r).lookups = st.lookups ∧
    (cacheOk st q r).log = st.log := by
  unfold cacheOk; split <;> simp

theorem cacheErr_frame (st : St) (q : Query) (e : Err) :
    (cacheErr st q e).nscache = st.nscache ∧ (cacheErr st q e).asked = st.asked ∧
    (cacheErr st q e).cnames = st.cnames ∧ (cacheErr st q e).lookups = st.lookups ∧
    (cacheErr st q e).log = st.log := by
  unfold cacheErr
  split
  · split <;> simp
  · simp

/-- the records an error outcome carries (SOA, authority records, referral NS + glue) -/
def errRecords : Err → List Record
  | .noRecords _ soa ns auths _ => soa.toList ++ auths ++ ns.flatMap fun e => e.1 :: e.2
  | _ => []

/-- what `strip_out_of_bailiwick` leaves is inside the zone -/
theorem stripErr_in_bailiwick (zone : Name) (e : Err) :
    ∀ x ∈ errRecords (stripErr zone e), isSubzone zone x.name = true := by
  cases e with
  | noRecords nx soa ns auths t =>
    intro x hx
    simp only [stripErr, errRecords, List.mem_append, Option.mem_toList, List.mem_flatMap,
      List.mem_map, List.mem_filter, List.mem_cons] at hx
    rcases hx with (hx | hx) | ⟨e', ⟨e0, ⟨_, he0⟩, rfl⟩, hx⟩
    · cases soa with
      | none => simp at hx
      | some s =>
        by_cases hs : isSubzone zone s.name = true
        · simp only [hs, Bool.not_true, Bool.false_eq_true, ↓reduceIte, Option.some.injEq] at hx
          subst hx; exact hs
        · simp [hs] at hx
    · exact (mem_bailiwick hx).2
    · rcases hx with rfl | hx
      · exact he0
      · exact (mem_bailiwick hx).2
  | _ => intro x hx; simp [stripErr, errRecords] at hx

/-- everything `lookup` does to the state and what it returns -/
theorem lookup_frame (cfg : Config) (net : Net) (q : Query) (zone : Name) (pool : Pool) (st : St) :
    (lookup cfg net q zone pool st).1.nscache = st.nscache ∧
    (lookup cfg net q zone pool st).1.cnames = st.cnames ∧
    (lookup cfg net q zone pool st).1.lookups = st.lookups + 1 ∧
    (lookup cfg net q zone pool st).1.asked = (pool.zone, zone, q) :: st.asked ∧
    (∀ e ∈ (lookup cfg net q zone pool st).1.log, e ∈ st.log ∨ (e.1 ∈ pool.ips ∧ e.2 = q)) ∧
    (∀ e ∈ st.log, e ∈ (lookup cfg net q zone pool st).1.log) ∧
    (∀ e ∈ (lookup cfg net q zone pool st).1.rcache, e ∈ st.rcache ∨
      (∃ e0, e = (q, .error e0) ∧ ∀ x ∈ errRecords e0, isSubzone zone x.name = true) ∨
      (∃ r, e = (q, .ok r) ∧ (∀ x ∈ r.all, isSubzone zone x.name = true) ∧
        ∃ ip ∈ pool.ips, ∃ r0, net ip q = .msg r0 ∧ Sub r r0)) ∧
    (∀ r, (lookup cfg net q zone pool st).2 = .ok r →
      (∀ x ∈ r.all, isSubzone zone x.name = true) ∧
        ∃ ip ∈ pool.ips, ∃ r0, net ip q = .msg r0 ∧ Sub r r0) ∧
    (∀ e, (lookup cfg net q zone pool st).2 = .error e →
      ∀ x ∈ errRecords e, isSubzone zone x.name = true) := by
  have hp := poolLookup_frame cfg net pool q { st with asked := (pool.zone, zone, q) :: st.asked }
  unfold lookup
  dsimp only
  split
  · rename_i st1 e heq
    rw [heq] at hp
    obtain ⟨h1, h2, h3, h4, h5, h6, h7, _⟩ := hp
    obtain ⟨f1, f2, f3, f4, f5⟩ := cacheErr_frame st1 q (stripErr zone e)
    refine ⟨by rw [f1, h2], by rw [f3, h4], by rw [f4, h5], by rw [f2, h3], ?_, ?_, ?_, ?_, ?_⟩
    · intro x hx; rw [f5] at hx; exact h6 x hx
    · intro x hx; rw [f5]; exact h7 x hx
    · intro x hx
      rcases cacheErr_mem hx with h | h
      · right; left; exact ⟨_, h, stripErr_in_bailiwick zone e⟩
      · left; rw [h1] at h; exact h
    · intro r hr; cases hr
    · intro e' he'; cases he'; exact stripErr_in_bailiwick zone e
  · rename_i st1 r heq
    rw [heq] at hp
    obtain ⟨h1, h2, h3, h4, h5, h6, h7, h8⟩ := hp
    obtain ⟨ip, hip, r0, hn, hsub⟩ := h8 r rfl
    split
    · rename_i hfil
      refine ⟨h2, h4, h5, h3, h6, h7, ?_, ?_, ?_⟩
      · intro x hx; left; rw [h1] at hx; exact hx
      · intro r hr; cases hr
      · intro e' he'; cases he'; intro x hx; simp [errRecords] at hx
    · rename_i r' hfil
      obtain ⟨f1, f2, f3, f4, f5⟩ := cacheOk_frame st1 q r'
      have hb := filter_in_bailiwick hfil
      have hs : Sub r' r0 := (filterResponse_sub hfil).trans hsub
      refine ⟨by rw [f1, h2], by rw [f3, h4], by rw [f4, h5], by rw [f2, h3], ?_, ?_, ?_, ?_, ?_⟩
      · intro x hx; rw [f5] at hx; exact h6 x hx
      · intro x hx; rw [f5]; exact h7 x hx
      · intro x hx
        rcases cacheOk_mem hx with h | h
        · right; right; exact ⟨r', h, hb, ip, hip, r0, hn, hs⟩
        · left; rw [h1] at h; exact h
      · intro r hr
        cases hr
        exact ⟨hb, ip, hip, r0, hn, hs⟩
      · intro e' he'; cases he'

/-! ## 4. `cached_in_bailiwick` -/

/-- Every positive entry of the response cache went through the bailiwick filter of a recorded
`lookup` call for that very query, and all its records are inside the zone that call gave the
filter (the parent of the zone being delegated in `ns_pool_for_name`, the zone of the pool asked
in `resolve`). -/
def CacheClean (st : St) : Prop :=
  ∀ q r, (q, Except.ok r) ∈ st.rcache →
    ∃ a ∈ st.asked, a.2.2 = q ∧ ∀ x ∈ r.all, isSubzone a.2.1 x.name = true

theorem cacheClean_stable (cfg : Config) (net : Net) : Stable cfg net CacheClean (fun _ => True) (fun _ _ => True) (fun _ _ => True) (fun _ => True) where
  root := trivial
  cached := fun _ _ _ _ _ => trivial
  respCached := fun _ _ _ _ _ => trivial
  respLookup := fun _ _ _ _ _ _ => trivial
  fresh := fun _ _ _ _ _ _ _ _ => trivial
  rezone := fun _ _ _ => trivial
  poolLookup := by
    intro st pool q h _ q' r hm
    obtain ⟨h1, _, h3, _⟩ := poolLookup_frame cfg net pool q st
    rw [h1] at hm
    rw [h3]
    exact h q' r hm
  lookup := by
    intro st pool q zone h _ _ q' r hm
    obtain ⟨_, _, _, h4, _, _, h7, _⟩ := lookup_frame cfg net q zone pool st
    rw [h4]
    rcases h7 _ hm with h' | ⟨e0, h', _⟩ | ⟨r', h', hb, _⟩
    · obtain ⟨a, ha, hq, hx⟩ := h q' r h'
      exact ⟨a, List.mem_cons_of_mem _ ha, hq, hx⟩
    · cases h'
    · cases h'
      exact ⟨(pool.zone, zone, q), by simp, rfl, hb⟩
  nsPut := fun st z p h _ => h
  askSelf := fun _ _ => trivial
  fitRoot := fun _ => trivial
  fitHead := fun _ _ _ _ => trivial
  fitTail := fun _ _ _ _ => trivial
  fitCached := fun _ _ _ _ _ _ _ _ => trivial
  fitFresh := fun _ _ _ _ _ => trivial
  cnames := fun st n h => h
  targets := fun st n h => h

/-- **`cached_in_bailiwick`**: a whole resolution — any network, any query, any limits, any
earlier cache contents that were clean — leaves the response cache clean. -/
theorem cached_in_bailiwick (cfg : Config) (net : Net) (q : Query) (st : St) (h : CacheClean st) :
    CacheClean (resolve cfg net q st).1 :=
  resolve_stable (cacheClean_stable cfg net) q st h

theorem cacheClean_empty : CacheClean St.empty := by
  intro q r h; cases h

/-! ## 5. `ns_addrs_allowed` -/

/-- an address the recursor may talk to: a root hint, or one the name-server filter admits -/
def Allowed (cfg : Config) (ip : Ip) : Prop := ip ∈ cfg.roots ∨ cfg.serverFilter.denied ip = false

def PoolAllowed (cfg : Config) (p : Pool) : Prop := ∀ ip ∈ p.ips, Allowed cfg ip

/-- every address ever handed to the network and every address of every cached pool is allowed -/
def AddrInv (cfg : Config) (st : St) : Prop :=
  (∀ e ∈ st.log, Allowed cfg e.1) ∧ (∀ e ∈ st.nscache, PoolAllowed cfg e.2)

theorem mem_nsPut {c : List (Name × Pool)} {z : Name} {p : Pool} {e : Name × Pool}
    (h : e ∈ nsPut c z p) : e = (z, p) ∨ e ∈ c := by
  unfold nsPut at h
  simp only [List.mem_cons, List.mem_filter] at h
  rcases h with h | h
  · left; exact h
  · right; exact h.1

theorem nsGet_mem {c : List (Name × Pool)} {z : Name} {p : Pool} (h : nsGet c z = some p) :
    ∃ k, (k, p) ∈ c ∧ k.eq z = true := by
  unfold nsGet at h
  simp only [Option.map_eq_some_iff] at h
  obtain ⟨e, he, rfl⟩ := h
  exact ⟨e.1, List.mem_of_find?_eq_some he, by simpa using List.find?_some he⟩

theorem addrInv_stable (cfg : Config) (net : Net) :
    Stable cfg net (AddrInv cfg) (PoolAllowed cfg) (fun _ _ => True) (fun _ _ => True) (fun _ => True) where
  root := fun ip h => Or.inl h
  cached := by
    intro st z p h hg
    obtain ⟨k, hk, _⟩ := nsGet_mem hg
    exact h.2 (k, p) hk
  respCached := fun _ _ _ _ _ => trivial
  respLookup := fun _ _ _ _ _ _ => trivial
  fresh := fun rec zone depth pool resp st _ _ ip hip =>
    Or.inr (buildPool_ips_ok rec zone depth pool resp st ip hip)
  rezone := fun p z h => h
  poolLookup := by
    intro st pool q h hp
    obtain ⟨_, h2, _, _, _, h6, _, _⟩ := poolLookup_frame cfg net pool q st
    refine ⟨?_, by rw [h2]; exact h.2⟩
    intro e he
    rcases h6 e he with h' | h'
    · exact h.1 e h'
    · exact hp _ h'.1
  lookup := by
    intro st pool q zone h hp _
    obtain ⟨h1, _, _, _, h5, _, _, _⟩ := lookup_frame cfg net q zone pool st
    refine ⟨?_, by rw [h1]; exact h.2⟩
    intro e he
    rcases h5 e he with h' | h'
    · exact h.1 e h'
    · exact hp _ h'.1
  nsPut := by
    intro st z p h hp
    refine ⟨h.1, ?_⟩
    intro e he
    rcases mem_nsPut he with rfl | h'
    · exact hp
    · exact h.2 e h'
  askSelf := fun _ _ => trivial
  fitRoot := fun _ => trivial
  fitHead := fun _ _ _ _ => trivial
  fitTail := fun _ _ _ _ => trivial
  fitCached := fun _ _ _ _ _ _ _ _ => trivial
  fitFresh := fun _ _ _ _ _ => trivial
  cnames := fun st n h => h
  targets := fun st n h => h

/-- **`ns_addrs_allowed`** (global part): whatever the network answers, every address a
resolution contacts — and every address it leaves behind in a cached pool — is a root hint or
passes the configured name-server filter. -/
theorem ns_addrs_allowed (cfg : Config) (net : Net) (q : Query) (st : St) (h : AddrInv cfg st) :
    AddrInv cfg (resolve cfg net q st).1 :=
  resolve_stable (addrInv_stable cfg net) q st h

theorem addrInv_empty (cfg : Config) : AddrInv cfg St.empty := by
  constructor <;> intro e h <;> simp [St.empty] at h

/-! ## 6. `queries_bounded` — termination with an explicit bound, for every network -/

def isNsRec (x : Record) : Bool := x.rtype == T_NS

/-- number of NS records in a response (all sections) -/
def nsCount (r : Response) : Nat := (r.all.filter isNsRec).length

/-- the only assumption about the network: a response carries at most `N` NS records -/
def NetBound (net : Net) (N : Nat) : Prop := ∀ ip q r, net ip q = .msg r → nsCount r ≤ N

def CacheBound (N : Nat) (st : St) : Prop := ∀ q r, (q, Except.ok r) ∈ st.rcache → nsCount r ≤ N

theorem nsCount_sub {a b : Response} (h : Sub a b) : nsCount a ≤ nsCount b :=
  (h.all.filter _).length_le

theorem cacheBound_stable (cfg : Config) {net : Net} {N : Nat} (hN : NetBound net N) :
    Stable cfg net (CacheBound N) (fun _ => True) (fun _ _ => True) (fun _ _ => True) (fun _ => True) where
  root := trivial
  cached := fun _ _ _ _ _ => trivial
  respCached := fun _ _ _ _ _ => trivial
  respLookup := fun _ _ _ _ _ _ => trivial
  fresh := fun _ _ _ _ _ _ _ _ => trivial
  rezone := fun _ _ _ => trivial
  poolLookup := by
    intro st pool q h _ q' r hm
    obtain ⟨h1, _⟩ := poolLookup_frame cfg net pool q st
    rw [h1] at hm
    exact h q' r hm
  lookup := by
    intro st pool q zone h _ _ q' r hm
    obtain ⟨_, _, _, _, _, _, h7, _⟩ := lookup_frame cfg net q zone pool st
    rcases h7 _ hm with h' | ⟨e0, h', _⟩ | ⟨r', h', _, ip, _, r0, hn, hs⟩
    · exact h q' r h'
    · cases h'
    · cases h'
      exact Nat.le_trans (nsCount_sub hs) (hN ip q r0 hn)
  nsPut := fun st z p h _ => h
  askSelf := fun _ _ => trivial
  fitRoot := fun _ => trivial
  fitHead := fun _ _ _ _ => trivial
  fitTail := fun _ _ _ _ => trivial
  fitCached := fun _ _ _ _ _ _ _ _ => trivial
  fitFresh := fun _ _ _ _ _ => trivial
  cnames := fun st n h => h
  targets := fun st n h => h

/-- the CNAME counter is not touched by anything on the name-server side -/
theorem cnamesEq_stable (cfg : Config) (net : Net) (k : Nat) :
    StableNs cfg net (fun st => st.cnames = k) (fun _ => True) (fun _ _ => True) (fun _ _ => True) (fun _ => True) where
  root := trivial
  cached := fun _ _ _ _ _ => trivial
  respCached := fun _ _ _ _ _ => trivial
  respLookup := fun _ _ _ _ _ _ => trivial
  fresh := fun _ _ _ _ _ _ _ _ => trivial
  rezone := fun _ _ _ => trivial
  poolLookup := by
    intro st pool q h _
    obtain ⟨_, _, _, h4, _⟩ := poolLookup_frame cfg net pool q st
    rw [h4]; exact h
  lookup := by
    intro st pool q zone h _ _
    obtain ⟨_, h2, _⟩ := lookup_frame cfg net q zone pool st
    rw [h2]; exact h
  nsPut := fun st z p h _ => h
  askSelf := fun _ _ => trivial
  fitRoot := fun _ => trivial
  fitHead := fun _ _ _ _ => trivial
  fitTail := fun _ _ _ _ => trivial
  fitCached := fun _ _ _ _ _ _ _ _ => trivial
  fitFresh := fun _ _ _ _ _ => trivial

/-- cost of `ns_pool_for_name` with `f` levels of nesting left: `L = ns_recursion_limit`,
`N` = NS records per response -/
def Tf (L N : Nat) : Nat → Nat
  | 0 => 0
  | f + 1 => L * (1 + N * (Tf L N f + 2))

section bound
variable {cfg : Config} {net : Net} {N : Nat}

/-- what the cost lemmas need to know about the recursive call -/
def NsCost (N : Nat) (rec : NsRec) (c : Nat) : Prop :=
  NsRecOK (CacheBound N) (fun _ => True) rec ∧
    ∀ n d st, CacheBound N st → (rec n d st).1.lookups ≤ st.lookups + c

theorem lookupAddr_cost (p : Pool) (n : Name) (ty : Nat) (st : St) :
    (lookupAddr cfg net p n ty st).1.lookups = st.lookups + 1 := by
  have := (poolLookup_frame cfg net p ⟨n, ty⟩ st).2.2.2.2.1
  unfold lookupAddr
  split <;> rename_i heq <;> rw [heq] at this <;> exact this

theorem lookupAddrs_cost : ∀ (pools : List (Pool × Name)) (st : St),
    (lookupAddrs cfg net pools st).1.lookups = st.lookups + 2 * pools.length := by
  intro pools
  induction pools with
  | nil => intro st; simp [lookupAddrs]
  | cons e rest ih =>
    intro st
    obtain ⟨p, n⟩ := e
    simp only [lookupAddrs, List.length_cons]
    rw [ih, lookupAddr_cost, lookupAddr_cost]
    omega

theorem pickPools_cost (hN : NetBound net N) {rec : NsRec} {c : Nat} (hrec : NsCost N rec c)
    (zone : Name) (depth : Nat) (pool : Pool) :
    ∀ (ns : List Name) (st : St), CacheBound N st →
      (pickPools rec zone depth pool ns st).1.lookups ≤ st.lookups + ns.length * c ∧
      (pickPools rec zone depth pool ns st).2.length ≤ ns.length := by
  intro ns
  induction ns with
  | nil => intro st _; simp [pickPools]
  | cons n ns ih =>
    intro st h
    unfold pickPools
    have hc := hrec.2 n depth st h
    have hs := (hrec.1 n depth st h).1
    simp only [List.length_cons, Nat.add_mul, Nat.one_mul]
    split
    · split
      · rename_i st1 d1 p1 heq
        rw [heq] at hc hs
        obtain ⟨h1, h2⟩ := ih st1 hs
        dsimp only at hc
        simp only [List.length_cons]
        constructor <;> omega
      · rename_i st1 e1 heq
        rw [heq] at hc hs
        obtain ⟨h1, h2⟩ := ih st1 hs
        dsimp only at hc
        constructor <;> omega
    · obtain ⟨h1, h2⟩ := ih st h
      simp only [List.length_cons]
      constructor <;> omega

theorem appendIps_cost (hN : NetBound net N) {rec : NsRec} {c : Nat} (hrec : NsCost N rec c)
    (zone : Name) (depth : Nat) (pool : Pool) (need : List Name) (st : St) (h : CacheBound N st) :
    (appendIps cfg net rec zone depth pool need st).1.lookups ≤ st.lookups + need.length * (c + 2) := by
  unfold appendIps
  obtain ⟨h1, h2⟩ := pickPools_cost (N := N) hN hrec zone depth pool need st h
  dsimp only
  rw [lookupAddrs_cost, Nat.mul_add]
  have : 2 * (pickPools rec zone depth pool need st).2.length ≤ need.length * 2 := by omega
  omega

theorem collectNs_need (f : Acs) (st : St) (parent : Name) :
    ∀ (rs : List Record) (m : GlueMap) (config : List Ip) (need : List Name),
      (collectNs f st parent rs m config need).2.length ≤ need.length + (rs.filter isNsRec).length := by
  intro rs
  induction rs with
  | nil => intro m config need; simp [collectNs]
  | cons r rs ih =>
    intro m config need
    unfold collectNs
    split
    · rename_i target hdata
      have hns : isNsRec r = true := by simp [isNsRec, Record.rtype, hdata, RData.rtype]
      simp only [List.filter_cons, hns, ↓reduceIte, List.length_cons]
      split
      · have := ih m config need; omega
      · split
        · rename_i ip ips _
          have := ih (cachedGlue f st target m) (config ++ ip :: ips) need; omega
        · have := ih (cachedGlue f st target m) config (need ++ [target])
          simp only [List.length_append, List.length_singleton] at this
          omega
    · have := ih m config need
      have : (rs.filter isNsRec).length ≤ ((r :: rs).filter isNsRec).length :=
        (List.Sublist.filter _ (List.sublist_cons_self r rs)).length_le
      omega

theorem nsQuery_cost (hN : NetBound net N) (zone : Name) (pool : Pool) (st : St)
    (h : CacheBound N st) :
    (nsQuery cfg net zone pool st).1.lookups ≤ st.lookups + 1 ∧
    ∀ r, (nsQuery cfg net zone pool st).2 = .ok r → nsCount r ≤ N := by
  unfold nsQuery
  split
  · rename_i v hv
    refine ⟨by dsimp only; omega, ?_⟩
    intro r hr
    dsimp only at hr
    subst hr
    unfold rcGet at hv
    simp only [Option.map_eq_some_iff] at hv
    obtain ⟨e, he, he2⟩ := hv
    have hm := List.mem_of_find?_eq_some he
    exact h e.1 r (by rw [← he2]; exact hm)
  · obtain ⟨_, _, h3, _, _, _, _, h8⟩ := lookup_frame cfg net ⟨zone, T_NS⟩ (base zone) pool st
    refine ⟨by omega, ?_⟩
    intro r hr
    obtain ⟨_, ip, _, r0, hn, hs⟩ := h8.1 r hr
    exact Nat.le_trans (nsCount_sub hs) (hN ip _ r0 hn)

theorem buildPool_cost (hN : NetBound net N) {rec : NsRec} {c : Nat} (hrec : NsCost N rec c)
    (zone : Name) (depth : Nat) (pool : Pool) (resp : Response) (hresp : nsCount resp ≤ N) (st : St)
    (h : CacheBound N st) :
    (buildPool cfg net rec zone depth pool resp st).1.lookups ≤ st.lookups + N * (c + 2) := by
  unfold buildPool
  dsimp only
  have hneed := collectNs_need cfg.serverFilter st (base zone) resp.all
    (addGlue cfg.serverFilter [] resp.all) [] []
  simp only [List.length_nil, Nat.zero_add] at hneed
  have hneed' : (collectNs cfg.serverFilter st (base zone) resp.all
      (addGlue cfg.serverFilter [] resp.all) [] []).2.length ≤ N := Nat.le_trans hneed hresp
  split
  · have := appendIps_cost (cfg := cfg) hN hrec zone depth pool
      (collectNs cfg.serverFilter st (base zone) resp.all
        (addGlue cfg.serverFilter [] resp.all) [] []).2 st h
    have h2 := Nat.mul_le_mul_right (c + 2) hneed'
    omega
  · dsimp only; omega

/-- one iteration: the potential `lookups + (L - depth) * K` does not grow -/
theorem nsStep_cost (hN : NetBound net N) {rec : NsRec} {c : Nat} (hrec : NsCost N rec c)
    (zone : Name) (depth : Nat) (pool : Pool) (st : St) (h : CacheBound N st) (st' : St) (s : Step)
    (heq : nsStep cfg net rec zone depth pool st = (st', s)) :
    match s with
    | .next d' _ =>
      st'.lookups + (cfg.nsRecursionLimit - d') * (1 + N * (c + 2)) ≤
        st.lookups + (cfg.nsRecursionLimit - depth) * (1 + N * (c + 2))
    | .fail _ =>
      st'.lookups ≤ st.lookups + (cfg.nsRecursionLimit - depth) * (1 + N * (c + 2)) := by
  have key : ∀ l' : Nat, depth + 1 < cfg.nsRecursionLimit → l' ≤ st.lookups + (1 + N * (c + 2)) →
      l' + (cfg.nsRecursionLimit - (depth + 1)) * (1 + N * (c + 2)) ≤
        st.lookups + (cfg.nsRecursionLimit - depth) * (1 + N * (c + 2)) := by
    intro l' hd hl
    have : cfg.nsRecursionLimit - depth = (cfg.nsRecursionLimit - (depth + 1)) + 1 := by omega
    rw [this, Nat.add_mul, Nat.one_mul]
    omega
  unfold nsStep at heq
  split at heq
  · cases heq; dsimp only; omega
  · split at heq
    · cases heq; dsimp only; omega
    · rename_i hlim
      have hd : depth + 1 < cfg.nsRecursionLimit := by simpa using hlim
      obtain ⟨hq1, hq2⟩ := nsQuery_cost (cfg := cfg) hN zone pool st h
      have hqs := nsQuery_stable (cacheBound_stable cfg hN).toStableNs zone pool trivial trivial st h
      split at heq
      · rename_i st1 e heq1
        rw [heq1] at hq1 hq2 hqs
        dsimp only at hq1
        split at heq
        · cases heq
          dsimp only
          have := key st'.lookups hd (by omega)
          omega
        · cases heq
          dsimp only
          exact key st'.lookups hd (by omega)
      · rename_i st1 resp heq1
        rw [heq1] at hq1 hq2 hqs
        dsimp only at hq1
        split at heq
        · cases heq
          dsimp only
          exact key st'.lookups hd (by omega)
        · have hb := buildPool_cost (cfg := cfg) hN hrec zone (depth + 1) pool resp (hq2 resp rfl) st1 hqs
          split at heq
          rename_i st2 p2 heq2
          rw [heq2] at hb
          cases heq
          dsimp only at hb ⊢
          exact key st'.lookups hd (by omega)

theorem nsLoop_cost (hN : NetBound net N) {rec : NsRec} {c : Nat} (hrec : NsCost N rec c) :
    ∀ (zs : List Name) (depth : Nat) (pool : Pool) (st : St), CacheBound N st →
      (nsLoop cfg net rec zs depth pool st).1.lookups ≤
        st.lookups + (cfg.nsRecursionLimit - depth) * (1 + N * (c + 2)) := by
  intro zs
  induction zs with
  | nil => intro depth pool st _; simp [nsLoop]
  | cons z zs ih =>
    intro depth pool st h
    have hs := nsStep_stable (cacheBound_stable cfg hN).toStableNs hrec.1 z zs depth pool trivial trivial st h
    unfold nsLoop
    split
    · rename_i st1 e heq
      exact nsStep_cost (cfg := cfg) hN hrec z depth pool st h st1 _ heq
    · rename_i st1 d1 p1 heq
      have hc := nsStep_cost (cfg := cfg) hN hrec z depth pool st h st1 _ heq
      rw [heq] at hs
      dsimp only at hc
      have := ih d1 p1 st1 hs.1
      omega

theorem nsPoolFuel_cost (hN : NetBound net N) :
    ∀ f, NsCost N (nsPoolFuel cfg net f) (Tf cfg.nsRecursionLimit N f) := by
  intro f
  induction f with
  | zero =>
    exact ⟨nsPoolFuel_stable (cacheBound_stable cfg hN).toStableNs 0, fun n d st _ => by simp [nsPoolFuel]⟩
  | succ f ih =>
    refine ⟨nsPoolFuel_stable (cacheBound_stable cfg hN).toStableNs _, ?_⟩
    intro n d st h
    have := nsLoop_cost (cfg := cfg) hN ih (zonesOf n) d (rootPool cfg) st h
    have h2 : (cfg.nsRecursionLimit - d) * (1 + N * (Tf cfg.nsRecursionLimit N f + 2)) ≤
        cfg.nsRecursionLimit * (1 + N * (Tf cfg.nsRecursionLimit N f + 2)) :=
      Nat.mul_le_mul_right _ (Nat.sub_le _ _)
    show (nsLoop cfg net (nsPoolFuel cfg net f) (zonesOf n) d (rootPool cfg) st).1.lookups ≤ _
    unfold Tf
    omega

/-- upstream lookups of one `ns_pool_for_name` call -/
def nsBound (L N : Nat) : Nat := Tf L N (L + 1)

theorem nsPoolForName_cost (hN : NetBound net N) (n : Name) (d : Nat) (st : St)
    (h : CacheBound N st) :
    (nsPoolForName cfg net n d st).1.lookups ≤ st.lookups + nsBound cfg.nsRecursionLimit N :=
  (nsPoolFuel_cost hN _).2 n d st h

/-! the `resolve` side: every nested `resolve` is paid for by one tick of the CNAME counter -/

def ResCost (N : Nat) (R : Nat) (rec : ResRec) : Prop :=
  ResRecOK (CacheBound N) rec ∧
    ∀ q d st, CacheBound N st →
      (rec q d st).1.lookups + R * st.cnames ≤ st.lookups + R * (rec q d st).1.cnames + R

theorem chaseLoop_cost {R : Nat} (hN : NetBound net N) {rec : ResRec} (hrec : ResCost N R rec)
    (resp : Response) (qtype depth : Nat) :
    ∀ (rs chain : List Record) (st : St), CacheBound N st →
      (chaseLoop rec resp qtype depth rs chain st).1.lookups + R * st.cnames ≤
        st.lookups + R * (chaseLoop rec resp qtype depth rs chain st).1.cnames := by
  intro rs
  induction rs with
  | nil => intro chain st _; simp [chaseLoop]
  | cons r rs ih =>
    intro chain st h
    unfold chaseLoop
    split
    · exact ih chain st h
    · rename_i target _
      split
      · exact ih chain st h
      · dsimp only
        have hmul : R * (st.cnames + 1) = R * st.cnames + R := by rw [Nat.mul_add, Nat.mul_one]
        split
        · dsimp only; omega
        · have hst : CacheBound N { st with cnames := st.cnames + 1, targets := st.targets + 1 } := h
          have hc := hrec.2 ⟨target, qtype⟩ depth _ hst
          have hs := hrec.1 ⟨target, qtype⟩ depth _ hst
          split
          · rename_i st1 e heq
            rw [heq] at hc
            dsimp only at hc ⊢
            omega
          · rename_i st1 r' heq
            rw [heq] at hc hs
            dsimp only at hc
            have := ih (chain ++ r'.answers.filter (chainKeeps qtype)) st1 hs
            omega

theorem resolveCnames_cost {R : Nat} (hN : NetBound net N) {rec : ResRec} (hrec : ResCost N R rec)
    (resp : Response) (q : Query) (depth : Nat) (st : St) (h : CacheBound N st) :
    (resolveCnames cfg rec resp q depth st).1.lookups + R * st.cnames ≤
      st.lookups + R * (resolveCnames cfg rec resp q depth st).1.cnames := by
  unfold resolveCnames
  split
  · simp
  · split
    · simp
    · dsimp only
      split
      · simp
      · have hc := chaseLoop_cost (net := net) hN hrec resp q.qtype (depth + 1) resp.all [] st h
        split
        · rename_i st1 e heq; rw [heq] at hc; exact hc
        · rename_i st1 chain heq; rw [heq] at hc; exact hc

theorem answerQuery_cost (q : Query) (pool : Pool) (st : St) :
    (answerQuery cfg net q pool st).1.lookups ≤ st.lookups + 1 ∧
    (answerQuery cfg net q pool st).1.cnames = st.cnames := by
  have hl := lookup_frame cfg net q pool.zone pool st
  unfold answerQuery
  split
  · simp
  · split
    · simp
    · exact ⟨by omega, hl.2.1⟩
  · exact ⟨by omega, hl.2.1⟩

theorem resolveMiss_cost {R : Nat} (hN : NetBound net N) {rec : ResRec} (hrec : ResCost N R rec)
    (q : Query) (depth : Nat) (st : St) (h : CacheBound N st) :
    (resolveMiss cfg net rec q depth st).1.lookups + R * st.cnames ≤
      st.lookups + R * (resolveMiss cfg net rec q depth st).1.cnames +
        (nsBound cfg.nsRecursionLimit N + 1) := by
  have S := cacheBound_stable cfg hN
  unfold resolveMiss
  dsimp only
  have hn := nsPoolForName_stable S.toStableNs (if q.qtype == T_DS then base q.name else q.name) depth st h
  have hcn := nsPoolForName_stable (cnamesEq_stable cfg net st.cnames)
    (if q.qtype == T_DS then base q.name else q.name) depth st rfl
  have hc := nsPoolForName_cost (cfg := cfg) hN (if q.qtype == T_DS then base q.name else q.name) depth st h
  split
  · rename_i st1 e heq
    rw [heq] at hn hcn hc
    have := hcn.1
    dsimp only at this hc
    split <;> dsimp only <;> rw [this] <;> omega
  · rename_i st1 d1 pool heq
    rw [heq] at hn hcn hc
    have hc1 := hcn.1
    dsimp only at hc1 hc
    obtain ⟨ha1, ha2⟩ := answerQuery_cost (cfg := cfg) (net := net) q pool st1
    have ha := answerQuery_stable S.toStableNs q pool trivial st1 hn.1
    split
    · rename_i st2 e heq2
      rw [heq2] at ha1 ha2
      dsimp only at ha1 ha2 ⊢
      rw [ha2, hc1]; omega
    · rename_i st2 resp heq2
      rw [heq2] at ha1 ha2 ha
      dsimp only at ha1 ha2
      have := resolveCnames_cost (cfg := cfg) hN hrec resp q d1 st2 ha
      rw [ha2, hc1] at this
      rw [stripRes_fst]
      omega

theorem resolveFuel_cost (hN : NetBound net N) :
    ∀ f, ResCost N (nsBound cfg.nsRecursionLimit N + 1) (resolveFuel cfg net f) := by
  intro f
  induction f with
  | zero =>
    exact ⟨resolveFuel_stable (cacheBound_stable cfg hN) 0, fun q d st _ => by simp [resolveFuel]⟩
  | succ f ih =>
    refine ⟨resolveFuel_stable (cacheBound_stable cfg hN) _, ?_⟩
    intro q d st h
    unfold resolveFuel
    split
    · simp
    · rename_i r0 _
      split
      · have := resolveCnames_cost (cfg := cfg) hN ih r0 q d st h
        rw [stripRes_fst]
        omega
      · exact resolveMiss_cost hN ih q d st h
    · exact resolveMiss_cost hN ih q d st h

/-! the CNAME counter stops at `MAX_CNAME_LOOKUPS + 1` -/

def CnOK (rec : ResRec) : Prop :=
  ∀ q d st, st.cnames ≤ MAX_CNAME_LOOKUPS →
    (rec q d st).1.cnames ≤ MAX_CNAME_LOOKUPS + 1 ∧
    ∀ r, (rec q d st).2 = .ok r → (rec q d st).1.cnames ≤ MAX_CNAME_LOOKUPS

theorem chaseLoop_cn {rec : ResRec} (hrec : CnOK rec) (resp : Response) (qtype depth : Nat) :
    ∀ (rs chain : List Record) (st : St), st.cnames ≤ MAX_CNAME_LOOKUPS →
      (chaseLoop rec resp qtype depth rs chain st).1.cnames ≤ MAX_CNAME_LOOKUPS + 1 ∧
      ∀ c, (chaseLoop rec resp qtype depth rs chain st).2 = .ok c →
        (chaseLoop rec resp qtype depth rs chain st).1.cnames ≤ MAX_CNAME_LOOKUPS := by
  intro rs
  induction rs with
  | nil => intro chain st h; exact ⟨by simp [chaseLoop]; omega, fun c _ => by simpa [chaseLoop] using h⟩
  | cons r rs ih =>
    intro chain st h
    unfold chaseLoop
    split
    · exact ih chain st h
    · rename_i target _
      split
      · exact ih chain st h
      · dsimp only
        split
        · exact ⟨by dsimp only; omega, fun c hc => by cases hc⟩
        · rename_i hle
          have hle' : st.cnames + 1 ≤ MAX_CNAME_LOOKUPS := by omega
          have hr := hrec ⟨target, qtype⟩ depth { st with cnames := st.cnames + 1, targets := st.targets + 1 } hle'
          split
          · rename_i st1 e heq
            rw [heq] at hr
            exact ⟨hr.1, fun c hc => by cases hc⟩
          · rename_i st1 r' heq
            rw [heq] at hr
            exact ih _ st1 (hr.2 r' rfl)

theorem resolveCnames_cn {rec : ResRec} (hrec : CnOK rec) (resp : Response) (q : Query)
    (depth : Nat) (st : St) (h : st.cnames ≤ MAX_CNAME_LOOKUPS) :
    (resolveCnames cfg rec resp q depth st).1.cnames ≤ MAX_CNAME_LOOKUPS + 1 ∧
    ∀ r, (resolveCnames cfg rec resp q depth st).2 = .ok r →
      (resolveCnames cfg rec resp q depth st).1.cnames ≤ MAX_CNAME_LOOKUPS := by
  unfold resolveCnames
  split
  · exact ⟨by dsimp only; omega, fun _ _ => h⟩
  · split
    · exact ⟨by dsimp only; omega, fun _ _ => h⟩
    · dsimp only
      split
      · exact ⟨by dsimp only; omega, fun _ _ => h⟩
      · have hc := chaseLoop_cn hrec resp q.qtype (depth + 1) resp.all [] st h
        split
        · rename_i st1 e heq; rw [heq] at hc; exact ⟨hc.1, fun r hr => by cases hr⟩
        · rename_i st1 chain heq; rw [heq] at hc; exact ⟨hc.1, fun r _ => hc.2 chain rfl⟩

theorem resolveMiss_cn {rec : ResRec} (hrec : CnOK rec) (q : Query) (depth : Nat) (st : St)
    (h : st.cnames ≤ MAX_CNAME_LOOKUPS) :
    (resolveMiss cfg net rec q depth st).1.cnames ≤ MAX_CNAME_LOOKUPS + 1 ∧
    ∀ r, (resolveMiss cfg net rec q depth st).2 = .ok r →
      (resolveMiss cfg net rec q depth st).1.cnames ≤ MAX_CNAME_LOOKUPS := by
  unfold resolveMiss
  dsimp only
  have hcn := nsPoolForName_stable (cnamesEq_stable cfg net st.cnames)
    (if q.qtype == T_DS then base q.name else q.name) depth st rfl
  split
  · rename_i st1 e heq
    rw [heq] at hcn
    have := hcn.1
    dsimp only at this
    split <;> exact ⟨by dsimp only; omega, fun r hr => by cases hr⟩
  · rename_i st1 d1 pool heq
    rw [heq] at hcn
    have hc1 := hcn.1
    dsimp only at hc1
    obtain ⟨_, ha2⟩ := answerQuery_cost (cfg := cfg) (net := net) q pool st1
    split
    · rename_i st2 e heq2
      rw [heq2] at ha2
      dsimp only at ha2
      exact ⟨by dsimp only; omega, fun r hr => by cases hr⟩
    · rename_i st2 resp heq2
      rw [heq2] at ha2
      dsimp only at ha2
      have hc := resolveCnames_cn (cfg := cfg) hrec resp q d1 st2 (by omega)
      rw [stripRes_fst]
      exact ⟨hc.1, fun r hr => by obtain ⟨r0, h0, _⟩ := stripRes_ok hr; exact hc.2 r0 h0⟩

theorem resolveFuel_cn : ∀ f, CnOK (resolveFuel cfg net f) := by
  intro f
  induction f with
  | zero => intro q d st h; exact ⟨by simp [resolveFuel]; omega, fun r hr => by cases hr⟩
  | succ f ih =>
    intro q d st h
    unfold resolveFuel
    split
    · exact ⟨by dsimp only; omega, fun r hr => by cases hr⟩
    · rename_i r0 _
      split
      · have hc := resolveCnames_cn (cfg := cfg) ih r0 q d st h
        rw [stripRes_fst]
        exact ⟨hc.1, fun r hr => by obtain ⟨r1, h1, _⟩ := stripRes_ok hr; exact hc.2 r1 h1⟩
      · exact resolveMiss_cn ih q d st h
    · exact resolveMiss_cn ih q d st h

/-- The closed-form bound: `L = ns_recursion_limit`, `N` = NS records per response. -/
def B (L N : Nat) : Nat := (MAX_CNAME_LOOKUPS + 2) * (1 + L * (1 + 2 * N)) ^ (L + 1)

theorem Tf_le (L N : Nat) : ∀ f, 1 + Tf L N f ≤ (1 + L * (1 + 2 * N)) ^ f := by
  intro f
  induction f with
  | zero => simp [Tf]
  | succ f ih =>
    have h1 : 1 + N * (Tf L N f + 2) ≤ (1 + 2 * N) * (1 + Tf L N f) := by
      have e1 : N * (Tf L N f + 2) = N * Tf L N f + 2 * N := by rw [Nat.mul_add, Nat.mul_comm N 2]
      have e2 : (1 + 2 * N) * (1 + Tf L N f) = 1 + Tf L N f + 2 * N + 2 * N * Tf L N f := by
        rw [Nat.add_mul, Nat.one_mul, Nat.mul_add, Nat.mul_one]; omega
      have e3 : 2 * N * Tf L N f = N * Tf L N f + N * Tf L N f := by rw [Nat.mul_assoc, Nat.two_mul]
      omega
    have h2 : L * (1 + N * (Tf L N f + 2)) ≤ L * ((1 + 2 * N) * (1 + Tf L N f)) :=
      Nat.mul_le_mul_left _ h1
    have hT : Tf L N (f + 1) = L * (1 + N * (Tf L N f + 2)) := rfl
    have h3 : 1 + Tf L N (f + 1) ≤ (1 + L * (1 + 2 * N)) * (1 + Tf L N f) := by
      rw [Nat.add_mul, Nat.one_mul, Nat.mul_assoc, hT]
      omega
    calc 1 + Tf L N (f + 1) ≤ (1 + L * (1 + 2 * N)) * (1 + Tf L N f) := h3
      _ ≤ (1 + L * (1 + 2 * N)) * (1 + L * (1 + 2 * N)) ^ f := Nat.mul_le_mul_left _ ih
      _ = (1 + L * (1 + 2 * N)) ^ (f + 1) := by rw [Nat.pow_succ, Nat.mul_comm]

/-- **`queries_bounded`**: for EVERY network whose responses carry at most `N` NS records — every
delegation graph: CNAME loops, NS loops, glueless cycles, lame and self-referential delegations —
every query and every starting cache, one resolution makes at most
`B(ns_recursion_limit, N) = (MAX_CNAME_LOOKUPS + 2) · (1 + L·(1 + 2N))^(L+1)` upstream lookups
(`NameServerPool::lookup` calls) before it returns an answer or an error. -/
theorem queries_bounded (hN : NetBound net N) (q : Query) (st : St) (h : CacheBound N st) :
    (resolve cfg net q st).1.lookups ≤ st.lookups + B cfg.nsRecursionLimit N := by
  unfold resolve
  split
  · dsimp only; omega
  · have h0 : CacheBound N { st with cnames := 0 } := h
    have hc := (resolveFuel_cost (cfg := cfg) hN (cfg.recursionLimit + 1)).2 q 0 _ h0
    have hn := (resolveFuel_cn (cfg := cfg) (net := net) (cfg.recursionLimit + 1) q 0
      { st with cnames := 0 } (by dsimp only; omega)).1
    dsimp only at hc hn
    have hT := Tf_le cfg.nsRecursionLimit N (cfg.nsRecursionLimit + 1)
    have hR : nsBound cfg.nsRecursionLimit N + 1 ≤
        (1 + cfg.nsRecursionLimit * (1 + 2 * N)) ^ (cfg.nsRecursionLimit + 1) := by
      unfold nsBound; omega
    have hmul := Nat.mul_le_mul_left (nsBound cfg.nsRecursionLimit N + 1) hn
    have hB : (nsBound cfg.nsRecursionLimit N + 1) * (MAX_CNAME_LOOKUPS + 1) +
        (nsBound cfg.nsRecursionLimit N + 1) ≤ B cfg.nsRecursionLimit N := by
      unfold B
      have : (nsBound cfg.nsRecursionLimit N + 1) * (MAX_CNAME_LOOKUPS + 1) +
          (nsBound cfg.nsRecursionLimit N + 1) =
          (MAX_CNAME_LOOKUPS + 2) * (nsBound cfg.nsRecursionLimit N + 1) := by
        rw [Nat.mul_comm (MAX_CNAME_LOOKUPS + 2), Nat.mul_add, Nat.mul_add]
        omega
      rw [this]
      exact Nat.mul_le_mul_left _ hR
    simp only [Nat.mul_zero, Nat.add_zero] at hc
    omega

theorem cacheBound_empty (N : Nat) : CacheBound N St.empty := by
  intro q r h; cases h

end bound

/-! ## 7. `returned_in_bailiwick` -/

/-- a record has passed the bailiwick filter of some recorded `lookup` call -/
def Prov (st : St) (x : Record) : Prop := ∃ a ∈ st.asked, isSubzone a.2.1 x.name = true

/-- the log of `lookup` calls only grows -/
theorem askedMem_stable (cfg : Config) (net : Net) (a : Name × Name × Query) :
    Stable cfg net (fun st => a ∈ st.asked) (fun _ => True) (fun _ _ => True) (fun _ _ => True) (fun _ => True) where
  root := trivial
  cached := fun _ _ _ _ _ => trivial
  respCached := fun _ _ _ _ _ => trivial
  respLookup := fun _ _ _ _ _ _ => trivial
  fresh := fun _ _ _ _ _ _ _ _ => trivial
  rezone := fun _ _ _ => trivial
  poolLookup := by
    intro st pool q h _
    rw [(poolLookup_frame cfg net pool q st).2.2.1]; exact h
  lookup := by
    intro st pool q zone h _ _
    rw [(lookup_frame cfg net q zone pool st).2.2.2.1]; exact List.mem_cons_of_mem _ h
  nsPut := fun st z p h _ => h
  askSelf := fun _ _ => trivial
  fitRoot := fun _ => trivial
  fitHead := fun _ _ _ _ => trivial
  fitTail := fun _ _ _ _ => trivial
  fitCached := fun _ _ _ _ _ _ _ _ => trivial
  fitFresh := fun _ _ _ _ _ => trivial
  cnames := fun st n h => h
  targets := fun st n h => h

section returned
variable {cfg : Config} {net : Net}

theorem rcGet_mem {c : List (Query × Except Err Response)} {q : Query} {v : Except Err Response}
    (h : rcGet c q = some v) : ∃ k, (k, v) ∈ c := by
  unfold rcGet at h
  simp only [Option.map_eq_some_iff] at h
  obtain ⟨e, he, rfl⟩ := h
  exact ⟨e.1, List.mem_of_find?_eq_some he⟩

theorem prov_of_clean {st : St} (h : CacheClean st) {q : Query} {r : Response}
    (hg : rcGet st.rcache q = some (.ok r)) : ∀ x ∈ r.all, Prov st x := by
  obtain ⟨k, hk⟩ := rcGet_mem hg
  obtain ⟨a, ha, _, hx⟩ := h k r hk
  exact fun x hxr => ⟨a, ha, hx x hxr⟩

theorem answerQuery_ret (q : Query) (pool : Pool) (st : St) (h : CacheClean st) (r : Response)
    (hr : (answerQuery cfg net q pool st).2 = .ok r) :
    ∀ x ∈ r.all, Prov (answerQuery cfg net q pool st).1 x := by
  have hl := lookup_frame cfg net q pool.zone pool st
  have key : ∀ r, (lookup cfg net q pool.zone pool st).2 = .ok r →
      ∀ x ∈ r.all, Prov (lookup cfg net q pool.zone pool st).1 x := by
    intro r hr x hx
    refine ⟨(pool.zone, pool.zone, q), ?_, (hl.2.2.2.2.2.2.2.1 r hr).1 x hx⟩
    rw [hl.2.2.2.1]; simp
  unfold answerQuery at hr ⊢
  split at hr
  · cases hr
  · rename_i r0 hg
    split at hr
    · rename_i haa
      cases hr
      simp only [haa, ↓reduceIte]
      exact prov_of_clean h hg
    · rename_i haa
      simp only [haa]
      exact key r hr
  · exact key r hr

/-- what the loops need to know about the recursive call of `resolve` -/
def ResRet (rec : ResRec) : Prop :=
  (∀ a, ResRecOK (fun st => a ∈ st.asked) rec) ∧ ResRecOK CacheClean rec ∧
    ∀ q d st, CacheClean st → ∀ r, (rec q d st).2 = .ok r → ∀ x ∈ r.all, Prov (rec q d st).1 x

theorem prov_mono {st st' : St} (h : ∀ a, a ∈ st.asked → a ∈ st'.asked) {x : Record}
    (hx : Prov st x) : Prov st' x := by
  obtain ⟨a, ha, hz⟩ := hx
  exact ⟨a, h a ha, hz⟩

theorem chaseLoop_ret {rec : ResRec} (hrec : ResRet rec) (resp : Response) (qtype depth : Nat) :
    ∀ (rs chain : List Record) (st : St), CacheClean st → (∀ x ∈ chain, Prov st x) →
      ∀ c, (chaseLoop rec resp qtype depth rs chain st).2 = .ok c →
        ∀ x ∈ c, Prov (chaseLoop rec resp qtype depth rs chain st).1 x := by
  intro rs
  induction rs with
  | nil =>
    intro chain st _ hch c hc x hx
    simp only [chaseLoop] at hc ⊢
    cases hc; exact hch x hx
  | cons r rs ih =>
    intro chain st h hch c hc
    unfold chaseLoop at hc ⊢
    split at hc
    · rename_i hnone
      try simp only [hnone]
      exact ih chain st h hch c hc
    · rename_i target hsome
      try simp only [hsome]
      split at hc
      · rename_i hany
        simp only [hany, ↓reduceIte]
        exact ih chain st h hch c hc
      · rename_i hany
        simp only [hany]
        dsimp only at hc ⊢
        split at hc
        · cases hc
        · rename_i hle
          simp only [hle, ↓reduceIte]
          have hst : CacheClean { st with cnames := st.cnames + 1, targets := st.targets + 1 } := h
          have hmono := fun a => hrec.1 a ⟨target, qtype⟩ depth { st with cnames := st.cnames + 1, targets := st.targets + 1 }
          have hcl := hrec.2.1 ⟨target, qtype⟩ depth _ hst
          have hret := hrec.2.2 ⟨target, qtype⟩ depth _ hst
          split at hc
          · cases hc
          · rename_i st1 r' heq
            rw [heq] at hmono hcl hret
            try simp only [heq]
            refine ih _ st1 hcl ?_ c hc
            intro x hx
            simp only [List.mem_append, List.mem_filter] at hx
            rcases hx with hx | hx
            · exact prov_mono (fun a ha => hmono a ha) (hch x hx)
            · exact hret r' rfl x (by simp [Response.all, hx.1])

theorem resolveCnames_ret (S : ∀ a, Stable cfg net (fun st => a ∈ st.asked) (fun _ => True) (fun _ _ => True) (fun _ _ => True) (fun _ => True))
    {rec : ResRec} (hrec : ResRet rec) (resp : Response) (q : Query) (depth : Nat) (st : St)
    (h : CacheClean st) (hresp : ∀ x ∈ resp.all, Prov st x) (r : Response)
    (hr : (resolveCnames cfg rec resp q depth st).2 = .ok r) :
    ∀ x ∈ r.all, Prov (resolveCnames cfg rec resp q depth st).1 x := by
  unfold resolveCnames at hr ⊢
  split at hr
  · rename_i hq; simp only [hq, ↓reduceIte]; cases hr; exact hresp
  · rename_i hq
    simp only [hq]
    split at hr
    · rename_i hc; simp only [hc, ↓reduceIte]; cases hr; exact hresp
    · rename_i hc
      simp only [hc]
      dsimp only at hr ⊢
      split at hr
      · cases hr
      · rename_i hlim
        simp only [hlim]
        have hmono := fun a => chaseLoop_stable (S a) (hrec.1 a) resp q.qtype (depth + 1) resp.all [] st
        have hch := chaseLoop_ret hrec resp q.qtype (depth + 1) resp.all [] st h (by simp)
        split at hr
        · cases hr
        · rename_i st1 chain heq
          rw [heq] at hmono hch
          try simp only [heq]
          cases hr
          intro x hx
          simp only [Response.all, List.mem_append] at hx
          have old : ∀ y ∈ resp.all, Prov st1 y := fun y hy => prov_mono (fun a ha => hmono a ha) (hresp y hy)
          rcases hx with ((hx | hx) | hx) | hx
          · exact old x (by simp [Response.all, hx])
          · exact hch chain rfl x hx
          · exact old x (by simp [Response.all, hx])
          · exact old x (by simp [Response.all, hx])

theorem resolveMiss_ret {rec : ResRec} (hrec : ResRet rec) (q : Query) (depth : Nat) (st : St)
    (h : CacheClean st) (r : Response) (hr : (resolveMiss cfg net rec q depth st).2 = .ok r) :
    ∀ x ∈ r.all, Prov (resolveMiss cfg net rec q depth st).1 x := by
  have S := fun a => askedMem_stable cfg net a
  unfold resolveMiss at hr ⊢
  dsimp only at hr ⊢
  have hn := nsPoolForName_stable (cacheClean_stable cfg net).toStableNs
    (if q.qtype == T_DS then base q.name else q.name) depth st h
  split at hr
  · split at hr <;> cases hr
  · rename_i st1 d1 pool heq
    rw [heq] at hn
    try simp only [heq]
    have ha := answerQuery_stable (cacheClean_stable cfg net).toStableNs q pool trivial st1 hn.1
    have hret := answerQuery_ret (cfg := cfg) (net := net) q pool st1 hn.1
    split at hr
    · cases hr
    · rename_i st2 resp heq2
      rw [heq2] at ha hret
      try simp only [heq2]
      rw [stripRes_fst]
      obtain ⟨r0, h0, rfl⟩ := stripRes_ok hr
      intro x hx
      exact resolveCnames_ret S hrec resp q d1 st2 ha (hret resp rfl) r0 h0 x (stripDnssec_mem hx)

theorem resolveFuel_ret : ∀ f, ResRet (resolveFuel cfg net f) := by
  intro f
  induction f with
  | zero =>
    exact ⟨fun a => resolveFuel_stable (askedMem_stable cfg net a) 0,
      resolveFuel_stable (cacheClean_stable cfg net) 0, fun q d st _ r hr => by cases hr⟩
  | succ f ih =>
    refine ⟨fun a => resolveFuel_stable (askedMem_stable cfg net a) _,
      resolveFuel_stable (cacheClean_stable cfg net) _, ?_⟩
    intro q d st h r hr
    unfold resolveFuel at hr ⊢
    split at hr
    · cases hr
    · rename_i r0 hg
      try simp only [hg]
      split at hr
      · rename_i haa
        simp only [haa, ↓reduceIte]
        rw [stripRes_fst]
        obtain ⟨r1, h1, rfl⟩ := stripRes_ok hr
        intro x hx
        exact resolveCnames_ret (fun a => askedMem_stable cfg net a) ih r0 q d st h
          (prov_of_clean h hg) r1 h1 x (stripDnssec_mem hx)
      · rename_i haa
        simp only [haa]
        exact resolveMiss_ret ih q d st h r hr
    · rename_i hg
      try simp only [hg]
      exact resolveMiss_ret ih q d st h r hr

/-- **`returned_in_bailiwick`**: every record of a message returned by `Recursor::resolve` —
from the network or from the cache, directly or through CNAME chasing — has passed the bailiwick
filter of a recorded `lookup` call: its owner is inside the zone that call handed to the filter.
For every network and every clean starting cache. -/
theorem returned_in_bailiwick (cfg : Config) (net : Net) (q : Query) (st : St) (h : CacheClean st)
    (r : Response) (hr : (resolve cfg net q st).2 = .ok r) :
    ∀ x ∈ r.all, Prov (resolve cfg net q st).1 x := by
  unfold resolve at hr ⊢
  split at hr
  · cases hr
  · rename_i hf
    simp only [hf]
    exact (resolveFuel_ret (cfg := cfg) (net := net) _).2.2 q 0 { st with cnames := 0 } h r hr

end returned

/-! ## 8. non-vacuity: a looping internet -/

namespace Ex
def nA : Name := ⟨[[97]], true⟩          -- a.
def nB : Name := ⟨[[98]], true⟩          -- b.
def nNA : Name := ⟨[[110], [97]], true⟩  -- n.a.
def nNB : Name := ⟨[[110], [98]], true⟩  -- n.b.
def nWA : Name := ⟨[[119], [97]], true⟩  -- w.a.
def rootIp : Ip := ⟨false, 1⟩

/-- glueless cycle: `a. NS n.b.` / `b. NS n.a.`, never any glue; everything else is a referral to
the same two NS sets — no address is ever learnt. -/
def cycleNet : Net := fun _ q =>
  let z := if nA.zoneOf q.name then nA else nB
  let t := if nA.zoneOf q.name then nNB else nNA
  .msg { rcode := 0, aa := false, answers := [], authorities := [⟨z, 300, .ns t⟩], additionals := [] }

def cfg (nl : Nat) : Config :=
  { recursionLimit := 24, nsRecursionLimit := nl, roots := [rootIp],
    serverFilter := ⟨[], []⟩, answerFilter := ⟨[], []⟩ }

theorem cycleNet_bound : NetBound cycleNet 1 := by
  intro ip q r h
  simp only [cycleNet] at h
  cases h
  simp [nsCount, Response.all, isNsRec, Record.rtype, RData.rtype]

def isErr (e : Err) : Except Err Response → Bool
  | .error e' => e == e'
  | .ok _ => false

/-- the cycle is followed until the depth counter stops it; no address is ever learnt, so the
resolution ends in an error (an empty pool) after 13 pool lookups, and the only address ever
contacted is the root hint -/
example : isErr .io (resolve (cfg 6) cycleNet ⟨nWA, T_A⟩ St.empty).2 = true := by decide +kernel
example : (resolve (cfg 6) cycleNet ⟨nWA, T_A⟩ St.empty).1.lookups = 13 := by decide +kernel
example : (resolve (cfg 24) cycleNet ⟨nWA, T_A⟩ St.empty).1.lookups = 67 := by decide +kernel
example : ((resolve (cfg 6) cycleNet ⟨nWA, T_A⟩ St.empty).1.log.map (·.1)).all (· == rootIp) = true := by
  decide +kernel

/-- … and `queries_bounded` applies to it -/
example : (resolve (cfg 6) cycleNet ⟨nWA, T_A⟩ St.empty).1.lookups ≤ 0 + B 6 1 :=
  queries_bounded cycleNet_bound _ _ (cacheBound_empty 1)

/-- CNAME loop `a. CNAME b.` / `b. CNAME a.` served by the root itself: the chase stops at the
`recursion_limit` -/
def cnameNet : Net := fun _ q =>
  if q.qtype == T_NS then
    .msg { rcode := 0, aa := true, answers := [], authorities := [⟨Name.root, 300, .soa 300⟩], additionals := [] }
  else
    .msg { rcode := 0, aa := true,
           answers := [⟨q.name, 300, .cname (if q.name.eq nA then nB else nA)⟩],
           authorities := [], additionals := [] }

example : isErr .limit (resolve { cfg 24 with recursionLimit := 5 } cnameNet ⟨nA, T_A⟩ St.empty).2 = true := by
  decide +kernel
example : (resolve { cfg 24 with recursionLimit := 5 } cnameNet ⟨nA, T_A⟩ St.empty).1.lookups = 4 := by
  decide +kernel
end Ex

/-! ## 9. negative responses, and the place where the code does not meet the property

### 9a. negative responses go through the bailiwick rule too  (finding fixed by 030930c)

Before the fix `lookup` returned and cached the `NoRecordsFound` outcome of the pool untouched
(class `C19.NegativeResponseUnfiltered`); the model then only satisfied `negative_payload_partial`
(kept below: the payload is exactly the authority/additional section of the server's response).
With `strip_out_of_bailiwick` the statement holds at full strength. -/

/-- the payload of the error `from_response` makes of a response is part of the authority and
additional sections of that response -/
theorem fromResponse_payload_sub {q : Query} {r : Response} {e : Err}
    (h : fromResponse q r = .error e) : ∀ x ∈ errRecords e, x ∈ r.authorities ++ r.additionals := by
  unfold fromResponse at h
  split at h
  · cases h; intro x hx; simp [errRecords] at hx
  · split at h
    · cases h
      intro x hx
      simp only [errRecords, List.mem_append, Option.mem_toList, List.mem_flatMap, List.mem_map,
        List.mem_filter, List.mem_cons] at hx
      rcases hx with (hx | hx) | ⟨e', ⟨ns, ⟨hns, _⟩, rfl⟩, hx⟩
      · exact List.mem_append_left _ (List.mem_of_find?_eq_some hx)
      · exact List.mem_append_left _ hx
      · rcases hx with rfl | hx
        · exact List.mem_append_left _ hns
        · unfold glueFor at hx
          split at hx
          · exact List.mem_append_right _ (List.mem_filter.1 hx).1
          · cases hx
    · cases h

theorem isNoRecords_of_payload {e : Err} {x : Record} (hx : x ∈ errRecords e) :
    ∃ a b c d t, e = .noRecords a b c d t := by
  cases e with
  | noRecords a b c d t => exact ⟨a, b, c, d, t, rfl⟩
  | _ => simp [errRecords] at hx

theorem negative_payload_partial {zone : Name} {q : Query} {r : Response} {e : Err}
    (hclean : negativeWithForeignRecords zone q r = false) (h : fromResponse q r = .error e) :
    ∀ x ∈ errRecords e, isSubzone zone x.name = true := by
  intro x hx
  obtain ⟨a, b, c, d, t, rfl⟩ := isNoRecords_of_payload hx
  have hsub := fromResponse_payload_sub h x hx
  unfold negativeWithForeignRecords at hclean
  rw [h] at hclean
  simp only [Bool.true_and, List.any_eq_false, Bool.not_eq_true', Bool.not_eq_false] at hclean
  exact hclean x hsub

/-- **`negative_payload_in_bailiwick`**: whatever the network answers, every record carried by an
error `lookup` returns (SOA, authority records, referral NS + glue) is inside the zone handed to
the filter. -/
theorem negative_payload_in_bailiwick (cfg : Config) (net : Net) (q : Query) (zone : Name)
    (pool : Pool) (st : St) (e : Err) (h : (lookup cfg net q zone pool st).2 = .error e) :
    ∀ x ∈ errRecords e, isSubzone zone x.name = true :=
  (lookup_frame cfg net q zone pool st).2.2.2.2.2.2.2.2 e h

/-- every negative entry of the response cache went through the bailiwick rule of a recorded
`lookup` call for that query -/
def CacheCleanNeg (st : St) : Prop :=
  ∀ q e, (q, Except.error e) ∈ st.rcache →
    ∃ a ∈ st.asked, a.2.2 = q ∧ ∀ x ∈ errRecords e, isSubzone a.2.1 x.name = true

theorem cacheCleanNeg_stable (cfg : Config) (net : Net) :
    Stable cfg net CacheCleanNeg (fun _ => True) (fun _ _ => True) (fun _ _ => True)
      (fun _ => True) where
  root := trivial
  cached := fun _ _ _ _ _ => trivial
  respCached := fun _ _ _ _ _ => trivial
  respLookup := fun _ _ _ _ _ _ => trivial
  fresh := fun _ _ _ _ _ _ _ _ => trivial
  rezone := fun _ _ _ => trivial
  poolLookup := by
    intro st pool q h _ q' e hm
    obtain ⟨h1, _, h3, _⟩ := poolLookup_frame cfg net pool q st
    rw [h1] at hm
    rw [h3]
    exact h q' e hm
  lookup := by
    intro st pool q zone h _ _ q' e hm
    obtain ⟨_, _, _, h4, _, _, h7, _⟩ := lookup_frame cfg net q zone pool st
    rw [h4]
    rcases h7 _ hm with h' | ⟨e0, h', hb⟩ | ⟨r', h', _⟩
    · obtain ⟨a, ha, hq, hx⟩ := h q' e h'
      exact ⟨a, List.mem_cons_of_mem _ ha, hq, hx⟩
    · cases h'
      exact ⟨(pool.zone, zone, q), by simp, rfl, hb⟩
    · cases h'
  nsPut := fun st z p h _ => h
  askSelf := fun _ _ => trivial
  fitRoot := fun _ => trivial
  fitHead := fun _ _ _ _ => trivial
  fitTail := fun _ _ _ _ => trivial
  fitCached := fun _ _ _ _ _ _ _ _ => trivial
  fitFresh := fun _ _ _ _ _ => trivial
  cnames := fun st n h => h
  targets := fun st n h => h

/-- **`negative_cached_in_bailiwick`**: a whole resolution over any network leaves only negative
cache entries whose records passed the bailiwick rule. -/
theorem negative_cached_in_bailiwick (cfg : Config) (net : Net) (q : Query) (st : St)
    (h : CacheCleanNeg st) : CacheCleanNeg (resolve cfg net q st).1 :=
  resolve_stable (cacheCleanNeg_stable cfg net) q st h

theorem cacheCleanNeg_empty : CacheCleanNeg St.empty := by
  intro q e h; cases h

namespace Ex
/-- the `a.` server answers `n.a. AAAA` with NODATA and an authority section delegating `b.` -/
def negNet : Net := fun _ _ =>
  .msg { rcode := 0, aa := true, answers := [], authorities := [⟨nB, 300, .ns nNA⟩, ⟨nB, 300, .soa 300⟩],
         additionals := [] }

/-- regression example (replay `corpus/C19/negative-answer-with-foreign-authority.case`, the
counter-example before 030930c): the response has the historic shape, and the error `lookup`
returns for zone `a.` — and the response cache — carry none of the records owned by `b.` -/
example :
    let res := lookup (cfg 24) negNet ⟨nNA, T_AAAA⟩ nA ⟨[rootIp], nA⟩ St.empty
    (match res.2 with
      | .error e => (errRecords e).isEmpty
      | .ok _ => false) = true ∧
    (rcGet res.1.rcache ⟨nNA, T_AAAA⟩).isNone = true ∧
    negativeWithForeignRecords nA ⟨nNA, T_AAAA⟩
      { rcode := 0, aa := true, answers := [],
        authorities := [⟨nB, 300, .ns nNA⟩, ⟨nB, 300, .soa 300⟩], additionals := [] } = true := by
  decide +kernel
end Ex

/-! ### 9a'. negative responses go through the pool's *answer* filter too  (finding fixed by a600360)

Before the fix `NameServerPool::send` applied the answer filter to `Ok` responses only (class
`C19.NegativeResponseAnswerFilterSkipped`); the model then only satisfied `negative_answers_partial`
(kept below).  With `strip_denied_addresses` the statement holds at full strength:
`answers_allowed` (§15) covers negative outcomes as well. -/

theorem negative_answers_partial {f : Acs} {q : Query} {r : Response} {e : Err}
    (hclean : negativeWithDeniedAddress f q r = false) (h : fromResponse q r = .error e) :
    ∀ x ∈ errRecords e, addrAllowed f x = true := by
  intro x hx
  obtain ⟨a, b, c, d, t, rfl⟩ := isNoRecords_of_payload hx
  have hsub := fromResponse_payload_sub h x hx
  unfold negativeWithDeniedAddress at hclean
  rw [h] at hclean
  simp only [Bool.true_and, List.any_eq_false, Bool.not_eq_true', Bool.not_eq_false] at hclean
  exact hclean x hsub

namespace Ex
/-- the `a.` server answers everything with NODATA carrying `w.a. A 666` in the authority
section; the answer filter denies 666 -/
def deniedNet : Net := fun _ _ =>
  .msg { rcode := 0, aa := true, answers := [],
         authorities := [⟨nA, 300, .soa 300⟩, ⟨nWA, 300, .a 666⟩], additionals := [] }

def cfgDeny : Config := { cfg 24 with answerFilter := ⟨[], [⟨false, 666, 32⟩]⟩ }

/-- regression example (replay `corpus/C19/negative-answer-with-denied-address.case`, the
counter-example before a600360): the response has the historic shape, and neither the error
`lookup` returns nor the cache entry carries the denied address any more (the SOA is kept) -/
example :
    let res := lookup cfgDeny deniedNet ⟨nNA, T_AAAA⟩ nA ⟨[rootIp], nA⟩ St.empty
    (match res.2 with
      | .error e => (errRecords e).all (addrAllowed cfgDeny.answerFilter) && !(errRecords e).isEmpty
      | .ok _ => false) = true ∧
    (match rcGet res.1.rcache ⟨nNA, T_AAAA⟩ with
      | some (.error e) => (errRecords e).all (addrAllowed cfgDeny.answerFilter)
      | _ => false) = true ∧
    negativeWithDeniedAddress cfgDeny.answerFilter ⟨nNA, T_AAAA⟩
      { rcode := 0, aa := true, answers := [],
        authorities := [⟨nA, 300, .soa 300⟩, ⟨nWA, 300, .a 666⟩], additionals := [] } = true := by
  decide +kernel
end Ex

/-! ### 9b. `append_ips_from_lookup` takes every address in the answer section, whatever its owner
(`C19.GluelessNsAddressOwnerUnchecked`)

Full-strength statement (FALSE for the code as it is):
  `every address of a pool built through `append_ips_from_lookup` is the rdata of a record whose
   owner is the name-server name that was looked up (or at least inside the zone of the pool asked)`.
The address lookups go straight to the pool — no bailiwick filter, no owner check.  Proved
instead: the addresses are exactly the admitted addresses of the answer section, so the statement
holds for every response without a foreign-owner address record (`¬ foreignOwnerAnswer`). -/

theorem ns_addr_owner_partial {f : Acs} {n : Name} {ty : Nat} {r : Response}
    (hty : ty = T_A ∨ ty = T_AAAA)
    (hclean : foreignOwnerAnswer ⟨n, ty⟩ r = false) :
    ∀ ip ∈ answerIps f r, ∃ x ∈ r.answers, x.name.eq n = true ∧ x.data.ip? = some ip ∧
      f.denied ip = false := by
  intro ip hip
  unfold answerIps at hip
  simp only [List.mem_filter, List.mem_filterMap] at hip
  obtain ⟨⟨x, hx, hxi⟩, hden⟩ := hip
  refine ⟨x, hx, ?_, hxi, by simpa using hden⟩
  unfold foreignOwnerAnswer at hclean
  have hq : (ty == T_A || ty == T_AAAA) = true := by rcases hty with rfl | rfl <;> decide
  simp only [hq, Bool.true_and, List.any_eq_false, Bool.and_eq_true, Bool.not_eq_true',
    not_and, Bool.not_eq_false] at hclean
  exact hclean x hx (by simp [hxi])

namespace Ex
/-- the server asked for `n.b. A` answers with `w.a. A 9` -/
def foreignNet : Net := fun _ _ =>
  .msg { rcode := 0, aa := true, answers := [⟨nWA, 300, .a 9⟩], authorities := [], additionals := [] }

/-- counter-example (replay `corpus/C19/glueless-ns-address-with-foreign-owner.case`): the
address 9, owned by `w.a.`, becomes a name-server address for the zone being built -/
example :
    (lookupAddr (cfg 24) foreignNet ⟨[rootIp], nB⟩ nNB T_A St.empty).2 = [⟨false, 9⟩] ∧
    foreignOwnerAnswer ⟨nNB, T_A⟩
      { rcode := 0, aa := true, answers := [⟨nWA, 300, .a 9⟩], authorities := [], additionals := [] }
      = true := by
  decide +kernel
end Ex

/-! ## 10. the stub resolver's alias chasing -/

theorem stubLookup_le (up : Query → Except Err Response) (pi : Bool) :
    ∀ (f : Nat) (q : Query) (d : Nat) (p : Bool), (stubLookup up pi f q d p).2 ≤ f := by
  intro f
  induction f with
  | zero => intro q d p; simp [stubLookup]
  | succ f ih =>
    intro q d p
    unfold stubLookup
    split
    · simp
    · simp
    · rename_i target cn _
      have := ih ⟨target, q.qtype⟩ (d + 1) (p || (pi && cn))
      dsimp only
      omega

/-- **`stub_alias_chain_le`**: whatever the upstream answers (alias loops included), one stub
lookup sends at most `MAX_QUERY_DEPTH` (8) upstream queries, i.e. follows at most 7 aliases. -/
theorem stub_alias_chain_le (up : Query → Except Err Response) (q : Query) (pi : Bool) :
    (stubResolve up q pi).2 ≤ MAX_QUERY_DEPTH :=
  stubLookup_le up pi _ q 0 false

theorem stubDecide_alias {found was p c c' : Bool} {d : Nat} {s t : Name}
    (h : stubDecide found was p d s c = .alias t c') : depthExhausted d = false := by
  unfold stubDecide at h
  split at h
  · cases h
  · split at h
    · rename_i hc
      simp only [Bool.and_eq_true, Bool.not_eq_true'] at hc
      exact hc.2
    · cases h

theorem stubClassify_alias {q : Query} {p c : Bool} {d : Nat} {u : Except Err Response} {t : Name}
    (h : stubClassify q p d u = .alias t c) : depthExhausted d = false := by
  unfold stubClassify at h
  split at h
  · cases h
  · split at h
    · cases h
    · exact stubDecide_alias h

/-- the recursion of `inner_lookup` is cut by the `DepthTracker`, never by the model's fuel: with
`f` = distance to `MAX_QUERY_DEPTH`, more fuel changes nothing -/
theorem stub_fuel_irrelevant (up : Query → Except Err Response) (pi : Bool) :
    ∀ (f : Nat) (q : Query) (d : Nat) (p : Bool), d + f = MAX_QUERY_DEPTH → 1 ≤ f →
      ∀ k, stubLookup up pi (f + k) q d p = stubLookup up pi f q d p := by
  intro f
  induction f with
  | zero => intro q d p _ h; omega
  | succ f ih =>
    intro q d p hd _ k
    have : f + 1 + k = (f + k) + 1 := by omega
    rw [this]
    unfold stubLookup
    split
    · rfl
    · rfl
    · rename_i target cn hcl
      have hex := stubClassify_alias hcl
      have hf : 1 ≤ f := by
        simp only [depthExhausted, decide_eq_false_iff_not, Nat.not_le] at hex
        omega
      rw [ih _ (d + 1) (p || (pi && cn)) (by omega) hf k]

namespace Ex
/-- an alias loop: every answer is `q CNAME (the other name)` -/
def aliasLoop : Query → Except Err Response := fun q =>
  .ok { rcode := 0, aa := false, answers := [⟨q.name, 60, .cname (if q.name.eq nA then nB else nA)⟩],
        authorities := [], additionals := [] }
example : stubResolve aliasLoop ⟨nA, T_A⟩ = (false, 8) := by decide +kernel
end Ex

/-! ## 11. the fuel of the two recursive entry points is never exhausted

`nsPoolFuel` / `resolveFuel` recurse on a fuel argument only to satisfy Lean; the nesting is cut by
the code's own depth counter.  More fuel than `limit + 1` never changes any result (so the value
computed by the entry points is the value of the unbounded recursion, and the `fuel` error is
never the reason for an outcome). -/

section fuel
variable {cfg : Config} {net : Net}

theorem pickPools_congr {r1 r2 : NsRec} (zone : Name) (depth : Nat) (pool : Pool)
    (h : ∀ n st, r1 n depth st = r2 n depth st) :
    ∀ (ns : List Name) (st : St),
      pickPools r1 zone depth pool ns st = pickPools r2 zone depth pool ns st := by
  intro ns
  induction ns with
  | nil => intro st; rfl
  | cons n ns ih =>
    intro st
    simp only [pickPools, h, ih]

theorem buildPool_congr {r1 r2 : NsRec} (zone : Name) (depth : Nat) (pool : Pool)
    (h : ∀ n st, r1 n depth st = r2 n depth st) (resp : Response) (st : St) :
    buildPool cfg net r1 zone depth pool resp st = buildPool cfg net r2 zone depth pool resp st := by
  simp only [buildPool, appendIps, pickPools_congr zone depth pool h]

theorem nsStep_congr {r1 r2 : NsRec} (zone : Name) (depth : Nat) (pool : Pool)
    (h : depth + 1 < cfg.nsRecursionLimit → ∀ n st, r1 n (depth + 1) st = r2 n (depth + 1) st)
    (st : St) :
    nsStep cfg net r1 zone depth pool st = nsStep cfg net r2 zone depth pool st := by
  by_cases hl : depth + 1 < cfg.nsRecursionLimit
  · simp only [nsStep, buildPool_congr zone (depth + 1) pool (h hl)]
  · simp [nsStep, hl]

theorem nsStep_depth (rec : NsRec) (zone : Name) (depth : Nat) (pool : Pool) (st : St)
    (st' : St) (d' : Nat) (p' : Pool)
    (h : nsStep cfg net rec zone depth pool st = (st', .next d' p')) : depth ≤ d' := by
  unfold nsStep at h
  split at h
  · cases h; omega
  · split at h
    · cases h
    · split at h
      · split at h
        · cases h
        · cases h; omega
      · split at h
        · cases h; omega
        · split at h
          cases h; omega

/-- the two recursive calls agree wherever the loop can still call them -/
def NsAgree (L d : Nat) (r1 r2 : NsRec) : Prop :=
  ∀ n d' st, d < d' → d' < L → r1 n d' st = r2 n d' st

theorem nsLoop_congr {r1 r2 : NsRec} :
    ∀ (zs : List Name) (d : Nat) (pool : Pool) (st : St), NsAgree cfg.nsRecursionLimit d r1 r2 →
      nsLoop cfg net r1 zs d pool st = nsLoop cfg net r2 zs d pool st := by
  intro zs
  induction zs with
  | nil => intro d pool st _; rfl
  | cons z zs ih =>
    intro d pool st h
    have hs := nsStep_congr (cfg := cfg) (net := net) z d pool
      (fun hl n st => h n (d + 1) st (by omega) hl) st
    unfold nsLoop
    rw [hs]
    split
    · rfl
    · rename_i st1 d1 p1 heq
      have hd := nsStep_depth (cfg := cfg) (net := net) r2 z d pool st st1 d1 p1 heq
      exact ih d1 p1 st1 (fun n d' st hlt hL => h n d' st (by omega) hL)

theorem nsPoolFuel_succ : ∀ f, 1 ≤ f → ∀ d, cfg.nsRecursionLimit + 1 ≤ f + d → ∀ n st,
    nsPoolFuel cfg net (f + 1) n d st = nsPoolFuel cfg net f n d st := by
  intro f
  induction f with
  | zero => intro h; omega
  | succ f ih =>
    intro _ d hd n st
    show nsLoop cfg net (nsPoolFuel cfg net (f + 1)) (zonesOf n) d (rootPool cfg) st =
      nsLoop cfg net (nsPoolFuel cfg net f) (zonesOf n) d (rootPool cfg) st
    apply nsLoop_congr
    intro n' d' st' hlt hL
    by_cases hf : 1 ≤ f
    · exact ih hf d' (by omega) n' st'
    · omega

/-- **`ns_fuel_sufficient`**: with any amount of extra fuel `ns_pool_for_name` computes the same
result as with the `ns_recursion_limit + 1` the model uses. -/
theorem ns_fuel_sufficient (k : Nat) (n : Name) (d : Nat) (st : St) :
    nsPoolFuel cfg net (cfg.nsRecursionLimit + 1 + k) n d st = nsPoolForName cfg net n d st := by
  induction k with
  | zero => rfl
  | succ k ih =>
    rw [← ih]
    exact nsPoolFuel_succ (cfg.nsRecursionLimit + 1 + k) (by omega) d (by omega) n st

/-! the same for `resolve` -/

theorem chaseLoop_congr {r1 r2 : ResRec} (resp : Response) (qtype depth : Nat)
    (h : ∀ q st, r1 q depth st = r2 q depth st) :
    ∀ (rs chain : List Record) (st : St),
      chaseLoop r1 resp qtype depth rs chain st = chaseLoop r2 resp qtype depth rs chain st := by
  intro rs
  induction rs with
  | nil => intro chain st; rfl
  | cons r rs ih =>
    intro chain st
    simp only [chaseLoop, h, ih]

theorem resolveCnames_congr {r1 r2 : ResRec} (resp : Response) (q : Query) (depth : Nat)
    (h : depth + 1 < cfg.recursionLimit → ∀ q st, r1 q (depth + 1) st = r2 q (depth + 1) st)
    (st : St) :
    resolveCnames cfg r1 resp q depth st = resolveCnames cfg r2 resp q depth st := by
  by_cases hl : depth + 1 < cfg.recursionLimit
  · simp only [resolveCnames, chaseLoop_congr resp q.qtype (depth + 1) (h hl)]
  · simp [resolveCnames, hl]

def ResAgree (L d : Nat) (r1 r2 : ResRec) : Prop :=
  ∀ q d' st, d < d' → d' < L → r1 q d' st = r2 q d' st

/-- the depth `ns_pool_for_name` hands back is never below the one it was given -/
theorem nsLoop_depth (rec : NsRec) : ∀ (zs : List Name) (d : Nat) (pool : Pool) (st : St)
    (st' : St) (d' : Nat) (p' : Pool),
    nsLoop cfg net rec zs d pool st = (st', .ok (d', p')) → d ≤ d' := by
  intro zs
  induction zs with
  | nil => intro d pool st st' d' p' h; simp only [nsLoop] at h; cases h; omega
  | cons z zs ih =>
    intro d pool st st' d' p' h
    unfold nsLoop at h
    split at h
    · cases h
    · rename_i st1 d1 p1 heq
      have := nsStep_depth (cfg := cfg) (net := net) rec z d pool st st1 d1 p1 heq
      have := ih d1 p1 st1 st' d' p' h
      omega

theorem nsPoolForName_depth (n : Name) (d : Nat) (st st' : St) (d' : Nat) (p' : Pool)
    (h : nsPoolForName cfg net n d st = (st', .ok (d', p'))) : d ≤ d' :=
  nsLoop_depth _ _ _ _ _ _ _ _ h

theorem resolveMiss_congr {r1 r2 : ResRec} (q : Query) (d : Nat) (st : St)
    (h : ResAgree cfg.recursionLimit d r1 r2) :
    resolveMiss cfg net r1 q d st = resolveMiss cfg net r2 q d st := by
  unfold resolveMiss
  dsimp only
  split
  · rfl
  · rename_i st1 d1 pool heq
    have hd := nsPoolForName_depth (cfg := cfg) (net := net) _ d st st1 d1 pool heq
    split
    · rfl
    · rename_i st2 resp _
      rw [resolveCnames_congr resp q d1 (fun hl q' st' => h q' (d1 + 1) st' (by omega) hl) st2]

theorem resolveFuel_succ : ∀ f, 1 ≤ f → ∀ d, cfg.recursionLimit + 1 ≤ f + d → ∀ q st,
    resolveFuel cfg net (f + 1) q d st = resolveFuel cfg net f q d st := by
  intro f
  induction f with
  | zero => intro h; omega
  | succ f ih =>
    intro _ d hd q st
    have hag : ResAgree cfg.recursionLimit d (resolveFuel cfg net (f + 1)) (resolveFuel cfg net f) := by
      intro q' d' st' hlt hL
      by_cases hf : 1 ≤ f
      · exact ih hf d' (by omega) q' st'
      · omega
    have e1 : ∀ r, resolveCnames cfg (resolveFuel cfg net (f + 1)) r q d st =
        resolveCnames cfg (resolveFuel cfg net f) r q d st :=
      fun r => resolveCnames_congr r q d (fun hl q' st' => hag q' (d + 1) st' (by omega) hl) st
    have e2 := resolveMiss_congr (cfg := cfg) (net := net) q d st hag
    show (match rcGet st.rcache q with
      | some (.error e) => ((st, .error e) : St × Except Err Response)
      | some (.ok r) =>
        if r.aa then stripRes cfg q (resolveCnames cfg (resolveFuel cfg net (f + 1)) r q d st)
        else resolveMiss cfg net (resolveFuel cfg net (f + 1)) q d st
      | none => resolveMiss cfg net (resolveFuel cfg net (f + 1)) q d st) =
      (match rcGet st.rcache q with
      | some (.error e) => ((st, .error e) : St × Except Err Response)
      | some (.ok r) =>
        if r.aa then stripRes cfg q (resolveCnames cfg (resolveFuel cfg net f) r q d st)
        else resolveMiss cfg net (resolveFuel cfg net f) q d st
      | none => resolveMiss cfg net (resolveFuel cfg net f) q d st)
    simp only [e1, e2]

/-- **`resolve_fuel_sufficient`**: with any amount of extra fuel `resolve` computes the same
result as with the `recursion_limit + 1` the model uses. -/
theorem resolve_fuel_sufficient (k : Nat) (q : Query) (d : Nat) (st : St) :
    resolveFuel cfg net (cfg.recursionLimit + 1 + k) q d st =
      resolveFuel cfg net (cfg.recursionLimit + 1) q d st := by
  induction k with
  | zero => rfl
  | succ k ih =>
    rw [← ih]
    exact resolveFuel_succ (cfg.recursionLimit + 1 + k) (by omega) d (by omega) q st

end fuel

/-! ## 12. `ns_addrs_allowed`, local part: where the addresses of a freshly built pool come from -/

section origin

def GlueP (P : Ip → Prop) (m : GlueMap) : Prop := ∀ e ∈ m, ∀ ip ∈ e.2, P ip

theorem glueGetP {P : Ip → Prop} {m : GlueMap} (hm : GlueP P m) {n : Name} {ips : List Ip}
    (h : glueGet m n = some ips) : ∀ ip ∈ ips, P ip := by
  unfold glueGet at h
  simp only [Option.map_eq_some_iff] at h
  obtain ⟨e, he, rfl⟩ := h
  exact hm e (List.mem_of_find?_eq_some he)

theorem gluePutP {P : Ip → Prop} {m : GlueMap} (hm : GlueP P m) (n : Name) {ip : Ip} (hip : P ip) :
    GlueP P (gluePut m n ip) := by
  unfold gluePut
  split
  · intro e he ip' hip'
    simp only [List.mem_append, List.mem_singleton] at he
    rcases he with he | rfl
    · exact hm e he ip' hip'
    · simp only [List.mem_singleton] at hip'
      subst hip'; exact hip
  · intro e he ip' hip'
    simp only [List.mem_map] at he
    obtain ⟨e0, he0, rfl⟩ := he
    split at hip'
    · split at hip'
      · exact hm e0 he0 ip' hip'
      · simp only [List.mem_append, List.mem_singleton] at hip'
        rcases hip' with h | rfl
        · exact hm e0 he0 ip' h
        · exact hip
    · exact hm e0 he0 ip' hip'

/-- an address record of `rs` that the name-server filter admits -/
def FromRecords (f : Acs) (rs : List Record) (ip : Ip) : Prop :=
  f.denied ip = false ∧ ∃ x ∈ rs, x.data.ip? = some ip

theorem addGlueP {f : Acs} {P : Ip → Prop} : ∀ (rs : List Record) (m : GlueMap), GlueP P m →
    (∀ ip, FromRecords f rs ip → P ip) → GlueP P (addGlue f m rs) := by
  intro rs
  induction rs with
  | nil => intro m hm _; exact hm
  | cons r rs ih =>
    intro m hm hP
    have hP' : ∀ ip, FromRecords f rs ip → P ip := fun ip h =>
      hP ip ⟨h.1, by obtain ⟨x, hx, hxi⟩ := h.2; exact ⟨x, List.mem_cons_of_mem _ hx, hxi⟩⟩
    unfold addGlue
    split
    · rename_i ip hip
      split
      · exact ih m hm hP'
      · rename_i hden
        exact ih _ (gluePutP hm r.name (hP ip ⟨by simpa using hden, r, by simp, hip⟩)) hP'
    · exact ih m hm hP'

/-- an admitted address record of a positive entry of the response cache -/
def FromCache (f : Acs) (st : St) (ip : Ip) : Prop :=
  ∃ q r, (q, Except.ok r) ∈ st.rcache ∧ FromRecords f r.all ip

theorem cachedGlueP {f : Acs} {P : Ip → Prop} (st : St) (target : Name) {m : GlueMap}
    (hm : GlueP P m) (hP : ∀ ip, FromCache f st ip → P ip) : GlueP P (cachedGlue f st target m) := by
  have step : ∀ (m : GlueMap) (q : Query), GlueP P m → GlueP P (match rcGet st.rcache q with
      | some (.ok r) => addGlue f m r.all
      | _ => m) := by
    intro m q hm
    split
    · rename_i r hg
      obtain ⟨k, hk⟩ := rcGet_mem hg
      exact addGlueP _ _ hm (fun ip h => hP ip ⟨k, r, hk, h⟩)
    · exact hm
  unfold cachedGlue
  exact step _ _ (step m _ hm)

theorem collectNsP {f : Acs} {P : Ip → Prop} (st : St) (parent : Name)
    (hP : ∀ ip, FromCache f st ip → P ip) :
    ∀ (rs : List Record) (m : GlueMap) (config : List Ip) (need : List Name),
      GlueP P m → (∀ ip ∈ config, P ip) →
      ∀ ip ∈ (collectNs f st parent rs m config need).1, P ip := by
  intro rs
  induction rs with
  | nil => intro m config need _ hc; simpa [collectNs] using hc
  | cons r rs ih =>
    intro m config need hm hc
    unfold collectNs
    split
    · rename_i target hdata
      split
      · exact ih m config need hm hc
      · have hm' := cachedGlueP (f := f) st target hm hP
        dsimp only
        split
        · rename_i ip ips hg
          refine ih _ _ need hm' ?_
          intro ip' hip'
          simp only [List.mem_append] at hip'
          rcases hip' with h | h
          · exact hc ip' h
          · exact glueGetP hm' hg ip' h
        · exact ih _ config _ hm' hc
    · exact ih m config need hm hc

/-- **`ns_addrs_allowed`** (local part): every address of a pool built by `ns_pool_for_name` passes
the name-server filter and is
* the rdata of an address record of the NS response the pool is built from (all of whose records
  are in the bailiwick of the parent zone — `nsQuery_in_bailiwick`), or
* the rdata of an address record of a positive entry of the response cache (all of whose records
  are in the bailiwick of the zone that entry was fetched for — `cached_in_bailiwick`), or
* an address `append_ips_from_lookup` obtained by looking the name-server name up (§9b). -/
theorem pool_addr_origin (cfg : Config) (net : Net) (rec : NsRec) (zone : Name) (depth : Nat)
    (pool : Pool) (resp : Response) (st : St) :
    ∀ ip ∈ (buildPool cfg net rec zone depth pool resp st).2.ips,
      FromRecords cfg.serverFilter resp.all ip ∨ FromCache cfg.serverFilter st ip ∨
      (cfg.serverFilter.denied ip = false ∧
        ip ∈ (appendIps cfg net rec zone depth pool
          (collectNs cfg.serverFilter st (base zone) resp.all
            (addGlue cfg.serverFilter [] resp.all) [] []).2 st).2) := by
  unfold buildPool
  dsimp only
  split
  · intro ip hip
    exact Or.inr (Or.inr ⟨appendIps_ok _ _ _ _ _ _ ip hip, hip⟩)
  · intro ip hip
    have := collectNsP (f := cfg.serverFilter)
      (P := fun ip => FromRecords cfg.serverFilter resp.all ip ∨ FromCache cfg.serverFilter st ip)
      st (base zone) (fun ip h => Or.inr h) resp.all (addGlue cfg.serverFilter [] resp.all) [] []
      (addGlueP _ _ (by intro e he; cases he) (fun ip h => Or.inl h)) (by simp) ip hip
    rcases this with h | h
    · exact Or.inl h
    · exact Or.inr (Or.inl h)

/-- the NS response a pool is built from, when it was fetched (not taken from the cache), is in the
bailiwick of the parent of the zone being delegated -/
theorem nsQuery_in_bailiwick (cfg : Config) (net : Net) (zone : Name) (pool : Pool) (st : St)
    (hmiss : rcGet st.rcache ⟨zone, T_NS⟩ = none) (r : Response)
    (h : (nsQuery cfg net zone pool st).2 = .ok r) :
    ∀ x ∈ r.all, isSubzone (base zone) x.name = true := by
  unfold nsQuery at h
  rw [hmiss] at h
  exact ((lookup_frame cfg net ⟨zone, T_NS⟩ (base zone) pool st).2.2.2.2.2.2.2.1 r h).1

end origin

/-! ## 13. the bailiwick handed to the filter is inside the zone of the pool that is asked

`cached_in_bailiwick` / `returned_in_bailiwick` speak about the zone `lookup` hands to the filter.
This section shows that this zone is always inside the zone of the pool that is asked — the zone
whose delegation produced the pool's addresses — so the records are inside "the zone the answering
server was delegated". -/

section askedSound

/-- subzone test on label lists (what `isSubzone` computes) -/
def isAnc (a b : Name) : Prop :=
  a.fqdn = b.fqdn ∧ (a.labels.reverse.map Name.lowerLabel) <+: (b.labels.reverse.map Name.lowerLabel)

theorem isSubzone_iff (a b : Name) : isSubzone a b = true ↔ isAnc a b := by
  unfold isSubzone isAnc Name.zoneOf
  by_cases hf : a.fqdn = b.fqdn
  · simp [hf, List.isPrefixOf_iff_prefix]
  · simp [hf]

theorem isSubzone_refl (a : Name) : isSubzone a a = true :=
  (isSubzone_iff a a).2 ⟨rfl, List.prefix_refl _⟩

theorem isSubzone_trans {a b c : Name} (h1 : isSubzone a b = true) (h2 : isSubzone b c = true) :
    isSubzone a c = true := by
  rw [isSubzone_iff] at *
  exact ⟨h1.1.trans h2.1, h1.2.trans h2.2⟩

/-- names that are equal (`==`, case-insensitive) are the same zone -/
theorem isSubzone_congr_left {k z c : Name} (h : k.eq z = true) : isSubzone k c = isSubzone z c := by
  have hs := (C04.eq_iff k z).1 h
  obtain ⟨hf, hl⟩ := hs
  have hr : k.labels.reverse.map Name.lowerLabel = z.labels.reverse.map Name.lowerLabel := by
    rw [List.map_reverse, List.map_reverse, hl]
  unfold isSubzone Name.zoneOf
  simp only [hf, hr]

theorem trim_of_le {n : Name} {k : Nat} (h : k ≤ n.labels.length) :
    trim n k = ⟨n.labels.drop (n.labels.length - k), true⟩ := by
  unfold trim
  have : ¬ k > n.labels.length := by omega
  simp [this]

theorem base_trim {n : Name} {i : Nat} (h : i + 1 ≤ n.labels.length) :
    base (trim n (i + 1)) = ⟨n.labels.drop (n.labels.length - i), true⟩ := by
  rw [trim_of_le h]
  unfold base
  have hlen : (List.drop (n.labels.length - (i + 1)) n.labels).length = i + 1 := by
    simp only [List.length_drop]; omega
  simp only [hlen, Nat.zero_lt_succ, ↓reduceIte, Nat.add_sub_cancel]
  rw [trim_of_le (by simp only [hlen]; omega)]
  simp only [hlen, List.drop_drop]
  congr 2
  omega

theorem isAnc_drop (L : List Bytes) {a b : Nat} (h : b ≤ a) :
    isAnc ⟨L.drop a, true⟩ ⟨L.drop b, true⟩ := by
  refine ⟨rfl, ?_⟩
  have hsplit : L.drop b = (L.drop b).take (a - b) ++ L.drop a := by
    have := List.take_append_drop (a - b) (L.drop b)
    rw [List.drop_drop] at this
    have hab : b + (a - b) = a := by omega
    rw [hab] at this
    exact this.symm
  show (L.drop a).reverse.map Name.lowerLabel <+: (L.drop b).reverse.map Name.lowerLabel
  rw [hsplit, List.reverse_append, List.map_append]
  exact List.prefix_append _ _

theorem numLabels_le (n : Name) : n.numLabels ≤ n.labels.length := by
  unfold Name.numLabels; split <;> omega

/-- the zones of the descent are nested: an earlier one is an ancestor of the parent of a later one,
and the root is an ancestor of every parent -/
theorem zonesOf_nested (n : Name) :
    (∀ z ∈ zonesOf n, isSubzone Name.root (base z) = true) ∧
    (zonesOf n).Pairwise fun a b => isSubzone a (base b) = true := by
  have hnl := numLabels_le n
  constructor
  · intro z hz
    unfold zonesOf at hz
    simp only [List.mem_map, List.mem_range] at hz
    obtain ⟨i, hi, rfl⟩ := hz
    rw [base_trim (by omega), isSubzone_iff]
    exact ⟨rfl, by simp [Name.root]⟩
  · unfold zonesOf
    rw [List.pairwise_map]
    refine List.Pairwise.imp_of_mem ?_ List.pairwise_lt_range
    intro i j hi hj hij
    simp only [List.mem_range] at hi hj
    rw [base_trim (by omega), trim_of_le (by omega), isSubzone_iff]
    exact isAnc_drop n.labels (by omega)

/-- every cached pool is stored under its own zone -/
def NsKeyed (st : St) : Prop := ∀ e ∈ st.nscache, e.2.zone = e.1

/-- every recorded `lookup` call filtered with a zone inside the zone of the pool it asked -/
def AskedSound (st : St) : Prop := ∀ a ∈ st.asked, isSubzone a.1 a.2.1 = true

def FitDesc (p : Pool) (zs : List Name) : Prop :=
  (∀ z ∈ zs, isSubzone p.zone (base z) = true) ∧ zs.Pairwise fun a b => isSubzone a (base b) = true

theorem askedSound_stable (cfg : Config) (net : Net) :
    Stable cfg net (fun st => NsKeyed st ∧ AskedSound st) (fun _ => True)
      (fun p z => isSubzone p.zone z = true) FitDesc (fun _ => True) where
  root := trivial
  cached := fun _ _ _ _ _ => trivial
  respCached := fun _ _ _ _ _ => trivial
  respLookup := fun _ _ _ _ _ _ => trivial
  fresh := fun _ _ _ _ _ _ _ _ => trivial
  rezone := fun _ _ _ => trivial
  poolLookup := by
    intro st pool q h _
    obtain ⟨_, h2, h3, _⟩ := poolLookup_frame cfg net pool q st
    exact ⟨by unfold NsKeyed; rw [h2]; exact h.1, by unfold AskedSound; rw [h3]; exact h.2⟩
  lookup := by
    intro st pool q zone h _ hask
    obtain ⟨h1, _, _, h4, _⟩ := lookup_frame cfg net q zone pool st
    refine ⟨by unfold NsKeyed; rw [h1]; exact h.1, ?_⟩
    unfold AskedSound
    rw [h4]
    intro a ha
    simp only [List.mem_cons] at ha
    rcases ha with rfl | ha
    · exact hask
    · exact h.2 a ha
  nsPut := by
    intro st z ips h _
    refine ⟨?_, h.2⟩
    intro e he
    rcases mem_nsPut he with rfl | h'
    · rfl
    · exact h.1 e h'
  askSelf := fun p _ => isSubzone_refl p.zone
  fitRoot := fun n => zonesOf_nested n
  fitHead := fun p z zs h => h.1 z (by simp)
  fitTail := fun p z zs h => ⟨fun z' hz' => h.1 z' (List.mem_cons_of_mem _ hz'), h.2.of_cons⟩
  fitCached := by
    intro st p z zs p' h hfit hg
    obtain ⟨k, hk, hkz⟩ := nsGet_mem hg
    have hzone : p'.zone = k := h.1 (k, p') hk
    refine ⟨?_, hfit.2.of_cons⟩
    intro z' hz'
    rw [hzone, isSubzone_congr_left hkz]
    exact (List.pairwise_cons.1 hfit.2).1 z' hz'
  fitFresh := fun p z zs ips hfit =>
    ⟨fun z' hz' => (List.pairwise_cons.1 hfit.2).1 z' hz', hfit.2.of_cons⟩
  cnames := fun st n h => h
  targets := fun st n h => h

/-- **`asked_in_pool_zone`**: in a whole resolution, for every network, every `lookup` call hands
its filter a zone inside the zone of the pool it asks. -/
theorem asked_in_pool_zone (cfg : Config) (net : Net) (q : Query) (st : St)
    (h : NsKeyed st ∧ AskedSound st) :
    NsKeyed (resolve cfg net q st).1 ∧ AskedSound (resolve cfg net q st).1 :=
  resolve_stable (askedSound_stable cfg net) q st h

/-- **`cached_in_pool_bailiwick`**: after any resolution over any network, every record of every
positive cache entry is inside the zone of the pool that was asked for it. -/
theorem cached_in_pool_bailiwick (cfg : Config) (net : Net) (q : Query) (st : St)
    (h1 : CacheClean st) (h2 : NsKeyed st ∧ AskedSound st) :
    ∀ q' r, (q', Except.ok r) ∈ (resolve cfg net q st).1.rcache →
      ∃ a ∈ (resolve cfg net q st).1.asked, a.2.2 = q' ∧
        ∀ x ∈ r.all, isSubzone a.1 x.name = true := by
  intro q' r hm
  obtain ⟨a, ha, hq, hx⟩ := cached_in_bailiwick cfg net q st h1 q' r hm
  have hs := (asked_in_pool_zone cfg net q st h2).2 a ha
  exact ⟨a, ha, hq, fun x hxr => isSubzone_trans hs (hx x hxr)⟩

/-- **`returned_in_pool_bailiwick`**: every record of a returned message is inside the zone of a
pool that was asked during (or, for cached data, before) the resolution. -/
theorem returned_in_pool_bailiwick (cfg : Config) (net : Net) (q : Query) (st : St)
    (h1 : CacheClean st) (h2 : NsKeyed st ∧ AskedSound st) (r : Response)
    (hr : (resolve cfg net q st).2 = .ok r) :
    ∀ x ∈ r.all, ∃ a ∈ (resolve cfg net q st).1.asked, isSubzone a.1 x.name = true := by
  intro x hx
  obtain ⟨a, ha, hz⟩ := returned_in_bailiwick cfg net q st h1 r hr x hx
  exact ⟨a, ha, isSubzone_trans ((asked_in_pool_zone cfg net q st h2).2 a ha) hz⟩

theorem askedSound_empty : NsKeyed St.empty ∧ AskedSound St.empty := by
  constructor <;> intro e h <;> simp [St.empty] at h

end askedSound

/-! ## 14. the total `trim` / `base` of the model are `Name::trim_to` / `Name::base_name` (C04's
model, with the `from_labels(..).unwrap()`) on every name the Rust type can hold -/

theorem trimTo_eq {n : Name} (hn : C04.Bounded n) (k : Nat) : n.trimTo k = .ok (trim n k) := by
  unfold Name.trimTo trim
  split
  · rfl
  · have hdrop : ∀ l ∈ n.labels.drop (n.labels.length - k), 1 ≤ l.length ∧ l.length ≤ 63 :=
      fun l hl => hn.2 l (List.mem_of_mem_drop hl)
    have hsum := C04.sum_drop_le n.labels (n.labels.length - k)
    have hlen : (n.labels.drop (n.labels.length - k)).length ≤ n.labels.length := by simp
    have h1 := hn.1
    unfold Name.encodedLen Name.dataLen at h1
    obtain ⟨r, hr, hrl, hrf⟩ := C04.appendLabels_ok_of_fits Name.root _ hdrop (by
      show Name.root.encodedLen + _ + _ ≤ 255
      have : Name.root.encodedLen = 1 := rfl
      omega)
    have hfl : Name.fromLabels (n.labels.drop (n.labels.length - k)) = .ok r := by
      unfold Name.fromLabels
      have hany : (n.labels.drop (n.labels.length - k)).any
          (fun l => !(Name.labelFromRaw l).isOk) = false := by
        rw [List.any_eq_false]
        intro l hl
        have hraw : Name.labelFromRaw l = .ok l := C04.labelFromRaw_of_len (hdrop l hl)
        simp [hraw, Outcome.isOk]
      rw [hany]
      simp only [Bool.false_eq_true, ↓reduceIte]
      split
      · omega
      · exact hr
    rw [hfl]
    have : r = ⟨n.labels.drop (n.labels.length - k), true⟩ := by
      cases r
      simp only [Name.root, List.nil_append] at hrl hrf
      subst hrl hrf
      rfl
    rw [this]

theorem baseName_eq {n : Name} (hn : C04.Bounded n) : n.baseName = .ok (base n) := by
  unfold Name.baseName base
  split
  · exact trimTo_eq hn _
  · rfl

/-! ## 15. `answers_allowed`: no address the answer filter denies is cached or returned in a message -/

section answers
variable {cfg : Config} {net : Net}

/-- the record is no address record, or its address passes the answer filter -/
def AnsOK (cfg : Config) (x : Record) : Prop := addrAllowed cfg.answerFilter x = true

theorem denied_of_allowsAll {f : Acs} (h : f.allowsAll = true) (ip : Ip) : f.denied ip = false := by
  unfold Acs.denied; simp [h]

theorem answerFilter_allowed {f : Acs} {r r' : Response} (h : answerFilter f r = .ok r') :
    ∀ x ∈ r'.all, addrAllowed f x = true := by
  unfold answerFilter at h
  split at h
  · rename_i hall
    cases h
    intro x _
    unfold addrAllowed
    split
    · simp [denied_of_allowsAll hall]
    · rfl
  · dsimp only at h
    split at h
    · cases h
    · cases h
      intro x hx
      simp only [Response.all, List.mem_append, List.mem_filter] at hx
      rcases hx with (hx | hx) | hx <;> exact hx.2

/-! negative outcomes: what `strip_denied_addresses` leaves passes the answer filter -/

theorem noIp_of_rtype {x : Record} (h : x.rtype = T_SOA ∨ x.rtype = T_NS) : x.data.ip? = none := by
  cases hd : x.data <;>
    simp_all [Record.rtype, RData.rtype, RData.ip?, T_SOA, T_NS, T_A, T_AAAA, T_CNAME, T_TXT, T_SRV, T_RRSIG]

theorem addrAllowed_of_noIp {f : Acs} {x : Record} (h : x.data.ip? = none) :
    addrAllowed f x = true := by
  unfold addrAllowed; rw [h]

theorem addrAllowed_of_allowsAll {f : Acs} (h : f.allowsAll = true) (x : Record) :
    addrAllowed f x = true := by
  unfold addrAllowed
  split
  · simp [denied_of_allowsAll h]
  · rfl

/-- shape of the error `from_response` builds: the SOA is an SOA record, the referral entries are
NS records -/
def ErrShape : Err → Prop
  | .noRecords _ soa ns _ _ =>
    (∀ s, soa = some s → s.rtype = T_SOA) ∧ ∀ en ∈ ns, en.1.rtype = T_NS
  | _ => True

theorem fromResponse_err_shape {q : Query} {r : Response} {e : Err}
    (h : fromResponse q r = .error e) : ErrShape e := by
  unfold fromResponse at h
  split at h
  · cases h; trivial
  · split at h
    · cases h
      refine ⟨?_, ?_⟩
      · intro s hs
        have := List.find?_some hs
        simpa using this
      · intro en hen
        simp only [List.mem_map, List.mem_filter] at hen
        obtain ⟨x, ⟨_, hx⟩, rfl⟩ := hen
        simpa using hx
    · cases h

theorem trySend_err (net : Net) (q : Query) : ∀ (ips : List Ip) (st : St) (e : Err),
    (trySend net q ips st).2 = .error e → e = .io ∨ ∃ r, fromResponse q r = .error e := by
  intro ips
  induction ips with
  | nil => intro st e h; simp only [trySend] at h; cases h; exact Or.inl rfl
  | cons ip rest ih =>
    intro st e h
    unfold trySend at h
    dsimp only at h
    split at h
    · exact ih _ e h
    · rename_i r0 _
      exact Or.inr ⟨r0, h⟩

theorem stripDenied_allowed {f : Acs} {e : Err} (hshape : ErrShape e) :
    ∀ x ∈ errRecords (stripDenied f e), addrAllowed f x = true := by
  cases e with
  | noRecords nx soa ns auths t =>
    intro x hx
    simp only [stripDenied, errRecords, List.mem_append, Option.mem_toList, List.mem_flatMap,
      List.mem_map, List.mem_filter, List.mem_cons] at hx
    rcases hx with (hx | hx) | ⟨e', ⟨e0, he0, rfl⟩, hx⟩
    · exact addrAllowed_of_noIp (noIp_of_rtype (Or.inl (hshape.1 x hx)))
    · exact hx.2
    · rcases hx with rfl | hx
      · exact addrAllowed_of_noIp (noIp_of_rtype (Or.inr (hshape.2 e0 he0)))
      · exact (List.mem_filter.1 hx).2
  | _ => intro x hx; simp [stripDenied, errRecords] at hx

theorem poolLookup_err_allowed (pool : Pool) (q : Query) (st : St) (e : Err)
    (h : (poolLookup cfg net pool q st).2 = .error e) : ∀ x ∈ errRecords e, AnsOK cfg x := by
  have ht := trySend_err net q pool.ips { st with lookups := st.lookups + 1 }
  unfold poolLookup at h
  dsimp only at h
  split at h
  · -- the answer filter turned a response into "everything stripped"
    rename_i st1 r heq
    dsimp only at h
    unfold answerFilter at h
    split at h
    · cases h
    · dsimp only at h
      split at h
      · cases h; intro x hx; simp [errRecords] at hx
      · cases h
  · rename_i st1 e0 heq
    rw [heq] at ht
    dsimp only at h
    by_cases hall : cfg.answerFilter.allowsAll = true
    · intro x _
      exact addrAllowed_of_allowsAll hall x
    · simp only [hall, Bool.false_eq_true, ↓reduceIte, Except.error.injEq] at h
      subst h
      rcases ht e0 rfl with rfl | ⟨r, hr⟩
      · intro x hx; simp [stripDenied, errRecords] at hx
      · exact stripDenied_allowed (fromResponse_err_shape hr)

theorem stripErr_sub (zone : Name) (e : Err) :
    ∀ x ∈ errRecords (stripErr zone e), x ∈ errRecords e := by
  cases e with
  | noRecords nx soa ns auths t =>
    intro x hx
    simp only [stripErr, errRecords, List.mem_append, Option.mem_toList, List.mem_flatMap,
      List.mem_map, List.mem_filter, List.mem_cons] at hx ⊢
    rcases hx with (hx | hx) | ⟨e', ⟨e0, ⟨he0, _⟩, rfl⟩, hx⟩
    · left; left
      cases soa with
      | none => simp at hx
      | some s =>
        by_cases hs : isSubzone zone s.name = true
        · simpa [hs] using hx
        · simp [hs] at hx
    · left; right; exact (mem_bailiwick hx).1
    · right
      refine ⟨e0, he0, ?_⟩
      rcases hx with rfl | hx
      · left; rfl
      · right; exact (mem_bailiwick hx).1
  | _ => intro x hx; simp [stripErr, errRecords] at hx

theorem poolLookup_allowed (pool : Pool) (q : Query) (st : St) (r : Response)
    (h : (poolLookup cfg net pool q st).2 = .ok r) : ∀ x ∈ r.all, AnsOK cfg x := by
  unfold poolLookup at h
  dsimp only at h
  split at h
  · exact answerFilter_allowed h
  · cases h

theorem sub_all_mem {a b : Response} (h : Sub a b) : ∀ x ∈ a.all, x ∈ b.all :=
  fun _ hx => h.all.subset hx

theorem lookup_allowed (q : Query) (zone : Name) (pool : Pool) (st : St) :
    (∀ e ∈ (lookup cfg net q zone pool st).1.rcache, e ∈ st.rcache ∨
      (∃ e0, e = (q, .error e0) ∧ ∀ x ∈ errRecords e0, AnsOK cfg x) ∨
      ∃ r, e = (q, .ok r) ∧ ∀ x ∈ r.all, AnsOK cfg x) ∧
    (∀ r, (lookup cfg net q zone pool st).2 = .ok r → ∀ x ∈ r.all, AnsOK cfg x) ∧
    (∀ e, (lookup cfg net q zone pool st).2 = .error e → ∀ x ∈ errRecords e, AnsOK cfg x) := by
  have hp := poolLookup_allowed (cfg := cfg) (net := net) pool q
    { st with asked := (pool.zone, zone, q) :: st.asked }
  have hpe := poolLookup_err_allowed (cfg := cfg) (net := net) pool q
    { st with asked := (pool.zone, zone, q) :: st.asked }
  have hf := poolLookup_frame cfg net pool q { st with asked := (pool.zone, zone, q) :: st.asked }
  unfold lookup
  dsimp only
  split
  · rename_i st1 e heq
    rw [heq] at hf hpe
    have he : ∀ x ∈ errRecords (stripErr zone e), AnsOK cfg x :=
      fun x hx => hpe e rfl x (stripErr_sub zone e x hx)
    refine ⟨?_, fun r hr => (by cases hr), fun e' he' => (by cases he'; exact he)⟩
    intro x hx
    rcases cacheErr_mem hx with h | h
    · right; left; exact ⟨_, h, he⟩
    · left; rw [hf.1] at h; exact h
  · rename_i st1 r heq
    rw [heq] at hp hf
    have hr := hp r rfl
    split
    · refine ⟨?_, fun r hr => (by cases hr), ?_⟩
      · intro x hx; left; rw [hf.1] at hx; exact hx
      · intro e' he'; cases he'; intro x hx; simp [errRecords] at hx
    · rename_i r' hfil
      have hr' : ∀ x ∈ r'.all, AnsOK cfg x :=
        fun x hx => hr x (sub_all_mem (filterResponse_sub hfil) x hx)
      refine ⟨?_, fun r2 h2 => (by cases h2; exact hr'), fun e' he' => (by cases he')⟩
      intro x hx
      rcases cacheOk_mem hx with h | h
      · right; right; exact ⟨r', h, hr'⟩
      · left; rw [hf.1] at h; exact h

/-- no positive cache entry carries an address the answer filter denies -/
def CacheAns (cfg : Config) (st : St) : Prop :=
  ∀ q r, (q, Except.ok r) ∈ st.rcache → ∀ x ∈ r.all, AnsOK cfg x

theorem cacheAns_stable (cfg : Config) (net : Net) :
    Stable cfg net (CacheAns cfg) (fun _ => True) (fun _ _ => True) (fun _ _ => True) (fun _ => True) where
  root := trivial
  cached := fun _ _ _ _ _ => trivial
  respCached := fun _ _ _ _ _ => trivial
  respLookup := fun _ _ _ _ _ _ => trivial
  fresh := fun _ _ _ _ _ _ _ _ => trivial
  rezone := fun _ _ _ => trivial
  poolLookup := by
    intro st pool q h _ q' r hm
    rw [(poolLookup_frame cfg net pool q st).1] at hm
    exact h q' r hm
  lookup := by
    intro st pool q zone h _ _ q' r hm
    rcases (lookup_allowed (cfg := cfg) (net := net) q zone pool st).1 _ hm with h' | ⟨e0, h', _⟩ | ⟨r', h', hr'⟩
    · exact h q' r h'
    · cases h'
    · cases h'; exact hr'
  nsPut := fun st z p h _ => h
  askSelf := fun _ _ => trivial
  fitRoot := fun _ => trivial
  fitHead := fun _ _ _ _ => trivial
  fitTail := fun _ _ _ _ => trivial
  fitCached := fun _ _ _ _ _ _ _ _ => trivial
  fitFresh := fun _ _ _ _ _ => trivial
  cnames := fun st n h => h
  targets := fun st n h => h

theorem answerQuery_ans (q : Query) (pool : Pool) (st : St) (h : CacheAns cfg st) (r : Response)
    (hr : (answerQuery cfg net q pool st).2 = .ok r) : ∀ x ∈ r.all, AnsOK cfg x := by
  have hl := (lookup_allowed (cfg := cfg) (net := net) q pool.zone pool st).2.1
  unfold answerQuery at hr
  split at hr
  · cases hr
  · rename_i r0 hg
    split at hr
    · obtain ⟨k, hk⟩ := rcGet_mem hg
      cases hr
      exact h k _ hk
    · exact hl r hr
  · exact hl r hr

def ResAns (cfg : Config) (rec : ResRec) : Prop :=
  ResRecOK (CacheAns cfg) rec ∧
    ∀ q d st, CacheAns cfg st → ∀ r, (rec q d st).2 = .ok r → ∀ x ∈ r.all, AnsOK cfg x

theorem chaseLoop_ans {rec : ResRec} (hrec : ResAns cfg rec) (resp : Response) (qtype depth : Nat) :
    ∀ (rs chain : List Record) (st : St), CacheAns cfg st → (∀ x ∈ chain, AnsOK cfg x) →
      ∀ c, (chaseLoop rec resp qtype depth rs chain st).2 = .ok c → ∀ x ∈ c, AnsOK cfg x := by
  intro rs
  induction rs with
  | nil =>
    intro chain st _ hch c hc x hx
    simp only [chaseLoop] at hc
    cases hc; exact hch x hx
  | cons r rs ih =>
    intro chain st h hch c hc
    unfold chaseLoop at hc
    split at hc
    · exact ih chain st h hch c hc
    · rename_i target _
      split at hc
      · exact ih chain st h hch c hc
      · dsimp only at hc
        split at hc
        · cases hc
        · have hst : CacheAns cfg { st with cnames := st.cnames + 1, targets := st.targets + 1 } := h
          have hcl := hrec.1 ⟨target, qtype⟩ depth _ hst
          have hret := hrec.2 ⟨target, qtype⟩ depth _ hst
          split at hc
          · cases hc
          · rename_i st1 r' heq
            rw [heq] at hcl hret
            refine ih _ st1 hcl ?_ c hc
            intro x hx
            simp only [List.mem_append, List.mem_filter] at hx
            rcases hx with hx | hx
            · exact hch x hx
            · exact hret r' rfl x (by simp [Response.all, hx.1])

theorem resolveCnames_ans {rec : ResRec} (hrec : ResAns cfg rec) (resp : Response) (q : Query)
    (depth : Nat) (st : St) (h : CacheAns cfg st) (hresp : ∀ x ∈ resp.all, AnsOK cfg x)
    (r : Response) (hr : (resolveCnames cfg rec resp q depth st).2 = .ok r) :
    ∀ x ∈ r.all, AnsOK cfg x := by
  unfold resolveCnames at hr
  split at hr
  · cases hr; exact hresp
  · split at hr
    · cases hr; exact hresp
    · dsimp only at hr
      split at hr
      · cases hr
      · have hch := chaseLoop_ans hrec resp q.qtype (depth + 1) resp.all [] st h (by simp)
        split at hr
        · cases hr
        · rename_i st1 chain heq
          rw [heq] at hch
          cases hr
          intro x hx
          simp only [Response.all, List.mem_append] at hx
          rcases hx with ((hx | hx) | hx) | hx
          · exact hresp x (by simp [Response.all, hx])
          · exact hch chain rfl x hx
          · exact hresp x (by simp [Response.all, hx])
          · exact hresp x (by simp [Response.all, hx])

theorem resolveMiss_ans {rec : ResRec} (hrec : ResAns cfg rec) (q : Query) (depth : Nat) (st : St)
    (h : CacheAns cfg st) (r : Response) (hr : (resolveMiss cfg net rec q depth st).2 = .ok r) :
    ∀ x ∈ r.all, AnsOK cfg x := by
  unfold resolveMiss at hr
  dsimp only at hr
  have hn := nsPoolForName_stable (cacheAns_stable cfg net).toStableNs
    (if q.qtype == T_DS then base q.name else q.name) depth st h
  split at hr
  · split at hr <;> cases hr
  · rename_i st1 d1 pool heq
    rw [heq] at hn
    have ha := answerQuery_stable (cacheAns_stable cfg net).toStableNs q pool trivial st1 hn.1
    have hret := answerQuery_ans (cfg := cfg) (net := net) q pool st1 hn.1
    split at hr
    · cases hr
    · rename_i st2 resp heq2
      rw [heq2] at ha hret
      obtain ⟨r0, h0, rfl⟩ := stripRes_ok hr
      intro x hx
      exact resolveCnames_ans hrec resp q d1 st2 ha (hret resp rfl) r0 h0 x (stripDnssec_mem hx)

theorem resolveFuel_ans : ∀ f, ResAns cfg (resolveFuel cfg net f) := by
  intro f
  induction f with
  | zero =>
    exact ⟨resolveFuel_stable (cacheAns_stable cfg net) 0, fun q d st _ r hr => by cases hr⟩
  | succ f ih =>
    refine ⟨resolveFuel_stable (cacheAns_stable cfg net) _, ?_⟩
    intro q d st h r hr
    unfold resolveFuel at hr
    split at hr
    · cases hr
    · rename_i r0 hg
      obtain ⟨k, hk⟩ := rcGet_mem hg
      split at hr
      · obtain ⟨r1, h1, rfl⟩ := stripRes_ok hr
        intro x hx
        exact resolveCnames_ans ih r0 q d st h (h k r0 hk) r1 h1 x (stripDnssec_mem hx)
      · exact resolveMiss_ans ih q d st h r hr
    · exact resolveMiss_ans ih q d st h r hr

/-- no negative cache entry carries an address the answer filter denies -/
def CacheAnsNeg (cfg : Config) (st : St) : Prop :=
  ∀ q e, (q, Except.error e) ∈ st.rcache → ∀ x ∈ errRecords e, AnsOK cfg x

theorem cacheAnsNeg_stable (cfg : Config) (net : Net) :
    Stable cfg net (CacheAnsNeg cfg) (fun _ => True) (fun _ _ => True) (fun _ _ => True)
      (fun _ => True) where
  root := trivial
  cached := fun _ _ _ _ _ => trivial
  respCached := fun _ _ _ _ _ => trivial
  respLookup := fun _ _ _ _ _ _ => trivial
  fresh := fun _ _ _ _ _ _ _ _ => trivial
  rezone := fun _ _ _ => trivial
  poolLookup := by
    intro st pool q h _ q' e hm
    rw [(poolLookup_frame cfg net pool q st).1] at hm
    exact h q' e hm
  lookup := by
    intro st pool q zone h _ _ q' e hm
    rcases (lookup_allowed (cfg := cfg) (net := net) q zone pool st).1 _ hm with h' | ⟨e0, h', he0⟩ | ⟨r', h', _⟩
    · exact h q' e h'
    · cases h'; exact he0
    · cases h'
  nsPut := fun st z p h _ => h
  askSelf := fun _ _ => trivial
  fitRoot := fun _ => trivial
  fitHead := fun _ _ _ _ => trivial
  fitTail := fun _ _ _ _ => trivial
  fitCached := fun _ _ _ _ _ _ _ _ => trivial
  fitFresh := fun _ _ _ _ _ => trivial
  cnames := fun st n h => h
  targets := fun st n h => h

theorem ansNeg_of_cache {st : St} (h : CacheAnsNeg cfg st) {q : Query} {e : Err}
    (hg : rcGet st.rcache q = some (.error e)) : ∀ x ∈ errRecords e, AnsOK cfg x := by
  obtain ⟨k, hk⟩ := rcGet_mem hg
  exact h k e hk

theorem nsQuery_errAns (zone : Name) (pool : Pool) (st : St) (h : CacheAnsNeg cfg st) (e : Err)
    (he : (nsQuery cfg net zone pool st).2 = .error e) : ∀ x ∈ errRecords e, AnsOK cfg x := by
  unfold nsQuery at he
  split at he
  · rename_i v hv
    dsimp only at he
    subst he
    exact ansNeg_of_cache h hv
  · exact (lookup_allowed (cfg := cfg) (net := net) _ _ _ _).2.2 e he

theorem nsStep_errAns (rec : NsRec) (zone : Name) (depth : Nat) (pool : Pool) (st : St)
    (h : CacheAnsNeg cfg st) (st' : St) (e : Err)
    (he : nsStep cfg net rec zone depth pool st = (st', .fail e)) :
    ∀ x ∈ errRecords e, AnsOK cfg x := by
  unfold nsStep at he
  split at he
  · cases he
  · split at he
    · cases he; intro x hx; simp [errRecords] at hx
    · have hq := nsQuery_errAns (cfg := cfg) (net := net) zone pool st h
      split at he
      · rename_i st1 e1 heq
        rw [heq] at hq
        split at he
        · cases he; exact hq e rfl
        · cases he
      · split at he
        · cases he
        · split at he; cases he

theorem nsLoop_errAns {rec : NsRec} (hrec : NsRecOK (CacheAnsNeg cfg) (fun _ => True) rec) :
    ∀ (zs : List Name) (depth : Nat) (pool : Pool) (st : St), CacheAnsNeg cfg st →
      ∀ e, (nsLoop cfg net rec zs depth pool st).2 = .error e →
        ∀ x ∈ errRecords e, AnsOK cfg x := by
  intro zs
  induction zs with
  | nil => intro depth pool st _ e he; simp only [nsLoop] at he; cases he
  | cons z zs ih =>
    intro depth pool st h e he
    have hs := nsStep_stable (cacheAnsNeg_stable cfg net).toStableNs hrec z zs depth pool trivial
      trivial st h
    unfold nsLoop at he
    split at he
    · rename_i st1 e1 heq
      cases he
      exact nsStep_errAns rec z depth pool st h st1 e heq
    · rename_i st1 d1 p1 heq
      rw [heq] at hs
      exact ih d1 p1 st1 hs.1 e he

theorem nsPoolForName_errAns (n : Name) (d : Nat) (st : St) (h : CacheAnsNeg cfg st) (e : Err)
    (he : (nsPoolForName cfg net n d st).2 = .error e) : ∀ x ∈ errRecords e, AnsOK cfg x :=
  nsLoop_errAns (nsPoolFuel_stable (cacheAnsNeg_stable cfg net).toStableNs _) _ _ _ _ h e he

theorem answerQuery_errAns (q : Query) (pool : Pool) (st : St) (h : CacheAnsNeg cfg st) (e : Err)
    (he : (answerQuery cfg net q pool st).2 = .error e) : ∀ x ∈ errRecords e, AnsOK cfg x := by
  have hl := (lookup_allowed (cfg := cfg) (net := net) q pool.zone pool st).2.2
  unfold answerQuery at he
  split at he
  · rename_i e0 hg
    cases he
    exact ansNeg_of_cache h hg
  · split at he
    · cases he
    · exact hl e he
  · exact hl e he

def ResErrAns (cfg : Config) (rec : ResRec) : Prop :=
  ResRecOK (CacheAnsNeg cfg) rec ∧
    ∀ q d st, CacheAnsNeg cfg st → ∀ e, (rec q d st).2 = .error e →
      ∀ x ∈ errRecords e, AnsOK cfg x

theorem chaseLoop_errAns {rec : ResRec} (hrec : ResErrAns cfg rec) (resp : Response)
    (qtype depth : Nat) :
    ∀ (rs chain : List Record) (st : St), CacheAnsNeg cfg st →
      ∀ e, (chaseLoop rec resp qtype depth rs chain st).2 = .error e →
        ∀ x ∈ errRecords e, AnsOK cfg x := by
  intro rs
  induction rs with
  | nil => intro chain st _ e he; simp only [chaseLoop] at he; cases he
  | cons r rs ih =>
    intro chain st h e he
    unfold chaseLoop at he
    split at he
    · exact ih chain st h e he
    · rename_i target _
      split at he
      · exact ih chain st h e he
      · dsimp only at he
        split at he
        · cases he; intro x hx; simp [errRecords] at hx
        · have hst : CacheAnsNeg cfg { st with cnames := st.cnames + 1, targets := st.targets + 1 } := h
          have hcl := hrec.1 ⟨target, qtype⟩ depth _ hst
          have her := hrec.2 ⟨target, qtype⟩ depth _ hst
          split at he
          · rename_i st1 e1 heq
            rw [heq] at her
            cases he
            exact her e rfl
          · rename_i st1 r' heq
            rw [heq] at hcl
            exact ih _ st1 hcl e he

theorem resolveCnames_errAns {rec : ResRec} (hrec : ResErrAns cfg rec) (resp : Response)
    (q : Query) (depth : Nat) (st : St) (h : CacheAnsNeg cfg st) (e : Err)
    (he : (resolveCnames cfg rec resp q depth st).2 = .error e) :
    ∀ x ∈ errRecords e, AnsOK cfg x := by
  unfold resolveCnames at he
  split at he
  · cases he
  · split at he
    · cases he
    · dsimp only at he
      split at he
      · cases he; intro x hx; simp [errRecords] at hx
      · have hc := chaseLoop_errAns hrec resp q.qtype (depth + 1) resp.all [] st h
        split at he
        · rename_i st1 e1 heq
          rw [heq] at hc
          cases he
          exact hc e rfl
        · cases he

theorem resolveMiss_errAns {rec : ResRec} (hrec : ResErrAns cfg rec) (q : Query) (depth : Nat)
    (st : St) (h : CacheAnsNeg cfg st) (e : Err)
    (he : (resolveMiss cfg net rec q depth st).2 = .error e) :
    ∀ x ∈ errRecords e, AnsOK cfg x := by
  unfold resolveMiss at he
  dsimp only at he
  have hn := nsPoolForName_stable (cacheAnsNeg_stable cfg net).toStableNs
    (if q.qtype == T_DS then base q.name else q.name) depth st h
  have hne := nsPoolForName_errAns (cfg := cfg) (net := net)
    (if q.qtype == T_DS then base q.name else q.name) depth st h
  split at he
  · rename_i st1 e1 heq
    rw [heq] at hne
    split at he
    · cases he; exact hne e rfl
    · cases he; intro x hx; simp [errRecords] at hx
  · rename_i st1 d1 pool heq
    rw [heq] at hn
    have ha := answerQuery_stable (cacheAnsNeg_stable cfg net).toStableNs q pool trivial st1 hn.1
    have hae := answerQuery_errAns (cfg := cfg) (net := net) q pool st1 hn.1
    split at he
    · rename_i st2 e2 heq2
      rw [heq2] at hae
      cases he
      exact hae e rfl
    · rename_i st2 resp heq2
      rw [heq2] at ha
      exact resolveCnames_errAns hrec resp q d1 st2 ha e (stripRes_err he)

theorem resolveFuel_errAns : ∀ f, ResErrAns cfg (resolveFuel cfg net f) := by
  intro f
  induction f with
  | zero =>
    refine ⟨resolveFuel_stable (cacheAnsNeg_stable cfg net) 0, ?_⟩
    intro q d st _ e he
    simp only [resolveFuel] at he
    cases he
    intro x hx; simp [errRecords] at hx
  | succ f ih =>
    refine ⟨resolveFuel_stable (cacheAnsNeg_stable cfg net) _, ?_⟩
    intro q d st h e he
    unfold resolveFuel at he
    split at he
    · rename_i e0 hg
      cases he
      exact ansNeg_of_cache h hg
    · rename_i r0 hg
      split at he
      · exact resolveCnames_errAns ih r0 q d st h e (stripRes_err he)
      · exact resolveMiss_errAns ih q d st h e he
    · exact resolveMiss_errAns ih q d st h e he

/-- **`answers_allowed`**: for every network, nothing `Recursor::resolve` returns — a message, or
the payload of a negative / referral error (since fix a600360) — and no entry, positive or
negative, that the resolution leaves in the response cache carries an address record the answer
filter denies. -/
theorem answers_allowed (cfg : Config) (net : Net) (q : Query) (st : St) (h : CacheAns cfg st)
    (hn : CacheAnsNeg cfg st) :
    CacheAns cfg (resolve cfg net q st).1 ∧ CacheAnsNeg cfg (resolve cfg net q st).1 ∧
    (∀ r, (resolve cfg net q st).2 = .ok r → ∀ x ∈ r.all, AnsOK cfg x) ∧
    (∀ e, (resolve cfg net q st).2 = .error e → ∀ x ∈ errRecords e, AnsOK cfg x) := by
  refine ⟨resolve_stable (cacheAns_stable cfg net) q st h,
    resolve_stable (cacheAnsNeg_stable cfg net) q st hn, ?_, ?_⟩
  · intro r hr
    unfold resolve at hr
    split at hr
    · cases hr
    · exact (resolveFuel_ans (cfg := cfg) (net := net) _).2 q 0 { st with cnames := 0 } h r hr
  · intro e he
    unfold resolve at he
    split at he
    · cases he; intro x hx; simp [errRecords] at hx
    · exact (resolveFuel_errAns (cfg := cfg) (net := net) _).2 q 0 { st with cnames := 0 } hn e he

theorem cacheAnsNeg_empty (cfg : Config) : CacheAnsNeg cfg St.empty := by
  intro q e h; cases h

theorem cacheAns_empty (cfg : Config) : CacheAns cfg St.empty := by
  intro q r h; cases h

end answers

/-! ## 16. `sends_bounded`: from lookups to messages on the wire

One `NameServerPool::lookup` tries every entry of its pool at most once (no truncation, no `Busy`
back-off in the model), and a pool built by `ns_pool_for_name` has a bounded number of entries if
responses have a bounded number of records.  So the number of `(address, query)` pairs handed to
the network is bounded as well. -/

section sends

def recCount (r : Response) : Nat := r.all.length

/-- second assumption about the network: a response carries at most `R` records -/
def NetBoundR (net : Net) (R : Nat) : Prop := ∀ ip q r, net ip q = .msg r → recCount r ≤ R

def CacheBoundR (R : Nat) (st : St) : Prop :=
  ∀ q r, (q, Except.ok r) ∈ st.rcache → recCount r ≤ R

/-- entries of a pool: the root hints, or what `ns_pool_for_name` can collect from one NS response
with at most `N` NS records when no response has more than `R` records -/
def Pmax (cfg : Config) (N R : Nat) : Nat := cfg.roots.length + (N * (R + 2 * R * N) + 2 * R * N)

def GlueLen (k : Nat) (m : GlueMap) : Prop := ∀ e ∈ m, e.2.length ≤ k

theorem GlueLen.mono {k k' : Nat} {m : GlueMap} (h : GlueLen k m) (hk : k ≤ k') : GlueLen k' m :=
  fun e he => Nat.le_trans (h e he) hk

theorem glueGet_len {k : Nat} {m : GlueMap} (hm : GlueLen k m) {n : Name} {ips : List Ip}
    (h : glueGet m n = some ips) : ips.length ≤ k := by
  unfold glueGet at h
  simp only [Option.map_eq_some_iff] at h
  obtain ⟨e, he, rfl⟩ := h
  exact hm e (List.mem_of_find?_eq_some he)

theorem gluePut_len {k : Nat} {m : GlueMap} (hm : GlueLen k m) (n : Name) (ip : Ip) :
    GlueLen (k + 1) (gluePut m n ip) := by
  unfold gluePut
  split
  · intro e he
    simp only [List.mem_append, List.mem_singleton] at he
    rcases he with he | rfl
    · exact Nat.le_trans (hm e he) (Nat.le_succ _)
    · simp
  · intro e he
    simp only [List.mem_map] at he
    obtain ⟨e0, he0, rfl⟩ := he
    have := hm e0 he0
    split
    · split
      · dsimp only; omega
      · simp only [List.length_append, List.length_singleton]; omega
    · omega

theorem addGlue_len {f : Acs} : ∀ (rs : List Record) (k : Nat) (m : GlueMap), GlueLen k m →
    GlueLen (k + rs.length) (addGlue f m rs) := by
  intro rs
  induction rs with
  | nil => intro k m hm; simpa [addGlue] using hm
  | cons r rs ih =>
    intro k m hm
    unfold addGlue
    have e : k + (r :: rs).length = (k + 1) + rs.length := by simp only [List.length_cons]; omega
    rw [e]
    split
    · split
      · exact ih (k + 1) m (hm.mono (Nat.le_succ _))
      · exact ih (k + 1) _ (gluePut_len hm _ _)
    · exact ih (k + 1) m (hm.mono (Nat.le_succ _))

theorem cachedGlue_len {f : Acs} {R : Nat} {st : St} (hc : CacheBoundR R st) (target : Name)
    {k : Nat} {m : GlueMap} (hm : GlueLen k m) : GlueLen (k + 2 * R) (cachedGlue f st target m) := by
  have step : ∀ (k : Nat) (m : GlueMap) (q : Query), GlueLen k m →
      GlueLen (k + R) (match rcGet st.rcache q with
        | some (.ok r) => addGlue f m r.all
        | _ => m) := by
    intro k m q hm
    split
    · rename_i r hg
      obtain ⟨kq, hk⟩ := rcGet_mem hg
      exact (addGlue_len r.all k m hm).mono (Nat.add_le_add_left (hc kq r hk) _)
    · exact hm.mono (Nat.le_add_right _ _)
  unfold cachedGlue
  have := step (k + R) _ ⟨target, T_AAAA⟩ (step k m ⟨target, T_A⟩ hm)
  have e : k + R + R = k + 2 * R := by omega
  rw [e] at this
  exact this

/-- `c` name servers, each contributing at most `k + 2R·(number processed so far)` addresses -/
def gbound (R c k : Nat) : Nat := c * (k + 2 * R * c)

theorem gbound_step (R c k : Nat) : (k + 2 * R) + gbound R c (k + 2 * R) ≤ gbound R (c + 1) k := by
  unfold gbound
  have e1 : 2 * R * (c + 1) = 2 * R * c + 2 * R := by rw [Nat.mul_add, Nat.mul_one]
  have e2 : k + 2 * R + 2 * R * c = k + (2 * R * c + 2 * R) := by omega
  rw [e1, e2, Nat.add_mul, Nat.one_mul]
  omega

theorem gbound_mono (R c k : Nat) : gbound R c k ≤ gbound R (c + 1) k := by
  unfold gbound
  have e1 : 2 * R * (c + 1) = 2 * R * c + 2 * R := by rw [Nat.mul_add, Nat.mul_one]
  rw [e1, Nat.add_mul, Nat.one_mul]
  have : c * (k + 2 * R * c) ≤ c * (k + (2 * R * c + 2 * R)) := Nat.mul_le_mul_left _ (by omega)
  omega

theorem collectNs_len {f : Acs} {R : Nat} {st : St} (hc : CacheBoundR R st) (parent : Name) :
    ∀ (rs : List Record) (k : Nat) (m : GlueMap) (config : List Ip) (need : List Name),
      GlueLen k m →
      (collectNs f st parent rs m config need).1.length ≤
        config.length + gbound R (rs.filter isNsRec).length k := by
  intro rs
  induction rs with
  | nil => intro k m config need _; simp [collectNs, gbound]
  | cons r rs ih =>
    intro k m config need hm
    unfold collectNs
    split
    · rename_i target hdata
      have hns : isNsRec r = true := by simp [isNsRec, Record.rtype, hdata, RData.rtype]
      simp only [List.filter_cons, hns, ↓reduceIte, List.length_cons]
      have hmono := gbound_mono R (rs.filter isNsRec).length k
      have hstep := gbound_step R (rs.filter isNsRec).length k
      split
      · have := ih k m config need hm; omega
      · have hm' := cachedGlue_len (f := f) hc target hm
        split
        · rename_i ip ips hg
          have hl := glueGet_len hm' hg
          have := ih (k + 2 * R) _ (config ++ ip :: ips) need hm'
          simp only [List.length_append] at this
          omega
        · have := ih (k + 2 * R) _ config (need ++ [target]) hm'
          omega
    · have hsub : (rs.filter isNsRec).length ≤ ((r :: rs).filter isNsRec).length :=
        (List.Sublist.filter _ (List.sublist_cons_self r rs)).length_le
      have := ih k m config need hm
      rename_i hnot
      have hfalse : isNsRec r = false := by
        cases hd : r.data <;> simp_all [isNsRec, Record.rtype, RData.rtype, T_NS, T_A, T_AAAA, T_CNAME, T_SOA, T_TXT, T_SRV, T_RRSIG]
      simp only [List.filter_cons, hfalse, Bool.false_eq_true, ↓reduceIte] at hsub ⊢
      exact this

theorem gbound_le {R c k N : Nat} (hc : c ≤ N) : gbound R c k ≤ N * (k + 2 * R * N) := by
  unfold gbound
  exact Nat.mul_le_mul hc (Nat.add_le_add_left (Nat.mul_le_mul_left _ hc) _)

variable {cfg : Config} {net : Net}

theorem answerIps_len (f : Acs) (r : Response) : (answerIps f r).length ≤ r.all.length := by
  unfold answerIps Response.all
  have h1 := List.length_filter_le (fun ip => !f.denied ip) (r.answers.filterMap fun x => x.data.ip?)
  have h2 := List.length_filterMap_le (fun x : Record => x.data.ip?) r.answers
  simp only [List.length_append]
  omega

theorem lookupAddr_len {R : Nat} (hR : NetBoundR net R) (p : Pool) (n : Name) (ty : Nat) (st : St) :
    (lookupAddr cfg net p n ty st).2.length ≤ R := by
  have hf := (poolLookup_frame cfg net p ⟨n, ty⟩ st).2.2.2.2.2.2.2
  unfold lookupAddr
  split
  · rename_i st1 r heq
    rw [heq] at hf
    obtain ⟨ip, _, r0, hn, hs⟩ := hf r rfl
    have := answerIps_len cfg.serverFilter r
    have h2 : r.all.length ≤ r0.all.length := hs.all.length_le
    have h3 := hR ip _ r0 hn
    unfold recCount at h3
    dsimp only
    omega
  · simp

theorem lookupAddrs_len {R : Nat} (hR : NetBoundR net R) : ∀ (pools : List (Pool × Name)) (st : St),
    (lookupAddrs cfg net pools st).2.length ≤ 2 * R * pools.length := by
  intro pools
  induction pools with
  | nil => intro st; simp [lookupAddrs]
  | cons e rest ih =>
    intro st
    obtain ⟨p, n⟩ := e
    simp only [lookupAddrs, List.length_append, List.length_cons]
    have h1 := lookupAddr_len (cfg := cfg) hR p n T_A st
    have h2 := lookupAddr_len (cfg := cfg) hR p n T_AAAA (lookupAddr cfg net p n T_A st).1
    have h3 := ih (lookupAddr cfg net p n T_AAAA (lookupAddr cfg net p n T_A st).1).1
    rw [Nat.mul_add, Nat.mul_one]
    omega

theorem pickPools_len (rec : NsRec) (zone : Name) (depth : Nat) (pool : Pool) :
    ∀ (ns : List Name) (st : St), (pickPools rec zone depth pool ns st).2.length ≤ ns.length := by
  intro ns
  induction ns with
  | nil => intro st; simp [pickPools]
  | cons n ns ih =>
    intro st
    unfold pickPools
    split
    · split
      · rename_i st1 _ _ _
        have := ih st1
        simp only [List.length_cons]; omega
      · rename_i st1 _ _
        have := ih st1
        simp only [List.length_cons]; omega
    · have := ih st
      simp only [List.length_cons]; omega

theorem buildPool_len {N R : Nat} (hR : NetBoundR net R) (rec : NsRec) (zone : Name) (depth : Nat)
    (pool : Pool) (resp : Response) (hn : nsCount resp ≤ N) (hr : recCount resp ≤ R) (st : St)
    (hc : CacheBoundR R st) :
    (buildPool cfg net rec zone depth pool resp st).2.ips.length ≤
      N * (R + 2 * R * N) + 2 * R * N := by
  unfold buildPool
  dsimp only
  have hneed := collectNs_need cfg.serverFilter st (base zone) resp.all
    (addGlue cfg.serverFilter [] resp.all) [] []
  simp only [List.length_nil, Nat.zero_add] at hneed
  split
  · unfold appendIps
    dsimp only
    have h1 := lookupAddrs_len (cfg := cfg) hR
      (pickPools rec zone depth pool (collectNs cfg.serverFilter st (base zone) resp.all
        (addGlue cfg.serverFilter [] resp.all) [] []).2 st).2
      (pickPools rec zone depth pool (collectNs cfg.serverFilter st (base zone) resp.all
        (addGlue cfg.serverFilter [] resp.all) [] []).2 st).1
    have h2 := pickPools_len rec zone depth pool (collectNs cfg.serverFilter st (base zone) resp.all
        (addGlue cfg.serverFilter [] resp.all) [] []).2 st
    have h3 : 2 * R * (pickPools rec zone depth pool (collectNs cfg.serverFilter st (base zone)
        resp.all (addGlue cfg.serverFilter [] resp.all) [] []).2 st).2.length ≤ 2 * R * N :=
      Nat.mul_le_mul_left _ (by unfold nsCount at hn; omega)
    omega
  · have hg : GlueLen R (addGlue cfg.serverFilter [] resp.all) := by
      have := addGlue_len (f := cfg.serverFilter) resp.all 0 [] (by intro e he; cases he)
      exact this.mono (by unfold recCount at hr; omega)
    have := collectNs_len (f := cfg.serverFilter) hc (base zone) resp.all R _ [] [] hg
    have hb := gbound_le (R := R) (k := R) (c := (resp.all.filter isNsRec).length) (N := N) hn
    simp only [List.length_nil, Nat.zero_add] at this
    dsimp only
    omega

/-- everything the send bound needs to carry along: the two cache bounds, the size of every cached
pool, and the accounting `sends ≤ Pmax · lookups` relative to a starting point `(s0, l0)` -/
def SendInv (cfg : Config) (N R s0 l0 : Nat) (st : St) : Prop :=
  CacheBound N st ∧ CacheBoundR R st ∧ (∀ e ∈ st.nscache, e.2.ips.length ≤ Pmax cfg N R) ∧
    st.log.length + Pmax cfg N R * l0 ≤ s0 + Pmax cfg N R * st.lookups

theorem trySend_len (net : Net) (q : Query) : ∀ (ips : List Ip) (st : St),
    (trySend net q ips st).1.log.length ≤ st.log.length + ips.length := by
  intro ips
  induction ips with
  | nil => intro st; simp [trySend]
  | cons ip rest ih =>
    intro st
    unfold trySend
    dsimp only
    split
    · have := ih { st with log := (ip, q) :: st.log }
      simp only [List.length_cons] at this ⊢
      omega
    · simp only [List.length_cons]; omega

theorem poolLookup_len (pool : Pool) (q : Query) (st : St) :
    (poolLookup cfg net pool q st).1.log.length ≤ st.log.length + pool.ips.length := by
  have := trySend_len net q pool.ips { st with lookups := st.lookups + 1 }
  unfold poolLookup
  dsimp only
  split <;> rename_i heq <;> rw [heq] at this <;> exact this

theorem lookup_len (q : Query) (zone : Name) (pool : Pool) (st : St) :
    (lookup cfg net q zone pool st).1.log.length ≤ st.log.length + pool.ips.length := by
  have := poolLookup_len (cfg := cfg) (net := net) pool q
    { st with asked := (pool.zone, zone, q) :: st.asked }
  unfold lookup
  dsimp only
  split
  · rename_i st1 e heq
    rw [heq] at this
    rw [(cacheErr_frame st1 q (stripErr zone e)).2.2.2.2]
    exact this
  · rename_i st1 r heq
    rw [heq] at this
    split
    · exact this
    · rename_i r' _
      rw [(cacheOk_frame st1 q r').2.2.2.2]
      exact this

theorem sendInv_stable (cfg : Config) {net : Net} {N R : Nat} (hN : NetBound net N)
    (hR : NetBoundR net R) (s0 l0 : Nat) :
    Stable cfg net (SendInv cfg N R s0 l0) (fun p => p.ips.length ≤ Pmax cfg N R)
      (fun _ _ => True) (fun _ _ => True) (fun r => nsCount r ≤ N ∧ recCount r ≤ R) where
  root := by unfold Pmax rootPool; dsimp only; omega
  cached := by
    intro st z p h hg
    obtain ⟨k, hk, _⟩ := nsGet_mem hg
    exact h.2.2.1 (k, p) hk
  respCached := by
    intro st q r h hg
    obtain ⟨k, hk⟩ := rcGet_mem hg
    exact ⟨h.1 k r hk, h.2.1 k r hk⟩
  respLookup := by
    intro st pool q zone r hr
    obtain ⟨_, ip, _, r0, hn, hs⟩ := (lookup_frame cfg net q zone pool st).2.2.2.2.2.2.2.1 r hr
    exact ⟨Nat.le_trans (nsCount_sub hs) (hN ip q r0 hn),
      Nat.le_trans hs.all.length_le (hR ip q r0 hn)⟩
  fresh := by
    intro rec zone depth pool resp st h hresp
    have := buildPool_len (cfg := cfg) hR rec zone depth pool resp hresp.1 hresp.2 st h.2.1
    unfold Pmax; omega
  rezone := fun p z h => h
  poolLookup := by
    intro st pool q h hp
    obtain ⟨h1, h2, _, _, h5, _⟩ := poolLookup_frame cfg net pool q st
    have hl := poolLookup_len (cfg := cfg) (net := net) pool q st
    refine ⟨?_, ?_, by rw [h2]; exact h.2.2.1, ?_⟩
    · intro q' r hm; rw [h1] at hm; exact h.1 q' r hm
    · intro q' r hm; rw [h1] at hm; exact h.2.1 q' r hm
    · rw [h5, Nat.mul_add, Nat.mul_one]
      have := h.2.2.2
      omega
  lookup := by
    intro st pool q zone h hp _
    obtain ⟨h1, _, h3, _, _, _, h7, _⟩ := lookup_frame cfg net q zone pool st
    have hl := lookup_len (cfg := cfg) (net := net) q zone pool st
    refine ⟨?_, ?_, by rw [h1]; exact h.2.2.1, ?_⟩
    · intro q' r hm
      rcases h7 _ hm with h' | ⟨e0, h', _⟩ | ⟨r', h', _, ip, _, r0, hn, hs⟩
      · exact h.1 q' r h'
      · cases h'
      · cases h'; exact Nat.le_trans (nsCount_sub hs) (hN ip q r0 hn)
    · intro q' r hm
      rcases h7 _ hm with h' | ⟨e0, h', _⟩ | ⟨r', h', _, ip, _, r0, hn, hs⟩
      · exact h.2.1 q' r h'
      · cases h'
      · cases h'; exact Nat.le_trans hs.all.length_le (hR ip q r0 hn)
    · rw [h3, Nat.mul_add, Nat.mul_one]
      have := h.2.2.2
      omega
  nsPut := by
    intro st z ips h hp
    refine ⟨h.1, h.2.1, ?_, h.2.2.2⟩
    intro e he
    rcases mem_nsPut he with rfl | h'
    · exact hp
    · exact h.2.2.1 e h'
  askSelf := fun _ _ => trivial
  fitRoot := fun _ => trivial
  fitHead := fun _ _ _ _ => trivial
  fitTail := fun _ _ _ _ => trivial
  fitCached := fun _ _ _ _ _ _ _ _ => trivial
  fitFresh := fun _ _ _ _ _ => trivial
  cnames := fun st n h => h
  targets := fun st n h => h

/-- **`sends_bounded`**: for every network whose responses carry at most `N` NS records and at most
`R` records, one resolution hands at most `Pmax · B(L, N)` `(address, query)` pairs to the network,
`Pmax = #root hints + N(R + 2RN) + 2RN`. -/
theorem sends_bounded (cfg : Config) {net : Net} {N R : Nat} (hN : NetBound net N)
    (hR : NetBoundR net R) (q : Query) (st : St) (h1 : CacheBound N st) (h2 : CacheBoundR R st)
    (h3 : ∀ e ∈ st.nscache, e.2.ips.length ≤ Pmax cfg N R) :
    (resolve cfg net q st).1.log.length ≤
      st.log.length + Pmax cfg N R * B cfg.nsRecursionLimit N := by
  have hinv : SendInv cfg N R st.log.length st.lookups st := ⟨h1, h2, h3, Nat.le_refl _⟩
  have := (resolve_stable (sendInv_stable cfg hN hR st.log.length st.lookups) q st hinv).2.2.2
  have hb := queries_bounded (cfg := cfg) hN q st h1
  have hm := Nat.mul_le_mul_left (Pmax cfg N R) hb
  rw [Nat.mul_add] at hm
  omega

end sends

/-! ## 17. `returned_error_in_bailiwick`: the records carried by an error `resolve` returns -/

section returnedErr
variable {cfg : Config} {net : Net}

theorem provNeg_of_clean {st : St} (h : CacheCleanNeg st) {q : Query} {e : Err}
    (hg : rcGet st.rcache q = some (.error e)) : ∀ x ∈ errRecords e, Prov st x := by
  obtain ⟨k, hk⟩ := rcGet_mem hg
  obtain ⟨a, ha, _, hx⟩ := h k e hk
  exact fun x hxr => ⟨a, ha, hx x hxr⟩

theorem lookup_err_prov (q : Query) (zone : Name) (pool : Pool) (st : St) (e : Err)
    (h : (lookup cfg net q zone pool st).2 = .error e) :
    ∀ x ∈ errRecords e, Prov (lookup cfg net q zone pool st).1 x := by
  have hl := lookup_frame cfg net q zone pool st
  intro x hx
  refine ⟨(pool.zone, zone, q), ?_, hl.2.2.2.2.2.2.2.2 e h x hx⟩
  rw [hl.2.2.2.1]; simp

theorem nsQuery_err (zone : Name) (pool : Pool) (st : St) (h : CacheCleanNeg st) (e : Err)
    (he : (nsQuery cfg net zone pool st).2 = .error e) :
    ∀ x ∈ errRecords e, Prov (nsQuery cfg net zone pool st).1 x := by
  unfold nsQuery at he ⊢
  split at he
  · rename_i v hv
    dsimp only at he
    subst he
    exact provNeg_of_clean h hv
  · exact lookup_err_prov _ _ _ _ e he

theorem no_records_limit : ∀ x, x ∉ errRecords Err.limit := by intro x hx; simp [errRecords] at hx

/-- the error of one iteration is the error of its NS query (or the depth limit); `buildPool`
and the recursive calls swallow their errors -/
theorem nsStep_err (rec : NsRec) (zone : Name) (depth : Nat) (pool : Pool) (st : St)
    (h : CacheCleanNeg st) (st' : St) (e : Err)
    (he : nsStep cfg net rec zone depth pool st = (st', .fail e)) :
    ∀ x ∈ errRecords e, Prov st' x := by
  unfold nsStep at he
  split at he
  · cases he
  · split at he
    · cases he; intro x hx; exact absurd hx (no_records_limit x)
    · have hq := nsQuery_err (cfg := cfg) (net := net) zone pool st h
      split at he
      · rename_i st1 e1 heq
        rw [heq] at hq
        split at he
        · cases he; exact hq e rfl
        · cases he
      · split at he
        · cases he
        · split at he; cases he

theorem nsLoop_err {rec : NsRec} (hrec : NsRecOK CacheCleanNeg (fun _ => True) rec) :
    ∀ (zs : List Name) (depth : Nat) (pool : Pool) (st : St), CacheCleanNeg st →
      ∀ e, (nsLoop cfg net rec zs depth pool st).2 = .error e →
        ∀ x ∈ errRecords e, Prov (nsLoop cfg net rec zs depth pool st).1 x := by
  intro zs
  induction zs with
  | nil => intro depth pool st _ e he; simp only [nsLoop] at he; cases he
  | cons z zs ih =>
    intro depth pool st h e he
    have hs := nsStep_stable (cacheCleanNeg_stable cfg net).toStableNs hrec z zs depth pool trivial
      trivial st h
    unfold nsLoop at he ⊢
    split at he
    · rename_i st1 e1 heq
      cases he
      exact nsStep_err rec z depth pool st h st1 e heq
    · rename_i st1 d1 p1 heq
      rw [heq] at hs
      exact ih d1 p1 st1 hs.1 e he

theorem nsPoolForName_err (n : Name) (d : Nat) (st : St) (h : CacheCleanNeg st) (e : Err)
    (he : (nsPoolForName cfg net n d st).2 = .error e) :
    ∀ x ∈ errRecords e, Prov (nsPoolForName cfg net n d st).1 x :=
  nsLoop_err (nsPoolFuel_stable (cacheCleanNeg_stable cfg net).toStableNs _) _ _ _ _ h e he

theorem answerQuery_err (q : Query) (pool : Pool) (st : St) (h : CacheCleanNeg st) (e : Err)
    (he : (answerQuery cfg net q pool st).2 = .error e) :
    ∀ x ∈ errRecords e, Prov (answerQuery cfg net q pool st).1 x := by
  unfold answerQuery at he ⊢
  split at he
  · rename_i e0 hg
    cases he
    exact provNeg_of_clean h hg
  · split at he
    · cases he
    · rename_i haa
      simp only [haa]
      exact lookup_err_prov _ _ _ _ e he
  · exact lookup_err_prov _ _ _ _ e he

def ResErr (rec : ResRec) : Prop :=
  ResRecOK CacheCleanNeg rec ∧
    ∀ q d st, CacheCleanNeg st → ∀ e, (rec q d st).2 = .error e →
      ∀ x ∈ errRecords e, Prov (rec q d st).1 x

theorem chaseLoop_err {rec : ResRec} (hrec : ResErr rec) (resp : Response) (qtype depth : Nat) :
    ∀ (rs chain : List Record) (st : St), CacheCleanNeg st →
      ∀ e, (chaseLoop rec resp qtype depth rs chain st).2 = .error e →
        ∀ x ∈ errRecords e, Prov (chaseLoop rec resp qtype depth rs chain st).1 x := by
  intro rs
  induction rs with
  | nil => intro chain st _ e he; simp only [chaseLoop] at he; cases he
  | cons r rs ih =>
    intro chain st h e he
    unfold chaseLoop at he ⊢
    split at he
    · exact ih chain st h e he
    · rename_i target _
      split at he
      · rename_i hany
        simp only [hany, ↓reduceIte]
        exact ih chain st h e he
      · rename_i hany
        simp only [hany]
        dsimp only at he ⊢
        split at he
        · rename_i hgt
          simp only [hgt, ↓reduceIte]
          cases he; intro x hx; simp [errRecords] at hx
        · rename_i hgt
          simp only [hgt, ↓reduceIte]
          have hst : CacheCleanNeg { st with cnames := st.cnames + 1, targets := st.targets + 1 } := h
          have hcl := hrec.1 ⟨target, qtype⟩ depth _ hst
          have her := hrec.2 ⟨target, qtype⟩ depth _ hst
          split at he
          · rename_i st1 e1 heq
            rw [heq] at her
            cases he
            exact her e rfl
          · rename_i st1 r' heq
            rw [heq] at hcl
            exact ih _ st1 hcl e he

theorem resolveCnames_err {rec : ResRec} (hrec : ResErr rec) (resp : Response) (q : Query)
    (depth : Nat) (st : St) (h : CacheCleanNeg st) (e : Err)
    (he : (resolveCnames cfg rec resp q depth st).2 = .error e) :
    ∀ x ∈ errRecords e, Prov (resolveCnames cfg rec resp q depth st).1 x := by
  unfold resolveCnames at he ⊢
  split at he
  · cases he
  · rename_i hq
    simp only [hq]
    split at he
    · cases he
    · rename_i hc
      simp only [hc]
      dsimp only at he ⊢
      split at he
      · cases he; intro x hx; exact absurd hx (no_records_limit x)
      · rename_i hlim
        simp only [hlim]
        have hc := chaseLoop_err hrec resp q.qtype (depth + 1) resp.all [] st h
        split at he
        · rename_i st1 e1 heq
          rw [heq] at hc
          cases he
          exact hc e rfl
        · cases he

theorem resolveMiss_err {rec : ResRec} (hrec : ResErr rec) (q : Query) (depth : Nat) (st : St)
    (h : CacheCleanNeg st) (e : Err) (he : (resolveMiss cfg net rec q depth st).2 = .error e) :
    ∀ x ∈ errRecords e, Prov (resolveMiss cfg net rec q depth st).1 x := by
  unfold resolveMiss at he ⊢
  dsimp only at he ⊢
  have hn := nsPoolForName_stable (cacheCleanNeg_stable cfg net).toStableNs
    (if q.qtype == T_DS then base q.name else q.name) depth st h
  have hne := nsPoolForName_err (cfg := cfg) (net := net)
    (if q.qtype == T_DS then base q.name else q.name) depth st h
  split at he
  · rename_i st1 e1 heq
    rw [heq] at hne
    split at he
    · rename_i hnx
      simp only [hnx, ↓reduceIte]
      cases he; exact hne e rfl
    · cases he; intro x hx; simp [errRecords] at hx
  · rename_i st1 d1 pool heq
    rw [heq] at hn
    have ha := answerQuery_stable (cacheCleanNeg_stable cfg net).toStableNs q pool trivial st1 hn.1
    have hae := answerQuery_err (cfg := cfg) (net := net) q pool st1 hn.1
    split at he
    · rename_i st2 e2 heq2
      rw [heq2] at hae
      cases he
      exact hae e rfl
    · rename_i st2 resp heq2
      rw [heq2] at ha
      rw [stripRes_fst]
      exact resolveCnames_err hrec resp q d1 st2 ha e (stripRes_err he)

theorem resolveFuel_err : ∀ f, ResErr (resolveFuel cfg net f) := by
  intro f
  induction f with
  | zero =>
    refine ⟨resolveFuel_stable (cacheCleanNeg_stable cfg net) 0, ?_⟩
    intro q d st _ e he
    simp only [resolveFuel] at he
    cases he
    intro x hx; simp [errRecords] at hx
  | succ f ih =>
    refine ⟨resolveFuel_stable (cacheCleanNeg_stable cfg net) _, ?_⟩
    intro q d st h e he
    unfold resolveFuel at he ⊢
    split at he
    · rename_i e0 hg
      cases he
      exact provNeg_of_clean h hg
    · rename_i r0 hg
      split at he
      · rename_i haa
        simp only [haa, ↓reduceIte]
        rw [stripRes_fst]
        exact resolveCnames_err ih r0 q d st h e (stripRes_err he)
      · rename_i haa
        simp only [haa]
        exact resolveMiss_err ih q d st h e he
    · exact resolveMiss_err ih q d st h e he

/-- **`returned_error_in_bailiwick`**: every record carried by an error `Recursor::resolve`
returns (the SOA / authority records of `RecursorError::Negative`, the NS + glue of `ForwardNS`) —
from the network or from the cache — passed the bailiwick rule of a recorded `lookup` call.  For
every network and every starting cache whose negative entries are clean. -/
theorem returned_error_in_bailiwick (cfg : Config) (net : Net) (q : Query) (st : St)
    (h : CacheCleanNeg st) (e : Err) (he : (resolve cfg net q st).2 = .error e) :
    ∀ x ∈ errRecords e, Prov (resolve cfg net q st).1 x := by
  unfold resolve at he ⊢
  split at he
  · cases he; intro x hx; simp [errRecords] at hx
  · rename_i hf
    simp only [hf]
    exact (resolveFuel_err (cfg := cfg) (net := net) _).2 q 0 { st with cnames := 0 } h e he

end returnedErr

/-! ## 18. the address filters themselves (`AccessControlSet::denied`)

`Acs.denied` is the model of the real function (prefix sets per family, `to_canonical` only for
`::ffff:0:0/96`), so `ns_addrs_allowed` / `answers_allowed` above already speak about it.  This
section states what the family split means. -/

section acl

theorem contains_family {n : IpNet} {ip : Ip} (h : n.contains ip = true) : n.v6 = ip.v6 := by
  unfold IpNet.contains at h
  simp only [Bool.and_eq_true, beq_iff_eq] at h
  exact h.1

theorem any_contains_family (l : List IpNet) (ip : Ip) :
    l.any (·.contains ip) = (l.filter fun n => n.v6 == ip.v6).any (·.contains ip) := by
  induction l with
  | nil => rfl
  | cons n l ih =>
    simp only [List.any_cons, List.filter_cons]
    by_cases hv : n.v6 = ip.v6
    · simp [hv, ih]
    · have hc : n.contains ip = false := by
        cases h : n.contains ip
        · rfl
        · exact absurd (contains_family h) hv
      simp [hv, hc, ih]

/-- the verdict about an address depends only on the networks of the family of its canonical form -/
theorem denied_family (a : Acs) (ip : Ip) :
    a.denied ip =
      ((a.family ip.canonical.v6).deny.any (·.contains ip.canonical) &&
        !(a.family ip.canonical.v6).allow.any (·.contains ip.canonical)) := by
  unfold Acs.denied Acs.allowsAll Acs.family
  dsimp only
  rw [← any_contains_family a.allow, ← any_contains_family a.deny]
  by_cases he : a.deny.isEmpty = true
  · have : a.deny = [] := List.isEmpty_iff.1 he
    simp [this]
  · simp only [he, Bool.false_eq_true, ↓reduceIte]
    exact Bool.and_comm _ _

theorem canonical_of_not_mapped {ip : Ip} (h : ip.isMapped = false) : ip.canonical = ip := by
  unfold Ip.canonical; simp [h]

/-- **`denied_v6_independent_of_v4_lists`**: for an IPv6 address that is not IPv4-mapped — `::1`,
`::`, the IPv4-compatible `::a.b.c.d`, link-local, every ordinary address — the verdict is the one
of the IPv6 lists alone; whatever the IPv4 lists contain is irrelevant. -/
theorem denied_v6_independent_of_v4_lists (a : Acs) (ip : Ip) (h6 : ip.v6 = true)
    (hm : ip.isMapped = false) (allow4 deny4 : List IpNet)
    (h4a : ∀ n ∈ allow4, n.v6 = false) (h4d : ∀ n ∈ deny4, n.v6 = false) :
    Acs.denied ⟨a.allow ++ allow4, a.deny ++ deny4⟩ ip = (a.family true).denied ip ∧
    (a.family true).denied ip = a.denied ip := by
  have key : ∀ b : Acs, b.denied ip =
      ((b.family true).deny.any (·.contains ip) && !(b.family true).allow.any (·.contains ip)) := by
    intro b
    have := denied_family b ip
    rw [canonical_of_not_mapped hm, h6] at this
    exact this
  have hf : ∀ (l l4 : List IpNet), (∀ n ∈ l4, n.v6 = false) →
      (l ++ l4).filter (fun n => n.v6 == true) = l.filter (fun n => n.v6 == true) := by
    intro l l4 h
    rw [List.filter_append]
    have : l4.filter (fun n => n.v6 == true) = [] := by
      rw [List.filter_eq_nil_iff]
      intro n hn
      simp [h n hn]
    rw [this, List.append_nil]
  constructor
  · rw [key, key]
    simp only [Acs.family, hf a.allow allow4 h4a, hf a.deny deny4 h4d, List.filter_filter,
      Bool.and_self]
  · rw [key, key]
    simp only [Acs.family, List.filter_filter, Bool.and_self]

/-- in particular: listed in an IPv6 deny network and in no IPv6 allow network ⇒ denied -/
theorem denied_of_v6_deny (a : Acs) (ip : Ip) (h6 : ip.v6 = true) (hm : ip.isMapped = false)
    (hd : ∃ n ∈ a.deny, n.contains ip = true) (ha : ∀ n ∈ a.allow, n.contains ip = false) :
    a.denied ip = true := by
  unfold Acs.denied Acs.allowsAll
  rw [canonical_of_not_mapped hm]
  obtain ⟨n, hn, hc⟩ := hd
  have hne : a.deny.isEmpty = false := by
    cases hdl : a.deny with
    | nil => rw [hdl] at hn; cases hn
    | cons x l => rfl
  simp only [hne, Bool.false_eq_true, ↓reduceIte, Bool.and_eq_true, Bool.not_eq_true',
    List.any_eq_true, List.any_eq_false]
  exact ⟨fun m hm' => by simp [ha m hm'], n, hn, hc⟩

/-- an IPv4-mapped address gets the verdict of the IPv4 address it maps -/
theorem denied_mapped (a : Acs) (ip : Ip) (hm : ip.isMapped = true) :
    a.denied ip = a.denied ⟨false, ip.addr % 2 ^ 32⟩ := by
  have h4 : Ip.isMapped ⟨false, ip.addr % 2 ^ 32⟩ = false := by simp [Ip.isMapped]
  unfold Acs.denied
  rw [canonical_of_not_mapped h4]
  unfold Ip.canonical
  simp [hm]

/-- **`denied_server_never_queried`**: no address the name-server filter denies is ever handed a
query (root hints are configuration, not subject to the filter). -/
theorem denied_server_never_queried (cfg : Config) (net : Net) (q : Query) (st : St)
    (h : AddrInv cfg st) :
    ∀ e ∈ (resolve cfg net q st).1.log, e.1 ∉ cfg.roots → cfg.serverFilter.denied e.1 = false := by
  intro e he hr
  rcases (ns_addrs_allowed cfg net q st h).1 e he with h' | h'
  · exact absurd h' hr
  · exact h'

/-- **`denied_answer_never_returned`**: no address record whose address the answer filter denies is
in a returned message or in the payload of a returned error. -/
theorem denied_answer_never_returned (cfg : Config) (net : Net) (q : Query) (st : St)
    (h : CacheAns cfg st) (hn : CacheAnsNeg cfg st) (x : Record) (ip : Ip)
    (hip : x.data.ip? = some ip) (hd : cfg.answerFilter.denied ip = true) :
    (∀ r, (resolve cfg net q st).2 = .ok r → x ∉ r.all) ∧
    (∀ e, (resolve cfg net q st).2 = .error e → x ∉ errRecords e) := by
  obtain ⟨_, _, h3, h4⟩ := answers_allowed cfg net q st h hn
  have hx : ¬ AnsOK cfg x := by
    unfold AnsOK addrAllowed
    rw [hip]
    simp [hd]
  exact ⟨fun r hr hm => hx (h3 r hr x hm), fun e he hm => hx (h4 e he x hm)⟩

namespace Ex
def loop6 : Ip := ⟨true, 1⟩                               -- ::1
def mapped : Ip := ⟨true, 0xffff * 2 ^ 32 + 0x2c010101⟩   -- ::ffff:44.1.1.1
def compat : Ip := ⟨true, 0x2c010101⟩                     -- ::44.1.1.1
def acs6 : Acs := ⟨[], [⟨true, 1, 128⟩, ⟨false, 0x2c010101, 32⟩]⟩  -- deny ::1/128, 44.1.1.1/32

/-- `::1` is denied by the v6 entry; the mapped form of 44.1.1.1 by the v4 entry; the
v4-compatible `::44.1.1.1` and `0.0.0.1` by nothing -/
example : acs6.denied loop6 = true ∧ acs6.denied mapped = true ∧ acs6.denied compat = false ∧
    acs6.denied ⟨false, 1⟩ = false ∧ acs6.denied ⟨false, 0x2c010101⟩ = true := by decide
/-- a v6 network covering the mapped range is never consulted for a mapped address -/
example : Acs.denied ⟨[], [⟨true, 0xffff * 2 ^ 32, 96⟩]⟩ mapped = false := by decide
end Ex

end acl

/-! ## 19. `cname_budget_bounds_work`: at most 64 CNAME-target resolutions per request, whatever
the alias graph

The budget (`cname_limit`, `MAX_CNAME_LOOKUPS`) is charged in `resolve_cnames` for every target it
is about to resolve — before the recursive `resolve`, whether the target's answer is in the
response cache or not.  So the number of target resolutions a request *starts* (`St.targets`, a
ghost counter) is bounded by the budget even when the aliases form a DAG with fan-out, where the
number of paths is exponential and every name is fetched from the network only once. -/

section budget
variable {cfg : Config} {net : Net}

theorem trySend_ct (net : Net) (q : Query) : ∀ (ips : List Ip) (st : St),
    (trySend net q ips st).1.targets = st.targets := by
  intro ips
  induction ips with
  | nil => intro st; rfl
  | cons ip rest ih =>
    intro st
    unfold trySend
    dsimp only
    split
    · rw [ih]
    · rfl

theorem poolLookup_targets (pool : Pool) (q : Query) (st : St) :
    (poolLookup cfg net pool q st).1.targets = st.targets := by
  have := trySend_ct net q pool.ips { st with lookups := st.lookups + 1 }
  unfold poolLookup
  dsimp only
  split <;> rename_i heq <;> rw [heq] at this <;> exact this

theorem cacheOk_targets (st : St) (q : Query) (r : Response) : (cacheOk st q r).targets = st.targets := by
  unfold cacheOk; split <;> rfl

theorem cacheErr_targets (st : St) (q : Query) (e : Err) : (cacheErr st q e).targets = st.targets := by
  unfold cacheErr
  split
  · split <;> rfl
  · rfl

theorem lookup_targets (q : Query) (zone : Name) (pool : Pool) (st : St) :
    (lookup cfg net q zone pool st).1.targets = st.targets := by
  have := poolLookup_targets (cfg := cfg) (net := net) pool q
    { st with asked := (pool.zone, zone, q) :: st.asked }
  unfold lookup
  dsimp only
  split
  · rename_i st1 e heq
    rw [heq] at this
    rw [cacheErr_targets]; exact this
  · rename_i st1 r heq
    rw [heq] at this
    split
    · exact this
    · rw [cacheOk_targets]; exact this

/-- nothing on the name-server side touches the budget or the ghost counter -/
theorem ctEq_stable (cfg : Config) (net : Net) (c t : Nat) :
    StableNs cfg net (fun st => st.cnames = c ∧ st.targets = t) (fun _ => True)
      (fun _ _ => True) (fun _ _ => True) (fun _ => True) where
  root := trivial
  cached := fun _ _ _ _ _ => trivial
  respCached := fun _ _ _ _ _ => trivial
  respLookup := fun _ _ _ _ _ _ => trivial
  fresh := fun _ _ _ _ _ _ _ _ => trivial
  rezone := fun _ _ _ => trivial
  poolLookup := by
    intro st pool q h _
    exact ⟨by rw [(poolLookup_frame cfg net pool q st).2.2.2.1]; exact h.1,
      by rw [poolLookup_targets]; exact h.2⟩
  lookup := by
    intro st pool q zone h _ _
    exact ⟨by rw [(lookup_frame cfg net q zone pool st).2.1]; exact h.1,
      by rw [lookup_targets]; exact h.2⟩
  nsPut := fun st z p h _ => h
  askSelf := fun _ _ => trivial
  fitRoot := fun _ => trivial
  fitHead := fun _ _ _ _ => trivial
  fitTail := fun _ _ _ _ => trivial
  fitCached := fun _ _ _ _ _ _ _ _ => trivial
  fitFresh := fun _ _ _ _ _ => trivial

/-- the accounting: started target resolutions are paid for by budget below the cap -/
def Paid (st st' : St) : Prop :=
  st'.targets + min st.cnames MAX_CNAME_LOOKUPS ≤ st.targets + min st'.cnames MAX_CNAME_LOOKUPS ∧
    st.cnames ≤ st'.cnames

def TgOK (rec : ResRec) : Prop := ∀ q d st, Paid st (rec q d st).1

theorem chaseLoop_paid {rec : ResRec} (hrec : TgOK rec) (resp : Response) (qtype depth : Nat) :
    ∀ (rs chain : List Record) (st : St), Paid st (chaseLoop rec resp qtype depth rs chain st).1 := by
  intro rs
  induction rs with
  | nil => intro chain st; simp [chaseLoop, Paid]
  | cons r rs ih =>
    intro chain st
    unfold chaseLoop
    split
    · exact ih chain st
    · rename_i target _
      split
      · exact ih chain st
      · dsimp only
        split
        · unfold Paid MAX_CNAME_LOOKUPS
          dsimp only
          omega
        · rename_i hle
          have hr := hrec ⟨target, qtype⟩ depth
            { st with cnames := st.cnames + 1, targets := st.targets + 1 }
          split
          · rename_i st1 e heq
            rw [heq] at hr
            unfold Paid MAX_CNAME_LOOKUPS at hr ⊢
            unfold MAX_CNAME_LOOKUPS at hle
            dsimp only at hr ⊢
            omega
          · rename_i st1 r' heq
            rw [heq] at hr
            have := ih (chain ++ r'.answers.filter (chainKeeps qtype)) st1
            unfold Paid MAX_CNAME_LOOKUPS at hr this ⊢
            unfold MAX_CNAME_LOOKUPS at hle
            dsimp only at hr
            omega

theorem paid_refl (st : St) : Paid st st := ⟨Nat.le_refl _, Nat.le_refl _⟩

theorem resolveCnames_paid {rec : ResRec} (hrec : TgOK rec) (resp : Response) (q : Query)
    (depth : Nat) (st : St) : Paid st (resolveCnames cfg rec resp q depth st).1 := by
  unfold resolveCnames
  split
  · exact paid_refl st
  · split
    · exact paid_refl st
    · dsimp only
      split
      · exact paid_refl st
      · have hc := chaseLoop_paid hrec resp q.qtype (depth + 1) resp.all [] st
        split
        · rename_i st1 e heq; rw [heq] at hc; exact hc
        · rename_i st1 chain heq; rw [heq] at hc; exact hc

theorem paid_of_eq {st st1 st2 : St} (hc : st1.cnames = st.cnames) (ht : st1.targets = st.targets)
    (h : Paid st1 st2) : Paid st st2 := by
  unfold Paid at h ⊢
  rw [hc, ht] at h
  exact h

theorem answerQuery_ct (q : Query) (pool : Pool) (st : St) :
    (answerQuery cfg net q pool st).1.cnames = st.cnames ∧
    (answerQuery cfg net q pool st).1.targets = st.targets := by
  have hl := lookup_frame cfg net q pool.zone pool st
  have ht := lookup_targets (cfg := cfg) (net := net) q pool.zone pool st
  unfold answerQuery
  split
  · exact ⟨rfl, rfl⟩
  · split
    · exact ⟨rfl, rfl⟩
    · exact ⟨hl.2.1, ht⟩
  · exact ⟨hl.2.1, ht⟩

theorem resolveMiss_paid {rec : ResRec} (hrec : TgOK rec) (q : Query) (depth : Nat) (st : St) :
    Paid st (resolveMiss cfg net rec q depth st).1 := by
  unfold resolveMiss
  dsimp only
  have hn := nsPoolForName_stable (ctEq_stable cfg net st.cnames st.targets)
    (if q.qtype == T_DS then base q.name else q.name) depth st ⟨rfl, rfl⟩
  split
  · rename_i st1 e heq
    rw [heq] at hn
    have := hn.1
    dsimp only at this
    split <;> exact paid_of_eq (st1 := st1) this.1 this.2 (paid_refl st1)
  · rename_i st1 d1 pool heq
    rw [heq] at hn
    have h1 := hn.1
    dsimp only at h1
    obtain ⟨a1, a2⟩ := answerQuery_ct (cfg := cfg) (net := net) q pool st1
    split
    · rename_i st2 e heq2
      rw [heq2] at a1 a2
      dsimp only at a1 a2
      exact paid_of_eq (st1 := st2) (by rw [a1, h1.1]) (by rw [a2, h1.2]) (paid_refl st2)
    · rename_i st2 resp heq2
      rw [heq2] at a1 a2
      dsimp only at a1 a2
      rw [stripRes_fst]
      exact paid_of_eq (st1 := st2) (by rw [a1, h1.1]) (by rw [a2, h1.2])
        (resolveCnames_paid hrec resp q d1 st2)

theorem resolveFuel_paid : ∀ f, TgOK (resolveFuel cfg net f) := by
  intro f
  induction f with
  | zero => intro q d st; exact paid_refl st
  | succ f ih =>
    intro q d st
    unfold resolveFuel
    split
    · exact paid_refl st
    · rename_i r0 _
      split
      · rw [stripRes_fst]
        exact resolveCnames_paid ih r0 q d st
      · exact resolveMiss_paid ih q d st
    · exact resolveMiss_paid ih q d st

/-- **`cname_budget_bounds_work`**: for every network — every alias graph: chains, loops, diamonds,
layered DAGs with any fan-out — and every cache content, one request starts at most
`MAX_CNAME_LOOKUPS` (64) CNAME-target resolutions. -/
theorem cname_budget_bounds_work (cfg : Config) (net : Net) (q : Query) (st : St) :
    (resolve cfg net q st).1.targets ≤ st.targets + MAX_CNAME_LOOKUPS := by
  unfold resolve
  split
  · dsimp only; omega
  · have := resolveFuel_paid (cfg := cfg) (net := net) (cfg.recursionLimit + 1) q 0
      { st with cnames := 0 }
    unfold Paid MAX_CNAME_LOOKUPS at this
    unfold MAX_CNAME_LOOKUPS
    dsimp only at this
    omega

namespace Ex
def l (i j : Nat) : Name := ⟨[[108, 48 + i, 48 + j], [100]], true⟩   -- l<i><j>.d.

/-- a layered alias DAG served by the root itself: every name of layer `i < 5` aliases all three
names of layer `i + 1` (3 CNAME records per owner), layer 5 has addresses: 3⁵ = 243 paths -/
def dagNet : Net := fun _ q =>
  if q.qtype == T_NS then
    .msg { rcode := 0, aa := true, answers := [], authorities := [⟨Name.root, 300, .soa 300⟩],
           additionals := [] }
  else
    match q.name.labels with
    | [[108, i, _], [100]] =>
      if i < 48 + 5 then
        .msg { rcode := 0, aa := true,
               answers := [⟨q.name, 300, .cname (l (i - 48 + 1) 0)⟩, ⟨q.name, 300, .cname (l (i - 48 + 1) 1)⟩,
                           ⟨q.name, 300, .cname (l (i - 48 + 1) 2)⟩],
               authorities := [], additionals := [] }
      else .msg { rcode := 0, aa := true, answers := [⟨q.name, 300, .a 7⟩], authorities := [],
                  additionals := [] }
    | _ => .msg { rcode := 3, aa := true, answers := [], authorities := [], additionals := [] }

/-- 243 paths, but the request stops with the budget error after exactly 64 started target
resolutions (16 names fetched from the network, the rest of the 64 answered by the cache) -/
example :
    let res := resolve (Ex.cfg 24) dagNet ⟨l 0 0, T_A⟩ St.empty
    isErr .cnameLimit res.2 = true ∧ res.1.targets = 64 ∧ res.1.cnames = 65 := by
  decide +kernel
end Ex

end budget

/-! non-vacuity of the composite statements: the empty state satisfies every invariant -/
example (cfg : Config) (net : Net) (q : Query) :=
  cached_in_pool_bailiwick cfg net q St.empty cacheClean_empty askedSound_empty
example (cfg : Config) (net : Net) (q : Query) :=
  answers_allowed cfg net q St.empty (cacheAns_empty cfg) (cacheAnsNeg_empty cfg)
example (cfg : Config) (net : Net) (q : Query) :=
  ns_addrs_allowed cfg net q St.empty (addrInv_empty cfg)
example (cfg : Config) (net : Net) (q : Query) :=
  returned_error_in_bailiwick cfg net q St.empty cacheCleanNeg_empty

end HickoryVerif.C19
