/-
C06 — a signature is accepted only for the exact RRset, key and time window.
Property theorems about `Model/SigCheck.lean` (the validator as it is since the repairs /repo
628570a, 411522f, a831deb).  The regression theorems about the pre-repair cache are in
`Proofs/C06PreFix.lean`; the injectivity of the signed data (`mutation_rejects`) builds on
`Proofs/C05Inj.lean`.
-/
import HickoryVerif.Model.SigCheck
import HickoryVerif.Proofs.C05
import HickoryVerif.Proofs.C05Inj

namespace HickoryVerif.C06
open HickoryVerif HickoryVerif.Tbs HickoryVerif.SigCheck

/-! ### RFC 1982 serial arithmetic: the coded comparison is the modular one -/

/-- 2³² -/
def M : Nat := 4294967296

/-- RFC 1982 §3.2, by modular distance: `a ≤ b` is defined and true iff `(b − a) mod 2³² < 2³¹`. -/
def SerialLe (a b : Nat) : Prop := (b + M - a) % M < HALF

/-- The validator's clock is inside the signature's validity window `[inception, expiration]`,
in serial arithmetic (so also across the 2³² wrap-around). -/
def InWindow (now inception expiration : Nat) : Prop :=
  SerialLe inception now ∧ SerialLe now expiration

theorem serialLe_iff (a b : Nat) (ha : a < M) (hb : b < M) : serialLe a b = true ↔ SerialLe a b := by
  unfold serialLe serialCmp SerialLe M HALF at *
  split <;> rename_i h <;> split at h <;> try (split at h) <;> try (split at h)
  all_goals simp_all
  all_goals omega

theorem serialGe_iff (a b : Nat) (ha : a < M) (hb : b < M) : serialGe a b = true ↔ SerialLe b a := by
  unfold serialGe serialCmp SerialLe M HALF at *
  split <;> rename_i h <;> split at h <;> try (split at h) <;> try (split at h)
  all_goals simp_all
  all_goals omega

/-- at distance exactly 2³¹ the comparison is undefined and both `<=` and `>=` are false -/
theorem serial_undefined (a : Nat) :
    serialCmp a (a + HALF) = none ∧ serialLe a (a + HALF) = false ∧ serialGe a (a + HALF) = false := by
  unfold serialLe serialGe serialCmp HALF at *
  simp

/-! ### `verify_rrset_with_dnskey` -/

/-- what `RrsigValidity::check` = `ValidRrsig` means -/
theorem validity_valid {rrsig : Rrsig} {keyName : Name} {keyType : Nat} {records : List Record}
    {k : Dnskey} {now : Nat}
    (h : rrsigValidityCheck rrsig keyName keyType records k now = .validRrsig) :
    (∀ r ∈ records, r.cls = 1) ∧
    Name.eq rrsig.owner keyName = true ∧ rrsig.input.typeCovered = keyType ∧
    rrsig.input.numLabels ≤ keyName.numLabels ∧
    serialLe now rrsig.input.expiration = true ∧ serialGe now rrsig.input.inception = true ∧
    Name.eq rrsig.input.signer k.owner = true ∧ rrsig.input.algorithm = k.algorithm ∧
    rrsig.input.keyTag = keyTag k.rdata ∧ k.zoneKey = true := by
  unfold rrsigValidityCheck at h
  split at h
  · cases h
  split at h
  · cases h
  split at h
  · cases h
  split at h
  · cases h
  split at h
  · cases h
  rename_i h1 h2 hwf h3 h4
  simp only [List.any_eq_true, bne_iff_ne, ne_eq, not_exists, not_and, Decidable.not_not] at h1
  simp only [Bool.not_eq_true', Bool.and_eq_true, beq_iff_eq,
    decide_eq_true_eq, Bool.not_eq_false] at h2 h3 h4
  exact ⟨h1, h2.1.1, h2.1.2, h2.2, h3.1, h3.2, h4.1.1.1, h4.1.1.2, h4.1.2, h4.2⟩

/-- **Secure implies every check.**  If `verify_rrset_with_dnskey` returns Secure then: the key's own
proof is Secure; it is a non-revoked zone key; its owner is the RRSIG's signer, its algorithm and key
tag are the RRSIG's; the RRSIG's owner is the RRset's owner, its class is IN like every record's,
its Type Covered is the RRset's type, its Labels field does not exceed the owner's label count; the
validator's clock is inside `[inception, expiration]` in serial arithmetic; and the signature
oracle accepted the signature for exactly the bytes `TBS::from_input` produces for this RRset and
these RRSIG fields under this key. -/
theorem secure_implies_checks (sigValid : SigOracle) (k : Dnskey) (kp : Proof) (sig : Rrsig)
    (keyName : Name) (keyType : Nat) (records : List Record) (now : Nat) (ttl : Option Nat)
    (hnow : now < M) (hinc : sig.input.inception < M) (hexp : sig.input.expiration < M)
    (h : verifyRrsetWithDnskey sigValid k kp sig keyName keyType records now = .ok (.secure, ttl)) :
    kp = .secure ∧ k.zoneKey = true ∧ k.revoke = false ∧
    Name.eq sig.input.signer k.owner = true ∧ k.algorithm = sig.input.algorithm ∧
    sig.input.keyTag = keyTag k.rdata ∧
    Name.eq sig.owner keyName = true ∧ sig.cls = 1 ∧ (∀ r ∈ records, r.cls = 1) ∧
    sig.input.typeCovered = keyType ∧ sig.input.numLabels ≤ keyName.numLabels ∧
    InWindow now sig.input.inception sig.input.expiration ∧
    ∃ tbs, tbsImpl keyName 1 sig.input records = .ok tbs ∧ sigValid k tbs sig.sig = true := by
  unfold verifyRrsetWithDnskey at h
  split at h
  · cases h
  split at h
  · cases h
  split at h
  · cases h
  split at h
  · cases h
  split at h
  · cases h
  rename_i h1 h2 h3 h4 h5
  simp only [ne_eq, Decidable.not_not] at h1 h5
  have hv := validity_valid h5
  split at h
  · simp at h
  · split at h
    · cases h
    · rename_i first rest h6
      split at h
      · rename_i tbs htbs
        split at h
        · rename_i hs
          refine ⟨h1, hv.2.2.2.2.2.2.2.2.2, by simpa using h2, hv.2.2.2.2.2.2.1, by simpa using h4,
            hv.2.2.2.2.2.2.2.2.1, hv.2.1, by simpa using h6, hv.1, hv.2.2.1, hv.2.2.2.1, ?_, tbs, htbs, hs⟩
          exact ⟨(serialGe_iff _ _ hnow hinc).1 hv.2.2.2.2.2.1, (serialLe_iff _ _ hnow hexp).1 hv.2.2.2.2.1⟩
        · cases h
      · cases h

/-- **Outside the window nothing is Secure** — for all 2³² × 2³² × 2³² (now, inception, expiration)
triples, including windows and clocks across the wrap-around and the undefined distance 2³¹. -/
theorem window_rejects (sigValid : SigOracle) (k : Dnskey) (kp : Proof) (sig : Rrsig)
    (keyName : Name) (keyType : Nat) (records : List Record) (now : Nat) (ttl : Option Nat)
    (hnow : now < M) (hinc : sig.input.inception < M) (hexp : sig.input.expiration < M)
    (hw : ¬ InWindow now sig.input.inception sig.input.expiration) :
    verifyRrsetWithDnskey sigValid k kp sig keyName keyType records now ≠ .ok (.secure, ttl) :=
  fun h => hw (secure_implies_checks sigValid k kp sig keyName keyType records now ttl hnow hinc hexp h).2.2.2.2.2.2.2.2.2.2.2.1

/-- since the repair `fix: an RRSIG's validity period must be well formed`: a valid RRSIG has
`inception ≤ expiration` in serial arithmetic -/
theorem valid_period {rrsig : Rrsig} {keyName : Name} {keyType : Nat} {records : List Record}
    {k : Dnskey} {now : Nat}
    (h : rrsigValidityCheck rrsig keyName keyType records k now = .validRrsig) :
    serialLe rrsig.input.inception rrsig.input.expiration = true := by
  unfold rrsigValidityCheck at h
  split at h
  · cases h
  split at h
  · cases h
  split at h
  · cases h
  rename_i hwf
  simpa using hwf

/-- **A Secure verdict implies a well-formed validity period** (`inception ≤ expiration` serially:
non-empty and shorter than 2³¹ s). -/
theorem secure_period_wf (sigValid : SigOracle) (k : Dnskey) (kp : Proof) (sig : Rrsig)
    (keyName : Name) (keyType : Nat) (records : List Record) (now : Nat) (ttl : Option Nat)
    (hinc : sig.input.inception < M) (hexp : sig.input.expiration < M)
    (h : verifyRrsetWithDnskey sigValid k kp sig keyName keyType records now = .ok (.secure, ttl)) :
    SerialLe sig.input.inception sig.input.expiration := by
  unfold verifyRrsetWithDnskey at h
  split at h
  · cases h
  split at h
  · cases h
  split at h
  · cases h
  split at h
  · cases h
  split at h
  · cases h
  rename_i h5
  simp only [ne_eq, Decidable.not_not] at h5
  exact (serialLe_iff _ _ hinc hexp).1 (valid_period h5)

/-- **TTL of an accepted RRset.**  A Secure verdict carries a TTL, and that TTL is at most the
remaining signature lifetime (`expiration ⊖ now` in serial arithmetic), the RRSIG's Original TTL and
the received TTL of the RRset's first record (as coded: `authenticated_ttl(first_record, now)`). -/
theorem ttl_le_remaining (sigValid : SigOracle) (k : Dnskey) (kp : Proof) (sig : Rrsig)
    (keyName : Name) (keyType : Nat) (records : List Record) (now : Nat) (ttl : Option Nat)
    (hnow : now < M) (hexp : sig.input.expiration < M)
    (h : verifyRrsetWithDnskey sigValid k kp sig keyName keyType records now = .ok (.secure, ttl)) :
    ∃ t first rest, ttl = some t ∧ records = first :: rest ∧
      t ≤ (sig.input.expiration + M - now) % M ∧ t ≤ sig.input.originalTtl ∧ t ≤ first.ttl ∧
      t ≤ sig.input.expiration - now := by
  unfold verifyRrsetWithDnskey at h
  split at h
  · cases h
  split at h
  · cases h
  split at h
  · cases h
  split at h
  · cases h
  split at h
  · cases h
  cases records with
  | nil => simp at h
  | cons first rest =>
    simp only at h
    split at h
    · cases h
    · split at h
      · split at h
        · simp only [Except.ok.injEq, Prod.mk.injEq, true_and] at h
          refine ⟨authenticatedTtl sig first now, first, rest, h.symm, rfl, ?_, ?_, ?_, ?_⟩
          · unfold authenticatedTtl M at *; omega
          · unfold authenticatedTtl; omega
          · unfold authenticatedTtl; omega
          · unfold authenticatedTtl; omega
        · cases h
      · cases h

/-- **Exactly that RRset (`secure_signs_canonical`, full strength).**  Combined with
`C05.tbs_eq_spec`: a Secure verdict means the signature oracle accepted the signature over the RFC
4035 §5.3.2 *canonical* signed data of exactly the presented records — owner (up to letter case),
class IN, type, the set of canonical RDATA — and these RRSIG fields: a property of the RRset as a
set, independent of record order, duplicates, received TTLs and letter case. -/
theorem secure_signs_canonical (sigValid : SigOracle) (k : Dnskey) (kp : Proof) (sig : Rrsig)
    (keyName : Name) (keyType : Nat) (records : List Record) (now : Nat) (ttl : Option Nat)
    (hnow : now < M) (hinc : sig.input.inception < M) (hexp : sig.input.expiration < M)
    (hb : C04.Bounded keyName)
    (h : verifyRrsetWithDnskey sigValid k kp sig keyName keyType records now = .ok (.secure, ttl)) :
    ∃ tbs, Spec.signedData sig.input keyName 1 ((collect keyName 1 sig.input records).map (·.data))
        = some tbs ∧ sigValid k tbs sig.sig = true := by
  obtain ⟨tbs, htbs, hs⟩ :=
    (secure_implies_checks sigValid k kp sig keyName keyType records now ttl hnow hinc hexp h).2.2.2.2.2.2.2.2.2.2.2.2
  have hspec := C05.tbs_eq_spec keyName 1 sig.input records hb
  rw [htbs] at hspec
  unfold C05.expected at hspec
  split at hspec
  · rename_i b hb'
    split at hspec
    · cases hspec
    · simp only [Outcome.ok.injEq] at hspec
      exact ⟨b, by rw [hb'], by rw [← hspec]; exact hs⟩
  · cases hspec

/-- **Mutation rejects (`mutation_rejects`).**  Let `tbs₀` be the canonical signed data of an original
RRset `(owner₀, IN, i₀.typeCovered, rds₀)` under RRSIG fields `i₀`, and assume of the signature
oracle what unforgeability gives: under the presented key, the presented signature is accepted for
`tbs₀` only.  If `verify_rrset_with_dnskey` says Secure for a presented RRSIG / RRset, then the
presented RRSIG fields equal the original ones (type covered, algorithm, Labels, original TTL,
expiration, inception, key tag, signer up to letter case), the presented records have the same *set*
of canonical RDATA as the original RRset, and the same (lower-cased, wildcard-reduced) owner.
Contrapositive: altering any signed field or bit of the records or of the RRSIG never yields Secure. -/
theorem mutation_rejects (sigValid : SigOracle) (k : Dnskey) (kp : Proof) (sig : Rrsig)
    (keyName : Name) (keyType : Nat) (records : List Record) (now : Nat) (ttl : Option Nat)
    (hnow : now < M) (hinc : sig.input.inception < M) (hexp : sig.input.expiration < M)
    (hb : C04.Bounded keyName)
    (i0 : SigInput) (owner0 : Name) (rds0 : List RData) (tbs0 : Bytes)
    (h0 : Spec.signedData i0 owner0 1 rds0 = some tbs0)
    (horacle : ∀ tbs, sigValid k tbs sig.sig = true → tbs = tbs0)
    (hi : C05.FieldsInRange sig.input) (hi0 : C05.FieldsInRange i0)
    (hb0 : C04.Bounded owner0) (hs : C04.Bounded sig.input.signer) (hs0 : C04.Bounded i0.signer)
    (hlen : ∀ c, Spec.canonicalRdatas ((collect keyName 1 sig.input records).map (·.data)) = some c →
      ∀ rd ∈ c, rd.length < 65536)
    (hlen0 : ∀ c, Spec.canonicalRdatas rds0 = some c → ∀ rd ∈ c, rd.length < 65536)
    (h : verifyRrsetWithDnskey sigValid k kp sig keyName keyType records now = .ok (.secure, ttl)) :
    (sig.input.typeCovered = i0.typeCovered ∧ sig.input.algorithm = i0.algorithm ∧
     sig.input.numLabels = i0.numLabels ∧ sig.input.originalTtl = i0.originalTtl ∧
     sig.input.expiration = i0.expiration ∧ sig.input.inception = i0.inception ∧
     sig.input.keyTag = i0.keyTag ∧
     sig.input.signer.labels.map Name.lowerLabel = i0.signer.labels.map Name.lowerLabel) ∧
    ∃ c c0, Spec.canonicalRdatas ((collect keyName 1 sig.input records).map (·.data)) = some c ∧
      Spec.canonicalRdatas rds0 = some c0 ∧ Spec.sortDistinct c = Spec.sortDistinct c0 ∧
      (Spec.sortDistinct c ≠ [] →
        Spec.signedOwner keyName sig.input.numLabels = Spec.signedOwner owner0 i0.numLabels) := by
  obtain ⟨tbs, htbs, hacc⟩ := secure_signs_canonical sigValid k kp sig keyName keyType records now ttl
    hnow hinc hexp hb h
  have htbs0 := horacle tbs hacc
  subst htbs0
  obtain ⟨hf, c, c0, hc, hc0, hsd, hown⟩ := C05.signedData_injective sig.input i0 keyName owner0 1 1 _ rds0 tbs
    hi hi0 (by decide) (by decide) hb hb0 hs hs0 hlen hlen0 htbs h0
  exact ⟨hf, c, c0, hc, hc0, hsd, fun hne => (hown hne).1⟩

/-! ### `verify_rrsig_with_keys` -/

theorem mem_filterTagCollisions {seen : List Nat} {l : List (Dnskey × Proof)} {x : Dnskey × Proof}
    (h : x ∈ filterTagCollisions seen l) : x ∈ l := by
  induction l generalizing seen with
  | nil => simp [filterTagCollisions] at h
  | cons kp rest ih =>
    obtain ⟨k, p⟩ := kp
    simp only [filterTagCollisions] at h
    split at h
    · exact List.mem_cons_of_mem _ (ih h)
    · rcases List.mem_cons.1 h with rfl | h
      · simp
      · exact List.mem_cons_of_mem _ (ih h)

theorem keysLoop_secure {sigValid : SigOracle} {rrsig : Rrsig} {keyName : Name} {keyType : Nat}
    {records : List Record} {now : Nat} {ai : Option Bool} {l : List (Dnskey × Proof)}
    {ttl : Option Nat}
    (h : keysLoop sigValid rrsig keyName keyType records now ai l = some (.secure, ttl)) :
    ∃ k, (k, Proof.secure) ∈ l ∧
      verifyRrsetWithDnskey sigValid k .secure rrsig keyName keyType records now = .ok (.secure, ttl) := by
  induction l generalizing ai with
  | nil =>
    simp only [keysLoop] at h
    split at h <;> simp at h
  | cons kp rest ih =>
    obtain ⟨k, p⟩ := kp
    cases p with
    | secure =>
      simp only [keysLoop] at h
      split at h
      · rename_i r hr
        simp only [Option.some.injEq] at h
        subst h
        exact ⟨k, by simp, hr⟩
      · obtain ⟨k', hk', hv⟩ := ih h
        exact ⟨k', List.mem_cons_of_mem _ hk', hv⟩
    | insecure =>
      simp only [keysLoop] at h
      obtain ⟨k', hk', hv⟩ := ih h
      exact ⟨k', List.mem_cons_of_mem _ hk', hv⟩
    | bogus =>
      simp only [keysLoop] at h
      obtain ⟨k', hk', hv⟩ := ih h
      exact ⟨k', List.mem_cons_of_mem _ hk', hv⟩
    | indeterminate =>
      simp only [keysLoop] at h
      obtain ⟨k', hk', hv⟩ := ih h
      exact ⟨k', List.mem_cons_of_mem _ hk', hv⟩

/-- **A Secure result of `verify_rrsig_with_keys` comes from one of the presented keys**, whose own
proof is Secure and for which `verify_rrset_with_dnskey` said Secure (hence all of
`secure_implies_checks`).  The all-insecure inheritance can only produce Insecure. -/
theorem keys_secure_implies {sigValid : SigOracle} {dnskeys : List (Dnskey × Proof)} {rrsig : Rrsig}
    {keyName : Name} {keyType : Nat} {records : List Record} {now : Nat} {ttl : Option Nat}
    (h : verifyRrsigWithKeys sigValid dnskeys rrsig keyName keyType records now = some (.secure, ttl)) :
    ∃ k, (k, Proof.secure) ∈ dnskeys ∧
      verifyRrsetWithDnskey sigValid k .secure rrsig keyName keyType records now = .ok (.secure, ttl) := by
  unfold verifyRrsigWithKeys at h
  split at h
  · cases h
  · obtain ⟨k, hk, hv⟩ := keysLoop_secure h
    exact ⟨k, (List.mem_filter.1 (mem_filterTagCollisions hk)).1, hv⟩

theorem fresh_secure {sigValid : SigOracle} {r : Request}
    (h : (freshVerdict sigValid r).proof = .secure) :
    ∃ k, (k, Proof.secure) ∈ r.dnskeys ∧
      verifyRrsetWithDnskey sigValid k .secure r.rrsig r.keyName r.keyType r.records r.now
        = .ok (.secure, (freshVerdict sigValid r).adjustedTtl) := by
  unfold freshVerdict at h ⊢
  split at h
  · cases h
  · rename_i hz
    simp only [hz]
    split at h
    · rename_i p ttl hv
      simp only at h
      subst h
      exact keys_secure_implies hv
    · cases h

/-! ### the validation cache: provenance of every verdict 

The development is generic in what `get` does with a live entry (`serve`), so that it covers both
the code as it is (`SigCheck.serve`) and the pre-repair cache (`servePreFix`, `Proofs/C06PreFix.lean`). -/

/-- TTL of the first record (`cx.rrset.records.first()`) -/
def firstTtl (r : Request) : Option Nat := r.records.head?.map (·.ttl)

/-- a cache entry is the one `insert` created for the fresh validation of some earlier request -/
def Provenance (sigValid : SigOracle) (cfg : CacheConfig) (past : List Request) (e : CacheEntry) : Prop :=
  ∃ r ∈ past, ∃ t, firstTtl r = some t ∧ e = entryOf cfg r (freshVerdict sigValid r) t

/-- what is known about one answered request: the verdict was computed for this very request, or it
is what `serve` makes of the entry created by the fresh validation of an *earlier* request with the
same cache key, that entry being still live on the monotonic clock -/
def StepSound (sigValid : SigOracle) (cfg : CacheConfig) (serve : CacheEntry → Request → Option Verdict)
    (past : List Request) (r : Request) (v : Verdict) (fresh : Bool) : Prop :=
  (fresh = true ∧ v = freshVerdict sigValid r) ∨
  (fresh = false ∧ ∃ r' ∈ past, r'.ck = r.ck ∧
    ∃ t, firstTtl r' = some t ∧
      r.inst < r'.inst + cacheLifetime cfg (freshVerdict sigValid r') t ∧
      serve (entryOf cfg r' (freshVerdict sigValid r') t) r = some v)

theorem cacheGetE_some {c : Cache} {key : CacheKey} {inst : Nat} {e : CacheEntry}
    (h : cacheGetE c key inst = some e) : e ∈ c ∧ e.key = key ∧ inst < e.expires := by
  unfold cacheGetE at h
  split at h
  · rename_i e' he
    split at h
    · rename_i hlt
      simp only [Option.some.injEq] at h
      subst h
      have hk := List.find?_some he
      simp only [beq_iff_eq] at hk
      exact ⟨List.mem_of_find?_eq_some he, hk, hlt⟩
    · cases h
  · cases h

theorem provenance_mono {sigValid : SigOracle} {cfg : CacheConfig} {past : List Request}
    {e : CacheEntry} (r : Request) (h : Provenance sigValid cfg past e) :
    Provenance sigValid cfg (past ++ [r]) e := by
  obtain ⟨r', hr', h'⟩ := h
  exact ⟨r', by simp [hr'], h'⟩

theorem validate_inv (sigValid : SigOracle) (cfg : CacheConfig)
    (serve : CacheEntry → Request → Option Verdict) (past : List Request) (c : Cache)
    (r : Request) (hinv : ∀ e ∈ c, Provenance sigValid cfg past e) :
    (∀ e ∈ (validateG sigValid cfg serve c r).1, Provenance sigValid cfg (past ++ [r]) e) ∧
    StepSound sigValid cfg serve past r (validateG sigValid cfg serve c r).2.1
      (validateG sigValid cfg serve c r).2.2 := by
  unfold validateG
  cases hg : (cacheGetE c r.ck r.inst).bind (fun e => serve e r) with
  | some v =>
    simp only
    refine ⟨fun e' he' => provenance_mono r (hinv e' he'), Or.inr ⟨rfl, ?_⟩⟩
    cases hge : cacheGetE c r.ck r.inst with
    | none => rw [hge] at hg; cases hg
    | some e =>
      rw [hge] at hg
      simp only [Option.bind_some] at hg
      obtain ⟨he, hk, hlt⟩ := cacheGetE_some hge
      obtain ⟨r', hr', t, ht, hent⟩ := hinv e he
      subst hent
      exact ⟨r', hr', hk, t, ht, hlt, hg⟩
  | none =>
    simp only
    refine ⟨?_, Or.inl ⟨rfl, rfl⟩⟩
    intro e he
    split at he
    · exact provenance_mono r (hinv e he)
    unfold cacheInsert at he
    cases hft : r.records.head?.map (·.ttl) with
    | none =>
      rw [hft] at he
      exact provenance_mono r (hinv e he)
    | some t =>
      rw [hft] at he
      simp only [List.mem_cons, List.mem_filter] at he
      rcases he with rfl | he
      · exact ⟨r, by simp, t, hft, rfl⟩
      · exact provenance_mono r (hinv e he.1)

/-- a history is sound from `past` on: every answer satisfies `StepSound` w.r.t. the requests
before it -/
def SoundFrom (sigValid : SigOracle) (cfg : CacheConfig) (serve : CacheEntry → Request → Option Verdict) :
    List Request → List Request → List (Verdict × Bool) → Prop
  | _, [], [] => True
  | past, r :: rs, (v, fresh) :: outs =>
    StepSound sigValid cfg serve past r v fresh ∧ SoundFrom sigValid cfg serve (past ++ [r]) rs outs
  | _, _, _ => False

theorem soundFrom_of_inv (sigValid : SigOracle) (cfg : CacheConfig)
    (serve : CacheEntry → Request → Option Verdict) (past : List Request) (c : Cache)
    (hist : List Request) (hinv : ∀ e ∈ c, Provenance sigValid cfg past e) :
    SoundFrom sigValid cfg serve past hist (runHistoryG sigValid cfg serve c hist) := by
  induction hist generalizing past c with
  | nil => simp [runHistoryG, SoundFrom]
  | cons r rs ih =>
    obtain ⟨h1, h2⟩ := validate_inv sigValid cfg serve past c r hinv
    simp only [runHistoryG, SoundFrom]
    exact ⟨h2, ih _ _ h1⟩

/-- **History theorem, the part that holds whatever `get` does with live entries
(`cache_provenanceG`).**  For every history of validation requests (any clocks, any contents, any
cache configuration), starting from an empty cache: every verdict handed out was either freshly
computed for that very request at its own clock, or stems from the entry created by the fresh
validation of an *earlier* request with the same cache key, served while `Instant::now()` is before
that entry's expiry.  (No entry appears from nowhere, none is served past its lifetime, none is
attributed to another key.) -/
theorem cache_provenanceG (sigValid : SigOracle) (cfg : CacheConfig)
    (serve : CacheEntry → Request → Option Verdict) (hist : List Request) :
    SoundFrom sigValid cfg serve [] hist (runHistoryG sigValid cfg serve [] hist) :=
  soundFrom_of_inv sigValid cfg serve [] [] hist (by simp)

/-- **`cache_provenance`: the code as it is.** -/
theorem cache_provenance (sigValid : SigOracle) (cfg : CacheConfig) (hist : List Request) :
    SoundFrom sigValid cfg serve [] hist (runHistory sigValid cfg [] hist) :=
  cache_provenanceG sigValid cfg serve hist

/-! ### the history theorem about Secure verdicts -/

/-- the two requests present the same RRset, RRSIG and RRset key -/
def SameContent (a b : Request) : Prop :=
  a.rrsig = b.rrsig ∧ a.keyName = b.keyName ∧ a.keyType = b.keyType ∧ a.records = b.records

/-- clock and RRSIG times are `u32`s, and the RRSIG's window is well formed (`inception ≤ expiration`
in serial arithmetic, i.e. shorter than 2³¹ s) -/
def Bounds (r : Request) : Prop :=
  r.now < M ∧ r.rrsig.input.inception < M ∧ r.rrsig.input.expiration < M ∧
  SerialLe r.rrsig.input.inception r.rrsig.input.expiration

/-- `r'` was answered before `r`; if they share the cache key then they present the same signed
content (the key is faithful) -/
def KeyFaithful (r' r : Request) : Prop := r'.ck = r.ck → SameContent r' r

/-- the content of `r` passed `verify_rrset_with_dnskey` at validator time `t` under a key whose own
proof is Secure -/
def ValidatedAt (sigValid : SigOracle) (r : Request) (t : Nat) : Prop :=
  ∃ k ttl, verifyRrsetWithDnskey sigValid k .secure r.rrsig r.keyName r.keyType r.records t
    = .ok (.secure, ttl)

/-- what the property demands of a Secure verdict handed out for request `r`: its content passed the
checks at some validator time `t₀`, and the validator's clock is (still) inside the window -/
def SecureOK (sigValid : SigOracle) (r : Request) : Prop :=
  InWindow r.now r.rrsig.input.inception r.rrsig.input.expiration ∧
  ∃ t0, t0 < M ∧ ValidatedAt sigValid r t0

/-- every Secure verdict of the history satisfies `Q request verdict` -/
def AllSecure (Q : Request → Verdict → Prop) : List Request → List (Verdict × Bool) → Prop
  | [], [] => True
  | r :: rs, (v, _) :: outs => (v.proof = .secure → Q r v) ∧ AllSecure Q rs outs
  | _, _ => False

/-- lifts a per-step lemma about Secure verdicts to whole histories; `P` relates an earlier request
to a later one, `B` is a condition on the answered request, `C` on the earlier ones -/
theorem allSecure_of_sound (sigValid : SigOracle) (cfg : CacheConfig)
    (serve : CacheEntry → Request → Option Verdict) (Q : Request → Verdict → Prop)
    (P : Request → Request → Prop) (B C : Request → Prop)
    (hstep : ∀ past r v fresh, StepSound sigValid cfg serve past r v fresh → v.proof = .secure →
      B r → (∀ r' ∈ past, P r' r ∧ C r') → Q r v)
    (past hist : List Request)
    (outs : List (Verdict × Bool)) (hs : SoundFrom sigValid cfg serve past hist outs)
    (hb : ∀ r ∈ hist, B r ∧ C r)
    (hpast : ∀ r' ∈ past, C r' ∧ ∀ r ∈ hist, P r' r)
    (hpw : hist.Pairwise P) :
    AllSecure Q hist outs := by
  induction hist generalizing past outs with
  | nil =>
    cases outs with
    | nil => trivial
    | cons _ _ => simp [SoundFrom] at hs
  | cons r rs ih =>
    cases outs with
    | nil => simp [SoundFrom] at hs
    | cons o outs =>
      obtain ⟨v, fresh⟩ := o
      simp only [SoundFrom] at hs
      rw [List.pairwise_cons] at hpw
      refine ⟨fun hsec => hstep past r v fresh hs.1 hsec (hb r (by simp)).1
        (fun r' hr' => ⟨(hpast r' hr').2 r (by simp), (hpast r' hr').1⟩), ?_⟩
      apply ih (past ++ [r]) outs hs.2 (fun x hx => hb x (by simp [hx]))
      · intro r' hr'
        rcases List.mem_append.1 hr' with h | h
        · exact ⟨(hpast r' h).1, fun x hx => (hpast r' h).2 x (by simp [hx])⟩
        · simp only [List.mem_singleton] at h
          subst h
          exact ⟨(hb r' (by simp)).2, fun x hx => hpw.1 x hx⟩
      · exact hpw.2
theorem fresh_secure_isOk {sigValid : SigOracle} {r : Request}
    (h : (freshVerdict sigValid r).proof = .secure) : (freshVerdict sigValid r).isOk = true := by
  unfold freshVerdict at h ⊢
  split
  · rename_i hz
    simp only [hz] at h
    cases h
  · rename_i hz
    simp only [hz] at h ⊢
    split
    · rfl
    · rename_i hn
      rw [hn] at h
      cases h

/-- the authenticated TTL of a fresh Secure verdict is at most `expiration − now` -/
theorem fresh_secure_ttl {sigValid : SigOracle} {r : Request} (hnow : r.now < M)
    (hexp : r.rrsig.input.expiration < M)
    (h : (freshVerdict sigValid r).proof = .secure) :
    ∃ t, (freshVerdict sigValid r).adjustedTtl = some t ∧ t ≤ r.rrsig.input.expiration - r.now := by
  obtain ⟨k, _, hk⟩ := fresh_secure h
  obtain ⟨t, _, _, ht, _, _, _, _, hsub⟩ :=
    ttl_le_remaining sigValid k .secure r.rrsig r.keyName r.keyType r.records r.now _ hnow hexp hk
  exact ⟨t, ht, hsub⟩

/-- TTL clause: a Secure verdict never carries a TTL above the remaining signature lifetime -/
def TtlOK (r : Request) (v : Verdict) : Prop :=
  ∀ t, v.adjustedTtl = some t → t ≤ r.rrsig.input.expiration - r.now

/-- the clock arithmetic of the repaired `get`: validated inside the window at `t0`, served at `now`
with `now.wrapping_sub(t0) ≤ expiration.saturating_sub(t0)` -/
theorem span_window {t0 now inc exp : Nat} (ht0 : t0 < M) (hnow : now < M) (hinc : inc < M)
    (hexp : exp < M) (hwf : SerialLe inc exp) (hw : InWindow t0 inc exp)
    (hel : ¬ (now + M32 - t0) % M32 > exp - t0) :
    InWindow now inc exp ∧ (exp - t0) - (now + M32 - t0) % M32 ≤ exp - now := by
  unfold InWindow SerialLe M M32 HALF at *
  omega

theorem step_secure (sigValid : SigOracle) (cfg : CacheConfig)
    (past : List Request) (r : Request) (v : Verdict) (fresh : Bool)
    (hs : StepSound sigValid cfg serve past r v fresh) (hsec : v.proof = .secure) (hb : Bounds r)
    (hpair : ∀ r' ∈ past, KeyFaithful r' r ∧ r'.now < M) :
    SecureOK sigValid r ∧ TtlOK r v := by
  obtain ⟨hnow, hinc, hexp, hwf⟩ := hb
  rcases hs with ⟨_, hv⟩ | ⟨_, r', hr', hck, t, ht, hlive, hv⟩
  · subst hv
    obtain ⟨k, _, hk⟩ := fresh_secure hsec
    have hc := secure_implies_checks sigValid k .secure r.rrsig r.keyName r.keyType r.records r.now _
      hnow hinc hexp hk
    refine ⟨⟨hc.2.2.2.2.2.2.2.2.2.2.2.1, r.now, hnow, k, _, hk⟩, ?_⟩
    obtain ⟨t', ht', hle⟩ := fresh_secure_ttl hnow hexp hsec
    intro t0 h0
    rw [ht'] at h0
    simp only [Option.some.injEq] at h0
    omega
  · obtain ⟨hkf, hnow'⟩ := hpair r' hr'
    obtain ⟨hsig, hkn, hkt, hrec⟩ := hkf hck
    -- the verdict served has the proof of the stored one
    have hsec' : (freshVerdict sigValid r').proof = .secure := by
      simp only [serve, entryOf] at hv
      split at hv
      · split at hv
        · cases hv
        · split at hv <;> (simp only [Option.some.injEq] at hv; rw [← hv] at hsec; exact hsec)
      · simp only [Option.some.injEq] at hv; rw [← hv] at hsec; exact hsec
    have hok := fresh_secure_isOk hsec'
    have hspan : spanOf (freshVerdict sigValid r') r'
        = some (r'.now, r'.rrsig.input.expiration - r'.now) := by
      simp [spanOf, hok, hsec']
    obtain ⟨k, _, hk⟩ := fresh_secure hsec'
    rw [hsig, hkn, hkt, hrec] at hk
    have hc := secure_implies_checks sigValid k .secure r.rrsig r.keyName r.keyType r.records r'.now _
      hnow' hinc hexp hk
    obtain ⟨t', ht', _⟩ := fresh_secure_ttl hnow' (by rw [hsig]; exact hexp) hsec'
    simp only [serve, entryOf, hspan, ht'] at hv
    split at hv
    · cases hv
    · rename_i hel
      rw [hsig] at hel
      obtain ⟨hwin, hleft⟩ :=
        span_window hnow' hnow hinc hexp hwf hc.2.2.2.2.2.2.2.2.2.2.2.1 hel
      refine ⟨⟨hwin, r'.now, hnow', k, _, hk⟩, ?_⟩
      simp only [Option.some.injEq] at hv
      intro t0 h0
      rw [← hv] at h0
      simp only [Option.some.injEq] at h0
      rw [hsig] at h0
      omega

/-- **History theorem (`cache_sound`, full strength).**  For every history
of validation requests answered from an initially empty cache — any interleaving of validate /
advance-clock (either clock, by any amount, forwards or backwards, across the 2³² wrap) /
re-validate, any configured positive/negative range — in which requests with equal cache keys
present the same signed content (`KeyFaithful`): every Secure verdict handed out, fresh or cached,
is for content that passed `verify_rrset_with_dnskey` (all of `secure_implies_checks`), the
validator's clock is inside `[inception, expiration]` at the moment it is handed out, and its TTL
does not exceed the remaining signature lifetime. -/
theorem cache_sound (sigValid : SigOracle) (cfg : CacheConfig) (hist : List Request)
    (hb : ∀ r ∈ hist, Bounds r) (hkey : hist.Pairwise KeyFaithful) :
    AllSecure (fun r v => SecureOK sigValid r ∧ TtlOK r v) hist
      (runHistory sigValid cfg [] hist) :=
  allSecure_of_sound sigValid cfg serve _ KeyFaithful Bounds (fun r => r.now < M)
    (fun past r v fresh hs hsec hb hp => step_secure sigValid cfg past r v fresh hs hsec hb hp)
    [] hist _ (cache_provenanceG sigValid cfg serve hist)
    (fun r hr => ⟨hb r hr, (hb r hr).1⟩) (by simp) hkey

/-- clock and RRSIG times are `u32`s (nothing is assumed about the RRSIG's period) -/
def Bounds32 (r : Request) : Prop :=
  r.now < M ∧ r.rrsig.input.inception < M ∧ r.rrsig.input.expiration < M

theorem step_secure32 (sigValid : SigOracle) (cfg : CacheConfig)
    (past : List Request) (r : Request) (v : Verdict) (fresh : Bool)
    (hs : StepSound sigValid cfg serve past r v fresh) (hsec : v.proof = .secure) (hb : Bounds32 r)
    (hpair : ∀ r' ∈ past, KeyFaithful r' r ∧ Bounds32 r') :
    SecureOK sigValid r ∧ TtlOK r v := by
  obtain ⟨hnow, hinc, hexp⟩ := hb
  -- the period is well formed because some request with this RRSIG was validated Secure
  have hwf : SerialLe r.rrsig.input.inception r.rrsig.input.expiration := by
    rcases hs with ⟨_, hv⟩ | ⟨_, r', hr', hck, t, ht, hlive, hv⟩
    · subst hv
      obtain ⟨k, _, hk⟩ := fresh_secure hsec
      exact secure_period_wf sigValid k .secure r.rrsig r.keyName r.keyType r.records r.now _ hinc hexp hk
    · obtain ⟨hkf, _⟩ := hpair r' hr'
      obtain ⟨hsig, _, _, _⟩ := hkf hck
      have hsec' : (freshVerdict sigValid r').proof = .secure := by
        simp only [serve, entryOf] at hv
        split at hv
        · split at hv
          · cases hv
          · split at hv <;> (simp only [Option.some.injEq] at hv; rw [← hv] at hsec; exact hsec)
        · simp only [Option.some.injEq] at hv; rw [← hv] at hsec; exact hsec
      obtain ⟨k, _, hk⟩ := fresh_secure hsec'
      rw [← hsig]
      exact secure_period_wf sigValid k .secure r'.rrsig r'.keyName r'.keyType r'.records r'.now _
        (by rw [hsig]; exact hinc) (by rw [hsig]; exact hexp) hk
  exact step_secure sigValid cfg past r v fresh hs hsec ⟨hnow, hinc, hexp, hwf⟩
    (fun r' hr' => ⟨(hpair r' hr').1, (hpair r' hr').2.1⟩)

/-- **`cache_sound` without any assumption on the RRSIG's period** (u32 bounds and `KeyFaithful`
only): a Secure verdict can only ever be computed for a well-formed period (`secure_period_wf`). -/
theorem cache_sound_u32 (sigValid : SigOracle) (cfg : CacheConfig) (hist : List Request)
    (hb : ∀ r ∈ hist, Bounds32 r) (hkey : hist.Pairwise KeyFaithful) :
    AllSecure (fun r v => SecureOK sigValid r ∧ TtlOK r v) hist
      (runHistory sigValid cfg [] hist) :=
  allSecure_of_sound sigValid cfg serve _ KeyFaithful Bounds32 Bounds32
    (fun past r v fresh hs hsec hb hp => step_secure32 sigValid cfg past r v fresh hs hsec hb hp)
    [] hist _ (cache_provenanceG sigValid cfg serve hist)
    (fun r hr => ⟨hb r hr, hb r hr⟩) (by simp) hkey

/-- **A failed DNSKEY lookup leaves the cache unchanged**: the RRset is Bogus for this response only
("these could be transient errors that should be retried"); nothing is learnt, nothing is forgotten. -/
theorem net_error_not_cached (sigValid : SigOracle) (cfg : CacheConfig) (c : Cache) (r : Request)
    (hn : r.netError = true) (hl : noLookup r = false) (hmiss : cacheGetE c r.ck r.inst = none) :
    validate sigValid cfg c r = (c, { isOk := false, proof := .bogus, adjustedTtl := none }, true) := by
  simp [validate, validateG, hmiss, freshVerdict, hn, hl]

/-! ### several RRSIGs per RRset; the 64-bit wall clock -/

theorem firstCandidate_spec (p : Nat → Rrsig → Bool) (start : Nat) (sigs : List Rrsig)
    (i : Nat) (sig : Rrsig) (h : firstCandidate p start sigs = some (i, sig)) :
    start ≤ i ∧ sigs[i - start]? = some sig ∧ p i sig = true ∧
    ∀ j, j < i - start → ∀ s, sigs[j]? = some s → p (start + j) s = false := by
  induction sigs generalizing start with
  | nil => simp [firstCandidate] at h
  | cons x xs ih =>
    simp only [firstCandidate] at h
    split at h
    · rename_i hc
      simp only [Option.some.injEq, Prod.mk.injEq] at h
      obtain ⟨rfl, rfl⟩ := h
      refine ⟨Nat.le_refl _, by simp, hc, ?_⟩
      intro j hj
      omega
    · rename_i hc
      obtain ⟨h1, h2, h3, h4⟩ := ih (start + 1) h
      refine ⟨by omega, ?_, h3, ?_⟩
      · have : i - start = (i - (start + 1)) + 1 := by omega
        rw [this, List.getElem?_cons_succ]; exact h2
      · intro j hj s hs
        cases j with
        | zero =>
          simp only [List.getElem?_cons_zero, Option.some.injEq] at hs
          subst hs
          simpa using hc
        | succ j =>
          rw [List.getElem?_cons_succ] at hs
          have := h4 j (by omega) s hs
          rw [show start + (j + 1) = start + 1 + j by omega]; exact this

/-- **The reported `rrsig_index` is an index into the unfiltered RRSIG list, and the request the code
evaluates is about exactly that RRSIG**: it is a candidate (so: signer is the owner or an ancestor, not
the DS owner itself, not beyond the RRSIG cap, not the original DNSKEY query again), and — unless every
lookup failed — every RRSIG before it is a non-candidate or one whose DNSKEY lookup failed. -/
theorem toRequest_index (m : MultiRequest) (i : Nat) (h : m.toRequest.2 = some i) :
    m.rrsigs[i]? = some m.toRequest.1.rrsig ∧ m.toRequest.1.skip = false ∧
    m.candidate i m.toRequest.1.rrsig = true ∧
    isCandidate m.keyName m.keyType i m.toRequest.1.rrsig = true ∧
    (m.toRequest.1.netError = false →
      m.lookupFails m.toRequest.1.rrsig = false ∧
      ∀ j, j < i → ∀ s, m.rrsigs[j]? = some s → (m.candidate j s && !m.lookupFails s) = false) := by
  unfold MultiRequest.toRequest at h ⊢
  cases hf : firstCandidate (fun i sig => m.candidate i sig && !m.lookupFails sig) 0 m.rrsigs with
  | some p =>
    obtain ⟨i', sig⟩ := p
    rw [hf] at h
    simp only [Option.some.injEq] at h
    subst h
    obtain ⟨_, h2, h3, h4⟩ := firstCandidate_spec _ 0 _ _ _ hf
    simp only [Nat.sub_zero, Nat.zero_add] at h2 h4
    simp only [Bool.and_eq_true, Bool.not_eq_true'] at h3
    have hc : isCandidate m.keyName m.keyType i' sig = true := by
      have := h3.1; simp only [MultiRequest.candidate, Bool.and_eq_true] at this; exact this.1
    exact ⟨h2, rfl, h3.1, hc, fun _ => ⟨h3.2, h4⟩⟩
  | none =>
    rw [hf] at h
    simp only at h ⊢
    cases hg : firstCandidate m.candidate 0 m.rrsigs with
    | none => rw [hg] at h; simp at h
    | some p =>
      obtain ⟨i', sig⟩ := p
      rw [hg] at h
      simp only [Option.some.injEq] at h
      subst h
      obtain ⟨_, h2, h3, _⟩ := firstCandidate_spec _ 0 _ _ _ hg
      simp only [Nat.sub_zero] at h2
      have hc : isCandidate m.keyName m.keyType i' sig = true := by
        have := h3; simp only [MultiRequest.candidate, Bool.and_eq_true] at this; exact this.1
      exact ⟨h2, rfl, h3, hc, fun hne => by simp at hne⟩

/-- without a candidate nothing is Secure -/
theorem toRequest_none (sigValid : SigOracle) (m : MultiRequest) (h : m.toRequest.2 = none) :
    (freshVerdict sigValid m.toRequest.1).proof = .bogus := by
  unfold MultiRequest.toRequest at h ⊢
  cases hf : firstCandidate (fun i sig => m.candidate i sig && !m.lookupFails sig) 0 m.rrsigs with
  | some p => rw [hf] at h; simp at h
  | none =>
    rw [hf] at h
    simp only at h ⊢
    cases hg : firstCandidate m.candidate 0 m.rrsigs with
    | none => simp [freshVerdict, noLookup]
    | some p => rw [hg] at h; simp at h

/-- **An RRSIG whose DNSKEY query would be the original query again is never the one evaluated**
("Break verification cycle" in `verify_default_rrset`). -/
theorem toRequest_no_cycle (m : MultiRequest) (i : Nat) (h : m.toRequest.2 = some i) :
    cycleSkip m.origDnskey m.toRequest.1.rrsig = false := by
  have := (toRequest_index m i h).2.2.1
  simp only [MultiRequest.candidate, Bool.and_eq_true, Bool.not_eq_true'] at this
  exact this.2

/-- **When every DNSKEY lookup of an RRset fails, the evaluated request is a failed lookup** (by
`net_error_not_cached`: Bogus, and nothing is cached). -/
theorem toRequest_all_lookups_fail (m : MultiRequest)
    (hall : ∀ s ∈ m.rrsigs, m.lookupFails s = true) (i : Nat) (h : m.toRequest.2 = some i) :
    m.toRequest.1.netError = true := by
  have hi := toRequest_index m i h
  cases hne : m.toRequest.1.netError with
  | true => rfl
  | false =>
    have h1 := (hi.2.2.2.2 hne).1
    have hm : m.toRequest.1.rrsig ∈ m.rrsigs := List.mem_of_getElem? hi.1
    rw [hall _ hm] at h1
    cases h1

theorem toRequest_clock (m : MultiRequest) (t : Nat) (h : clock32 t = clock32 m.clock) :
    ({ m with clock := t } : MultiRequest).toRequest = m.toRequest := by
  have hc : ({ m with clock := t } : MultiRequest).candidate = m.candidate := rfl
  have hl : ({ m with clock := t } : MultiRequest).lookupFails = m.lookupFails := rfl
  unfold MultiRequest.toRequest
  simp only [hc, hl, h]

/-- **The verdict depends on the wall clock only through `clock mod 2³²`** (`current_time() as u32`):
a step at clock `t` is the step at clock `t mod 2³²`, and clocks that differ by a multiple of 2³² give
the same step — in particular nothing "sticks" at `u32::MAX` from 2³² s on. -/
theorem verdict_clock_mod (sigValid : SigOracle) (cfg : CacheConfig) (c : Cache) (m : MultiRequest) :
    validateM sigValid cfg c { m with clock := m.clock % M32 } = validateM sigValid cfg c m := by
  unfold validateM
  rw [toRequest_clock m _ (by simp [clock32])]

theorem verdict_clock_period (sigValid : SigOracle) (cfg : CacheConfig) (c : Cache) (m : MultiRequest)
    (k : Nat) :
    validateM sigValid cfg c { m with clock := m.clock + k * M32 } = validateM sigValid cfg c m := by
  unfold validateM
  rw [toRequest_clock m _ (by simp [clock32, Nat.add_mul_mod_self_right])]

theorem clock32_lt (t : Nat) : clock32 t < M := Nat.mod_lt _ (by decide)

/-- a history of multi-RRSIG requests is the history of the single-RRSIG requests the code evaluates -/
def runHistoryM (sigValid : SigOracle) (cfg : CacheConfig) (hist : List MultiRequest) :
    List (Verdict × Bool) :=
  runHistory sigValid cfg [] (hist.map (·.toRequest.1))

/-- **`cache_sound` for RRsets with several RRSIGs and a 64-bit clock.**  For every history: every
Secure verdict, fresh or cached, is for content that passed `verify_rrset_with_dnskey` with the RRSIG
`m.toRequest.1.rrsig` — by `toRequest_index` the RRSIG at the reported `rrsig_index` of the unfiltered
list, the one that is handed the proof — while `clock mod 2³²` is inside **that** RRSIG's
`[inception, expiration]`, and with a TTL of at most **its** remaining lifetime; no other RRSIG of the
RRset (however long its claimed validity) enters. -/
theorem cache_sound_multi (sigValid : SigOracle) (cfg : CacheConfig) (hist : List MultiRequest)
    (hb : ∀ m ∈ hist, m.toRequest.1.rrsig.input.inception < M ∧ m.toRequest.1.rrsig.input.expiration < M)
    (hkey : (hist.map (·.toRequest.1)).Pairwise KeyFaithful) :
    AllSecure (fun r v => SecureOK sigValid r ∧ TtlOK r v) (hist.map (·.toRequest.1))
      (runHistoryM sigValid cfg hist) := by
  apply cache_sound_u32 sigValid cfg _ _ hkey
  intro r hr
  obtain ⟨m, hm, rfl⟩ := List.mem_map.1 hr
  refine ⟨?_, (hb m hm).1, (hb m hm).2⟩
  unfold MultiRequest.toRequest
  split
  · exact clock32_lt _
  · split <;> exact clock32_lt _

/-! ### concrete values: non-vacuity -/

deriving instance DecidableEq for Except

/-- `a.` -/
def nameA : Name := ⟨[[97]], true⟩
/-- a zone key (flags 256) for `a.`, algorithm 13 -/
def key0 : Dnskey := ⟨nameA, 256, 13, [1, 2, 3, 4]⟩
/-- RRSIG over `a. A`, valid from 900 to 1010, original TTL 3600 -/
def sig0 : Rrsig := ⟨nameA, 1, 3600, ⟨1, 13, 1, 3600, 1010, 900, keyTag key0.rdata, nameA⟩, [9]⟩
def recA (ttl : Nat) (o : Bytes) : Record := ⟨nameA, 1, 1, ttl, .a o⟩
/-- a signature oracle that accepts everything (the strongest adversary for soundness statements) -/
def acceptAll : SigOracle := fun _ _ _ => true
/-- validate `a. A 10.0.0.1` (TTL `ttl`) at validator time `now`, monotonic time `inst` -/
def reqA (ttl now inst : Nat) : Request :=
  ⟨[1], [(key0, .secure)], sig0, nameA, 1, [recA ttl [10, 0, 0, 1]], now, inst, false, false⟩

/-- `secure_implies_checks` / `ttl_le_remaining` are not vacuous: inside the window the verdict is
Secure with TTL `min 3600 3600 (1010 − 1000) = 10`; one second after expiration, and at distance
2³¹, it is not. -/
example :
    verifyRrsetWithDnskey acceptAll key0 .secure sig0 nameA 1 [recA 3600 [10, 0, 0, 1]] 1000
      = .ok (.secure, some 10) ∧
    verifyRrsetWithDnskey acceptAll key0 .secure sig0 nameA 1 [recA 3600 [10, 0, 0, 1]] 1010
      = .ok (.secure, some 0) ∧
    verifyRrsetWithDnskey acceptAll key0 .secure sig0 nameA 1 [recA 3600 [10, 0, 0, 1]] 1011
      = .error .bogus ∧
    verifyRrsetWithDnskey acceptAll key0 .secure sig0 nameA 1 [recA 3600 [10, 0, 0, 1]] 899
      = .error .bogus ∧
    verifyRrsetWithDnskey acceptAll key0 .secure sig0 nameA 1 [recA 3600 [10, 0, 0, 1]] (1000 + HALF)
      = .error .bogus ∧
    verifyRrsetWithDnskey acceptAll { key0 with flags := 384 } .secure sig0 nameA 1
      [recA 3600 [10, 0, 0, 1]] 1000 = .error .bogus ∧
    verifyRrsetWithDnskey acceptAll key0 .insecure sig0 nameA 1 [recA 3600 [10, 0, 0, 1]] 1000
      = .error .insecure := by
  decide

/-- regression (fixed by `fix: an RRSIG's validity period must be well formed`): an RRSIG with
expiration 1010 and inception 1010 + 2³¹ (a period of exactly 2³¹ s, undefined in serial arithmetic)
used to be Secure at 1009 and was then served from the cache at 1010, where `inception ≤ now` is
undefined; it is now never Secure, like every RRSIG whose expiration is before its inception -/
example :
    let sigW : Rrsig := { sig0 with input := { sig0.input with inception := 1010 + HALF } }
    let sigE : Rrsig := { sig0 with input := { sig0.input with inception := 2000, expiration := 1000 } }
    let req : Rrsig → Nat → Request := fun sg now => ⟨[1], [(key0, .secure)], sg, nameA, 1, [recA 3600 [10, 0, 0, 1]], now, 0, false, false⟩
    (freshVerdict acceptAll (req sigW 1009)).proof = .bogus ∧
    (freshVerdict acceptAll (req sigW 1010)).proof = .bogus ∧
    (freshVerdict acceptAll (req sigE 999)).proof = .bogus ∧
    (freshVerdict acceptAll (req sigE 1500)).proof = .bogus ∧
    (freshVerdict acceptAll (req sigE 2001)).proof = .bogus := by
  decide

/-- an oracle that accepts exactly the signed data of `recs` under `sig0` (what unforgeability gives
for a signature made over that RRset) -/
def acceptOnly (recs : List Record) : SigOracle :=
  fun _ tbs _ => tbsImpl nameA 1 sig0.input recs == .ok tbs

/-- `mutation_rejects` / `secure_signs_canonical` on concrete values: with a signature over the RRset
`{10.0.0.1, 10.0.0.2}`, presenting the records in another order, with a duplicate, with other
received TTLs or another owner letter case is still Secure (same canonical set); a flipped address
bit, a missing or an extra record, or an altered RRSIG field (original TTL, expiration) is not -/
example :
    let signed := [recA 3600 [10, 0, 0, 1], recA 3600 [10, 0, 0, 2]]
    let o := acceptOnly signed
    verifyRrsetWithDnskey o key0 .secure sig0 nameA 1 signed 1000 = .ok (.secure, some 10) ∧
    verifyRrsetWithDnskey o key0 .secure sig0 nameA 1
      [recA 7 [10, 0, 0, 2], recA 3600 [10, 0, 0, 1], recA 60 [10, 0, 0, 2]] 1000 = .ok (.secure, some 7) ∧
    verifyRrsetWithDnskey o key0 .secure sig0 nameA 1
      [⟨⟨[[65]], true⟩, 1, 1, 3600, .a [10, 0, 0, 1]⟩, recA 3600 [10, 0, 0, 2]] 1000 = .ok (.secure, some 10) ∧
    verifyRrsetWithDnskey o key0 .secure sig0 nameA 1
      [recA 3600 [10, 0, 0, 1], recA 3600 [10, 0, 0, 3]] 1000 = .error .bogus ∧
    verifyRrsetWithDnskey o key0 .secure sig0 nameA 1 [recA 3600 [10, 0, 0, 1]] 1000 = .error .bogus ∧
    verifyRrsetWithDnskey o key0 .secure sig0 nameA 1
      (recA 3600 [10, 0, 0, 9] :: signed) 1000 = .error .bogus ∧
    verifyRrsetWithDnskey o key0 .secure { sig0 with input := { sig0.input with originalTtl := 3601 } }
      nameA 1 signed 1000 = .error .bogus ∧
    verifyRrsetWithDnskey o key0 .secure { sig0 with input := { sig0.input with expiration := 1011 } }
      nameA 1 signed 1000 = .error .bogus := by
  decide

/-- key-tag collision cap (`MAX_KEY_TAG_COLLISIONS = 2`): the third key with the same tag is never
tried, even if it is the right one; an all-Insecure key set is inherited as Insecure, never Secure -/
example :
    keyTag ({ key0 with pubkey := [3, 4, 1, 2] } : Dnskey).rdata = keyTag key0.rdata ∧
    keyTag ({ key0 with pubkey := [2, 1, 2, 5] } : Dnskey).rdata = keyTag key0.rdata ∧
    verifyRrsigWithKeys (fun k _ _ => k == key0)
      [({ key0 with pubkey := [3, 4, 1, 2] }, .secure), ({ key0 with pubkey := [2, 1, 2, 5] }, .secure),
       (key0, .secure)] sig0 nameA 1 [recA 60 [1, 1, 1, 1]] 1000 = none ∧
    verifyRrsigWithKeys (fun k _ _ => k == key0)
      [({ key0 with pubkey := [3, 4, 1, 2] }, .secure), (key0, .secure)]
      sig0 nameA 1 [recA 60 [1, 1, 1, 1]] 1000 = some (.secure, some 10) ∧
    verifyRrsigWithKeys acceptAll [(key0, .insecure)] sig0 nameA 1 [recA 60 [1, 1, 1, 1]] 1000
      = some (.insecure, none) := by
  decide

/-- the history on which the pre-repair cache failed: the cached answer
carries the reduced TTL, and once the validator's clock is past the expiration — although the entry
is still live on the monotonic clock — a fresh validation is made, which says Bogus -/
example :
    (runHistory acceptAll {} [] [reqA 3600 1000 0, reqA 3600 1005 5, reqA 3600 1020 20]).map
        (fun o => (o.1.proof, o.1.adjustedTtl, o.2))
      = [(.secure, some 10, true), (.secure, some 5, false), (.bogus, none, true)] ∧
    (runHistory acceptAll {} [] [reqA 3600 1000 0, reqA 3600 1020 0, reqA 3600 999 0]).map
        (fun o => (o.1.proof, o.2))
      = [(.secure, true), (.bogus, true), (.bogus, false)] := by
  decide

/-- the hypotheses of `cache_sound` are satisfiable by a non-trivial history: only `Bounds` and
`KeyFaithful` are needed, whatever the clocks do (here the wall clock jumps past the expiration while
the monotonic clock stands still) -/
example :
    AllSecure (fun r v => SecureOK acceptAll r ∧ TtlOK r v) [reqA 3600 1000 0, reqA 3600 1005 0, reqA 3600 1020 0]
      (runHistory acceptAll {} [] [reqA 3600 1000 0, reqA 3600 1005 0, reqA 3600 1020 0]) := by
  apply cache_sound
  · intro r hr
    simp only [List.mem_cons, List.mem_nil_iff, or_false] at hr
    rcases hr with rfl | rfl | rfl <;> (unfold Bounds SerialLe M HALF; decide)
  · simp only [List.pairwise_cons, List.mem_cons, or_false, forall_eq_or_imp, forall_eq,
      List.not_mem_nil, false_imp_iff, implies_true, List.Pairwise.nil, and_true]
    refine ⟨⟨?_, ?_⟩, ?_⟩ <;> (intro _; exact ⟨rfl, rfl, rfl, rfl⟩)

end HickoryVerif.C06
