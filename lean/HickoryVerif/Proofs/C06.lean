/-
C06 — a signature is accepted only for the exact RRset, key and time window.
Property theorems about `Model/SigCheck.lean`.
-/
import HickoryVerif.Model.SigCheck
import HickoryVerif.Proofs.C05

namespace HickoryVerif.C06
open HickoryVerif HickoryVerif.Tbs HickoryVerif.SigCheck

/-! ### RFC 1982 serial arithmetic: the coded comparison is the modular one -/

/-- 2³² -/
def M : Nat := 4294967296

/-- RFC 1982 §3.2, by modular distance: `a ≤ b` is defined and true iff `(b − a) mod 2³² < 2³¹`. -/
def SerialLe (a b : Nat) : Prop := (b + M - a) % M < HALF

/-- The validator's clock is inside the signature's validity window `[inception, expiration]`,
in serial arithmetic (so also across the 2³² wrap-around). -/
def InWindow (now inception expiration : Nat) : Prop :=
  SerialLe inception now ∧ SerialLe now expiration

theorem serialLe_iff (a b : Nat) (ha : a < M) (hb : b < M) : serialLe a b = true ↔ SerialLe a b := by
  unfold serialLe serialCmp SerialLe M HALF at *
  split <;> rename_i h <;> split at h <;> try (split at h) <;> try (split at h)
  all_goals simp_all
  all_goals omega

theorem serialGe_iff (a b : Nat) (ha : a < M) (hb : b < M) : serialGe a b = true ↔ SerialLe b a := by
  unfold serialGe serialCmp SerialLe M HALF at *
  split <;> rename_i h <;> split at h <;> try (split at h) <;> try (split at h)
  all_goals simp_all
  all_goals omega

/-- at distance exactly 2³¹ the comparison is undefined and both `<=` and `>=` are false -/
theorem serial_undefined (a : Nat) :
    serialCmp a (a + HALF) = none ∧ serialLe a (a + HALF) = false ∧ serialGe a (a + HALF) = false := by
  unfold serialLe serialGe serialCmp HALF at *
  simp

/-! ### `verify_rrset_with_dnskey` -/

/-- what `RrsigValidity::check` = `ValidRrsig` means -/
theorem validity_valid {rrsig : Rrsig} {keyName : Name} {keyType : Nat} {records : List Record}
    {k : Dnskey} {now : Nat}
    (h : rrsigValidityCheck rrsig keyName keyType records k now = .validRrsig) :
    (∀ r ∈ records, r.cls = 1) ∧
    Name.eq rrsig.owner keyName = true ∧ rrsig.input.typeCovered = keyType ∧
    rrsig.input.numLabels ≤ keyName.numLabels ∧
    serialLe now rrsig.input.expiration = true ∧ serialGe now rrsig.input.inception = true ∧
    Name.eq rrsig.input.signer k.owner = true ∧ rrsig.input.algorithm = k.algorithm ∧
    rrsig.input.keyTag = keyTag k.rdata ∧ k.zoneKey = true := by
  unfold rrsigValidityCheck at h
  split at h
  · cases h
  split at h
  · cases h
  split at h
  · cases h
  split at h
  · cases h
  rename_i h1 h2 h3 h4
  simp only [List.any_eq_true, bne_iff_ne, ne_eq, not_exists, not_and, Decidable.not_not] at h1
  simp only [Bool.not_eq_true', Bool.and_eq_true, beq_iff_eq,
    decide_eq_true_eq, Bool.not_eq_false] at h2 h3 h4
  exact ⟨h1, h2.1.1, h2.1.2, h2.2, h3.1, h3.2, h4.1.1.1, h4.1.1.2, h4.1.2, h4.2⟩

/-- **Secure implies every check.**  If `verify_rrset_with_dnskey` returns Secure then: the key's own
proof is Secure; it is a non-revoked zone key; its owner is the RRSIG's signer, its algorithm and key
tag are the RRSIG's; the RRSIG's owner is the RRset's owner, its class is IN like every record's,
its Type Covered is the RRset's type, its Labels field does not exceed the owner's label count; the
validator's clock is inside `[inception, expiration]` in serial arithmetic; and the signature
oracle accepted the signature for exactly the bytes `TBS::from_input` produces for this RRset and
these RRSIG fields under this key. -/
theorem secure_implies_checks (sigValid : SigOracle) (k : Dnskey) (kp : Proof) (sig : Rrsig)
    (keyName : Name) (keyType : Nat) (records : List Record) (now : Nat) (ttl : Option Nat)
    (hnow : now < M) (hinc : sig.input.inception < M) (hexp : sig.input.expiration < M)
    (h : verifyRrsetWithDnskey sigValid k kp sig keyName keyType records now = .ok (.secure, ttl)) :
    kp = .secure ∧ k.zoneKey = true ∧ k.revoke = false ∧
    Name.eq sig.input.signer k.owner = true ∧ k.algorithm = sig.input.algorithm ∧
    sig.input.keyTag = keyTag k.rdata ∧
    Name.eq sig.owner keyName = true ∧ sig.cls = 1 ∧ (∀ r ∈ records, r.cls = 1) ∧
    sig.input.typeCovered = keyType ∧ sig.input.numLabels ≤ keyName.numLabels ∧
    InWindow now sig.input.inception sig.input.expiration ∧
    ∃ tbs, tbsImpl keyName 1 sig.input records = .ok tbs ∧ sigValid k tbs sig.sig = true := by
  unfold verifyRrsetWithDnskey at h
  split at h
  · cases h
  split at h
  · cases h
  split at h
  · cases h
  split at h
  · cases h
  split at h
  · cases h
  rename_i h1 h2 h3 h4 h5
  simp only [ne_eq, Decidable.not_not] at h1 h5
  have hv := validity_valid h5
  split at h
  · simp at h
  · split at h
    · cases h
    · rename_i first rest h6
      split at h
      · rename_i tbs htbs
        split at h
        · rename_i hs
          refine ⟨h1, hv.2.2.2.2.2.2.2.2.2, by simpa using h2, hv.2.2.2.2.2.2.1, by simpa using h4,
            hv.2.2.2.2.2.2.2.2.1, hv.2.1, by simpa using h6, hv.1, hv.2.2.1, hv.2.2.2.1, ?_, tbs, htbs, hs⟩
          exact ⟨(serialGe_iff _ _ hnow hinc).1 hv.2.2.2.2.2.1, (serialLe_iff _ _ hnow hexp).1 hv.2.2.2.2.1⟩
        · cases h
      · cases h

/-- **Outside the window nothing is Secure** — for all 2³² × 2³² × 2³² (now, inception, expiration)
triples, including windows and clocks across the wrap-around and the undefined distance 2³¹. -/
theorem window_rejects (sigValid : SigOracle) (k : Dnskey) (kp : Proof) (sig : Rrsig)
    (keyName : Name) (keyType : Nat) (records : List Record) (now : Nat) (ttl : Option Nat)
    (hnow : now < M) (hinc : sig.input.inception < M) (hexp : sig.input.expiration < M)
    (hw : ¬ InWindow now sig.input.inception sig.input.expiration) :
    verifyRrsetWithDnskey sigValid k kp sig keyName keyType records now ≠ .ok (.secure, ttl) :=
  fun h => hw (secure_implies_checks sigValid k kp sig keyName keyType records now ttl hnow hinc hexp h).2.2.2.2.2.2.2.2.2.2.2.1

/-- **TTL of an accepted RRset.**  A Secure verdict carries a TTL, and that TTL is at most the
remaining signature lifetime (`expiration ⊖ now` in serial arithmetic), the RRSIG's Original TTL and
the received TTL of the RRset's first record (as coded: `authenticated_ttl(first_record, now)`). -/
theorem ttl_le_remaining (sigValid : SigOracle) (k : Dnskey) (kp : Proof) (sig : Rrsig)
    (keyName : Name) (keyType : Nat) (records : List Record) (now : Nat) (ttl : Option Nat)
    (hnow : now < M) (hexp : sig.input.expiration < M)
    (h : verifyRrsetWithDnskey sigValid k kp sig keyName keyType records now = .ok (.secure, ttl)) :
    ∃ t first rest, ttl = some t ∧ records = first :: rest ∧
      t ≤ (sig.input.expiration + M - now) % M ∧ t ≤ sig.input.originalTtl ∧ t ≤ first.ttl ∧
      t ≤ sig.input.expiration - now := by
  unfold verifyRrsetWithDnskey at h
  split at h
  · cases h
  split at h
  · cases h
  split at h
  · cases h
  split at h
  · cases h
  split at h
  · cases h
  cases records with
  | nil => simp at h
  | cons first rest =>
    simp only at h
    split at h
    · cases h
    · split at h
      · split at h
        · simp only [Except.ok.injEq, Prod.mk.injEq, true_and] at h
          refine ⟨authenticatedTtl sig first now, first, rest, h.symm, rfl, ?_, ?_, ?_, ?_⟩
          · unfold authenticatedTtl M at *; omega
          · unfold authenticatedTtl; omega
          · unfold authenticatedTtl; omega
          · unfold authenticatedTtl; omega
        · cases h
      · cases h

/-- **Exactly that RRset.**  Combined with C05: when the RRset satisfies the hypotheses under which
`TBS::from_input` is the RFC 4035 §5.3.2 signed data (`C05.tbs_eq_spec_partial`), a Secure verdict
means the signature oracle accepted the signature over the *canonical* signed data of exactly the
presented records (owner, class IN, type, RDATA set) and RRSIG fields — a property of the RRset as a
set, independent of record order and of the letter case of the owner. -/
theorem secure_signs_canonical (sigValid : SigOracle) (k : Dnskey) (kp : Proof) (sig : Rrsig)
    (keyName : Name) (keyType : Nat) (records : List Record) (now : Nat) (ttl : Option Nat)
    (hnow : now < M) (hinc : sig.input.inception < M) (hexp : sig.input.expiration < M)
    (hb : C04.Bounded keyName)
    (hnd : hasDup (collect keyName 1 sig.input records) = false)
    (httl : sameTtl (collect keyName 1 sig.input records) = true)
    (hcase : rdataCaseCanonical (collect keyName 1 sig.input records) = true)
    (h : verifyRrsetWithDnskey sigValid k kp sig keyName keyType records now = .ok (.secure, ttl)) :
    ∃ tbs, Spec.signedData sig.input keyName 1 ((collect keyName 1 sig.input records).map (·.data))
        = some tbs ∧ sigValid k tbs sig.sig = true := by
  obtain ⟨tbs, htbs, hs⟩ :=
    (secure_implies_checks sigValid k kp sig keyName keyType records now ttl hnow hinc hexp h).2.2.2.2.2.2.2.2.2.2.2.2
  have hspec := C05.tbs_eq_spec_partial keyName 1 sig.input records hb hnd httl hcase
  rw [htbs] at hspec
  unfold C05.expected at hspec
  split at hspec
  · rename_i b hb'
    split at hspec
    · cases hspec
    · simp only [Outcome.ok.injEq] at hspec
      exact ⟨b, by rw [hb'], by rw [← hspec]; exact hs⟩
  · cases hspec

/-! ### `verify_rrsig_with_keys` -/

theorem mem_filterTagCollisions {seen : List Nat} {l : List (Dnskey × Proof)} {x : Dnskey × Proof}
    (h : x ∈ filterTagCollisions seen l) : x ∈ l := by
  induction l generalizing seen with
  | nil => simp [filterTagCollisions] at h
  | cons kp rest ih =>
    obtain ⟨k, p⟩ := kp
    simp only [filterTagCollisions] at h
    split at h
    · exact List.mem_cons_of_mem _ (ih h)
    · rcases List.mem_cons.1 h with rfl | h
      · simp
      · exact List.mem_cons_of_mem _ (ih h)

theorem keysLoop_secure {sigValid : SigOracle} {rrsig : Rrsig} {keyName : Name} {keyType : Nat}
    {records : List Record} {now : Nat} {ai : Option Bool} {l : List (Dnskey × Proof)}
    {ttl : Option Nat}
    (h : keysLoop sigValid rrsig keyName keyType records now ai l = some (.secure, ttl)) :
    ∃ k, (k, Proof.secure) ∈ l ∧
      verifyRrsetWithDnskey sigValid k .secure rrsig keyName keyType records now = .ok (.secure, ttl) := by
  induction l generalizing ai with
  | nil =>
    simp only [keysLoop] at h
    split at h <;> simp at h
  | cons kp rest ih =>
    obtain ⟨k, p⟩ := kp
    cases p with
    | secure =>
      simp only [keysLoop] at h
      split at h
      · rename_i r hr
        simp only [Option.some.injEq] at h
        subst h
        exact ⟨k, by simp, hr⟩
      · obtain ⟨k', hk', hv⟩ := ih h
        exact ⟨k', List.mem_cons_of_mem _ hk', hv⟩
    | insecure =>
      simp only [keysLoop] at h
      obtain ⟨k', hk', hv⟩ := ih h
      exact ⟨k', List.mem_cons_of_mem _ hk', hv⟩
    | bogus =>
      simp only [keysLoop] at h
      obtain ⟨k', hk', hv⟩ := ih h
      exact ⟨k', List.mem_cons_of_mem _ hk', hv⟩
    | indeterminate =>
      simp only [keysLoop] at h
      obtain ⟨k', hk', hv⟩ := ih h
      exact ⟨k', List.mem_cons_of_mem _ hk', hv⟩

/-- **A Secure result of `verify_rrsig_with_keys` comes from one of the presented keys**, whose own
proof is Secure and for which `verify_rrset_with_dnskey` said Secure (hence all of
`secure_implies_checks`).  The all-insecure inheritance can only produce Insecure. -/
theorem keys_secure_implies {sigValid : SigOracle} {dnskeys : List (Dnskey × Proof)} {rrsig : Rrsig}
    {keyName : Name} {keyType : Nat} {records : List Record} {now : Nat} {ttl : Option Nat}
    (h : verifyRrsigWithKeys sigValid dnskeys rrsig keyName keyType records now = some (.secure, ttl)) :
    ∃ k, (k, Proof.secure) ∈ dnskeys ∧
      verifyRrsetWithDnskey sigValid k .secure rrsig keyName keyType records now = .ok (.secure, ttl) := by
  unfold verifyRrsigWithKeys at h
  split at h
  · cases h
  · obtain ⟨k, hk, hv⟩ := keysLoop_secure h
    exact ⟨k, mem_filterTagCollisions hk, hv⟩

theorem fresh_secure {sigValid : SigOracle} {r : Request}
    (h : (freshVerdict sigValid r).proof = .secure) :
    ∃ k, (k, Proof.secure) ∈ r.dnskeys ∧
      verifyRrsetWithDnskey sigValid k .secure r.rrsig r.keyName r.keyType r.records r.now
        = .ok (.secure, (freshVerdict sigValid r).adjustedTtl) := by
  unfold freshVerdict at h ⊢
  split at h
  · rename_i p ttl hv
    simp only at h
    subst h
    exact keys_secure_implies hv
  · cases h

/-! ### the validation cache: provenance of every verdict (holds of the code as it is)

The development is generic in what `get` does with a live entry (`serve`), so that it covers both
the code as it is (`serveAsIs`) and the repaired cache of `Proofs/C06Fixed.lean` (`serveFixed`). -/

/-- TTL of the first record (`cx.rrset.records.first()`) -/
def firstTtl (r : Request) : Option Nat := r.records.head?.map (·.ttl)

/-- a cache entry is the one `insert` created for the fresh validation of some earlier request -/
def Provenance (sigValid : SigOracle) (cfg : CacheConfig) (past : List Request) (e : CacheEntry) : Prop :=
  ∃ r ∈ past, ∃ t, firstTtl r = some t ∧ e = entryOf cfg r (freshVerdict sigValid r) t

/-- what is known about one answered request: the verdict was computed for this very request, or it
is what `serve` makes of the entry created by the fresh validation of an *earlier* request with the
same cache key, that entry being still live on the monotonic clock -/
def StepSound (sigValid : SigOracle) (cfg : CacheConfig) (serve : CacheEntry → Request → Option Verdict)
    (past : List Request) (r : Request) (v : Verdict) (fresh : Bool) : Prop :=
  (fresh = true ∧ v = freshVerdict sigValid r) ∨
  (fresh = false ∧ ∃ r' ∈ past, r'.ck = r.ck ∧
    ∃ t, firstTtl r' = some t ∧
      r.inst < r'.inst + cacheLifetime cfg (freshVerdict sigValid r') t ∧
      serve (entryOf cfg r' (freshVerdict sigValid r') t) r = some v)

theorem cacheGetE_some {c : Cache} {key : CacheKey} {inst : Nat} {e : CacheEntry}
    (h : cacheGetE c key inst = some e) : e ∈ c ∧ e.key = key ∧ inst < e.expires := by
  unfold cacheGetE at h
  split at h
  · rename_i e' he
    split at h
    · rename_i hlt
      simp only [Option.some.injEq] at h
      subst h
      have hk := List.find?_some he
      simp only [beq_iff_eq] at hk
      exact ⟨List.mem_of_find?_eq_some he, hk, hlt⟩
    · cases h
  · cases h

theorem provenance_mono {sigValid : SigOracle} {cfg : CacheConfig} {past : List Request}
    {e : CacheEntry} (r : Request) (h : Provenance sigValid cfg past e) :
    Provenance sigValid cfg (past ++ [r]) e := by
  obtain ⟨r', hr', h'⟩ := h
  exact ⟨r', by simp [hr'], h'⟩

theorem validate_inv (sigValid : SigOracle) (cfg : CacheConfig)
    (serve : CacheEntry → Request → Option Verdict) (past : List Request) (c : Cache)
    (r : Request) (hinv : ∀ e ∈ c, Provenance sigValid cfg past e) :
    (∀ e ∈ (validateG sigValid cfg serve c r).1, Provenance sigValid cfg (past ++ [r]) e) ∧
    StepSound sigValid cfg serve past r (validateG sigValid cfg serve c r).2.1
      (validateG sigValid cfg serve c r).2.2 := by
  unfold validateG
  cases hg : (cacheGetE c r.ck r.inst).bind (fun e => serve e r) with
  | some v =>
    simp only
    refine ⟨fun e' he' => provenance_mono r (hinv e' he'), Or.inr ⟨rfl, ?_⟩⟩
    cases hge : cacheGetE c r.ck r.inst with
    | none => rw [hge] at hg; cases hg
    | some e =>
      rw [hge] at hg
      simp only [Option.bind_some] at hg
      obtain ⟨he, hk, hlt⟩ := cacheGetE_some hge
      obtain ⟨r', hr', t, ht, hent⟩ := hinv e he
      subst hent
      exact ⟨r', hr', hk, t, ht, hlt, hg⟩
  | none =>
    simp only
    refine ⟨?_, Or.inl ⟨rfl, rfl⟩⟩
    intro e he
    unfold cacheInsert at he
    cases hft : r.records.head?.map (·.ttl) with
    | none =>
      rw [hft] at he
      exact provenance_mono r (hinv e he)
    | some t =>
      rw [hft] at he
      simp only [List.mem_cons, List.mem_filter] at he
      rcases he with rfl | he
      · exact ⟨r, by simp, t, hft, rfl⟩
      · exact provenance_mono r (hinv e he.1)

/-- a history is sound from `past` on: every answer satisfies `StepSound` w.r.t. the requests
before it -/
def SoundFrom (sigValid : SigOracle) (cfg : CacheConfig) (serve : CacheEntry → Request → Option Verdict) :
    List Request → List Request → List (Verdict × Bool) → Prop
  | _, [], [] => True
  | past, r :: rs, (v, fresh) :: outs =>
    StepSound sigValid cfg serve past r v fresh ∧ SoundFrom sigValid cfg serve (past ++ [r]) rs outs
  | _, _, _ => False

theorem soundFrom_of_inv (sigValid : SigOracle) (cfg : CacheConfig)
    (serve : CacheEntry → Request → Option Verdict) (past : List Request) (c : Cache)
    (hist : List Request) (hinv : ∀ e ∈ c, Provenance sigValid cfg past e) :
    SoundFrom sigValid cfg serve past hist (runHistoryG sigValid cfg serve c hist) := by
  induction hist generalizing past c with
  | nil => simp [runHistoryG, SoundFrom]
  | cons r rs ih =>
    obtain ⟨h1, h2⟩ := validate_inv sigValid cfg serve past c r hinv
    simp only [runHistoryG, SoundFrom]
    exact ⟨h2, ih _ _ h1⟩

/-- **History theorem, the part that holds whatever `get` does with live entries
(`cache_provenanceG`).**  For every history of validation requests (any clocks, any contents, any
cache configuration), starting from an empty cache: every verdict handed out was either freshly
computed for that very request at its own clock, or stems from the entry created by the fresh
validation of an *earlier* request with the same cache key, served while `Instant::now()` is before
that entry's expiry.  (No entry appears from nowhere, none is served past its lifetime, none is
attributed to another key.) -/
theorem cache_provenanceG (sigValid : SigOracle) (cfg : CacheConfig)
    (serve : CacheEntry → Request → Option Verdict) (hist : List Request) :
    SoundFrom sigValid cfg serve [] hist (runHistoryG sigValid cfg serve [] hist) :=
  soundFrom_of_inv sigValid cfg serve [] [] hist (by simp)

/-- **`cache_provenance`: the code as it is.** -/
theorem cache_provenance (sigValid : SigOracle) (cfg : CacheConfig) (hist : List Request) :
    SoundFrom sigValid cfg serveAsIs [] hist (runHistory sigValid cfg [] hist) :=
  cache_provenanceG sigValid cfg serveAsIs hist

/-! ### the history theorem about Secure verdicts -/

/-- the two requests present the same RRset, RRSIG and RRset key -/
def SameContent (a b : Request) : Prop :=
  a.rrsig = b.rrsig ∧ a.keyName = b.keyName ∧ a.keyType = b.keyType ∧ a.records = b.records

/-- clock and RRSIG times are `u32`s, and the RRSIG's window is well formed (`inception ≤ expiration`
in serial arithmetic, i.e. shorter than 2³¹ s) -/
def Bounds (r : Request) : Prop :=
  r.now < M ∧ r.rrsig.input.inception < M ∧ r.rrsig.input.expiration < M ∧
  SerialLe r.rrsig.input.inception r.rrsig.input.expiration

/-- **The hypothesis the current code does not guarantee**: the lifetime `ValidationCache::insert`
gives the entry of a Secure verdict does not exceed the remaining signature lifetime. -/
def LifetimeCapped (sigValid : SigOracle) (cfg : CacheConfig) (r : Request) : Prop :=
  ∀ t, firstTtl r = some t → (freshVerdict sigValid r).proof = .secure →
    cacheLifetime cfg (freshVerdict sigValid r) t ≤ r.rrsig.input.expiration - r.now

/-- `r'` was answered before `r`; if they share the cache key then they present the same signed
content (the key is faithful) -/
def KeyFaithful (r' r : Request) : Prop := r'.ck = r.ck → SameContent r' r

/-- `KeyFaithful`, and the validator's wall clock and the monotonic clock of the cache advanced by
the same amount between the two requests -/
def PairOK (r' r : Request) : Prop :=
  r'.ck = r.ck → SameContent r' r ∧ r'.now ≤ r.now ∧ r'.inst ≤ r.inst ∧
    r.now - r'.now = r.inst - r'.inst

/-- the content of `r` passed `verify_rrset_with_dnskey` at validator time `t` under a key whose own
proof is Secure -/
def ValidatedAt (sigValid : SigOracle) (r : Request) (t : Nat) : Prop :=
  ∃ k ttl, verifyRrsetWithDnskey sigValid k .secure r.rrsig r.keyName r.keyType r.records t
    = .ok (.secure, ttl)

/-- what the property demands of a Secure verdict handed out for request `r`: its content passed the
checks at some validator time `t₀`, and the validator's clock is (still) inside the window -/
def SecureOK (sigValid : SigOracle) (r : Request) : Prop :=
  InWindow r.now r.rrsig.input.inception r.rrsig.input.expiration ∧
  ∃ t0, t0 < M ∧ ValidatedAt sigValid r t0

theorem window_extends {now' now inc exp life : Nat} (hnow : now < M) (hinc : inc < M) (hexp : exp < M)
    (hwf : SerialLe inc exp) (hw : InWindow now' inc exp) (hle : now' ≤ now)
    (hd : now - now' < life) (hcap : life ≤ exp - now') : InWindow now inc exp := by
  unfold InWindow SerialLe M HALF at *
  omega

theorem step_secure_partial (sigValid : SigOracle) (cfg : CacheConfig)
    (past : List Request) (r : Request) (v : Verdict) (fresh : Bool)
    (hs : StepSound sigValid cfg serveAsIs past r v fresh) (hsec : v.proof = .secure) (hb : Bounds r)
    (hpair : ∀ r' ∈ past, PairOK r' r ∧ LifetimeCapped sigValid cfg r') :
    SecureOK sigValid r := by
  obtain ⟨hnow, hinc, hexp, hwf⟩ := hb
  rcases hs with ⟨_, hv⟩ | ⟨_, r', hr', hck, t, ht, hlive, hv⟩
  · subst hv
    obtain ⟨k, _, hk⟩ := fresh_secure hsec
    have hc := secure_implies_checks sigValid k .secure r.rrsig r.keyName r.keyType r.records r.now _
      hnow hinc hexp hk
    exact ⟨hc.2.2.2.2.2.2.2.2.2.2.2.1, r.now, hnow, k, _, hk⟩
  · obtain ⟨hp, hcapd⟩ := hpair r' hr'
    obtain ⟨⟨hsig, hkn, hkt, hrec⟩, hle, hile, hsync⟩ := hp hck
    simp only [serveAsIs, entryOf, Option.some.injEq] at hv
    subst hv
    obtain ⟨k, _, hk⟩ := fresh_secure hsec
    rw [hsig, hkn, hkt, hrec] at hk
    have hnow' : r'.now < M := by omega
    have hc := secure_implies_checks sigValid k .secure r.rrsig r.keyName r.keyType r.records r'.now _
      hnow' hinc hexp hk
    have hcap := hcapd t ht hsec
    rw [hsig] at hcap
    refine ⟨?_, r'.now, hnow', k, _, hk⟩
    exact window_extends hnow hinc hexp hwf hc.2.2.2.2.2.2.2.2.2.2.2.1 hle (by omega) hcap

/-- every Secure verdict of the history satisfies `Q request verdict` -/
def AllSecure (Q : Request → Verdict → Prop) : List Request → List (Verdict × Bool) → Prop
  | [], [] => True
  | r :: rs, (v, _) :: outs => (v.proof = .secure → Q r v) ∧ AllSecure Q rs outs
  | _, _ => False

/-- lifts a per-step lemma about Secure verdicts to whole histories; `P` relates an earlier request
to a later one, `C` is a condition on single requests -/
theorem allSecure_of_sound (sigValid : SigOracle) (cfg : CacheConfig)
    (serve : CacheEntry → Request → Option Verdict) (Q : Request → Verdict → Prop)
    (P : Request → Request → Prop) (C : Request → Prop)
    (hstep : ∀ past r v fresh, StepSound sigValid cfg serve past r v fresh → v.proof = .secure →
      Bounds r → (∀ r' ∈ past, P r' r ∧ C r') → Q r v)
    (past hist : List Request)
    (outs : List (Verdict × Bool)) (hs : SoundFrom sigValid cfg serve past hist outs)
    (hb : ∀ r ∈ hist, Bounds r ∧ C r)
    (hpast : ∀ r' ∈ past, C r' ∧ ∀ r ∈ hist, P r' r)
    (hpw : hist.Pairwise P) :
    AllSecure Q hist outs := by
  induction hist generalizing past outs with
  | nil =>
    cases outs with
    | nil => trivial
    | cons _ _ => simp [SoundFrom] at hs
  | cons r rs ih =>
    cases outs with
    | nil => simp [SoundFrom] at hs
    | cons o outs =>
      obtain ⟨v, fresh⟩ := o
      simp only [SoundFrom] at hs
      rw [List.pairwise_cons] at hpw
      refine ⟨fun hsec => hstep past r v fresh hs.1 hsec (hb r (by simp)).1
        (fun r' hr' => ⟨(hpast r' hr').2 r (by simp), (hpast r' hr').1⟩), ?_⟩
      apply ih (past ++ [r]) outs hs.2 (fun x hx => hb x (by simp [hx]))
      · intro r' hr'
        rcases List.mem_append.1 hr' with h | h
        · exact ⟨(hpast r' h).1, fun x hx => (hpast r' h).2 x (by simp [hx])⟩
        · simp only [List.mem_singleton] at h
          subst h
          exact ⟨(hb r' (by simp)).2, fun x hx => hpw.1 x hx⟩
      · exact hpw.2

/-
FULL STATEMENT (what the property says: "never yields Secure — also not via a previously cached
verdict", for all validate / advance-clock / re-validate histories; the current code does **not**
satisfy it, see `counterexample_cache_outlives_signature` and `counterexample_cache_key_case`, both
confirmed on the real `DnssecDnsHandle::send`):

  theorem cache_sound (sigValid cfg) (hist : List Request)
      (hb : ∀ r ∈ hist, Bounds r) (hkey : hist.Pairwise KeyFaithful) :
      AllSecure (fun r _ => SecureOK sigValid r) hist (runHistory sigValid cfg [] hist)

i.e. without `LifetimeCapped` and without any assumption on how the clocks move.
(`Proofs/C06Fixed.lean` proves exactly this, plus the TTL clause, for the repaired cache.)
-/

/-- **History theorem, partial (`cache_sound_partial`), the code as it is.**  For every history of
validation requests answered from an initially empty cache — any interleaving of validate /
advance-clock / re-validate, any cache configuration — in which (i) requests with equal cache keys
present the same signed content and the two clocks advance together (`PairOK`), and (ii) every Secure
entry's lifetime is at most the remaining lifetime of its signature (`LifetimeCapped`): every Secure
verdict handed out, fresh or cached, is for content that passed `verify_rrset_with_dnskey` (all of
`secure_implies_checks`) at some validator time, and the validator's clock `now` is still inside
`[inception, expiration]`. -/
theorem cache_sound_partial (sigValid : SigOracle) (cfg : CacheConfig) (hist : List Request)
    (hb : ∀ r ∈ hist, Bounds r)
    (hcap : ∀ r ∈ hist, LifetimeCapped sigValid cfg r)
    (hpw : hist.Pairwise PairOK) :
    AllSecure (fun r _ => SecureOK sigValid r) hist (runHistory sigValid cfg [] hist) :=
  allSecure_of_sound sigValid cfg serveAsIs _ PairOK (LifetimeCapped sigValid cfg)
    (fun past r v fresh hs hsec hb hp => step_secure_partial sigValid cfg past r v fresh hs hsec hb hp)
    [] hist _ (cache_provenance sigValid cfg hist)
    (fun r hr => ⟨hb r hr, hcap r hr⟩) (by simp) hpw

/-! ### concrete values: non-vacuity and the counter-examples (replays of the findings) -/

deriving instance DecidableEq for Except

/-- `a.` -/
def nameA : Name := ⟨[[97]], true⟩
/-- a zone key (flags 256) for `a.`, algorithm 13 -/
def key0 : Dnskey := ⟨nameA, 256, 13, [1, 2, 3, 4]⟩
/-- RRSIG over `a. A`, valid from 900 to 1010, original TTL 3600 -/
def sig0 : Rrsig := ⟨nameA, 1, 3600, ⟨1, 13, 1, 3600, 1010, 900, keyTag key0.rdata, nameA⟩, [9]⟩
def recA (ttl : Nat) (o : Bytes) : Record := ⟨nameA, 1, 1, ttl, .a o⟩
/-- a signature oracle that accepts everything (the strongest adversary for soundness statements) -/
def acceptAll : SigOracle := fun _ _ _ => true
/-- validate `a. A 10.0.0.1` (TTL `ttl`) at validator time `now`, monotonic time `inst` -/
def reqA (ttl now inst : Nat) : Request :=
  ⟨[1], [(key0, .secure)], sig0, nameA, 1, [recA ttl [10, 0, 0, 1]], now, inst⟩

/-- `secure_implies_checks` / `ttl_le_remaining` are not vacuous: inside the window the verdict is
Secure with TTL `min 3600 3600 (1010 − 1000) = 10`; one second after expiration, and at distance
2³¹, it is not. -/
example :
    verifyRrsetWithDnskey acceptAll key0 .secure sig0 nameA 1 [recA 3600 [10, 0, 0, 1]] 1000
      = .ok (.secure, some 10) ∧
    verifyRrsetWithDnskey acceptAll key0 .secure sig0 nameA 1 [recA 3600 [10, 0, 0, 1]] 1010
      = .ok (.secure, some 0) ∧
    verifyRrsetWithDnskey acceptAll key0 .secure sig0 nameA 1 [recA 3600 [10, 0, 0, 1]] 1011
      = .error .bogus ∧
    verifyRrsetWithDnskey acceptAll key0 .secure sig0 nameA 1 [recA 3600 [10, 0, 0, 1]] 899
      = .error .bogus ∧
    verifyRrsetWithDnskey acceptAll key0 .secure sig0 nameA 1 [recA 3600 [10, 0, 0, 1]] (1000 + HALF)
      = .error .bogus ∧
    verifyRrsetWithDnskey acceptAll { key0 with flags := 384 } .secure sig0 nameA 1
      [recA 3600 [10, 0, 0, 1]] 1000 = .error .bogus ∧
    verifyRrsetWithDnskey acceptAll key0 .insecure sig0 nameA 1 [recA 3600 [10, 0, 0, 1]] 1000
      = .error .insecure := by
  decide

/-- **Finding `validation-cache-outlives-signature`.**  RRset TTL 3600, RRSIG expires at 1010.
Validate at time 1000: Secure, TTL 10, and the entry is kept for 3600 s.  Twenty seconds later (both
clocks advanced by 20) the answer is still Secure from the cache, with the stale TTL 10 — although the
clock is outside the window and a fresh validation says Bogus.  Every hypothesis of
`cache_sound_partial` holds except `LifetimeCapped` (lifetime 3600 > 1010 − 1000). -/
theorem counterexample_cache_outlives_signature :
    (runHistory acceptAll {} [] [reqA 3600 1000 0, reqA 3600 1020 20]).map
        (fun o => (o.1.proof, o.1.adjustedTtl, o.2))
      = [(.secure, some 10, true), (.secure, some 10, false)] ∧
    (freshVerdict acceptAll (reqA 3600 1020 20)).proof = .bogus ∧
    ¬ (1010 + M - 1020) % M < HALF ∧
    cacheLifetime {} (freshVerdict acceptAll (reqA 3600 1000 0)) 3600 = 3600 := by
  decide

/-- with the lifetime capped (TTL 5 ≤ 10 s of remaining validity) the same history is harmless: served
from the cache while live and inside the window, re-validated afterwards -/
example :
    (runHistory acceptAll {} [] [reqA 5 1000 0, reqA 5 1003 3, reqA 5 1020 20]).map
        (fun o => (o.1.proof, o.1.adjustedTtl, o.2))
      = [(.secure, some 5, true), (.secure, some 5, false), (.bogus, none, true)] := by
  decide

/-- an oracle that accepts exactly the signed data of `recs` -/
def acceptOnly (recs : List Record) : SigOracle :=
  fun _ tbs _ => tbsImpl nameA 1 sig0.input recs == .ok tbs

/-- an RRset of a type whose canonical form keeps the case of embedded names (opaque: key and canonical
bytes as the real code computes them), next name `B.` / `b.` -/
def recN (c : Nat) : Record := ⟨nameA, 1, 1, 3600, .opaque [1, c, 0] (some [1, c, 0])⟩

/-- **Finding `validation-cache-key-folds-rdata-case`.**  Two requests with the same cache key (the
hasher folds the case of names inside RDATA) but different signed RDATA (`B.` vs `b.`): the second
is answered Secure from the cache although the signature does not cover it. -/
theorem counterexample_cache_key_case :
    (runHistory (acceptOnly [recN 66]) {} []
        [⟨[7], [(key0, .secure)], sig0, nameA, 1, [recN 66], 1000, 0⟩,
         ⟨[7], [(key0, .secure)], sig0, nameA, 1, [recN 98], 1000, 0⟩]).map
        (fun o => (o.1.proof, o.2))
      = [(.secure, true), (.secure, false)] ∧
    (freshVerdict (acceptOnly [recN 66])
      ⟨[7], [(key0, .secure)], sig0, nameA, 1, [recN 98], 1000, 0⟩).proof = .bogus := by
  decide

/-- key-tag collision cap (`MAX_KEY_TAG_COLLISIONS = 2`): the third key with the same tag is never
tried, even if it is the right one; an all-Insecure key set is inherited as Insecure, never Secure -/
example :
    keyTag ({ key0 with pubkey := [3, 4, 1, 2] } : Dnskey).rdata = keyTag key0.rdata ∧
    keyTag ({ key0 with pubkey := [2, 1, 2, 5] } : Dnskey).rdata = keyTag key0.rdata ∧
    verifyRrsigWithKeys (fun k _ _ => k == key0)
      [({ key0 with pubkey := [3, 4, 1, 2] }, .secure), ({ key0 with pubkey := [2, 1, 2, 5] }, .secure),
       (key0, .secure)] sig0 nameA 1 [recA 60 [1, 1, 1, 1]] 1000 = none ∧
    verifyRrsigWithKeys (fun k _ _ => k == key0)
      [({ key0 with pubkey := [3, 4, 1, 2] }, .secure), (key0, .secure)]
      sig0 nameA 1 [recA 60 [1, 1, 1, 1]] 1000 = some (.secure, some 10) ∧
    verifyRrsigWithKeys acceptAll [(key0, .insecure)] sig0 nameA 1 [recA 60 [1, 1, 1, 1]] 1000
      = some (.insecure, none) := by
  decide

end HickoryVerif.C06
