/-
C02 / C03 — the message level with TSIG (stage 3).

`Message::emit` appends, after the additional section, the OPT record (if any) and then the TSIG record
(if any), each with its own `emit_iter`; the decoder gives the OPT record to `edns` and a TSIG record —
which must be the last record — to `signature`.

* `emitMessage_reads_tsig` : for every message satisfying `MsgWFT` (as `MsgWFE`, EDNS optional, plus a
  TSIG record satisfying `SigWF`) and every size limit: what `Message::emit` writes is read back by
  the decoder model, to the last octet, as `truncatedT m w` — sections cut to the records written, the
  OPT record and the TSIG record each kept or dropped as a whole (the cut may fall before the OPT
  record, between the two, or after both), `TC = tc ∨ dropped`;
* `decode_encode_tsig_partial`, `emitLimited_decodes_tsig_partial` : the property theorems.
-/
import HickoryVerif.Proofs.C02Dec
namespace HickoryVerif.C02
open HickoryVerif HickoryVerif.Name HickoryVerif.Wire HickoryVerif.C03

/-- a TSIG record the proofs cover: an ordinary well-formed record of type TSIG whose RDATA is the
TSIG variant (fields in the ranges `TSIG::emit` accepts) -/
structure SigWF (s : Record) : Prop where
  wf : RecWF s
  rtype : s.rtype = T_TSIG
  data : ∃ alg t f m o e x, s.rdata = .tsig alg t f m o e x

theorem SigWF.proved {s : Record} (h : SigWF s) : s.rdata.proved = true ∧ s.rdata.namesWF := by
  obtain ⟨alg, t, f, m, o, e, x, hd⟩ := h.data
  rcases h.wf.data with hu | hp
  · rw [hd] at hu; cases hu
  · exact ⟨hp.1, hp.2.2.1⟩

theorem emits_sigRecord (s : Record) (h : SigWF s) : Emits (emitRecord s) (layRecord s) :=
  emits_emitRecord s h.wf.name (Or.inr h.proved)

theorem isLayout_sigRecord (s : Record) (h : SigWF s) : IsLayout (layRecord s) :=
  isLayout_record s (Or.inr h.proved.1)

/-- the TSIG record, last in the additional section, goes to `signature` -/
theorem readRecords_sigStep {H : Nat × Nat → Prop} {opq : Nat → Rd Bytes} {buf : Bytes} {op : Nat} (s : Record)
    (hwf : SigWF s) {p e : Nat} (l : layRecord s H buf p e) (acc : List Record) (edns : Option Edns) :
    Reads (readRecords opq true op 1 (acc, edns, none)) buf p (acc, edns, some s.fq) e := by
  obtain ⟨alg, t, f, m, o, er, x, hd⟩ := hwf.data
  simp only [readRecords]
  refine Reads.bind (fun t => ⟨t + 1, rfl⟩ : Reads (Rd.tick) buf p () p) ?_
  refine Reads.bind (reads_record s hwf.wf l) ?_
  have hu : s.fq.rdata.isUpdate = false := by rw [fq_isUpdate, hd]; rfl
  rw [if_neg (by intro hc; rw [hu] at hc; exact absurd hc.2.2 (by simp))]
  simp only [Option.isSome_none, Bool.false_eq_true, ↓reduceIte, Bool.not_true, false_and]
  have hfd : s.fq.rdata = .tsig { alg with fqdn := false } t f m o er x := by
    simp only [Record.fq, hd, RData.fq]
  rw [hfd]
  simp only
  exact Reads.pure _ _ _

/-- the OPT record followed by whatever the remaining count reads -/
theorem readRecords_optStep_then {H : Nat × Nat → Prop} {opq : Nat → Rd Bytes} {buf : Bytes} {op : Nat} (ed : Edns)
    (hwf : EdnsWF ed) {p mid e : Nat} (l : layOpt ed H buf p mid) (acc : List Record) (k : Nat) (v : RecAcc)
    (hrest : Reads (readRecords opq true op k (acc, some ed, none)) buf mid v e) :
    Reads (readRecords opq true op (k + 1) (acc, none, none)) buf p v e := by
  simp only [readRecords]
  refine Reads.bind (fun t => ⟨t + 1, rfl⟩ : Reads (Rd.tick) buf p () p) ?_
  refine Reads.bind (reads_optRecord ed hwf l) ?_
  have ht : (optRecordRead ed).rtype = T_OPT := rfl
  rw [if_neg (by intro hc; exact hc.2.1 ht)]
  simp only [Option.isSome_none, Bool.false_eq_true, ↓reduceIte, Bool.not_true, false_and]
  have hlift : Reads (Rd.lift (ednsFrom (optRecordRead ed))) buf mid ed mid :=
    fun t => ⟨t, by simp only [Rd.lift, ednsFrom_optRecord ed hwf]⟩
  by_cases hos : ed.options = []
  · have hd : (optRecordRead ed).rdata = .update0 T_OPT := by simp [optRecordRead, hos]
    rw [hd]
    simp only [↓reduceIte]
    exact Reads.bind hlift hrest
  · have hd : (optRecordRead ed).rdata = .opt ed.options := by simp [optRecordRead, hos]
    rw [hd]
    simp only
    exact Reads.bind hlift hrest

/-- one more record with its own `emit_iter` (the TSIG record), in either outcome -/
theorem sigSection_any {H : Nat × Nat → Prop} (s : Record) (hwf : SigWF s) {e e' : Enc} {acc r : Nat × Bool}
    (happ : e.offset = e.buf.length) (hinv : PtrInvH H e) (hH : ∀ a b, e.offset ≤ a → H (a, b))
    (hnl : NoLower e) (h : emitExtra (some s) acc e = .ok r e') :
    ∃ kept : Bool, r.1 = acc.1 + (if kept then 1 else 0) ∧ r.2 = (acc.2 || !kept) ∧ r.1 ≤ 65535 ∧
      EmitsPost H (if kept then laySeq (layRecord s) layEmpty else layEmpty) e e' := by
  have hmodelled : s.rdata.emitModelled = true := proved_modelled _ hwf.proved.1
  have hall := emitIterFrom_layout_any (fun d : Record => emitRecord d) layRecord [s] H e 0
    (by intro x hx; simp only [List.mem_singleton] at hx; subst hx; exact emits_sigRecord x hwf)
    (by intro x hx; simp only [List.mem_singleton] at hx; subst hx; exact isLayout_sigRecord x hwf)
    (by intro x hx; simp only [List.mem_singleton] at hx; subst hx; exact appender_emitRecord _ hmodelled)
    (by intro x hx; simp only [List.mem_singleton] at hx; subst hx
        exact modeKeeper_emitRecord x (Or.inr hwf.proved.1))
    happ hinv hH hnl
  simp only [emitExtra, Enc.emitIter] at h
  simp only [List.map_cons, List.map_nil] at hall
  cases hr : Enc.emitIterFrom e [emitRecord s] 0 with
  | ok c e1 =>
    rw [hr] at h hall
    simp only [countWasTruncated] at h
    obtain ⟨hp, hc⟩ := hall
    simp only [List.length_cons, List.length_nil, Nat.zero_add] at hc
    subst hc
    simp only [Nat.reduceLT, ↓reduceIte, gt_iff_lt] at h
    split at h
    · simp at h
    · rename_i hov
      simp only [ERes.ok.injEq] at h
      obtain ⟨rfl, rfl⟩ := h
      exact ⟨true, rfl, by simp, by simp only; omega, by simpa [layAll] using hp⟩
  | err k e1 =>
    rw [hr] at h hall
    cases k with
    | notAllWritten c =>
      obtain ⟨j, hj1, hj2, hj3⟩ := hall
      simp only [List.length_cons, List.length_nil, Nat.zero_add, Nat.lt_one_iff] at hj1 hj2
      subst hj1
      subst hj2
      simp only [countWasTruncated] at h
      simp only [gt_iff_lt, Nat.not_lt_zero, ↓reduceIte] at h
      split at h
      · simp at h
      · rename_i hov
        simp only [ERes.ok.injEq] at h
        obtain ⟨rfl, rfl⟩ := h
        exact ⟨false, by simp, by simp, by simp only; omega, by simpa [layAll] using hj3⟩
    | maxSize => simp [countWasTruncated] at h
    | other => simp [countWasTruncated] at h
  | panic s => rw [hr] at h; simp [countWasTruncated] at h

/-- `MsgWFE` with a TSIG record allowed (EDNS optional: without it the response code has four bits) -/
structure MsgWFT (m : Message) : Prop where
  id : m.md.id < 65536
  op : m.md.op < 16
  rcode : m.md.rcode < 4096
  qs : ∀ q ∈ m.queries, q.name.WF ∧ q.qtype < 65536 ∧ q.qclass < 65536
  an : ∀ r ∈ m.answers, SectionOK m.md.op r
  ns : ∀ r ∈ m.authorities, SectionOK m.md.op r
  ar : ∀ r ∈ m.additionals, SectionOK m.md.op r true
  edns : ∀ ed, m.edns = some ed → EdnsWF ed ∧ ed.rcodeHigh = rcodeHigh m.md.rcode
  sig : ∀ s, m.signature = some s → SigWF s

/-- what was written of the record sections, and whether the OPT record and the TSIG record were -/
structure WrittenT where
  an : Nat
  ns : Nat
  ar : Nat
  edns : Bool
  sig : Bool

/-- the message cut down to what was written: sections truncated, the OPT record and the TSIG record
each kept or dropped, `TC := tc ∨ dropped`; the TSIG record comes back with its names as the decoder
returns them (`Record.fq`: owner fully qualified, algorithm name relative) -/
def truncatedT (m : Message) (w : WrittenT) : Message :=
  { m with
    md := { m.md with
      tc := (m.md.tc || short w.an m.answers.length || short w.ns m.authorities.length ||
        short w.ar m.additionals.length || (m.edns.isSome && !w.edns) || (m.signature.isSome && !w.sig)),
      rcode := if w.edns then m.md.rcode else m.md.rcode % 16 },
    answers := m.answers.take w.an, authorities := m.authorities.take w.ns,
    additionals := m.additionals.take w.ar,
    edns := if w.edns then m.edns else none,
    signature := if w.sig then m.signature.map Record.fq else none }

theorem emitMessage_reads_tsig (opq : Nat → Rd Bytes) (m : Message) (ed : Edns) (s : Record) (hwf : MsgWFT m)
    (hed : m.edns = some ed) (hsg : m.signature = some s) (L : Nat) (md' : Metadata) (c : Counts) (e' : Enc)
    (h : emitMessage m ((Enc.new []).setMaxSize L) = .ok (md', c) e') :
    ∃ w : WrittenT, w.an ≤ m.answers.length ∧ w.ns ≤ m.authorities.length ∧ w.ar ≤ m.additionals.length ∧
      c.an = w.an ∧ c.ns = w.ns ∧ c.ar = w.ar + (if w.edns then 1 else 0) + (if w.sig then 1 else 0) ∧
      (w.edns = true → m.edns.isSome = true) ∧
      Rd.run (readMessage opq) e'.buf 0 = .ok ((truncatedT m w).fq, e'.buf.length) := by
  obtain ⟨hedwf, hedhigh⟩ := hwf.edns ed hed
  have hswf := hwf.sig s hsg
  have hed' : ({ ed with rcodeHigh := rcodeHigh m.md.rcode } : Edns) = ed := by
    rw [← hedhigh]
  unfold emitMessage emitMessageParts at h
  generalize hE0 : (Enc.new []).setMaxSize L = e0 at h
  have happ0 : e0.offset = e0.buf.length := by rw [← hE0]; rfl
  have hbuf0 : e0.buf = [] := by rw [← hE0]; rfl
  have hoff0 : e0.offset = 0 := by rw [← hE0]; rfl
  have hptr0 : e0.ptrs = [] := by rw [← hE0]; rfl
  have hnl0 : NoLower e0 := by rw [← hE0]; exact ⟨rfl, by simp [Enc.new, Enc.withOffset, Enc.setMaxSize]⟩
  rw [place_app _ _ happ0] at h
  by_cases hfit : e0.maxSize < e0.offset + 12
  · simp [hfit] at h
  simp only [hfit, ↓reduceIte] at h
  generalize hE1 : ({ e0 with buf := e0.buf ++ List.replicate 12 0, offset := e0.offset + 12 } : Enc) = e1 at h
  have happ1 : e1.offset = e1.buf.length := by rw [← hE1, hbuf0, hoff0]; simp
  have hoff1 : e1.offset = 12 := by rw [← hE1, hoff0]
  have hinv1 : PtrInvH H12 e1 := by
    intro p hp; rw [← hE1] at hp; simp only [hptr0] at hp; cases hp
  have hH1 : ∀ a b, e1.offset ≤ a → H12 (a, b) := by intro a b hab; show 12 ≤ a; omega
  have hnl1 : NoLower e1 := by rw [← hE1]; exact hnl0
  have hmax1 : e1.maxSize = e0.maxSize := by rw [← hE1]
  cases hqr : e1.emitIter (m.queries.map emitQuery) with
  | panic s => rw [hqr] at h; simp at h
  | err k e2 => rw [hqr] at h; simp at h
  | ok qc e2 =>
    rw [hqr] at h
    simp only at h
    have P2 := emitIterFrom_layout emitQuery layQuery m.queries H12 e1 e2 0 qc
      (fun q hq => emits_emitQuery q (hwf.qs q hq).1) (fun q _ => isLayout_query q) happ1 hinv1 hH1 hnl1 hqr
    have hqc : qc = m.queries.length := by
      have := emitIterFrom_ok_count _ e1 0 qc e2 hqr; simpa using this
    have hnl2 : NoLower e2 := ⟨by rw [P2.canon]; exact hnl1.1, by rw [P2.ne]; exact hnl1.2⟩
    have hH2 : ∀ a b, e2.offset ≤ a → H12 (a, b) := by
      intro a b hab; show 12 ≤ a; have := P2.le; omega
    cases han : countWasTruncated (e2.emitIter (m.answers.map emitRecord)) with
    | panic s => rw [han] at h; simp at h
    | err k e3 => rw [han] at h; simp at h
    | ok r3 e3 =>
      rw [han] at h
      obtain ⟨anC, anT⟩ := r3
      simp only at h
      obtain ⟨hanle, han16, hanT, P3⟩ := section_any hwf.an P2.app P2.inv hH2 hnl2 han
      have hnl3 : NoLower e3 := ⟨by rw [P3.canon]; exact hnl2.1, by rw [P3.ne]; exact hnl2.2⟩
      have hH3 : ∀ a b, e3.offset ≤ a → H12 (a, b) := by
        intro a b hab; show 12 ≤ a; have := P2.le; have := P3.le; omega
      cases hns : countWasTruncated (e3.emitIter (m.authorities.map emitRecord)) with
      | panic s => rw [hns] at h; simp at h
      | err k e4 => rw [hns] at h; simp at h
      | ok r4 e4 =>
        rw [hns] at h
        obtain ⟨nsC, nsT⟩ := r4
        simp only at h
        obtain ⟨hnsle, hns16, hnsT, P4⟩ := section_any hwf.ns P3.app P3.inv hH3 hnl3 hns
        have hnl4 : NoLower e4 := ⟨by rw [P4.canon]; exact hnl3.1, by rw [P4.ne]; exact hnl3.2⟩
        have hH4 : ∀ a b, e4.offset ≤ a → H12 (a, b) := by
          intro a b hab; show 12 ≤ a; have := P2.le; have := P3.le; have := P4.le; omega
        cases har : countWasTruncated (e4.emitIter (m.additionals.map emitRecord)) with
        | panic s => rw [har] at h; simp at h
        | err k e5 => rw [har] at h; simp at h
        | ok r5 e5 =>
          rw [har] at h
          obtain ⟨arC, arT⟩ := r5
          obtain ⟨harle, har16, harT, P5⟩ := section_any hwf.ar P4.app P4.inv hH4 hnl4 har
          have hnl5 : NoLower e5 := ⟨by rw [P5.canon]; exact hnl4.1, by rw [P5.ne]; exact hnl4.2⟩
          have hH5 : ∀ a b, e5.offset ≤ a → H12 (a, b) := by
            intro a b hab; show 12 ≤ a; have := P2.le; have := P3.le; have := P4.le; have := P5.le; omega
          simp only [hed, hsg, Option.map_some, hed'] at h
          -- the OPT record
          cases hopt : emitExtra (some (recordOfEdns ed)) (arC, arT) e5 with
          | panic s => rw [hopt] at h; simp at h
          | err k e6 => rw [hopt] at h; simp at h
          | ok r6 e6 =>
          rw [hopt] at h
          obtain ⟨arC1, arT1⟩ := r6
          simp only at h
          obtain ⟨kept, hkc, hkt, hk16, P6⟩ := optSection_any ed hedwf P5.app P5.inv hH5 hnl5 hopt
          have hnl6 : NoLower e6 := ⟨by rw [P6.canon]; exact hnl5.1, by rw [P6.ne]; exact hnl5.2⟩
          have hH6 : ∀ a b, e6.offset ≤ a → H12 (a, b) := by
            intro a b hab; show 12 ≤ a
            have := P2.le; have := P3.le; have := P4.le; have := P5.le; have := P6.le; omega
          -- the TSIG record
          cases hsig : emitExtra (some s) (arC1, arT1) e6 with
          | panic s => rw [hsig] at h; simp at h
          | err k e7 => rw [hsig] at h; simp at h
          | ok r7 e7 =>
          rw [hsig] at h
          obtain ⟨arC2, arT2⟩ := r7
          simp only at h
          obtain ⟨keptS, hsc, hst, hs16, P7⟩ := sigSection_any s hswf P6.app P6.inv hH6 hnl6 hsig
          split at h
          · simp at h
          rename_i hqc16
          have hle := P2.le; have hle3 := P3.le; have hle4 := P4.le; have hle5 := P5.le; have hle6 := P6.le
          have hle7 := P7.le
          have hlen7 : e0.offset + 12 ≤ e7.buf.length := by rw [← P7.app]; omega
          have hmax7 : e0.offset + 12 ≤ e7.maxSize := by
            rw [P7.max, P6.max, P5.max, P4.max, P3.max, P2.max, hmax1]; omega
          rw [placeReplace_header _ _ hlen7 hmax7 (by omega)] at h
          simp only [ERes.ok.injEq, Prod.mk.injEq] at h
          obtain ⟨⟨rfl, rfl⟩, rfl⟩ := h
          simp only at hkc hkt hk16 hsc hst hs16
          refine ⟨⟨anC, nsC, arC, kept, keptS⟩, hanle, hnsle, harle, rfl, rfl, by rw [hsc, hkc],
            (fun _ => by rw [hed]; rfl), ?_⟩
          simp only [hoff0, List.take_zero, List.nil_append, Nat.zero_add]
          generalize hMD : ({ m.md with tc := m.md.tc || anT || nsT || arT2 } : Metadata) = mdw
          generalize hC : ({ qd := qc, an := anC, ns := nsC, ar := arC2 } : Counts) = cc
          have hcc : cc.qd = qc ∧ cc.an = anC ∧ cc.ns = nsC ∧ cc.ar = arC2 := by rw [← hC]; exact ⟨rfl, rfl, rfl, rfl⟩
          generalize hfb : headerBytes mdw cc ++ List.drop 12 e7.buf = fb
          have hfblen : fb.length = e7.buf.length := by
            rw [← hfb]; simp only [List.length_append, List.length_drop, headerBytes, List.length_cons,
              List.length_nil]; omega
          have hsame : ∀ i, 12 ≤ i → fb[i]? = e7.buf[i]? := by
            intro i hi
            rw [← hfb, List.getElem?_append_right (by simp [headerBytes]; omega)]
            simp only [headerBytes, List.length_cons, List.length_nil, List.getElem?_drop]
            congr 1; omega
          have hseg : SegAt fb 0 (headerBytes mdw cc) := by
            rw [← hfb]
            refine ⟨by simp, ?_⟩
            simp only [List.drop_zero]
            exact List.take_left' rfl
          have pre7 : e7.buf.take e7.buf.length = e7.buf := List.take_length
          have pre6 : e7.buf.take e6.buf.length = e6.buf := by rw [← P6.app]; exact P7.pre
          have pre5 : e7.buf.take e5.buf.length = e5.buf :=
            take_chain (by rw [← P5.app]; exact P6.pre) pre6
          have pre4 : e7.buf.take e4.buf.length = e4.buf :=
            take_chain (by rw [← P4.app]; exact P5.pre) pre5
          have pre3 : e7.buf.take e3.buf.length = e3.buf :=
            take_chain (by rw [← P3.app]; exact P4.pre) pre4
          have pre2 : e7.buf.take e2.buf.length = e2.buf :=
            take_chain (by rw [← P2.app]; exact P3.pre) pre3
          have LQ := lay_final (isLayout_all _ (by
            intro L hL; simp only [List.mem_map] at hL; obtain ⟨q, _, rfl⟩ := hL; exact isLayout_query q))
            (by omega) P2.lay pre2 hfblen hsame
          have recsLay : ∀ (b : Bool) (rs : List Record), (∀ r ∈ rs, SectionOK m.md.op r b) →
              IsLayout (layAll (rs.map layRecord)) := by
            intro b rs hrs
            refine isLayout_all _ ?_
            intro L hL
            simp only [List.mem_map] at hL
            obtain ⟨r, hr, rfl⟩ := hL
            refine isLayout_record r ?_
            rcases (hrs r hr).1.data with h1 | h1
            · left; rw [h1]; rfl
            · right; exact h1.1
          have wa := sectionOK_take anC hwf.an
          have wn := sectionOK_take nsC hwf.ns
          have wr := sectionOK_take arC hwf.ar
          have LA := lay_final (recsLay _ _ wa) (by omega) P3.lay pre3 hfblen hsame
          have LN := lay_final (recsLay _ _ wn) (by omega) P4.lay pre4 hfblen hsame
          have LR := lay_final (recsLay _ _ wr) (by omega) P5.lay pre5 hfblen hsame
          have hmdw : mdw.id = m.md.id ∧ mdw.op = m.md.op ∧ mdw.rcode = m.md.rcode := by
            rw [← hMD]; exact ⟨rfl, rfl, rfl⟩
          have hhw : HeaderWF mdw cc := by
            refine ⟨by rw [hmdw.1]; exact hwf.id, by rw [hmdw.2.1]; exact hwf.op, ?_, ?_, ?_, ?_⟩
            · rw [hcc.1]; omega
            · rw [hcc.2.1]; omega
            · rw [hcc.2.2.1]; omega
            · rw [hcc.2.2.2]; omega
          have R0 := reads_header _ _ hhw hseg
          have R1 := reads_queries (H := H12) (buf := fb) m.queries [] e1.offset e2.offset hwf.qs LQ
          have R2 := reads_records (H := H12) (opq := opq) (buf := fb) false m.md.op (m.answers.take anC) []
            none e2.offset e3.offset wa LA
          have R3 := reads_records (H := H12) (opq := opq) (buf := fb) false m.md.op (m.authorities.take nsC)
            [] none e3.offset e4.offset wn LN
          rw [List.length_take, Nat.min_eq_left hanle] at R2
          rw [List.length_take, Nat.min_eq_left hnsle] at R3
          -- the TSIG record, if it was kept, read from where the OPT step ended
          have RS : ∀ (oe : Option Edns), Reads (readRecords opq true m.md.op (if keptS then 1 else 0)
              ((m.additionals.take arC).map Record.fq, oe, none)) fb e6.offset
              ((m.additionals.take arC).map Record.fq, oe, (if keptS then some s.fq else none)) e7.offset := by
            intro oe
            cases keptS with
            | true =>
              simp only [↓reduceIte] at P7 ⊢
              have L7 := lay_final (isLayout_seq (isLayout_sigRecord s hswf) isLayout_empty) (by omega) P7.lay
                pre7 hfblen hsame
              obtain ⟨mm, lo, le⟩ := L7
              obtain ⟨rfl, _⟩ := le
              exact readRecords_sigStep s hswf lo _ oe
            | false =>
              simp only [Bool.false_eq_true, ↓reduceIte] at P7 ⊢
              obtain ⟨hq, _⟩ := P7.lay
              rw [hq]
              simp only [readRecords]
              exact Reads.pure _ _ _
          -- the additional section: the records, then the OPT record and the TSIG record as far as kept
          have R4 : Reads (readRecords opq true m.md.op arC2 ([], none, none)) fb e4.offset
              ((m.additionals.take arC).map Record.fq, (if kept then some ed else none),
                (if keptS then some s.fq else none)) e7.offset := by
            have hcount : arC2 = (m.additionals.take arC).length +
                ((if keptS then 1 else 0) + (if kept then 1 else 0)) := by
              rw [List.length_take, Nat.min_eq_left harle, hsc, hkc]; omega
            rw [hcount]
            refine reads_records_then (H := H12) true m.md.op (m.additionals.take arC) _ [] none e4.offset
              e5.offset e7.offset _ wr LR ?_
            simp only [List.nil_append]
            cases kept with
            | true =>
              simp only [↓reduceIte] at P6 ⊢
              have L6 := lay_final (isLayout_seq (isLayout_opt ed) isLayout_empty) (by omega) P6.lay pre6
                hfblen hsame
              obtain ⟨mm, lo, le⟩ := L6
              obtain ⟨rfl, _⟩ := le
              exact readRecords_optStep_then ed hedwf lo _ _ _ (RS (some ed))
            | false =>
              simp only [Bool.false_eq_true, ↓reduceIte, Nat.add_zero] at P6 ⊢
              obtain ⟨hq, _⟩ := P6.lay
              rw [← hq]
              exact RS none
          have hall : Reads (readMessage opq) fb 0 (truncatedT m ⟨anC, nsC, arC, kept, keptS⟩).fq e7.offset := by
            unfold readMessage
            refine Reads.bind R0 ?_
            simp only [Nat.zero_add]
            rw [hcc.1, hqc]
            rw [hoff1] at R1
            refine Reads.bind R1 ?_
            simp only [List.nil_append]
            rw [hcc.2.1, hmdw.2.1]
            refine Reads.bind R2 ?_
            simp only [List.nil_append]
            rw [hcc.2.2.1]
            refine Reads.bind R3 ?_
            simp only [List.nil_append]
            rw [hcc.2.2.2]
            refine Reads.bind R4 ?_
            refine Reads.pure' _ _ ?_
            have hr1 : m.md.rcode % 16 % 16 = m.md.rcode % 16 := by omega
            have hr2 : rcodeHigh m.md.rcode * 16 + m.md.rcode % 16 = m.md.rcode := by
              have := hwf.rcode; simp only [rcodeHigh]; omega
            rw [← hMD]
            cases kept <;> cases keptS <;>
              simp [mergeRcode, Message.fq, truncatedT, hsg, hed, hedhigh, hr1, hr2,
                short, hanT, hnsT, harT, hkt, hst]
          have := hall.run
          rw [this, hfblen, P7.app]

/-- the same without EDNS (four-bit response code) -/
theorem emitMessage_reads_tsig_noedns (opq : Nat → Rd Bytes) (m : Message) (s : Record) (hwf : MsgWFT m)
    (hed : m.edns = none) (hrc : m.md.rcode < 16) (hsg : m.signature = some s) (L : Nat) (md' : Metadata)
    (c : Counts) (e' : Enc)
    (h : emitMessage m ((Enc.new []).setMaxSize L) = .ok (md', c) e') :
    ∃ w : WrittenT, w.an ≤ m.answers.length ∧ w.ns ≤ m.authorities.length ∧ w.ar ≤ m.additionals.length ∧
      c.an = w.an ∧ c.ns = w.ns ∧ c.ar = w.ar + (if w.edns then 1 else 0) + (if w.sig then 1 else 0) ∧
      (w.edns = true → m.edns.isSome = true) ∧
      Rd.run (readMessage opq) e'.buf 0 = .ok ((truncatedT m w).fq, e'.buf.length) := by
  have hswf := hwf.sig s hsg
  unfold emitMessage emitMessageParts at h
  generalize hE0 : (Enc.new []).setMaxSize L = e0 at h
  have happ0 : e0.offset = e0.buf.length := by rw [← hE0]; rfl
  have hbuf0 : e0.buf = [] := by rw [← hE0]; rfl
  have hoff0 : e0.offset = 0 := by rw [← hE0]; rfl
  have hptr0 : e0.ptrs = [] := by rw [← hE0]; rfl
  have hnl0 : NoLower e0 := by rw [← hE0]; exact ⟨rfl, by simp [Enc.new, Enc.withOffset, Enc.setMaxSize]⟩
  rw [place_app _ _ happ0] at h
  by_cases hfit : e0.maxSize < e0.offset + 12
  · simp [hfit] at h
  simp only [hfit, ↓reduceIte] at h
  generalize hE1 : ({ e0 with buf := e0.buf ++ List.replicate 12 0, offset := e0.offset + 12 } : Enc) = e1 at h
  have happ1 : e1.offset = e1.buf.length := by rw [← hE1, hbuf0, hoff0]; simp
  have hoff1 : e1.offset = 12 := by rw [← hE1, hoff0]
  have hinv1 : PtrInvH H12 e1 := by
    intro p hp; rw [← hE1] at hp; simp only [hptr0] at hp; cases hp
  have hH1 : ∀ a b, e1.offset ≤ a → H12 (a, b) := by intro a b hab; show 12 ≤ a; omega
  have hnl1 : NoLower e1 := by rw [← hE1]; exact hnl0
  have hmax1 : e1.maxSize = e0.maxSize := by rw [← hE1]
  cases hqr : e1.emitIter (m.queries.map emitQuery) with
  | panic s => rw [hqr] at h; simp at h
  | err k e2 => rw [hqr] at h; simp at h
  | ok qc e2 =>
    rw [hqr] at h
    simp only at h
    have P2 := emitIterFrom_layout emitQuery layQuery m.queries H12 e1 e2 0 qc
      (fun q hq => emits_emitQuery q (hwf.qs q hq).1) (fun q _ => isLayout_query q) happ1 hinv1 hH1 hnl1 hqr
    have hqc : qc = m.queries.length := by
      have := emitIterFrom_ok_count _ e1 0 qc e2 hqr; simpa using this
    have hnl2 : NoLower e2 := ⟨by rw [P2.canon]; exact hnl1.1, by rw [P2.ne]; exact hnl1.2⟩
    have hH2 : ∀ a b, e2.offset ≤ a → H12 (a, b) := by
      intro a b hab; show 12 ≤ a; have := P2.le; omega
    cases han : countWasTruncated (e2.emitIter (m.answers.map emitRecord)) with
    | panic s => rw [han] at h; simp at h
    | err k e3 => rw [han] at h; simp at h
    | ok r3 e3 =>
      rw [han] at h
      obtain ⟨anC, anT⟩ := r3
      simp only at h
      obtain ⟨hanle, han16, hanT, P3⟩ := section_any hwf.an P2.app P2.inv hH2 hnl2 han
      have hnl3 : NoLower e3 := ⟨by rw [P3.canon]; exact hnl2.1, by rw [P3.ne]; exact hnl2.2⟩
      have hH3 : ∀ a b, e3.offset ≤ a → H12 (a, b) := by
        intro a b hab; show 12 ≤ a; have := P2.le; have := P3.le; omega
      cases hns : countWasTruncated (e3.emitIter (m.authorities.map emitRecord)) with
      | panic s => rw [hns] at h; simp at h
      | err k e4 => rw [hns] at h; simp at h
      | ok r4 e4 =>
        rw [hns] at h
        obtain ⟨nsC, nsT⟩ := r4
        simp only at h
        obtain ⟨hnsle, hns16, hnsT, P4⟩ := section_any hwf.ns P3.app P3.inv hH3 hnl3 hns
        have hnl4 : NoLower e4 := ⟨by rw [P4.canon]; exact hnl3.1, by rw [P4.ne]; exact hnl3.2⟩
        have hH4 : ∀ a b, e4.offset ≤ a → H12 (a, b) := by
          intro a b hab; show 12 ≤ a; have := P2.le; have := P3.le; have := P4.le; omega
        cases har : countWasTruncated (e4.emitIter (m.additionals.map emitRecord)) with
        | panic s => rw [har] at h; simp at h
        | err k e5 => rw [har] at h; simp at h
        | ok r5 e5 =>
          rw [har] at h
          obtain ⟨arC, arT⟩ := r5
          obtain ⟨harle, har16, harT, P5⟩ := section_any hwf.ar P4.app P4.inv hH4 hnl4 har
          have hnl5 : NoLower e5 := ⟨by rw [P5.canon]; exact hnl4.1, by rw [P5.ne]; exact hnl4.2⟩
          have hH5 : ∀ a b, e5.offset ≤ a → H12 (a, b) := by
            intro a b hab; show 12 ≤ a; have := P2.le; have := P3.le; have := P4.le; have := P5.le; omega
          have hnone : ∀ (acc : Nat × Bool) (e : Enc), emitExtra none acc e = .ok acc e := fun _ _ => rfl
          simp only [hed, hsg, Option.map_none, hnone] at h
          -- the TSIG record
          cases hsig : emitExtra (some s) (arC, arT) e5 with
          | panic s => rw [hsig] at h; simp at h
          | err k e7 => rw [hsig] at h; simp at h
          | ok r7 e7 =>
          rw [hsig] at h
          obtain ⟨arC2, arT2⟩ := r7
          simp only at h
          obtain ⟨keptS, hsc, hst, hs16, P7⟩ := sigSection_any s hswf P5.app P5.inv hH5 hnl5 hsig
          split at h
          · simp at h
          rename_i hqc16
          have hle := P2.le; have hle3 := P3.le; have hle4 := P4.le; have hle5 := P5.le
          have hle7 := P7.le
          have hlen7 : e0.offset + 12 ≤ e7.buf.length := by rw [← P7.app]; omega
          have hmax7 : e0.offset + 12 ≤ e7.maxSize := by
            rw [P7.max, P5.max, P4.max, P3.max, P2.max, hmax1]; omega
          rw [placeReplace_header _ _ hlen7 hmax7 (by omega)] at h
          simp only [ERes.ok.injEq, Prod.mk.injEq] at h
          obtain ⟨⟨rfl, rfl⟩, rfl⟩ := h
          simp only at hsc hst hs16
          refine ⟨⟨anC, nsC, arC, false, keptS⟩, hanle, hnsle, harle, rfl, rfl, by rw [hsc]; simp,
            (fun hc => by cases hc), ?_⟩
          simp only [hoff0, List.take_zero, List.nil_append, Nat.zero_add]
          generalize hMD : ({ m.md with tc := m.md.tc || anT || nsT || arT2 } : Metadata) = mdw
          generalize hC : ({ qd := qc, an := anC, ns := nsC, ar := arC2 } : Counts) = cc
          have hcc : cc.qd = qc ∧ cc.an = anC ∧ cc.ns = nsC ∧ cc.ar = arC2 := by rw [← hC]; exact ⟨rfl, rfl, rfl, rfl⟩
          generalize hfb : headerBytes mdw cc ++ List.drop 12 e7.buf = fb
          have hfblen : fb.length = e7.buf.length := by
            rw [← hfb]; simp only [List.length_append, List.length_drop, headerBytes, List.length_cons,
              List.length_nil]; omega
          have hsame : ∀ i, 12 ≤ i → fb[i]? = e7.buf[i]? := by
            intro i hi
            rw [← hfb, List.getElem?_append_right (by simp [headerBytes]; omega)]
            simp only [headerBytes, List.length_cons, List.length_nil, List.getElem?_drop]
            congr 1; omega
          have hseg : SegAt fb 0 (headerBytes mdw cc) := by
            rw [← hfb]
            refine ⟨by simp, ?_⟩
            simp only [List.drop_zero]
            exact List.take_left' rfl
          have pre7 : e7.buf.take e7.buf.length = e7.buf := List.take_length
          have pre5 : e7.buf.take e5.buf.length = e5.buf := by rw [← P5.app]; exact P7.pre
          have pre4 : e7.buf.take e4.buf.length = e4.buf :=
            take_chain (by rw [← P4.app]; exact P5.pre) pre5
          have pre3 : e7.buf.take e3.buf.length = e3.buf :=
            take_chain (by rw [← P3.app]; exact P4.pre) pre4
          have pre2 : e7.buf.take e2.buf.length = e2.buf :=
            take_chain (by rw [← P2.app]; exact P3.pre) pre3
          have LQ := lay_final (isLayout_all _ (by
            intro L hL; simp only [List.mem_map] at hL; obtain ⟨q, _, rfl⟩ := hL; exact isLayout_query q))
            (by omega) P2.lay pre2 hfblen hsame
          have recsLay : ∀ (b : Bool) (rs : List Record), (∀ r ∈ rs, SectionOK m.md.op r b) →
              IsLayout (layAll (rs.map layRecord)) := by
            intro b rs hrs
            refine isLayout_all _ ?_
            intro L hL
            simp only [List.mem_map] at hL
            obtain ⟨r, hr, rfl⟩ := hL
            refine isLayout_record r ?_
            rcases (hrs r hr).1.data with h1 | h1
            · left; rw [h1]; rfl
            · right; exact h1.1
          have wa := sectionOK_take anC hwf.an
          have wn := sectionOK_take nsC hwf.ns
          have wr := sectionOK_take arC hwf.ar
          have LA := lay_final (recsLay _ _ wa) (by omega) P3.lay pre3 hfblen hsame
          have LN := lay_final (recsLay _ _ wn) (by omega) P4.lay pre4 hfblen hsame
          have LR := lay_final (recsLay _ _ wr) (by omega) P5.lay pre5 hfblen hsame
          have hmdw : mdw.id = m.md.id ∧ mdw.op = m.md.op ∧ mdw.rcode = m.md.rcode := by
            rw [← hMD]; exact ⟨rfl, rfl, rfl⟩
          have hhw : HeaderWF mdw cc := by
            refine ⟨by rw [hmdw.1]; exact hwf.id, by rw [hmdw.2.1]; exact hwf.op, ?_, ?_, ?_, ?_⟩
            · rw [hcc.1]; omega
            · rw [hcc.2.1]; omega
            · rw [hcc.2.2.1]; omega
            · rw [hcc.2.2.2]; omega
          have R0 := reads_header _ _ hhw hseg
          have R1 := reads_queries (H := H12) (buf := fb) m.queries [] e1.offset e2.offset hwf.qs LQ
          have R2 := reads_records (H := H12) (opq := opq) (buf := fb) false m.md.op (m.answers.take anC) []
            none e2.offset e3.offset wa LA
          have R3 := reads_records (H := H12) (opq := opq) (buf := fb) false m.md.op (m.authorities.take nsC)
            [] none e3.offset e4.offset wn LN
          rw [List.length_take, Nat.min_eq_left hanle] at R2
          rw [List.length_take, Nat.min_eq_left hnsle] at R3
          -- the TSIG record, if it was kept, read from where the OPT step ended
          have RS : ∀ (oe : Option Edns), Reads (readRecords opq true m.md.op (if keptS then 1 else 0)
              ((m.additionals.take arC).map Record.fq, oe, none)) fb e5.offset
              ((m.additionals.take arC).map Record.fq, oe, (if keptS then some s.fq else none)) e7.offset := by
            intro oe
            cases keptS with
            | true =>
              simp only [↓reduceIte] at P7 ⊢
              have L7 := lay_final (isLayout_seq (isLayout_sigRecord s hswf) isLayout_empty) (by omega) P7.lay
                pre7 hfblen hsame
              obtain ⟨mm, lo, le⟩ := L7
              obtain ⟨rfl, _⟩ := le
              exact readRecords_sigStep s hswf lo _ oe
            | false =>
              simp only [Bool.false_eq_true, ↓reduceIte] at P7 ⊢
              obtain ⟨hq, _⟩ := P7.lay
              rw [hq]
              simp only [readRecords]
              exact Reads.pure _ _ _
          have R4 : Reads (readRecords opq true m.md.op arC2 ([], none, none)) fb e4.offset
              ((m.additionals.take arC).map Record.fq, none, (if keptS then some s.fq else none)) e7.offset := by
            have hcount : arC2 = (m.additionals.take arC).length + (if keptS then 1 else 0) := by
              rw [List.length_take, Nat.min_eq_left harle, hsc]
            rw [hcount]
            refine reads_records_then (H := H12) true m.md.op (m.additionals.take arC) _ [] none e4.offset
              e5.offset e7.offset _ wr LR ?_
            simp only [List.nil_append]
            exact RS none
          have hall : Reads (readMessage opq) fb 0 (truncatedT m ⟨anC, nsC, arC, false, keptS⟩).fq e7.offset := by
            unfold readMessage
            refine Reads.bind R0 ?_
            simp only [Nat.zero_add]
            rw [hcc.1, hqc]
            rw [hoff1] at R1
            refine Reads.bind R1 ?_
            simp only [List.nil_append]
            rw [hcc.2.1, hmdw.2.1]
            refine Reads.bind R2 ?_
            simp only [List.nil_append]
            rw [hcc.2.2.1]
            refine Reads.bind R3 ?_
            simp only [List.nil_append]
            rw [hcc.2.2.2]
            refine Reads.bind R4 ?_
            refine Reads.pure' _ _ ?_
            have hr1 : m.md.rcode % 16 = m.md.rcode := Nat.mod_eq_of_lt hrc
            rw [← hMD]
            cases keptS <;>
              simp [mergeRcode, Message.fq, truncatedT, hsg, hed, hr1,
                short, hanT, hnsT, harT, hst]
          have := hall.run
          rw [this, hfblen, P7.app]

end HickoryVerif.C02

namespace HickoryVerif.C02
open HickoryVerif HickoryVerif.Name HickoryVerif.Wire HickoryVerif.C03

/-- the message as the decoder returns it: every name fully qualified, the TSIG record's algorithm
name relative -/
def decodedForm (m : Message) : Message := { m.fq with signature := m.signature.map Record.fq }

/-
FULL STATEMENT (kept visible):
  decode_encode : WF m → EncFits m → readMessage (emitMessage m) = .ok m       for every message
Proved for messages WITH a TSIG record: `decode_encode_tsig_partial` (EDNS present) and
`decode_encode_tsig_noedns_partial`, for messages satisfying `MsgWFT` (covered RDATA variants, EDNS
options per `OptOK`, a TSIG record per `SigWF`), provided the emission dropped nothing.
-/

/-- **Decode ∘ encode = id with EDNS and a TSIG last record** (partial: `MsgWFT`). -/
theorem decode_encode_tsig_partial (opq : Nat → Rd Bytes) (m : Message) (ed : Edns) (s : Record) (hwf : MsgWFT m)
    (hed : m.edns = some ed) (hsg : m.signature = some s) (L : Nat) (md' : Metadata) (c : Counts) (e' : Enc)
    (h : emitMessage m ((Enc.new []).setMaxSize L) = .ok (md', c) e')
    (hfits : c.an = m.answers.length ∧ c.ns = m.authorities.length ∧ c.ar = m.additionals.length + 2) :
    Rd.run (readMessage opq) e'.buf 0 = .ok (decodedForm m, e'.buf.length) := by
  obtain ⟨w, h1, h2, h3, h4, h5, h6, _, h7⟩ := emitMessage_reads_tsig opq m ed s hwf hed hsg L md' c e' h
  obtain ⟨wan, wns, war, we, ws⟩ := w
  dsimp only at h1 h2 h3 h4 h5 h6
  obtain ⟨f1, f2, f3⟩ := hfits
  have ha : wan = m.answers.length := by rw [← f1]; exact h4.symm
  have hn : wns = m.authorities.length := by rw [← f2]; exact h5.symm
  have h6' : m.additionals.length + 2 = war + (if we = true then 1 else 0) + (if ws = true then 1 else 0) := by
    rw [← f3]; exact h6
  have h3' : war ≤ m.additionals.length := h3
  have hx : war = m.additionals.length ∧ we = true ∧ ws = true := by
    cases we <;> cases ws <;> simp at h6' ⊢ <;> omega
  obtain ⟨hr, rfl, rfl⟩ := hx
  subst ha; subst hn; subst hr
  rw [h7]
  congr 2
  simp [truncatedT, decodedForm, Message.fq, short, hed, hsg]

/-- … and without EDNS -/
theorem decode_encode_tsig_noedns_partial (opq : Nat → Rd Bytes) (m : Message) (s : Record) (hwf : MsgWFT m)
    (hed : m.edns = none) (hrc : m.md.rcode < 16) (hsg : m.signature = some s) (L : Nat) (md' : Metadata)
    (c : Counts) (e' : Enc)
    (h : emitMessage m ((Enc.new []).setMaxSize L) = .ok (md', c) e')
    (hfits : c.an = m.answers.length ∧ c.ns = m.authorities.length ∧ c.ar = m.additionals.length + 1) :
    Rd.run (readMessage opq) e'.buf 0 = .ok (decodedForm m, e'.buf.length) := by
  obtain ⟨w, h1, h2, h3, h4, h5, h6, he, h7⟩ := emitMessage_reads_tsig_noedns opq m s hwf hed hrc hsg L md' c e' h
  obtain ⟨wan, wns, war, we, ws⟩ := w
  dsimp only at h1 h2 h3 h4 h5 h6 he
  obtain ⟨f1, f2, f3⟩ := hfits
  have ha : wan = m.answers.length := by rw [← f1]; exact h4.symm
  have hn : wns = m.authorities.length := by rw [← f2]; exact h5.symm
  have h6' : m.additionals.length + 1 = war + (if we = true then 1 else 0) + (if ws = true then 1 else 0) := by
    rw [← f3]; exact h6
  have h3' : war ≤ m.additionals.length := h3
  have hne : we = false := by
    cases we with
    | false => rfl
    | true => have := he rfl; rw [hed] at this; cases this
  subst hne
  have hx : war = m.additionals.length ∧ ws = true := by
    cases ws <;> simp at h6' ⊢ <;> omega
  obtain ⟨hr, rfl⟩ := hx
  subst ha; subst hn; subst hr
  rw [h7]
  congr 2
  simp [truncatedT, decodedForm, Message.fq, short, hed, hsg, Nat.mod_eq_of_lt hrc]

end HickoryVerif.C02

namespace HickoryVerif.C03
open HickoryVerif HickoryVerif.Name HickoryVerif.Wire HickoryVerif.C02

theorem msgWFT_modelled {m : Message} (hwf : MsgWFT m) : m.emitModelled = true := by
  simp only [Message.emitModelled, List.all_eq_true]
  intro r hr
  rcases List.mem_append.1 hr with hr | hr
  · rcases List.mem_append.1 hr with hr | hr
    · rcases List.mem_append.1 hr with hr | hr
      · exact recWF_modelled (hwf.an r hr).1
      · exact recWF_modelled (hwf.ns r hr).1
    · exact recWF_modelled (hwf.ar r hr).1
  · have : m.signature = some r := by
      cases hs : m.signature with
      | none => rw [hs] at hr; cases hr
      | some s => rw [hs] at hr; simp at hr; rw [hr]
    exact recWF_modelled (hwf.sig r this).wf

/-
FULL STATEMENT (kept visible): see `emitLimited_decodes` in Proofs/C02Full.lean.
Proved here WITH a TSIG record (and EDNS): the cut may fall in a section, before the OPT record,
between the OPT and the TSIG record, or nowhere; partial: `MsgWFT`.
-/

/-- **Size-limited encoding truncates cleanly — with EDNS and TSIG**: at most `L` octets, which decode,
with nothing left over, to the message cut to the records written; sections are prefixes; the OPT and
the TSIG record are each kept or dropped as a whole; TC is set exactly when something was dropped. -/
theorem emitLimited_decodes_tsig_partial (opq : Nat → Rd Bytes) (m : Message) (ed : Edns) (s : Record)
    (hwf : MsgWFT m) (hed : m.edns = some ed) (hsg : m.signature = some s) (L : Nat) (bs : Bytes)
    (h : emitLimited m L = .ok bs) :
    bs.length ≤ L ∧
    ∃ w : WrittenT, w.an ≤ m.answers.length ∧ w.ns ≤ m.authorities.length ∧ w.ar ≤ m.additionals.length ∧
      Rd.run (readMessage opq) bs 0 = .ok ((truncatedT m w).fq, bs.length) ∧
      (truncatedT m w).md.tc = (m.md.tc || decide (w.an < m.answers.length) ||
        decide (w.ns < m.authorities.length) || decide (w.ar < m.additionals.length) || !w.edns || !w.sig) := by
  refine ⟨emitLimited_len m (msgWFT_modelled hwf) L bs h, ?_⟩
  unfold emitLimited at h
  cases hr : emitMessage m ((Enc.new []).setMaxSize L) with
  | ok r e' =>
    rw [hr] at h
    simp only [Outcome.ok.injEq] at h
    subst h
    obtain ⟨md', c⟩ := r
    obtain ⟨w, h1, h2, h3, _, _, _, _, h7⟩ := emitMessage_reads_tsig opq m ed s hwf hed hsg L md' c e' hr
    refine ⟨w, h1, h2, h3, h7, ?_⟩
    simp [truncatedT, short, hed, hsg]
  | err k e' => rw [hr] at h; simp at h
  | panic s => rw [hr] at h; simp at h

/-- … with TSIG and without EDNS -/
theorem emitLimited_decodes_tsig_noedns_partial (opq : Nat → Rd Bytes) (m : Message) (s : Record)
    (hwf : MsgWFT m) (hed : m.edns = none) (hrc : m.md.rcode < 16) (hsg : m.signature = some s) (L : Nat)
    (bs : Bytes) (h : emitLimited m L = .ok bs) :
    bs.length ≤ L ∧
    ∃ w : WrittenT, w.an ≤ m.answers.length ∧ w.ns ≤ m.authorities.length ∧ w.ar ≤ m.additionals.length ∧
      Rd.run (readMessage opq) bs 0 = .ok ((truncatedT m w).fq, bs.length) ∧
      (truncatedT m w).md.tc = (m.md.tc || decide (w.an < m.answers.length) ||
        decide (w.ns < m.authorities.length) || decide (w.ar < m.additionals.length) || !w.sig) := by
  refine ⟨emitLimited_len m (msgWFT_modelled hwf) L bs h, ?_⟩
  unfold emitLimited at h
  cases hr : emitMessage m ((Enc.new []).setMaxSize L) with
  | ok r e' =>
    rw [hr] at h
    simp only [Outcome.ok.injEq] at h
    subst h
    obtain ⟨md', c⟩ := r
    obtain ⟨w, h1, h2, h3, _, _, _, _, h7⟩ := emitMessage_reads_tsig_noedns opq m s hwf hed hrc hsg L md' c e' hr
    refine ⟨w, h1, h2, h3, h7, ?_⟩
    simp [truncatedT, short, hed, hsg]
  | err k e' => rw [hr] at h; simp at h
  | panic s => rw [hr] at h; simp at h

end HickoryVerif.C03

namespace HickoryVerif.C02
open HickoryVerif HickoryVerif.Wire

/-- non-vacuity: a TSIG record (HMAC-SHA256 name, 32-octet MAC) satisfies `SigWF` -/
def exTsig : Record :=
  { name := { labels := [[107, 101, 121]], fqdn := true }, rtype := 250, cls := 255, ttl := 0,
    rdata := .tsig { labels := [[104, 109, 97, 99, 45, 115, 104, 97, 50, 53, 54]], fqdn := false }
      1700000000 300 (List.replicate 32 7) 4660 0 [] }

theorem exTsig_wf : SigWF exTsig := by
  refine ⟨⟨by decide, by decide, by decide, by decide, Or.inr ⟨rfl, ?_, ?_, trivial⟩⟩, rfl, ⟨_, _, _, _, _, _, _, rfl⟩⟩
  · exact ⟨rfl, by decide, by decide, by decide⟩
  · exact ⟨by decide, by decide, by decide, by decide⟩
end HickoryVerif.C02

namespace HickoryVerif.C02
open HickoryVerif HickoryVerif.Name HickoryVerif.Wire HickoryVerif.C03

/-- the TSIG record of a decoded message satisfies `SigWF` and is its own decoded form -/
theorem sigWF_of_recV {s : Record} (hv : RecV s) (ht : s.rdata.isTsig = true) : SigWF s ∧ s.fq = s := by
  have hp : s.rdata.proved = true := by
    cases hd : s.rdata <;> rw [hd] at ht <;> simp [RData.isTsig] at ht <;> rfl
  obtain ⟨h1, h2, h3, h4⟩ := hv.data hp
  have hty : s.rtype = T_TSIG := by
    cases hd : s.rdata <;> rw [hd] at ht h1 <;> simp [RData.isTsig] at ht
    exact h1.1
  refine ⟨⟨⟨hv.name, ⟨hv.rtype, by rw [hty]; decide⟩, hv.cls, hv.ttl, Or.inr ⟨hp, h1, h2, h4⟩⟩, hty, ?_⟩, ?_⟩
  · cases hd : s.rdata <;> rw [hd] at ht <;> simp [RData.isTsig] at ht
    exact ⟨_, _, _, _, _, _, _, rfl⟩
  · simp only [Record.fq, fq_self hv.fqdn, h3]

/-- **what the decoder can produce, with a TSIG record**: `MsgWFT`, and the message is its own decoded form -/
theorem readMessage_wft (opq : Nat → Rd Bytes) (b : Bytes) (m : Message) (s : Record) (p : Nat)
    (hb : Bytes.WF b) (h : Rd.run (readMessage opq) b 0 = .ok (m, p)) (hc : Covered m)
    (hsig : m.signature = some s) :
    MsgWFT m ∧ decodedForm m = m ∧ (m.edns = none → m.md.rcode < 16) := by
  obtain ⟨md0, hid, hop, hrc, hmd, hq, han, hns, har, hedns, hsg⟩ := readMessage_msgV opq b m p hb h
  have hopm : m.md.op = md0.op := by rw [hmd]; cases m.edns <;> rfl
  obtain ⟨san, sns, sar⟩ := sections_of_msgV hopm hc han hns har
  obtain ⟨hsv, hst⟩ := hsg s hsig
  obtain ⟨hswf, hsfq⟩ := sigWF_of_recV hsv hst
  have hidm : m.md.id = md0.id := by rw [hmd]; cases m.edns <;> rfl
  refine ⟨⟨by rw [hidm]; exact hid, by rw [hopm]; exact hop, ?_,
    fun q hq' => ⟨(hq q hq').1, (hq q hq').2.2⟩, fun r hr => (san r hr).1, fun r hr => (sns r hr).1,
    fun r hr => (sar r hr).1, ?_, ?_⟩, ?_, ?_⟩
  · rw [hmd]
    cases hed : m.edns with
    | none => show md0.rcode < 4096; omega
    | some ed =>
      have := (hedns ed hed).high
      show ed.rcodeHigh * 16 + md0.rcode % 16 < 4096; omega
  · intro ed hed
    have hew := hedns ed hed
    have hhigh := hew.high
    refine ⟨hew, ?_⟩
    rw [hmd, hed]
    show ed.rcodeHigh = (ed.rcodeHigh * 16 + md0.rcode % 16) / 16 % 256
    omega
  · intro s' hs'
    rw [hsig] at hs'
    cases hs'
    exact hswf
  · have hfq := fq_of_sections hq (fun r hr => (san r hr).2) (fun r hr => (sns r hr).2) (fun r hr => (sar r hr).2)
    unfold decodedForm
    rw [hfq, hsig]
    simp only [Option.map_some, hsfq]
    cases m with
    | mk md qs an ns ar sg ed => simp only at hsig; subst hsig; rfl
  · intro hed
    rw [hmd, hed]
    exact hrc

/-- **Any string of octets that decodes to a message carrying a TSIG record — with or without EDNS,
SIG(0) records among the additionals included — re-encodes to bytes that decode to the same message**,
provided the re-encoding fits. -/
theorem reencode_stable_decoded_tsig_partial (opq : Nat → Rd Bytes) (b bs : Bytes) (m : Message) (s : Record)
    (p : Nat) (hb : Bytes.WF b) (hdec : Rd.run (readMessage opq) b 0 = .ok (m, p)) (hc : Covered m)
    (hsig : m.signature = some s) (hfits : EncFits m bs) :
    Rd.run (readMessage opq) bs 0 = .ok (m, bs.length) := by
  obtain ⟨hwf, hdf, hrc⟩ := readMessage_wft opq b m s p hb hdec hc hsig
  obtain ⟨md', c, e', he, rfl, h1, h2, h3⟩ := hfits
  rw [hsig] at h3
  cases hed : m.edns with
  | none =>
    rw [hed] at h3
    have := decode_encode_tsig_noedns_partial opq m s hwf hed (hrc hed) hsig 65535 md' c e' he
      ⟨h1, h2, by simpa using h3⟩
    rwa [hdf] at this
  | some ed =>
    rw [hed] at h3
    have := decode_encode_tsig_partial opq m ed s hwf hed hsig 65535 md' c e' he ⟨h1, h2, by simpa using h3⟩
    rwa [hdf] at this

/-- **`reencode_stable`, all cases in one**: any string of octets that decodes — every record type
hickory decodes, with or without EDNS, with or without a TSIG record — re-encodes, if the re-encoding
fits (`EncFits`), to bytes that decode to the same message.  The only hypotheses left are the octet
range of the input, `Covered` (no record whose RDATA variant is outside the model: there is none among
the variants the decoder produces except `ZERO`, which never decodes) and `EncFits`. -/
theorem reencode_stable_covered_partial (opq : Nat → Rd Bytes) (b bs : Bytes) (m : Message) (p : Nat)
    (hb : Bytes.WF b) (hdec : Rd.run (readMessage opq) b 0 = .ok (m, p)) (hc : Covered m)
    (hfits : EncFits m bs) : Rd.run (readMessage opq) bs 0 = .ok (m, bs.length) := by
  cases hsig : m.signature with
  | some s => exact reencode_stable_decoded_tsig_partial opq b bs m s p hb hdec hc hsig hfits
  | none =>
    cases hed : m.edns with
    | none => exact reencode_stable_decoded_partial opq b bs m p hb hdec hc hed hsig hfits
    | some ed => exact reencode_stable_decoded_edns_partial opq b bs m ed p hb hdec hc hed hsig hfits

end HickoryVerif.C02
