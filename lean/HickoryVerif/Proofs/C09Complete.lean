/-
C09 — completeness of the validator for the RFC 5155 proof *shape* (§7.2 / §8): whenever the record
list contains what RFC 5155 says a server sends — for a name error: a record matching the closest
encloser, a record covering the next closer name, a record covering the wildcard at the closest
encloser, and no record matching QNAME or a candidate longer than the closest encloser — the
validator answers `Secure` (any repair state `fx`; the repairs `deleg` / `optout` need the records they
inspect to pass their checks).  Likewise for a matching-record NODATA, the Opt-Out DS case and a
wildcard expansion.

This is completeness with respect to the proof shape, stated on the validator's own inputs.  That
hickory's *server* (`nsec3_zone`, `InnerInMemory::proof`) produces this shape is not proved; it is
validated end to end by the harness (`srv` cases), with one recorded finding.
-/
import HickoryVerif.Proofs.C09

namespace HickoryVerif.C09
open HickoryVerif HickoryVerif.Nsec3 HickoryVerif.Denial3 Std

section
variable {fx : Fixes} {H : Name → Bytes} {enc : Bytes → Bytes}

/-- a genuine link around `th`: the record's owner label encodes `ho`, its next-hash label exists, and
`th` lies strictly inside the link — then `find_covering_record`'s closure accepts it, with the
wrap-around arm as written and with the repaired one. -/
theorem covers_of_inside (hE : EncOrd enc) {r : Pair} {ho th : Bytes}
    (hl : labelEq r.label (enc ho) = true)
    (hho : Bytes.WF ho) (hth : Bytes.WF th) (hnx : Bytes.WF r.data.next)
    (hnl : (nextLabel enc r.data).isSome = true)
    (hin : Inside ho r.data.next th) : covers fx enc r th (enc th) = true := by
  have e1 : Name.cmpLabel true r.label (enc th) = compare ho th := label_vs_enc hE hl hho hth
  have e2 : Name.cmpLabel true r.label (enc r.data.next) = compare ho r.data.next :=
    label_vs_enc hE hl hho hnx
  unfold covers
  cases hn : nextLabel enc r.data with
  | none => simp [hn] at hnl
  | some nl =>
    have hnl' : nl = enc r.data.next := by
      simp only [nextLabel] at hn
      split at hn
      · simp at hn
      · simpa using hn.symm
    subst hnl'
    simp only [labelEq, labelLt, labelGt, bytesLt, bytesGt, e1, e2, C04.cmpLabel_cs]
    unfold Inside hlt at hin
    by_cases h1 : compare ho r.data.next = .lt
    · simp only [h1, if_true] at hin
      simp [h1, hin.1, hin.2]
    · simp only [h1, if_false] at hin
      have hge : compare r.data.next ho ≠ .gt := by
        intro hgt
        exact h1 (cmp_gt_iff.mp hgt)
      -- owner ≥ next
      rcases hin with hlt | hlt
      · -- th > owner ≥ next
        have hne : compare ho th ≠ .eq := by rw [hlt]; simp
        have hthn : compare th r.data.next = .gt := by
          rw [cmp_gt_iff]
          rcases hc : compare r.data.next ho with _ | _ | _
          · exact TransCmp.lt_trans hc hlt
          · rw [cmp_eq_iff.mp hc]; exact hlt
          · exact absurd hc hge
        by_cases hwrap : fx.wrap = true <;> simp [h1, hlt, hthn, hwrap]
      · -- th < next ≤ owner
        have hoth : compare ho th = .gt := by
          rw [cmp_gt_iff]
          rcases hc : compare r.data.next ho with _ | _ | _
          · exact TransCmp.lt_trans hlt hc
          · rw [← cmp_eq_iff.mp hc]; exact hlt
          · exact absurd hc hge
        by_cases hwrap : fx.wrap = true <;> simp [h1, hlt, hoth, hwrap]

/-- "the response contains a record covering the hash of `t`" -/
def HasCover (H : Name → Bytes) (enc : Bytes → Bytes) (pairs : List Pair) (t : List Bytes) : Prop :=
  ∃ p ∈ pairs, ∃ ho, labelEq p.label (enc ho) = true ∧ Bytes.WF ho ∧ Bytes.WF p.data.next ∧
    (nextLabel enc p.data).isSome = true ∧ Inside ho p.data.next (H (mk t))

theorem findCovering_isSome (hE : EncOrd enc) (hH : ∀ n, Bytes.WF (H n)) {pairs : List Pair}
    {t : List Bytes} (h : HasCover H enc pairs t) :
    ∃ x, findCovering fx enc pairs (H (mk t)) (enc (H (mk t))) = some x ∧ x ∈ pairs := by
  obtain ⟨p, hp, ho, hl, hho, hnx, hnl, hin⟩ := h
  have hc : covers fx enc p (H (mk t)) (enc (H (mk t))) = true :=
    covers_of_inside hE hl hho (hH _) hnx hnl hin
  unfold findCovering
  cases hf : pairs.find? (fun r => covers fx enc r (H (mk t)) (enc (H (mk t)))) with
  | none =>
    have := List.find?_eq_none.mp hf p hp
    simp [hc] at this
  | some x => exact ⟨x, rfl, List.mem_of_find?_eq_some hf⟩

/-! ### the closest encloser search finds the closest encloser -/

theorem candidatesTail_cons_ne {s : Name} {x : Bytes} {rest : List Bytes}
    (h : Name.eq (mk (x :: rest)) s = false) :
    candidatesTail s (x :: rest) = mk (x :: rest) :: candidatesTail s rest := by
  simp only [candidatesTail]
  have : Name.eq { labels := x :: rest, fqdn := true } s = false := h
  simp [this, mk]

/-- the SOA name is not one of the candidates longer than `ls` -/
def SoaNotAbove (s : Name) (pre ls : List Bytes) : Prop :=
  ∀ i, i < pre.length → Name.eq (mk (pre.drop i ++ ls)) s = false

/-- no record matches a candidate longer than `ls` (in particular not QNAME) -/
def NoLongerMatch (H : Name → Bytes) (enc : Bytes → Bytes) (pairs : List Pair)
    (pre ls : List Bytes) : Prop :=
  ∀ i, i < pre.length → ∀ p ∈ pairs, labelEq p.label (enc (H (mk (pre.drop i ++ ls)))) = false

theorem soaNotAbove_tail {s : Name} {x : Bytes} {pre ls : List Bytes}
    (h : SoaNotAbove s (x :: pre) ls) : SoaNotAbove s pre ls := by
  intro i hi
  have := h (i + 1) (by simp; omega)
  simpa using this

theorem noLongerMatch_tail {pairs : List Pair} {x : Bytes} {pre ls : List Bytes}
    (h : NoLongerMatch H enc pairs (x :: pre) ls) : NoLongerMatch H enc pairs pre ls := by
  intro i hi p hp
  have := h (i + 1) (by simp; omega) p hp
  simpa using this

theorem findSome_skip (s : Name) (pairs : List Pair) (pre ls : List Bytes)
    (hs : SoaNotAbove s pre ls) (hn : NoLongerMatch H enc pairs pre ls) :
    ((candidatesTail s (pre ++ ls)).map (info H enc)).findSome?
        (fun c => findMatching pairs c.label) =
    ((candidatesTail s ls).map (info H enc)).findSome? (fun c => findMatching pairs c.label) := by
  induction pre with
  | nil => rfl
  | cons x pre ih =>
    have h0 : Name.eq (mk (x :: (pre ++ ls))) s = false := by simpa using hs 0 (by simp)
    rw [List.cons_append, candidatesTail_cons_ne h0, List.map_cons, List.findSome?_cons]
    have hnone : findMatching pairs (info H enc (mk (x :: (pre ++ ls)))).label = none := by
      unfold findMatching
      rw [List.find?_eq_none]
      intro p hp
      have := hn 0 (by simp) p hp
      simp only [List.drop_zero, List.cons_append] at this
      simp [info, this]
    rw [hnone]
    exact ih (soaNotAbove_tail hs) (noLongerMatch_tail hn)

theorem pick_cons_cons (ml : Bytes) (a b : Info) (rest : List Info) :
    pickEncloser ml (a :: b :: rest) =
      if labelEq b.label ml then some (a, b) else pickEncloser ml (b :: rest) := by
  rw [pickEncloser]

theorem pickEncloser_finds (s : Name) (ml : Bytes) (pre : List Bytes) (l : Bytes) (ls : List Bytes)
    (hs : SoaNotAbove s (pre ++ [l]) ls)
    (hml : labelEq (enc (H (mk ls))) ml = true)
    (hno : ∀ i, i < (pre ++ [l]).length →
      labelEq (enc (H (mk ((pre ++ [l]).drop i ++ ls)))) ml = false) :
    pickEncloser ml ((candidatesTail s (pre ++ l :: ls)).map (info H enc)) =
      some (info H enc (mk (l :: ls)), info H enc (mk ls)) := by
  induction pre with
  | nil =>
    have h0 : Name.eq (mk (l :: ls)) s = false := by simpa using hs 0 (by simp)
    obtain ⟨tl, htl⟩ := candidatesTail_head s ls
    rw [List.nil_append, candidatesTail_cons_ne h0, htl, List.map_cons, List.map_cons,
      pick_cons_cons]
    have : labelEq (info H enc (mk ls)).label ml = true := by simpa [info] using hml
    rw [if_pos this]
  | cons x pre ih =>
    have h0' : Name.eq (mk (x :: (pre ++ l :: ls))) s = false := by simpa using hs 0 (by simp)
    have hs' : SoaNotAbove s (pre ++ [l]) ls := soaNotAbove_tail (x := x) (by simpa using hs)
    have hno' : ∀ i, i < (pre ++ [l]).length →
        labelEq (enc (H (mk ((pre ++ [l]).drop i ++ ls)))) ml = false := by
      intro i hi
      have := hno (i + 1) (by simp at hi ⊢; omega)
      simpa using this
    have hrest : pre ++ l :: ls = (pre ++ [l]) ++ ls := by simp
    obtain ⟨tl, htl⟩ := candidatesTail_head s (pre ++ l :: ls)
    rw [List.cons_append, candidatesTail_cons_ne h0', List.map_cons]
    have ih' := ih hs' hno'
    rw [htl] at ih' ⊢
    rw [List.map_cons, pick_cons_cons]
    have hfalse : labelEq (info H enc (mk (pre ++ l :: ls))).label ml = false := by
      have := hno' 0 (by simp)
      simp only [List.drop_zero] at this
      rw [← hrest] at this
      simpa [info] using this
    rw [if_neg (by simp [hfalse])]
    rw [List.map_cons] at ih'
    exact ih'

theorem labelEq_comm (a b : Bytes) : labelEq a b = labelEq b a := by
  cases h1 : labelEq a b <;> cases h2 : labelEq b a <;> try rfl
  · rw [labelEq_symm h2] at h1; cases h1
  · rw [labelEq_symm h1] at h2; cases h2

/-- the response contains the RFC 5155 §7.2.1 closest encloser proof for the query name
`pre ++ l :: ls`, closest encloser `ls`, next closer name `l :: ls` -/
structure HasCEProof (H : Name → Bytes) (enc : Bytes → Bytes) (s : Name) (pairs : List Pair)
    (pre : List Bytes) (l : Bytes) (ls : List Bytes) : Prop where
  zone : s.zoneOf (mk (pre ++ l :: ls)) = true
  soa : SoaNotAbove s (pre ++ [l]) ls
  noLonger : NoLongerMatch H enc pairs (pre ++ [l]) ls
  ceMatch : ∃ p ∈ pairs, labelEq p.label (enc (H (mk ls))) = true
  ncCover : HasCover H enc pairs (l :: ls)

theorem cep_complete (hE : EncOrd enc) (hH : ∀ n, Bytes.WF (H n)) {s : Name} {pairs : List Pair}
    {pre : List Bytes} {l : Bytes} {ls : List Bytes} (h : HasCEProof H enc s pairs pre l ls) :
    ∃ m ∈ pairs, ∃ x ∈ pairs, labelEq m.label (enc (H (mk ls))) = true ∧
      closestEncloserProof fx H enc (mk (pre ++ l :: ls)) (some s) pairs =
        { ce := some (info H enc (mk ls), m), nc := some (info H enc (mk (l :: ls)), x) } := by
  have hrest : pre ++ l :: ls = (pre ++ [l]) ++ ls := by simp
  have hcands : encloserCandidates (mk (pre ++ l :: ls)) (some s) =
      candidatesTail s (pre ++ l :: ls) := by
    simp only [encloserCandidates, h.zone, if_true]
    exact candidatesFrom_mk s _
  -- the first candidate with a matching record is the closest encloser
  obtain ⟨p0, hp0, hl0⟩ := h.ceMatch
  have hfm : ∃ m, findMatching pairs (enc (H (mk ls))) = some m := by
    unfold findMatching
    cases hf : pairs.find? (fun r => labelEq r.label (enc (H (mk ls)))) with
    | none =>
      have := List.find?_eq_none.mp hf p0 hp0
      simp [hl0] at this
    | some m => exact ⟨m, rfl⟩
  obtain ⟨m, hm⟩ := hfm
  have hmp : m ∈ pairs := by unfold findMatching at hm; exact List.mem_of_find?_eq_some hm
  have hml : labelEq m.label (enc (H (mk ls))) = true := by
    unfold findMatching at hm; simpa using List.find?_some hm
  have hfs : ((candidatesTail s (pre ++ l :: ls)).map (info H enc)).findSome?
      (fun c => findMatching pairs c.label) = some m := by
    rw [hrest, findSome_skip s pairs (pre ++ [l]) ls h.soa h.noLonger]
    obtain ⟨tl, htl⟩ := candidatesTail_head s ls
    rw [htl, List.map_cons, List.findSome?_cons]
    have : findMatching pairs (info H enc (mk ls)).label = some m := by simpa [info] using hm
    rw [this]
  have hpick : pickEncloser m.label ((candidatesTail s (pre ++ l :: ls)).map (info H enc)) =
      some (info H enc (mk (l :: ls)), info H enc (mk ls)) := by
    apply pickEncloser_finds s m.label pre l ls h.soa (labelEq_symm hml)
    intro i hi
    rw [labelEq_comm]
    exact h.noLonger i hi m hmp
  obtain ⟨x, hx, hxp⟩ := findCovering_isSome (fx := fx) hE hH h.ncCover
  refine ⟨m, hmp, x, hxp, hml, ?_⟩
  unfold closestEncloserProof
  simp only [hcands, hfs, hpick, info, hx, Option.map_some]

/-- the gate, read forwards: well-formed input reaches the validators -/
theorem verify_eq_validate {q : Name} {qtype : Nat} {soa : Option Name} {rcode : Nat}
    {wl : Option Nat} {recs : List Rec} {soft hard : Nat} {f : Pair} {ps : List Pair}
    (hp : mkPairs soa recs = some (f :: ps))
    (hsame : ∀ x ∈ f :: ps, x.data.salt = f.data.salt ∧ x.data.iterations = f.data.iterations)
    (hh : f.data.iterations ≤ hard) (hs : f.data.iterations ≤ soft) :
    verifyNsec3 fx H enc q qtype soa rcode wl recs soft hard =
      if rcode == rcNXDomain then validateNxdomain fx H enc q soa (f :: ps)
      else if rcode == rcNoError then validateNodata fx H enc q qtype soa wl (f :: ps)
      else .bogus := by
  unfold verifyNsec3
  simp only [hp]
  have hany : (f :: ps).any (fun r => r.data.salt != f.data.salt ||
      r.data.iterations != f.data.iterations) = false := by
    rw [List.any_eq_false]
    intro x hx
    have := hsame x hx
    simp [this.1, this.2]
  rw [hany]
  simp only [Bool.false_eq_true, if_false]
  rw [if_neg (by omega), if_neg (by omega)]

/-- **Completeness, name error (§8.4 shape).** -/
theorem nxdomain_complete (hE : EncOrd enc) (hH : ∀ n, Bytes.WF (H n)) {s : Name}
    {pairs : List Pair} {pre : List Bytes} {l : Bytes} {ls : List Bytes}
    (hce : HasCEProof H enc s pairs pre l ls)
    (hwc : HasCover H enc pairs ([42] :: ls))
    (hfit : ∃ w, Name.prependLabel (mk ls) [42] = .ok w)
    (hd : fx.deleg = false ∨ ∀ p ∈ pairs, isDelegationRec p.data = false)
    (ho : fx.optout = false ∨ ∀ p ∈ pairs, p.data.optOut = false) :
    validateNxdomain fx H enc (mk (pre ++ l :: ls)) (some s) pairs = .secure := by
  obtain ⟨m, hmp, x, hxp, _, hcep⟩ := cep_complete (fx := fx) hE hH hce
  obtain ⟨w, hw⟩ := hfit
  have hwmk := prependLabel_star hw
  subst hwmk
  obtain ⟨wr, hwr, _⟩ := findCovering_isSome (fx := fx) hE hH hwc
  have hany : pairs.any (fun r => labelEq r.label (enc (H (mk (pre ++ l :: ls))))) = false := by
    rw [List.any_eq_false]
    intro p hp
    have := hce.noLonger 0 (by simp) p hp
    simp only [List.drop_zero] at this
    have hrest : pre ++ l :: ls = (pre ++ [l]) ++ ls := by simp
    rw [hrest, this]
    simp
  have hdm : (fx.deleg && isDelegationRec m.data) = false := by
    rcases hd with h | h
    · simp [h]
    · simp [h m hmp]
  have hox : (fx.optout && x.data.optOut) = false := by
    rcases ho with h | h
    · simp [h]
    · simp [h x hxp]
  unfold validateNxdomain
  simp only [hany, Bool.false_eq_true, if_false]
  unfold cepWithWildcard
  simp only [hcep, info, hw, hwr, Option.map_some, Option.isNone_some, Bool.false_and,
    Bool.false_eq_true, if_false, hdm, hox]

/-- **Completeness, no data with a matching record (§8.5 / §8.6 shape).** -/
theorem nodata_match_complete {q : Name} {qtype : Nat} {soa : Option Name} {wl : Option Nat}
    {pairs : List Pair}
    (hwe : wildExp fx q wl = false)
    (hex : ∃ p ∈ pairs, labelEq p.label (enc (H q)) = true)
    (hall : ∀ p ∈ pairs, labelEq p.label (enc (H q)) = true →
      p.data.types.contains qtype = false ∧ p.data.types.contains tCNAME = false ∧
      (fx.deleg && qtype != tDS && isDelegNS p.data) = false) :
    validateNodata fx H enc q qtype soa wl pairs = .secure := by
  obtain ⟨p0, hp0, hl0⟩ := hex
  have hfm : ∃ m, findMatching pairs (enc (H q)) = some m := by
    unfold findMatching
    cases hf : pairs.find? (fun r => labelEq r.label (enc (H q))) with
    | none =>
      have := List.find?_eq_none.mp hf p0 hp0
      simp [hl0] at this
    | some m => exact ⟨m, rfl⟩
  obtain ⟨m, hm⟩ := hfm
  have hmp : m ∈ pairs := by unfold findMatching at hm; exact List.mem_of_find?_eq_some hm
  have hml : labelEq m.label (enc (H q)) = true := by
    unfold findMatching at hm; simpa using List.find?_some hm
  obtain ⟨h1, h2, h3⟩ := hall m hmp hml
  unfold validateNodata
  simp only [hwe, Bool.false_eq_true, if_false, hm, nodataMatch, h1, h2, h3, Bool.or_self]

/-- **Completeness, wildcard expansion (§8.8 shape)**: no record matches QNAME, it is not the
Opt-Out DS case, and a record covers the next closer name given by the RRSIG label count. -/
theorem wildcard_answer_complete (hE : EncOrd enc) (hH : ∀ n, Bytes.WF (H n)) {q : Name}
    {qtype k : Nat} {soa : Option Name} {pairs : List Pair}
    (hk : k < q.numLabels)
    (hnm : ∀ p ∈ pairs, labelEq p.label (enc (H q)) = false)
    (hds : dsOptOut fx H enc q qtype pairs = false)
    (hfl : Name.fromLabels (lastLabels q (k + 1)) = .ok (mk (lastLabels q (k + 1))))
    (hcov : HasCover H enc pairs (lastLabels q (k + 1)))
    (ho : fx.optout = false ∨ ∀ p ∈ pairs, p.data.optOut = false) :
    validateNodata fx H enc q qtype soa (some k) pairs = .secure := by
  obtain ⟨x, hx, hxp⟩ := findCovering_isSome (fx := fx) hE hH hcov
  have hfm : findMatching pairs (enc (H q)) = none := by
    unfold findMatching
    rw [List.find?_eq_none]
    intro p hp
    simp [hnm p hp]
  have hox : (fx.optout && x.data.optOut) = false := by
    rcases ho with h | h
    · simp [h]
    · simp [h x hxp]
  unfold validateNodata
  have hite : (if wildExp fx q (some k) = true then none else findMatching pairs (enc (H q))) =
      none := by split <;> simp [hfm]
  simp only [hite, hds, Bool.and_false, Bool.false_eq_true, if_false, nodataWildAnswer, hfl, info,
    hx, hox]
  rw [if_neg (by omega)]

/-- **Completeness, Opt-Out DS (§8.6 shape)**: no record matches QNAME and the first record covering
QNAME is an Opt-Out record. -/
theorem ds_optout_complete {q : Name} {soa : Option Name} {wl : Option Nat} {pairs : List Pair}
    (hwe : wildExp fx q wl = false)
    (hnm : ∀ p ∈ pairs, labelEq p.label (enc (H q)) = false)
    (hds : dsOptOut fx H enc q tDS pairs = true) :
    validateNodata fx H enc q tDS soa wl pairs = .secure := by
  have hfm : findMatching pairs (enc (H q)) = none := by
    unfold findMatching
    rw [List.find?_eq_none]
    intro p hp
    simp [hnm p hp]
  unfold validateNodata
  simp only [hwe, Bool.false_eq_true, if_false, hfm, hds, Bool.not_false, Bool.and_self, if_true]

/-- **Completeness, wildcard no data (§8.7 shape)**: the closest encloser proof plus a record
matching the wildcard at the closest encloser whose bitmap has neither QTYPE nor CNAME. -/
theorem wildcard_nodata_complete (hE : EncOrd enc) (hH : ∀ n, Bytes.WF (H n)) {s : Name}
    {pairs : List Pair} {pre : List Bytes} {l : Bytes} {ls : List Bytes} {qtype : Nat}
    (hce : HasCEProof H enc s pairs pre l ls)
    (hds : dsOptOut fx H enc (mk (pre ++ l :: ls)) qtype pairs = false)
    (hfit : ∃ w, Name.prependLabel (mk ls) [42] = .ok w)
    (hwex : ∃ p ∈ pairs, labelEq p.label (enc (H (mk ([42] :: ls)))) = true)
    (hwall : ∀ p ∈ pairs, labelEq p.label (enc (H (mk ([42] :: ls)))) = true →
      p.data.types.contains qtype = false ∧ p.data.types.contains tCNAME = false)
    (hd : fx.deleg = false ∨ ∀ p ∈ pairs, isDelegationRec p.data = false)
    (ho : fx.optout = false ∨ ∀ p ∈ pairs, p.data.optOut = false) :
    validateNodata fx H enc (mk (pre ++ l :: ls)) qtype (some s) none pairs = .secure := by
  obtain ⟨m, hmp, x, hxp, _, hcep⟩ := cep_complete (fx := fx) hE hH hce
  obtain ⟨w, hw⟩ := hfit
  have hwmk := prependLabel_star hw
  subst hwmk
  obtain ⟨p0, hp0, hl0⟩ := hwex
  have hfw : ∃ wr, findMatching pairs (enc (H (mk ([42] :: ls)))) = some wr := by
    unfold findMatching
    cases hf : pairs.find? (fun r => labelEq r.label (enc (H (mk ([42] :: ls))))) with
    | none =>
      have := List.find?_eq_none.mp hf p0 hp0
      simp [hl0] at this
    | some wr => exact ⟨wr, rfl⟩
  obtain ⟨wr, hwr⟩ := hfw
  have hwrp : wr ∈ pairs := by unfold findMatching at hwr; exact List.mem_of_find?_eq_some hwr
  have hwrl : labelEq wr.label (enc (H (mk ([42] :: ls)))) = true := by
    unfold findMatching at hwr; simpa using List.find?_some hwr
  obtain ⟨ht1, ht2⟩ := hwall wr hwrp hwrl
  have hrest : pre ++ l :: ls = (pre ++ [l]) ++ ls := by simp
  have hfm : findMatching pairs (enc (H (mk (pre ++ l :: ls)))) = none := by
    unfold findMatching
    rw [List.find?_eq_none]
    intro p hp
    have := hce.noLonger 0 (by simp) p hp
    simp only [List.drop_zero] at this
    rw [hrest, this]
    simp
  have hdm : (fx.deleg && isDelegationRec m.data) = false := by
    rcases hd with h | h
    · simp [h]
    · simp [h m hmp]
  have hox : (fx.optout && x.data.optOut) = false := by
    rcases ho with h | h
    · simp [h]
    · simp [h x hxp]
  have hwe : wildExp fx (mk (pre ++ l :: ls)) none = false := by simp [wildExp]
  unfold validateNodata
  simp only [hwe, Bool.false_eq_true, if_false, hfm, hds, Bool.and_false, nodataWildNoData]
  unfold cepWithWildcard
  simp only [hcep, info, hw, if_true, hwr, Option.map_some, ht1, ht2, Bool.not_false,
    Bool.and_self, hdm, hox, Bool.false_eq_true, if_false]

/-- **Completeness of `verify_nsec3` for a name error**: a well-formed record list (all
`<label>.<soa>`, one salt / iteration count within both limits) that contains the §8.4 proof shape is
accepted. -/
theorem verify_name_error_complete (hE : EncOrd enc) (hH : ∀ n, Bytes.WF (H n)) {s : Name}
    {recs : List Rec} {qtype : Nat} {wl : Option Nat} {soft hard : Nat} {f : Pair} {ps : List Pair}
    {pre : List Bytes} {l : Bytes} {ls : List Bytes}
    (hp : mkPairs (some s) recs = some (f :: ps))
    (hsame : ∀ x ∈ f :: ps, x.data.salt = f.data.salt ∧ x.data.iterations = f.data.iterations)
    (hh : f.data.iterations ≤ hard) (hs : f.data.iterations ≤ soft)
    (hce : HasCEProof H enc s (f :: ps) pre l ls)
    (hwc : HasCover H enc (f :: ps) ([42] :: ls))
    (hfit : ∃ w, Name.prependLabel (mk ls) [42] = .ok w)
    (hd : fx.deleg = false ∨ ∀ p ∈ f :: ps, isDelegationRec p.data = false)
    (ho : fx.optout = false ∨ ∀ p ∈ f :: ps, p.data.optOut = false) :
    verifyNsec3 fx H enc (mk (pre ++ l :: ls)) qtype (some s) rcNXDomain wl recs soft hard
      = .secure := by
  rw [verify_eq_validate hp hsame hh hs]
  simp only [beq_self_eq_true, if_true]
  exact nxdomain_complete hE hH hce hwc hfit hd ho

end

end HickoryVerif.C09
