/-
C18 — "a lookup returns the answer of a healthy server whenever one exists and the time budget
allows".
-/
import HickoryVerif.Proofs.C18Tcp

namespace HickoryVerif.C18
open HickoryVerif HickoryVerif.Pool

/-! ## hypotheses -/

/-- replies a server suffering only TRANSPORT faults can give: an answer, a stream timeout, an I/O
error, a failing connection attempt, a reset, busy back-pressure — plus an NXDOMAIN when the server is not trusted for negative
answers.  (Excluded: truncation / case mismatch, which switch the lookup to TCP, and the replies that
end a lookup by design: trusted NXDOMAIN, NODATA, SERVFAIL, REFUSED.) -/
def benignReply (trust : Bool) : Reply → Bool
  | .ans | .to | .io | .rst | .busy | .cf => true
  | .nx => !trust
  | _ => false

/-- every server of the configuration only ever gives benign replies -/
def Benign (cfg : Cfg) : Prop :=
  ∀ s ∈ cfg.servers, ∀ x ∈ s.udp.getD [] ++ s.tcp.getD [], benignReply s.trust x.reply = true

def okScript : Option (List Step) → Prop
  | none => True
  | some sc => sc ≠ [] ∧ ∀ x ∈ sc, x.reply = .ans

/-- a healthy server: configured for at least one protocol and answering every request -/
def Healthy (s : Server) : Prop :=
  (s.udp.isSome = true ∨ s.tcp.isSome = true) ∧ okScript s.udp ∧ okScript s.tcp

/-- the time budget allows: asking every server once, one batch member after the other, fits -/
def BudgetAllows (cfg : Cfg) (L : Nat) : Prop := 1 ≤ L ∧ 2 * L * cfg.servers.length ≤ cfg.timeout

def BenignEv (cfg : Cfg) (ev : Event) : Prop :=
  ev.reply = none ∨ ∃ r, ev.reply = some r ∧ benignReply (server cfg ev.srv).trust r = true

/-! ## replies of one request -/

theorem server_mem_or_default (cfg : Cfg) (i : Nat) :
    server cfg i ∈ cfg.servers ∨ server cfg i = ⟨true, 0, none, none⟩ := by
  unfold server
  rw [List.getD_eq_getElem?_getD]
  cases h : cfg.servers[i]? with
  | none => right; simp
  | some s => left; simpa using List.mem_of_getElem? h

theorem stepAt_benign (cfg : Cfg) (hB : Benign cfg) (i : Nat) (p : Proto) (pos : Nat) :
    benignReply (server cfg i).trust (stepAt (script (server cfg i) p) pos).reply = true := by
  rcases stepAt_mem_or_default (script (server cfg i) p) pos with hm | hd
  · rcases server_mem_or_default cfg i with hs | hs
    · apply hB _ hs
      cases p <;> simp_all [script]
    · rw [hs] at hm; cases p <;> simp [script] at hm
  · rw [hd]; rfl

theorem exchange_reply (s : Server) (c : Conn) (p : Proto) (t : Nat) :
    (exchange s c p t).1 = (stepAt (script s p) (match p with | .udp => c.posU | .tcp => c.posT)).reply := by
  cases p <;> simp [exchange, script]

theorem nsSendOnce_benign (cfg : Cfg) (hB : Benign cfg) (i : Nat) (c : Conn) (du : Bool) (t : Nat) :
    (nsSendOnce (server cfg i) c du t).reply = none ∨
      ∃ r, (nsSendOnce (server cfg i) c du t).reply = some r ∧
        benignReply (server cfg i).trust r = true := by
  unfold nsSendOnce
  split
  · left; rfl
  all_goals
    rename_i p _
    right
    exact ⟨_, rfl, by rw [exchange_reply]; exact stepAt_benign cfg hB i p _⟩

theorem nsSend_benign (cfg : Cfg) (hB : Benign cfg) (i : Nat) (c : Conn) (du : Bool) (t : Nat) :
    (nsSend (server cfg i) c du t).reply = none ∨
      ∃ r, (nsSend (server cfg i) c du t).reply = some r ∧
        benignReply (server cfg i).trust r = true := by
  by_cases hc : ∃ p, choose (server cfg i) c du = .reused p
  · obtain ⟨p, hc⟩ := hc
    by_cases hr : (exchange (server cfg i) c p t).1 = .rst
    · have := nsSendOnce_benign cfg hB i (exchange (server cfg i) c p t).2.2 du (exchange (server cfg i) c p t).2.1
      simpa [nsSend, hc, hr] using this
    · right
      refine ⟨(exchange (server cfg i) c p t).1, by simp [nsSend, hc, hr], ?_⟩
      rw [exchange_reply]; exact stepAt_benign cfg hB i p _
  · rw [nsSend_not_reused _ _ _ _ (fun p h => hc ⟨p, h⟩)]
    exact nsSendOnce_benign cfg hB i c du t

theorem stepAt_ok (sc : List Step) (pos : Nat) (h : okScript (some sc)) : (stepAt sc pos).reply = .ans := by
  rcases stepAt_mem_or_default sc pos with hm | _
  · exact h.2 _ hm
  · -- the default step is only returned for an empty script
    unfold stepAt
    rw [List.getD_eq_getElem?_getD]
    have hlen : 0 < sc.length := List.length_pos_iff.mpr h.1
    have : min pos (sc.length - 1) < sc.length := by omega
    rw [List.getElem?_eq_getElem this]
    exact h.2 _ (List.getElem_mem this)

/-- live connections only exist for configured protocols (true of every state the pool can reach) -/
def ConnOK (s : Server) (c : Conn) : Prop :=
  (c.liveU = true → s.udp.isSome = true) ∧ (c.liveT = true → s.tcp.isSome = true)

def hasProto (s : Server) : Proto → Bool
  | .udp => s.udp.isSome
  | .tcp => s.tcp.isSome

theorem exchange_healthy (s : Server) (hH : Healthy s) (c : Conn) (p : Proto) (t : Nat)
    (hp : hasProto s p = true) : (exchange s c p t).1 = .ans := by
  obtain ⟨_, hu, ht⟩ := hH
  cases p with
  | udp =>
    cases hud : s.udp with
    | none => simp [hasProto, hud] at hp
    | some sc => rw [hud] at hu; simp [exchange, hud, stepAt_ok sc _ hu]
  | tcp =>
    cases htd : s.tcp with
    | none => simp [hasProto, htd] at hp
    | some sc => rw [htd] at ht; simp [exchange, htd, stepAt_ok sc _ ht]

/-- with UDP allowed, a configured server with a well-formed connection table is always asked on a
configured protocol -/
theorem choose_configured (s : Server) (c : Conn) (hc : ConnOK s c)
    (hcfg : s.udp.isSome = true ∨ s.tcp.isSome = true) :
    ∃ p, (choose s c false = .reused p ∨ choose s c false = .fresh p) ∧ hasProto s p = true := by
  by_cases hU : c.liveU = true
  · exact ⟨.udp, Or.inl (by simp [choose, hU]), hc.1 hU⟩
  · by_cases hT : c.liveT = true
    · exact ⟨.tcp, Or.inl (by simp [choose, hU, hT]), hc.2 hT⟩
    · by_cases hu : s.udp.isSome = true
      · exact ⟨.udp, Or.inr (by simp [choose, hU, hT, hu]), hu⟩
      · have ht : s.tcp.isSome = true := by
          rcases hcfg with h | h
          · exact absurd h hu
          · exact h
        exact ⟨.tcp, Or.inr (by simp [choose, hU, hT, hu, ht]), ht⟩

/-- a healthy server answers, whatever connections it has open -/
theorem nsSend_healthy (s : Server) (hH : Healthy s) (c : Conn) (hc : ConnOK s c) (t : Nat) :
    (nsSend s c false t).reply = some .ans := by
  obtain ⟨p, hch, hp⟩ := choose_configured s c hc hH.1
  have hx := exchange_healthy s hH c p t hp
  rcases hch with hch | hch
  · simp [nsSend, hch, hx]
  · rw [nsSend_not_reused _ _ _ _ (by simp [hch])]
    simp [nsSendOnce, hch, hx]

/-! ## one batch -/

theorem sendBatch_benign (cfg : Cfg) (hB : Benign cfg) (du : Bool) (t : Nat) (is : List Nat)
    (conns : List Conn) : ∀ ev ∈ (sendBatch cfg du t is conns).1, BenignEv cfg ev := by
  induction is generalizing conns with
  | nil => intro ev h; simp [sendBatch] at h
  | cons i is ih =>
    intro ev h
    simp only [sendBatch, List.mem_cons] at h
    rcases h with h | h
    · subst h; exact nsSend_benign cfg hB i _ du t
    · exact ih _ ev h

theorem sendBatch_conns_other (cfg : Cfg) (du : Bool) (t : Nat) (is : List Nat) (conns : List Conn)
    (j : Nat) (hj : j ∉ is) : (sendBatch cfg du t is conns).2.1.getD j {} = conns.getD j {} := by
  induction is generalizing conns with
  | nil => simp [sendBatch]
  | cons i is ih =>
    simp only [List.mem_cons, not_or] at hj
    simp only [sendBatch]
    rw [ih _ hj.2]
    simp only [List.getD_eq_getElem?_getD]
    rw [List.getElem?_set_ne (Ne.symm hj.1)]

/-- a healthy server with a pristine connection state that is in the batch answers -/
theorem sendBatch_healthy (cfg : Cfg) (t : Nat) (is : List Nat) (conns : List Conn) (h : Nat)
    (hH : Healthy (server cfg h)) (hin : h ∈ is) (hc : ConnOK (server cfg h) (conns.getD h {})) :
    ∃ ev ∈ (sendBatch cfg false t is conns).1, ev.reply = some .ans := by
  induction is generalizing conns with
  | nil => simp at hin
  | cons i is ih =>
    simp only [sendBatch]
    by_cases hi : i = h
    · subst hi
      refine ⟨_, List.mem_cons_self, ?_⟩
      simp only
      exact nsSend_healthy _ hH _ hc t
    · simp only [List.mem_cons] at hin
      rcases hin with hin | hin
      · exact absurd hin.symm hi
      · have hc' : ConnOK (server cfg h)
            ((conns.set i (nsSend (server cfg i) (conns.getD i {}) false t).conn).getD h {}) := by
          simp only [List.getD_eq_getElem?_getD] at hc ⊢
          rw [List.getElem?_set_ne hi]
          exact hc
        obtain ⟨ev, hev, hr⟩ := ih _ hin hc'
        exact ⟨ev, List.mem_cons_of_mem _ hev, hr⟩

theorem processEvent_benign (cfg : Cfg) (st : PState) (ev : Event) (hb : BenignEv cfg ev) :
    (∃ i p, (processEvent cfg st ev).2 = some (.ans i p) ∧ ev.reply = some .ans) ∨
    ((processEvent cfg st ev).2 = none ∧ (processEvent cfg st ev).1.queue = st.queue ∧
      (processEvent cfg st ev).1.disableUdp = st.disableUdp ∧
      (processEvent cfg st ev).1.conns = st.conns ∧ ev.reply ≠ some .ans) := by
  rcases hb with hb | ⟨r, hr, hb⟩
  · right; simp [processEvent, hb]
  · cases r <;> simp_all [processEvent, benignReply]

/-- a batch of benign replies either ends the lookup with an ANSWER or leaves queue, protocol policy
and connection table as they were (and then nobody answered) -/
theorem processEvents_benign (cfg : Cfg) (dl : Nat) (evs : List Event) :
    ∀ (st : PState), (∀ ev ∈ evs, BenignEv cfg ev) → (∀ ev ∈ evs, ev.fin ≤ dl) →
      (∃ i p, (processEvents cfg dl st evs).2 = some (.ans i p)) ∨
      ((processEvents cfg dl st evs).2 = none ∧ (processEvents cfg dl st evs).1.queue = st.queue ∧
        (processEvents cfg dl st evs).1.disableUdp = st.disableUdp ∧
        (processEvents cfg dl st evs).1.conns = st.conns ∧ ∀ ev ∈ evs, ev.reply ≠ some .ans) := by
  induction evs with
  | nil => intro st _ _; right; simp [processEvents]
  | cons ev evs ih =>
    intro st hall hfin
    have h1 := processEvent_benign cfg { st with clock := ev.fin } ev (hall ev (by simp))
    have hnc : ¬ dl < ev.fin := by have := hfin ev (by simp); omega
    simp only [processEvents, hnc, if_false]
    rcases h1 with ⟨i, p, h1, _⟩ | ⟨h1, hq, hd, hc, hne⟩
    · left
      split
      · rename_i st' r heq; rw [heq] at h1; exact ⟨i, p, h1⟩
      · rename_i st' heq; rw [heq] at h1; simp at h1
    · split
      · rename_i st' r heq; rw [heq] at h1; simp at h1
      · rename_i st' heq
        rw [heq] at hq hd hc
        simp only at hq hd hc
        rcases ih st' (fun e he => hall e (by simp [he])) (fun e he => hfin e (by simp [he])) with h2 | ⟨h2, hq2, hd2, hc2, hne2⟩
        · left; exact h2
        · right
          refine ⟨h2, by rw [hq2, hq], by rw [hd2, hd], by rw [hc2, hc], ?_⟩
          intro e he
          simp only [List.mem_cons] at he
          rcases he with he | he
          · rw [he]; exact hne
          · exact hne2 e he

theorem takeBatch_ne_nil_acc (cfg : Cfg) (du : Bool) (n : Nat) (q acc : List Nat) (h : acc ≠ []) :
    (takeBatch cfg du n q acc).1 ≠ [] := by
  obtain ⟨r, hr⟩ := takeBatch_extends cfg du n q acc
  rw [hr]; simp [h]

theorem takeBatch_ne_nil (cfg : Cfg) (du : Bool) (n : Nat) (hn : 0 < n) (q : List Nat)
    (h : ∃ x ∈ q, allows cfg du x = true) : (takeBatch cfg du n q []).1 ≠ [] := by
  induction q with
  | nil => obtain ⟨x, hx, _⟩ := h; simp at hx
  | cons y ys ih =>
    simp only [takeBatch, List.length_nil, hn, if_true]
    obtain ⟨x, hx, hax⟩ := h
    by_cases hay : allows cfg du y = true
    · simp only [hay, if_true]
      exact takeBatch_ne_nil_acc cfg du n ys _ (by simp)
    · simp only [hay]
      simp only [List.mem_cons] at hx
      rcases hx with hx | hx
      · rw [hx] at hax; exact absurd hax hay
      · exact ih ⟨x, hx, hax⟩

theorem takeBatch_partition (cfg : Cfg) (du : Bool) (n : Nat) (q acc : List Nat) :
    ∀ x ∈ q, allows cfg du x = true →
      x ∈ (takeBatch cfg du n q acc).1 ∨ x ∈ (takeBatch cfg du n q acc).2 := by
  induction q generalizing acc with
  | nil => intro x hx; simp at hx
  | cons y ys ih =>
    intro x hx hax
    simp only [takeBatch]
    split
    · simp only [List.mem_cons] at hx
      split
      · rcases hx with hx | hx
        · left
          obtain ⟨r, hr⟩ := takeBatch_extends cfg du n ys (acc ++ [y])
          rw [hr, hx]; simp
        · exact ih _ x hx hax
      · rename_i hay
        rcases hx with hx | hx
        · rw [hx] at hax; exact absurd hax hay
        · exact ih _ x hx hax
    · right; exact hx

theorem takeBatch_lengths (cfg : Cfg) (du : Bool) (n : Nat) (q acc : List Nat) :
    (takeBatch cfg du n q acc).1.length + (takeBatch cfg du n q acc).2.length ≤ acc.length + q.length := by
  induction q generalizing acc with
  | nil => simp [takeBatch]
  | cons y ys ih =>
    simp only [takeBatch]
    split
    · split
      · have := ih (acc ++ [y]); simp at this ⊢; omega
      · have := ih acc; simp; omega
    · simp

/-! ## the invariant: the healthy server waits in the queue, untouched, and there is time to reach it -/

structure Inv (cfg : Cfg) (L h B : Nat) (st : PState) : Prop where
  du : st.disableUdp = false
  inq : h ∈ st.queue
  connOK : ConnOK (server cfg h) (st.conns.getD h {})
  time : st.clock + 2 * L * st.queue.length ≤ B

theorem healthy_allows (cfg : Cfg) (h : Nat) (hH : Healthy (server cfg h)) :
    allows cfg false h = true := by
  rcases hH.1 with hu | ht <;> simp [allows, *]

theorem round_healthy (cfg : Cfg) (L h B dl : Nat) (hL : LatLe cfg L) (hL1 : 1 ≤ L)
    (hB : Benign cfg) (hH : Healthy (server cfg h)) (hBdl : B ≤ dl) (st : PState)
    (inv : Inv cfg L h B st) :
    (∃ i p st', round cfg dl st = .done (.ans i p) st') ∨
    (∃ st', round cfg dl st = .next st' ∧ Inv cfg L h B st') := by
  have hallow := healthy_allows cfg h hH
  have hqpos : 0 < st.queue.length := List.length_pos_of_mem inv.inq
  have hclk : st.clock < dl := by
    have := inv.time
    have h2 : 2 * L * 1 ≤ 2 * L * st.queue.length := Nat.mul_le_mul_left _ hqpos
    omega
  have hne : batchOf cfg st ≠ [] := by
    unfold batchOf
    rw [inv.du]
    exact takeBatch_ne_nil cfg false _ (by omega) st.queue ⟨h, inv.inq, hallow⟩
  rw [round_batch cfg dl st hclk hne]
  have hben : ∀ ev ∈ sortEvents (eventsOf cfg st), BenignEv cfg ev := by
    intro ev hev
    exact sendBatch_benign cfg hB _ _ _ _ ev ((mem_sortEvents ev _).mp hev)
  have hfin : ∀ ev ∈ sortEvents (eventsOf cfg st), ev.fin ≤ dl := by
    intro ev hev
    have h1 := sendBatch_fin_le cfg L hL st.disableUdp st.clock _ st.conns ev ((mem_sortEvents ev _).mp hev)
    have h2 := inv.time
    have h3 : 2 * L * 1 ≤ 2 * L * st.queue.length := Nat.mul_le_mul_left _ hqpos
    omega
  rcases processEvents_benign cfg dl _ (afterSend cfg dl st) hben hfin with ⟨i, p, hr⟩ | ⟨hr, hq, hd, hc, hnone⟩
  · left
    split
    · rename_i st2 r heq
      rw [heq] at hr
      simp only [Option.some.injEq] at hr
      exact ⟨i, p, _, by rw [hr]⟩
    · rename_i st2 heq; rw [heq] at hr; simp at hr
  · right
    split
    · rename_i st2 r heq; rw [heq] at hr; simp at hr
    · rename_i st2 heq
      rw [heq] at hq hd hc
      simp only at hq hd hc
      refine ⟨st2, rfl, ?_⟩
      -- the healthy server was not in the batch (it would have answered)
      have hnotin : h ∉ batchOf cfg st := by
        intro hin
        have hdu : st.disableUdp = false := inv.du
        obtain ⟨ev, hev, hans⟩ := sendBatch_healthy cfg st.clock (batchOf cfg st) st.conns h hH hin inv.connOK
        have hev' : ev ∈ eventsOf cfg st := by unfold eventsOf; rw [hdu]; exact hev
        exact hnone ev ((mem_sortEvents ev _).mpr hev') hans
      have hpart := takeBatch_partition cfg st.disableUdp (max cfg.ncr 1) st.queue [] h inv.inq
        (by rw [inv.du]; exact hallow)
      have hrest : h ∈ (takeBatch cfg st.disableUdp (max cfg.ncr 1) st.queue []).2 := by
        rcases hpart with hp | hp
        · exact absurd hp hnotin
        · exact hp
      have hlen := takeBatch_lengths cfg st.disableUdp (max cfg.ncr 1) st.queue []
      have hb1 : 0 < (takeBatch cfg st.disableUdp (max cfg.ncr 1) st.queue []).1.length :=
        List.length_pos_iff.mpr hne
      -- clock after the batch
      have hev0 : sortEvents (eventsOf cfg st) ≠ [] :=
        sortEvents_ne_nil _ (sendBatch_ne_nil cfg st.disableUdp st.clock _ st.conns hne)
      have hrn : (processEvents cfg dl (afterSend cfg dl st) (sortEvents (eventsOf cfg st))).2 = none := by
        rw [heq]
      obtain ⟨ev, hev, hc0⟩ := processEvents_none_clock cfg dl _ (afterSend cfg dl st) hev0 hrn
      rw [heq] at hc0
      simp only at hc0
      have hclk2 : st2.clock ≤ st.clock + 2 * L := by
        have := sendBatch_fin_le cfg L hL st.disableUdp st.clock _ st.conns ev ((mem_sortEvents ev _).mp hev)
        omega
      constructor
      · rw [hd]; exact inv.du
      · rw [hq]; exact hrest
      · rw [hc]
        simp only [afterSend]
        rw [sendBatch_conns_other cfg _ _ _ _ h hnotin]
        exact inv.connOK
      · rw [hq]
        simp only [afterSend]
        have hl : (takeBatch cfg st.disableUdp (max cfg.ncr 1) st.queue []).2.length + 1 ≤ st.queue.length := by
          simp only [List.length_nil] at hlen; omega
        have hm : 2 * L * ((takeBatch cfg st.disableUdp (max cfg.ncr 1) st.queue []).2.length + 1)
            ≤ 2 * L * st.queue.length := Nat.mul_le_mul_left _ hl
        rw [Nat.mul_add, Nat.mul_one] at hm
        have := inv.time
        omega

theorem run_healthy (cfg : Cfg) (L h B dl : Nat) (hL : LatLe cfg L) (hL1 : 1 ≤ L)
    (hB : Benign cfg) (hH : Healthy (server cfg h)) (hBdl : B ≤ dl) (fuel : Nat) :
    ∀ (st : PState) (r : Res) (st' : PState), Inv cfg L h B st →
      run cfg dl fuel st = some (r, st') → ∃ i p, r = .ans i p := by
  induction fuel with
  | zero => intro st r st' _ hrun; simp [run] at hrun
  | succ n ih =>
    intro st r st' inv hrun
    simp only [run] at hrun
    rcases round_healthy cfg L h B dl hL hL1 hB hH hBdl st inv with ⟨i, p, st1, hr⟩ | ⟨st1, hr, inv1⟩
    · rw [hr] at hrun
      simp only [Option.some.injEq, Prod.mk.injEq] at hrun
      exact ⟨i, p, hrun.1.symm⟩
    · rw [hr] at hrun
      exact ih st1 r st' inv1 hrun

/-! ## the initial queue -/

theorem mem_insertByWarm (cfg : Cfg) (i x : Nat) (l : List Nat) :
    x ∈ insertByWarm cfg i l ↔ x = i ∨ x ∈ l := by
  induction l with
  | nil => simp [insertByWarm]
  | cons y ys ih =>
    simp only [insertByWarm]
    split
    · simp
    · simp only [List.mem_cons, ih]
      constructor
      · rintro (h | h | h) <;> simp [h]
      · rintro (h | h | h) <;> simp [h]

theorem length_insertByWarm (cfg : Cfg) (i : Nat) (l : List Nat) :
    (insertByWarm cfg i l).length = l.length + 1 := by
  induction l with
  | nil => simp [insertByWarm]
  | cons y ys ih => simp only [insertByWarm]; split <;> simp [ih]

theorem mem_sortByWarm (cfg : Cfg) (x : Nat) (l : List Nat) : x ∈ sortByWarm cfg l ↔ x ∈ l := by
  induction l with
  | nil => simp [sortByWarm]
  | cons y ys ih => simp [sortByWarm, mem_insertByWarm, ih]

theorem length_sortByWarm (cfg : Cfg) (l : List Nat) : (sortByWarm cfg l).length = l.length := by
  induction l with
  | nil => simp [sortByWarm]
  | cons y ys ih => simp [sortByWarm, length_insertByWarm, ih]

theorem mem_rotateLeft (l : List Nat) (k x : Nat) : x ∈ rotateLeft l k ↔ x ∈ l := by
  unfold rotateLeft
  rw [List.mem_append]
  constructor
  · rintro (h | h)
    · exact List.mem_of_mem_drop h
    · exact List.mem_of_mem_take h
  · intro h
    rw [← List.take_append_drop k l] at h
    simp only [List.mem_append] at h
    exact h.symm

theorem length_rotateLeft (l : List Nat) (k : Nat) : (rotateLeft l k).length = l.length := by
  simp [rotateLeft]; omega

/-- every strategy queues every configured server exactly once -/
theorem order_spec (cfg : Cfg) (rrNext : Nat) :
    (∀ h, h < cfg.servers.length → h ∈ order cfg rrNext) ∧
    (order cfg rrNext).length = cfg.servers.length := by
  unfold order
  cases cfg.strategy with
  | user => simp
  | qs => simp [mem_sortByWarm, length_sortByWarm]
  | rr =>
    simp only
    split <;> split <;> simp [mem_rotateLeft, length_rotateLeft]

/-! ## the theorem -/

/-- **a lookup returns the answer of a healthy server whenever one exists and the time budget
allows** — for every ordering strategy, batch size, position of the `next` counter, and every
behaviour of the OTHER servers that consists of transport faults (unreachable, reset, timeout, busy
back-pressure, also intermittent) and untrusted NXDOMAINs.  "The budget allows" is
`2·L·#servers ≤ timeout` (so that no wait is cut by the deadline), `L` bounding every single exchange; the pool may have any history (any script
positions, any open connections).  The statement is FALSE once a server may
answer truncated (`healthy_udp_only_skipped` below). -/
theorem answer_if_any_healthy (cfg : Cfg) (L h : Nat) (hL : LatLe cfg L) (hbud : BudgetAllows cfg L)
    (hB : Benign cfg) (hh : h < cfg.servers.length) (hH : Healthy (server cfg h))
    (conns : List Conn) (hconn : ConnOK (server cfg h) (conns.getD h {}))
    (rrNext t0 fuel : Nat) (r : Res) (st' : PState)
    (hrun : trySend cfg rrNext t0 conns fuel = some (r, st')) : ∃ i p, r = .ans i p := by
  unfold trySend at hrun
  refine run_healthy cfg L h (t0 + 2 * L * cfg.servers.length) _ hL hbud.1 hB hH
    (by have := hbud.2; omega) fuel _ r st' ?_ hrun
  have hord := order_spec cfg rrNext
  constructor
  · rfl
  · exact hord.1 h hh
  · exact hconn
  · simp only [initState]; rw [hord.2]; exact Nat.le_refl _

/-- … in particular on a fresh pool -/
theorem answer_if_any_healthy_fresh (cfg : Cfg) (L h : Nat) (hL : LatLe cfg L)
    (hbud : BudgetAllows cfg L) (hB : Benign cfg) (hh : h < cfg.servers.length)
    (hH : Healthy (server cfg h)) (rrNext t0 fuel : Nat) (r : Res) (st' : PState)
    (hrun : trySend cfg rrNext t0 [] fuel = some (r, st')) : ∃ i p, r = .ans i p :=
  answer_if_any_healthy cfg L h hL hbud hB hh hH [] (by simp [ConnOK]) rrNext t0 fuel r st' hrun

/-- non-vacuity: three servers — unreachable, busy-then-answer, healthy — round robin, batches of 2 -/
def cfgHealthy : Cfg :=
  ⟨[⟨true, 0, some [⟨.io, 30⟩], none⟩, ⟨false, 0, some [⟨.busy, 10⟩, ⟨.nx, 5⟩], some [⟨.to, 40⟩]⟩,
    ⟨true, 0, some [⟨.ans, 25⟩], some [⟨.ans, 35⟩]⟩], .rr, 2, 250⟩

example : LatLe cfgHealthy 40 := latLe_of_all _ _ (by decide) (by decide)
example : BudgetAllows cfgHealthy 40 := by unfold BudgetAllows; decide
example : Benign cfgHealthy := by unfold Benign; decide
example : Healthy (server cfgHealthy 2) := by
  refine ⟨Or.inl rfl, ⟨by decide, by decide⟩, ⟨by decide, by decide⟩⟩
example : (trySend cfgHealthy 2 0 [] 10).map (·.1) = some (.ans 2 .udp) := by decide

/-- finding C18-F2: server 0 (UDP+TCP) answers truncated over UDP and is unreachable over TCP; server 1
(UDP only) is healthy and the budget is ample — the lookup fails with the "truncated" error after
14 ms and server 1 is never asked (its only protocol was disabled by server 0's reply) -/
def cfgSkipped : Cfg :=
  ⟨[⟨true, 0, some [⟨.tc, 5⟩], some [⟨.io, 9⟩]⟩, ⟨true, 0, some [⟨.ans, 20⟩], none⟩], .user, 1, 3600000⟩

/-- class predicate of finding C18-F2 (decidable) -/
def healthyUdpOnlySkipped (cfg : Cfg) (fuel : Nat) : Bool :=
  match trySend cfg 0 0 [] fuel with
  | some (.err _, st) =>
    st.disableUdp && (List.range cfg.servers.length).any fun i =>
      (server cfg i).tcp.isNone && (server cfg i).udp == some [⟨.ans, ((server cfg i).udp.getD []).headD default |>.lat⟩] &&
        !(st.log.any fun e => e.1 == i)
  | _ => false

theorem healthy_udp_only_skipped :
    Healthy (server cfgSkipped 1) ∧ BudgetAllows cfgSkipped 20 ∧
    (trySend cfgSkipped 0 0 [] 10).map (fun x => (x.1, x.2.clock, x.2.log)) =
      some (.err .msg, 14, [(0, ⟨.udp, 0⟩), (0, ⟨.tcp, 5⟩)]) ∧
    healthyUdpOnlySkipped cfgSkipped 10 = true := by
  refine ⟨⟨Or.inl rfl, ⟨by decide, by decide⟩, trivial⟩, by unfold BudgetAllows; decide, by decide, by decide⟩

end HickoryVerif.C18
