/-
C04 (part 2) — no constructor or combinator yields a name above 255 octets or a label above 63.
-/
import HickoryVerif.Model.Name
import HickoryVerif.Model.NameText

namespace HickoryVerif.C04
open HickoryVerif HickoryVerif.Name

/-- The bound the property speaks about: wire length ≤ 255, every label 1..63 octets. -/
def Bounded (n : Name) : Prop :=
  n.encodedLen ≤ 255 ∧ ∀ l ∈ n.labels, 1 ≤ l.length ∧ l.length ≤ 63

instance (n : Name) : Decidable (Bounded n) := by unfold Bounded; exact inferInstance

theorem bounded_root : Bounded root := by decide
theorem bounded_new : Bounded new := by decide

theorem dataLen_append (ls : List Bytes) (l : Bytes) :
    ((ls ++ [l]).map List.length).sum = (ls.map List.length).sum + l.length := by
  simp [List.sum_append]

theorem encodedLen_snoc (n : Name) (l : Bytes) :
    ({ n with labels := n.labels ++ [l] } : Name).encodedLen = n.encodedLen + l.length + 1 := by
  simp only [encodedLen, dataLen, List.length_append, List.length_cons, List.length_nil,
    dataLen_append]
  omega

theorem extendName_ok {n n' : Name} {l : Bytes} (h : n.extendName l = .ok n') :
    n' = { n with labels := n.labels ++ [l] } ∧ n.encodedLen + l.length + 1 ≤ 255 := by
  unfold extendName at h
  simp only [MAX_LENGTH] at h
  by_cases hc : n.encodedLen + l.length + 1 > 255
  · simp [hc] at h
  · simp only [hc, ↓reduceIte, Outcome.ok.injEq] at h
    exact ⟨h.symm, by omega⟩

theorem extendName_bounded {n n' : Name} {l : Bytes} (hn : Bounded n)
    (hl : 1 ≤ l.length ∧ l.length ≤ 63) (h : n.extendName l = .ok n') : Bounded n' := by
  obtain ⟨rfl, hlen⟩ := extendName_ok h
  refine ⟨by rw [encodedLen_snoc]; exact hlen, ?_⟩
  intro x hx
  simp only [List.mem_append, List.mem_singleton] at hx
  rcases hx with hx | rfl
  · exact hn.2 x hx
  · exact hl

theorem extendName_fqdn {n n' : Name} {l : Bytes} (h : n.extendName l = .ok n') :
    n'.fqdn = n.fqdn := by
  obtain ⟨rfl, _⟩ := extendName_ok h; rfl

theorem labelFromRaw_ok {b l : Bytes} (h : labelFromRaw b = .ok l) :
    l = b ∧ 1 ≤ b.length ∧ b.length ≤ 63 := by
  unfold labelFromRaw at h
  split at h
  · cases h
  · split at h
    · cases h
    · cases h
      refine ⟨rfl, ?_, by omega⟩
      cases b with
      | nil => simp at *
      | cons _ _ => simp

theorem labelFromRaw_of_len {l : Bytes} (h : 1 ≤ l.length ∧ l.length ≤ 63) :
    labelFromRaw l = .ok l := by
  unfold labelFromRaw
  cases l with
  | nil => simp at h
  | cons a t =>
    have hc : ¬ ((a :: t).length > 63) := by omega
    simp only [List.isEmpty_cons, Bool.false_eq_true, ↓reduceIte, hc]

/-- `append_label` -/
theorem appendLabel_bounded {n n' : Name} {l : Bytes} (hn : Bounded n)
    (h : n.appendLabel l = .ok n') : Bounded n' := by
  unfold appendLabel at h
  cases hl : labelFromRaw l with
  | ok l' =>
    rw [hl] at h
    obtain ⟨rfl, h1, h2⟩ := labelFromRaw_ok hl
    exact extendName_bounded hn ⟨h1, h2⟩ h
  | err => rw [hl] at h; cases h
  | panic s => rw [hl] at h; cases h

theorem extendAll_bounded {n n' : Name} {ls : List Bytes} (hn : Bounded n)
    (hls : ∀ l ∈ ls, 1 ≤ l.length ∧ l.length ≤ 63) (h : n.extendAll ls = .ok n') :
    Bounded n' := by
  induction ls generalizing n with
  | nil => simp only [extendAll] at h; cases h; exact hn
  | cons l ls ih =>
    simp only [extendAll] at h
    cases hl : n.extendName l with
    | ok m =>
      rw [hl] at h
      exact ih (extendName_bounded hn (hls l (by simp)) hl)
        (fun x hx => hls x (by simp [hx])) h
    | err => rw [hl] at h; cases h
    | panic s => rw [hl] at h; cases h

theorem map_ok {α β} {f : α → β} {x : Outcome α} {b : β} (h : x.map f = .ok b) :
    ∃ a, x = .ok a ∧ f a = b := by
  cases x with
  | ok a => exact ⟨a, rfl, by simpa [Outcome.map] using h⟩
  | err => cases h
  | panic s => cases h

theorem bounded_setFqdn {n : Name} (hn : Bounded n) (f : Bool) :
    Bounded { n with fqdn := f } := hn

/-- `prepend_label` -/
theorem prependLabel_bounded {n n' : Name} {l : Bytes} (hn : Bounded n)
    (h : n.prependLabel l = .ok n') : Bounded n' := by
  unfold prependLabel at h
  cases hs : new.appendLabel l with
  | ok start =>
    rw [hs] at h
    obtain ⟨r, hr, rfl⟩ := map_ok h
    exact bounded_setFqdn (extendAll_bounded (appendLabel_bounded bounded_new hs) hn.2 hr) _
  | err => rw [hs] at h; cases h
  | panic s => rw [hs] at h; cases h

/-- `append_name` -/
theorem appendName_bounded {a b r : Name} (ha : Bounded a) (hb : Bounded b)
    (h : a.appendName b = .ok r) : Bounded r := by
  unfold appendName at h
  obtain ⟨x, hx, rfl⟩ := map_ok h
  exact bounded_setFqdn (extendAll_bounded ha hb.2 hx) _

/-- `append_domain` -/
theorem appendDomain_bounded {a b r : Name} (ha : Bounded a) (hb : Bounded b)
    (h : a.appendDomain b = .ok r) : Bounded r := by
  unfold appendDomain at h
  obtain ⟨x, hx, rfl⟩ := map_ok h
  exact bounded_setFqdn (appendName_bounded ha hb hx) _

theorem appendLabels_bounded {n n' : Name} {ls : List Bytes} (hn : Bounded n)
    (h : n.appendLabels ls = .ok n') : Bounded n' := by
  induction ls generalizing n with
  | nil => simp only [appendLabels] at h; cases h; exact hn
  | cons l ls ih =>
    simp only [appendLabels] at h
    cases hl : n.appendLabel l with
    | ok m => rw [hl] at h; exact ih (appendLabel_bounded hn hl) h
    | err => rw [hl] at h; cases h
    | panic s => rw [hl] at h; cases h

/-- `from_labels` -/
theorem fromLabels_bounded {ls : List Bytes} {n : Name} (h : fromLabels ls = .ok n) :
    Bounded n := by
  unfold fromLabels at h
  split at h
  · cases h
  · split at h
    · cases h
    · exact appendLabels_bounded bounded_root h

/-- `to_lowercase` -/
theorem toLowercase_bounded {n : Name} (hn : Bounded n) : Bounded n.toLowercase := by
  unfold Bounded toLowercase encodedLen dataLen at *
  simp only [List.length_map, List.map_map, List.mem_map, forall_exists_index, and_imp,
    forall_apply_eq_imp_iff₂] at *
  refine ⟨?_, fun l hl => by simpa [lowerLabel] using hn.2 l hl⟩
  have : (List.length ∘ lowerLabel) = List.length := by
    funext l; simp [lowerLabel]
  rw [this]; exact hn.1

/-- `into_wildcard` (the code skips the length check "as it should always be shorter"). -/
theorem intoWildcard_bounded {n : Name} (hn : Bounded n) : Bounded n.intoWildcard := by
  unfold intoWildcard
  cases hl : n.labels with
  | nil => exact bounded_root
  | cons l rest =>
    have h1 := hn.1
    have h2 := hn.2
    unfold encodedLen dataLen at h1
    rw [hl] at h1 h2
    have hl1 := (h2 l (by simp)).1
    refine ⟨?_, ?_⟩
    · simp only [encodedLen, dataLen, List.length_cons, List.map_cons, List.sum_cons,
        List.length_nil] at *
      omega
    · intro x hx
      simp only [List.mem_cons] at hx
      rcases hx with rfl | hx
      · simp
      · exact h2 x (by simp [hx])

/-! ### `trim_to` / `base_name` never hit their `unwrap` on a bounded name -/

theorem sum_drop_le (ls : List Bytes) (k : Nat) :
    ((ls.drop k).map List.length).sum ≤ (ls.map List.length).sum := by
  induction ls generalizing k with
  | nil => simp
  | cons l ls ih =>
    cases k with
    | zero => simp
    | succ k => simp only [List.drop_succ_cons, List.map_cons, List.sum_cons]; have := ih k; omega

theorem appendLabels_ok_of_fits (n : Name) (ls : List Bytes)
    (hls : ∀ l ∈ ls, 1 ≤ l.length ∧ l.length ≤ 63)
    (hfit : n.encodedLen + ls.length + (ls.map List.length).sum ≤ 255) :
    ∃ r, n.appendLabels ls = .ok r ∧ r.labels = n.labels ++ ls ∧ r.fqdn = n.fqdn := by
  induction ls generalizing n with
  | nil => exact ⟨n, rfl, by simp, rfl⟩
  | cons l ls ih =>
    have hl := hls l (by simp)
    simp only [List.length_cons, List.map_cons, List.sum_cons] at hfit
    have hraw : labelFromRaw l = .ok l := labelFromRaw_of_len hl
    have hext : n.extendName l = .ok { n with labels := n.labels ++ [l] } := by
      unfold extendName; simp only [MAX_LENGTH]
      have hc : ¬ (n.encodedLen + l.length + 1 > 255) := by omega
      simp [hc]
    obtain ⟨r, hr, hrl, hrf⟩ := ih { n with labels := n.labels ++ [l] }
      (fun x hx => hls x (by simp [hx])) (by rw [encodedLen_snoc]; omega)
    refine ⟨r, ?_, by simp [hrl], hrf⟩
    simp only [appendLabels, appendLabel, hraw, Outcome.bind_ok, hext]
    exact hr

/-- `trim_to` on a bounded name: never panics, result bounded. -/
theorem trimTo_bounded {n : Name} (hn : Bounded n) (k : Nat) :
    ∃ r, n.trimTo k = .ok r ∧ Bounded r := by
  unfold trimTo
  split
  · exact ⟨n, rfl, hn⟩
  · have hdrop : ∀ l ∈ n.labels.drop (n.labels.length - k), 1 ≤ l.length ∧ l.length ≤ 63 :=
      fun l hl => hn.2 l (List.mem_of_mem_drop hl)
    have hsum := sum_drop_le n.labels (n.labels.length - k)
    have hlen : (n.labels.drop (n.labels.length - k)).length ≤ n.labels.length := by
      simp
    have h1 := hn.1
    unfold encodedLen dataLen at h1
    obtain ⟨r, hr, _, _⟩ := appendLabels_ok_of_fits root _ hdrop (by
      show root.encodedLen + _ + _ ≤ 255
      have : root.encodedLen = 1 := rfl
      omega)
    have hfl : fromLabels (n.labels.drop (n.labels.length - k)) = .ok r := by
      unfold fromLabels
      have hany : (n.labels.drop (n.labels.length - k)).any
          (fun l => !(labelFromRaw l).isOk) = false := by
        rw [List.any_eq_false]
        intro l hl
        have := hdrop l hl
        have hraw : labelFromRaw l = .ok l := labelFromRaw_of_len this
        simp [hraw, Outcome.isOk]
      rw [hany]
      simp only [Bool.false_eq_true, ↓reduceIte]
      split
      · omega
      · exact hr
    rw [hfl]
    exact ⟨r, rfl, fromLabels_bounded hfl⟩

/-- `base_name` -/
theorem baseName_bounded {n : Name} (hn : Bounded n) :
    ∃ r, n.baseName = .ok r ∧ Bounded r := by
  unfold baseName
  split
  · exact trimTo_bounded hn _
  · exact ⟨n, rfl, hn⟩

/-! ### text: `from_ascii` -/

theorem labelFromAscii_ok {s l : Bytes} (h : labelFromAscii s = .ok l) :
    1 ≤ l.length ∧ l.length ≤ 63 := by
  unfold labelFromAscii at h
  split at h
  · cases h
  · split at h
    · cases h; simp
    · split at h
      · cases h
      · split at h
        · exact (labelFromRaw_ok h).1 ▸ (labelFromRaw_ok h).2
        · cases h

theorem bind_ok' {α β} {x : Outcome α} {f : α → Outcome β} {b : β} (h : x.bind f = .ok b) :
    ∃ a, x = .ok a ∧ f a = .ok b := by
  cases x with
  | ok a => exact ⟨a, rfl, h⟩
  | err => cases h
  | panic s => cases h

theorem parseLoop_bounded {s : List Nat} {st : PState} {label : Bytes} {n r : Name}
    {lab : Bytes} (hn : Bounded n) (h : parseLoop s st label n = .ok (r, lab)) : Bounded r := by
  induction s generalizing st label n with
  | nil => simp only [parseLoop] at h; cases h; exact hn
  | cons ch rest ih =>
    simp only [parseLoop] at h
    split at h
    · cases h
    · cases st with
      | label =>
        simp only at h
        split at h
        · split at h
          · rename_i name' heq
            obtain ⟨l, hl, hext⟩ := bind_ok' heq
            exact ih (extendName_bounded hn (labelFromAscii_ok hl) hext) h
          · cases h
          · cases h
        · split at h
          · exact ih hn h
          · split at h
            · exact ih hn h
            · cases h
      | esc1 =>
        simp only at h
        split at h
        · split at h
          · exact ih hn h
          · cases h
        · exact ih hn h
      | esc2 i =>
        simp only at h
        split at h
        · split at h
          · exact ih hn h
          · cases h
        · cases h
      | esc3 i ii =>
        simp only at h
        split at h
        · split at h
          · exact ih hn h
          · cases h
        · cases h

/-- `Name::from_ascii` -/
theorem parseAscii_bounded {s : Bytes} {n : Name} (h : parseAscii s = .ok n) : Bounded n := by
  unfold parseAscii at h
  split at h
  · cases h; exact bounded_root
  · split at h
    · rename_i name label heq
      have hb := parseLoop_bounded bounded_new heq
      split at h
      · obtain ⟨l, hl, hext⟩ := bind_ok' h
        exact extendName_bounded hb (labelFromAscii_ok hl) hext
      · split at h
        · cases h; exact hb
        · cases h; exact hb
    · cases h
    · cases h

/-- **All constructors/combinators of the property in one statement.** -/
theorem constructors_bounded :
    (∀ n l r, Bounded n → n.appendLabel l = .ok r → Bounded r) ∧
    (∀ n l r, Bounded n → n.prependLabel l = .ok r → Bounded r) ∧
    (∀ a b r, Bounded a → Bounded b → a.appendName b = .ok r → Bounded r) ∧
    (∀ a b r, Bounded a → Bounded b → a.appendDomain b = .ok r → Bounded r) ∧
    (∀ ls r, fromLabels ls = .ok r → Bounded r) ∧
    (∀ n, Bounded n → Bounded n.intoWildcard) ∧
    (∀ n, Bounded n → Bounded n.toLowercase) ∧
    (∀ n k, Bounded n → ∃ r, n.trimTo k = .ok r ∧ Bounded r) ∧
    (∀ n, Bounded n → ∃ r, n.baseName = .ok r ∧ Bounded r) ∧
    (∀ s r, parseAscii s = .ok r → Bounded r) :=
  ⟨fun _ _ _ hn h => appendLabel_bounded hn h, fun _ _ _ hn h => prependLabel_bounded hn h,
   fun _ _ _ ha hb h => appendName_bounded ha hb h, fun _ _ _ ha hb h => appendDomain_bounded ha hb h,
   fun _ _ h => fromLabels_bounded h, fun _ hn => intoWildcard_bounded hn,
   fun _ hn => toLowercase_bounded hn, fun _ k hn => trimTo_bounded hn k,
   fun _ hn => baseName_bounded hn, fun _ _ h => parseAscii_bounded h⟩

-- non-vacuity: a maximal name is bounded and appending to it is refused, not truncated
example : Bounded { labels := List.replicate 127 [97], fqdn := true } := by decide +kernel
example : ({ labels := List.replicate 127 [97], fqdn := true } : Name).appendLabel [97] = .err := by
  decide +kernel

end HickoryVerif.C04
