/-
C04 — Domain names: case-insensitive identity, canonical order, length limits.
Property theorems about `Model/Name.lean` (the model of name.rs / label.rs).
-/
import HickoryVerif.Model.Name
import HickoryVerif.Spec.CanonicalOrder

namespace HickoryVerif.C04
open HickoryVerif HickoryVerif.Name HickoryVerif.Spec Std

/-! ### helper lemmas: the hand-rolled loops are core's lexicographic comparison -/

theorem cmpLabel_eq_compareLex (ci : Bool) (l r : Bytes) :
    cmpLabel ci l r = List.compareLex (cmpU8 ci) l r := by
  induction l generalizing r with
  | nil => cases r <;> rfl
  | cons a l ih =>
    cases r with
    | nil => rfl
    | cons b r =>
      simp only [cmpLabel, List.compareLex]
      cases h : cmpU8 ci a b <;> simp [ih]

theorem cmpRev_eq_compareLex (ci : Bool) (l r : List Bytes) :
    cmpRev ci l r = List.compareLex (cmpLabel ci) l r := by
  induction l generalizing r with
  | nil => cases r <;> rfl
  | cons a l ih =>
    cases r with
    | nil => rfl
    | cons b r =>
      simp only [cmpRev, List.compareLex]
      cases h : cmpLabel ci a b <;> simp [ih]

theorem compareLex_map {α β} (f : α → β) (c : β → β → Ordering) (l r : List α) :
    List.compareLex (fun a b => c (f a) (f b)) l r = List.compareLex c (l.map f) (r.map f) := by
  induction l generalizing r with
  | nil => cases r <;> rfl
  | cons a l ih =>
    cases r with
    | nil => rfl
    | cons b r =>
      simp only [List.map, List.compareLex]
      cases h : c (f a) (f b) <;> simp [ih]

theorem cmpLabel_ci (l r : Bytes) :
    cmpLabel true l r = compare (lowerLabel l) (lowerLabel r) := by
  rw [cmpLabel_eq_compareLex]
  have : cmpU8 true = fun a b => compare (lowerByte a) (lowerByte b) := by
    funext a b; simp [cmpU8]
  rw [this, compareLex_map]; rfl

theorem cmpLabel_cs (l r : Bytes) : cmpLabel false l r = compare l r := by
  rw [cmpLabel_eq_compareLex]
  have : cmpU8 false = compare := by funext a b; simp [cmpU8]
  rw [this]; rfl

theorem cmpRev_ci (l r : List Bytes) :
    cmpRev true l r = compare (l.map lowerLabel) (r.map lowerLabel) := by
  rw [cmpRev_eq_compareLex]
  have : cmpLabel true = fun a b => compare (lowerLabel a) (lowerLabel b) := by
    funext a b; exact cmpLabel_ci a b
  rw [this, compareLex_map]; rfl

/-- The case-insensitive label comparison of the code is the RFC 4034 key comparison. -/
theorem cmpLabels_eq_canon (a b : Name) : cmpLabels true a b = canonCompare a b := by
  simp [cmpLabels, canonCompare, canonKey, cmpRev_ci]

/-- Sort key of the implementation's `Ord` on all names (relative names sort first). -/
def key (n : Name) : Bool × List Bytes := (n.fqdn, canonKey n)

/-- lexicographic comparison of keys (core's `compareLex` of the two projections). -/
def keyCmp : Bool × List Bytes → Bool × List Bytes → Ordering :=
  compareLex (compareOn Prod.fst) (compareOn Prod.snd)

instance : TransCmp keyCmp := by unfold keyCmp; exact inferInstance

theorem cmp_eq_compare_key (a b : Name) : Name.cmp a b = keyCmp (key a) (key b) := by
  unfold Name.cmp cmpWithF key keyCmp
  simp only [compareLex, compareOn, cmpLabels_eq_canon, canonCompare]
  cases a.fqdn <;> cases b.fqdn <;> simp [Ordering.then] <;> rfl

/-! ### order laws -/

theorem lower_map_reverse_inj {l r : List Bytes}
    (h : l.reverse.map lowerLabel = r.reverse.map lowerLabel) :
    l.map lowerLabel = r.map lowerLabel := by
  have := congrArg List.reverse h
  simpa [List.map_reverse] using this

theorem canonCompare_eq_iff (a b : Name) :
    canonCompare a b = .eq ↔ a.labels.map lowerLabel = b.labels.map lowerLabel := by
  unfold canonCompare canonKey
  rw [Std.LawfulEqOrd.compare_eq_iff_eq]
  constructor
  · exact lower_map_reverse_inj
  · intro h
    rw [List.map_reverse, List.map_reverse, h]

/-- **Equality ignores ASCII case and nothing else.** -/
theorem eq_iff (a b : Name) : Name.eq a b = true ↔ sameUpToCase a b := by
  unfold Name.eq sameUpToCase cmpWithF
  rcases a with ⟨al, af⟩; rcases b with ⟨bl, bf⟩
  cases af <;> cases bf <;> simp [cmpLabels_eq_canon, canonCompare_eq_iff]

theorem flatten_map_congr {l r : List Bytes} (h : l.map lowerLabel = r.map lowerLabel) :
    (l.map lowerLabel).flatten = (r.map lowerLabel).flatten := by rw [h]

/-- **Equal names feed identical bytes to the hasher.** -/
theorem eq_hash (a b : Name) (h : Name.eq a b = true) : hashInput a = hashInput b := by
  obtain ⟨hf, hl⟩ := (eq_iff a b).1 h
  simp [hashInput, hf, hl]

/-- `cmp a b = Equal` exactly when `a == b`: the order is consistent with equality. -/
theorem cmp_eq_iff (a b : Name) : Name.cmp a b = .eq ↔ Name.eq a b = true := by
  rw [eq_iff]
  unfold Name.cmp cmpWithF sameUpToCase
  rcases a with ⟨al, af⟩; rcases b with ⟨bl, bf⟩
  cases af <;> cases bf <;> simp [cmpLabels_eq_canon, canonCompare_eq_iff]

theorem cmp_refl (a : Name) : Name.cmp a a = .eq := by
  rw [cmp_eq_iff, eq_iff]; exact ⟨rfl, rfl⟩

/-- antisymmetry / totality: swapping the arguments swaps the result. -/
theorem cmp_swap (a b : Name) : Name.cmp a b = (Name.cmp b a).swap := by
  rw [cmp_eq_compare_key, cmp_eq_compare_key]
  exact OrientedCmp.eq_swap (cmp := keyCmp)

theorem cmp_total (a b : Name) :
    Name.cmp a b = .lt ∨ Name.cmp a b = .eq ∨ Name.cmp a b = .gt := by
  cases Name.cmp a b <;> simp

theorem cmp_antisymm (a b : Name) (h₁ : Name.cmp a b = .lt) : Name.cmp b a = .gt := by
  rw [cmp_swap b a, h₁]; rfl

/-- transitivity of `<`. -/
theorem cmp_trans (a b c : Name) (h₁ : Name.cmp a b = .lt) (h₂ : Name.cmp b c = .lt) :
    Name.cmp a c = .lt := by
  rw [cmp_eq_compare_key] at *
  exact TransCmp.lt_trans (cmp := keyCmp) h₁ h₂

/-- transitivity of `≤` (covers mixed `<`/`=` chains). -/
theorem cmp_le_trans (a b c : Name) (h₁ : (Name.cmp a b).isLE) (h₂ : (Name.cmp b c).isLE) :
    (Name.cmp a c).isLE := by
  rw [cmp_eq_compare_key] at *
  exact TransCmp.isLE_trans (cmp := keyCmp) h₁ h₂

/-- equal names are indistinguishable by the order (congruence). -/
theorem cmp_congr_left (a a' b : Name) (h : Name.eq a a' = true) :
    Name.cmp a b = Name.cmp a' b := by
  rw [← cmp_eq_iff, cmp_eq_compare_key] at h
  rw [cmp_eq_compare_key, cmp_eq_compare_key]
  exact TransCmp.congr_left (cmp := keyCmp) h

/-- **The order on absolute names is the RFC 4034 §6.1 canonical order.** -/
theorem cmp_is_canonical (a b : Name) (ha : a.fqdn = true) (hb : b.fqdn = true) :
    Name.cmp a b = canonCompare a b := by
  unfold Name.cmp cmpWithF
  simp [ha, hb, cmpLabels_eq_canon]

/-- and on relative names likewise (the flag only separates the two classes). -/
theorem cmp_is_canonical_rel (a b : Name) (h : a.fqdn = b.fqdn) :
    Name.cmp a b = canonCompare a b := by
  unfold Name.cmp cmpWithF
  rcases a with ⟨al, af⟩; rcases b with ⟨bl, bf⟩
  cases af <;> cases bf <;> simp_all [cmpLabels_eq_canon]

end HickoryVerif.C04
