/-
C18 — "a truncated UDP reply is retried over TCP", at the level of whole rounds.
-/
import HickoryVerif.Proofs.C18
import HickoryVerif.Proofs.C18Time

namespace HickoryVerif.C18
open HickoryVerif HickoryVerif.Pool

theorem takeBatch_extends (cfg : Cfg) (du : Bool) (n : Nat) (q acc : List Nat) :
    ∃ rest, (takeBatch cfg du n q acc).1 = acc ++ rest := by
  induction q generalizing acc with
  | nil => exact ⟨[], by simp [takeBatch]⟩
  | cons x xs ih =>
    simp only [takeBatch]
    split
    · split
      · obtain ⟨r, hr⟩ := ih (acc ++ [x]); exact ⟨x :: r, by simp [hr]⟩
      · exact ih acc
    · exact ⟨[], by simp⟩

theorem takeBatch_length (cfg : Cfg) (du : Bool) (n : Nat) (q acc : List Nat) :
    (takeBatch cfg du n q acc).1.length ≤ max n acc.length := by
  induction q generalizing acc with
  | nil => simp [takeBatch]; omega
  | cons x xs ih =>
    simp only [takeBatch]
    split
    · split
      · have := ih (acc ++ [x]); simp at this; omega
      · exact ih acc
    · simp; omega

/-- servers re-queued at the front — at most a batch of them — are all in the next batch if the policy
allows them -/
theorem takeBatch_prefix (cfg : Cfg) (du : Bool) (n : Nat) (rest : List Nat) :
    ∀ (pre acc : List Nat), acc.length + pre.length ≤ n →
      ∀ s ∈ pre, allows cfg du s = true → s ∈ (takeBatch cfg du n (pre ++ rest) acc).1 := by
  intro pre
  induction pre with
  | nil => intro acc _ s hs; simp at hs
  | cons x xs ih =>
    intro acc hlen s hs ha
    have hlt : acc.length < n := by simp at hlen; omega
    simp only [List.cons_append, takeBatch, hlt, if_true]
    simp only [List.mem_cons] at hs
    by_cases hax : allows cfg du x = true
    · simp only [hax, if_true]
      rcases hs with hs | hs
      · obtain ⟨r, hr⟩ := takeBatch_extends cfg du n (xs ++ rest) (acc ++ [x])
        rw [hr, hs]; simp
      · exact ih (acc ++ [x]) (by simp at hlen ⊢; omega) s hs ha
    · simp only [hax]
      rcases hs with hs | hs
      · rw [hs] at ha; exact absurd ha hax
      · exact ih acc (by simp at hlen; omega) s hs ha

theorem sendBatch_length (cfg : Cfg) (du : Bool) (t : Nat) (is : List Nat) (conns : List Conn) :
    (sendBatch cfg du t is conns).1.length = is.length := by
  induction is generalizing conns with
  | nil => simp [sendBatch]
  | cons i is ih => simp [sendBatch, ih]

theorem length_insertEv (e : Event) (l : List Event) : (insertEv e l).length = l.length + 1 := by
  induction l with
  | nil => simp [insertEv]
  | cons y ys ih => simp only [insertEv]; split <;> simp [ih]

theorem length_sortEvents (l : List Event) : (sortEvents l).length = l.length := by
  induction l with
  | nil => simp [sortEvents]
  | cons y ys ih => simp [sortEvents, length_insertEv, ih]

/-- the exchanges of a batch are logged: a batch member asked with UDP disabled and having TCP is
logged over TCP at the batch start -/
theorem sendBatch_logs_tcp (cfg : Cfg) (t : Nat) (is : List Nat) (conns : List Conn) (s : Nat)
    (hs : s ∈ is) (htcp : (server cfg s).tcp.isSome = true) :
    (s, (⟨.tcp, t⟩ : Xch)) ∈ (sendBatch cfg true t is conns).2.2 := by
  induction is generalizing conns with
  | nil => simp at hs
  | cons i is ih =>
    simp only [sendBatch, List.mem_append, List.mem_map]
    simp only [List.mem_cons] at hs
    rcases hs with hs | hs
    · left
      subst hs
      have h := (nsSend_tcp_when_udp_disabled (server cfg s) (conns.getD s {}) t htcp).2
      exact ⟨⟨.tcp, t⟩, List.mem_of_mem_head? h, rfl⟩
    · right; exact ih _ hs

theorem processEvent_log (cfg : Cfg) (st : PState) (ev : Event) :
    (processEvent cfg st ev).1.log = st.log := by
  unfold processEvent
  split <;> try simp
  split <;> simp

theorem processEvents_log (cfg : Cfg) (dl : Nat) (st : PState) (evs : List Event) :
    (processEvents cfg dl st evs).1.log = st.log := by
  induction evs generalizing st with
  | nil => simp [processEvents]
  | cons ev evs ih =>
    have h := processEvent_log cfg { st with clock := ev.fin } ev
    simp only [processEvents]
    split
    · rfl
    · split
      · rename_i st' r heq; rw [heq] at h; exact h
      · rename_i st' heq; rw [heq] at h; rw [ih st', h]

/-- what one reply does to the queue and to the protocol policy -/
theorem processEvent_queue (cfg : Cfg) (st : PState) (ev : Event) :
    ((processEvent cfg st ev).1.queue = st.queue ∨
      (processEvent cfg st ev).1.queue = ev.srv :: st.queue) ∧
    (st.disableUdp = true → (processEvent cfg st ev).1.disableUdp = true) ∧
    ((ev.reply = some .tc ∨ ev.reply = some .cm) →
      (processEvent cfg st ev).1.queue = ev.srv :: st.queue ∧
      (processEvent cfg st ev).1.disableUdp = true) := by
  unfold processEvent
  split <;> simp_all
  split <;> simp_all

/-- a batch that does not end the lookup: the re-queued servers sit at the front of the queue, at most
one per reply, every server that answered truncated (or with a case mismatch) is among them and UDP is
then disabled -/
theorem processEvents_queue (cfg : Cfg) (dl : Nat) (evs : List Event) :
    ∀ (st st' : PState), processEvents cfg dl st evs = (st', none) →
      ∃ pre, st'.queue = pre ++ st.queue ∧ pre.length ≤ evs.length ∧
        (st.disableUdp = true → st'.disableUdp = true) ∧
        (∀ ev ∈ evs, (ev.reply = some .tc ∨ ev.reply = some .cm) →
          ev.srv ∈ pre ∧ st'.disableUdp = true) := by
  induction evs with
  | nil =>
    intro st st' h
    simp only [processEvents, Prod.mk.injEq, and_true] at h
    subst h
    exact ⟨[], by simp, by simp, fun h => h, by simp⟩
  | cons ev evs ih =>
    intro st st' h
    simp only [processEvents] at h
    have hq := processEvent_queue cfg { st with clock := ev.fin } ev
    split at h
    · simp at h
    split at h
    · simp at h
    · rename_i st1 heq
      rw [heq] at hq
      simp only at hq
      obtain ⟨pre, hpre, hlen, hdu, htc⟩ := ih st1 st' h
      rcases hq.1 with hq1 | hq1
      · refine ⟨pre, by rw [hpre, hq1], by simp; omega, fun hd => hdu (hq.2.1 hd), ?_⟩
        intro e he hr
        simp only [List.mem_cons] at he
        rcases he with he | he
        · subst he
          have := (hq.2.2 hr).1
          rw [hq1] at this
          exact absurd this (by simp)
        · exact htc e he hr
      · refine ⟨pre ++ [ev.srv], by rw [hpre, hq1]; simp, by simp; omega, fun hd => hdu (hq.2.1 hd), ?_⟩
        intro e he hr
        simp only [List.mem_cons] at he
        rcases he with he | he
        · subst he
          exact ⟨by simp, hdu (hq.2.2 hr).2⟩
        · have := htc e he hr
          exact ⟨by simp [this.1], this.2⟩

/-- the batch a round would send from state `st` -/
def batchOf (cfg : Cfg) (st : PState) : List Nat :=
  (takeBatch cfg st.disableUdp (max cfg.ncr 1) st.queue []).1

/-- the outcomes (server, final reply, end time) of the requests of that batch -/
def eventsOf (cfg : Cfg) (st : PState) : List Event :=
  (sendBatch cfg st.disableUdp st.clock (batchOf cfg st) st.conns).1

/-- state in which the replies of the batch are handled -/
def afterSend (cfg : Cfg) (dl : Nat) (st : PState) : PState :=
  { st with
    queue := (takeBatch cfg st.disableUdp (max cfg.ncr 1) st.queue []).2
    conns := (sendBatch cfg st.disableUdp st.clock (batchOf cfg st) st.conns).2.1
    log := st.log ++ ((sendBatch cfg st.disableUdp st.clock (batchOf cfg st) st.conns).2.2).filter
      (fun e => e.2.start ≤ dl) }

theorem round_batch (cfg : Cfg) (dl : Nat) (st : PState) (h : st.clock < dl)
    (hne : batchOf cfg st ≠ []) :
    round cfg dl st =
      match processEvents cfg dl (afterSend cfg dl st) (sortEvents (eventsOf cfg st)) with
      | (st2, some r) =>
        .done r (cancelInFlight st2
          (unprocessed cfg dl (afterSend cfg dl st) (sortEvents (eventsOf cfg st))))
      | (st2, none) => .next st2 := by
  have h1 : ¬ st.clock ≥ dl := by omega
  have h2 : (takeBatch cfg st.disableUdp (max cfg.ncr 1) st.queue []).1.isEmpty = false := by
    cases hb : (takeBatch cfg st.disableUdp (max cfg.ncr 1) st.queue []).1 with
    | nil => exact absurd hb hne
    | cons x xs => rfl
  simp only [round, h1, if_false, h2, Bool.false_eq_true]
  rfl

theorem round_batch_log (cfg : Cfg) (dl : Nat) (st : PState) (h : st.clock < dl)
    (hne : batchOf cfg st ≠ []) :
    (round cfg dl st).state.log =
      st.log ++ ((sendBatch cfg st.disableUdp st.clock (batchOf cfg st) st.conns).2.2).filter
        (fun e => e.2.start ≤ dl) := by
  rw [round_batch cfg dl st h hne]
  have := processEvents_log cfg dl (afterSend cfg dl st) (sortEvents (eventsOf cfg st))
  split <;> (rename_i heq; rw [heq] at this; simpa [RoundOut.state, afterSend, cancelInFlight] using this)

/-- **truncated ⇒ TCP** (and case-randomisation mismatch ⇒ TCP).  If in some round the request to
server `s` ends with a truncated reply (or a reply whose query case does not match), `s`
has a TCP configuration, the round does not end the lookup and the deadline has not passed, then the
very next round asks `s` again, over TCP, at once — before any server that has not been asked yet. -/
theorem truncated_then_tcp (cfg : Cfg) (dl : Nat) (st st' : PState) (s : Nat)
    (hround : round cfg dl st = .next st')
    (hev : ∃ ev ∈ eventsOf cfg st, ev.srv = s ∧ (ev.reply = some .tc ∨ ev.reply = some .cm))
    (htcp : (server cfg s).tcp.isSome = true) (hdl : st'.clock < dl) :
    (s, (⟨.tcp, st'.clock⟩ : Xch)) ∈ (round cfg dl st').state.log := by
  obtain ⟨ev, hmem, hsrv, htc⟩ := hev
  have hne : batchOf cfg st ≠ [] := by
    intro hnil
    simp [eventsOf, hnil, sendBatch] at hmem
  have hclk : st.clock < dl := by
    by_cases hc : st.clock < dl
    · exact hc
    · have : st.clock ≥ dl := by omega
      simp [round, this] at hround
  rw [round_batch cfg dl st hclk hne] at hround
  split at hround
  · simp at hround
  · rename_i st2 heq
    simp only [RoundOut.next.injEq] at hround
    subst hround
    obtain ⟨pre, hq, hlen, _, htcs⟩ := processEvents_queue cfg dl _ _ _ heq
    have hs := htcs ev ((mem_sortEvents ev _).mpr hmem) htc
    rw [hsrv] at hs
    have hlen' : pre.length ≤ max cfg.ncr 1 := by
      rw [length_sortEvents] at hlen
      have h1 : (eventsOf cfg st).length = (batchOf cfg st).length := sendBatch_length _ _ _ _ _
      have h2 := takeBatch_length cfg st.disableUdp (max cfg.ncr 1) st.queue []
      simp only [List.length_nil] at h2
      unfold batchOf at h1
      omega
    have hallow : allows cfg true s = true := by simp [allows, htcp]
    have hin : s ∈ batchOf cfg st2 := by
      unfold batchOf
      rw [hs.2, hq]
      exact takeBatch_prefix cfg true _ _ pre [] (by simpa using hlen') s hs.1 hallow
    have hne2 : batchOf cfg st2 ≠ [] := fun hnil => by rw [hnil] at hin; simp at hin
    rw [round_batch_log cfg dl st2 hdl hne2, hs.2]
    refine List.mem_append_right _ (List.mem_filter.mpr ⟨sendBatch_logs_tcp cfg st2.clock _ st2.conns s hin htcp, ?_⟩)
    simp only [decide_eq_true_eq]
    omega

/-- non-vacuity: server 0 (UDP+TCP) answers truncated after 5 ms, server 1 has not been asked yet;
the next exchange is server 0 over TCP at 5 ms -/
example :
    (trySend ⟨[⟨true, 0, some [⟨.tc, 5⟩], some [⟨.ans, 9⟩]⟩, ⟨true, 0, some [⟨.ans, 2⟩], none⟩],
      .user, 1, 1000⟩ 0 0 [] 10).map (fun x => (x.1, x.2.clock, x.2.log)) =
    some (.ans 0 .tcp, 14, [(0, ⟨.udp, 0⟩), (0, ⟨.tcp, 5⟩)]) := by decide

end HickoryVerif.C18
