/-
C02 / C03 — the message level with EDNS (stage 2).

The OPT record that `emit_message_parts` appends after the additional section with its own
`emit_iter` (`Record::from(&Edns)`, `rcode_high` taken from the header's response code), with
options of all four kinds (`OptOK`): unknown codes (≠ 3, 5, 8), NSID, DAU and client-subnet — the
last two in the form the decoder produces (DAU: algorithms from, and in the order of,
`SupportedAlgorithms::iter`; subnet: family 1 / 2, address padded with zero octets behind the prefix
octets), because the decoder normalises them: `emits_optEntries` / `parseOpt_optBytes` (the option list),
`emits_optRecord` / `reads_optRecord` / `ednsFrom_optRecord` (`Edns::from(&Record)` inverts it),
`optSection_any` (written, or dropped and rolled back), `readRecords_optStep`, and

* `emitMessage_reads_edns` : for every message satisfying `MsgWFE` (as `MsgWF`, plus such an `Edns`
  and any 12-bit response code) and every size limit: what `Message::emit` writes is read back
  by the decoder model, to the last octet, as `truncatedW m w` — the sections cut to the records
  written, the OPT record present iff it was written, `TC = tc ∨ dropped` (the OPT record counts),
  the extended response code intact iff the OPT record is;
* `decode_encode_edns_partial`, `emitLimited_decodes_edns_partial` : the property theorems.
-/
import HickoryVerif.Proofs.C02Full
namespace HickoryVerif.C02
open HickoryVerif HickoryVerif.Name HickoryVerif.Wire HickoryVerif.C03

/-! ### EDNS: the OPT record appended after the additional section -/

/-- the octets of an option's value -/
def optValBytes : OptVal → Bytes
  | .unknown _ d => d
  | .nsid d => d
  | .dau algs => algs
  | .subnet family sp scope addr => u16b family ++ ([sp, scope] ++ addr.take (subnetAddrLen sp))

/-- the RDATA octets of an OPT record -/
def optBytes (os : List OptEntry) : Bytes :=
  (os.map fun o => u16b o.code ++ u16b (optValLen o.val) ++ optValBytes o.val).flatten

/-- a client-subnet option in the form the decoder produces: family 1 / 2, the address 4 / 16 octets
long, the source prefix within it, every octet behind the prefix octets zero -/
def SubnetOK (family sp scope : Nat) (addr : Bytes) : Prop :=
  (family = 1 ∨ family = 2) ∧ sp < 256 ∧ scope < 256 ∧
  addr.length = (if family = 1 then 4 else 16) ∧ subnetAddrLen sp ≤ addr.length ∧
  addr = addr.take (subnetAddrLen sp) ++ List.replicate (addr.length - subnetAddrLen sp) 0

/-- an option the proof covers: an unknown-code option, NSID, a DAU option listing algorithms in the
order (and from the set) `SupportedAlgorithms::iter` yields, a client-subnet option in decoded form -/
def OptOK (o : OptEntry) : Prop :=
  o.code < 65536 ∧ (optValBytes o.val).length < 65536 ∧
  ((∃ d, o.val = .unknown o.code d ∧ o.code ≠ 3 ∧ o.code ≠ 5 ∧ o.code ≠ 8) ∨
   (∃ d, o.val = .nsid d ∧ o.code = 3) ∨
   (∃ algs, o.val = .dau algs ∧ o.code = 5 ∧ dauAlgs algs = algs) ∨
   (∃ family sp scope addr, o.val = .subnet family sp scope addr ∧ o.code = 8 ∧ SubnetOK family sp scope addr))

theorem dauAlgs_mem {algs : List Nat} (h : dauAlgs algs = algs) : ∀ a ∈ algs, a < 256 := by
  intro a ha
  rw [← h] at ha
  simp only [dauAlgs, List.mem_filter, List.mem_cons, List.not_mem_nil, or_false] at ha
  omega

theorem parseSubnet_ok (family sp scope : Nat) (addr : Bytes) (h : SubnetOK family sp scope addr) :
    parseSubnet (optValBytes (.subnet family sp scope addr)) = .ok (.subnet family sp scope addr) := by
  obtain ⟨hf, hsp, hsc, hlen, hle, hz⟩ := h
  have hl : (addr.take (subnetAddrLen sp)).length = subnetAddrLen sp := by
    rw [List.length_take]; omega
  have hfam : family / 256 % 256 * 256 + family % 256 = family := by omega
  simp only [optValBytes, u16b, List.cons_append, List.nil_append, parseSubnet, hfam]
  rw [if_pos hf]
  have hw : (if family = 1 then 4 else 16) = addr.length := hlen.symm
  simp only [hw]
  have hsub : sp / 8 + (if sp % 8 > 0 then 1 else 0) = subnetAddrLen sp := rfl
  simp only [hsub, hl]
  rw [if_neg (by omega), if_neg (by omega)]
  rw [List.take_take, Nat.min_self]
  rw [← hz]

theorem mkOpt_ok (o : OptEntry) (h : OptOK o) : mkOpt o.code (optValBytes o.val) = .ok o := by
  obtain ⟨h1, h2, h3⟩ := h
  obtain ⟨code, val⟩ := o
  rcases h3 with ⟨d, hv, n3, n5, n8⟩ | ⟨d, hv, hc⟩ | ⟨algs, hv, hc, hd⟩ | ⟨family, sp, scope, addr, hv, hc, hs⟩
  · simp only at hv n3 n5 n8; subst hv
    simp [mkOpt, optValBytes, n3, n5, n8]
  · simp only at hv hc; subst hv; subst hc
    simp only [optValBytes] at h2
    simp [mkOpt, optValBytes]; omega
  · simp only at hv hc; subst hv; subst hc
    simp [mkOpt, optValBytes, hd]
  · simp only at hv hc; subst hv; subst hc
    simp only [mkOpt]
    rw [if_neg (by decide), if_pos trivial, parseSubnet_ok family sp scope addr hs]
    rfl

theorem optValLen_ok (o : OptEntry) (h : OptOK o) : optValLen o.val = (optValBytes o.val).length := by
  obtain ⟨h1, h2, h3⟩ := h
  rcases h3 with ⟨d, hv, _⟩ | ⟨d, hv, _⟩ | ⟨algs, hv, _, _⟩ | ⟨family, sp, scope, addr, hv, _, hs⟩
  · rw [hv] at h2 ⊢; simp only [optValBytes, optValLen] at h2 ⊢; omega
  · rw [hv] at h2 ⊢; simp only [optValBytes, optValLen] at h2 ⊢; omega
  · rw [hv] at h2 ⊢; simp only [optValBytes, optValLen] at h2 ⊢; omega
  · rw [hv]
    obtain ⟨_, _, _, _, hle, _⟩ := hs
    simp only [optValBytes, optValLen, u16b, List.length_append, List.length_cons, List.length_nil,
      List.length_take]
    omega

theorem parseOpt_optBytes (total : Nat) : ∀ (os : List OptEntry) (acc : List OptEntry),
    (∀ o ∈ os, OptOK o) → (∀ o ∈ os, (optValBytes o.val).length ≤ total) →
    (parseOpt total (optBytes os) acc).1 = .ok (acc.reverse ++ os)
  | [], acc, _, _ => by simp [optBytes, parseOpt]
  | o :: os, acc, hok, hlen => by
    have ho := hok o (by simp)
    have hl := hlen o (by simp)
    have hvl := optValLen_ok o ho
    have hc := ho.1
    have hd := ho.2.1
    have ih := parseOpt_optBytes total os (o :: acc) (fun x hx => hok x (by simp [hx]))
      (fun x hx => hlen x (by simp [hx]))
    have hb : optBytes (o :: os) = o.code / 256 % 256 :: o.code % 256 ::
        (optValBytes o.val).length / 256 % 256 :: (optValBytes o.val).length % 256 ::
        (optValBytes o.val ++ optBytes os) := by
      simp [optBytes, u16b, hvl]
    rw [hb, parseOpt]
    have e1 := u16_split o.code hc
    have e2 := u16_split (optValBytes o.val).length hd
    simp only [e1, e2]
    rw [if_neg (by omega)]
    by_cases hz : (optValBytes o.val).length = 0
    · have hnil : optValBytes o.val = [] := List.eq_nil_of_length_eq_zero hz
      have hm := mkOpt_ok o ho
      rw [hnil] at hm
      simp only [hm, hnil, List.nil_append, List.length_nil, ↓reduceIte]
      simpa [List.reverse_cons, List.append_assoc] using ih
    · simp only [hz, ↓reduceIte]
      have hlt : ¬ (optValBytes o.val ++ optBytes os).length < (optValBytes o.val).length := by simp
      simp only [hlt, ↓reduceDIte, List.take_left, List.drop_left, mkOpt_ok o ho]
      simpa [List.reverse_cons, List.append_assoc] using ih

theorem emits_u8s : ∀ (bs : List Nat), (∀ b ∈ bs, b < 256) →
    Emits (seqAll (bs.map fun a => fun e => e.emitU8 a)) (laySeg bs)
  | [], _ => by simpa [seqAll] using emits_nothing_seg
  | b :: bs, h => by
    have ih := emits_u8s bs (fun x hx => h x (by simp [hx]))
    have hb : b % 256 = b := Nat.mod_eq_of_lt (h b (by simp))
    have h1 := emits_emitU8 b
    rw [hb] at h1
    simpa [seqAll] using emits_seg_seq h1 ih

theorem emits_optVal (o : OptEntry) (h : OptOK o) : Emits (emitOptVal o.val) (laySeg (optValBytes o.val)) := by
  rcases h.2.2 with ⟨d, hv, _⟩ | ⟨d, hv, _⟩ | ⟨algs, hv, _, hd⟩ | ⟨family, sp, scope, addr, hv, _, hs⟩
  · rw [hv]; exact emits_emitSlice d
  · rw [hv]; exact emits_emitSlice d
  · rw [hv]; exact emits_u8s algs (dauAlgs_mem hd)
  · rw [hv]
    obtain ⟨_, hsp, hsc, _, hle, _⟩ := hs
    simp only [emitOptVal, optValBytes, seqAll, if_pos hle]
    have h1 := emits_emitU8 sp
    have h2 := emits_emitU8 scope
    rw [Nat.mod_eq_of_lt hsp] at h1
    rw [Nat.mod_eq_of_lt hsc] at h2
    have := emits_seg_seq (emits_emitU16 family) (emits_seg_seq h1 (emits_seg_seq h2
      (emits_seg_seq (emits_emitSlice (addr.take (subnetAddrLen sp))) emits_nothing_seg)))
    simpa [u16b] using this

theorem emits_optEntries : ∀ (os : List OptEntry), (∀ o ∈ os, OptOK o) →
    Emits (emitOptEntries os) (laySeg (optBytes os))
  | [], _ => by simpa [emitOptEntries, seqAll, optBytes] using emits_nothing_seg
  | o :: os, h => by
    have ho := h o (by simp)
    have ih := emits_optEntries os (fun x hx => h x (by simp [hx]))
    unfold emitOptEntries at ih ⊢
    simp only [List.map_cons, seqAll]
    have h1 := emits_seg_seq (emits_emitU16 o.code) (emits_seg_seq (emits_emitU16 (optValLen o.val))
      (emits_seg_seq (emits_optVal o ho) emits_nothing_seg))
    have := emits_seg_seq h1 ih
    have hb : optBytes (o :: os) = (u16b o.code ++ (u16b (optValLen o.val) ++ (optValBytes o.val ++ []))) ++
        (List.map (fun o => u16b o.code ++ u16b (optValLen o.val) ++ optValBytes o.val) os).flatten := by
      simp [optBytes, List.append_assoc]
    rw [hb]
    exact this

theorem modeKeeper_optVal (v : OptVal) : ModeKeeper (emitOptVal v) := by
  cases v with
  | dau algs =>
    refine modeKeeper_seqAll _ ?_
    intro f hf
    simp only [List.mem_map] at hf
    obtain ⟨a, _, rfl⟩ := hf
    exact modeKeeper_emitU8 a
  | subnet family sp scope addr =>
    refine modeKeeper_seqAll _ ?_
    intro g hg
    simp only [List.mem_cons, List.not_mem_nil, or_false] at hg
    rcases hg with rfl | rfl | rfl | rfl
    · exact modeKeeper_emitU16 _
    · exact modeKeeper_emitU8 _
    · exact modeKeeper_emitU8 _
    · by_cases hle : subnetAddrLen sp ≤ addr.length
      · simp only [hle, ↓reduceIte]; exact modeKeeper_emitSlice _
      · simp only [hle, ↓reduceIte]; intro e; exact ⟨rfl, rfl⟩
  | nsid d => exact modeKeeper_emitSlice d
  | unknown c d => exact modeKeeper_emitSlice d

theorem modeKeeper_optEntries (os : List OptEntry) (_h : ∀ o ∈ os, OptOK o) : ModeKeeper (emitOptEntries os) := by
  unfold emitOptEntries
  refine modeKeeper_seqAll _ ?_
  intro f hf
  simp only [List.mem_map] at hf
  obtain ⟨o, ho, rfl⟩ := hf
  refine modeKeeper_seqAll _ ?_
  intro g hg
  simp only [List.mem_cons, List.not_mem_nil, or_false] at hg
  rcases hg with rfl | rfl | rfl
  · exact modeKeeper_emitU16 _
  · exact modeKeeper_emitU16 _
  · exact modeKeeper_optVal _

theorem optBytes_len_le (os : List OptEntry) : ∀ o ∈ os, (optValBytes o.val).length ≤ (optBytes os).length := by
  induction os with
  | nil => intro o ho; cases ho
  | cons x xs ih =>
    intro o ho
    simp only [optBytes, List.map_cons, List.flatten_cons, List.length_append] at *
    rcases List.mem_cons.1 ho with rfl | ho
    · omega
    · have := ih o ho; omega

/-- an `Edns` the round-trip proof covers: options per `OptOK`, fields in range -/
structure EdnsWF (ed : Edns) : Prop where
  opts : ∀ o ∈ ed.options, OptOK o
  high : ed.rcodeHigh < 256
  version : ed.version < 256
  z : ed.z < 32768
  payload : ed.maxPayload < 65536
  payloadMin : 512 ≤ ed.maxPayload

/-- the layout of the OPT record -/
def layOpt (ed : Edns) : Lay :=
  laySeq (layName []) (laySeq (laySeg (u16b T_OPT)) (laySeq (laySeg (u16b (recordOfEdns ed).cls))
    (laySeq (laySeg (u32b (recordOfEdns ed).ttl)) (laySeq (layLen (laySeg (optBytes ed.options))) layEmpty))))

theorem isLayout_opt (ed : Edns) : IsLayout (layOpt ed) :=
  isLayout_seq (isLayout_name _) (isLayout_seq (isLayout_seg _) (isLayout_seq (isLayout_seg _)
    (isLayout_seq (isLayout_seg _) (isLayout_seq (isLayout_len (isLayout_seg _)) isLayout_empty))))

theorem root_wf : Name.root.WF := by decide

theorem emits_optRecord (ed : Edns) (hwf : EdnsWF ed) : Emits (emitRecord (recordOfEdns ed)) (layOpt ed) := by
  unfold emitRecord layOpt
  have hd : (recordOfEdns ed).rdata = .opt ed.options := rfl
  have hn : (recordOfEdns ed).name = Name.root := rfl
  have ht : (recordOfEdns ed).rtype = T_OPT := rfl
  rw [hd, hn, ht]
  refine emits_seqAll5 (isLayout_name _) (isLayout_seg _) (isLayout_seg _) (isLayout_seg _)
    (isLayout_len (isLayout_seg _)) (emits_emitName _ root_wf) (emits_emitU16 _) (emits_emitU16 _)
    (emits_emitU32 _) ?_
  simp only [RData.isUpdate, Bool.false_eq_true, ↓reduceIte]
  refine emits_lenPrefixed (isLayout_seg _) ?_
  unfold emitRData
  exact emits_withRdataBehavior (emits_optEntries _ hwf.opts) _

theorem modeKeeper_optRecord (ed : Edns) (hwf : EdnsWF ed) : ModeKeeper (emitRecord (recordOfEdns ed)) := by
  unfold emitRecord
  have hd : (recordOfEdns ed).rdata = .opt ed.options := rfl
  rw [hd]
  refine modeKeeper_seqAll _ ?_
  intro f hf
  simp only [List.mem_cons, List.not_mem_nil, or_false] at hf
  rcases hf with rfl | rfl | rfl | rfl | rfl
  · exact modeKeeper_emitName _
  · exact modeKeeper_emitU16 _
  · exact modeKeeper_emitU16 _
  · exact modeKeeper_emitU32 _
  · refine modeKeeper_lenPrefixed ?_
    simp only [RData.isUpdate, Bool.false_eq_true, ↓reduceIte]
    unfold emitRData
    exact modeKeeper_withRdataBehavior (modeKeeper_optEntries _ hwf.opts) _

/-- the OPT record as the decoder returns it (RDLENGTH 0 is read as `Update0`) -/
def optRecordRead (ed : Edns) : Record :=
  { name := { labels := [], fqdn := true }, rtype := T_OPT, cls := (recordOfEdns ed).cls,
    ttl := (recordOfEdns ed).ttl, rdata := if ed.options = [] then .update0 T_OPT else .opt ed.options }

theorem optTtl_lt (ed : Edns) (hwf : EdnsWF ed) : (recordOfEdns ed).ttl < 4294967296 := by
  have h1 := hwf.high; have h2 := hwf.version; have h3 := hwf.z
  simp only [recordOfEdns]
  split <;> omega

theorem reads_optRecord {H : Nat × Nat → Prop} {opq : Nat → Rd Bytes} {buf : Bytes} {p e : Nat} (ed : Edns)
    (hwf : EdnsWF ed) (hl : layOpt ed H buf p e) : Reads (readRecord opq) buf p (optRecordRead ed) e := by
  obtain ⟨m1, l1, m2, l2, m3, l3, m4, l4, m5, l5, l6⟩ := hl
  obtain ⟨rfl, _⟩ := l6
  obtain ⟨len, hlen, hseg, hbody, rfl⟩ := l5
  obtain ⟨hbseg, hbq⟩ := hbody
  have hcls16 : (recordOfEdns ed).cls < 65536 := by
    have := hwf.payload; simp only [recordOfEdns]; omega
  unfold readRecord
  have hname : Reads Rd.name buf p { labels := [], fqdn := true } m1 :=
    Reads.name l1 (by simp)
  refine Reads.bind hname ?_
  refine Reads.bind (reads_u16_of_seg l2 (by decide)) ?_
  have hcls : Reads (readClass { labels := [], fqdn := true } T_OPT) buf m2 (recordOfEdns ed).cls m3 := by
    unfold readClass
    simp only [↓reduceIte, Name.isRoot, List.isEmpty_nil, Bool.and_self, Bool.not_true, Bool.false_eq_true]
    refine Reads.bind (reads_u16_of_seg l3 hcls16) ?_
    refine Reads.pure' _ _ ?_
    simp only [recordOfEdns]; omega
  refine Reads.bind hcls ?_
  refine Reads.bind (reads_u32_of_seg l4 (optTtl_lt ed hwf)) ?_
  have hl16 : laySeg (u16b len) H buf m4 (m4 + 2) := ⟨hseg, rfl⟩
  refine Reads.bind (reads_u16_of_seg hl16 (by omega)) ?_
  refine Reads.bind (Reads.remaining buf (m4 + 2)) ?_
  have hlenb : len = (optBytes ed.options).length := by omega
  have hin := hbseg.1
  by_cases hos : ed.options = []
  · have hl0 : len = 0 := by rw [hlenb, hos]; rfl
    subst hl0
    rw [if_neg (by omega), if_pos rfl]
    simp only [Nat.add_zero]
    refine Reads.pure' _ _ ?_
    simp [optRecordRead, hos]
  · have hpos : 0 < len := by
      rw [hlenb]
      cases hoo : ed.options with
      | nil => exact absurd hoo hos
      | cons x xs => simp [optBytes, u16b]
    rw [if_neg (by omega), if_neg (by omega)]
    -- the clamped decoder
    have hseg' : SegAt (buf.take (m4 + 2 + len)) (m4 + 2) (optBytes ed.options) :=
      segAt_congr hbseg (by simp only [List.length_take]; omega)
        (fun i _ hi2 => by rw [List.getElem?_take, if_pos (by omega)])
    have hend : (buf.take (m4 + 2 + len)).length = m4 + 2 + len := by
      simp only [List.length_take]; omega
    have hbodyR : Reads (readRDataBody opq T_OPT) (buf.take (m4 + 2 + len)) (m4 + 2) (.opt ed.options)
        (buf.take (m4 + 2 + len)).length := by
      simp only [readRDataBody, T_OPT, Nat.reduceEqDiff, ↓reduceIte, or_self]
      refine Reads.bind (Reads.remaining _ _) ?_
      refine Reads.bind (Reads.toEnd (a := ed.options) ?_) ?_
      · rw [drop_of_segAt_end hseg' (by rw [hend]; omega)]
        have := parseOpt_optBytes ((buf.take (m4 + 2 + len)).length - (m4 + 2)) ed.options [] hwf.opts
          (by intro o ho; have := optBytes_len_le ed.options o ho; rw [hend]; omega)
        simpa using this
      · exact Reads.pure _ _ _
    have hrd := reads_readRData (opq := opq) (t := T_OPT) (by decide) (by rw [hend]; omega) hbodyR
    refine Reads.bind (Reads.splitOff (by omega) hrd) ?_
    refine Reads.pure' _ _ ?_
    simp [optRecordRead, hos]

/-- `Edns::from(&Record)` inverts `Record::from(&Edns)` -/
theorem ednsFrom_optRecord (ed : Edns) (hwf : EdnsWF ed) : ednsFrom (optRecordRead ed) = .ok ed := by
  have h1 := hwf.high; have h2 := hwf.version; have h3 := hwf.z; have h4 := hwf.payload
  have h5 := hwf.payloadMin
  obtain ⟨rh, ver, dok, z, mp, os⟩ := ed
  simp only at h1 h2 h3 h4 h5
  by_cases hos : os = []
  · subst hos
    simp only [ednsFrom, optRecordRead, recordOfEdns, T_OPT, ne_eq, not_true_eq_false, ↓reduceIte]
    cases dok <;> simp <;> omega
  · simp only [ednsFrom, optRecordRead, recordOfEdns, T_OPT, ne_eq, not_true_eq_false, ↓reduceIte, hos]
    cases dok <;> simp <;> omega

/-- one iteration of `read_records` on a record's layout, whatever follows -/
theorem readRecords_step {H : Nat × Nat → Prop} {opq : Nat → Rd Bytes} {buf : Bytes} {isAdd : Bool} {op : Nat}
    (r : Record) (hwf : SectionOK op r isAdd) {p m e : Nat} (l1 : layRecord r H buf p m)
    (acc : List Record) (edns : Option Edns) (count : Nat) (v : RecAcc)
    (hrest : Reads (readRecords opq isAdd op count (acc ++ [r.fq], edns, none)) buf m v e) :
    Reads (readRecords opq isAdd op (count + 1) (acc, edns, none)) buf p v e := by
  obtain ⟨hr, hs, hts, hup⟩ := hwf
  simp only [readRecords]
  refine Reads.bind (fun t => ⟨t + 1, rfl⟩ : Reads (Rd.tick) buf p () p) ?_
  refine Reads.bind (reads_record r hr l1) ?_
  have ht : r.fq.rtype = r.rtype := rfl
  rw [fq_isUpdate, ht]
  by_cases hu : r.rdata.isUpdate = true
  · have hop := hup hu
    rw [if_neg (by intro hc; exact hc.1 hop)]
    simp only [Option.isSome_none, Bool.false_eq_true, ↓reduceIte]
    rw [if_neg (by
      intro hc
      have hf : isAdd = false := by simpa using hc.1
      rcases hc.2 with h1 | h1 | h1
      · exact hr.rtype.2 h1
      · exact (hs hf).1 h1
      · exact (hs hf).2 h1)]
    cases isAdd with
    | false => simpa using hrest
    | true =>
      simp only [Bool.not_true, Bool.false_eq_true, ↓reduceIte]
      have hd : r.fq.rdata = .update0 r.rtype := by
        rcases hr.data with h1 | h1
        · simp [Record.fq, h1, RData.fq]
        · exfalso
          cases hdd : r.rdata <;> rw [hdd] at hu h1 <;> simp [RData.isUpdate, RData.proved] at hu h1
      rw [hd]
      simp only
      rw [if_neg hr.rtype.2]
      exact hrest
  · rw [if_neg (by intro hc; exact hu hc.2.2)]
    simp only [Option.isSome_none, Bool.false_eq_true, ↓reduceIte]
    rw [if_neg (by
      intro hc
      have hf : isAdd = false := by simpa using hc.1
      rcases hc.2 with h1 | h1 | h1
      · exact hr.rtype.2 h1
      · exact (hs hf).1 h1
      · exact (hs hf).2 h1)]
    cases isAdd with
    | false => simpa using hrest
    | true =>
      simp only [Bool.not_true, Bool.false_eq_true, ↓reduceIte]
      have hpv : r.rdata.proved = true ∧ r.rdata.typeOK r.rtype := by
        rcases hr.data with h1 | h1
        · exfalso; rw [h1] at hu; simp [RData.isUpdate] at hu
        · exact ⟨h1.1, h1.2.1⟩
      obtain ⟨hpv, hty⟩ := hpv
      cases hdd : r.rdata <;> rw [hdd] at hpv hty <;> simp [RData.proved] at hpv <;>
        first
        | (exfalso; exact hu (hts rfl hty.1))
        | (simp only [Record.fq, hdd, RData.fq]; simp only [Record.fq, hdd, RData.fq] at hrest; exact hrest)

/-- the record loop over a list of records' layouts, followed by whatever the remaining count reads -/
theorem reads_records_then {H : Nat × Nat → Prop} {opq : Nat → Rd Bytes} {buf : Bytes} (isAdd : Bool) (op : Nat) :
    ∀ (rs : List Record) (k : Nat) (acc : List Record) (edns : Option Edns) (p mid e : Nat) (v : RecAcc),
    (∀ r ∈ rs, SectionOK op r isAdd) → layAll (rs.map layRecord) H buf p mid →
    Reads (readRecords opq isAdd op k (acc ++ rs.map Record.fq, edns, none)) buf mid v e →
    Reads (readRecords opq isAdd op (rs.length + k) (acc, edns, none)) buf p v e
  | [], k, acc, edns, p, mid, e, v, _, h, hrest => by
    obtain ⟨rfl, _⟩ := h
    simpa using hrest
  | r :: rs, k, acc, edns, p, mid, e, v, hwf, h, hrest => by
    obtain ⟨m, l1, l2⟩ := h
    have hlen : (r :: rs).length + k = (rs.length + k) + 1 := by simp only [List.length_cons]; omega
    rw [hlen]
    refine readRecords_step r (hwf r (by simp)) l1 acc edns (rs.length + k) v ?_
    refine reads_records_then isAdd op rs k (acc ++ [r.fq]) edns m mid e v (fun x hx => hwf x (by simp [hx])) l2 ?_
    simpa [List.append_assoc] using hrest

/-- the OPT record met in the additional section: it becomes the message's `Edns` -/
theorem readRecords_optStep {H : Nat × Nat → Prop} {opq : Nat → Rd Bytes} {buf : Bytes} {op : Nat} (ed : Edns)
    (hwf : EdnsWF ed) {p e : Nat} (l : layOpt ed H buf p e) (acc : List Record) :
    Reads (readRecords opq true op 1 (acc, none, none)) buf p (acc, some ed, none) e := by
  simp only [readRecords]
  refine Reads.bind (fun t => ⟨t + 1, rfl⟩ : Reads (Rd.tick) buf p () p) ?_
  refine Reads.bind (reads_optRecord ed hwf l) ?_
  have ht : (optRecordRead ed).rtype = T_OPT := rfl
  rw [if_neg (by intro hc; exact hc.2.1 ht)]
  simp only [Option.isSome_none, Bool.false_eq_true, ↓reduceIte, Bool.not_true, false_and]
  have hlift : Reads (Rd.lift (ednsFrom (optRecordRead ed))) buf e ed e :=
    fun t => ⟨t, by simp only [Rd.lift, ednsFrom_optRecord ed hwf]⟩
  by_cases hos : ed.options = []
  · have hd : (optRecordRead ed).rdata = .update0 T_OPT := by simp [optRecordRead, hos]
    rw [hd]
    simp only [↓reduceIte]
    refine Reads.bind hlift ?_
    exact Reads.pure _ _ _
  · have hd : (optRecordRead ed).rdata = .opt ed.options := by simp [optRecordRead, hos]
    rw [hd]
    simp only
    refine Reads.bind hlift ?_
    exact Reads.pure _ _ _

/-- `MsgWF` with EDNS allowed: an `Edns` (options per `OptOK`) whose `rcode_high` mirrors the header's response
code (which may then be an extended one) -/
structure MsgWFE (m : Message) : Prop where
  id : m.md.id < 65536
  op : m.md.op < 16
  rcode : m.md.rcode < 4096
  qs : ∀ q ∈ m.queries, q.name.WF ∧ q.qtype < 65536 ∧ q.qclass < 65536
  an : ∀ r ∈ m.answers, SectionOK m.md.op r
  ns : ∀ r ∈ m.authorities, SectionOK m.md.op r
  ar : ∀ r ∈ m.additionals, SectionOK m.md.op r true
  edns : ∀ ed, m.edns = some ed → EdnsWF ed ∧ ed.rcodeHigh = rcodeHigh m.md.rcode
  sig : m.signature = none

/-- what was written of the record sections, and whether the OPT record was -/
structure Written where
  an : Nat
  ns : Nat
  ar : Nat
  edns : Bool

/-- the message cut down to what was written: sections truncated, `TC := tc ∨ dropped`, and — when the
OPT record was dropped — no EDNS and only the low four bits of the response code -/
def truncatedW (m : Message) (w : Written) : Message :=
  { m with
    md := { m.md with
      tc := (m.md.tc || short w.an m.answers.length || short w.ns m.authorities.length ||
        short w.ar m.additionals.length || (m.edns.isSome && !w.edns)),
      rcode := if w.edns then m.md.rcode else m.md.rcode % 16 },
    answers := m.answers.take w.an, authorities := m.authorities.take w.ns,
    additionals := m.additionals.take w.ar,
    edns := if w.edns then m.edns else none }

/-- the OPT record's own `emit_iter`, in either outcome -/
theorem optSection_any {H : Nat × Nat → Prop} (ed : Edns) (hwf : EdnsWF ed) {e e' : Enc} {acc r : Nat × Bool}
    (happ : e.offset = e.buf.length) (hinv : PtrInvH H e) (hH : ∀ a b, e.offset ≤ a → H (a, b))
    (hnl : NoLower e) (h : emitExtra (some (recordOfEdns ed)) acc e = .ok r e') :
    ∃ kept : Bool, r.1 = acc.1 + (if kept then 1 else 0) ∧ r.2 = (acc.2 || !kept) ∧ r.1 ≤ 65535 ∧
      EmitsPost H (if kept then laySeq (layOpt ed) layEmpty else layEmpty) e e' := by
  have hmodelled : (recordOfEdns ed).rdata.emitModelled = true := rfl
  have hall := emitIterFrom_layout_any (fun d : Edns => emitRecord (recordOfEdns d)) layOpt [ed] H e 0
    (by intro x hx; simp only [List.mem_singleton] at hx; subst hx; exact emits_optRecord x hwf)
    (by intro x _; exact isLayout_opt x)
    (by intro x hx; simp only [List.mem_singleton] at hx; subst hx; exact appender_emitRecord _ hmodelled)
    (by intro x hx; simp only [List.mem_singleton] at hx; subst hx; exact modeKeeper_optRecord x hwf)
    happ hinv hH hnl
  simp only [emitExtra, Enc.emitIter] at h
  simp only [List.map_cons, List.map_nil] at hall
  cases hr : Enc.emitIterFrom e [emitRecord (recordOfEdns ed)] 0 with
  | ok c e1 =>
    rw [hr] at h hall
    simp only [countWasTruncated] at h
    obtain ⟨hp, hc⟩ := hall
    simp only [List.length_cons, List.length_nil, Nat.zero_add] at hc
    subst hc
    simp only [Nat.reduceLT, ↓reduceIte, gt_iff_lt] at h
    split at h
    · simp at h
    · rename_i hov
      simp only [ERes.ok.injEq] at h
      obtain ⟨rfl, rfl⟩ := h
      exact ⟨true, rfl, by simp, by simp only; omega, by simpa [layAll] using hp⟩
  | err k e1 =>
    rw [hr] at h hall
    cases k with
    | notAllWritten c =>
      obtain ⟨j, hj1, hj2, hj3⟩ := hall
      simp only [List.length_cons, List.length_nil, Nat.zero_add, Nat.lt_one_iff] at hj1 hj2
      subst hj1
      subst hj2
      simp only [countWasTruncated] at h
      simp only [gt_iff_lt, Nat.not_lt_zero, ↓reduceIte] at h
      split at h
      · simp at h
      · rename_i hov
        simp only [ERes.ok.injEq] at h
        obtain ⟨rfl, rfl⟩ := h
        exact ⟨false, by simp, by simp, by simp only; omega, by simpa [layAll] using hj3⟩
    | maxSize => simp [countWasTruncated] at h
    | other => simp [countWasTruncated] at h
  | panic s => rw [hr] at h; simp [countWasTruncated] at h

theorem emitMessage_reads_edns (opq : Nat → Rd Bytes) (m : Message) (ed : Edns) (hwf : MsgWFE m)
    (hed : m.edns = some ed) (L : Nat) (md' : Metadata) (c : Counts) (e' : Enc)
    (h : emitMessage m ((Enc.new []).setMaxSize L) = .ok (md', c) e') :
    ∃ w : Written, w.an ≤ m.answers.length ∧ w.ns ≤ m.authorities.length ∧ w.ar ≤ m.additionals.length ∧
      c.an = w.an ∧ c.ns = w.ns ∧ c.ar = w.ar + (if w.edns then 1 else 0) ∧
      Rd.run (readMessage opq) e'.buf 0 = .ok ((truncatedW m w).fq, e'.buf.length) := by
  obtain ⟨hedwf, hedhigh⟩ := hwf.edns ed hed
  have hed' : ({ ed with rcodeHigh := rcodeHigh m.md.rcode } : Edns) = ed := by
    rw [← hedhigh]
  unfold emitMessage emitMessageParts at h
  generalize hE0 : (Enc.new []).setMaxSize L = e0 at h
  have happ0 : e0.offset = e0.buf.length := by rw [← hE0]; rfl
  have hbuf0 : e0.buf = [] := by rw [← hE0]; rfl
  have hoff0 : e0.offset = 0 := by rw [← hE0]; rfl
  have hptr0 : e0.ptrs = [] := by rw [← hE0]; rfl
  have hnl0 : NoLower e0 := by rw [← hE0]; exact ⟨rfl, by simp [Enc.new, Enc.withOffset, Enc.setMaxSize]⟩
  rw [place_app _ _ happ0] at h
  by_cases hfit : e0.maxSize < e0.offset + 12
  · simp [hfit] at h
  simp only [hfit, ↓reduceIte] at h
  generalize hE1 : ({ e0 with buf := e0.buf ++ List.replicate 12 0, offset := e0.offset + 12 } : Enc) = e1 at h
  have happ1 : e1.offset = e1.buf.length := by rw [← hE1, hbuf0, hoff0]; simp
  have hoff1 : e1.offset = 12 := by rw [← hE1, hoff0]
  have hinv1 : PtrInvH H12 e1 := by
    intro p hp; rw [← hE1] at hp; simp only [hptr0] at hp; cases hp
  have hH1 : ∀ a b, e1.offset ≤ a → H12 (a, b) := by intro a b hab; show 12 ≤ a; omega
  have hnl1 : NoLower e1 := by rw [← hE1]; exact hnl0
  have hmax1 : e1.maxSize = e0.maxSize := by rw [← hE1]
  cases hqr : e1.emitIter (m.queries.map emitQuery) with
  | panic s => rw [hqr] at h; simp at h
  | err k e2 => rw [hqr] at h; simp at h
  | ok qc e2 =>
    rw [hqr] at h
    simp only at h
    have P2 := emitIterFrom_layout emitQuery layQuery m.queries H12 e1 e2 0 qc
      (fun q hq => emits_emitQuery q (hwf.qs q hq).1) (fun q _ => isLayout_query q) happ1 hinv1 hH1 hnl1 hqr
    have hqc : qc = m.queries.length := by
      have := emitIterFrom_ok_count _ e1 0 qc e2 hqr; simpa using this
    have hnl2 : NoLower e2 := ⟨by rw [P2.canon]; exact hnl1.1, by rw [P2.ne]; exact hnl1.2⟩
    have hH2 : ∀ a b, e2.offset ≤ a → H12 (a, b) := by
      intro a b hab; show 12 ≤ a; have := P2.le; omega
    cases han : countWasTruncated (e2.emitIter (m.answers.map emitRecord)) with
    | panic s => rw [han] at h; simp at h
    | err k e3 => rw [han] at h; simp at h
    | ok r3 e3 =>
      rw [han] at h
      obtain ⟨anC, anT⟩ := r3
      simp only at h
      obtain ⟨hanle, han16, hanT, P3⟩ := section_any hwf.an P2.app P2.inv hH2 hnl2 han
      have hnl3 : NoLower e3 := ⟨by rw [P3.canon]; exact hnl2.1, by rw [P3.ne]; exact hnl2.2⟩
      have hH3 : ∀ a b, e3.offset ≤ a → H12 (a, b) := by
        intro a b hab; show 12 ≤ a; have := P2.le; have := P3.le; omega
      cases hns : countWasTruncated (e3.emitIter (m.authorities.map emitRecord)) with
      | panic s => rw [hns] at h; simp at h
      | err k e4 => rw [hns] at h; simp at h
      | ok r4 e4 =>
        rw [hns] at h
        obtain ⟨nsC, nsT⟩ := r4
        simp only at h
        obtain ⟨hnsle, hns16, hnsT, P4⟩ := section_any hwf.ns P3.app P3.inv hH3 hnl3 hns
        have hnl4 : NoLower e4 := ⟨by rw [P4.canon]; exact hnl3.1, by rw [P4.ne]; exact hnl3.2⟩
        have hH4 : ∀ a b, e4.offset ≤ a → H12 (a, b) := by
          intro a b hab; show 12 ≤ a; have := P2.le; have := P3.le; have := P4.le; omega
        cases har : countWasTruncated (e4.emitIter (m.additionals.map emitRecord)) with
        | panic s => rw [har] at h; simp at h
        | err k e5 => rw [har] at h; simp at h
        | ok r5 e5 =>
          rw [har] at h
          obtain ⟨arC, arT⟩ := r5
          obtain ⟨harle, har16, harT, P5⟩ := section_any hwf.ar P4.app P4.inv hH4 hnl4 har
          have hnl5 : NoLower e5 := ⟨by rw [P5.canon]; exact hnl4.1, by rw [P5.ne]; exact hnl4.2⟩
          have hH5 : ∀ a b, e5.offset ≤ a → H12 (a, b) := by
            intro a b hab; show 12 ≤ a; have := P2.le; have := P3.le; have := P4.le; have := P5.le; omega
          simp only [hed, hwf.sig, Option.map_some, hed'] at h
          -- the OPT record
          cases hopt : emitExtra (some (recordOfEdns ed)) (arC, arT) e5 with
          | panic s => rw [hopt] at h; simp at h
          | err k e6 => rw [hopt] at h; simp at h
          | ok r6 e6 =>
          rw [hopt] at h
          obtain ⟨arC1, arT1⟩ := r6
          simp only [emitExtra] at h
          obtain ⟨kept, hkc, hkt, hk16, P6⟩ := optSection_any ed hedwf P5.app P5.inv hH5 hnl5 hopt
          split at h
          · simp at h
          rename_i hqc16
          have hle := P2.le; have hle3 := P3.le; have hle4 := P4.le; have hle5 := P5.le; have hle6 := P6.le
          have hlen6 : e0.offset + 12 ≤ e6.buf.length := by rw [← P6.app]; omega
          have hmax6 : e0.offset + 12 ≤ e6.maxSize := by
            rw [P6.max, P5.max, P4.max, P3.max, P2.max, hmax1]; omega
          rw [placeReplace_header _ _ hlen6 hmax6 (by omega)] at h
          simp only [ERes.ok.injEq, Prod.mk.injEq] at h
          obtain ⟨⟨rfl, rfl⟩, rfl⟩ := h
          simp only at hkc hkt hk16
          refine ⟨⟨anC, nsC, arC, kept⟩, hanle, hnsle, harle, rfl, rfl, hkc, ?_⟩
          simp only [hoff0, List.take_zero, List.nil_append, Nat.zero_add]
          generalize hMD : ({ m.md with tc := m.md.tc || anT || nsT || arT1 } : Metadata) = mdw
          generalize hC : ({ qd := qc, an := anC, ns := nsC, ar := arC1 } : Counts) = cc
          have hcc : cc.qd = qc ∧ cc.an = anC ∧ cc.ns = nsC ∧ cc.ar = arC1 := by rw [← hC]; exact ⟨rfl, rfl, rfl, rfl⟩
          generalize hfb : headerBytes mdw cc ++ List.drop 12 e6.buf = fb
          have hfblen : fb.length = e6.buf.length := by
            rw [← hfb]; simp only [List.length_append, List.length_drop, headerBytes, List.length_cons,
              List.length_nil]; omega
          have hsame : ∀ i, 12 ≤ i → fb[i]? = e6.buf[i]? := by
            intro i hi
            rw [← hfb, List.getElem?_append_right (by simp [headerBytes]; omega)]
            simp only [headerBytes, List.length_cons, List.length_nil, List.getElem?_drop]
            congr 1; omega
          have hseg : SegAt fb 0 (headerBytes mdw cc) := by
            rw [← hfb]
            refine ⟨by simp, ?_⟩
            simp only [List.drop_zero]
            exact List.take_left' rfl
          have pre6 : e6.buf.take e6.buf.length = e6.buf := List.take_length
          have pre5 : e6.buf.take e5.buf.length = e5.buf := by rw [← P5.app]; exact P6.pre
          have pre4 : e6.buf.take e4.buf.length = e4.buf :=
            take_chain (by rw [← P4.app]; exact P5.pre) pre5
          have pre3 : e6.buf.take e3.buf.length = e3.buf :=
            take_chain (by rw [← P3.app]; exact P4.pre) pre4
          have pre2 : e6.buf.take e2.buf.length = e2.buf :=
            take_chain (by rw [← P2.app]; exact P3.pre) pre3
          have LQ := lay_final (isLayout_all _ (by
            intro L hL; simp only [List.mem_map] at hL; obtain ⟨q, _, rfl⟩ := hL; exact isLayout_query q))
            (by omega) P2.lay pre2 hfblen hsame
          have recsLay : ∀ (b : Bool) (rs : List Record), (∀ r ∈ rs, SectionOK m.md.op r b) →
              IsLayout (layAll (rs.map layRecord)) := by
            intro b rs hrs
            refine isLayout_all _ ?_
            intro L hL
            simp only [List.mem_map] at hL
            obtain ⟨r, hr, rfl⟩ := hL
            refine isLayout_record r ?_
            rcases (hrs r hr).1.data with h1 | h1
            · left; rw [h1]; rfl
            · right; exact h1.1
          have wa := sectionOK_take anC hwf.an
          have wn := sectionOK_take nsC hwf.ns
          have wr := sectionOK_take arC hwf.ar
          have LA := lay_final (recsLay _ _ wa) (by omega) P3.lay pre3 hfblen hsame
          have LN := lay_final (recsLay _ _ wn) (by omega) P4.lay pre4 hfblen hsame
          have LR := lay_final (recsLay _ _ wr) (by omega) P5.lay pre5 hfblen hsame
          have hmdw : mdw.id = m.md.id ∧ mdw.op = m.md.op ∧ mdw.rcode = m.md.rcode := by
            rw [← hMD]; exact ⟨rfl, rfl, rfl⟩
          have hhw : HeaderWF mdw cc := by
            refine ⟨by rw [hmdw.1]; exact hwf.id, by rw [hmdw.2.1]; exact hwf.op, ?_, ?_, ?_, ?_⟩
            · rw [hcc.1]; omega
            · rw [hcc.2.1]; omega
            · rw [hcc.2.2.1]; omega
            · rw [hcc.2.2.2]; omega
          have R0 := reads_header _ _ hhw hseg
          have R1 := reads_queries (H := H12) (buf := fb) m.queries [] e1.offset e2.offset hwf.qs LQ
          have R2 := reads_records (H := H12) (opq := opq) (buf := fb) false m.md.op (m.answers.take anC) []
            none e2.offset e3.offset wa LA
          have R3 := reads_records (H := H12) (opq := opq) (buf := fb) false m.md.op (m.authorities.take nsC)
            [] none e3.offset e4.offset wn LN
          rw [List.length_take, Nat.min_eq_left hanle] at R2
          rw [List.length_take, Nat.min_eq_left hnsle] at R3
          -- the additional section: the records, then (if it was kept) the OPT record
          have R4 : Reads (readRecords opq true m.md.op arC1 ([], none, none)) fb e4.offset
              ((m.additionals.take arC).map Record.fq, (if kept then some ed else none), none) e6.offset := by
            have hcount : arC1 = (m.additionals.take arC).length + (if kept then 1 else 0) := by
              rw [List.length_take, Nat.min_eq_left harle]; exact hkc
            rw [hcount]
            refine reads_records_then (H := H12) true m.md.op (m.additionals.take arC) _ [] none e4.offset
              e5.offset e6.offset _ wr LR ?_
            simp only [List.nil_append]
            cases kept with
            | true =>
              simp only [↓reduceIte] at P6 ⊢
              have L6 := lay_final (isLayout_seq (isLayout_opt ed) isLayout_empty) (by omega) P6.lay pre6
                hfblen hsame
              obtain ⟨mm, lo, le⟩ := L6
              obtain ⟨rfl, _⟩ := le
              exact readRecords_optStep ed hedwf lo _
            | false =>
              simp only [Bool.false_eq_true, ↓reduceIte] at P6 ⊢
              obtain ⟨hq, _⟩ := P6.lay
              rw [hq]
              simp only [readRecords]
              exact Reads.pure _ _ _
          have hall : Reads (readMessage opq) fb 0 (truncatedW m ⟨anC, nsC, arC, kept⟩).fq e6.offset := by
            unfold readMessage
            refine Reads.bind R0 ?_
            simp only [Nat.zero_add]
            rw [hcc.1, hqc]
            rw [hoff1] at R1
            refine Reads.bind R1 ?_
            simp only [List.nil_append]
            rw [hcc.2.1, hmdw.2.1]
            refine Reads.bind R2 ?_
            simp only [List.nil_append]
            rw [hcc.2.2.1]
            refine Reads.bind R3 ?_
            simp only [List.nil_append]
            rw [hcc.2.2.2]
            refine Reads.bind R4 ?_
            refine Reads.pure' _ _ ?_
            have hr1 : m.md.rcode % 16 % 16 = m.md.rcode % 16 := by omega
            have hr2 : rcodeHigh m.md.rcode * 16 + m.md.rcode % 16 = m.md.rcode := by
              have := hwf.rcode; simp only [rcodeHigh]; omega
            rw [← hMD]
            cases kept with
            | true =>
              simp only [mergeRcode, Message.fq, truncatedW, hwf.sig, hed, ↓reduceIte, hedhigh, hr1, hr2,
                short, hanT, hnsT, harT, hkt, Bool.not_true, Bool.or_false, Option.isSome_some,
                Bool.and_false]
            | false =>
              simp only [mergeRcode, Message.fq, truncatedW, hwf.sig, hed, Bool.false_eq_true, ↓reduceIte,
                short, hanT, hnsT, harT, hkt, Bool.not_false, Bool.or_true, Option.isSome_some,
                Bool.and_true]
          have := hall.run
          rw [this, hfblen, P6.app]

/-- **Decode ∘ encode = id with EDNS and extended response codes** (partial: `MsgWFE`). -/
theorem decode_encode_edns_partial (opq : Nat → Rd Bytes) (m : Message) (ed : Edns) (hwf : MsgWFE m)
    (hed : m.edns = some ed) (L : Nat) (md' : Metadata) (c : Counts) (e' : Enc)
    (h : emitMessage m ((Enc.new []).setMaxSize L) = .ok (md', c) e')
    (hfull : c.an = m.answers.length ∧ c.ns = m.authorities.length ∧ c.ar = m.additionals.length + 1) :
    Rd.run (readMessage opq) e'.buf 0 = .ok (m.fq, e'.buf.length) := by
  obtain ⟨w, h1, h2, h3, h4, h5, h6, hr⟩ := emitMessage_reads_edns opq m ed hwf hed L md' c e' h
  rw [hr]
  obtain ⟨f1, f2, f3⟩ := hfull
  have ha : w.an = m.answers.length := by omega
  have hn : w.ns = m.authorities.length := by omega
  have hk : w.edns = true ∧ w.ar = m.additionals.length := by
    cases hwe : w.edns with
    | false => simp only [hwe, Bool.false_eq_true, ↓reduceIte] at h6; omega
    | true => simp only [hwe, ↓reduceIte] at h6; exact ⟨rfl, by omega⟩
  have : truncatedW m w = m := by
    obtain ⟨md, qs, an, ns, ar, sg, edn⟩ := m
    simp only at ha hn hk hed
    simp only [truncatedW, ha, hn, hk.1, hk.2, short, List.take_length, Nat.lt_irrefl, decide_false,
      Bool.or_false, ↓reduceIte, Bool.not_true, Bool.and_false]
  rw [this]
end HickoryVerif.C02

namespace HickoryVerif.C03
open HickoryVerif HickoryVerif.Wire HickoryVerif.C02

/-- **Size-limited encoding truncates cleanly, EDNS included** (partial: `MsgWFE`): at most `L` octets,
which decode with nothing left over to the message cut to what was written — every section a prefix
of the original, the OPT record kept or dropped as a whole, `TC` set exactly when something (a record
or the OPT record) was dropped and otherwise unchanged. -/
theorem emitLimited_decodes_edns_partial (opq : Nat → Rd Bytes) (m : Message) (ed : Edns) (hwf : MsgWFE m)
    (hed : m.edns = some ed) (L : Nat) (bs : Bytes) (h : emitLimited m L = .ok bs) :
    bs.length ≤ L ∧
    ∃ w : Written, w.an ≤ m.answers.length ∧ w.ns ≤ m.authorities.length ∧ w.ar ≤ m.additionals.length ∧
      Rd.run (readMessage opq) bs 0 = .ok ((truncatedW m w).fq, bs.length) ∧
      (truncatedW m w).md.tc = (m.md.tc || decide (w.an < m.answers.length) ||
        decide (w.ns < m.authorities.length) || decide (w.ar < m.additionals.length) || !w.edns) := by
  have hmod : m.emitModelled = true := by
    simp only [Message.emitModelled, List.all_eq_true, hwf.sig, Option.toList_none, List.append_nil]
    intro r hr
    rcases List.mem_append.1 hr with hr | hr
    · rcases List.mem_append.1 hr with hr | hr
      · exact recWF_modelled (hwf.an r hr).1
      · exact recWF_modelled (hwf.ns r hr).1
    · exact recWF_modelled (hwf.ar r hr).1
  refine ⟨emitLimited_len m hmod L bs h, ?_⟩
  unfold emitLimited at h
  cases hr : emitMessage m ((Enc.new []).setMaxSize L) with
  | ok r e' =>
    rw [hr] at h
    simp only [Outcome.ok.injEq] at h
    subst h
    obtain ⟨md', c⟩ := r
    obtain ⟨w, h1, h2, h3, _, _, _, h7⟩ := emitMessage_reads_edns opq m ed hwf hed L md' c e' hr
    refine ⟨w, h1, h2, h3, h7, ?_⟩
    simp [truncatedW, short, hed]
  | err k e' => rw [hr] at h; simp at h
  | panic s => rw [hr] at h; simp at h
end HickoryVerif.C03

namespace HickoryVerif.C02
open HickoryVerif HickoryVerif.Wire

/-- non-vacuity: an `Edns` carrying one option of each kind satisfies `EdnsWF` -/
def exEdns : Edns :=
  { rcodeHigh := 0, version := 0, dnssecOk := true, z := 0, maxPayload := 1232,
    options := [⟨10, .unknown 10 [1, 2, 3, 4, 5, 6, 7, 8]⟩, ⟨3, .nsid [110, 115, 49]⟩,
                ⟨5, .dau [8, 13, 15]⟩, ⟨8, .subnet 1 24 0 [192, 0, 2, 0]⟩] }

theorem exEdns_wf : EdnsWF exEdns := by
  refine ⟨?_, by decide, by decide, by decide, by decide, by decide⟩
  intro o ho
  simp only [exEdns, List.mem_cons, List.not_mem_nil, or_false] at ho
  rcases ho with rfl | rfl | rfl | rfl
  · exact ⟨by decide, by decide, Or.inl ⟨_, rfl, by decide, by decide, by decide⟩⟩
  · exact ⟨by decide, by decide, Or.inr (Or.inl ⟨_, rfl, rfl⟩)⟩
  · exact ⟨by decide, by decide, Or.inr (Or.inr (Or.inl ⟨_, rfl, rfl, by decide⟩))⟩
  · exact ⟨by decide, by decide, Or.inr (Or.inr (Or.inr ⟨_, _, _, _, rfl, rfl,
      by decide, by decide, by decide, by decide, by decide, by decide⟩))⟩
end HickoryVerif.C02

namespace HickoryVerif.C02
open HickoryVerif HickoryVerif.Wire

/-! ## the OPT TTL packing (`impl From<&Edns> for Record`, `Edns::from(&Record)`) -/

/-- Packing an `Edns` into the OPT record and unpacking it again returns every field of the TTL
word (`rcode_high`, `version`, `DO`, the 15 `Z` bits) and the payload size independently of all the
others, for ALL values: no range hypothesis, a field wider than its Rust type (`u8`, `u8`, 15 bits)
is reduced modulo that width exactly as the Rust type does. -/
theorem optTtl_fields_independent (ed : Edns) :
    ednsFrom (recordOfEdns ed) = .ok
      { rcodeHigh := ed.rcodeHigh % 256, version := ed.version % 256, dnssecOk := ed.dnssecOk,
        z := ed.z % 32768, maxPayload := max ed.maxPayload 512, options := ed.options } := by
  have hr := Nat.mod_lt ed.rcodeHigh (show 0 < 256 by decide)
  have hv := Nat.mod_lt ed.version (show 0 < 256 by decide)
  have hz := Nat.mod_lt ed.z (show 0 < 32768 by decide)
  cases hd : ed.dnssecOk
  · simp only [ednsFrom, recordOfEdns, hd, ne_eq, not_true_eq_false, if_false, Bool.false_eq_true,
      Outcome.ok.injEq, Edns.mk.injEq, and_true]
    refine ⟨?_, ?_, ?_, ?_⟩
    · omega
    · omega
    · simp; omega
    · omega
  · simp only [ednsFrom, recordOfEdns, hd, ne_eq, not_true_eq_false, if_false, if_true,
      Outcome.ok.injEq, Edns.mk.injEq, and_true]
    refine ⟨?_, ?_, ?_, ?_⟩
    · omega
    · omega
    · simp; omega
    · omega

/-- the in-range reading: an `Edns` whose fields fit their Rust types comes back unchanged
(the payload size is raised to 512, `Edns::set_max_payload`'s floor) -/
theorem optTtl_fields_roundtrip (ed : Edns) (hr : ed.rcodeHigh < 256) (hv : ed.version < 256)
    (hz : ed.z < 32768) (hp : 512 ≤ ed.maxPayload) :
    ednsFrom (recordOfEdns ed) = .ok ed := by
  rw [optTtl_fields_independent]
  obtain ⟨a, b, c, d, p, o⟩ := ed
  simp only at hr hv hz hp
  simp only [Outcome.ok.injEq, Edns.mk.injEq, and_true, true_and]
  refine ⟨?_, ?_, ?_, ?_⟩ <;> omega

/-- `emit_message_parts` commits the extended RCODE with `set_rcode_high(response_code.high())`,
which OVERWRITES whatever `rcode_high` the caller's `Edns` value carries: the encoding does not
depend on that field at all. -/
theorem emitMessage_ignores_edns_rcodeHigh (m : Message) (x : Nat) (e : Enc) :
    emitMessage { m with edns := m.edns.map fun ed => { ed with rcodeHigh := x } } e =
      emitMessage m e := by
  obtain ⟨md, q, an, ns, ar, sig, edns⟩ := m
  cases edns <;> simp [emitMessage, emitMessageParts]

/-- the OPT record that `emit_message_parts` writes carries the MESSAGE's response code high bits
(not the `Edns` value's), and with the four header bits the decoder's `merge_response_code`
rebuilds exactly the message's response code (12 bits) -/
theorem optRecord_rcode (md : Metadata) (ed ed' : Edns) (hrc : md.rcode < 4096)
    (h : ednsFrom (recordOfEdns { ed with rcodeHigh := rcodeHigh md.rcode }) = .ok ed') :
    ed'.rcodeHigh = md.rcode / 16 ∧
    (mergeRcode { md with rcode := md.rcode % 16 } (some ed')).rcode = md.rcode := by
  rw [optTtl_fields_independent] at h
  simp only [Outcome.ok.injEq] at h
  subst h
  simp only [mergeRcode, rcodeHigh]
  refine ⟨?_, ?_⟩ <;> omega
end HickoryVerif.C02
