/-
C16 — Only the queried server's matching reply completes a query.

Part 1 (UDP): theorems about `Model/UdpMatch.lean` (the model of `UdpRequest::send`, `retry`,
`send_message` in crates/net/src/udp/udp_client_stream.rs).
Part 2 (stream multiplexer): theorems about `Model/Multiplexer.lean` (the model of `DnsMultiplexer`
in crates/net/src/xfer/dns_multiplexer.rs and of the caller's `DnsResponseStream`, xfer/mod.rs):
an invariant over all operation histories, then the property clauses.
-/
import HickoryVerif.Model.UdpMatch
import HickoryVerif.Model.Multiplexer
import HickoryVerif.Proofs.C04

namespace HickoryVerif.C16

section Udp
open HickoryVerif HickoryVerif.UdpMatch HickoryVerif.Spec

/-! ## what "matching" means (the property's words, independent of the code's control flow) -/

/-- the same question up to ASCII case of the name -/
def SameQuestion (r q : Question) : Prop :=
  sameUpToCase r.name q.name ∧ r.qtype = q.qtype ∧ r.qclass = q.qclass

/-- `d` is a reply the property allows to complete the query `rq`: it came from the queried address
(canonical ip) and port, is a well-formed response, carries the query's id, and its question section
names only questions that were asked — letter for letter when case randomisation is on. -/
structure Matches (rq : Request) (d : Datagram) : Prop where
  ip : d.src.ip.canon = rq.server.ip.canon
  port : d.src.port = rq.server.port
  parses : d.parses = true
  response : d.isResponse = true
  id : d.id = rq.id
  asked : ∀ q ∈ d.questions, ∃ r ∈ rq.questions, SameQuestion r q
  sameCase : rq.caseRand = true → ∀ q ∈ d.questions, q ∈ rq.questions
  /-- datagrams are modelled unsigned: none of them completes a TSIG-signed query -/
  unsignedQuery : rq.signed = false

/-! ## helper lemmas -/

theorem cmpLabel_cs_eq (l r : Bytes) : Name.cmpLabel false l r = .eq ↔ l = r := by
  fun_induction Name.cmpLabel false l r <;> simp_all [Name.cmpU8]
  all_goals (intro h; simp_all [Nat.compare_eq_eq])

theorem cmpRev_cs_eq (l r : List Bytes) : Name.cmpRev false l r = .eq ↔ l = r := by
  fun_induction Name.cmpRev false l r <;> simp_all [cmpLabel_cs_eq]
  all_goals (intro h; simp_all [cmpLabel_cs_eq])

/-- `Name::eq_case` is identity of names (labels letter for letter, and the fqdn flag). -/
theorem eqCase_iff (a b : Name) : Name.eqCase a b = true ↔ a = b := by
  cases a with | mk la fa => cases b with | mk lb fb =>
  cases fa <;> cases fb <;>
    simp [Name.eqCase, Name.cmpWithF, Name.cmpLabels, cmpRev_cs_eq]

theorem questionEq_iff (r q : Question) : r.eq q = true ↔ SameQuestion r q := by
  simp [Question.eq, SameQuestion, C04.eq_iff, and_assoc]

theorem asked_iff (rq : Request) (q : Question) :
    asked rq q = true ↔ ∃ r ∈ rq.questions, SameQuestion r q := by
  simp [asked, List.any_eq_true, questionEq_iff]

theorem askedCase_iff (rq : Request) (q : Question) :
    askedCase rq q = true ↔ q ∈ rq.questions := by
  simp only [askedCase, List.any_eq_true, Bool.and_eq_true, eqCase_iff, questionEq_iff]
  constructor
  · rintro ⟨r, hr, ⟨_, ht, hc⟩, hn⟩
    cases r; cases q; simp_all
  · intro h
    exact ⟨q, h, ⟨⟨rfl, rfl⟩, rfl, rfl⟩, rfl⟩

/-- a question that is in the list letter for letter is in particular asked -/
theorem askedCase_asked (rq : Request) (q : Question) (h : askedCase rq q = true) : asked rq q = true := by
  rw [askedCase_iff] at h
  rw [asked_iff]
  exact ⟨q, h, ⟨rfl, rfl⟩, rfl, rfl⟩

/-! ## one datagram -/

/-- the loop body as a boolean condition -/
theorem examineD_accept_bool (rq : Request) (d : Datagram) :
    examineD rq d = .accept ↔
      (sourceOk rq d = true ∧ d.parses = true ∧ d.isResponse = true ∧ rq.id = d.id ∧
        d.questions.all (asked rq) = true ∧
        (rq.caseRand = true → d.questions.all (askedCase rq) = true) ∧ rq.signed = false) := by
  unfold examineD
  cases hsg : rq.signed <;> cases hs : sourceOk rq d <;> cases hp : d.parses <;> cases hr : d.isResponse <;>
    cases hc : rq.caseRand <;> cases hq : d.questions.all (asked rq) <;>
    cases hk : d.questions.all (askedCase rq) <;>
    by_cases hid : rq.id = d.id <;> simp [hid]

/-- The loop body accepts a datagram exactly when it matches. -/
theorem examineD_accept_iff (rq : Request) (d : Datagram) :
    examineD rq d = .accept ↔ Matches rq d := by
  rw [examineD_accept_bool]
  constructor
  · rintro ⟨hs, hp, hr, hid, hq, hc, hsg⟩
    simp only [sourceOk, Bool.and_eq_true, decide_eq_true_eq] at hs
    refine ⟨hs.1, hs.2, hp, hr, hid.symm, ?_, ?_, hsg⟩
    · intro q hqm
      exact (asked_iff rq q).1 (List.all_eq_true.1 hq q hqm)
    · intro hcr q hqm
      exact (askedCase_iff rq q).1 (List.all_eq_true.1 (hc hcr) q hqm)
  · intro m
    refine ⟨by simp [sourceOk, m.ip, m.port], m.parses, m.response, m.id.symm, ?_, ?_, m.unsignedQuery⟩
    · exact List.all_eq_true.2 fun q hqm => (asked_iff rq q).2 (m.asked q hqm)
    · exact fun hcr => List.all_eq_true.2 fun q hqm => (askedCase_iff rq q).2 (m.sameCase hcr q hqm)

/-- Which non-matching datagrams end the transmission with an error instead of being skipped:
from the right source and either not a decodable response, or (with case randomisation) right id and
only asked questions but with different letter case. -/
theorem examineD_fail_iff (rq : Request) (d : Datagram) :
    (∃ w, examineD rq d = .fail w) ↔
      sourceOk rq d = true ∧
        (d.parses = false ∨ d.isResponse = false ∨
          (rq.id = d.id ∧ rq.caseRand = true ∧ d.questions.all (asked rq) = true ∧
            d.questions.all (askedCase rq) = false) ∨
          (rq.id = d.id ∧ d.questions.all (asked rq) = true ∧
            (rq.caseRand = true → d.questions.all (askedCase rq) = true) ∧ rq.signed = true)) := by
  unfold examineD
  cases hsg : rq.signed <;> cases hs : sourceOk rq d <;> cases hp : d.parses <;> cases hr : d.isResponse <;>
    cases hc : rq.caseRand <;> cases hq : d.questions.all (asked rq) <;>
    cases hk : d.questions.all (askedCase rq) <;>
    by_cases hid : rq.id = d.id <;> simp [hid]

theorem endsUndecodable_iff (rq : Request) (d : Datagram) :
    endsUndecodable rq d = true ↔ (examineD rq d = .fail .parse ∨ examineD rq d = .fail .notResponse) := by
  unfold endsUndecodable examineD
  cases rq.signed <;> cases sourceOk rq d <;> cases d.parses <;> cases d.isResponse <;> cases rq.caseRand <;>
    cases d.questions.all (asked rq) <;> cases d.questions.all (askedCase rq) <;>
    by_cases hid : rq.id = d.id <;> simp [hid]

theorem endsCaseMismatch_iff (rq : Request) (d : Datagram) :
    endsCaseMismatch rq d = true ↔ examineD rq d = .fail .caseMismatch := by
  unfold endsCaseMismatch examineD
  cases rq.signed <;> cases sourceOk rq d <;> cases d.parses <;> cases d.isResponse <;> cases rq.caseRand <;>
    cases d.questions.all (asked rq) <;> cases d.questions.all (askedCase rq) <;>
    by_cases hid : rq.id = d.id <;> simp [hid]

theorem endsUnsigned_iff (rq : Request) (d : Datagram) :
    endsUnsigned rq d = true ↔ examineD rq d = .fail .tsig := by
  unfold endsUnsigned examineD
  cases rq.signed <;> cases sourceOk rq d <;> cases d.parses <;> cases d.isResponse <;> cases rq.caseRand <;>
    cases d.questions.all (asked rq) <;> cases d.questions.all (askedCase rq) <;>
    by_cases hid : rq.id = d.id <;> simp [hid]

theorem examineD_no_io_setup (rq : Request) (d : Datagram) :
    examineD rq d ≠ .fail .io ∧ examineD rq d ≠ .fail .setup := by
  unfold examineD
  cases rq.signed <;> cases sourceOk rq d <;> cases d.parses <;> cases d.isResponse <;> cases rq.caseRand <;>
    cases d.questions.all (asked rq) <;> cases d.questions.all (askedCase rq) <;>
    by_cases hid : rq.id = d.id <;> simp [hid]

theorem endsInsteadOfSkipped_iff (rq : Request) (d : Datagram) :
    endsInsteadOfSkipped rq d = true ↔ ∃ w, examineD rq d = .fail w := by
  unfold endsInsteadOfSkipped
  rw [Bool.or_eq_true, Bool.or_eq_true, endsUndecodable_iff, endsCaseMismatch_iff, endsUnsigned_iff]
  constructor
  · rintro (((h | h) | h) | h) <;> exact ⟨_, h⟩
  · rintro ⟨w, h⟩
    cases w with
    | io => exact absurd h (examineD_no_io_setup rq d).1
    | setup => exact absurd h (examineD_no_io_setup rq d).2
    | parse => exact .inl (.inl (.inl h))
    | notResponse => exact .inl (.inl (.inr h))
    | caseMismatch => exact .inl (.inr h)
    | tsig => exact .inr h

/-- the two classes are disjoint, and neither contains a matching datagram -/
theorem endClasses_disjoint (rq : Request) (d : Datagram) :
    ¬ (endsUndecodable rq d = true ∧ endsCaseMismatch rq d = true) := by
  rw [endsUndecodable_iff, endsCaseMismatch_iff]
  rintro ⟨h | h, h'⟩ <;> rw [h] at h' <;> cases h'

theorem endsInsteadOfSkipped_not_matches (rq : Request) (d : Datagram)
    (h : endsInsteadOfSkipped rq d = true) : ¬ Matches rq d := by
  intro m
  obtain ⟨w, hw⟩ := (endsInsteadOfSkipped_iff rq d).1 h
  rw [(examineD_accept_iff rq d).2 m] at hw; cases hw

/-
Full statement of the clause "other datagrams are skipped" — FALSE of the code as it is:
    ∀ rq d, ¬ Matches rq d → ∃ w, examineD rq d = .skip w
Counter-example below (`skipped_counterexample`): garbage from the queried address ends the
transmission (`DnsResponse::from_buffer(..)?`).  What holds is the statement outside the decidable
class `endsInsteadOfSkipped`:
-/
/-- **udp_nonmatching_skipped_partial.** A datagram that does not match and is not in the class
`endsInsteadOfSkipped` is skipped: the loop goes on to the next datagram. -/
theorem udp_nonmatching_skipped_partial (rq : Request) (d : Datagram) (hn : ¬ Matches rq d)
    (hH : endsInsteadOfSkipped rq d = false) : ∃ w, examineD rq d = .skip w := by
  cases h : examineD rq d with
  | accept => exact absurd ((examineD_accept_iff rq d).1 h) hn
  | skip w => exact ⟨w, rfl⟩
  | fail w =>
    have := (endsInsteadOfSkipped_iff rq d).2 ⟨w, h⟩
    rw [hH] at this; cases this

/-- Everything else that does not match is skipped (`continue`). -/
theorem examineD_trichotomy (rq : Request) (d : Datagram) :
    Matches rq d ∨ (∃ w, examineD rq d = .skip w) ∨ (∃ w, examineD rq d = .fail w) := by
  cases h : examineD rq d with
  | accept => exact .inl ((examineD_accept_iff rq d).1 h)
  | skip w => exact .inr (.inl ⟨w, rfl⟩)
  | fail w => exact .inr (.inr ⟨w, rfl⟩)

/-! ## one transmission -/

theorem recvLoop_accept {rq : Request} {n i : Nat} {es : List Event} {j : Nat}
    (h : recvLoop rq n i es = .accept j) :
    i ≤ j ∧ j < i + n ∧ (∃ d, es[j - i]? = some (.dgram d) ∧ Matches rq d) ∧
      ∀ k, k < j - i → ∃ e w, es[k]? = some e ∧ examine rq e = .skip w := by
  fun_induction recvLoop rq n i es with
  | case1 => cases h
  | case2 => cases h
  | case3 n i e es hacc =>
    cases h
    refine ⟨Nat.le_refl _, by omega, ?_, by intro k hk; omega⟩
    cases e with
    | ioErr => simp [examine] at hacc
    | setupFail => simp [examine] at hacc
    | dgram d => exact ⟨d, by simp, (examineD_accept_iff rq d).1 hacc⟩
  | case4 n i e es w hf => cases h
  | case5 n i e es w hs ih =>
    obtain ⟨h1, h2, ⟨d, hd, hm⟩, hpre⟩ := ih h
    refine ⟨by omega, by omega, ⟨d, ?_, hm⟩, ?_⟩
    · have : j - i = (j - (i + 1)) + 1 := by omega
      rw [this]; simpa using hd
    · intro k hk
      cases k with
      | zero => exact ⟨e, w, by simp, hs⟩
      | succ k =>
        obtain ⟨e', w', he', hw'⟩ := hpre k (by omega)
        exact ⟨e', w', by simpa using he', hw'⟩

/-- **udp_accept_only_matching.** If a transmission completes with a response, that response is one
of the first three datagrams that arrived on its socket, it matches the query on source address,
source port, id and questions (and letter case under case randomisation), and every datagram before
it was skipped. -/
theorem udp_accept_only_matching (rq : Request) (es : List Event) (j : Nat)
    (h : recv rq es = .accept j) :
    j < 3 ∧ (∃ d, es[j]? = some (.dgram d) ∧ Matches rq d) ∧
      ∀ k, k < j → ∃ e w, es[k]? = some e ∧ examine rq e = .skip w := by
  have := recvLoop_accept (rq := rq) (n := MAX_EXAMINED) (i := 0) (es := es) (j := j) h
  simpa [MAX_EXAMINED] using this

/-- **udp_never_accepts_nonmatching.** A transmission ends in exactly one of four ways: it accepts a
matching datagram, it fails, it gives up after three datagrams, or it is still waiting.  In
particular a datagram that does not match is never the one accepted. -/
theorem udp_never_accepts_nonmatching (rq : Request) (es : List Event) :
    (∃ j d, recv rq es = .accept j ∧ es[j]? = some (.dgram d) ∧ Matches rq d) ∨
      (∃ j w, recv rq es = .fail j w) ∨ recv rq es = .exceeded ∨ (∃ c, recv rq es = .starved c) := by
  cases h : recv rq es with
  | accept j =>
    obtain ⟨_, ⟨d, hd, hm⟩, _⟩ := udp_accept_only_matching rq es j h
    exact .inl ⟨j, d, rfl, hd, hm⟩
  | fail j w => exact .inr (.inl ⟨j, w, rfl⟩)
  | exceeded => exact .inr (.inr (.inl rfl))
  | starved c => exact .inr (.inr (.inr ⟨c, rfl⟩))

theorem udp_nonmatching_not_accepted (rq : Request) (es : List Event) (j : Nat) (d : Datagram)
    (hd : es[j]? = some (.dgram d)) (hn : ¬ Matches rq d) : recv rq es ≠ .accept j := by
  intro h
  obtain ⟨_, ⟨d', hd', hm⟩, _⟩ := udp_accept_only_matching rq es j h
  rw [hd] at hd'; cases hd'; exact hn hm

/-- a TSIG-signed query is never completed by an (unsigned) datagram -/
theorem udp_signed_never_accepts_unsigned (rq : Request) (es : List Event) (j : Nat)
    (hs : rq.signed = true) : recv rq es ≠ .accept j := by
  intro h
  obtain ⟨_, ⟨d, _, hm⟩, _⟩ := udp_accept_only_matching rq es j h
  rw [hm.unsignedQuery] at hs; cases hs

theorem recvLoop_take (rq : Request) (n i : Nat) (es : List Event) :
    recvLoop rq n i (es.take n) = recvLoop rq n i es := by
  fun_induction recvLoop rq n i es with
  | case1 => simp [recvLoop]
  | case2 => simp [recvLoop]
  | case3 n i e es h => simp [recvLoop, h]
  | case4 n i e es w h => simp [recvLoop, h]
  | case5 n i e es w h ih => simp [recvLoop, h, ih]

/-- **udp_depends_on_first_three.** The outcome of a transmission is a function of the first three
`recv_from` results only: whatever arrives later is never looked at. -/
theorem udp_depends_on_first_three (rq : Request) (es : List Event) :
    recv rq es = recv rq (es.take 3) := by
  simpa [recv, MAX_EXAMINED] using (recvLoop_take rq 3 0 es).symm

theorem recvLoop_consumed (rq : Request) (n i : Nat) (es : List Event) :
    (recvLoop rq n i es).consumed ≤ i + min n es.length ∨ (recvLoop rq n i es = .exceeded) := by
  fun_induction recvLoop rq n i es with
  | case1 => right; rfl
  | case2 => left; simp [RecvOutcome.consumed]
  | case3 n i e es h => left; simp only [RecvOutcome.consumed, List.length_cons]; omega
  | case4 n i e es w h => left; simp only [RecvOutcome.consumed, List.length_cons]; split <;> omega
  | case5 n i e es w h ih =>
    rcases ih with ih | ih
    · left; simp only [List.length_cons]; omega
    · right; exact ih

/-- **udp_examined_le_three.** A transmission takes at most three datagrams from its socket. -/
theorem udp_examined_le_three (rq : Request) (es : List Event) : (recv rq es).consumed ≤ 3 := by
  rcases recvLoop_consumed rq MAX_EXAMINED 0 es with h | h
  · simp only [recv]; simp only [MAX_EXAMINED] at h ⊢; omega
  · rw [recv, h]; simp [RecvOutcome.consumed, MAX_EXAMINED]

theorem recvLoop_skip_prefix (rq : Request) (pre : List Event) (n i : Nat) (rest : List Event)
    (hskip : ∀ e ∈ pre, ∃ w, examine rq e = .skip w) :
    recvLoop rq (pre.length + n) i (pre ++ rest) = recvLoop rq n (i + pre.length) rest := by
  induction pre generalizing i with
  | nil => simp
  | cons e pre ih =>
    obtain ⟨w, hw⟩ := hskip e (by simp)
    have : (e :: pre).length + n = (pre.length + n) + 1 := by simp; omega
    rw [this, List.cons_append, recvLoop, hw]
    simp only
    rw [ih (i + 1) (fun e he => hskip e (by simp [he]))]
    congr 1; simp; omega

/-- **udp_accepts_genuine** (the other direction: the filter is not over-strict). A matching reply
that arrives among the first three, after datagrams that are all of a skipped kind, is accepted. -/
theorem udp_accepts_genuine (rq : Request) (pre post : List Event) (d : Datagram)
    (hlen : pre.length < 3) (hskip : ∀ e ∈ pre, ∃ w, examine rq e = .skip w) (hm : Matches rq d) :
    recv rq (pre ++ .dgram d :: post) = .accept pre.length := by
  have h3 : MAX_EXAMINED = pre.length + ((2 - pre.length) + 1) := by simp [MAX_EXAMINED]; omega
  rw [recv, h3, recvLoop_skip_prefix rq pre _ 0 _ hskip, recvLoop]
  simp [examine, (examineD_accept_iff rq d).2 hm]

/-- a transmission whose set-up fails ends in an error without taking anything from a socket -/
theorem udp_setup_failure_takes_nothing (rq : Request) (es : List Event) :
    recv rq (.setupFail :: es) = .fail 0 .setup ∧ (recv rq (.setupFail :: es)).consumed = 0 := by
  constructor <;> simp [recv, recvLoop, MAX_EXAMINED, examine, RecvOutcome.consumed]

/-! ## the whole query (retransmissions + overall timeout) -/

theorem completion_accept {rq : Request} {start : Nat} {s : List Timed} {t j : Nat}
    (h : completion rq start s = some (t, .accept j)) :
    j < 3 ∧ ∃ δ d, s[j]? = some (δ, .dgram d) ∧ Matches rq d := by
  unfold completion at h
  have hr : recv rq (s.map Prod.snd) = .accept j := by
    cases hh : recv rq (s.map Prod.snd) with
    | accept idx => simp [hh] at h; rw [h.2]
    | fail _ _ => simp [hh] at h
    | exceeded => simp [hh] at h
    | starved _ => simp [hh] at h
  obtain ⟨hj, ⟨d, hd, hm⟩, _⟩ := udp_accept_only_matching rq _ j hr
  refine ⟨hj, ?_⟩
  rw [List.getElem?_map] at hd
  cases hs : s[j]? with
  | none => simp [hs] at hd
  | some x =>
    obtain ⟨δ, e⟩ := x
    simp [hs] at hd
    exact ⟨δ, d, by simp [hd], hm⟩

theorem earliest_spec {c : Config} {rq : Request} {n i : Nat} {ss : List (List Timed)}
    {t k : Nat} {o : RecvOutcome} (h : earliest c rq n i ss = some (t, k, o)) :
    i ≤ k ∧ k < i + n ∧ t < c.timeout ∧
      completion rq (k * c.interval) (ss.getD (k - i) []) = some (t, o) := by
  induction n generalizing i ss t k o with
  | zero => simp [earliest] at h
  | succ n ih =>
    unfold earliest at h
    simp only at h
    have hrest : ∀ {t k o}, earliest c rq n (i + 1) ss.tail = some (t, k, o) →
        i ≤ k ∧ k < i + (n + 1) ∧ t < c.timeout ∧
          completion rq (k * c.interval) (ss.getD (k - i) []) = some (t, o) := by
      intro t k o hr
      obtain ⟨h1, h2, h3, h4⟩ := ih hr
      refine ⟨by omega, by omega, h3, ?_⟩
      have : k - i = (k - (i + 1)) + 1 := by omega
      rw [this]
      cases ss with
      | nil => simpa using h4
      | cons s ss => simpa using h4
    have hhead : ∀ {t o}, completion rq (i * c.interval) (ss.headD []) = some (t, o) →
        completion rq (i * c.interval) (ss.getD (i - i) []) = some (t, o) := by
      intro t o hc
      cases ss <;> simpa using hc
    split at h
    · rename_i t0 o0 hc
      split at h
      · rename_i hlt
        split at h
        · rename_i t' i' o' hr
          split at h
          · cases h; exact hrest hr
          · cases h; exact ⟨Nat.le_refl _, by omega, hlt, hhead hc⟩
        · cases h; exact ⟨Nat.le_refl _, by omega, hlt, hhead hc⟩
      · exact hrest h
    · exact hrest h

/-- **udp_query_accept_only_matching.** If `send_message` yields a response, it is one of the first
three datagrams on the socket of one of the at most `max(1, max_retries)` transmissions, and it
matches the query. -/
theorem udp_query_accept_only_matching (c : Config) (rq : Request) (ss : List (List Timed))
    (t j : Nat) (h : query c rq ss = .ok t j) :
    t < c.tasks ∧ j < 3 ∧ ∃ δ d, (ss.getD t [])[j]? = some (δ, .dgram d) ∧ Matches rq d := by
  unfold query at h
  cases he : earliest c rq c.tasks 0 ss with
  | none => simp [he, outcomeOf] at h
  | some x =>
    obtain ⟨t0, k, o⟩ := x
    rw [he] at h
    cases o <;> simp [outcomeOf] at h
    obtain ⟨rfl, rfl⟩ := h
    obtain ⟨_, hk, _, hc⟩ := earliest_spec he
    obtain ⟨hj, hd⟩ := completion_accept hc
    exact ⟨by omega, hj, by simpa using hd⟩

/-- **udp_query_outcomes.** A query ends with a matching response, an error, or the timeout. -/
theorem udp_query_never_accepts_nonmatching (c : Config) (rq : Request) (ss : List (List Timed)) :
    (∃ t j δ d, query c rq ss = .ok t j ∧ (ss.getD t [])[j]? = some (δ, .dgram d) ∧ Matches rq d) ∨
      query c rq ss = .err ∨ query c rq ss = .timeout := by
  cases h : query c rq ss with
  | ok t j =>
    obtain ⟨_, _, δ, d, hd, hm⟩ := udp_query_accept_only_matching c rq ss t j h
    exact .inl ⟨t, j, δ, d, rfl, hd, hm⟩
  | err => exact .inr (.inl rfl)
  | timeout => exact .inr (.inr rfl)

/-- a query that falls in a known-finding class ended in an error (never in an acceptance) -/
theorem queryEndClass_err (c : Config) (rq : Request) (ss : List (List Timed))
    (h : queryEndClass c rq ss ≠ .none) : query c rq ss = .err := by
  unfold queryEndClass at h
  unfold query
  split at h
  · rename_i t i j w he
    rw [he]; rfl
  · exact absurd rfl h

theorem takenBy_go_le (tEnd : Nat) (w : Bool) (t k : Nat) (l : List Timed) :
    takenBy.go tEnd w t k l ≤ k + l.length := by
  induction l generalizing t k with
  | nil => simp [takenBy.go]
  | cons x l ih =>
    obtain ⟨d, e⟩ := x
    simp only [takenBy.go, List.length_cons]
    split
    · have := ih (t + d) (k + 1); omega
    · omega

theorem takenBy_le_three (rq : Request) (start tEnd : Nat) (w : Bool) (s : List Timed) :
    takenBy rq start tEnd w s ≤ 3 := by
  show takenBy.go tEnd w start 0 (s.take (recv rq (s.map Prod.snd)).consumed) ≤ 3
  have h1 := takenBy_go_le tEnd w start 0 (s.take (recv rq (s.map Prod.snd)).consumed)
  have h2 := udp_examined_le_three rq (s.map Prod.snd)
  simp only [List.length_take] at h1
  omega

/-- **udp_query_examined_le_three.** No transmission of a query takes more than three datagrams
from its socket. -/
theorem udp_query_examined_le_three (c : Config) (rq : Request) (ss : List (List Timed)) :
    ∀ n ∈ consumedList c rq ss, n ≤ 3 := by
  intro n hn
  simp only [consumedList, List.mem_filterMap] at hn
  obtain ⟨i, _, hi⟩ := hn
  split at hi
  · cases hi; exact takenBy_le_three _ _ _ _ _
  · cases hi

/-! ## non-vacuity: concrete values satisfying the hypotheses above -/

section Examples

def exName : Name := { labels := [[69, 120, 65, 109], [99, 111, 109]], fqdn := true }       -- ExAm.com.
def exNameLower : Name := { labels := [[101, 120, 97, 109], [99, 111, 109]], fqdn := true }  -- exam.com.
def exQ : Question := { name := exName, qtype := 1, qclass := 1 }
def exQlower : Question := { name := exNameLower, qtype := 1, qclass := 1 }
def exSrv : Addr := { ip := .v4 3232235777, port := 53 }
def exRq : Request := { server := exSrv, id := 4660, questions := [exQ], caseRand := true }
def exGenuine : Datagram := { src := exSrv, parses := true, isResponse := true, id := 4660, questions := [exQ] }
/-- same address written as `::ffff:192.168.1.1` -/
def exMapped : Datagram := { exGenuine with src := { ip := .v6 281473913979137, port := 53 } }
def exWrongPort : Datagram := { exGenuine with src := { ip := .v4 3232235777, port := 5353 } }
def exWrongId : Datagram := { exGenuine with id := 4661 }
def exCaseFlip : Datagram := { exGenuine with questions := [exQlower] }
def exGarbage : Datagram := { exGenuine with parses := false }

-- two forged datagrams are skipped, the genuine third one is accepted
example : recv exRq [.dgram exWrongPort, .dgram exWrongId, .dgram exGenuine] = .accept 2 := by decide
-- a fourth datagram is never looked at: three forged ones exhaust the transmission
example : recv exRq [.dgram exWrongPort, .dgram exWrongId, .dgram exWrongPort, .dgram exGenuine] = .exceeded := by decide
-- the v4-mapped spelling of the server address is the same source
example : recv exRq [.dgram exMapped] = .accept 0 := by decide
-- with case randomisation a reply in different letter case fails the query …
example : recv exRq [.dgram exCaseFlip, .dgram exGenuine] = .fail 0 .caseMismatch := by decide
-- … and is accepted without it
example : recv { exRq with caseRand := false } [.dgram exCaseFlip] = .accept 0 := by decide
-- garbage from the right source fails the transmission (it is not skipped)
example : recv exRq [.dgram exGarbage, .dgram exGenuine] = .fail 0 .parse := by decide
-- the literal clause "other datagrams are skipped" fails here: not matching, not skipped, in the class
theorem skipped_counterexample :
    ¬ Matches exRq exGarbage ∧ endsInsteadOfSkipped exRq exGarbage = true ∧
      examineD exRq exGarbage = .fail .parse ∧
      recv exRq [.dgram exGarbage, .dgram exGenuine] = .fail 0 .parse := by
  refine ⟨fun m => ?_, by decide, by decide, by decide⟩
  have := (examineD_accept_iff _ _).2 m
  revert this; decide
-- the same clause fails for the second class: a reply in other letter case, case randomisation on
theorem skipped_counterexample_case :
    ¬ Matches exRq exCaseFlip ∧ endsCaseMismatch exRq exCaseFlip = true ∧
      recv exRq [.dgram exCaseFlip, .dgram exGenuine] = .fail 0 .caseMismatch := by
  refine ⟨fun m => ?_, by decide, by decide⟩
  have := (examineD_accept_iff _ _).2 m
  revert this; decide
-- one concrete member of each class, and what it does to a query whose genuine reply follows
example : endsUndecodable exRq exGarbage = true ∧ endsCaseMismatch exRq exCaseFlip = true := by decide
example : queryEndClass { timeout := 5010, interval := 1000, maxRetries := 3 } exRq
    [[(0, .dgram exGarbage), (1, .dgram exGenuine)]] = .undecodable := by decide
example : queryEndClass { timeout := 5010, interval := 1000, maxRetries := 3 } exRq
    [[(0, .dgram exCaseFlip), (1, .dgram exGenuine)]] = .caseMismatch := by decide
-- hypotheses of `udp_nonmatching_skipped_partial` are satisfiable (wrong id: skipped)
example : ¬ Matches exRq exWrongId ∧ endsInsteadOfSkipped exRq exWrongId = false := by
  refine ⟨fun m => ?_, by decide⟩
  have := (examineD_accept_iff _ _).2 m
  revert this; decide
-- hypotheses of `udp_accepts_genuine`
example : Matches exRq exGenuine := (examineD_accept_iff _ _).1 (by decide)
example : ∀ e ∈ [Event.dgram exWrongPort, .dgram exWrongId], ∃ w, examine exRq e = .skip w := by
  intro e he; simp at he; rcases he with rfl | rfl
  · exact ⟨.source, by decide⟩
  · exact ⟨.id, by decide⟩
-- a query: first transmission sees only forged datagrams, the retransmission's socket gets the reply
example : query { timeout := 5010, interval := 1000, maxRetries := 3 } exRq
    [[(5, .dgram exWrongId)], [(7, .dgram exWrongPort), (20, .dgram exGenuine)]] = .ok 1 1 := by decide
example : consumedList { timeout := 5010, interval := 1000, maxRetries := 3 } exRq
    [[(5, .dgram exWrongId)], [(7, .dgram exWrongPort), (20, .dgram exGenuine)]] = [1, 2] := by decide
-- nothing matching ever arrives: timeout, not acceptance
example : query { timeout := 5010, interval := 1000, maxRetries := 2 } exRq
    [[(5, .dgram exWrongId)], [(7, .dgram exWrongPort)]] = .timeout := by decide

end Examples

end Udp

/-! # Part 2 — the stream multiplexer -/

section Multiplexer
open HickoryVerif HickoryVerif.Mux

/-! ## helper lemmas and the invariant -/

theorem updChan_map_req (cs : List Caller) (r : Req) (f : Chan → Chan) :
    (updChan cs r f).map (·.req) = cs.map (·.req) := by
  simp only [updChan, List.map_map]
  apply List.map_congr_left
  intro c _
  simp only [Function.comp]
  split <;> rfl

theorem mem_updChan {cs : List Caller} {r : Req} {f : Chan → Chan} {c' : Caller} :
    c' ∈ updChan cs r f ↔ ∃ c ∈ cs, c' = if c.req == r then { c with chan := f c.chan } else c := by
  simp only [updChan, List.mem_map]
  constructor
  · rintro ⟨c, hc, rfl⟩; exact ⟨c, hc, rfl⟩
  · rintro ⟨c, hc, rfl⟩; exact ⟨c, hc, rfl⟩

theorem mem_updChan_of_ne {cs : List Caller} {r : Req} {f : Chan → Chan} {c : Caller}
    (hc : c ∈ cs) (hne : c.req ≠ r) : c ∈ updChan cs r f :=
  mem_updChan.2 ⟨c, hc, by simp [hne]⟩

theorem eq_of_req_eq {cs : List Caller} (hn : (cs.map (·.req)).Nodup) {c d : Caller}
    (hc : c ∈ cs) (hd : d ∈ cs) (h : c.req = d.req) : c = d := by
  induction cs with
  | nil => cases hc
  | cons x xs ih =>
    simp only [List.map_cons, List.nodup_cons, List.mem_map, not_exists, not_and] at hn
    simp only [List.mem_cons] at hc hd
    rcases hc with rfl | hc <;> rcases hd with rfl | hd
    · rfl
    · exact absurd h.symm (hn.1 d hd)
    · exact absurd h (hn.1 c hc)
    · exact ih hn.2 hc hd

structure Inv' (act : List Active) (cs : List Caller) : Prop where
  idsNodup : (act.map (·.id)).Nodup
  reqsNodup : (act.map (·.req)).Nodup
  callersNodup : (cs.map (·.req)).Nodup
  activeHasCaller : ∀ a ∈ act, ∃ c ∈ cs, c.req = a.req ∧ c.assigned = some a.id ∧ c.chan.txClosed = false
  ownId : ∀ c ∈ cs, ∀ id tag, Item.resp id tag ∈ c.chan.queue → c.assigned = some id
  txOpenActive : ∀ c ∈ cs, c.chan.txClosed = false → ∃ a ∈ act, a.req = c.req

theorem inv_updChan_gen {act : List Active} {cs : List Caller} {r : Req} {f : Chan → Chan}
    (h : Inv' act cs) (htx : ∀ ch, (f ch).txClosed = ch.txClosed)
    (hq : ∀ c ∈ cs, c.req = r → ∀ id tag, Item.resp id tag ∈ (f c.chan).queue → c.assigned = some id) :
    Inv' act (updChan cs r f) := by
  refine ⟨h.idsNodup, h.reqsNodup, by rw [updChan_map_req]; exact h.callersNodup, ?_, ?_, ?_⟩
  · intro a ha
    obtain ⟨c, hc, h1, h2, h3⟩ := h.activeHasCaller a ha
    refine ⟨_, mem_updChan.2 ⟨c, hc, rfl⟩, ?_⟩
    split <;> simp [h1, h2, h3, htx]
  · intro c' hc' id tag hmem
    obtain ⟨c, hc, rfl⟩ := mem_updChan.1 hc'
    split at hmem
    · rename_i hr
      have := hq c hc (by simpa using hr) id tag hmem
      split <;> simpa using this
    · rename_i hr
      simp only [hr]
      exact h.ownId c hc id tag hmem
  · intro c' hc' htxo
    obtain ⟨c, hc, rfl⟩ := mem_updChan.1 hc'
    split at htxo
    · rename_i hr
      simp only [htx] at htxo
      obtain ⟨a, ha, har⟩ := h.txOpenActive c hc htxo
      exact ⟨a, ha, by simp [hr, har]⟩
    · rename_i hr
      obtain ⟨a, ha, har⟩ := h.txOpenActive c hc htxo
      exact ⟨a, ha, by simp [hr, har]⟩

theorem trySend_txClosed (ch : Chan) (x : Item) : (ch.trySend x).txClosed = ch.txClosed := by
  unfold Chan.trySend; split <;> rfl

theorem trySend_rxClosed (ch : Chan) (x : Item) : (ch.trySend x).rxClosed = ch.rxClosed := by
  unfold Chan.trySend; split <;> rfl

theorem mem_trySend {ch : Chan} {x y : Item} (h : y ∈ (ch.trySend x).queue) : y ∈ ch.queue ∨ y = x := by
  unfold Chan.trySend at h
  split at h
  · exact .inl h
  · simpa using h

/-- Lemma C: routing a response with id `a.id` to the caller of the active request `a`. -/
theorem inv_route_to {act : List Active} {cs : List Caller} (h : Inv' act cs) {a : Active}
    (ha : a ∈ act) (tag : Nat) :
    Inv' act (updChan cs a.req (·.trySend (routed a a.id tag))) := by
  apply inv_updChan_gen h (fun ch => trySend_txClosed ch _)
  intro c hc hr id tag' hmem
  obtain ⟨c0, hc0, h1, h2, _⟩ := h.activeHasCaller a ha
  have : c = c0 := eq_of_req_eq h.callersNodup hc hc0 (by rw [hr, h1])
  subst this
  rcases mem_trySend hmem with hm | hm
  · exact h.ownId c hc id tag' hm
  · unfold routed at hm
    split at hm
    · cases hm
    · cases hm; exact h2

/-- Lemma B: fixing the deadline of one entry. -/
theorem inv_deadline {pre rest : List Active} {a : Active} {cs : List Caller} (d : Option Nat)
    (h : Inv' (pre ++ a :: rest) cs) : Inv' (pre ++ { a with deadline := d } :: rest) cs := by
  refine ⟨by simpa using h.idsNodup, by simpa using h.reqsNodup, h.callersNodup, ?_, h.ownId, ?_⟩
  · intro a' ha'
    simp only [List.mem_append, List.mem_cons] at ha'
    rcases ha' with ha' | rfl | ha'
    · exact h.activeHasCaller a' (by simp [ha'])
    · exact h.activeHasCaller a (by simp)
    · exact h.activeHasCaller a' (by simp [ha'])
  · intro c hc htx
    obtain ⟨a', ha', har⟩ := h.txOpenActive c hc htx
    simp only [List.mem_append, List.mem_cons] at ha'
    rcases ha' with ha' | rfl | ha'
    · exact ⟨a', by simp [ha'], har⟩
    · exact ⟨{ a' with deadline := d }, by simp, har⟩
    · exact ⟨a', by simp [ha'], har⟩

theorem completeWithError_txClosed (ch : Chan) (x : Item) : (ch.completeWithError x).txClosed = true := rfl

theorem mem_completeWithError {ch : Chan} {x y : Item} (h : y ∈ (ch.completeWithError x).queue) :
    y ∈ ch.queue ∨ y = x := by
  unfold Chan.completeWithError at h
  exact mem_trySend h

/-- Lemma A: removing one entry and completing its caller with an error. -/
theorem inv_remove {pre rest : List Active} {a : Active} {cs : List Caller} (x : Item)
    (hx : ∀ id tag, x ≠ .resp id tag) (h : Inv' (pre ++ a :: rest) cs) :
    Inv' (pre ++ rest) (updChan cs a.req (·.completeWithError x)) := by
  have hreq := h.reqsNodup
  simp only [List.map_append, List.map_cons, List.nodup_append, List.nodup_cons, List.mem_map,
    List.mem_cons, not_exists, not_and] at hreq
  have hne : ∀ a' ∈ pre ++ rest, a'.req ≠ a.req := by
    intro a' ha' heq
    simp only [List.mem_append] at ha'
    rcases ha' with ha' | ha'
    · exact hreq.2.2 a'.req ⟨a', ha', rfl⟩ a.req (.inl rfl) heq
    · exact hreq.2.1.1 a' ha' heq
  refine ⟨?_, ?_, by rw [updChan_map_req]; exact h.callersNodup, ?_, ?_, ?_⟩
  · have := h.idsNodup
    simp only [List.map_append, List.map_cons, List.nodup_append, List.nodup_cons] at this ⊢
    exact ⟨this.1, this.2.1.2, fun x hx y hy => this.2.2 x hx y (List.mem_cons_of_mem _ hy)⟩
  · have := h.reqsNodup
    simp only [List.map_append, List.map_cons, List.nodup_append, List.nodup_cons] at this ⊢
    exact ⟨this.1, this.2.1.2, fun x hx y hy => this.2.2 x hx y (List.mem_cons_of_mem _ hy)⟩
  · intro a' ha'
    obtain ⟨c, hc, h1, h2, h3⟩ := h.activeHasCaller a' (by
      simp only [List.mem_append, List.mem_cons] at ha' ⊢; rcases ha' with h | h <;> simp [h])
    exact ⟨c, mem_updChan_of_ne hc (by rw [h1]; exact hne a' ha'), h1, h2, h3⟩
  · intro c' hc' id tag hmem
    obtain ⟨c, hc, rfl⟩ := mem_updChan.1 hc'
    split at hmem
    · rename_i hr
      simp only [hr, if_true]
      rcases mem_completeWithError hmem with hm | hm
      · exact h.ownId c hc id tag hm
      · exact absurd hm.symm (hx id tag)
    · rename_i hr
      simp only [hr]
      exact h.ownId c hc id tag hmem
  · intro c' hc' htx
    obtain ⟨c, hc, rfl⟩ := mem_updChan.1 hc'
    split at htx
    · simp [completeWithError_txClosed] at htx
    · rename_i hr
      obtain ⟨a', ha', har⟩ := h.txOpenActive c hc htx
      simp only [List.mem_append, List.mem_cons] at ha'
      simp only [hr]
      rcases ha' with ha' | rfl | ha'
      · exact ⟨a', by simp [ha'], har⟩
      · exact absurd har (by simpa using Ne.symm (by simpa using hr))
      · exact ⟨a', by simp [ha'], har⟩


theorem dropOne_cases (now timeout : Nat) (cs : List Caller) (a : Active) :
    dropOne now timeout cs a = (none, updChan cs a.req (·.completeWithError .errTimeout)) ∨
    dropOne now timeout cs a = (none, updChan cs a.req (·.completeWithError .errOther)) ∨
    ∃ d, dropOne now timeout cs a = (some { a with deadline := d }, cs) := by
  unfold dropOne
  simp only
  by_cases h1 : now ≥ a.deadline.getD (now + timeout)
  · exact .inl (by rw [if_pos h1])
  · rw [if_neg h1]
    cases isCanceled cs a.req
    · exact .inr (.inr ⟨_, rfl⟩)
    · exact .inr (.inl rfl)

theorem inv_dropCancelled (now timeout : Nat) (as pre : List Active) (cs : List Caller)
    (h : Inv' (pre ++ as) cs) :
    Inv' (pre ++ (dropCancelled now timeout as cs).1) (dropCancelled now timeout as cs).2 := by
  induction as generalizing pre cs with
  | nil => simpa [dropCancelled] using h
  | cons a as ih =>
    rcases dropOne_cases now timeout cs a with h1 | h1 | ⟨d, h1⟩
    · simp only [dropCancelled, h1]
      exact ih pre _ (inv_remove .errTimeout (by intro _ _ h; cases h) h)
    · simp only [dropCancelled, h1]
      exact ih pre _ (inv_remove .errOther (by intro _ _ h; cases h) h)
    · simp only [dropCancelled, h1]
      have := ih (pre ++ [{ a with deadline := d }]) cs (by simpa using inv_deadline d h)
      simpa using this

theorem inv_closeAll (as : List Active) (cs : List Caller) (h : Inv' as cs) :
    Inv' [] (closeAll as cs) := by
  induction as generalizing cs with
  | nil => simpa [closeAll] using h
  | cons a as ih =>
    simp only [closeAll]
    exact ih _ (by simpa using inv_remove (pre := []) .errOther (by intro _ _ h; cases h) h)

theorem inv_route {act : List Active} {cs : List Caller} (h : Inv' act cs) (p r : Bool) (id : Id) (tag : Nat) :
    Inv' act (route act cs p r id tag) := by
  unfold route
  split
  · split
    · rename_i a hf
      have ha : a ∈ act := List.mem_of_find?_eq_some hf
      have hid : a.id = id := by simpa using List.find?_some hf
      rw [← hid]; exact inv_route_to h ha tag
    · exact h
  · exact h

/-- the state invariant -/
def Inv (s : State) : Prop := Inv' s.active s.callers

theorem inv_qosLoop (fuel got : Nat) (s : State) (h : Inv s) : Inv (qosLoop fuel got s).1 := by
  induction fuel generalizing got s with
  | zero => simpa [qosLoop] using h
  | succ n ih =>
    unfold qosLoop
    split
    · exact h
    · exact ih _ _ (inv_route h _ _ _ _)
    · exact inv_closeAll _ _ h

theorem inv_poll (s : State) (h : Inv s) : Inv (poll s).1 := by
  unfold poll
  have h1 := inv_dropCancelled s.now s.timeout s.active [] s.callers (by simpa [Inv] using h)
  simp only [List.nil_append] at h1
  simp only
  split
  · exact h1
  · have := inv_qosLoop QOS_MAX_RECEIVE_MSGS 0
      { s with active := (dropCancelled s.now s.timeout s.active s.callers).1,
               callers := (dropCancelled s.now s.timeout s.active s.callers).2 } h1
    split <;> simp_all


theorem nextId_spec {ids draws : List Id} {id : Id} (h : nextId ids draws = some id) :
    id ∉ ids ∧ id ∈ draws.take ID_TRIES := by
  unfold nextId at h
  have h1 := List.find?_some h
  have h2 := List.mem_of_find?_eq_some h
  exact ⟨by simpa using h1, h2⟩

theorem nextId_none {ids draws : List Id} :
    nextId ids draws = none ↔ ∀ d ∈ draws.take ID_TRIES, d ∈ ids := by
  simp [nextId, List.find?_eq_none]

theorem caller?_none {s : State} {r : Req} (h : (s.caller? r).isSome = false) :
    ∀ c ∈ s.callers, c.req ≠ r := by
  intro c hc heq
  have : s.caller? r = none := by simpa using h
  simp only [State.caller?, List.find?_eq_none] at this
  exact this c hc (by simp [heq])

theorem inv_add_error_caller {act : List Active} {cs : List Caller} {r : Req} (h : Inv' act cs)
    (hr : ∀ c ∈ cs, c.req ≠ r) : Inv' act (cs ++ [errorCaller r]) := by
  refine ⟨h.idsNodup, h.reqsNodup, ?_, ?_, ?_, ?_⟩
  · simp only [List.map_append, List.map_cons, List.map_nil, List.nodup_append, List.nodup_cons,
      List.mem_map, List.mem_singleton]
    refine ⟨h.callersNodup, by simp, ?_⟩
    rintro x ⟨c, hc, rfl⟩ y rfl
    exact hr c hc
  · intro a ha
    obtain ⟨c, hc, h1⟩ := h.activeHasCaller a ha
    exact ⟨c, by simp [hc], h1⟩
  · intro c hc id tag hmem
    simp only [List.mem_append, List.mem_singleton] at hc
    rcases hc with hc | rfl
    · exact h.ownId c hc id tag hmem
    · simp [errorCaller] at hmem
  · intro c hc htx
    simp only [List.mem_append, List.mem_singleton] at hc
    rcases hc with hc | rfl
    · exact h.txOpenActive c hc htx
    · simp [errorCaller] at htx

theorem inv_add_active {act : List Active} {cs : List Caller} {r : Req} {id : Id} (sg : Bool) (h : Inv' act cs)
    (hr : ∀ c ∈ cs, c.req ≠ r) (hid : id ∉ act.map (·.id)) :
    Inv' (act ++ [{ id := id, req := r, signed := sg }]) (cs ++ [{ req := r, assigned := some id, chan := {} }]) := by
  have hra : ∀ a ∈ act, a.req ≠ r := by
    intro a ha heq
    obtain ⟨c, hc, h1, _⟩ := h.activeHasCaller a ha
    exact hr c hc (by rw [h1, heq])
  refine ⟨?_, ?_, ?_, ?_, ?_, ?_⟩
  · simp only [List.map_append, List.map_cons, List.map_nil, List.nodup_append, List.nodup_cons,
      List.mem_singleton]
    refine ⟨h.idsNodup, by simp, ?_⟩
    rintro x hx y rfl
    exact fun heq => hid (heq ▸ hx)
  · simp only [List.map_append, List.map_cons, List.map_nil, List.nodup_append, List.nodup_cons,
      List.mem_map, List.mem_singleton]
    refine ⟨h.reqsNodup, by simp, ?_⟩
    rintro x ⟨a, ha, rfl⟩ y rfl
    exact hra a ha
  · simp only [List.map_append, List.map_cons, List.map_nil, List.nodup_append, List.nodup_cons,
      List.mem_map, List.mem_singleton]
    refine ⟨h.callersNodup, by simp, ?_⟩
    rintro x ⟨c, hc, rfl⟩ y rfl
    exact hr c hc
  · intro a ha
    simp only [List.mem_append, List.mem_singleton] at ha
    rcases ha with ha | rfl
    · obtain ⟨c, hc, h1⟩ := h.activeHasCaller a ha
      exact ⟨c, by simp [hc], h1⟩
    · exact ⟨{ req := r, assigned := some id, chan := {} }, by simp, rfl, rfl, rfl⟩
  · intro c hc id' tag hmem
    simp only [List.mem_append, List.mem_singleton] at hc
    rcases hc with hc | rfl
    · exact h.ownId c hc id' tag hmem
    · simp at hmem
  · intro c hc htx
    simp only [List.mem_append, List.mem_singleton] at hc
    rcases hc with hc | rfl
    · obtain ⟨a, ha, har⟩ := h.txOpenActive c hc htx
      exact ⟨a, by simp [ha], har⟩
    · exact ⟨{ id := id, req := r, signed := sg }, by simp, rfl⟩

theorem inv_send {s s' : State} {r : Req} {draws : List Id} {enc sg : Bool} {res : SendResult} (h : Inv s)
    (hs : send s r draws enc sg = .ok (s', res)) : Inv s' := by
  unfold send at hs
  split at hs; · cases hs
  split at hs; · cases hs; exact h
  rename_i _ hc
  have hr := caller?_none (by simpa using hc)
  split at hs
  · cases hs; exact inv_add_error_caller h hr
  · split at hs
    · cases hs; exact inv_add_error_caller h hr
    · rename_i id hid
      split at hs
      · cases hs; exact inv_add_error_caller h hr
      · split at hs
        · cases hs; exact inv_add_error_caller h hr
        · cases hs
          exact inv_add_active sg h hr (nextId_spec hid).1

theorem recvChan_txClosed (ch : Chan) : ch.recv.1.txClosed = ch.txClosed := by
  unfold Chan.recv; split <;> rfl

theorem mem_recvChan {ch : Chan} {x : Item} (h : x ∈ ch.recv.1.queue) : x ∈ ch.queue := by
  unfold Chan.recv at h
  split at h <;> simp_all

theorem inv_recv (s : State) (r : Req) (h : Inv s) : Inv (recv s r).1 := by
  unfold recv
  split
  · exact h
  · split
    · exact h
    · exact inv_updChan_gen h recvChan_txClosed
        (fun c hc _ id tag hm => h.ownId c hc id tag (mem_recvChan hm))

theorem inv_cancel (s : State) (r : Req) (h : Inv s) : Inv (cancel s r) := by
  unfold cancel
  exact inv_updChan_gen (f := fun ch => { ch with rxClosed := true, queue := [] }) h (fun _ => rfl)
    (fun c hc _ id tag hm => by simp at hm)

theorem inv_step (s : State) (op : Op) (h : Inv s) : Inv (step s op) := by
  cases op with
  | send r draws enc sg =>
    simp only [step]
    split
    · rename_i s' res hs; exact inv_send h hs
    · exact h
  | deliver f => exact h
  | poll => exact inv_poll s h
  | recv r => exact inv_recv s r h
  | cancel r => exact inv_cancel s r h
  | advance dt => exact h
  | drain => exact h
  | shutdown => exact h

theorem inv_init (t m : Nat) : Inv (init t m) :=
  ⟨by simp [init], by simp [init], by simp [init], by simp [init], by simp [init], by simp [init]⟩

theorem inv_run (s : State) (ops : List Op) (h : Inv s) : Inv (run s ops) := by
  induction ops generalizing s with
  | nil => exact h
  | cons op ops ih => exact ih _ (inv_step s op h)


/-! ## the property theorems (multiplexer) -/

/-- the channel of caller `r` -/
def chanOf (cs : List Caller) (r : Req) : Option Chan := (cs.find? (·.req == r)).map (·.chan)

theorem chanOf_updChan (cs : List Caller) (r r' : Req) (f : Chan → Chan) :
    chanOf (updChan cs r f) r' = if r' = r then (chanOf cs r').map f else chanOf cs r' := by
  have hcomp : ((fun c : Caller => c.req == r') ∘
      fun c : Caller => if c.req == r then { c with chan := f c.chan } else c) = fun c => c.req == r' := by
    funext c; simp only [Function.comp]; split <;> rfl
  simp only [chanOf, updChan, List.find?_map, hcomp]
  cases hf : cs.find? (fun c => c.req == r') with
  | none => simp
  | some c =>
    have hc : c.req = r' := by simpa using List.find?_some hf
    by_cases h : r' = r
    · subst h; simp [hc]
    · have : ¬ c.req = r := by rw [hc]; exact h
      simp [h, this]

/-- **ids_distinct.** In every reachable state — whatever the RNG draws, whatever arrives, in any
order of sends, polls, cancellations, timeouts and closes — the ids of the in-flight requests are
pairwise distinct. -/
theorem ids_distinct (timeout maxActive : Nat) (ops : List Op) :
    ((run (init timeout maxActive) ops).active.map (·.id)).Nodup :=
  (inv_run _ ops (inv_init timeout maxActive)).idsNodup

/-- **callers_get_own_id.** In every reachable state, every response sitting in a caller's channel
carries the id that caller's request went out with. -/
theorem callers_get_own_id (timeout maxActive : Nat) (ops : List Op) :
    ∀ c ∈ (run (init timeout maxActive) ops).callers, ∀ id tag,
      Item.resp id tag ∈ c.chan.queue → c.assigned = some id :=
  (inv_run _ ops (inv_init timeout maxActive)).ownId

/-- … hence every response a caller ever takes out of its stream has its own id. -/
theorem recv_own_id (timeout maxActive : Nat) (ops : List Op) (r : Req) (id : Id) (tag : Nat)
    (h : (recv (run (init timeout maxActive) ops) r).2 = .ok id tag) :
    ∃ c, (run (init timeout maxActive) ops).caller? r = some c ∧ c.assigned = some id := by
  generalize hs : run (init timeout maxActive) ops = s at h
  have hinv : Inv s := hs ▸ inv_run _ ops (inv_init timeout maxActive)
  unfold recv at h
  split at h; · cases h
  rename_i c hc
  split at h; · cases h
  refine ⟨c, hc, ?_⟩
  have hmem : c ∈ s.callers := List.mem_of_find?_eq_some hc
  simp only at h
  unfold Chan.recv at h
  split at h <;> simp at h
  · rename_i id' tag' q hq
    obtain ⟨rfl, rfl⟩ := h
    exact hinv.ownId c hmem id' tag' (by rw [hq]; simp)
  · split at h <;> cases h

theorem find_active_of_nodup {act : List Active} (hn : (act.map (·.id)).Nodup) {a : Active}
    (ha : a ∈ act) : act.find? (·.id == a.id) = some a := by
  induction act with
  | nil => cases ha
  | cons x xs ih =>
    simp only [List.map_cons, List.nodup_cons, List.mem_map, not_exists, not_and] at hn
    simp only [List.mem_cons] at ha
    rcases ha with rfl | ha
    · simp
    · have : x.id ≠ a.id := fun h => hn.1 a ha h.symm
      simp [List.find?_cons, this, ih hn.2 ha]

/-- **route_by_id.** A decodable response whose id is that of the pending request `a` is offered
(`try_send`) to `a`'s caller, and the channel of every other caller is left exactly as it was. -/
theorem route_by_id {act : List Active} {cs : List Caller} (h : Inv' act cs) {a : Active}
    (ha : a ∈ act) (tag : Nat) :
    chanOf (route act cs true true a.id tag) a.req
        = (chanOf cs a.req).map (·.trySend (routed a a.id tag)) ∧
      ∀ r', r' ≠ a.req → chanOf (route act cs true true a.id tag) r' = chanOf cs r' := by
  have : route act cs true true a.id tag = updChan cs a.req (·.trySend (routed a a.id tag)) := by
    simp [route, find_active_of_nodup h.idsNodup ha]
  rw [this]
  exact ⟨by simp [chanOf_updChan], fun r' hr => by simp [chanOf_updChan, hr]⟩

/-- … and the caller does get it when it is still listening and has room. -/
theorem route_by_id_delivers {ch : Chan} {x : Item} (hrx : ch.rxClosed = false)
    (hroom : ch.queue.length < CHAN_CAP) : (ch.trySend x).queue = ch.queue ++ [x] := by
  unfold Chan.trySend
  have : ¬ (ch.queue.length ≥ CHAN_CAP) := by omega
  simp [hrx, this]

/-- **unknown_dropped.** A message whose id belongs to no pending request, or that does not decode,
or that is not a response, changes nothing. -/
theorem unknown_dropped (act : List Active) (cs : List Caller) (p r : Bool) (id : Id) (tag : Nat)
    (h : id ∉ act.map (·.id) ∨ p = false ∨ r = false) : route act cs p r id tag = cs := by
  unfold route
  rcases h with h | h | h
  · have : act.find? (·.id == id) = none := by
      simp only [List.find?_eq_none]
      intro a ha heq
      exact h (List.mem_map.2 ⟨a, ha, by simpa using heq⟩)
    simp [this]
  · simp [h]
  · simp [h]

theorem qosLoop_nil (fuel got : Nat) (s : State) (h : s.inbox = []) :
    qosLoop (fuel + 1) got s = (s, got, some { done := false, wake := false, streamPending := true }) := by
  rw [qosLoop, h]

theorem qosLoop_msg (fuel got : Nat) (s : State) (p r : Bool) (id : Id) (tag : Nat) (rest : List Frame)
    (h : s.inbox = .msg p r id tag :: rest) :
    qosLoop (fuel + 1) got s =
      qosLoop fuel (got + 1) { s with inbox := rest, callers := route s.active s.callers p r id tag } := by
  rw [qosLoop, h]

theorem qosLoop_close (fuel got : Nat) (s : State) (f : Frame) (rest : List Frame)
    (h : s.inbox = f :: rest) (hf : f = .err ∨ f = .eof) :
    qosLoop (fuel + 1) got s =
      ({ s with inbox := rest, callers := closeAll s.active s.callers, active := [], isShutdown := true },
        got, some { done := true, wake := false, streamPending := false }) := by
  rw [qosLoop, h]; rcases hf with rfl | rfl <;> rfl

/-- the same at the level of the receive loop: the frame is consumed, the rest of the state stays -/
theorem unknown_dropped_loop (fuel got : Nat) (s : State) (p r : Bool) (id : Id) (tag : Nat)
    (rest : List Frame) (hin : s.inbox = .msg p r id tag :: rest)
    (h : id ∉ s.activeIds ∨ p = false ∨ r = false) :
    qosLoop (fuel + 1) got s = qosLoop fuel (got + 1) { s with inbox := rest } := by
  rw [qosLoop_msg fuel got s p r id tag rest hin, unknown_dropped s.active s.callers p r id tag h]

theorem qosLoop_done (fuel got : Nat) (s : State) (r : PollResult)
    (h : (qosLoop fuel got s).2.2 = some r) (hd : r.done = true) :
    (qosLoop fuel got s).1.active = [] ∧ (qosLoop fuel got s).1.isShutdown = true := by
  induction fuel generalizing got s with
  | zero => simp [qosLoop] at h
  | succ n ih =>
    cases hin : s.inbox with
    | nil => rw [qosLoop_nil n got s hin] at h; simp at h; subst h; simp at hd
    | cons f rest =>
      cases f with
      | msg p r' id tag => rw [qosLoop_msg n got s p r' id tag rest hin] at h ⊢; exact ih _ _ h
      | err => rw [qosLoop_close n got s _ rest hin (.inl rfl)]; simp
      | eof => rw [qosLoop_close n got s _ rest hin (.inr rfl)]; simp

theorem qosLoop_pending (fuel got : Nat) (s : State) (r : PollResult)
    (h : (qosLoop fuel got s).2.2 = some r) (hd : r.done = false) :
    r.streamPending = true ∧ r.wake = false ∧ (qosLoop fuel got s).1.inbox = [] := by
  induction fuel generalizing got s with
  | zero => simp [qosLoop] at h
  | succ n ih =>
    cases hin : s.inbox with
    | nil => rw [qosLoop_nil n got s hin] at h ⊢; simp at h; subst h; simp [hin]
    | cons f rest =>
      cases f with
      | msg p r' id tag => rw [qosLoop_msg n got s p r' id tag rest hin] at h ⊢; exact ih _ _ h
      | err => rw [qosLoop_close n got s _ rest hin (.inl rfl)] at h; simp at h; subst h; simp at hd
      | eof => rw [qosLoop_close n got s _ rest hin (.inr rfl)] at h; simp at h; subst h; simp at hd

theorem qosLoop_none (fuel got : Nat) (s : State) (h : (qosLoop fuel got s).2.2 = none) :
    (qosLoop fuel got s).2.1 = got + fuel := by
  induction fuel generalizing got s with
  | zero => simp [qosLoop]
  | succ n ih =>
    cases hin : s.inbox with
    | nil => rw [qosLoop_nil n got s hin] at h; simp at h
    | cons f rest =>
      cases f with
      | msg p r' id tag =>
        rw [qosLoop_msg n got s p r' id tag rest hin] at h ⊢; rw [ih _ _ h]; omega
      | err => rw [qosLoop_close n got s _ rest hin (.inl rfl)] at h; simp at h
      | eof => rw [qosLoop_close n got s _ rest hin (.inr rfl)] at h; simp at h

theorem qosLoop_inbox (fuel got : Nat) (s : State) :
    s.inbox.length ≤ (qosLoop fuel got s).1.inbox.length + fuel := by
  induction fuel generalizing got s with
  | zero => simp [qosLoop]
  | succ n ih =>
    cases hin : s.inbox with
    | nil => simp
    | cons f rest =>
      cases f with
      | msg p r' id tag =>
        rw [qosLoop_msg n got s p r' id tag rest hin]
        have := ih (got + 1) { s with inbox := rest, callers := route s.active s.callers p r' id tag }
        simp only [List.length_cons] at this ⊢
        omega
      | err => rw [qosLoop_close n got s _ rest hin (.inl rfl)]; simp <;> omega
      | eof => rw [qosLoop_close n got s _ rest hin (.inr rfl)]; simp <;> omega

/-- **poll_progress.** When `poll_next` returns `Pending`, either the underlying stream returned
`Pending` during this call (so it holds the task's waker and will wake it when more arrives) or the
multiplexer asked to be polled again (`wake_by_ref`). It can therefore not be left asleep with
frames unread. -/
theorem poll_progress (s : State) (h : (poll s).2.done = false) :
    (poll s).2.streamPending = true ∨ (poll s).2.wake = true := by
  unfold poll at h ⊢
  simp only at h ⊢
  split
  · rename_i hc; simp [hc] at h
  · rename_i hc
    simp only [hc] at h
    generalize hq : qosLoop QOS_MAX_RECEIVE_MSGS 0 _ = q at h ⊢
    obtain ⟨s', got, o⟩ := q
    cases o with
    | some r =>
      simp only at h ⊢
      have := qosLoop_pending _ _ _ r (by rw [hq]) h
      exact .inl this.1
    | none =>
      simp only
      have := qosLoop_none _ _ _ (by rw [hq])
      simp only [hq] at this
      right; simp [this]

/-- if no self-wake was requested the stream has been read until it had nothing more -/
theorem poll_no_wake_drained (s : State) (h : (poll s).2.done = false) (hw : (poll s).2.wake = false) :
    (poll s).1.inbox = [] := by
  unfold poll at h hw ⊢
  simp only at h hw ⊢
  split
  · rename_i hc; simp [hc] at h
  · rename_i hc
    simp only [hc] at h hw
    generalize hq : qosLoop QOS_MAX_RECEIVE_MSGS 0 _ = q at h hw ⊢
    obtain ⟨s', got, o⟩ := q
    cases o with
    | some r =>
      simp only at h hw ⊢
      have := qosLoop_pending _ _ _ r (by rw [hq]) h
      simpa [hq] using this.2.2
    | none =>
      simp only at hw
      have := qosLoop_none _ _ _ (by rw [hq])
      simp only [hq] at this
      simp [this] at hw

/-- **QoS bound.** One `poll_next` reads at most 100 frames. -/
theorem poll_reads_at_most_100 (s : State) : s.inbox.length ≤ (poll s).1.inbox.length + 100 := by
  unfold poll
  simp only
  split
  · simp
  · have := qosLoop_inbox QOS_MAX_RECEIVE_MSGS 0
      { s with active := (dropCancelled s.now s.timeout s.active s.callers).1,
               callers := (dropCancelled s.now s.timeout s.active s.callers).2 }
    simp only [QOS_MAX_RECEIVE_MSGS] at this ⊢
    split <;> simp_all


theorem all_closed_of_no_active {s : State} (h : Inv s) (ha : s.active = []) :
    ∀ c ∈ s.callers, c.chan.txClosed = true := by
  intro c hc
  cases htx : c.chan.txClosed with
  | true => rfl
  | false =>
    obtain ⟨a, ha', _⟩ := h.txOpenActive c hc htx
    rw [ha] at ha'; cases ha'

theorem poll_done_active (s : State) (h : (poll s).2.done = true) : (poll s).1.active = [] := by
  unfold poll at h ⊢
  simp only at h ⊢
  split
  · rename_i hc
    simp only [Bool.and_eq_true, List.isEmpty_iff] at hc
    exact hc.2
  · rename_i hc
    simp only [hc] at h
    generalize hq : qosLoop QOS_MAX_RECEIVE_MSGS 0 _ = q at h ⊢
    obtain ⟨s', got, o⟩ := q
    cases o with
    | some r =>
      have := qosLoop_done _ _ _ r (by rw [hq]) h
      simpa [hq] using this.1
    | none => simp at h

/-- **close_fails_all.** When `poll_next` returns `Ready(None)` — the stream ended or failed, or the
multiplexer was shut down with nothing pending — no request is pending any more and the sender of
every caller's channel is gone, so (next theorem) no caller can be left waiting: each gets what was
already queued for it, then an error or the end of its stream. -/
theorem close_fails_all (s : State) (hinv : Inv s) (h : (poll s).2.done = true) :
    (poll s).1.active = [] ∧ ∀ c ∈ (poll s).1.callers, c.chan.txClosed = true :=
  ⟨poll_done_active s h, all_closed_of_no_active (inv_poll s hinv) (poll_done_active s h)⟩

/-- a caller whose channel has lost its sender is never told to wait -/
theorem closed_never_pending (ch : Chan) (h : ch.txClosed = true) : ch.recv.2 ≠ .pending := by
  unfold Chan.recv
  split <;> simp [h]

/-- … and within `queue.length + 1` polls it reaches the end of its stream -/
theorem closed_drains (ch : Chan) (h : ch.txClosed = true) (hq : ch.queue = []) : ch.recv.2 = .ended := by
  unfold Chan.recv; simp [hq, h]

/-- an error or end-of-stream frame at the head of the stream makes this `poll_next` the closing one -/
theorem close_frame_done (s : State) (f : Frame) (rest : List Frame) (hin : s.inbox = f :: rest)
    (hf : f = .err ∨ f = .eof) : (poll s).2.done = true := by
  unfold poll
  simp only
  split
  · rfl
  · have := qosLoop_close 99 0
      { s with active := (dropCancelled s.now s.timeout s.active s.callers).1,
               callers := (dropCancelled s.now s.timeout s.active s.callers).2 } f rest hin hf
    rw [show QOS_MAX_RECEIVE_MSGS = 99 + 1 from rfl, this]

/-- what each pending caller finds after the close: the error, if it still listens and has room -/
theorem closeAll_chan (as : List Active) (cs : List Caller) (hn : (as.map (·.req)).Nodup) (r : Req) :
    chanOf (closeAll as cs) r =
      if r ∈ as.map (·.req) then (chanOf cs r).map (·.completeWithError .errOther) else chanOf cs r := by
  induction as generalizing cs with
  | nil => simp [closeAll]
  | cons a as ih =>
    simp only [List.map_cons, List.nodup_cons] at hn
    simp only [closeAll, List.map_cons, List.mem_cons]
    rw [ih _ hn.2, chanOf_updChan]
    by_cases h1 : r = a.req
    · subst h1; simp [hn.1]
    · simp [h1]

theorem step_closed (s : State) (op : Op) (hs : s.isShutdown = true) (ha : s.active = []) :
    (step s op).isShutdown = true ∧ (step s op).active = [] := by
  cases op with
  | send r draws enc sg => simp [step, send, hs, ha]
  | deliver f => simp [step, hs, ha]
  | poll => simp [step, poll, ha, hs, dropCancelled]
  | recv r =>
    simp only [step, recv]
    split
    · exact ⟨hs, ha⟩
    · split
      · exact ⟨hs, ha⟩
      · exact ⟨hs, ha⟩
  | cancel r => simp [step, cancel, hs, ha]
  | advance dt => simp [step, hs, ha]
  | drain => simp [step, hs, ha]
  | shutdown => simp [step, ha]

/-- after the close nothing changes any more: the multiplexer stays shut down and empty -/
theorem after_close_stable (s : State) (hs : s.isShutdown = true) (ha : s.active = []) (ops : List Op) :
    (run s ops).isShutdown = true ∧ (run s ops).active = [] := by
  induction ops generalizing s with
  | nil => exact ⟨hs, ha⟩
  | cons op ops ih => exact ih _ (step_closed s op hs ha).1 (step_closed s op hs ha).2

/-- **send_fresh_id.** The id a request goes out with was drawn among the first 100 RNG values and
is not the id of any request in flight. -/
theorem send_fresh_id {s s' : State} {r : Req} {draws : List Id} {enc sg : Bool} {id : Id}
    (h : send s r draws enc sg = .ok (s', .sent id)) :
    id ∉ s.activeIds ∧ id ∈ draws.take ID_TRIES ∧
      s'.active = s.active ++ [{ id := id, req := r, signed := sg }] := by
  unfold send at h
  split at h; · cases h
  split at h; · cases h
  split at h; · cases h
  split at h
  · cases h
  · rename_i id' hid
    split at h
    · cases h
    · split at h
      · cases h
      · cases h
        exact ⟨(nextId_spec hid).1, (nextId_spec hid).2, rfl⟩

/-- **send_exhausted_errs.** If 100 draws in a row all hit ids in flight, `send_message` returns an
error stream and nothing is registered (no id is reused, nothing is sent). -/
theorem send_exhausted_errs (s : State) (r : Req) (draws : List Id) (enc sg : Bool) (hs : s.isShutdown = false)
    (hfresh : (s.caller? r).isSome = false) (hall : ∀ d ∈ draws.take ID_TRIES, d ∈ s.activeIds) :
    ∃ s', send s r draws enc sg = .ok (s', .err) ∧ s'.active = s.active ∧ s'.outQ = s.outQ := by
  unfold send
  simp only [hs, hfresh, Bool.false_eq_true, if_false]
  split
  · exact ⟨_, rfl, rfl, rfl⟩
  · rw [nextId_none.2 hall]
    exact ⟨_, rfl, rfl, rfl⟩

/-- **send_unencodable_errs.** A request that does not encode is answered with an error stream and
leaves the multiplexer as it was: no id taken, nothing written, nothing pending. -/
theorem send_unencodable_errs (s : State) (r : Req) (draws : List Id) (sg : Bool) (hs : s.isShutdown = false)
    (hfresh : (s.caller? r).isSome = false) :
    ∃ s', send s r draws false sg = .ok (s', .err) ∧ s'.active = s.active ∧ s'.outQ = s.outQ ∧
      s'.inbox = s.inbox := by
  unfold send
  simp only [hs, hfresh, Bool.false_eq_true, if_false]
  split
  · exact ⟨_, rfl, rfl, rfl, rfl⟩
  · split <;> exact ⟨_, rfl, rfl, rfl, rfl⟩

/-! ## non-vacuity (multiplexer) -/

section MuxExamples

/-- two requests in flight (ids 7 and 9) after the stream took both messages -/
def exS : State := run (init 1000 32) [.send 0 [7], .send 1 [7, 9], .drain]

-- the second request drew 7 first, which was in flight, and went out with 9
example : exS.activeIds = [7, 9] := by decide
-- responses arrive in the opposite order, plus one for an unknown id: each caller gets its own
example : (run exS [.deliver (.msg true true 9 100), .deliver (.msg true true 5 101),
      .deliver (.msg true true 7 102), .poll]).callers.map (fun c => (c.req, c.chan.queue)) =
    [(0, [.resp 7 102]), (1, [.resp 9 100])] := by decide
-- hypotheses of `route_by_id` / `unknown_dropped`
example : Inv exS := inv_run _ _ (inv_init _ _)
example : ({ id := 9, req := 1 } : Active) ∈ exS.active := by decide
example : 5 ∉ exS.active.map (·.id) := by decide
-- close with both pending: both callers get an error, then the end of their stream
example : (poll (run exS [.deliver .eof])).2.done = true := by decide
example : (run exS [.deliver .eof, .poll]).callers.map (fun c => (c.chan.queue, c.chan.txClosed)) =
    [([.errOther], true), ([.errOther], true)] := by decide
-- the QoS bound: 100 ready frames ⇒ Pending with a self-wake and without the stream having said Pending;
-- 99 ⇒ the stream was drained
example : (poll (run exS ((List.replicate 100 (.deliver (.msg true true 5 0)))))).2 =
    { done := false, wake := true, streamPending := false } := by decide +kernel
example : (poll (run exS ((List.replicate 99 (.deliver (.msg true true 5 0)))))).2 =
    { done := false, wake := false, streamPending := true } := by decide +kernel
-- id space exhausted for this RNG: every draw is in flight
example : (send exS 2 [7, 9, 7, 9]).toOption.map (·.2) = some .err := by decide
-- timeout: deadline fixed at the first poll, request failed at the first poll past it
example : (run exS [.poll, .advance 1000, .poll]).active = [] := by decide
example : ((run exS [.poll, .advance 1000, .poll]).callers.map (·.chan.queue)) =
    [[.errTimeout], [.errTimeout]] := by decide

end MuxExamples

end Multiplexer

end HickoryVerif.C16
