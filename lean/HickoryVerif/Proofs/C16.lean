/-
C16 — Only the queried server's matching reply completes a query.

Part 1 (UDP): theorems about `Model/UdpMatch.lean` (the model of `UdpRequest::send`, `retry`,
`send_message` in crates/net/src/udp/udp_client_stream.rs).
Part 2 (stream multiplexer): see below.
-/
import HickoryVerif.Model.UdpMatch
import HickoryVerif.Proofs.C04

namespace HickoryVerif.C16
open HickoryVerif HickoryVerif.UdpMatch HickoryVerif.Spec

/-! ## what "matching" means (the property's words, independent of the code's control flow) -/

/-- the same question up to ASCII case of the name -/
def SameQuestion (r q : Question) : Prop :=
  sameUpToCase r.name q.name ∧ r.qtype = q.qtype ∧ r.qclass = q.qclass

/-- `d` is a reply the property allows to complete the query `rq`: it came from the queried address
(canonical ip) and port, is a well-formed response, carries the query's id, and its question section
names only questions that were asked — letter for letter when case randomisation is on. -/
structure Matches (rq : Request) (d : Datagram) : Prop where
  ip : d.src.ip.canon = rq.server.ip.canon
  port : d.src.port = rq.server.port
  parses : d.parses = true
  response : d.isResponse = true
  id : d.id = rq.id
  asked : ∀ q ∈ d.questions, ∃ r ∈ rq.questions, SameQuestion r q
  sameCase : rq.caseRand = true → ∀ q ∈ d.questions, q ∈ rq.questions

/-! ## helper lemmas -/

theorem cmpLabel_cs_eq (l r : Bytes) : Name.cmpLabel false l r = .eq ↔ l = r := by
  fun_induction Name.cmpLabel false l r <;> simp_all [Name.cmpU8]
  all_goals (intro h; simp_all [Nat.compare_eq_eq])

theorem cmpRev_cs_eq (l r : List Bytes) : Name.cmpRev false l r = .eq ↔ l = r := by
  fun_induction Name.cmpRev false l r <;> simp_all [cmpLabel_cs_eq]
  all_goals (intro h; simp_all [cmpLabel_cs_eq])

/-- `Name::eq_case` is identity of names (labels letter for letter, and the fqdn flag). -/
theorem eqCase_iff (a b : Name) : Name.eqCase a b = true ↔ a = b := by
  cases a with | mk la fa => cases b with | mk lb fb =>
  cases fa <;> cases fb <;>
    simp [Name.eqCase, Name.cmpWithF, Name.cmpLabels, cmpRev_cs_eq]

theorem questionEq_iff (r q : Question) : r.eq q = true ↔ SameQuestion r q := by
  simp [Question.eq, SameQuestion, C04.eq_iff, and_assoc]

theorem asked_iff (rq : Request) (q : Question) :
    asked rq q = true ↔ ∃ r ∈ rq.questions, SameQuestion r q := by
  simp [asked, List.any_eq_true, questionEq_iff]

theorem askedCase_iff (rq : Request) (q : Question) :
    askedCase rq q = true ↔ q ∈ rq.questions := by
  simp only [askedCase, List.any_eq_true, Bool.and_eq_true, eqCase_iff, questionEq_iff]
  constructor
  · rintro ⟨r, hr, ⟨_, ht, hc⟩, hn⟩
    cases r; cases q; simp_all
  · intro h
    exact ⟨q, h, ⟨⟨rfl, rfl⟩, rfl, rfl⟩, rfl⟩

/-- a question that is in the list letter for letter is in particular asked -/
theorem askedCase_asked (rq : Request) (q : Question) (h : askedCase rq q = true) : asked rq q = true := by
  rw [askedCase_iff] at h
  rw [asked_iff]
  exact ⟨q, h, ⟨rfl, rfl⟩, rfl, rfl⟩

/-! ## one datagram -/

/-- the loop body as a boolean condition -/
theorem examineD_accept_bool (rq : Request) (d : Datagram) :
    examineD rq d = .accept ↔
      (sourceOk rq d = true ∧ d.parses = true ∧ d.isResponse = true ∧ rq.id = d.id ∧
        d.questions.all (asked rq) = true ∧
        (rq.caseRand = true → d.questions.all (askedCase rq) = true)) := by
  unfold examineD
  cases hs : sourceOk rq d <;> cases hp : d.parses <;> cases hr : d.isResponse <;>
    cases hc : rq.caseRand <;> cases hq : d.questions.all (asked rq) <;>
    cases hk : d.questions.all (askedCase rq) <;>
    by_cases hid : rq.id = d.id <;> simp [hid]

/-- The loop body accepts a datagram exactly when it matches. -/
theorem examineD_accept_iff (rq : Request) (d : Datagram) :
    examineD rq d = .accept ↔ Matches rq d := by
  rw [examineD_accept_bool]
  constructor
  · rintro ⟨hs, hp, hr, hid, hq, hc⟩
    simp only [sourceOk, Bool.and_eq_true, decide_eq_true_eq] at hs
    refine ⟨hs.1, hs.2, hp, hr, hid.symm, ?_, ?_⟩
    · intro q hqm
      exact (asked_iff rq q).1 (List.all_eq_true.1 hq q hqm)
    · intro hcr q hqm
      exact (askedCase_iff rq q).1 (List.all_eq_true.1 (hc hcr) q hqm)
  · intro m
    refine ⟨by simp [sourceOk, m.ip, m.port], m.parses, m.response, m.id.symm, ?_, ?_⟩
    · exact List.all_eq_true.2 fun q hqm => (asked_iff rq q).2 (m.asked q hqm)
    · exact fun hcr => List.all_eq_true.2 fun q hqm => (askedCase_iff rq q).2 (m.sameCase hcr q hqm)

/-- Which non-matching datagrams end the transmission with an error instead of being skipped:
from the right source and either not a decodable response, or (with case randomisation) right id and
only asked questions but with different letter case. -/
theorem examineD_fail_iff (rq : Request) (d : Datagram) :
    (∃ w, examineD rq d = .fail w) ↔
      sourceOk rq d = true ∧
        (d.parses = false ∨ d.isResponse = false ∨
          (rq.id = d.id ∧ rq.caseRand = true ∧ d.questions.all (asked rq) = true ∧
            d.questions.all (askedCase rq) = false)) := by
  unfold examineD
  cases hs : sourceOk rq d <;> cases hp : d.parses <;> cases hr : d.isResponse <;>
    cases hc : rq.caseRand <;> cases hq : d.questions.all (asked rq) <;>
    cases hk : d.questions.all (askedCase rq) <;>
    by_cases hid : rq.id = d.id <;> simp [hid]

/-- Everything else that does not match is skipped (`continue`). -/
theorem examineD_trichotomy (rq : Request) (d : Datagram) :
    Matches rq d ∨ (∃ w, examineD rq d = .skip w) ∨ (∃ w, examineD rq d = .fail w) := by
  cases h : examineD rq d with
  | accept => exact .inl ((examineD_accept_iff rq d).1 h)
  | skip w => exact .inr (.inl ⟨w, rfl⟩)
  | fail w => exact .inr (.inr ⟨w, rfl⟩)

/-! ## one transmission -/

theorem recvLoop_accept {rq : Request} {n i : Nat} {es : List Event} {j : Nat}
    (h : recvLoop rq n i es = .accept j) :
    i ≤ j ∧ j < i + n ∧ (∃ d, es[j - i]? = some (.dgram d) ∧ Matches rq d) ∧
      ∀ k, k < j - i → ∃ e w, es[k]? = some e ∧ examine rq e = .skip w := by
  fun_induction recvLoop rq n i es with
  | case1 => cases h
  | case2 => cases h
  | case3 n i e es hacc =>
    cases h
    refine ⟨Nat.le_refl _, by omega, ?_, by intro k hk; omega⟩
    cases e with
    | ioErr => simp [examine] at hacc
    | dgram d => exact ⟨d, by simp, (examineD_accept_iff rq d).1 hacc⟩
  | case4 n i e es w hf => cases h
  | case5 n i e es w hs ih =>
    obtain ⟨h1, h2, ⟨d, hd, hm⟩, hpre⟩ := ih h
    refine ⟨by omega, by omega, ⟨d, ?_, hm⟩, ?_⟩
    · have : j - i = (j - (i + 1)) + 1 := by omega
      rw [this]; simpa using hd
    · intro k hk
      cases k with
      | zero => exact ⟨e, w, by simp, hs⟩
      | succ k =>
        obtain ⟨e', w', he', hw'⟩ := hpre k (by omega)
        exact ⟨e', w', by simpa using he', hw'⟩

/-- **udp_accept_only_matching.** If a transmission completes with a response, that response is one
of the first three datagrams that arrived on its socket, it matches the query on source address,
source port, id and questions (and letter case under case randomisation), and every datagram before
it was skipped. -/
theorem udp_accept_only_matching (rq : Request) (es : List Event) (j : Nat)
    (h : recv rq es = .accept j) :
    j < 3 ∧ (∃ d, es[j]? = some (.dgram d) ∧ Matches rq d) ∧
      ∀ k, k < j → ∃ e w, es[k]? = some e ∧ examine rq e = .skip w := by
  have := recvLoop_accept (rq := rq) (n := MAX_EXAMINED) (i := 0) (es := es) (j := j) h
  simpa [MAX_EXAMINED] using this

/-- **udp_never_accepts_nonmatching.** A transmission ends in exactly one of four ways: it accepts a
matching datagram, it fails, it gives up after three datagrams, or it is still waiting.  In
particular a datagram that does not match is never the one accepted. -/
theorem udp_never_accepts_nonmatching (rq : Request) (es : List Event) :
    (∃ j d, recv rq es = .accept j ∧ es[j]? = some (.dgram d) ∧ Matches rq d) ∨
      (∃ j w, recv rq es = .fail j w) ∨ recv rq es = .exceeded ∨ (∃ c, recv rq es = .starved c) := by
  cases h : recv rq es with
  | accept j =>
    obtain ⟨_, ⟨d, hd, hm⟩, _⟩ := udp_accept_only_matching rq es j h
    exact .inl ⟨j, d, rfl, hd, hm⟩
  | fail j w => exact .inr (.inl ⟨j, w, rfl⟩)
  | exceeded => exact .inr (.inr (.inl rfl))
  | starved c => exact .inr (.inr (.inr ⟨c, rfl⟩))

theorem udp_nonmatching_not_accepted (rq : Request) (es : List Event) (j : Nat) (d : Datagram)
    (hd : es[j]? = some (.dgram d)) (hn : ¬ Matches rq d) : recv rq es ≠ .accept j := by
  intro h
  obtain ⟨_, ⟨d', hd', hm⟩, _⟩ := udp_accept_only_matching rq es j h
  rw [hd] at hd'; cases hd'; exact hn hm

theorem recvLoop_take (rq : Request) (n i : Nat) (es : List Event) :
    recvLoop rq n i (es.take n) = recvLoop rq n i es := by
  fun_induction recvLoop rq n i es with
  | case1 => simp [recvLoop]
  | case2 => simp [recvLoop]
  | case3 n i e es h => simp [recvLoop, h]
  | case4 n i e es w h => simp [recvLoop, h]
  | case5 n i e es w h ih => simp [recvLoop, h, ih]

/-- **udp_depends_on_first_three.** The outcome of a transmission is a function of the first three
`recv_from` results only: whatever arrives later is never looked at. -/
theorem udp_depends_on_first_three (rq : Request) (es : List Event) :
    recv rq es = recv rq (es.take 3) := by
  simpa [recv, MAX_EXAMINED] using (recvLoop_take rq 3 0 es).symm

theorem recvLoop_consumed (rq : Request) (n i : Nat) (es : List Event) :
    (recvLoop rq n i es).consumed ≤ i + min n es.length ∨ (recvLoop rq n i es = .exceeded) := by
  fun_induction recvLoop rq n i es with
  | case1 => right; rfl
  | case2 => left; simp [RecvOutcome.consumed]
  | case3 n i e es h => left; simp only [RecvOutcome.consumed, List.length_cons]; omega
  | case4 n i e es w h => left; simp only [RecvOutcome.consumed, List.length_cons]; omega
  | case5 n i e es w h ih =>
    rcases ih with ih | ih
    · left; simp only [List.length_cons]; omega
    · right; exact ih

/-- **udp_examined_le_three.** A transmission takes at most three datagrams from its socket. -/
theorem udp_examined_le_three (rq : Request) (es : List Event) : (recv rq es).consumed ≤ 3 := by
  rcases recvLoop_consumed rq MAX_EXAMINED 0 es with h | h
  · simp only [recv]; simp only [MAX_EXAMINED] at h ⊢; omega
  · rw [recv, h]; simp [RecvOutcome.consumed, MAX_EXAMINED]

theorem recvLoop_skip_prefix (rq : Request) (pre : List Event) (n i : Nat) (rest : List Event)
    (hskip : ∀ e ∈ pre, ∃ w, examine rq e = .skip w) :
    recvLoop rq (pre.length + n) i (pre ++ rest) = recvLoop rq n (i + pre.length) rest := by
  induction pre generalizing i with
  | nil => simp
  | cons e pre ih =>
    obtain ⟨w, hw⟩ := hskip e (by simp)
    have : (e :: pre).length + n = (pre.length + n) + 1 := by simp; omega
    rw [this, List.cons_append, recvLoop, hw]
    simp only
    rw [ih (i + 1) (fun e he => hskip e (by simp [he]))]
    congr 1; simp; omega

/-- **udp_accepts_genuine** (the other direction: the filter is not over-strict). A matching reply
that arrives among the first three, after datagrams that are all of a skipped kind, is accepted. -/
theorem udp_accepts_genuine (rq : Request) (pre post : List Event) (d : Datagram)
    (hlen : pre.length < 3) (hskip : ∀ e ∈ pre, ∃ w, examine rq e = .skip w) (hm : Matches rq d) :
    recv rq (pre ++ .dgram d :: post) = .accept pre.length := by
  have h3 : MAX_EXAMINED = pre.length + ((2 - pre.length) + 1) := by simp [MAX_EXAMINED]; omega
  rw [recv, h3, recvLoop_skip_prefix rq pre _ 0 _ hskip, recvLoop]
  simp [examine, (examineD_accept_iff rq d).2 hm]

/-! ## the whole query (retransmissions + overall timeout) -/

theorem completion_accept {rq : Request} {start : Nat} {s : List Timed} {t j : Nat}
    (h : completion rq start s = some (t, .accept j)) :
    j < 3 ∧ ∃ δ d, s[j]? = some (δ, .dgram d) ∧ Matches rq d := by
  unfold completion at h
  have hr : recv rq (s.map Prod.snd) = .accept j := by
    cases hh : recv rq (s.map Prod.snd) with
    | accept idx => simp [hh] at h; rw [h.2]
    | fail _ _ => simp [hh] at h
    | exceeded => simp [hh] at h
    | starved _ => simp [hh] at h
  obtain ⟨hj, ⟨d, hd, hm⟩, _⟩ := udp_accept_only_matching rq _ j hr
  refine ⟨hj, ?_⟩
  rw [List.getElem?_map] at hd
  cases hs : s[j]? with
  | none => simp [hs] at hd
  | some x =>
    obtain ⟨δ, e⟩ := x
    simp [hs] at hd
    exact ⟨δ, d, by simp [hd], hm⟩

theorem earliest_spec {c : Config} {rq : Request} {n i : Nat} {ss : List (List Timed)}
    {t k : Nat} {o : RecvOutcome} (h : earliest c rq n i ss = some (t, k, o)) :
    i ≤ k ∧ k < i + n ∧ t < c.timeout ∧
      completion rq (k * c.interval) (ss.getD (k - i) []) = some (t, o) := by
  induction n generalizing i ss t k o with
  | zero => simp [earliest] at h
  | succ n ih =>
    unfold earliest at h
    simp only at h
    have hrest : ∀ {t k o}, earliest c rq n (i + 1) ss.tail = some (t, k, o) →
        i ≤ k ∧ k < i + (n + 1) ∧ t < c.timeout ∧
          completion rq (k * c.interval) (ss.getD (k - i) []) = some (t, o) := by
      intro t k o hr
      obtain ⟨h1, h2, h3, h4⟩ := ih hr
      refine ⟨by omega, by omega, h3, ?_⟩
      have : k - i = (k - (i + 1)) + 1 := by omega
      rw [this]
      cases ss with
      | nil => simpa using h4
      | cons s ss => simpa using h4
    have hhead : ∀ {t o}, completion rq (i * c.interval) (ss.headD []) = some (t, o) →
        completion rq (i * c.interval) (ss.getD (i - i) []) = some (t, o) := by
      intro t o hc
      cases ss <;> simpa using hc
    split at h
    · rename_i t0 o0 hc
      split at h
      · rename_i hlt
        split at h
        · rename_i t' i' o' hr
          split at h
          · cases h; exact hrest hr
          · cases h; exact ⟨Nat.le_refl _, by omega, hlt, hhead hc⟩
        · cases h; exact ⟨Nat.le_refl _, by omega, hlt, hhead hc⟩
      · exact hrest h
    · exact hrest h

/-- **udp_query_accept_only_matching.** If `send_message` yields a response, it is one of the first
three datagrams on the socket of one of the at most `max(1, max_retries)` transmissions, and it
matches the query. -/
theorem udp_query_accept_only_matching (c : Config) (rq : Request) (ss : List (List Timed))
    (t j : Nat) (h : query c rq ss = .ok t j) :
    t < c.tasks ∧ j < 3 ∧ ∃ δ d, (ss.getD t [])[j]? = some (δ, .dgram d) ∧ Matches rq d := by
  unfold query at h
  cases he : earliest c rq c.tasks 0 ss with
  | none => simp [he, outcomeOf] at h
  | some x =>
    obtain ⟨t0, k, o⟩ := x
    rw [he] at h
    cases o <;> simp [outcomeOf] at h
    obtain ⟨rfl, rfl⟩ := h
    obtain ⟨_, hk, _, hc⟩ := earliest_spec he
    obtain ⟨hj, hd⟩ := completion_accept hc
    exact ⟨by omega, hj, by simpa using hd⟩

/-- **udp_query_outcomes.** A query ends with a matching response, an error, or the timeout. -/
theorem udp_query_never_accepts_nonmatching (c : Config) (rq : Request) (ss : List (List Timed)) :
    (∃ t j δ d, query c rq ss = .ok t j ∧ (ss.getD t [])[j]? = some (δ, .dgram d) ∧ Matches rq d) ∨
      query c rq ss = .err ∨ query c rq ss = .timeout := by
  cases h : query c rq ss with
  | ok t j =>
    obtain ⟨_, _, δ, d, hd, hm⟩ := udp_query_accept_only_matching c rq ss t j h
    exact .inl ⟨t, j, δ, d, rfl, hd, hm⟩
  | err => exact .inr (.inl rfl)
  | timeout => exact .inr (.inr rfl)

theorem takenBy_go_le (tEnd : Nat) (w : Bool) (t k : Nat) (l : List Timed) :
    takenBy.go tEnd w t k l ≤ k + l.length := by
  induction l generalizing t k with
  | nil => simp [takenBy.go]
  | cons x l ih =>
    obtain ⟨d, e⟩ := x
    simp only [takenBy.go, List.length_cons]
    split
    · have := ih (t + d) (k + 1); omega
    · omega

theorem takenBy_le_three (rq : Request) (start tEnd : Nat) (w : Bool) (s : List Timed) :
    takenBy rq start tEnd w s ≤ 3 := by
  show takenBy.go tEnd w start 0 (s.take (recv rq (s.map Prod.snd)).consumed) ≤ 3
  have h1 := takenBy_go_le tEnd w start 0 (s.take (recv rq (s.map Prod.snd)).consumed)
  have h2 := udp_examined_le_three rq (s.map Prod.snd)
  simp only [List.length_take] at h1
  omega

/-- **udp_query_examined_le_three.** No transmission of a query takes more than three datagrams
from its socket. -/
theorem udp_query_examined_le_three (c : Config) (rq : Request) (ss : List (List Timed)) :
    ∀ n ∈ consumedList c rq ss, n ≤ 3 := by
  intro n hn
  simp only [consumedList, List.mem_filterMap] at hn
  obtain ⟨i, _, hi⟩ := hn
  split at hi
  · cases hi; exact takenBy_le_three _ _ _ _ _
  · cases hi

/-! ## non-vacuity: concrete values satisfying the hypotheses above -/

section Examples

def exName : Name := { labels := [[69, 120, 65, 109], [99, 111, 109]], fqdn := true }       -- ExAm.com.
def exNameLower : Name := { labels := [[101, 120, 97, 109], [99, 111, 109]], fqdn := true }  -- exam.com.
def exQ : Question := { name := exName, qtype := 1, qclass := 1 }
def exQlower : Question := { name := exNameLower, qtype := 1, qclass := 1 }
def exSrv : Addr := { ip := .v4 3232235777, port := 53 }
def exRq : Request := { server := exSrv, id := 4660, questions := [exQ], caseRand := true }
def exGenuine : Datagram := { src := exSrv, parses := true, isResponse := true, id := 4660, questions := [exQ] }
/-- same address written as `::ffff:192.168.1.1` -/
def exMapped : Datagram := { exGenuine with src := { ip := .v6 281473913979137, port := 53 } }
def exWrongPort : Datagram := { exGenuine with src := { ip := .v4 3232235777, port := 5353 } }
def exWrongId : Datagram := { exGenuine with id := 4661 }
def exCaseFlip : Datagram := { exGenuine with questions := [exQlower] }
def exGarbage : Datagram := { exGenuine with parses := false }

-- two forged datagrams are skipped, the genuine third one is accepted
example : recv exRq [.dgram exWrongPort, .dgram exWrongId, .dgram exGenuine] = .accept 2 := by decide
-- a fourth datagram is never looked at: three forged ones exhaust the transmission
example : recv exRq [.dgram exWrongPort, .dgram exWrongId, .dgram exWrongPort, .dgram exGenuine] = .exceeded := by decide
-- the v4-mapped spelling of the server address is the same source
example : recv exRq [.dgram exMapped] = .accept 0 := by decide
-- with case randomisation a reply in different letter case fails the query …
example : recv exRq [.dgram exCaseFlip, .dgram exGenuine] = .fail 0 .caseMismatch := by decide
-- … and is accepted without it
example : recv { exRq with caseRand := false } [.dgram exCaseFlip] = .accept 0 := by decide
-- garbage from the right source fails the transmission (it is not skipped)
example : recv exRq [.dgram exGarbage, .dgram exGenuine] = .fail 0 .parse := by decide
-- hypotheses of `udp_accepts_genuine`
example : Matches exRq exGenuine := (examineD_accept_iff _ _).1 (by decide)
example : ∀ e ∈ [Event.dgram exWrongPort, .dgram exWrongId], ∃ w, examine exRq e = .skip w := by
  intro e he; simp at he; rcases he with rfl | rfl
  · exact ⟨.source, by decide⟩
  · exact ⟨.id, by decide⟩
-- a query: first transmission sees only forged datagrams, the retransmission's socket gets the reply
example : query { timeout := 5010, interval := 1000, maxRetries := 3 } exRq
    [[(5, .dgram exWrongId)], [(7, .dgram exWrongPort), (20, .dgram exGenuine)]] = .ok 1 1 := by decide
example : consumedList { timeout := 5010, interval := 1000, maxRetries := 3 } exRq
    [[(5, .dgram exWrongId)], [(7, .dgram exWrongPort), (20, .dgram exGenuine)]] = [1, 2] := by decide
-- nothing matching ever arrives: timeout, not acceptance
example : query { timeout := 5010, interval := 1000, maxRetries := 2 } exRq
    [[(5, .dgram exWrongId)], [(7, .dgram exWrongPort)]] = .timeout := by decide

end Examples

end HickoryVerif.C16
