/-
Ties between the hand-written name model and the constants/tables regenerated from /repo's
source on every run (tools/extract_consts.py → Generated/*.lean).  If a limit changes in the Rust
source these `rfl`s stop checking and the check reports a broken proof obligation.
-/
import HickoryVerif.Generated.Consts
import HickoryVerif.Generated.Tables
import HickoryVerif.Model.Name
import HickoryVerif.Proofs.C04Bounds

namespace HickoryVerif.C04
open HickoryVerif

/-- `Name::MAX_LENGTH` of the source is the 255 the model and `Bounded` use. -/
theorem tie_name_max_length : Name.MAX_LENGTH = Generated.NAME_MAX_LENGTH := rfl
theorem tie_name_max_length_255 : Generated.NAME_MAX_LENGTH = 255 := rfl
/-- the label bound of `Label::from_raw_bytes` is the 63 of `labelFromRaw` and `Bounded`. -/
theorem tie_label_max_length : Generated.LABEL_MAX_LENGTH = 63 := rfl

/-- The two `RecordType` code tables of the source are mutually inverse on named types. -/
theorem recordType_tables_inverse :
    (∀ p ∈ Generated.recordTypeOfCode, Generated.recordTypeToCode.lookup p.2 = some p.1) ∧
    (∀ p ∈ Generated.recordTypeToCode, Generated.recordTypeOfCode.lookup p.2 = some p.1) := by
  decide +kernel

theorem dnsClass_tables_inverse :
    (∀ p ∈ Generated.dnsClassOfCode, Generated.dnsClassToCode.lookup p.2 = some p.1) ∧
    (∀ p ∈ Generated.dnsClassToCode, Generated.dnsClassOfCode.lookup p.2 = some p.1) := by
  decide +kernel

end HickoryVerif.C04
