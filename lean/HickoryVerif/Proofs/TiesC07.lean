/-
Ties between the literals of the C07 model (Model/Chain.lean) and the constants / code tables regenerated
from /repo's source on every run.  `MAX_KEY_TAG_COLLISIONS` and `MAX_RRSIGS_PER_RRSET` are used by the model
directly from `Generated.Consts`.
-/
import HickoryVerif.Generated.Consts
import HickoryVerif.Generated.Tables
import HickoryVerif.Model.Chain

namespace HickoryVerif.C07
open HickoryVerif HickoryVerif.Chain

/-- the record type codes the model dispatches on are those of `RecordType` -/
theorem tie_record_types :
    Generated.recordTypeToCode.lookup "NS" = some tNS ∧
    Generated.recordTypeToCode.lookup "SOA" = some tSOA ∧
    Generated.recordTypeToCode.lookup "DS" = some tDS ∧
    Generated.recordTypeToCode.lookup "RRSIG" = some tRRSIG ∧
    Generated.recordTypeToCode.lookup "NSEC" = some tNSEC ∧
    Generated.recordTypeToCode.lookup "DNSKEY" = some tDNSKEY ∧
    Generated.recordTypeToCode.lookup "NSEC3" = some tNSEC3 ∧
    Generated.recordTypeToCode.lookup "ANY" = some 255 := by
  decide

/-- the fuel of a top-level validation with default options (`max_request_depth + 1`) is the 27 of the examples -/
theorem tie_default_fuel : Generated.DEFAULT_MAX_REQUEST_DEPTH + 1 = 27 := rfl

/-- the key-tag collision cap and the RRSIG cap the model reads are the source's 2 and 8 -/
theorem tie_caps : Generated.MAX_KEY_TAG_COLLISIONS = 2 ∧ Generated.MAX_RRSIGS_PER_RRSET = 8 := ⟨rfl, rfl⟩

end HickoryVerif.C07
