/-
C09 — NSEC3 denial of existence: soundness of `verify_nsec3` (model `Model/Nsec3.lean`) against
`Spec/Denial3.lean`, for all names, all record lists, all zone views and all hash functions.

Standing hypothesis on the encoder: `EncOrd enc` — comparing two encoded hashes as `Label`s gives the
byte-wise order of the hashes (base32hex is order preserving; sampled for the concrete encoder by the
harness, see `checks/C09.json`).  No hypothesis on `H`; collision-freeness is assumed only where a
*matching* record is used (`NoCollisionAt`), never for the covering (non-existence) arguments.

Every theorem is stated for an arbitrary combination of repairs `fx`; the hypotheses of the form
`fx.wrap = true ∨ NoWrap …` are the explicit decidable side conditions the proof forces for the code
as it is (`asIs`, all switches off): they are exactly the recorded findings.
-/
import HickoryVerif.Proofs.C04
import HickoryVerif.Proofs.C09Gate
import HickoryVerif.Spec.Denial3

namespace HickoryVerif.C09
open HickoryVerif HickoryVerif.Nsec3 HickoryVerif.Denial3 Std

/-- the encoder is an order embedding of hashes into labels -/
def EncOrd (enc : Bytes → Bytes) : Prop :=
  ∀ x y, Name.cmpLabel true (enc x) (enc y) = compare x y

/-! ### order facts -/

theorem cmp_eq_iff {a b : Bytes} : compare a b = .eq ↔ a = b :=
  ⟨LawfulEqCmp.eq_of_compare, fun h => h ▸ ReflCmp.compare_self⟩

theorem cmp_gt_iff {a b : Bytes} : compare a b = .gt ↔ compare b a = .lt := by
  rw [OrientedCmp.eq_swap (cmp := (compare : Bytes → Bytes → Ordering)) (a := a) (b := b)]
  cases compare b a <;> simp [Ordering.swap]

theorem hlt_irrefl (a : Bytes) : ¬ hlt a a := by
  simp [hlt, ReflCmp.compare_self]

theorem hlt_trans {a b c : Bytes} (h₁ : hlt a b) (h₂ : hlt b c) : hlt a c :=
  TransCmp.lt_trans h₁ h₂

theorem hlt_asymm {a b : Bytes} (h₁ : hlt a b) : ¬ hlt b a := fun h₂ =>
  hlt_irrefl a (hlt_trans h₁ h₂)

/-- labels equal as `Label`s compare alike against anything -/
theorem cmpLabel_congr {a b c : Bytes} (h : labelEq a b = true) :
    Name.cmpLabel true a c = Name.cmpLabel true b c := by
  simp only [labelEq, beq_iff_eq, C04.cmpLabel_ci] at h
  rw [C04.cmpLabel_ci, C04.cmpLabel_ci, cmp_eq_iff.mp h]

section
variable {fx : Fixes} {H : Name → Bytes} {enc : Bytes → Bytes}

/-- what the code's label comparisons say about hashes when the owner label encodes `ho` -/
theorem label_vs_enc (hE : EncOrd enc) {l ho x : Bytes} (hl : labelEq l (enc ho) = true) :
    Name.cmpLabel true l (enc x) = compare ho x := by
  rw [cmpLabel_congr hl, hE]

/-- `find_covering_record`'s closure, read on hashes.  With the repaired wrap-around arm, or for a
record that is not a wrap-around record, "covers" means "strictly inside the link". -/
theorem covers_inside (hE : EncOrd enc) {r : Pair} {ho th : Bytes}
    (hl : labelEq r.label (enc ho) = true)
    (hw : fx.wrap = true ∨ labelLt r.label (enc r.data.next) = true)
    (hc : covers fx enc r th (enc th) = true) : Inside ho r.data.next th := by
  unfold covers at hc
  split at hc
  · simp at hc
  · rename_i nl hnl
    have hnl' : nl = enc r.data.next := by
      simp only [nextLabel] at hnl
      split at hnl
      · simp at hnl
      · simpa using hnl.symm
    subst hnl'
    simp only [labelEq, labelLt, labelGt, bytesLt, bytesGt, label_vs_enc hE hl,
      C04.cmpLabel_cs] at hc hw
    unfold Inside hlt
    by_cases h1 : compare ho r.data.next = .lt
    · simp only [h1, if_true]
      by_cases h0 : compare ho th = .eq
      · simp [h0] at hc
      · simp [h0, h1] at hc
        exact hc
    · have hwr : fx.wrap = true := by
        rcases hw with h | h
        · exact h
        · simp at h; exact absurd h h1
      simp only [h1, if_false]
      by_cases h0 : compare ho th = .eq
      · simp [h0] at hc
      · simp [h0, h1, hwr] at hc
        exact hc

/-- no record of the input is a wrap-around record (owner label not below the label of next) -/
def NoWrap (enc : Bytes → Bytes) (recs : List Rec) : Prop :=
  ∀ r ∈ recs, ∀ l rest, r.owner.labels = l :: rest → labelLt l (enc r.next) = true

/-- **Covering is sound, without any assumption on the hash**: a name whose hash the validator finds
covered does not exist in any zone view the records are consistent with — unless the covering
record is Opt-Out, in which case it can only be an insecure delegation. -/
theorem findCovering_sound (hE : EncOrd enc) {soa : Option Name} {recs : List Rec}
    {pairs : List Pair} (hp : mkPairs soa recs = some pairs) {Z : ZoneView}
    (hc : ConsistentWith3 H enc recs Z) (hw : fx.wrap = true ∨ NoWrap enc recs)
    {t : List Bytes} {x : Pair}
    (h : findCovering fx enc pairs (H (mk t)) (enc (H (mk t))) = some x) (ht : Z.has t) :
    x.data.optOut = true ∧ Z.InsecureDelegation t := by
  unfold findCovering at h
  have hx := List.mem_of_find?_eq_some h
  have hcov := List.find?_some h
  obtain ⟨hmem, ⟨rest, hlab⟩, _⟩ := mkPairs_spec hp x hx
  obtain ⟨l, rest', n, ts, hown, _, _, hl, _, hins⟩ := hc _ hmem
  have hll : x.label = l := by
    rw [hown] at hlab
    simp at hlab
    exact hlab.1.symm
  subst hll
  refine hins t ht (covers_inside (fx := fx) hE hl ?_ hcov)
  rcases hw with h | h
  · exact .inl h
  · exact .inr (h _ hmem _ _ hown)

/-- the hash is collision free at name `t` as far as the zone view is concerned -/
def NoCollisionAt (H : Name → Bytes) (Z : ZoneView) (t : List Bytes) : Prop :=
  ∀ n, Z.has n → H (mk n) = H (mk t) → n = t

/-- **Matching**: a record whose owner label is the encoded hash of `t` describes `t` (given no
collision at `t`): `t` exists with exactly the record's types. -/
theorem findMatching_sound (hE : EncOrd enc) {soa : Option Name} {recs : List Rec}
    {pairs : List Pair} (hp : mkPairs soa recs = some pairs) {Z : ZoneView}
    (hc : ConsistentWith3 H enc recs Z) {t : List Bytes} (hinj : NoCollisionAt H Z t) {x : Pair}
    (h : findMatching pairs (enc (H (mk t))) = some x) :
    ∃ ts, Z.types t = some ts ∧ ∀ ty, ty ∈ x.data.types ↔ ty ∈ ts := by
  unfold findMatching at h
  have hx := List.mem_of_find?_eq_some h
  have hm := List.find?_some h
  obtain ⟨hmem, ⟨rest, hlab⟩, _⟩ := mkPairs_spec hp x hx
  obtain ⟨l, rest', n, ts, hown, _, hts, hl, htypes, _⟩ := hc _ hmem
  have hll : x.label = l := by
    rw [hown] at hlab
    simp at hlab
    exact hlab.1.symm
  subst hll
  have : compare (H (mk n)) (H (mk t)) = .eq := by
    rw [← label_vs_enc hE hl]
    simpa [labelEq] using hm
  have hnt : n = t := hinj n (by simp [ZoneView.has, hts]) (cmp_eq_iff.mp this)
  subst hnt
  exact ⟨ts, hts, htypes⟩

/-! ### helper facts about names and zone views -/

theorem appendLabels_labels {n r : Name} {ls : List Bytes} (h : Name.appendLabels n ls = .ok r) :
    r.labels = n.labels ++ ls ∧ r.fqdn = n.fqdn := by
  induction ls generalizing n with
  | nil => simp [Name.appendLabels] at h; subst h; simp
  | cons l ls ih =>
    simp only [Name.appendLabels] at h
    cases ha : n.appendLabel l with
    | ok n' =>
      rw [ha] at h
      simp only [Outcome.bind_ok] at h
      obtain ⟨h1, h2⟩ := ih h
      simp only [Name.appendLabel] at ha
      cases hl : Name.labelFromRaw l with
      | ok l' =>
        rw [hl] at ha
        simp only [Outcome.bind_ok, Name.extendName] at ha
        have hl' : l' = l := by
          simp only [Name.labelFromRaw] at hl
          split at hl
          · simp at hl
          · split at hl
            · simp at hl
            · simpa using hl.symm
        subst hl'
        split at ha
        · simp at ha
        · simp at ha
          subst ha
          simp_all
      | err => rw [hl] at ha; simp at ha
      | panic s => rw [hl] at ha; simp at ha
    | err => rw [ha] at h; simp at h
    | panic s => rw [ha] at h; simp at h

/-- `Name::from_labels` returns the fully qualified name with exactly these labels -/
theorem fromLabels_eq_mk {ls : List Bytes} {n : Name} (h : Name.fromLabels ls = .ok n) : n = mk ls := by
  unfold Name.fromLabels at h
  split at h
  · simp at h
  · split at h
    · simp at h
    · obtain ⟨h1, h2⟩ := appendLabels_labels h
      cases n
      simp_all [mk, Name.root]

theorem fqdn_eq_mk {q : Name} (h : q.fqdn = true) : q = mk q.labels := by
  cases q; simp_all [mk]

/-- the empty-non-terminal rule, iterated: an existing name below `s` makes `s` exist -/
theorem has_of_has_append {Z : ZoneView} (hZ : Z.WF) (pre s : List Bytes)
    (hs : Z.apex.length ≤ s.length) (h : Z.has (pre ++ s)) : Z.has s := by
  induction pre with
  | nil => simpa using h
  | cons l pre ih =>
    apply ih
    exact hZ.closed l (pre ++ s) h (by simp; omega)

theorem numLabels_le (q : Name) : q.numLabels ≤ q.labels.length := by
  unfold Name.numLabels
  split <;> omega

section
variable {fx : Fixes} {H : Name → Bytes} {enc : Bytes → Bytes}
variable {soa : Option Name} {recs : List Rec} {pairs : List Pair} {Z : ZoneView}

/-- no record of the input has the Opt-Out flag -/
def NoOptOut (recs : List Rec) : Prop := ∀ r ∈ recs, r.optOut = false

/-- no record of the input is the parent-side record of a delegation -/
def NoDelegNS (recs : List Rec) : Prop := ∀ r ∈ recs, isDelegNS r = false

/-- **§8.5 / §8.6, matching record** (case 2).  Needs no collision at QNAME.  The RFC 6840 §4.1
clause needs the `deleg` repair or an input without parent-side delegation records (finding). -/
theorem nodata_match_sound (hE : EncOrd enc) (hp : mkPairs soa recs = some pairs)
    (hc : ConsistentWith3 H enc recs Z) {q : List Bytes} {qtype : Nat}
    (hinj : NoCollisionAt H Z q) {r : Pair}
    (hm : findMatching pairs (enc (H (mk q))) = some r)
    (hs : nodataMatch fx qtype r = .secure)
    (hd : fx.deleg = true ∨ NoDelegNS recs) :
    ClaimNoData Z q qtype := by
  obtain ⟨ts, hts, htypes⟩ := findMatching_sound hE hp hc hinj hm
  have hmem : r.data ∈ recs := (mkPairs_spec hp r (List.mem_of_find?_eq_some hm)).1
  unfold nodataMatch at hs
  split at hs
  · cases hs
  · rename_i h1
    simp only [Bool.or_eq_true, List.contains_iff_mem, not_or] at h1
    split at hs
    · cases hs
    · rename_i h2
      refine ⟨?_, ?_, ?_⟩
      · rintro ⟨ts', h, ht⟩
        rw [hts] at h; cases h
        exact h1.1 ((htypes _).mpr ht)
      · rintro ⟨ts', h, ht⟩
        rw [hts] at h; cases h
        exact h1.2 ((htypes _).mpr ht)
      · intro hds ⟨⟨ts1, hns1, hns⟩, hsoa⟩
        rw [hts] at hns1; cases hns1
        have hdel : isDelegNS r.data = true := by
          have hnosoa : r.data.types.contains tSOA = false := by
            cases hcon : r.data.types.contains tSOA with
            | false => rfl
            | true =>
              exact absurd ⟨ts, hts, (htypes _).mp (List.contains_iff_mem.mp hcon)⟩ hsoa
          simp only [isDelegNS, Bool.and_eq_true, List.contains_iff_mem, hnosoa]
          exact ⟨(htypes _).mpr hns, rfl⟩
        rcases hd with hd | hd
        · simp [hd, hdel, hds] at h2
        · have := hd _ hmem
          simp [hdel] at this

/-- **§8.6, Opt-Out** (case 3): QNAME covered by an Opt-Out record ⇒ no DS RRset at QNAME.  No
assumption on the hash.  (The wrap-around finding is the only side condition.) -/
theorem ds_optout_sound (hE : EncOrd enc) (hp : mkPairs soa recs = some pairs)
    (hc : ConsistentWith3 H enc recs Z) (hw : fx.wrap = true ∨ NoWrap enc recs)
    {q : List Bytes} {qtype : Nat}
    (h : dsOptOut fx H enc (mk q) qtype pairs = true) : ClaimNoDS Z q := by
  unfold dsOptOut at h
  simp only [Bool.and_eq_true] at h
  obtain ⟨_, h⟩ := h
  split at h
  · rename_i x hx
    intro ⟨ts, hts, hds⟩
    have hhas : Z.has q := by simp [ZoneView.has, hts]
    obtain ⟨_, ⟨_, hnods⟩⟩ := findCovering_sound hE hp hc hw hx hhas
    exact hnods ⟨ts, hts, hds⟩
  · simp at h

/-- **§8.8, wildcard answer** (case 4): the record covering the next closer name proves that no
ancestor-or-self of QNAME longer than the wildcard's parent exists.  No assumption on the hash.
Side conditions for the code as it is: no wrap-around record, no Opt-Out record (findings). -/
theorem wildcard_answer_sound (hE : EncOrd enc) (hp : mkPairs soa recs = some pairs)
    (hc : ConsistentWith3 H enc recs Z) (hZ : Z.WF)
    (hw : fx.wrap = true ∨ NoWrap enc recs) (ho : fx.optout = true ∨ NoOptOut recs)
    {q : Name} {k : Nat} (hk : Z.apex.length ≤ k)
    (h : nodataWildAnswer fx H enc q k pairs = .secure) : ClaimWildcardAnswer Z q.labels k := by
  unfold nodataWildAnswer at h
  split at h
  · cases h
  · rename_i hnl
    have hlen : k < q.labels.length := by
      have := numLabels_le q
      omega
    split at h
    · rename_i nc hnc
      have hncmk := fromLabels_eq_mk hnc
      subst hncmk
      simp only [info] at h
      split at h
      · rename_i ncr hcov
        split at h
        · cases h
        · rename_i hoo
          refine ⟨hlen, ?_⟩
          intro a ha hka hhas
          -- the next closer name is a suffix of `a`
          have hsuf : lastLabels q (k + 1) <:+ q.labels := List.drop_suffix _ _
          have hl : (lastLabels q (k + 1)).length = k + 1 := by
            simp [lastLabels]; omega
          have hsa : lastLabels q (k + 1) <:+ a :=
            List.suffix_of_suffix_length_le hsuf ha (by omega)
          obtain ⟨pre, rfl⟩ := hsa
          have hnc : Z.has (lastLabels q (k + 1)) :=
            has_of_has_append hZ pre _ (by omega) hhas
          obtain ⟨hopt, _⟩ := findCovering_sound hE hp hc hw hcov hnc
          have hmem : ncr.data ∈ recs :=
            (mkPairs_spec hp ncr (List.mem_of_find?_eq_some hcov)).1
          rcases ho with ho | ho
          · simp [ho, hopt] at hoo
          · have := ho _ hmem
            simp [hopt] at this
      · cases h
    · cases h

end

end

end HickoryVerif.C09
