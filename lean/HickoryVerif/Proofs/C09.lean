/-
C09 — NSEC3 denial of existence: soundness of `verify_nsec3` (model `Model/Nsec3.lean`) against
`Spec/Denial3.lean`, for all names, all record lists, all zone views and all hash functions.

Standing hypothesis on the encoder: `EncOrd enc` — comparing two encoded hashes as `Label`s gives the
byte-wise order of the hashes; it is *proved* for the concrete base32hex encoder in
`Proofs/C09Base32.lean`, and `Proofs/C09Main.lean` restates the property theorems for it.  On `H` only
`HashWF` (values are octet strings); collision-freeness is assumed only where a *matching* record is
used (`NoCollisionAt`), never for the covering (non-existence) arguments.

Every theorem is stated for an arbitrary combination of repairs `fx`; the hypotheses of the form
`fx.wrap = true ∨ NoWrap …` are the explicit decidable side conditions the proof forces when a repair
is not applied.  For the code as it is (`current`: `apex`, `wild`, `deleg` applied) only `NoWrap` and
`NoOptOut` remain — the two open findings; for the pinned snapshot (`pinned`, all switches off) all
five were needed.
-/
import HickoryVerif.Proofs.C04
import HickoryVerif.Proofs.C09Gate
import HickoryVerif.Spec.Denial3

namespace HickoryVerif.C09
open HickoryVerif HickoryVerif.Nsec3 HickoryVerif.Denial3 Std

/-- the encoder is an order embedding of hashes (octet strings) into labels; proved for the concrete
base32hex encoder in `Proofs/C09Base32.lean` (`base32hex_order`) -/
def EncOrd (enc : Bytes → Bytes) : Prop :=
  ∀ x y, Bytes.WF x → Bytes.WF y → Name.cmpLabel true (enc x) (enc y) = compare x y

/-- hashes and next-hash fields are octet strings (every element < 256) -/
structure HashWF (H : Name → Bytes) (recs : List Rec) : Prop where
  hash : ∀ n, Bytes.WF (H n)
  next : ∀ r ∈ recs, Bytes.WF r.next

/-! ### order facts -/

theorem cmp_eq_iff {a b : Bytes} : compare a b = .eq ↔ a = b :=
  ⟨LawfulEqCmp.eq_of_compare, fun h => h ▸ ReflCmp.compare_self⟩

theorem cmp_gt_iff {a b : Bytes} : compare a b = .gt ↔ compare b a = .lt := by
  rw [OrientedCmp.eq_swap (cmp := (compare : Bytes → Bytes → Ordering)) (a := a) (b := b)]
  cases compare b a <;> simp [Ordering.swap]

theorem hlt_irrefl (a : Bytes) : ¬ hlt a a := by
  simp [hlt, ReflCmp.compare_self]

theorem hlt_trans {a b c : Bytes} (h₁ : hlt a b) (h₂ : hlt b c) : hlt a c :=
  TransCmp.lt_trans h₁ h₂

theorem hlt_asymm {a b : Bytes} (h₁ : hlt a b) : ¬ hlt b a := fun h₂ =>
  hlt_irrefl a (hlt_trans h₁ h₂)

/-- labels equal as `Label`s compare alike against anything -/
theorem cmpLabel_congr {a b c : Bytes} (h : labelEq a b = true) :
    Name.cmpLabel true a c = Name.cmpLabel true b c := by
  simp only [labelEq, beq_iff_eq, C04.cmpLabel_ci] at h
  rw [C04.cmpLabel_ci, C04.cmpLabel_ci, cmp_eq_iff.mp h]

section
variable {fx : Fixes} {H : Name → Bytes} {enc : Bytes → Bytes}

/-- what the code's label comparisons say about hashes when the owner label encodes `ho` -/
theorem label_vs_enc (hE : EncOrd enc) {l ho x : Bytes} (hl : labelEq l (enc ho) = true)
    (hho : Bytes.WF ho) (hx : Bytes.WF x) :
    Name.cmpLabel true l (enc x) = compare ho x := by
  rw [cmpLabel_congr hl, hE _ _ hho hx]

/-- `find_covering_record`'s closure, read on hashes.  With the repaired wrap-around arm, or for a
record that is not a wrap-around record, "covers" means "strictly inside the link". -/
theorem covers_inside (hE : EncOrd enc) {r : Pair} {ho th : Bytes}
    (hl : labelEq r.label (enc ho) = true)
    (hho : Bytes.WF ho) (hth : Bytes.WF th) (hnx : Bytes.WF r.data.next)
    (hw : fx.wrap = true ∨ labelLt r.label (enc r.data.next) = true)
    (hc : covers fx enc r th (enc th) = true) : Inside ho r.data.next th := by
  have e1 : Name.cmpLabel true r.label (enc th) = compare ho th := label_vs_enc hE hl hho hth
  have e2 : Name.cmpLabel true r.label (enc r.data.next) = compare ho r.data.next :=
    label_vs_enc hE hl hho hnx
  unfold covers at hc
  split at hc
  · simp at hc
  · rename_i nl hnl
    have hnl' : nl = enc r.data.next := by
      simp only [nextLabel] at hnl
      split at hnl
      · simp at hnl
      · simpa using hnl.symm
    subst hnl'
    simp only [labelEq, labelLt, labelGt, bytesLt, bytesGt, e1, e2,
      C04.cmpLabel_cs] at hc hw
    unfold Inside hlt
    by_cases h1 : compare ho r.data.next = .lt
    · simp only [h1, if_true]
      by_cases h0 : compare ho th = .eq
      · simp [h0] at hc
      · simp [h0, h1] at hc
        exact hc
    · have hwr : fx.wrap = true := by
        rcases hw with h | h
        · exact h
        · simp at h; exact absurd h h1
      simp only [h1, if_false]
      by_cases h0 : compare ho th = .eq
      · simp [h0] at hc
      · simp [h0, h1, hwr] at hc
        exact hc

/-- no record of the input is a wrap-around record (owner label not below the label of next) -/
def NoWrap (enc : Bytes → Bytes) (recs : List Rec) : Prop :=
  ∀ r ∈ recs, ∀ l rest, r.owner.labels = l :: rest → labelLt l (enc r.next) = true

/-- **Covering is sound, without any assumption on the hash**: a name whose hash the validator finds
covered does not exist in any zone view the records are consistent with — unless the covering
record is Opt-Out, in which case it can only be an insecure delegation. -/
theorem findCovering_sound (hE : EncOrd enc) {soa : Option Name} {recs : List Rec}
    (hwf : HashWF H recs)
    {pairs : List Pair} (hp : mkPairs soa recs = some pairs) {Z : ZoneView}
    (hc : ConsistentWith3 H enc recs Z) (hw : fx.wrap = true ∨ NoWrap enc recs)
    {t : List Bytes} {x : Pair}
    (h : findCovering fx enc pairs (H (mk t)) (enc (H (mk t))) = some x) (ht : Z.has t) :
    x.data.optOut = true ∧ Z.InsecureDelegation t := by
  unfold findCovering at h
  have hx := List.mem_of_find?_eq_some h
  have hcov := List.find?_some h
  obtain ⟨hmem, ⟨rest, hlab⟩, _⟩ := mkPairs_spec hp x hx
  obtain ⟨l, rest', n, ts, hown, _, _, hl, _, hins⟩ := hc _ hmem
  have hll : x.label = l := by
    rw [hown] at hlab
    simp at hlab
    exact hlab.1.symm
  subst hll
  refine hins t ht (covers_inside (fx := fx) hE hl (hwf.hash _) (hwf.hash _) (hwf.next _ hmem) ?_ hcov)
  rcases hw with h | h
  · exact .inl h
  · exact .inr (h _ hmem _ _ hown)

/-- the hash is collision free at name `t` as far as the zone view is concerned -/
def NoCollisionAt (H : Name → Bytes) (Z : ZoneView) (t : List Bytes) : Prop :=
  ∀ n, Z.has n → H (mk n) = H (mk t) → n = t

/-- **Matching**: a record whose owner label is the encoded hash of `t` describes `t` (given no
collision at `t`): `t` exists with exactly the record's types. -/
theorem findMatching_sound (hE : EncOrd enc) {soa : Option Name} {recs : List Rec}
    (hwf : HashWF H recs)
    {pairs : List Pair} (hp : mkPairs soa recs = some pairs) {Z : ZoneView}
    (hc : ConsistentWith3 H enc recs Z) {t : List Bytes} (hinj : NoCollisionAt H Z t) {x : Pair}
    (h : findMatching pairs (enc (H (mk t))) = some x) :
    ∃ ts, Z.types t = some ts ∧ ∀ ty, ty ∈ x.data.types ↔ ty ∈ ts := by
  unfold findMatching at h
  have hx := List.mem_of_find?_eq_some h
  have hm := List.find?_some h
  obtain ⟨hmem, ⟨rest, hlab⟩, _⟩ := mkPairs_spec hp x hx
  obtain ⟨l, rest', n, ts, hown, _, hts, hl, htypes, _⟩ := hc _ hmem
  have hll : x.label = l := by
    rw [hown] at hlab
    simp at hlab
    exact hlab.1.symm
  subst hll
  have : compare (H (mk n)) (H (mk t)) = .eq := by
    rw [← label_vs_enc hE hl (hwf.hash _) (hwf.hash _)]
    simpa [labelEq] using hm
  have hnt : n = t := hinj n (by simp [ZoneView.has, hts]) (cmp_eq_iff.mp this)
  subst hnt
  exact ⟨ts, hts, htypes⟩

/-! ### helper facts about names and zone views -/

theorem appendLabels_labels {n r : Name} {ls : List Bytes} (h : Name.appendLabels n ls = .ok r) :
    r.labels = n.labels ++ ls ∧ r.fqdn = n.fqdn := by
  induction ls generalizing n with
  | nil => simp [Name.appendLabels] at h; subst h; simp
  | cons l ls ih =>
    simp only [Name.appendLabels] at h
    cases ha : n.appendLabel l with
    | ok n' =>
      rw [ha] at h
      simp only [Outcome.bind_ok] at h
      obtain ⟨h1, h2⟩ := ih h
      simp only [Name.appendLabel] at ha
      cases hl : Name.labelFromRaw l with
      | ok l' =>
        rw [hl] at ha
        simp only [Outcome.bind_ok, Name.extendName] at ha
        have hl' : l' = l := by
          simp only [Name.labelFromRaw] at hl
          split at hl
          · simp at hl
          · split at hl
            · simp at hl
            · simpa using hl.symm
        subst hl'
        split at ha
        · simp at ha
        · simp at ha
          subst ha
          simp_all
      | err => rw [hl] at ha; simp at ha
      | panic s => rw [hl] at ha; simp at ha
    | err => rw [ha] at h; simp at h
    | panic s => rw [ha] at h; simp at h

/-- `Name::from_labels` returns the fully qualified name with exactly these labels -/
theorem fromLabels_eq_mk {ls : List Bytes} {n : Name} (h : Name.fromLabels ls = .ok n) : n = mk ls := by
  unfold Name.fromLabels at h
  split at h
  · simp at h
  · split at h
    · simp at h
    · obtain ⟨h1, h2⟩ := appendLabels_labels h
      cases n
      simp_all [mk, Name.root]

theorem fqdn_eq_mk {q : Name} (h : q.fqdn = true) : q = mk q.labels := by
  cases q; simp_all [mk]

/-- the empty-non-terminal rule, iterated: an existing name below `s` makes `s` exist -/
theorem has_of_has_append {Z : ZoneView} (hZ : Z.WF) (pre s : List Bytes)
    (hs : Z.apex.length ≤ s.length) (h : Z.has (pre ++ s)) : Z.has s := by
  induction pre with
  | nil => simpa using h
  | cons l pre ih =>
    apply ih
    exact hZ.closed l (pre ++ s) h (by simp; omega)

theorem numLabels_le (q : Name) : q.numLabels ≤ q.labels.length := by
  unfold Name.numLabels
  split <;> omega

section
variable {fx : Fixes} {H : Name → Bytes} {enc : Bytes → Bytes}
variable {soa : Option Name} {recs : List Rec} {pairs : List Pair} {Z : ZoneView}

/-- no record of the input has the Opt-Out flag -/
def NoOptOut (recs : List Rec) : Prop := ∀ r ∈ recs, r.optOut = false

/-- no record of the input is the parent-side record of a delegation -/
def NoDelegNS (recs : List Rec) : Prop := ∀ r ∈ recs, isDelegNS r = false

/-- **§8.5 / §8.6, matching record** (case 2).  Needs no collision at QNAME.  The RFC 6840 §4.1
clause needs the `deleg` repair or an input without parent-side delegation records (finding). -/
theorem nodata_match_sound (hE : EncOrd enc) (hwf : HashWF H recs)
    (hp : mkPairs soa recs = some pairs)
    (hc : ConsistentWith3 H enc recs Z) {q : List Bytes} {qtype : Nat}
    (hinj : NoCollisionAt H Z q) {r : Pair}
    (hm : findMatching pairs (enc (H (mk q))) = some r)
    (hs : nodataMatch fx qtype r = .secure)
    (hd : fx.deleg = true ∨ NoDelegNS recs) :
    ClaimNoData Z q qtype := by
  obtain ⟨ts, hts, htypes⟩ := findMatching_sound hE hwf hp hc hinj hm
  have hmem : r.data ∈ recs := (mkPairs_spec hp r (List.mem_of_find?_eq_some hm)).1
  unfold nodataMatch at hs
  split at hs
  · cases hs
  · rename_i h1
    simp only [Bool.or_eq_true, List.contains_iff_mem, not_or] at h1
    split at hs
    · cases hs
    · rename_i h2
      refine ⟨?_, ?_, ?_⟩
      · rintro ⟨ts', h, ht⟩
        rw [hts] at h; cases h
        exact h1.1 ((htypes _).mpr ht)
      · rintro ⟨ts', h, ht⟩
        rw [hts] at h; cases h
        exact h1.2 ((htypes _).mpr ht)
      · intro hds ⟨⟨ts1, hns1, hns⟩, hsoa⟩
        rw [hts] at hns1; cases hns1
        have hdel : isDelegNS r.data = true := by
          have hnosoa : r.data.types.contains tSOA = false := by
            cases hcon : r.data.types.contains tSOA with
            | false => rfl
            | true =>
              exact absurd ⟨ts, hts, (htypes _).mp (List.contains_iff_mem.mp hcon)⟩ hsoa
          simp only [isDelegNS, Bool.and_eq_true, List.contains_iff_mem, hnosoa]
          exact ⟨(htypes _).mpr hns, rfl⟩
        rcases hd with hd | hd
        · simp [hd, hdel, hds] at h2
        · have := hd _ hmem
          simp [hdel] at this

/-- **§8.6, Opt-Out** (case 3): QNAME covered by an Opt-Out record ⇒ no DS RRset at QNAME.  No
assumption on the hash.  (The wrap-around finding is the only side condition.) -/
theorem ds_optout_sound (hE : EncOrd enc) (hwf : HashWF H recs)
    (hp : mkPairs soa recs = some pairs)
    (hc : ConsistentWith3 H enc recs Z) (hw : fx.wrap = true ∨ NoWrap enc recs)
    {q : List Bytes} {qtype : Nat}
    (h : dsOptOut fx H enc (mk q) qtype pairs = true) : ClaimNoDS Z q := by
  unfold dsOptOut at h
  simp only [Bool.and_eq_true] at h
  obtain ⟨_, h⟩ := h
  split at h
  · rename_i x hx
    intro ⟨ts, hts, hds⟩
    have hhas : Z.has q := by simp [ZoneView.has, hts]
    obtain ⟨_, ⟨_, hnods⟩⟩ := findCovering_sound hE hwf hp hc hw hx hhas
    exact hnods ⟨ts, hts, hds⟩
  · simp at h

/-- **§8.8, wildcard answer** (case 4): the record covering the next closer name proves that no
ancestor-or-self of QNAME longer than the wildcard's parent exists.  No assumption on the hash.
Side conditions for the code as it is: no wrap-around record, no Opt-Out record (findings). -/
theorem wildcard_answer_sound (hE : EncOrd enc) (hwf : HashWF H recs)
    (hp : mkPairs soa recs = some pairs)
    (hc : ConsistentWith3 H enc recs Z) (hZ : Z.WF)
    (hw : fx.wrap = true ∨ NoWrap enc recs) (ho : fx.optout = true ∨ NoOptOut recs)
    {q : Name} {k : Nat} (hk : Z.apex.length ≤ k)
    (h : nodataWildAnswer fx H enc q k pairs = .secure) : ClaimWildcardAnswer Z q.labels k := by
  unfold nodataWildAnswer at h
  split at h
  · cases h
  · rename_i hnl
    have hlen : k < q.labels.length := by
      have := numLabels_le q
      omega
    split at h
    · rename_i nc hnc
      have hncmk := fromLabels_eq_mk hnc
      subst hncmk
      simp only [info] at h
      split at h
      · rename_i ncr hcov
        split at h
        · cases h
        · rename_i hoo
          refine ⟨hlen, ?_⟩
          intro a ha hka hhas
          -- the next closer name is a suffix of `a`
          have hsuf : lastLabels q (k + 1) <:+ q.labels := List.drop_suffix _ _
          have hl : (lastLabels q (k + 1)).length = k + 1 := by
            simp [lastLabels]; omega
          have hsa : lastLabels q (k + 1) <:+ a :=
            List.suffix_of_suffix_length_le hsuf ha (by omega)
          obtain ⟨pre, rfl⟩ := hsa
          have hnc : Z.has (lastLabels q (k + 1)) :=
            has_of_has_append hZ pre _ (by omega) hhas
          obtain ⟨hopt, _⟩ := findCovering_sound hE hwf hp hc hw hcov hnc
          have hmem : ncr.data ∈ recs :=
            (mkPairs_spec hp ncr (List.mem_of_find?_eq_some hcov)).1
          rcases ho with ho | ho
          · simp [ho, hopt] at hoo
          · have := ho _ hmem
            simp [hopt] at this
      · cases h
    · cases h

end

end

/-! ### the closest encloser proof -/

theorem labelEq_symm {a b : Bytes} (h : labelEq a b = true) : labelEq b a = true := by
  simp only [labelEq, beq_iff_eq, C04.cmpLabel_ci] at h ⊢
  rw [cmp_eq_iff.mp h]
  exact ReflCmp.compare_self

theorem candidatesTail_head (s : Name) (ls : List Bytes) :
    ∃ tl, candidatesTail s ls = mk ls :: tl := by
  cases ls with
  | nil => exact ⟨[], rfl⟩
  | cons l rest =>
    simp only [candidatesTail]
    split
    · exact ⟨[], rfl⟩
    · exact ⟨_, rfl⟩

theorem candidatesFrom_mk (s : Name) (ls : List Bytes) :
    candidatesFrom s (mk ls) = candidatesTail s ls := by
  cases ls with
  | nil =>
    unfold candidatesFrom
    split <;> rfl
  | cons l rest => rfl

section
variable {H : Name → Bytes} {enc : Bytes → Bytes}

/-- what `pickEncloser` returns on the candidate list of `ql`: two consecutive suffix names of the
query name, the shorter one carrying the label looked for -/
theorem pickEncloser_spec (s : Name) (ml : Bytes) (ql : List Bytes) {a b : Info}
    (h : pickEncloser ml ((candidatesTail s ql).map (info H enc)) = some (a, b)) :
    ∃ l ls, a = info H enc (mk (l :: ls)) ∧ b = info H enc (mk ls) ∧ (l :: ls) <:+ ql ∧
      labelEq b.label ml = true := by
  induction ql with
  | nil => simp [candidatesTail, pickEncloser] at h
  | cons l rest ih =>
    simp only [candidatesTail] at h
    split at h
    · simp [pickEncloser] at h
    · obtain ⟨tl, htl⟩ := candidatesTail_head s rest
      rw [htl] at h
      simp only [List.map_cons, pickEncloser] at h
      split at h
      · rename_i heq
        simp only [Option.some.injEq, Prod.mk.injEq] at h
        obtain ⟨rfl, rfl⟩ := h
        exact ⟨l, rest, rfl, rfl, List.suffix_refl _, heq⟩
      · have h' : pickEncloser ml ((candidatesTail s rest).map (info H enc)) = some (a, b) := by
          rw [htl]; exact h
        obtain ⟨l', ls', h1, h2, h3, h4⟩ := ih h'
        exact ⟨l', ls', h1, h2, h3.trans (List.suffix_cons _ _), h4⟩

variable {fx : Fixes}

/-- the two shapes of the result of `closest_encloser_proof` -/
theorem cep_cases (q : Name) (soa : Option Name) (pairs : List Pair) :
    closestEncloserProof fx H enc q soa pairs = { ce := none, nc := none } ∨
    ∃ m nc ce,
      ((encloserCandidates q soa).map (info H enc)).findSome?
        (fun c => findMatching pairs c.label) = some m ∧
      pickEncloser m.label ((encloserCandidates q soa).map (info H enc)) = some (nc, ce) ∧
      closestEncloserProof fx H enc q soa pairs =
        { ce := some (ce, m)
          nc := (findCovering fx enc pairs nc.hash nc.label).map fun r => (nc, r) } := by
  unfold closestEncloserProof
  cases h1 : ((encloserCandidates q soa).map (info H enc)).findSome?
      (fun c => findMatching pairs c.label) with
  | none => left; simp only [h1]
  | some m =>
    cases h2 : pickEncloser m.label ((encloserCandidates q soa).map (info H enc)) with
    | none => left; simp only [h1, h2]
    | some p =>
      obtain ⟨nc, ce⟩ := p
      right
      exact ⟨m, nc, ce, rfl, h2, by simp only [h1, h2]⟩

/-- the closest encloser proof never has a next closer cover without a closest encloser -/
theorem cep_ce_none {q : Name} {soa : Option Name} {pairs : List Pair}
    (h : (closestEncloserProof fx H enc q soa pairs).ce = none) :
    (closestEncloserProof fx H enc q soa pairs).nc = none := by
  rcases cep_cases (fx := fx) (H := H) (enc := enc) q soa pairs with h0 | ⟨m, nc, ce, _, _, h0⟩
  · rw [h0]
  · rw [h0] at h; cases h

/-- inversion of `closest_encloser_proof` for a fully qualified query name -/
theorem cep_inv {ql : List Bytes} {soa : Option Name} {pairs : List Pair} {ci ni : Info}
    {m ncr : Pair}
    (hce : (closestEncloserProof fx H enc (mk ql) soa pairs).ce = some (ci, m))
    (hnc : (closestEncloserProof fx H enc (mk ql) soa pairs).nc = some (ni, ncr)) :
    ∃ l ls, ni = info H enc (mk (l :: ls)) ∧ ci = info H enc (mk ls) ∧ (l :: ls) <:+ ql ∧
      m ∈ pairs ∧ labelEq (enc (H (mk ls))) m.label = true ∧
      findCovering fx enc pairs (H (mk (l :: ls))) (enc (H (mk (l :: ls)))) = some ncr := by
  rcases cep_cases (fx := fx) (H := H) (enc := enc) (mk ql) soa pairs with
    h0 | ⟨m', nc, ce, hfs, hpick, h0⟩
  · rw [h0] at hce; cases hce
  · rw [h0] at hce hnc
    simp only [Option.some.injEq, Prod.mk.injEq] at hce
    obtain ⟨rfl, rfl⟩ := hce
    have hm : m' ∈ pairs := by
      obtain ⟨c, _, hc⟩ := List.exists_of_findSome?_eq_some hfs
      exact List.mem_of_find?_eq_some hc
    have hcands : ∃ s, encloserCandidates (mk ql) soa = candidatesTail s ql ∨
        encloserCandidates (mk ql) soa = [] := by
      unfold encloserCandidates
      cases soa with
      | none => exact ⟨mk [], .inr rfl⟩
      | some s =>
        refine ⟨s, ?_⟩
        simp only
        split
        · exact .inl (candidatesFrom_mk s ql)
        · exact .inr rfl
    obtain ⟨s, hs | hs⟩ := hcands
    · rw [hs] at hpick
      obtain ⟨l, ls, h1, h2, h3, h4⟩ := pickEncloser_spec s m'.label ql hpick
      simp only [Option.map_eq_some_iff] at hnc
      obtain ⟨r, hr, hrr⟩ := hnc
      simp only [Prod.mk.injEq] at hrr
      obtain ⟨rfl, rfl⟩ := hrr
      subst h1 h2
      exact ⟨l, ls, rfl, rfl, h3, hm, h4, hr⟩
    · rw [hs] at hpick
      simp [pickEncloser] at hpick

end

/-! ### §8.4 name error and §8.7 wildcard no data -/

theorem extendAll_labels {n r : Name} {ls : List Bytes} (h : Name.extendAll n ls = .ok r) :
    r.labels = n.labels ++ ls := by
  induction ls generalizing n with
  | nil => simp [Name.extendAll] at h; subst h; simp
  | cons l ls ih =>
    simp only [Name.extendAll] at h
    cases he : n.extendName l with
    | ok n' =>
      rw [he] at h
      simp only [Outcome.bind_ok] at h
      rw [ih h]
      simp only [Name.extendName] at he
      split at he
      · simp at he
      · simp at he; subst he; simp
    | err => rw [he] at h; simp at h
    | panic s => rw [he] at h; simp at h

/-- `prepend_label("*")` on a fully qualified name -/
theorem prependLabel_star {ls : List Bytes} {w : Name}
    (h : Name.prependLabel (mk ls) [42] = .ok w) : w = mk ([42] :: ls) := by
  unfold Name.prependLabel at h
  have hnew : Name.new.appendLabel [42] = .ok { labels := [[42]], fqdn := false } := by decide
  rw [hnew] at h
  simp only [Outcome.bind_ok] at h
  cases he : Name.extendAll { labels := [[42]], fqdn := false } (mk ls).labels with
  | ok r =>
    rw [he] at h
    simp only [Outcome.map, Outcome.ok.injEq] at h
    have := extendAll_labels he
    subst h
    simp [mk, this]
  | err => rw [he] at h; simp [Outcome.map] at h
  | panic s => rw [he] at h; simp [Outcome.map] at h

section
variable {fx : Fixes} {H : Name → Bytes} {enc : Bytes → Bytes}

theorem cepw_fst {q : Name} {soa : Option Name} {pairs : List Pair} {matching : Bool} :
    (cepWithWildcard fx H enc q soa pairs matching).1 = closestEncloserProof fx H enc q soa pairs := by
  unfold cepWithWildcard
  simp only
  split
  · rfl
  · split <;> rfl

/-- inversion of `closest_encloser_proof_with_wildcard` when a wildcard record was found -/
theorem cepw_inv {ql : List Bytes} {soa : Option Name} {pairs : List Pair} {matching : Bool}
    {ci wi : Info} {m wr : Pair}
    (hce : (closestEncloserProof fx H enc (mk ql) soa pairs).ce = some (ci, m))
    (hci : ∃ ls, ci = info H enc (mk ls))
    (h : (cepWithWildcard fx H enc (mk ql) soa pairs matching).2 = some (wi, wr)) :
    ∃ ls, ci = info H enc (mk ls) ∧ wi = info H enc (mk ([42] :: ls)) ∧
      (if matching then findMatching pairs (enc (H (mk ([42] :: ls))))
       else findCovering fx enc pairs (H (mk ([42] :: ls))) (enc (H (mk ([42] :: ls))))) = some wr := by
  obtain ⟨ls, rfl⟩ := hci
  unfold cepWithWildcard at h
  simp only [hce] at h
  simp only [info] at h
  cases hp : Name.prependLabel (mk ls) [42] with
  | ok w =>
    have hw := prependLabel_star hp
    subst hw
    simp only [hp, Option.map_eq_some_iff, Prod.mk.injEq] at h
    obtain ⟨r, hr, rfl, rfl⟩ := h
    exact ⟨ls, rfl, rfl, by simpa [info] using hr⟩
  | err => simp [hp] at h
  | panic s => simp [hp] at h

variable {soa : Option Name} {recs : List Rec} {pairs : List Pair} {Z : ZoneView}

/-- no record of the input is the record of an ancestor delegation or a DNAME owner -/
def NoDelegRec (recs : List Rec) : Prop := ∀ r ∈ recs, isDelegationRec r = false

/-- The closest encloser proof, read semantically: given the matching record for `ls` and the
covering record for `l :: ls` (both suffixes of the query name), `ls` is THE closest encloser of the
query name in every consistent zone view, the query name does not exist, and `ls` is not a cut. -/
theorem closest_encloser_sound (hE : EncOrd enc) (hwf : HashWF H recs)
    (hp : mkPairs soa recs = some pairs)
    (hc : ConsistentWith3 H enc recs Z) (hZ : Z.WF)
    (hw : fx.wrap = true ∨ NoWrap enc recs)
    {ql : List Bytes} {l : Bytes} {ls : List Bytes} (hsuf : (l :: ls) <:+ ql)
    (hinj : NoCollisionAt H Z ls)
    {m ncr : Pair} (hm : m ∈ pairs) (hml : labelEq (enc (H (mk ls))) m.label = true)
    (hcov : findCovering fx enc pairs (H (mk (l :: ls))) (enc (H (mk (l :: ls)))) = some ncr)
    (hno : ncr.data.optOut = false)
    (hdel : isDelegationRec m.data = false) :
    ¬ Z.has ql ∧ ∀ ce, IsClosestEncloser Z ql ce → ce = ls ∧ ¬ Z.Cut ce := by
  -- the matching record describes `ls`
  have hfm : ∃ ts, Z.types ls = some ts ∧ ∀ ty, ty ∈ m.data.types ↔ ty ∈ ts := by
    obtain ⟨hmem, ⟨rest, hlab⟩, _⟩ := mkPairs_spec hp m hm
    obtain ⟨l', rest', n, ts, hown, _, hts, hl, htypes, _⟩ := hc _ hmem
    have hll : m.label = l' := by
      rw [hown] at hlab; simp at hlab; exact hlab.1.symm
    subst hll
    have : compare (H (mk n)) (H (mk ls)) = .eq := by
      rw [← label_vs_enc hE hl (hwf.hash _) (hwf.hash _)]
      simpa [labelEq] using labelEq_symm hml
    have hnt : n = ls := hinj n (by simp [ZoneView.has, hts]) (cmp_eq_iff.mp this)
    subst hnt
    exact ⟨ts, hts, htypes⟩
  obtain ⟨ts, hts, htypes⟩ := hfm
  have hhas : Z.has ls := by simp [ZoneView.has, hts]
  have hapex : Z.apex.length ≤ ls.length := hZ.below ls hhas
  -- the next closer name does not exist
  have hnc : ¬ Z.has (l :: ls) := by
    intro hh
    have := (findCovering_sound hE hwf hp hc hw hcov hh).1
    simp [hno] at this
  -- hence nothing at or below it
  have hbelow : ∀ a, a <:+ ql → ls.length < a.length → ¬ Z.has a := by
    intro a ha hlen hh
    have hsa : (l :: ls) <:+ a := List.suffix_of_suffix_length_le hsuf ha (by simp; omega)
    obtain ⟨pre, rfl⟩ := hsa
    exact hnc (has_of_has_append hZ pre _ (by simp; omega) hh)
  refine ⟨hbelow ql (List.suffix_refl _) ?_, ?_⟩
  · have := hsuf.length_le
    simp at this
    omega
  · intro ce ⟨hce1, hce2, hce3⟩
    have hlsq : ls <:+ ql := (List.suffix_cons l ls).trans hsuf
    have h1 : ¬ ce.length < ls.length := fun hlt => hce3 ls hlsq hlt hhas
    have h2 : ¬ ls.length < ce.length := fun hlt => hbelow ce hce1 hlt hce2
    have heq : ce = ls := by
      have hs : ce <:+ ls := List.suffix_of_suffix_length_le hce1 hlsq (by omega)
      exact hs.eq_of_length (by omega)
    subst heq
    refine ⟨rfl, ?_⟩
    -- not a cut: the record's bitmap is the name's type set
    simp only [isDelegationRec, isDelegNS, Bool.or_eq_false_iff, Bool.and_eq_false_iff] at hdel
    rintro (⟨⟨ts1, h1', hns⟩, hsoa⟩ | ⟨ts1, h1', hdn⟩)
    · rw [hts] at h1'; cases h1'
      rcases hdel.1 with hh | hh
      · have : tNS ∈ m.data.types := (htypes _).mpr hns
        simp at hh
        exact hh this
      · simp only [Bool.not_eq_false', List.contains_iff_mem] at hh
        exact hsoa ⟨ts, hts, (htypes _).mp hh⟩
    · rw [hts] at h1'; cases h1'
      have : tDNAME ∈ m.data.types := (htypes _).mpr hdn
      have := hdel.2
      simp_all

/-- the side conditions on the two records a closest encloser proof relies on, from either the
repair switch or the corresponding restriction of the input -/
theorem side_conditions (hp : mkPairs soa recs = some pairs)
    (ho : fx.optout = true ∨ NoOptOut recs) (hd : fx.deleg = true ∨ NoDelegRec recs)
    {cr ncr : Pair} (hcr : cr ∈ pairs) (hncr : ncr ∈ pairs)
    (h1 : ¬ (fx.deleg && isDelegationRec cr.data) = true)
    (h2 : ¬ (fx.optout && ncr.data.optOut) = true) :
    isDelegationRec cr.data = false ∧ ncr.data.optOut = false := by
  constructor
  · rcases hd with hd | hd
    · simpa [hd] using h1
    · exact hd _ (mkPairs_spec hp cr hcr).1
  · rcases ho with ho | ho
    · simpa [ho] using h2
    · exact ho _ (mkPairs_spec hp ncr hncr).1

/-- **§8.4 name error.**  `Secure` from `validate_nxdomain_response` ⇒ in every well-formed zone view
consistent with the records: QNAME does not exist, and its closest encloser has no wildcard child and
is not a zone cut / DNAME owner.  Collision-freeness is used only for the *matching* record of the
closest encloser.  Side conditions for the code as it is = findings (wrap-around, opt-out, §8.3). -/
theorem nxdomain_sound (hE : EncOrd enc) (hwf : HashWF H recs)
    (hp : mkPairs soa recs = some pairs)
    (hc : ConsistentWith3 H enc recs Z) (hZ : Z.WF)
    (hw : fx.wrap = true ∨ NoWrap enc recs) (ho : fx.optout = true ∨ NoOptOut recs)
    (hd : fx.deleg = true ∨ NoDelegRec recs)
    {ql : List Bytes} (hinj : ∀ a, a <:+ ql → NoCollisionAt H Z a)
    (h : validateNxdomain fx H enc (mk ql) soa pairs = .secure) : ClaimNameError Z ql := by
  unfold validateNxdomain at h
  simp only at h
  split at h
  · cases h
  · generalize hcw : cepWithWildcard fx H enc (mk ql) soa pairs false = p at h
    obtain ⟨cep, wc⟩ := p
    have hcep : cep = closestEncloserProof fx H enc (mk ql) soa pairs := by
      rw [← cepw_fst (matching := false), hcw]
    have hwc : (cepWithWildcard fx H enc (mk ql) soa pairs false).2 = wc := by rw [hcw]
    simp only at h
    split at h
    · cases h
    · split at h
      · rename_i _ _ _ ci cr ni ncr wx hce hnc
        have hwx := hwc
        split at h
        · cases h
        · rename_i h1
          split at h
          · cases h
          · rename_i h2
            obtain ⟨wi, wr⟩ := wx
            rw [hcep] at hce hnc
            obtain ⟨l, ls, rfl, rfl, hsuf, hm, hml, hcov⟩ := cep_inv hce hnc
            have hncr : ncr ∈ pairs := by
              unfold findCovering at hcov
              exact List.mem_of_find?_eq_some hcov
            obtain ⟨hdel, hno⟩ := side_conditions hp ho hd hm hncr h1 h2
            have hlsq : ls <:+ ql := (List.suffix_cons l ls).trans hsuf
            obtain ⟨hq, hce'⟩ := closest_encloser_sound hE hwf hp hc hZ hw hsuf (hinj ls hlsq)
              hm hml hcov hno hdel
            obtain ⟨ls', hls', _, hwcov⟩ := cepw_inv hce ⟨ls, rfl⟩ hwx
            have : ls' = ls := by
              have := congrArg Info.name hls'
              simp [info, mk] at this
              exact this.symm
            subst this
            simp only [Bool.false_eq_true, if_false] at hwcov
            refine ⟨hq, ?_⟩
            intro ce hce''
            obtain ⟨rfl, hcut⟩ := hce' ce hce''
            refine ⟨?_, hcut⟩
            intro hwhas
            obtain ⟨_, ⟨⟨hns, _⟩, _⟩⟩ := findCovering_sound hE hwf hp hc hw hwcov hwhas
            exact hZ.wild_no_ns _ hns
      · rename_i _ _ _ v1 v2 hce hnc
        rw [hcep] at hce hnc
        rw [cep_ce_none hce] at hnc
        cases hnc
      · cases h

/-- **§8.7 wildcard no data** (case 5, first arm; the apex arm is excluded by `hapex`). -/
theorem wildcard_nodata_sound (hE : EncOrd enc) (hwf : HashWF H recs)
    (hp : mkPairs soa recs = some pairs)
    (hc : ConsistentWith3 H enc recs Z) (hZ : Z.WF)
    (hw : fx.wrap = true ∨ NoWrap enc recs) (ho : fx.optout = true ∨ NoOptOut recs)
    (hd : fx.deleg = true ∨ NoDelegRec recs)
    {ql : List Bytes} {qtype : Nat}
    (hapex : fx.apex = true ∨ eqSoa soa (mk ql) = false)
    (hinj : ∀ a, a <:+ ql → NoCollisionAt H Z a ∧ NoCollisionAt H Z ([42] :: a))
    (h : nodataWildNoData fx H enc (mk ql) qtype soa pairs = .secure) :
    ClaimWildcardNoData Z ql qtype := by
  unfold nodataWildNoData at h
  generalize hcw : cepWithWildcard fx H enc (mk ql) soa pairs true = p at h
  obtain ⟨cep, wc⟩ := p
  have hcep : cep = closestEncloserProof fx H enc (mk ql) soa pairs := by
    rw [← cepw_fst (matching := true), hcw]
  have hwc : (cepWithWildcard fx H enc (mk ql) soa pairs true).2 = wc := by rw [hcw]
  simp only at h
  split at h
  · rename_i _ _ _ ci cr ni ncr wi wr hce hnc
    have hwx := hwc
    split at h
    · rename_i hty
      split at h
      · cases h
      · rename_i h1
        split at h
        · cases h
        · rename_i h2
          rw [hcep] at hce hnc
          obtain ⟨l, ls, rfl, rfl, hsuf, hm, hml, hcov⟩ := cep_inv hce hnc
          have hncr : ncr ∈ pairs := by
            unfold findCovering at hcov
            exact List.mem_of_find?_eq_some hcov
          obtain ⟨hdel, hno⟩ := side_conditions hp ho hd hm hncr h1 h2
          have hlsq : ls <:+ ql := (List.suffix_cons l ls).trans hsuf
          obtain ⟨hq, hce'⟩ := closest_encloser_sound hE hwf hp hc hZ hw hsuf (hinj ls hlsq).1
            hm hml hcov hno hdel
          obtain ⟨ls', hls', _, hwm⟩ := cepw_inv hce ⟨ls, rfl⟩ hwx
          have : ls' = ls := by
            have := congrArg Info.name hls'
            simp [info, mk] at this
            exact this.symm
          subst this
          simp only [if_true] at hwm
          obtain ⟨ts, hts, htypes⟩ := findMatching_sound hE hwf hp hc (hinj ls' hlsq).2 hwm
          simp only [Bool.and_eq_true, Bool.not_eq_true'] at hty
          refine ⟨hq, ?_⟩
          intro ce hce''
          obtain ⟨rfl, hcut⟩ := hce' ce hce''
          refine ⟨?_, ?_, hcut⟩
          · rintro ⟨ts', h', ht⟩
            rw [hts] at h'; cases h'
            have := List.contains_iff_mem.mpr ((htypes _).mpr ht)
            rw [hty.1] at this; cases this
          · rintro ⟨ts', h', ht⟩
            rw [hts] at h'; cases h'
            have := List.contains_iff_mem.mpr ((htypes _).mpr ht)
            rw [hty.2] at this; cases this
    · cases h
  · rename_i _ _ _ v1 v2 hce hnc
    rw [hcep] at hce hnc
    rw [cep_ce_none hce] at hnc
    cases hnc
  · rcases hapex with ha | ha
    · simp [ha] at h
    · simp [ha] at h
  · cases h

/-! ### the property theorems: soundness of `verify_nsec3`

For every repair combination `fx`, hash function `H`, order-embedding encoder `enc`, query name,
type, SOA name, record list, limits, and every well-formed zone view `Z` the records are consistent
with.  For the repaired code (`fx = allFixed`) the side conditions `hw ho hd hx ha` hold by `Or.inl
rfl` — these are the full-strength statements; for the code as it is (`fx = current`) `hd hx ha` hold
the same way and `hw ho` are explicit decidable restrictions of the input (`_partial` reading,
`Proofs/C09Main.lean`), with a kernel-checked counter-example outside each of them in
`Proofs/C09Findings.lean`. -/

/-- collision-freeness of the hash at the names a proof for `ql` talks about -/
def NoCollisions (H : Name → Bytes) (Z : ZoneView) (ql : List Bytes) : Prop :=
  ∀ a, a <:+ ql → NoCollisionAt H Z a ∧ NoCollisionAt H Z ([42] :: a)

theorem noDelegNS_of_noDelegRec (h : NoDelegRec recs) : NoDelegNS recs := by
  intro r hr
  have := h r hr
  simp only [isDelegationRec, Bool.or_eq_false_iff] at this
  exact this.1

/-- **RFC 5155 §8.4.**  An NXDOMAIN response accepted as `Secure` really is a name error. -/
theorem verify_name_error_sound (hE : EncOrd enc) (hwf : HashWF H recs) {ql : List Bytes} {qtype : Nat}
    {wl : Option Nat} {soft hard : Nat}
    (h : verifyNsec3 fx H enc (mk ql) qtype soa rcNXDomain wl recs soft hard = .secure)
    (hZ : Z.WF) (hc : ConsistentWith3 H enc recs Z) (hinj : NoCollisions H Z ql)
    (hw : fx.wrap = true ∨ NoWrap enc recs) (ho : fx.optout = true ∨ NoOptOut recs)
    (hd : fx.deleg = true ∨ NoDelegRec recs) :
    ClaimNameError Z ql := by
  obtain ⟨f, ps, hp, _, _, hs⟩ :=
    gate_passed fx H enc (mk ql) qtype soa rcNXDomain wl recs soft hard h (by simp)
  rcases (hs rfl).2 with ⟨_, hv⟩ | ⟨hrc, _⟩
  · exact nxdomain_sound hE hwf hp hc hZ hw ho hd (fun a ha => (hinj a ha).1) hv
  · cases hrc

/-- **RFC 5155 §8.5, §8.6, §8.7.**  A NOERROR response without answer RRSIG accepted as `Secure`:
for QTYPE = DS there is no DS RRset at QNAME; otherwise it is a NODATA (type and CNAME absent, not a
delegation point) or a wildcard NODATA.  `ha` excludes the apex arm (finding 1). -/
theorem verify_nodata_sound (hE : EncOrd enc) (hwf : HashWF H recs) {ql : List Bytes} {qtype : Nat} {soft hard : Nat}
    (h : verifyNsec3 fx H enc (mk ql) qtype soa rcNoError none recs soft hard = .secure)
    (hZ : Z.WF) (hc : ConsistentWith3 H enc recs Z) (hinj : NoCollisions H Z ql)
    (hw : fx.wrap = true ∨ NoWrap enc recs) (ho : fx.optout = true ∨ NoOptOut recs)
    (hd : fx.deleg = true ∨ NoDelegRec recs)
    (ha : fx.apex = true ∨ eqSoa soa (mk ql) = false) :
    (qtype = tDS → ClaimNoDS Z ql) ∧
    (qtype ≠ tDS → ClaimNoData Z ql qtype ∨ ClaimWildcardNoData Z ql qtype) := by
  obtain ⟨f, ps, hp, _, _, hs⟩ :=
    gate_passed fx H enc (mk ql) qtype soa rcNoError none recs soft hard h (by simp)
  rcases (hs rfl).2 with ⟨hrc, _⟩ | ⟨_, hv⟩
  · cases hrc
  · have hd' : fx.deleg = true ∨ NoDelegNS recs := hd.imp id noDelegNS_of_noDelegRec
    have hwe : wildExp fx (mk ql) none = false := by simp [wildExp]
    unfold validateNodata at hv
    simp only [hwe, Bool.false_eq_true, if_false, Bool.not_false, Bool.true_and] at hv
    split at hv
    · rename_i r hm
      have hcl := nodata_match_sound hE hwf hp hc (hinj ql (List.suffix_refl _)).1 hm hv hd'
      exact ⟨fun hds => by subst hds; exact hcl.1, fun _ => .inl hcl⟩
    · split at hv
      · rename_i hds
        have hq : qtype = tDS := by
          simp only [dsOptOut, Bool.and_eq_true, beq_iff_eq] at hds
          exact hds.1
        exact ⟨fun _ => ds_optout_sound hE hwf hp hc hw hds, fun hne => absurd hq hne⟩
      · have hcl := wildcard_nodata_sound hE hwf hp hc hZ hw ho hd ha hinj hv
        refine ⟨fun _ => ?_, fun _ => .inr hcl⟩
        intro ⟨ts, hts, _⟩
        exact hcl.1 (by simp [ZoneView.has, hts])

/-- no shortcut through a record matching (or opt-out covering) QNAME — what the `wild` repair
enforces for wildcard expansions -/
def NoQnameShortcut (fx : Fixes) (H : Name → Bytes) (enc : Bytes → Bytes) (q : Name) (qtype : Nat)
    (pairs : List Pair) : Prop :=
  findMatching pairs (enc (H q)) = none ∧ dsOptOut fx H enc q qtype pairs = false

/-- **RFC 5155 §8.8.**  A wildcard expansion (answer RRSIG with `k` labels, fewer than QNAME has)
accepted as `Secure`: no ancestor-or-self of QNAME with more than `k` labels exists. -/
theorem verify_wildcard_answer_sound (hE : EncOrd enc) (hwf : HashWF H recs) {ql : List Bytes} {qtype k : Nat}
    {soft hard : Nat}
    (h : verifyNsec3 fx H enc (mk ql) qtype soa rcNoError (some k) recs soft hard = .secure)
    (hk : k < (mk ql).numLabels) (hZ : Z.WF) (hak : Z.apex.length ≤ k)
    (hc : ConsistentWith3 H enc recs Z)
    (hw : fx.wrap = true ∨ NoWrap enc recs) (ho : fx.optout = true ∨ NoOptOut recs)
    (hx : fx.wild = true ∨ ∀ pairs, mkPairs soa recs = some pairs →
      NoQnameShortcut fx H enc (mk ql) qtype pairs) :
    ClaimWildcardAnswer Z ql k := by
  obtain ⟨f, ps, hp, _, _, hs⟩ :=
    gate_passed fx H enc (mk ql) qtype soa rcNoError (some k) recs soft hard h (by simp)
  rcases (hs rfl).2 with ⟨hrc, _⟩ | ⟨_, hv⟩
  · cases hrc
  · have key : nodataWildAnswer fx H enc (mk ql) k (f :: ps) = .secure := by
      unfold validateNodata at hv
      rcases hx with hx | hx
      · have hwe : wildExp fx (mk ql) (some k) = true := by simp [wildExp, hx, hk]
        simpa [hwe] using hv
      · obtain ⟨h1, h2⟩ := hx _ hp
        by_cases hwe : wildExp fx (mk ql) (some k) = true
        · simpa [hwe] using hv
        · simpa [hwe, h1, h2] using hv
    exact wildcard_answer_sound hE hwf hp hc hZ hw ho hak key

/-- the full-strength instance: for the code with all five repairs no side condition is left -/
theorem allFixed_sound (hE : EncOrd enc) (hwf : HashWF H recs) {ql : List Bytes} {qtype : Nat} {wl : Option Nat}
    {soft hard : Nat} (hZ : Z.WF) (hc : ConsistentWith3 H enc recs Z)
    (hinj : NoCollisions H Z ql) :
    (verifyNsec3 allFixed H enc (mk ql) qtype soa rcNXDomain wl recs soft hard = .secure →
      ClaimNameError Z ql) ∧
    (verifyNsec3 allFixed H enc (mk ql) qtype soa rcNoError none recs soft hard = .secure →
      (qtype = tDS → ClaimNoDS Z ql) ∧
      (qtype ≠ tDS → ClaimNoData Z ql qtype ∨ ClaimWildcardNoData Z ql qtype)) ∧
    (∀ k, k < (mk ql).numLabels → Z.apex.length ≤ k →
      verifyNsec3 allFixed H enc (mk ql) qtype soa rcNoError (some k) recs soft hard = .secure →
      ClaimWildcardAnswer Z ql k) :=
  ⟨fun h => verify_name_error_sound hE hwf h hZ hc hinj (.inl rfl) (.inl rfl) (.inl rfl),
   fun h => verify_nodata_sound hE hwf h hZ hc hinj (.inl rfl) (.inl rfl) (.inl rfl) (.inl rfl),
   fun _ hk hak h => verify_wildcard_answer_sound hE hwf h hk hZ hak hc (.inl rfl) (.inl rfl) (.inl rfl)⟩

end

end HickoryVerif.C09
