/-
C13, part 4 — the panic sites of the TSIG code (debug profile), and concrete witnesses.

* `panic_sites`           — `verify_message_byte` can only panic at the three arithmetic /
                            assertion sites listed in `Model/Tsig.lean` (the decoder it runs
                            on never panics: `readName_no_panic`, `readRecords_no_panic`).
* `no_panic_partial`      — it does not panic when ANCOUNT + NSCOUNT fits a u16, no TSIG sits
                            among the first ARCOUNT − 1 additional records and time ≥ fudge.
                            FULL STATEMENT (not provable, the three witnesses below refute it):
                            `∀ sg buf prev first rdok s, verifyMessageByte … ≠ .panic s`.
* `ex_time_lt_fudge`, `ex_count_overflow`, `ex_double_tsig` — kernel-checked inputs on which the
  model (and, replayed from corpus/C13, the real code) panics.
* `ex_unauthenticated_*`  — kernel-checked pairs of different messages with the same TBS: header
  id, Z bit, CLASS and TTL of the TSIG RR, the MAC, trailing octets.
-/
import HickoryVerif.Model.Tsig
import HickoryVerif.Proofs.C13

namespace HickoryVerif.C13
open HickoryVerif HickoryVerif.Tsig

/-! ### the decoder part never panics -/

theorem extendName_no_panic (n : Name) (l : Bytes) (s : String) : n.extendName l ≠ .panic s := by
  unfold Name.extendName; simp only; split <;> simp

theorem readLabels_no_panic (buf : Bytes) (pos ns : Nat) (pm : Option Nat) (acc : Name) :
    ns ≤ buf.length → ∀ s, Name.readLabels buf pos ns pm acc ≠ .panic s := by
  fun_induction Name.readLabels buf pos ns pm acc with
  | case1 => intro _ s; simp
  | case2 => intro _ s; simp
  | case3 => intro _ s; simp
  | case4 => intro _ s; simp
  | case5 pos ns pm acc _ b hb hz h3 b1 hb1 loc hlt hgt => intro hns s; omega
  | case6 => intro _ s; simp
  | case7 => intro _ s; simp
  | case8 pos ns pm acc _ b hb hz h3 b1 hb1 loc hlt hgt s' hrec ih =>
    intro hns s
    exact absurd hrec (ih (by omega) s')
  | case9 => intro _ s; simp
  | case10 pos ns pm acc _ b hb hz h3 h0 hfit acc' hext ih => intro hns s; exact ih hns s
  | case11 => intro _ s; simp
  | case12 pos ns pm acc _ b hb hz h3 h0 hfit s' hext =>
    intro _ s; exact absurd hext (extendName_no_panic _ _ _)
  | case13 => intro _ s; simp
  | case14 => intro _ s; simp

theorem readName_no_panic (buf : Bytes) (pos : Nat) (s : String) :
    Name.readName buf pos ≠ .panic s := by
  unfold Name.readName
  by_cases hp : pos ≤ buf.length
  · have := readLabels_no_panic buf pos pos none Name.new hp
    split
    · split <;> simp
    · simp
    · rename_i s' hs; exact absurd hs (this s')
  · have : Name.readLabels buf pos pos none Name.new = .err := by
      rw [Name.readLabels]
      have : buf[pos]? = none := by simp; omega
      simp [this]
    rw [this]; simp

theorem readQuery_no_panic (buf : Bytes) (pos : Nat) (s : String) :
    readQuery buf pos ≠ .panic s := by
  unfold readQuery
  split
  · split <;> simp
  · simp
  · rename_i s' hs; exact absurd hs (readName_no_panic _ _ _)

theorem skipQueries_no_panic (buf : Bytes) : ∀ k pos s, skipQueries buf k pos ≠ .panic s := by
  intro k
  induction k with
  | zero => intro pos s; simp [skipQueries]
  | succ k ih =>
    intro pos s
    rw [skipQueries]
    split
    · exact ih _ _
    · simp
    · rename_i s' hs; exact absurd hs (readQuery_no_panic _ _ _)

theorem readFrame_no_panic (buf : Bytes) (pos : Nat) (s : String) :
    readFrame buf pos ≠ .panic s := by
  unfold readFrame
  split
  · split
    · split
      · simp
      · split <;> simp
    · simp
  · simp
  · rename_i s' hs; exact absurd hs (readName_no_panic _ _ _)

theorem readTsigData_no_panic (buf : Bytes) (a l : Nat) (s : String) :
    readTsigData buf a l ≠ .panic s := by
  unfold readTsigData
  simp only
  split
  · split
    · split
      · simp
      · split
        · split <;> simp
        · simp
    · simp
  · simp
  · rename_i s' hs; exact absurd hs (readName_no_panic _ _ _)

theorem tsigOf_no_panic (buf : Bytes) (f : Frame) (s : String) : tsigOf buf f ≠ .panic s := by
  unfold tsigOf
  split
  · split
    · simp
    · simp
    · rename_i s' hs; exact absurd hs (readTsigData_no_panic _ _ _ _)
  · simp

theorem readRecords_no_panic (buf : Bytes) (isAdd upd : Bool) :
    ∀ k pos sig edns s, readRecords buf isAdd upd k pos sig edns ≠ .panic s := by
  intro k
  induction k with
  | zero => intro pos sig edns s; simp [readRecords]
  | succ k ih =>
    intro pos sig edns s
    rw [readRecords]
    split
    · split
      · split
        · exact ih _ _ _ _
        · simp
      · simp
      · rename_i s' hs; exact absurd hs (tsigOf_no_panic _ _ _)
    · simp
    · rename_i s' hs; exact absurd hs (readFrame_no_panic _ _ _)

/-! ### the panic sites -/

/-- `C13.DoubleTsig`: a TSIG among the first ARCOUNT − 1 additional records which is the last
of them (so that `read_records` returns it instead of failing with `RecordAfterSig`) -/
def DoubleTsig (buf : Bytes) (h : Hdr) (pos : Nat) : Prop :=
  ∃ p1 x y p2 s z, readRecords buf false (h.opcode == 5) (h.an + h.ns) pos none none = .ok (p1, x, y) ∧
    readRecords buf true (h.opcode == 5) (h.ar - 1) p1 none none = .ok (p2, some s, z)

theorem locateSig_panic {buf : Bytes} {h : Hdr} {pos : Nat} {rdok : Bool} {s : String}
    (hp : locateSig buf h pos rdok = .panic s) :
    (s = "tsig:answers+authorities" ∧ CountOverflow h) ∨
    (s = "tsig:debug_assert-sig" ∧ DoubleTsig buf h pos) := by
  unfold locateSig at hp
  split at hp
  · rename_i hov
    simp only [Outcome.panic.injEq] at hp
    exact .inl ⟨hp.symm, hov⟩
  · split at hp
    · simp at hp
    · split at hp
      · rename_i p1 x y h1
        split at hp
        · rename_i p2 sig2 z h2
          split at hp
          · rename_i hsome
            simp only [Outcome.panic.injEq] at hp
            cases sig2 with
            | none => simp at hsome
            | some s2 => exact .inr ⟨hp.symm, p1, x, y, p2, s2, z, h1, h2⟩
          · split at hp
            · simp at hp
            · simp at hp
            · simp at hp
            · rename_i s' hs; exact absurd hs (readRecords_no_panic _ _ _ _ _ _ _ _)
        · simp at hp
        · rename_i s' hs; exact absurd hs (readRecords_no_panic _ _ _ _ _ _ _ _)
      · simp at hp
      · rename_i s' hs; exact absurd hs (readRecords_no_panic _ _ _ _ _ _ _ _)

theorem signed_panic {buf : Bytes} {prev : Option Bytes} {first rdok : Bool} {s : String}
    (hp : signedBitmessageToBuf buf prev first rdok = .panic s) :
    ∃ h pos, readHdr buf = some h ∧ skipQueries buf h.qd 12 = .ok pos ∧
      ((s = "tsig:answers+authorities" ∧ CountOverflow h) ∨
       (s = "tsig:debug_assert-sig" ∧ DoubleTsig buf h pos)) := by
  unfold signedBitmessageToBuf at hp
  split at hp
  · simp at hp
  · rename_i h hh
    split at hp
    · simp at hp
    · split at hp
      · rename_i pos hq
        split at hp
        · simp at hp
        · simp at hp
        · rename_i m hm
          simp only [Outcome.panic.injEq] at hp; subst hp
          exact ⟨h, pos, hh, hq, locateSig_panic hm⟩
      · simp at hp
      · rename_i s' hs; exact absurd hs (skipQueries_no_panic _ _ _ _)

/-- **The only panic sites of `verify_message_byte`** (hence of `authorized_tsig` and of
`TSigVerifier::verify` up to their final re-parse): the u16 addition of two section counts, the
debug assertion after the first ARCOUNT − 1 additional records, and `time − fudge`. -/
theorem panic_sites {sg : Signer} {buf : Bytes} {prev : Option Bytes} {first rdok : Bool}
    {s : String} (hp : verifyMessageByte sg buf prev first rdok = .panic s) :
    s = "tsig:answers+authorities" ∨ s = "tsig:debug_assert-sig" ∨ s = "tsig:time-fudge" := by
  unfold verifyMessageByte at hp
  split at hp
  · split at hp
    · simp at hp
    · split at hp
      · simp at hp
      · split at hp
        · simp at hp
        · split at hp
          · simp only [Outcome.panic.injEq] at hp; exact .inr (.inr hp.symm)
          · simp at hp
  · simp at hp
  · rename_i m hm
    simp only [Outcome.panic.injEq] at hp; subst hp
    obtain ⟨_, _, _, _, h | h⟩ := signed_panic hm
    · exact .inl h.1
    · exact .inr (.inl h.1)

/-- No panic outside the three recorded classes.
(The full statement `∀ inputs, verifyMessageByte … ≠ .panic s` is refuted by the witnesses
below.) -/
theorem no_panic_partial {sg : Signer} {buf : Bytes} {prev : Option Bytes} {first rdok : Bool}
    (hov : ∀ h, readHdr buf = some h → ¬ CountOverflow h)
    (hdt : ∀ h pos, readHdr buf = some h → skipQueries buf h.qd 12 = .ok pos →
      ¬ DoubleTsig buf h pos)
    (htf : ∀ t r, signedBitmessageToBuf buf prev first rdok = .ok (t, r) → ¬ TimeLtFudge r.data) :
    ∀ s, verifyMessageByte sg buf prev first rdok ≠ .panic s := by
  intro s hp
  unfold verifyMessageByte at hp
  split at hp
  · rename_i t r hs
    split at hp
    · simp at hp
    · split at hp
      · simp at hp
      · split at hp
        · simp at hp
        · split at hp
          · rename_i hlt; exact htf t r hs hlt
          · simp at hp
  · simp at hp
  · rename_i m hm
    obtain ⟨h, pos, hh, hq, hc | hc⟩ := signed_panic hm
    · exact hov h hh hc.2
    · exact hdt h pos hh hq hc.2

/-! ### on the server path only `time − fudge` is reachable -/

theorem readRecords_append (buf : Bytes) (isAdd upd : Bool) (k₂ : Nat) :
    ∀ k₁ pos sig edns, readRecords buf isAdd upd (k₁ + k₂) pos sig edns =
      match readRecords buf isAdd upd k₁ pos sig edns with
      | .ok (p, s, e) => readRecords buf isAdd upd k₂ p s e
      | .err => .err
      | .panic m => .panic m := by
  intro k₁
  induction k₁ with
  | zero => intro pos sig edns; simp [readRecords]
  | succ k ih =>
    intro pos sig edns
    rw [Nat.succ_add, readRecords, readRecords]
    split
    · split
      · split
        · exact ih _ _ _
        · rfl
      · rfl
      · rfl
    · rfl
    · rfl

/-- outside the additional section the loop state never changes -/
theorem readRecords_nonadd_state (buf : Bytes) (upd : Bool) :
    ∀ k pos sig edns p s e, readRecords buf false upd k pos sig edns = .ok (p, s, e) →
      s = sig ∧ e = edns := by
  intro k
  induction k with
  | zero => intro pos sig edns p s e h; simp [readRecords] at h; exact ⟨h.2.1.symm, h.2.2.symm⟩
  | succ k ih =>
    intro pos sig edns p s e h
    rw [readRecords] at h
    split at h
    · split at h
      · split at h
        · rename_i sig' edns' hstep
          have : sig' = sig ∧ edns' = edns := by
            unfold recStep at hstep
            split at hstep
            · simp at hstep
            · split at hstep
              · simp at hstep
              · split at hstep
                · simp at hstep
                · simp at hstep; exact ⟨hstep.1.symm, hstep.2.symm⟩
          obtain ⟨rfl, rfl⟩ := this
          exact ih _ _ _ _ _ _ h
        · simp at h
      · simp at h
      · simp at h
    · simp at h
    · simp at h

/-- a record takes at least 11 octets and ends inside the buffer -/
theorem readRecords_len (buf : Bytes) (isAdd upd : Bool) :
    ∀ k pos sig edns p s e, readRecords buf isAdd upd k pos sig edns = .ok (p, s, e) →
      pos + 11 * k ≤ p ∧ (k = 0 ∨ p ≤ buf.length) := by
  intro k
  induction k with
  | zero => intro pos sig edns p s e h; simp [readRecords] at h; omega
  | succ k ih =>
    intro pos sig edns p s e h
    rw [readRecords] at h
    split at h
    · rename_i f hf
      have hfr : pos + 11 ≤ f.rdEnd ∧ f.rdEnd ≤ buf.length := by
        have hsp := readFrame_span hf
        unfold readFrame at hf
        split at hf
        · rename_i n p' hn
          have := (readName_span hn).lt
          split at hf
          · split at hf
            · simp at hf
            · split at hf
              · simp at hf
              · simp only [Outcome.ok.injEq] at hf; subst hf
                simp only [Frame.rdEnd]; omega
          · simp at hf
        · simp at hf
        · simp at hf
      split at h
      · split at h
        · obtain ⟨h1, h2⟩ := ih _ _ _ _ _ _ h
          refine ⟨by omega, .inr ?_⟩
          rcases h2 with h2 | h2
          · subst h2; simp [readRecords] at h; omega
          · exact h2
        · simp at h
      · simp at h
      · simp at h
    · simp at h
    · simp at h

theorem parseRequest_no_panic (buf : Bytes) (rdok : Bool) (s : String) :
    parseRequest buf rdok ≠ .panic s := by
  unfold parseRequest
  split
  · simp
  · split
    · simp
    · split
      · split
        · simp
        · split
          · split
            · split
              · simp
              · simp
              · rename_i s' hs; exact absurd hs (readRecords_no_panic _ _ _ _ _ _ _ _)
            · simp
            · rename_i s' hs; exact absurd hs (readRecords_no_panic _ _ _ _ _ _ _ _)
          · simp
          · rename_i s' hs; exact absurd hs (readRecords_no_panic _ _ _ _ _ _ _ _)
      · simp
      · rename_i s' hs; exact absurd hs (readQuery_no_panic _ _ _)

/-- what a successful `Request::from_bytes` says about the three sections -/
theorem parseRequest_sections {buf : Bytes} {rdok : Bool} {req : Req}
    (h : parseRequest buf rdok = .ok req) :
    readHdr buf = some req.hdr ∧ req.hdr.qd = 1 ∧
    ∃ pos p1 p2 p3 sg ed x y, skipQueries buf req.hdr.qd 12 = .ok pos ∧
      readRecords buf false (req.hdr.opcode == 5) req.hdr.an pos none none = .ok (p1, none, none) ∧
      readRecords buf false (req.hdr.opcode == 5) req.hdr.ns p1 none none = .ok (p2, none, none) ∧
      readRecords buf true (req.hdr.opcode == 5) req.hdr.ar p2 none none = .ok (p3, sg, ed) ∧
      x = p3 ∧ y = p3 := by
  unfold parseRequest at h
  split at h
  · simp at h
  · rename_i hd hh
    split at h
    · simp at h
    · rename_i hqd
      split at h
      · rename_i qn qt qc pos hq
        split at h
        · simp at h
        · split at h
          · rename_i p1 s1 e1 h1
            split at h
            · rename_i p2 s2 e2 h2
              split at h
              · rename_i p3 sg ed h3
                simp only [Outcome.ok.injEq] at h; subst h
                obtain ⟨rfl, rfl⟩ := readRecords_nonadd_state _ _ _ _ _ _ _ _ _ h1
                obtain ⟨rfl, rfl⟩ := readRecords_nonadd_state _ _ _ _ _ _ _ _ _ h2
                have hq1 : hd.qd = 1 := by omega
                refine ⟨hh, hq1, pos, p1, p2, p3, sg, ed, p3, p3, ?_, h1, h2, h3, rfl, rfl⟩
                simp only [hq1, skipQueries, hq]
              · simp at h
              · simp at h
            · simp at h
            · simp at h
          · simp at h
          · simp at h
      · simp at h
      · simp at h

/-- **On the server path the only reachable panic is `time − fudge`.**  Once
`Request::from_bytes` has accepted a message of at most 65 535 octets, `ANCOUNT + NSCOUNT`
cannot overflow (every record takes ≥ 11 octets) and no TSIG can precede the last record
(`RecordAfterSig`), so `verify_message_byte` on the same bytes can only panic on
`time < fudge` — which requires a MAC made with the configured key. -/
theorem server_panic_only_time_fudge {sg : Signer} {buf : Bytes} {rdok : Bool} {req : Req}
    {s : String} (hlen : buf.length ≤ 65535) (hreq : parseRequest buf rdok = .ok req)
    (hp : verifyMessageByte sg buf none true rdok = .panic s) :
    s = "tsig:time-fudge" ∧ ∃ t r, signedBitmessageToBuf buf none true rdok = .ok (t, r) ∧
      sg.macOK t r.data.mac = true ∧ TimeLtFudge r.data := by
  obtain ⟨hh, hqd, pos, p1, p2, p3, sgr, ed, _, _, hq, h1, h2, h3, _, _⟩ :=
    parseRequest_sections hreq
  unfold verifyMessageByte at hp
  split at hp
  · rename_i t r hs
    split at hp
    · simp at hp
    · split at hp
      · simp at hp
      · split at hp
        · simp at hp
        · rename_i hmac
          split at hp
          · rename_i hlt
            simp only [Outcome.panic.injEq] at hp
            exact ⟨hp.symm, t, r, hs, by simpa using hmac, hlt⟩
          · simp at hp
  · simp at hp
  · rename_i m hm
    exfalso
    obtain ⟨h, pos', hh', hq', hc | hc⟩ := signed_panic hm
    · -- ANCOUNT + NSCOUNT ≤ 65535
      rw [hh] at hh'; cases hh'
      have l1 := readRecords_len _ _ _ _ _ _ _ _ _ _ h1
      have l2 := readRecords_len _ _ _ _ _ _ _ _ _ _ h2
      have := hc.2
      unfold CountOverflow at this
      rcases l2.2 with z | z
      · rcases l1.2 with z1 | z1
        · omega
        · have := l1.1; omega
      · have := l1.1; have := l2.1; omega
    · -- no TSIG before the last additional record
      rw [hh] at hh'; cases hh'
      rw [hq] at hq'; cases hq'
      obtain ⟨_, q1, x, y, q2, s2, z, g1, g2⟩ := hc
      have a := readRecords_append buf false (req.hdr.opcode == 5) req.hdr.ns req.hdr.an pos none none
      rw [h1] at a; simp only at a; rw [h2] at a
      rw [a] at g1
      simp only [Outcome.ok.injEq, Prod.mk.injEq] at g1
      obtain ⟨rfl, _, _⟩ := g1
      by_cases har : req.hdr.ar = 0
      · rw [har] at g2; simp [readRecords] at g2
      · have e : req.hdr.ar = (req.hdr.ar - 1) + 1 := by omega
        rw [e, readRecords_append, g2] at h3
        simp only at h3
        rw [readRecords] at h3
        split at h3
        · split at h3
          · split at h3
            · rename_i hstep
              simp [recStep] at hstep
            · simp at h3
          · simp at h3
          · simp at h3
        · simp at h3
        · simp at h3

/-! ### the record whose MAC is verified is `request.signature()` -/

theorem locateSig_reads {buf : Bytes} {h : Hdr} {pos : Nat} {rdok : Bool} {s : SigRec}
    (hl : locateSig buf h pos rdok = .ok s) :
    ∃ p1 x y p2 z q e,
      readRecords buf false (h.opcode == 5) (h.an + h.ns) pos none none = .ok (p1, x, y) ∧
      readRecords buf true (h.opcode == 5) (h.ar - 1) p1 none none = .ok (p2, none, z) ∧
      readRecords buf true (h.opcode == 5) 1 p2 none none = .ok (q, some s, e) := by
  unfold locateSig at hl
  split at hl
  · simp at hl
  · split at hl
    · simp at hl
    · split at hl
      · rename_i p1 x y h1
        split at hl
        · rename_i p2 sig2 z h2
          split at hl
          · simp at hl
          · rename_i hn
            have : sig2 = none := by cases sig2 <;> simp_all
            subst this
            split at hl
            · rename_i q s' e h3
              simp only [Outcome.ok.injEq] at hl; subst hl
              exact ⟨p1, x, y, p2, z, q, e, h1, h2, h3⟩
            · simp at hl
            · simp at hl
            · simp at hl
        · simp at hl
        · simp at hl
      · simp at hl
      · simp at hl

/-- one `read_records` step from `sig = None`: the TSIG it returns does not depend on the EDNS
state it was started with -/
theorem readRecords_one_edns {buf : Bytes} {upd : Bool} {p q q' : Nat} {s s' : SigRec}
    {z e e' : Option Nat}
    (h : readRecords buf true upd 1 p none none = .ok (q, some s, e))
    (h' : readRecords buf true upd 1 p none z = .ok (q', some s', e')) : s = s' := by
  rw [readRecords] at h h'
  split at h
  · rename_i f hf
    rw [hf] at h'
    simp only at h'
    split at h
    · rename_i td htd
      rw [htd] at h'
      simp only at h'
      split at h
      · rename_i sg ed hstep
        split at h'
        · rename_i sg' ed' hstep'
          simp only [readRecords, Outcome.ok.injEq, Prod.mk.injEq] at h h'
          obtain ⟨_, rfl, _⟩ := h
          obtain ⟨_, rfl, _⟩ := h'
          unfold recStep at hstep hstep'
          split at hstep
          · simp at hstep
          · rename_i hc1
            rw [if_neg hc1] at hstep'
            split at hstep
            · simp at hstep
            · rename_i hc2
              rw [if_neg hc2] at hstep'
              split at hstep
              · simp at hstep
              · rename_i hc3
                rw [if_neg hc3] at hstep'
                split at hstep
                · simp at hstep
                · rename_i hc4
                  rw [if_neg hc4] at hstep'
                  split at hstep
                  · simp only [Option.some.injEq, Prod.mk.injEq] at hstep hstep'
                    rw [← hstep.1, ← hstep'.1]
                  · split at hstep
                    · split at hstep <;> simp at hstep
                    · simp at hstep
        · simp at h'
      · simp at h
    · simp at h
    · simp at h
  · simp at h
  · simp at h

/-- **The TSIG record that `verify_message_byte` checks is `request.signature()`**: the record the
key is looked up by and the record whose MAC, algorithm and times are checked are the same. -/
theorem verified_record_is_request_signature {buf : Bytes} {rdok : Bool} {req : Req}
    {tsig r : SigRec} {prev : Option Bytes} {first : Bool} {t : Bytes}
    (hreq : parseRequest buf rdok = .ok req) (hs : req.sig = some tsig)
    (hv : signedBitmessageToBuf buf prev first rdok = .ok (t, r)) : r = tsig := by
  obtain ⟨hh, hqd, pos, p1, p2, p3, sgr, ed, _, _, hq, h1, h2, h3, _, _⟩ :=
    parseRequest_sections hreq
  have hsg : sgr = some tsig := by
    unfold parseRequest at hreq
    rw [hh] at hreq
    simp only [hqd] at hreq
    simp only [hqd, skipQueries] at hq
    split at hq
    · rename_i n t' c' p' hq'
      simp only [Outcome.ok.injEq] at hq; subst hq
      rw [hq'] at hreq
      simp only [ne_eq, not_true_eq_false, ↓reduceIte] at hreq
      split at hreq
      · simp at hreq
      · rw [h1] at hreq; simp only at hreq
        rw [h2] at hreq; simp only at hreq
        rw [h3] at hreq
        simp only [Outcome.ok.injEq] at hreq
        rw [← hreq] at hs; simpa using hs
    · simp at hq
    · simp at hq
  subst hsg
  unfold signedBitmessageToBuf at hv
  rw [hh] at hv
  simp only at hv
  split at hv
  · simp at hv
  · rename_i har
    rw [hq] at hv
    simp only at hv
    split at hv
    · rename_i s' hl
      simp only [Outcome.ok.injEq, Prod.mk.injEq] at hv
      obtain ⟨_, rfl⟩ := hv
      obtain ⟨q1, x, y, q2, z, q, e, g1, g2, g3⟩ := locateSig_reads hl
      have a := readRecords_append buf false (req.hdr.opcode == 5) req.hdr.ns req.hdr.an pos none none
      rw [h1] at a; simp only at a; rw [h2] at a
      rw [a] at g1
      simp only [Outcome.ok.injEq, Prod.mk.injEq] at g1
      obtain ⟨rfl, _, _⟩ := g1
      have e1 : req.hdr.ar = (req.hdr.ar - 1) + 1 := by omega
      rw [e1, readRecords_append, g2] at h3
      simp only at h3
      exact readRecords_one_edns g3 h3
    · simp at hv
    · simp at hv

/-! ### witnesses -/

/-- header (UPDATE, QD = 1, AR = `ar`) ‖ zone `. SOA IN` ‖ `extra` ‖ a TSIG RR owned by `.` with
algorithm `hmac-sha256`, 48-bit time `[0,0,0,0,0,time]`, MAC `mac`, original id `7·256+7` -/
def tsigRR (cls ttl time fudge : Nat) (mac : Bytes) : Bytes :=
  [0, 0, 250, 0, cls, 0, 0, 0, ttl, 0, 29 + mac.length,
   11, 104, 109, 97, 99, 45, 115, 104, 97, 50, 53, 54, 0,
   0, 0, 0, 0, 0, time, 0, fudge, 0, mac.length] ++ mac ++ [7, 7, 0, 0, 0, 0]

def msg (id z ar : Nat) (extra rr trail : Bytes) : Bytes :=
  [id, id, 40, z, 0, 1, 0, 0, 0, 0, 0, ar, 0, 0, 6, 0, 1] ++ extra ++ rr ++ trail

def mac32 : Bytes := List.replicate 32 170

/-- a signer whose MAC oracle says yes (a holder of the key made the MAC) -/
def sgYes : Signer := { name := Name.root, alg := 256, fudge := 300, macOK := fun _ _ => true }

macro "eval_tsig" : tactic => `(tactic|
  simp [msg, tsigRR, mac32, sgYes, verifyMessageByte, signedBitmessageToBuf, tbsOf, readHdr, rd16,
    rd32, skipQueries, readQuery, locateSig, readRecords, readFrame, tsigOf, readTsigData, recStep,
    Hdr.opcode, Name.isRoot, Frame.rdEnd, Name.readName, Name.readLabels, Name.extendName, Name.new,
    Name.encodedLen, Name.dataLen, Name.MAX_LENGTH, Name.len, Name.root, Name.eq, Name.cmpWithF,
    Name.cmpLabels, Name.cmpRev, algIs, algLabel, outLen, emitHdr, be16, be32, be48, reB2, reB3,
    tsigVars, lowerWire, Name.wire, Name.toLowercase, Name.lowerLabel, Name.lowerByte,
    Name.emitLabel, prevPart])

set_option maxRecDepth 8000

/-- **Finding `C13.TimeLtFudge`.**  A correctly MAC'ed request whose time signed (5) is smaller
than its fudge (9): `tsig.time - tsig.fudge as u64` panics in the debug profile. -/
theorem ex_time_lt_fudge :
    verifyMessageByte sgYes (msg 1 0 1 [] (tsigRR 255 0 5 9 mac32) []) none true true
      = .panic "tsig:time-fudge" := by eval_tsig

/-- with time ≥ fudge the same request verifies (the hypothesis of `no_panic_partial` is
satisfiable) -/
example : (verifyMessageByte sgYes (msg 1 0 1 [] (tsigRR 255 0 9 5 mac32) []) none true true).isOk
    = true := by eval_tsig; rfl

/-- **Finding `C13.CountOverflow`.**  Twelve octets suffice: ANCOUNT = 0xFFFF, NSCOUNT = 1,
ARCOUNT = 1 — `counts.answers + counts.authorities` overflows `u16`. -/
theorem ex_count_overflow :
    signedBitmessageToBuf [0, 0, 0, 0, 0, 0, 255, 255, 0, 1, 0, 1] none true true
      = .panic "tsig:answers+authorities" := by
  simp [signedBitmessageToBuf, readHdr, rd16, skipQueries, locateSig]

/-- **Finding `C13.DoubleTsig`.**  Two TSIG RRs at the end, ARCOUNT = 2: the first one is returned
by the `read_records` call for the first ARCOUNT − 1 records and trips
`debug_assert!(sig.is_none())`. -/
theorem ex_double_tsig :
    signedBitmessageToBuf (msg 1 0 2 (tsigRR 255 0 9 5 []) (tsigRR 255 0 9 5 []) []) none true true
      = .panic "tsig:debug_assert-sig" := by eval_tsig

/-- the to-be-signed bytes of a message, if any -/
def tbsBytes (b : Bytes) : Option Bytes :=
  match signedBitmessageToBuf b none true true with
  | .ok (t, _) => some t
  | _ => none

/-- the reference message of the following examples and its TBS -/
def refTbs : Bytes :=
  [7, 7, 40, 0, 0, 1, 0, 0, 0, 0, 0, 0, 0, 0, 6, 0, 1,
   0, 0, 255, 0, 0, 0, 0, 11, 104, 109, 97, 99, 45, 115, 104, 97, 50, 53, 54, 0,
   0, 0, 0, 0, 0, 9, 0, 5, 0, 0, 0, 0]

theorem ex_ref : tbsBytes (msg 1 0 1 [] (tsigRR 255 0 9 5 mac32) []) = some refTbs := by
  simp only [tbsBytes, refTbs]; eval_tsig

/-- not authenticated: the header id (the Original ID of the TSIG RDATA is used instead) -/
theorem ex_unauthenticated_id :
    tbsBytes (msg 2 0 1 [] (tsigRR 255 0 9 5 mac32) []) = some refTbs := by
  simp only [tbsBytes, refTbs]; eval_tsig

/-- not authenticated: the Z bit of the header — **finding `C13.ZBitUnauthenticated`** -/
theorem ex_unauthenticated_z :
    tbsBytes (msg 1 64 1 [] (tsigRR 255 0 9 5 mac32) []) = some refTbs := by
  simp only [tbsBytes, refTbs]; eval_tsig

/-- not authenticated (and not checked): CLASS and TTL of the TSIG RR — **finding
`C13.TsigClassTtlUnchecked`** -/
theorem ex_unauthenticated_class_ttl :
    tbsBytes (msg 1 0 1 [] (tsigRR 1 77 9 5 mac32) []) = some refTbs := by
  simp only [tbsBytes, refTbs]; eval_tsig

/-- not part of the TBS: the MAC itself and its length field (they are what the TBS is compared
against) -/
theorem ex_unauthenticated_mac :
    tbsBytes (msg 1 0 1 [] (tsigRR 255 0 9 5 [1, 2, 3]) []) = some refTbs := by
  simp only [tbsBytes, refTbs]; eval_tsig

/-- not authenticated: octets after the TSIG RR (no decoder of the code base looks at them) -/
theorem ex_unauthenticated_trailing :
    tbsBytes (msg 1 0 1 [] (tsigRR 255 0 9 5 mac32) [222, 173]) = some refTbs := by
  simp only [tbsBytes, refTbs]; eval_tsig

/-- authenticated, for contrast: one bit of the zone section changes the TBS -/
theorem ex_authenticated_body :
    tbsBytes ([1, 1, 40, 0, 0, 1, 0, 0, 0, 0, 0, 1, 0, 0, 6, 0, 3] ++ tsigRR 255 0 9 5 mac32)
      ≠ some refTbs := by
  simp only [tbsBytes, refTbs]; eval_tsig

/-! ### non-vacuity of the decision theorems -/

/-- zone `.`, updates allowed, transfers signed-only, one key -/
def cfgYes : ZoneCfg :=
  { origin := Name.root, allowUpdate := true, axfr := .allowSigned, signers := [sgYes] }

/-- like `msg` with the flags octet 2 and the question type as parameters -/
def msgQ (b2 qt : Nat) (rr : Bytes) : Bytes :=
  [1, 1, b2, 0, 0, 1, 0, 0, 0, 0, 0, 1, 0, 0, qt, 0, 1] ++ rr

macro "eval_serve" : tactic => `(tactic|
  simp [serve, parseRequest, dispatch, authorizeUpdate, authorizeAxfr, authorizedTsig, cfgYes, msgQ,
    Hdr.isResponse, Name.zoneOf, Auth.ok, NOTAUTH, REFUSED, BADTIME,
    msg, tsigRR, mac32, sgYes, verifyMessageByte, signedBitmessageToBuf, tbsOf, readHdr, rd16,
    rd32, skipQueries, readQuery, locateSig, readRecords, readFrame, tsigOf, readTsigData, recStep,
    Hdr.opcode, Name.isRoot, Frame.rdEnd, Name.readName, Name.readLabels, Name.extendName, Name.new,
    Name.encodedLen, Name.dataLen, Name.MAX_LENGTH, Name.len, Name.root, Name.eq, Name.cmpWithF,
    Name.cmpLabels, Name.cmpRev, algIs, algLabel, outLen])

/-- the hypotheses of `update_applies_only_if` are satisfiable: a signed UPDATE inside its window
(time 9, fudge 5, now 9) takes effect … -/
example : ∃ d, serve cfgYes (msgQ 40 6 (tsigRR 255 0 9 5 mac32)) 9 true = .ok (some d) ∧
    d.kind = .update ∧ d.effect = true := by
  refine ⟨{ kind := .update, effect := true, rcode := 0, resp := some (.signed sgYes mac32 0) },
    ?_, rfl, rfl⟩
  eval_serve

/-- … and the same request one second past the (half-open) window does not: BADTIME, signed -/
example : ∃ d, serve cfgYes (msgQ 40 6 (tsigRR 255 0 9 5 mac32)) 14 true = .ok (some d) ∧
    d.kind = .update ∧ d.effect = false ∧ d.rcode = NOTAUTH := by
  refine ⟨{ kind := .update, effect := false, rcode := NOTAUTH,
            resp := some (.signed sgYes mac32 BADTIME) }, ?_, rfl, rfl, rfl⟩
  eval_serve

/-- the hypotheses of `axfr_signed_only` are satisfiable -/
example : ∃ d, serve cfgYes (msgQ 0 252 (tsigRR 255 0 9 5 mac32)) 9 true = .ok (some d) ∧
    d.kind = .axfr ∧ d.effect = true := by
  refine ⟨{ kind := .axfr, effect := true, rcode := 0, resp := some (.signed sgYes mac32 0) },
    ?_, rfl, rfl⟩
  eval_serve

/-- an unsigned UPDATE is refused -/
example : ∃ d, serve cfgYes [1, 1, 40, 0, 0, 1, 0, 0, 0, 0, 0, 0, 0, 0, 6, 0, 1] 9 true
    = .ok (some d) ∧ d.kind = .update ∧ d.effect = false ∧ d.rcode = REFUSED := by
  refine ⟨{ kind := .update, effect := false, rcode := REFUSED, resp := none }, ?_, rfl, rfl, rfl⟩
  eval_serve

/-- a truncated MAC (16 of 32 octets) is answered BADSIG, unsigned, even though the oracle of
this signer says yes to everything: the length check comes first -/
example : ∃ d, serve cfgYes (msgQ 40 6 (tsigRR 255 0 9 5 (List.replicate 16 170))) 9 true
    = .ok (some d) ∧ d.effect = false ∧ d.rcode = NOTAUTH := by
  refine ⟨{ kind := .update, effect := false, rcode := NOTAUTH, resp := some (.badSig sgYes) },
    ?_, rfl, rfl⟩
  eval_serve

end HickoryVerif.C13
