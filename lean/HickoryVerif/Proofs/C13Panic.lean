/-
C13, part 4 — **no panic** (full strength, repaired code), the identity of the verified record,
and kernel-checked witnesses.

* `no_panic`              — `∀ sg buf prev first rdok s, verifyMessageByte … ≠ .panic s`; likewise
                            `signedBitmessageToBuf_no_panic`, `verifier_no_panic`, `serve_no_panic`
                            (the decoder part: `readName_no_panic`, `readRecords_no_panic`).
                            Before the repairs cdba272 / 46a3964 only a `_partial` version held.
* `verified_record_is_request_signature`.
* regression examples for the repaired items: `ex_time_lt_fudge_ok` (window saturates at 0),
  `ex_count_overflow_err`, `ex_double_tsig_err`, `ex_z_authenticated`, `ex_class_ttl_rejected`.
* `ex_unauthenticated_{id,mac,trailing}` — what is unauthenticated by design; `ex_authenticated_body`.
-/
import HickoryVerif.Model.Tsig
import HickoryVerif.Proofs.C13

namespace HickoryVerif.C13
open HickoryVerif HickoryVerif.Tsig

/-! ### the decoder part never panics -/

theorem extendName_no_panic (n : Name) (l : Bytes) (s : String) : n.extendName l ≠ .panic s := by
  unfold Name.extendName; simp only; split <;> simp

theorem readLabels_no_panic (buf : Bytes) (pos ns : Nat) (pm : Option Nat) (acc : Name) :
    ns ≤ buf.length → ∀ s, Name.readLabels buf pos ns pm acc ≠ .panic s := by
  fun_induction Name.readLabels buf pos ns pm acc with
  | case1 => intro _ s; simp
  | case2 => intro _ s; simp
  | case3 => intro _ s; simp
  | case4 => intro _ s; simp
  | case5 pos ns pm acc _ b hb hz h3 b1 hb1 loc hlt hgt => intro hns s; omega
  | case6 => intro _ s; simp
  | case7 => intro _ s; simp
  | case8 pos ns pm acc _ b hb hz h3 b1 hb1 loc hlt hgt s' hrec ih =>
    intro hns s
    exact absurd hrec (ih (by omega) s')
  | case9 => intro _ s; simp
  | case10 pos ns pm acc _ b hb hz h3 h0 hfit acc' hext ih => intro hns s; exact ih hns s
  | case11 => intro _ s; simp
  | case12 pos ns pm acc _ b hb hz h3 h0 hfit s' hext =>
    intro _ s; exact absurd hext (extendName_no_panic _ _ _)
  | case13 => intro _ s; simp
  | case14 => intro _ s; simp

theorem readName_no_panic (buf : Bytes) (pos : Nat) (s : String) :
    Name.readName buf pos ≠ .panic s := by
  unfold Name.readName
  by_cases hp : pos ≤ buf.length
  · have := readLabels_no_panic buf pos pos none Name.new hp
    split
    · split <;> simp
    · simp
    · rename_i s' hs; exact absurd hs (this s')
  · have : Name.readLabels buf pos pos none Name.new = .err := by
      rw [Name.readLabels]
      have : buf[pos]? = none := by simp; omega
      simp [this]
    rw [this]; simp

theorem readQuery_no_panic (buf : Bytes) (pos : Nat) (s : String) :
    readQuery buf pos ≠ .panic s := by
  unfold readQuery
  split
  · split <;> simp
  · simp
  · rename_i s' hs; exact absurd hs (readName_no_panic _ _ _)

theorem skipQueries_no_panic (buf : Bytes) : ∀ k pos s, skipQueries buf k pos ≠ .panic s := by
  intro k
  induction k with
  | zero => intro pos s; simp [skipQueries]
  | succ k ih =>
    intro pos s
    rw [skipQueries]
    split
    · exact ih _ _
    · simp
    · rename_i s' hs; exact absurd hs (readQuery_no_panic _ _ _)

theorem readFrame_no_panic (buf : Bytes) (pos : Nat) (s : String) :
    readFrame buf pos ≠ .panic s := by
  unfold readFrame
  split
  · split
    · split
      · simp
      · split <;> simp
    · simp
  · simp
  · rename_i s' hs; exact absurd hs (readName_no_panic _ _ _)

theorem readTsigData_no_panic (buf : Bytes) (a l : Nat) (s : String) :
    readTsigData buf a l ≠ .panic s := by
  unfold readTsigData
  simp only
  split
  · split
    · split
      · simp
      · split
        · split <;> simp
        · simp
    · simp
  · simp
  · rename_i s' hs; exact absurd hs (readName_no_panic _ _ _)

theorem tsigOf_no_panic (buf : Bytes) (f : Frame) (s : String) : tsigOf buf f ≠ .panic s := by
  unfold tsigOf
  split
  · split
    · simp
    · simp
    · rename_i s' hs; exact absurd hs (readTsigData_no_panic _ _ _ _)
  · simp

theorem readRecords_no_panic (buf : Bytes) (isAdd upd : Bool) :
    ∀ k pos sig edns s, readRecords buf isAdd upd k pos sig edns ≠ .panic s := by
  intro k
  induction k with
  | zero => intro pos sig edns s; simp [readRecords]
  | succ k ih =>
    intro pos sig edns s
    rw [readRecords]
    split
    · split
      · split
        · exact ih _ _ _ _
        · simp
      · simp
      · rename_i s' hs; exact absurd hs (tsigOf_no_panic _ _ _)
    · simp
    · rename_i s' hs; exact absurd hs (readFrame_no_panic _ _ _)

/-! ### the TSIG code never panics -/

theorem locateSig_no_panic (buf : Bytes) (h : Hdr) (pos : Nat) (rdok : Bool) (s : String) :
    locateSig buf h pos rdok ≠ .panic s := by
  unfold locateSig
  split
  · simp
  · split
    · split
      · split
        · simp
        · split
          · split <;> simp
          · simp
          · simp
          · rename_i s' hs; exact absurd hs (readRecords_no_panic _ _ _ _ _ _ _ _)
      · simp
      · rename_i s' hs; exact absurd hs (readRecords_no_panic _ _ _ _ _ _ _ _)
    · simp
    · rename_i s' hs; exact absurd hs (readRecords_no_panic _ _ _ _ _ _ _ _)

theorem signedBitmessageToBuf_no_panic (buf : Bytes) (prev : Option Bytes) (first rdok : Bool)
    (s : String) : signedBitmessageToBuf buf prev first rdok ≠ .panic s := by
  unfold signedBitmessageToBuf
  split
  · simp
  · split
    · simp
    · split
      · split
        · simp
        · simp
        · rename_i m hm; exact absurd hm (locateSig_no_panic _ _ _ _ _)
      · simp
      · rename_i s' hs; exact absurd hs (skipQueries_no_panic _ _ _ _)

/-- **No request or reply content makes `verify_message_byte` panic** — full strength, for all
signers, byte strings, chaining states and parse summaries. -/
theorem no_panic (sg : Signer) (buf : Bytes) (prev : Option Bytes) (first rdok : Bool)
    (s : String) : verifyMessageByte sg buf prev first rdok ≠ .panic s := by
  unfold verifyMessageByte
  split
  · split
    · simp
    · split
      · simp
      · split <;> simp
  · simp
  · rename_i m hm; exact absurd hm (signedBitmessageToBuf_no_panic _ _ _ _ _)

/-- `TSigVerifier::verify` never panics -/
theorem verifier_no_panic (v : Verifier) (buf : Bytes) (rdok parseOK : Bool) (s : String) :
    v.verify buf rdok parseOK ≠ .panic s := by
  unfold Verifier.verify
  split
  · split
    · split <;> simp
    · simp
  · simp
  · rename_i m hm; exact absurd hm (no_panic _ _ _ _ _ _)

/-! ### facts about `read_records` and `Request::from_bytes` -/

theorem readRecords_append (buf : Bytes) (isAdd upd : Bool) (k₂ : Nat) :
    ∀ k₁ pos sig edns, readRecords buf isAdd upd (k₁ + k₂) pos sig edns =
      match readRecords buf isAdd upd k₁ pos sig edns with
      | .ok (p, s, e) => readRecords buf isAdd upd k₂ p s e
      | .err => .err
      | .panic m => .panic m := by
  intro k₁
  induction k₁ with
  | zero => intro pos sig edns; simp [readRecords]
  | succ k ih =>
    intro pos sig edns
    rw [Nat.succ_add, readRecords, readRecords]
    split
    · split
      · split
        · exact ih _ _ _
        · rfl
      · rfl
      · rfl
    · rfl
    · rfl

/-- outside the additional section the loop state never changes -/
theorem readRecords_nonadd_state (buf : Bytes) (upd : Bool) :
    ∀ k pos sig edns p s e, readRecords buf false upd k pos sig edns = .ok (p, s, e) →
      s = sig ∧ e = edns := by
  intro k
  induction k with
  | zero => intro pos sig edns p s e h; simp [readRecords] at h; exact ⟨h.2.1.symm, h.2.2.symm⟩
  | succ k ih =>
    intro pos sig edns p s e h
    rw [readRecords] at h
    split at h
    · split at h
      · split at h
        · rename_i sig' edns' hstep
          have : sig' = sig ∧ edns' = edns := by
            unfold recStep at hstep
            split at hstep
            · simp at hstep
            · split at hstep
              · simp at hstep
              · split at hstep
                · simp at hstep
                · simp at hstep; exact ⟨hstep.1.symm, hstep.2.symm⟩
          obtain ⟨rfl, rfl⟩ := this
          exact ih _ _ _ _ _ _ h
        · simp at h
      · simp at h
      · simp at h
    · simp at h
    · simp at h

/-- a record takes at least 11 octets and ends inside the buffer -/
theorem readRecords_len (buf : Bytes) (isAdd upd : Bool) :
    ∀ k pos sig edns p s e, readRecords buf isAdd upd k pos sig edns = .ok (p, s, e) →
      pos + 11 * k ≤ p ∧ (k = 0 ∨ p ≤ buf.length) := by
  intro k
  induction k with
  | zero => intro pos sig edns p s e h; simp [readRecords] at h; omega
  | succ k ih =>
    intro pos sig edns p s e h
    rw [readRecords] at h
    split at h
    · rename_i f hf
      have hfr : pos + 11 ≤ f.rdEnd ∧ f.rdEnd ≤ buf.length := by
        have hsp := readFrame_span hf
        unfold readFrame at hf
        split at hf
        · rename_i n p' hn
          have := (readName_span hn).lt
          split at hf
          · split at hf
            · simp at hf
            · split at hf
              · simp at hf
              · simp only [Outcome.ok.injEq] at hf; subst hf
                simp only [Frame.rdEnd]; omega
          · simp at hf
        · simp at hf
        · simp at hf
      split at h
      · split at h
        · obtain ⟨h1, h2⟩ := ih _ _ _ _ _ _ h
          refine ⟨by omega, .inr ?_⟩
          rcases h2 with h2 | h2
          · subst h2; simp [readRecords] at h; omega
          · exact h2
        · simp at h
      · simp at h
      · simp at h
    · simp at h
    · simp at h

theorem parseRequest_no_panic (buf : Bytes) (rdok : Bool) (s : String) :
    parseRequest buf rdok ≠ .panic s := by
  unfold parseRequest
  split
  · simp
  · split
    · simp
    · split
      · split
        · simp
        · split
          · split
            · split
              · simp
              · simp
              · rename_i s' hs; exact absurd hs (readRecords_no_panic _ _ _ _ _ _ _ _)
            · simp
            · rename_i s' hs; exact absurd hs (readRecords_no_panic _ _ _ _ _ _ _ _)
          · simp
          · rename_i s' hs; exact absurd hs (readRecords_no_panic _ _ _ _ _ _ _ _)
      · simp
      · rename_i s' hs; exact absurd hs (readQuery_no_panic _ _ _)

/-- what a successful `Request::from_bytes` says about the three sections -/
theorem parseRequest_sections {buf : Bytes} {rdok : Bool} {req : Req}
    (h : parseRequest buf rdok = .ok req) :
    readHdr buf = some req.hdr ∧ req.hdr.qd = 1 ∧
    ∃ pos p1 p2 p3 sg ed x y, skipQueries buf req.hdr.qd 12 = .ok pos ∧
      readRecords buf false (req.hdr.opcode == 5) req.hdr.an pos none none = .ok (p1, none, none) ∧
      readRecords buf false (req.hdr.opcode == 5) req.hdr.ns p1 none none = .ok (p2, none, none) ∧
      readRecords buf true (req.hdr.opcode == 5) req.hdr.ar p2 none none = .ok (p3, sg, ed) ∧
      x = p3 ∧ y = p3 := by
  unfold parseRequest at h
  split at h
  · simp at h
  · rename_i hd hh
    split at h
    · simp at h
    · rename_i hqd
      split at h
      · rename_i qn qt qc pos hq
        split at h
        · simp at h
        · split at h
          · rename_i p1 s1 e1 h1
            split at h
            · rename_i p2 s2 e2 h2
              split at h
              · rename_i p3 sg ed h3
                simp only [Outcome.ok.injEq] at h; subst h
                obtain ⟨rfl, rfl⟩ := readRecords_nonadd_state _ _ _ _ _ _ _ _ _ h1
                obtain ⟨rfl, rfl⟩ := readRecords_nonadd_state _ _ _ _ _ _ _ _ _ h2
                have hq1 : hd.qd = 1 := by omega
                refine ⟨hh, hq1, pos, p1, p2, p3, sg, ed, p3, p3, ?_, h1, h2, h3, rfl, rfl⟩
                simp only [hq1, skipQueries, hq]
              · simp at h
              · simp at h
            · simp at h
            · simp at h
          · simp at h
          · simp at h
      · simp at h
      · simp at h

theorem authorizedTsig_no_panic (cfg : ZoneCfg) (tsig : SigRec) (buf : Bytes) (now : Nat)
    (rdok : Bool) (s : String) : authorizedTsig cfg tsig buf now rdok ≠ .panic s := by
  unfold authorizedTsig
  split
  · simp
  · split
    · split <;> simp
    · simp
    · rename_i m hm; exact absurd hm (no_panic _ _ _ _ _ _)

/-- **The server path never panics** on any request bytes, configuration or clock value (as far
as it is modelled: parse, dispatch, authorisation). -/
theorem authorizeUpdate_no_panic (cfg : ZoneCfg) (req : Req) (buf : Bytes) (now : Nat)
    (rdok : Bool) (s : String) : authorizeUpdate cfg req buf now rdok ≠ .panic s := by
  unfold authorizeUpdate
  split
  · simp
  · split
    · simp
    · split
      · simp
      · split
        · simp
        · split
          · exact authorizedTsig_no_panic _ _ _ _ _ _
          · simp

theorem authorizeAxfr_no_panic (cfg : ZoneCfg) (req : Req) (buf : Bytes) (now : Nat)
    (rdok : Bool) (s : String) : authorizeAxfr cfg req buf now rdok ≠ .panic s := by
  unfold authorizeAxfr
  split
  · split <;> simp
  · split
    · simp
    · simp
    · split
      · exact authorizedTsig_no_panic _ _ _ _ _ _
      · simp

theorem serve_no_panic (cfg : ZoneCfg) (buf : Bytes) (now : Nat) (rdok : Bool) (s : String) :
    serve cfg buf now rdok ≠ .panic s := by
  unfold serve
  split
  · simp
  · rename_i m hm; exact absurd hm (parseRequest_no_panic _ _ _)
  · split
    · simp
    · split
      · simp
      · simp
      · rename_i m hm; exact absurd hm (authorizeUpdate_no_panic _ _ _ _ _ _)
    · split
      · simp
      · simp
      · rename_i m hm; exact absurd hm (authorizeAxfr_no_panic _ _ _ _ _ _)

/-! ### the record whose MAC is verified is `request.signature()` -/

theorem locateSig_reads {buf : Bytes} {h : Hdr} {pos : Nat} {rdok : Bool} {s : SigRec}
    (hl : locateSig buf h pos rdok = .ok s) :
    ∃ p1 x y p2 z q e,
      readRecords buf false (h.opcode == 5) (h.an + h.ns) pos none none = .ok (p1, x, y) ∧
      readRecords buf true (h.opcode == 5) (h.ar - 1) p1 none none = .ok (p2, none, z) ∧
      readRecords buf true (h.opcode == 5) 1 p2 none none = .ok (q, some s, e) := by
  unfold locateSig at hl
  split at hl
  · simp at hl
  · split at hl
    · rename_i p1 x y h1
      split at hl
      · rename_i p2 sig2 z h2
        split at hl
        · simp at hl
        · rename_i hn
          have : sig2 = none := by cases sig2 <;> simp_all
          subst this
          split at hl
          · rename_i q s' e h3
            split at hl
            · simp at hl
            · simp only [Outcome.ok.injEq] at hl; subst hl
              exact ⟨p1, x, y, p2, z, q, e, h1, h2, h3⟩
          · simp at hl
          · simp at hl
          · simp at hl
      · simp at hl
      · simp at hl
    · simp at hl
    · simp at hl

/-- one `read_records` step from `sig = None`: the TSIG it returns does not depend on the EDNS
state it was started with -/
theorem readRecords_one_edns {buf : Bytes} {upd : Bool} {p q q' : Nat} {s s' : SigRec}
    {z e e' : Option Nat}
    (h : readRecords buf true upd 1 p none none = .ok (q, some s, e))
    (h' : readRecords buf true upd 1 p none z = .ok (q', some s', e')) : s = s' := by
  rw [readRecords] at h h'
  split at h
  · rename_i f hf
    rw [hf] at h'
    simp only at h'
    split at h
    · rename_i td htd
      rw [htd] at h'
      simp only at h'
      split at h
      · rename_i sg ed hstep
        split at h'
        · rename_i sg' ed' hstep'
          simp only [readRecords, Outcome.ok.injEq, Prod.mk.injEq] at h h'
          obtain ⟨_, rfl, _⟩ := h
          obtain ⟨_, rfl, _⟩ := h'
          unfold recStep at hstep hstep'
          split at hstep
          · simp at hstep
          · rename_i hc1
            rw [if_neg hc1] at hstep'
            split at hstep
            · simp at hstep
            · rename_i hc2
              rw [if_neg hc2] at hstep'
              split at hstep
              · simp at hstep
              · rename_i hc3
                rw [if_neg hc3] at hstep'
                split at hstep
                · simp at hstep
                · rename_i hc4
                  rw [if_neg hc4] at hstep'
                  split at hstep
                  · simp only [Option.some.injEq, Prod.mk.injEq] at hstep hstep'
                    rw [← hstep.1, ← hstep'.1]
                  · split at hstep
                    · split at hstep <;> simp at hstep
                    · simp at hstep
        · simp at h'
      · simp at h
    · simp at h
    · simp at h
  · simp at h
  · simp at h

/-- **The TSIG record that `verify_message_byte` checks is `request.signature()`**: the record the
key is looked up by and the record whose MAC, algorithm and times are checked are the same. -/
theorem verified_record_is_request_signature {buf : Bytes} {rdok : Bool} {req : Req}
    {tsig r : SigRec} {prev : Option Bytes} {first : Bool} {t : Bytes}
    (hreq : parseRequest buf rdok = .ok req) (hs : req.sig = some tsig)
    (hv : signedBitmessageToBuf buf prev first rdok = .ok (t, r)) : r = tsig := by
  obtain ⟨hh, hqd, pos, p1, p2, p3, sgr, ed, _, _, hq, h1, h2, h3, _, _⟩ :=
    parseRequest_sections hreq
  have hsg : sgr = some tsig := by
    unfold parseRequest at hreq
    rw [hh] at hreq
    simp only [hqd] at hreq
    simp only [hqd, skipQueries] at hq
    split at hq
    · rename_i n t' c' p' hq'
      simp only [Outcome.ok.injEq] at hq; subst hq
      rw [hq'] at hreq
      simp only [ne_eq, not_true_eq_false, ↓reduceIte] at hreq
      split at hreq
      · simp at hreq
      · rw [h1] at hreq; simp only at hreq
        rw [h2] at hreq; simp only at hreq
        rw [h3] at hreq
        simp only [Outcome.ok.injEq] at hreq
        rw [← hreq] at hs; simpa using hs
    · simp at hq
    · simp at hq
  subst hsg
  unfold signedBitmessageToBuf at hv
  rw [hh] at hv
  simp only at hv
  split at hv
  · simp at hv
  · rename_i har
    rw [hq] at hv
    simp only at hv
    split at hv
    · rename_i s' hl
      simp only [Outcome.ok.injEq, Prod.mk.injEq] at hv
      obtain ⟨_, rfl⟩ := hv
      obtain ⟨q1, x, y, q2, z, q, e, g1, g2, g3⟩ := locateSig_reads hl
      have a := readRecords_append buf false (req.hdr.opcode == 5) req.hdr.ns req.hdr.an pos none none
      rw [h1] at a; simp only at a; rw [h2] at a
      rw [a] at g1
      simp only [Outcome.ok.injEq, Prod.mk.injEq] at g1
      obtain ⟨rfl, _, _⟩ := g1
      have e1 : req.hdr.ar = (req.hdr.ar - 1) + 1 := by omega
      rw [e1, readRecords_append, g2] at h3
      simp only at h3
      exact readRecords_one_edns g3 h3
    · simp at hv
    · simp at hv

/-! ### witnesses -/

/-- header (UPDATE, QD = 1, AR = `ar`) ‖ zone `. SOA IN` ‖ `extra` ‖ a TSIG RR owned by `.` with
algorithm `hmac-sha256`, 48-bit time `[0,0,0,0,0,time]`, MAC `mac`, original id `7·256+7` -/
def tsigRR (cls ttl time fudge : Nat) (mac : Bytes) : Bytes :=
  [0, 0, 250, 0, cls, 0, 0, 0, ttl, 0, 29 + mac.length,
   11, 104, 109, 97, 99, 45, 115, 104, 97, 50, 53, 54, 0,
   0, 0, 0, 0, 0, time, 0, fudge, 0, mac.length] ++ mac ++ [7, 7, 0, 0, 0, 0]

def msg (id z ar : Nat) (extra rr trail : Bytes) : Bytes :=
  [id, id, 40, z, 0, 1, 0, 0, 0, 0, 0, ar, 0, 0, 6, 0, 1] ++ extra ++ rr ++ trail

def mac32 : Bytes := List.replicate 32 170

/-- a signer whose MAC oracle says yes (a holder of the key made the MAC) -/
def sgYes : Signer := { name := Name.root, alg := 256, fudge := 300, macOK := fun _ _ => true }

macro "eval_tsig" : tactic => `(tactic|
  simp [msg, tsigRR, mac32, sgYes, verifyMessageByte, signedBitmessageToBuf, tbsOf, hdrDigest, readHdr, rd16,
    rd32, skipQueries, readQuery, locateSig, readRecords, readFrame, tsigOf, readTsigData, recStep,
    Hdr.opcode, Name.isRoot, Frame.rdEnd, Name.readName, Name.readLabels, Name.extendName, Name.new,
    Name.encodedLen, Name.dataLen, Name.MAX_LENGTH, Name.len, Name.root, Name.eq, Name.cmpWithF,
    Name.cmpLabels, Name.cmpRev, algIs, algLabel, outLen, be16, be32, be48,
    tsigVars, lowerWire, Name.wire, Name.toLowercase, Name.lowerLabel, Name.lowerByte,
    Name.emitLabel, prevPart])

set_option maxRecDepth 8000

/-- Regression (`C13.TimeLtFudge`, fixed cdba272).  A correctly MAC'ed request whose time signed
(5) is smaller than its fudge (9) used to panic on `time − fudge`; the window now saturates at 0:
`[0, 14)`. -/
theorem ex_time_lt_fudge_ok :
    verifyMessageByte sgYes (msg 1 0 1 [] (tsigRR 255 0 5 9 mac32) []) none true true
      = .ok { mac := mac32, time := 5, lo := 0, hi := 14 } := by eval_tsig

/-- Regression (`C13.CountOverflow`, fixed 46a3964).  ANCOUNT = 0xFFFF, NSCOUNT = 1, ARCOUNT = 1 in
twelve octets: an error (there are no 65 536 records), no longer an overflow panic. -/
theorem ex_count_overflow_err :
    signedBitmessageToBuf [0, 0, 0, 0, 0, 0, 255, 255, 0, 1, 0, 1] none true true = .err := by
  simp [signedBitmessageToBuf, readHdr, rd16, skipQueries, locateSig, readRecords, readFrame,
    Name.readName, Name.readLabels]

/-- Regression (`C13.DoubleTsig`, fixed 46a3964).  Two TSIG RRs at the end, ARCOUNT = 2: an error,
no longer a failed `debug_assert!`. -/
theorem ex_double_tsig_err :
    signedBitmessageToBuf (msg 1 0 2 (tsigRR 255 0 9 5 []) (tsigRR 255 0 9 5 []) []) none true true
      = .err := by eval_tsig

/-- the to-be-signed bytes of a message, if any -/
def tbsBytes (b : Bytes) : Option Bytes :=
  match signedBitmessageToBuf b none true true with
  | .ok (t, _) => some t
  | _ => none

/-- the reference message of the following examples and its TBS -/
def refTbs : Bytes :=
  [7, 7, 40, 0, 0, 1, 0, 0, 0, 0, 0, 0, 0, 0, 6, 0, 1,
   0, 0, 255, 0, 0, 0, 0, 11, 104, 109, 97, 99, 45, 115, 104, 97, 50, 53, 54, 0,
   0, 0, 0, 0, 0, 9, 0, 5, 0, 0, 0, 0]

theorem ex_ref : tbsBytes (msg 1 0 1 [] (tsigRR 255 0 9 5 mac32) []) = some refTbs := by
  simp only [tbsBytes, refTbs]; eval_tsig

/-- not authenticated, by design: the wire header id (the Original ID of the TSIG RDATA is
digested instead) -/
theorem ex_unauthenticated_id :
    tbsBytes (msg 2 0 1 [] (tsigRR 255 0 9 5 mac32) []) = some refTbs := by
  simp only [tbsBytes, refTbs]; eval_tsig

/-- Regression (`C13.ZBitUnauthenticated`, fixed 84e713d): the Z bit of the header is digested as
received — flipping it changes the TBS. -/
theorem ex_z_authenticated :
    tbsBytes (msg 1 64 1 [] (tsigRR 255 0 9 5 mac32) []) ≠ some refTbs ∧
    (tbsBytes (msg 1 64 1 [] (tsigRR 255 0 9 5 mac32) [])).isSome = true := by
  simp only [tbsBytes, refTbs]; eval_tsig

/-- Regression (`C13.TsigClassTtlUnchecked`, fixed 84e713d): a TSIG RR whose CLASS is not ANY or
whose TTL is not 0 is rejected before any MAC is looked at. -/
theorem ex_class_ttl_rejected :
    tbsBytes (msg 1 0 1 [] (tsigRR 1 0 9 5 mac32) []) = none ∧
    tbsBytes (msg 1 0 1 [] (tsigRR 255 77 9 5 mac32) []) = none := by
  simp only [tbsBytes]; constructor <;> eval_tsig

/-- not part of the TBS: the MAC itself and its length field (they are what the TBS is compared
against) -/
theorem ex_unauthenticated_mac :
    tbsBytes (msg 1 0 1 [] (tsigRR 255 0 9 5 [1, 2, 3]) []) = some refTbs := by
  simp only [tbsBytes, refTbs]; eval_tsig

/-- not authenticated: octets after the TSIG RR (no decoder of the code base looks at them) -/
theorem ex_unauthenticated_trailing :
    tbsBytes (msg 1 0 1 [] (tsigRR 255 0 9 5 mac32) [222, 173]) = some refTbs := by
  simp only [tbsBytes, refTbs]; eval_tsig

/-- authenticated, for contrast: one bit of the zone section changes the TBS -/
theorem ex_authenticated_body :
    tbsBytes ([1, 1, 40, 0, 0, 1, 0, 0, 0, 0, 0, 1, 0, 0, 6, 0, 3] ++ tsigRR 255 0 9 5 mac32)
      ≠ some refTbs := by
  simp only [tbsBytes, refTbs]; eval_tsig

/-! ### non-vacuity of the decision theorems -/

/-- zone `.`, updates allowed, transfers signed-only, one key -/
def cfgYes : ZoneCfg :=
  { origin := Name.root, allowUpdate := true, axfr := .allowSigned, signers := [sgYes] }

/-- like `msg` with the flags octet 2 and the question type as parameters -/
def msgQ (b2 qt : Nat) (rr : Bytes) : Bytes :=
  [1, 1, b2, 0, 0, 1, 0, 0, 0, 0, 0, 1, 0, 0, qt, 0, 1] ++ rr

macro "eval_serve" : tactic => `(tactic|
  simp [serve, parseRequest, dispatch, authorizeUpdate, authorizeAxfr, authorizedTsig, cfgYes, msgQ,
    Hdr.isResponse, Name.zoneOf, Auth.ok, NOTAUTH, REFUSED, BADTIME,
    msg, tsigRR, mac32, sgYes, verifyMessageByte, signedBitmessageToBuf, tbsOf, readHdr, rd16,
    rd32, skipQueries, readQuery, locateSig, readRecords, readFrame, tsigOf, readTsigData, recStep,
    Hdr.opcode, Name.isRoot, Frame.rdEnd, Name.readName, Name.readLabels, Name.extendName, Name.new,
    Name.encodedLen, Name.dataLen, Name.MAX_LENGTH, Name.len, Name.root, Name.eq, Name.cmpWithF,
    Name.cmpLabels, Name.cmpRev, algIs, algLabel, outLen])

/-- the hypotheses of `update_applies_only_if` are satisfiable: a signed UPDATE inside its window
(time 9, fudge 5, now 9) takes effect … -/
example : ∃ d, serve cfgYes (msgQ 40 6 (tsigRR 255 0 9 5 mac32)) 9 true = .ok (some d) ∧
    d.kind = .update ∧ d.effect = true := by
  refine ⟨{ kind := .update, effect := true, rcode := 0, resp := some (.signed sgYes mac32 0) },
    ?_, rfl, rfl⟩
  eval_serve

/-- … and the same request one second past the (half-open) window does not: BADTIME, signed -/
example : ∃ d, serve cfgYes (msgQ 40 6 (tsigRR 255 0 9 5 mac32)) 14 true = .ok (some d) ∧
    d.kind = .update ∧ d.effect = false ∧ d.rcode = NOTAUTH := by
  refine ⟨{ kind := .update, effect := false, rcode := NOTAUTH,
            resp := some (.signed sgYes mac32 BADTIME) }, ?_, rfl, rfl, rfl⟩
  eval_serve

/-- the hypotheses of `axfr_signed_only` are satisfiable -/
example : ∃ d, serve cfgYes (msgQ 0 252 (tsigRR 255 0 9 5 mac32)) 9 true = .ok (some d) ∧
    d.kind = .axfr ∧ d.effect = true := by
  refine ⟨{ kind := .axfr, effect := true, rcode := 0, resp := some (.signed sgYes mac32 0) },
    ?_, rfl, rfl⟩
  eval_serve

/-- an unsigned UPDATE is refused -/
example : ∃ d, serve cfgYes [1, 1, 40, 0, 0, 1, 0, 0, 0, 0, 0, 0, 0, 0, 6, 0, 1] 9 true
    = .ok (some d) ∧ d.kind = .update ∧ d.effect = false ∧ d.rcode = REFUSED := by
  refine ⟨{ kind := .update, effect := false, rcode := REFUSED, resp := none }, ?_, rfl, rfl, rfl⟩
  eval_serve

/-- a truncated MAC (16 of 32 octets) is answered BADSIG, unsigned, even though the oracle of
this signer says yes to everything: the length check comes first -/
example : ∃ d, serve cfgYes (msgQ 40 6 (tsigRR 255 0 9 5 (List.replicate 16 170))) 9 true
    = .ok (some d) ∧ d.effect = false ∧ d.rcode = NOTAUTH := by
  refine ⟨{ kind := .update, effect := false, rcode := NOTAUTH, resp := some (.badSig sgYes) },
    ?_, rfl, rfl⟩
  eval_serve

end HickoryVerif.C13
