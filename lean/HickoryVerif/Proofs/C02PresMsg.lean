/-
C02 — `rdata_preserved` composed over a whole message (stage 4).

`emitMessage_layouts` exposes the first half of `emitMessage_reads`: the layouts of the three record
sections in the final buffer.  `rdataAt_of_layRecord` reads one record's RDATA region off its layout;
`rdata_preserved_message_partial` walks the sections.
-/
import HickoryVerif.Proofs.C02Pres
namespace HickoryVerif.C02
open HickoryVerif HickoryVerif.Name HickoryVerif.Wire HickoryVerif.C03

/-- where `Message::emit` leaves the records: the layouts of the three sections in the final buffer
(the first half of `emitMessage_reads`, exposed) -/
theorem emitMessage_layouts (m : Message) (hwf : MsgWF m) (L : Nat)
    (md' : Metadata) (c : Counts) (e' : Enc)
    (h : emitMessage m ((Enc.new []).setMaxSize L) = .ok (md', c) e') :
    ∃ p1 p2 p3 p4, 12 ≤ p1 ∧ p4 ≤ e'.buf.length ∧
      layAll ((m.answers.take c.an).map layRecord) H12 e'.buf p1 p2 ∧
      layAll ((m.authorities.take c.ns).map layRecord) H12 e'.buf p2 p3 ∧
      layAll ((m.additionals.take c.ar).map layRecord) H12 e'.buf p3 p4 := by
  unfold emitMessage emitMessageParts at h
  generalize hE0 : (Enc.new []).setMaxSize L = e0 at h
  have happ0 : e0.offset = e0.buf.length := by rw [← hE0]; rfl
  have hbuf0 : e0.buf = [] := by rw [← hE0]; rfl
  have hoff0 : e0.offset = 0 := by rw [← hE0]; rfl
  have hptr0 : e0.ptrs = [] := by rw [← hE0]; rfl
  have hnl0 : NoLower e0 := by rw [← hE0]; exact ⟨rfl, by simp [Enc.new, Enc.withOffset, Enc.setMaxSize]⟩
  rw [place_app _ _ happ0] at h
  by_cases hfit : e0.maxSize < e0.offset + 12
  · simp [hfit] at h
  simp only [hfit, ↓reduceIte] at h
  generalize hE1 : ({ e0 with buf := e0.buf ++ List.replicate 12 0, offset := e0.offset + 12 } : Enc) = e1 at h
  have happ1 : e1.offset = e1.buf.length := by rw [← hE1, hbuf0, hoff0]; simp
  have hoff1 : e1.offset = 12 := by rw [← hE1, hoff0]
  have hinv1 : PtrInvH H12 e1 := by
    intro p hp; rw [← hE1] at hp; simp only [hptr0] at hp; cases hp
  have hH1 : ∀ a b, e1.offset ≤ a → H12 (a, b) := by intro a b hab; show 12 ≤ a; omega
  have hnl1 : NoLower e1 := by rw [← hE1]; exact hnl0
  have hmax1 : e1.maxSize = e0.maxSize := by rw [← hE1]
  cases hqr : e1.emitIter (m.queries.map emitQuery) with
  | panic s => rw [hqr] at h; simp at h
  | err k e2 => rw [hqr] at h; simp at h
  | ok qc e2 =>
    rw [hqr] at h
    simp only at h
    have P2 := emitIterFrom_layout emitQuery layQuery m.queries H12 e1 e2 0 qc
      (fun q hq => emits_emitQuery q (hwf.qs q hq).1) (fun q _ => isLayout_query q) happ1 hinv1 hH1 hnl1 hqr
    have hqc : qc = m.queries.length := by
      have := emitIterFrom_ok_count _ e1 0 qc e2 hqr; simpa using this
    have hnl2 : NoLower e2 := ⟨by rw [P2.canon]; exact hnl1.1, by rw [P2.ne]; exact hnl1.2⟩
    have hH2 : ∀ a b, e2.offset ≤ a → H12 (a, b) := by
      intro a b hab; show 12 ≤ a; have := P2.le; omega
    cases han : countWasTruncated (e2.emitIter (m.answers.map emitRecord)) with
    | panic s => rw [han] at h; simp at h
    | err k e3 => rw [han] at h; simp at h
    | ok r3 e3 =>
      rw [han] at h
      obtain ⟨anC, anT⟩ := r3
      simp only at h
      obtain ⟨hanle, han16, hanT, P3⟩ := section_any hwf.an P2.app P2.inv hH2 hnl2 han
      have hnl3 : NoLower e3 := ⟨by rw [P3.canon]; exact hnl2.1, by rw [P3.ne]; exact hnl2.2⟩
      have hH3 : ∀ a b, e3.offset ≤ a → H12 (a, b) := by
        intro a b hab; show 12 ≤ a; have := P2.le; have := P3.le; omega
      cases hns : countWasTruncated (e3.emitIter (m.authorities.map emitRecord)) with
      | panic s => rw [hns] at h; simp at h
      | err k e4 => rw [hns] at h; simp at h
      | ok r4 e4 =>
        rw [hns] at h
        obtain ⟨nsC, nsT⟩ := r4
        simp only at h
        obtain ⟨hnsle, hns16, hnsT, P4⟩ := section_any hwf.ns P3.app P3.inv hH3 hnl3 hns
        have hnl4 : NoLower e4 := ⟨by rw [P4.canon]; exact hnl3.1, by rw [P4.ne]; exact hnl3.2⟩
        have hH4 : ∀ a b, e4.offset ≤ a → H12 (a, b) := by
          intro a b hab; show 12 ≤ a; have := P2.le; have := P3.le; have := P4.le; omega
        cases har : countWasTruncated (e4.emitIter (m.additionals.map emitRecord)) with
        | panic s => rw [har] at h; simp at h
        | err k e5 => rw [har] at h; simp at h
        | ok r5 e5 =>
          rw [har] at h
          obtain ⟨arC, arT⟩ := r5
          simp only [hwf.edns, hwf.sig, Option.map_none, emitExtra] at h
          obtain ⟨harle, har16, harT, P5⟩ := section_any hwf.ar P4.app P4.inv hH4 hnl4 har
          split at h
          · simp at h
          rename_i hqc16
          have hle := P2.le; have hle3 := P3.le; have hle4 := P4.le; have hle5 := P5.le
          have hlen5 : e0.offset + 12 ≤ e5.buf.length := by rw [← P5.app]; omega
          have hmax5 : e0.offset + 12 ≤ e5.maxSize := by
            rw [P5.max, P4.max, P3.max, P2.max, hmax1]; omega
          rw [placeReplace_header _ _ hlen5 hmax5 (by omega)] at h
          simp only [ERes.ok.injEq, Prod.mk.injEq] at h
          obtain ⟨⟨rfl, rfl⟩, rfl⟩ := h
          have hmd : ({ m.md with tc := m.md.tc || anT || nsT || arT } : Metadata)
              = truncatedMd m { qd := qc, an := anC, ns := nsC, ar := arC } := by
            simp only [truncatedMd, short, hwf.edns, hwf.sig, Option.toList_none, List.length_nil,
              Nat.add_zero, hanT, hnsT, harT]
          rw [hmd]
          simp only [hoff0, List.take_zero, List.nil_append, Nat.zero_add]
          generalize hC : ({ qd := qc, an := anC, ns := nsC, ar := arC } : Counts) = cc
          have hcc : cc.qd = qc ∧ cc.an = anC ∧ cc.ns = nsC ∧ cc.ar = arC := by rw [← hC]; exact ⟨rfl, rfl, rfl, rfl⟩
          generalize hfb : headerBytes (truncatedMd m cc) cc ++ List.drop 12 e5.buf = fb
          have hfblen : fb.length = e5.buf.length := by
            rw [← hfb]; simp only [List.length_append, List.length_drop, headerBytes, List.length_cons,
              List.length_nil]; omega
          have hsame : ∀ i, 12 ≤ i → fb[i]? = e5.buf[i]? := by
            intro i hi
            rw [← hfb, List.getElem?_append_right (by simp [headerBytes]; omega)]
            simp only [headerBytes, List.length_cons, List.length_nil, List.getElem?_drop]
            congr 1; omega
          have hseg : SegAt fb 0 (headerBytes (truncatedMd m cc) cc) := by
            rw [← hfb]
            refine ⟨by simp, ?_⟩
            simp only [List.drop_zero]
            exact List.take_left' rfl
          have pre5 : e5.buf.take e5.buf.length = e5.buf := List.take_length
          have pre4 : e5.buf.take e4.buf.length = e4.buf := by rw [← P4.app]; exact P5.pre
          have pre3 : e5.buf.take e3.buf.length = e3.buf :=
            take_chain (by rw [← P3.app]; exact P4.pre) pre4
          have pre2 : e5.buf.take e2.buf.length = e2.buf :=
            take_chain (by rw [← P2.app]; exact P3.pre) pre3
          have LQ := lay_final (isLayout_all _ (by
            intro L hL; simp only [List.mem_map] at hL; obtain ⟨q, _, rfl⟩ := hL; exact isLayout_query q))
            (by omega) P2.lay pre2 hfblen hsame
          have recsLay : ∀ (b : Bool) (rs : List Record), (∀ r ∈ rs, SectionOK m.md.op r b) →
              IsLayout (layAll (rs.map layRecord)) := by
            intro b rs hrs
            refine isLayout_all _ ?_
            intro L hL
            simp only [List.mem_map] at hL
            obtain ⟨r, hr, rfl⟩ := hL
            refine isLayout_record r ?_
            rcases (hrs r hr).1.data with h1 | h1
            · left; rw [h1]; rfl
            · right; exact h1.1
          have wa := sectionOK_take anC hwf.an
          have wn := sectionOK_take nsC hwf.ns
          have wr := sectionOK_take arC hwf.ar
          have LA := lay_final (recsLay _ _ wa) (by omega) P3.lay pre3 hfblen hsame
          have LN := lay_final (recsLay _ _ wn) (by omega) P4.lay pre4 hfblen hsame
          have LR := lay_final (recsLay _ _ wr) (by omega) P5.lay pre5 hfblen hsame

          exact ⟨e2.offset, e3.offset, e4.offset, e5.offset, by omega, by rw [hfblen, ← P5.app]; exact Nat.le_refl _, LA, LN, LR⟩

/-- the RDATA of record `r` occupies `[q, q + len)` of `buf`, preceded by RDLENGTH = `len`; handed to
`RData::read` the way `Record::read` does — as the sub-decoder clamped at `q + len` — that region decodes
to the value of `r` (names as the decoder returns them) with nothing left over -/
def RDataAt (opq : Nat → Rd Bytes) (buf : Bytes) (r : Record) (q len : Nat) : Prop :=
  2 ≤ q ∧ q + len ≤ buf.length ∧ SegAt buf (q - 2) (u16b len) ∧
    Reads (readRData opq r.rtype) (buf.take (q + len)) q r.rdata.fq (buf.take (q + len)).length

theorem rdataAt_of_layRecord {H : Nat × Nat → Prop} {opq : Nat → Rd Bytes} {buf : Bytes} {p e : Nat} (r : Record)
    (hwf : RecWF r) (hnu : r.rdata.isUpdate = false) (hl : layRecord r H buf p e) :
    ∃ q len, p < q ∧ q + len = e ∧ 0 < len ∧ RDataAt opq buf r q len := by
  obtain ⟨m1, l1, m2, l2, m3, l3, m4, l4, m5, l5, l6⟩ := hl
  obtain ⟨rfl, _⟩ := l6
  obtain ⟨len, hlen, hseg, hbody, rfl⟩ := l5
  have b1 := (isLayout_name _).bounds l1
  have b2 := l2.2; have b3 := l3.2; have b4 := l4.2
  simp only [u16b, u32b, List.length_cons, List.length_nil] at b2 b3 b4
  rcases hwf.data with hu | ⟨hpv, hty, hnw, hne⟩
  · rw [hu] at hnu; cases hnu
  · rw [if_neg (by rw [hnu]; simp)] at hbody
    have hL := isLayout_rdata r.rdata hpv
    have hb := hL.bounds hbody
    have hpos := layRData_pos r.rdata hpv ⟨_, hty⟩ hne hbody
    have htr : layRData r.rdata H (buf.take (m4 + 2 + len)) (m4 + 2) (buf.take (m4 + 2 + len)).length := by
      have : (buf.take (m4 + 2 + len)).length = m4 + 2 + len := by
        simp only [List.length_take]; omega
      rw [this]
      exact hL.stable hbody (agreeOn_take _ (Nat.le_refl _) hb.2)
    have hrd := reads_readRData (opq := opq) (typeOK_not_meta hpv hty) (by simp only [List.length_take]; omega)
      (reads_rdataBody r.rdata hpv hty hnw htr)
    refine ⟨m4 + 2, len, by omega, rfl, by omega, by omega, hb.2, ?_, hrd⟩
    have : m4 + 2 - 2 = m4 := by omega
    rw [this]; exact hseg

theorem layAll_get {H : Nat × Nat → Prop} {buf : Bytes} : ∀ (rs : List Record) (p e : Nat),
    (∀ r ∈ rs, IsLayout (layRecord r)) → layAll (rs.map layRecord) H buf p e →
    ∀ (i : Nat) (r : Record), rs[i]? = some r → ∃ pi ei, p ≤ pi ∧ ei ≤ e ∧ layRecord r H buf pi ei
  | [], p, e, _, _, i, r, h => by simp at h
  | x :: rs, p, e, hil, hl, i, r, h => by
    obtain ⟨m, l1, l2⟩ := hl
    have bx := (hil x (by simp)).bounds l1
    have brest := (isLayout_all (rs.map layRecord) (by
      intro L hL; simp only [List.mem_map] at hL; obtain ⟨y, hy, rfl⟩ := hL
      exact hil y (by simp [hy]))).bounds l2
    cases i with
    | zero =>
      simp only [List.getElem?_cons_zero, Option.some.injEq] at h
      subst h
      exact ⟨p, m, Nat.le_refl _, brest.1, l1⟩
    | succ j =>
      simp only [List.getElem?_cons_succ] at h
      obtain ⟨pi, ei, h1, h2, h3⟩ := layAll_get rs m e (fun y hy => hil y (by simp [hy])) l2 j r h
      exact ⟨pi, ei, by omega, h2, h3⟩

/-
FULL STATEMENT (kept visible):
  rdata_preserved_message : in the encoding of a message, for every record of every section the RDATA
  region decodes to the same value at its position.
Proved: `rdata_preserved_message_partial` for `MsgWF m` (no EDNS / TSIG; every covered RDATA variant),
under any size limit, for the records written.
-/

/-- **`rdata_preserved`, composed over the whole message**: in what `Message::emit` writes (under any
limit), every record written of every section — answer `i < c.an`, authority `i < c.ns`, additional
`i < c.ar` — with non-empty RDATA has its RDATA at some `[q, q + len)` behind the header, preceded by
RDLENGTH = `len`, and that region decodes, at its position, to the value of the record. -/
theorem rdata_preserved_message_partial (opq : Nat → Rd Bytes) (m : Message) (hwf : MsgWF m) (L : Nat)
    (md' : Metadata) (c : Counts) (e' : Enc)
    (h : emitMessage m ((Enc.new []).setMaxSize L) = .ok (md', c) e') :
    ∀ (sec : List Record) (n : Nat), (sec = m.answers ∧ n = c.an) ∨ (sec = m.authorities ∧ n = c.ns) ∨
        (sec = m.additionals ∧ n = c.ar) →
      ∀ (i : Nat) (r : Record), i < n → sec[i]? = some r → r.rdata.isUpdate = false →
        ∃ q len, 12 < q ∧ 0 < len ∧ q + len ≤ e'.buf.length ∧ RDataAt opq e'.buf r q len := by
  obtain ⟨p1, p2, p3, p4, h12, hend, LA, LN, LR⟩ := emitMessage_layouts m hwf L md' c e' h
  have key : ∀ (ia : Bool) (sec : List Record) (n p e : Nat), (∀ r ∈ sec, SectionOK m.md.op r ia) → 12 ≤ p →
      e ≤ e'.buf.length →
      layAll ((sec.take n).map layRecord) H12 e'.buf p e →
      ∀ (i : Nat) (r : Record), i < n → sec[i]? = some r → r.rdata.isUpdate = false →
        ∃ q len, 12 < q ∧ 0 < len ∧ q + len ≤ e'.buf.length ∧ RDataAt opq e'.buf r q len := by
    intro ia sec n p e hsec hp he hl i r hi hr hnu
    have hmem : r ∈ sec := List.mem_of_getElem? hr
    have hget : (sec.take n)[i]? = some r := by rw [List.getElem?_take_of_lt hi]; exact hr
    have hil : ∀ x ∈ sec.take n, IsLayout (layRecord x) := by
      intro x hx
      refine isLayout_record x ?_
      rcases (hsec x (List.mem_of_mem_take hx)).1.data with h1 | h1
      · left; rw [h1]; rfl
      · right; exact h1.1
    obtain ⟨pi, ei, h1, h2, h3⟩ := layAll_get (sec.take n) p e hil hl i r hget
    obtain ⟨q, len, hq1, hq2, hq3, hq4⟩ := rdataAt_of_layRecord (opq := opq) r (hsec r hmem).1 hnu h3
    exact ⟨q, len, by omega, hq3, by omega, hq4⟩
  intro sec n hs
  rcases hs with ⟨rfl, rfl⟩ | ⟨rfl, rfl⟩ | ⟨rfl, rfl⟩
  · exact key _ _ _ p1 p2 hwf.an h12 (by
      have := (isLayout_all _ (fun L hL => by
        simp only [List.mem_map] at hL; obtain ⟨r, hr, rfl⟩ := hL
        refine isLayout_record r ?_
        rcases (hwf.ns r (List.mem_of_mem_take hr)).1.data with h1 | h1
        · left; rw [h1]; rfl
        · right; exact h1.1)).bounds LN
      have := (isLayout_all _ (fun L hL => by
        simp only [List.mem_map] at hL; obtain ⟨r, hr, rfl⟩ := hL
        refine isLayout_record r ?_
        rcases (hwf.ar r (List.mem_of_mem_take hr)).1.data with h1 | h1
        · left; rw [h1]; rfl
        · right; exact h1.1)).bounds LR
      omega) LA
  · have bA := (isLayout_all _ (fun L hL => by
      simp only [List.mem_map] at hL; obtain ⟨r, hr, rfl⟩ := hL
      refine isLayout_record r ?_
      rcases (hwf.an r (List.mem_of_mem_take hr)).1.data with h1 | h1
      · left; rw [h1]; rfl
      · right; exact h1.1)).bounds LA
    have bR := (isLayout_all _ (fun L hL => by
      simp only [List.mem_map] at hL; obtain ⟨r, hr, rfl⟩ := hL
      refine isLayout_record r ?_
      rcases (hwf.ar r (List.mem_of_mem_take hr)).1.data with h1 | h1
      · left; rw [h1]; rfl
      · right; exact h1.1)).bounds LR
    exact key _ _ _ p2 p3 hwf.ns (by omega) (by omega) LN
  · have bA := (isLayout_all _ (fun L hL => by
      simp only [List.mem_map] at hL; obtain ⟨r, hr, rfl⟩ := hL
      refine isLayout_record r ?_
      rcases (hwf.an r (List.mem_of_mem_take hr)).1.data with h1 | h1
      · left; rw [h1]; rfl
      · right; exact h1.1)).bounds LA
    have bN := (isLayout_all _ (fun L hL => by
      simp only [List.mem_map] at hL; obtain ⟨r, hr, rfl⟩ := hL
      refine isLayout_record r ?_
      rcases (hwf.ns r (List.mem_of_mem_take hr)).1.data with h1 | h1
      · left; rw [h1]; rfl
      · right; exact h1.1)).bounds LN
    exact key _ _ _ p3 p4 hwf.ar (by omega) hend LR

end HickoryVerif.C02
