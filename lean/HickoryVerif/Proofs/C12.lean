/-
C12 — Dynamic update applies RFC 2136 semantics and keeps the zone well-formed.

Property theorems about the model of `SqliteZoneHandler::{verify_prerequisites, pre_scan,
update_records, update}` (`Model/Update.lean`, `Model/Zone.lean`) against the RFC transcription
and the zone invariants of `Spec/Rfc2136.lean`.

Where the code does not satisfy a clause the full statement is kept in a comment, a `…_partial`
theorem is proved under the explicit decidable hypothesis the proof forced, and a concrete
counter-example outside the hypothesis is proved by `decide`; each counter-example is also a case
in `corpus/C12/` that is replayed on the real code and recorded in `known-findings.json`.
-/
import HickoryVerif.Lemmas.RecordSet
import HickoryVerif.Spec.Rfc2136

namespace HickoryVerif.C12
open HickoryVerif HickoryVerif.Upd HickoryVerif.Upd.Zone HickoryVerif.Spec
open HickoryVerif.Spec.Rfc2136 (rrsetOf Inv OnlyApexSoa serialLt)

/-! ## 1. A rejected message changes nothing -/

/-- `update` answers from the authorisation, prerequisite or prescan stage ⇒ the zone is the one
it was given (whatever the answer). -/
theorem reject_unchanged (c : Cfg) (a : Bool) (z : Zone) (m : Msg)
    (h : (update c a z m).2.1 ≠ .apply) : (update c a z m).1 = z := by
  cases a with
  | false => simp [update]
  | true =>
    cases h1 : verifyPrereqs c z m.prereqs with
    | some e => simp [update, h1]
    | none =>
      cases h2 : preScan c m.updates with
      | some e => simp [update, h1, h2]
      | none => simp [update, h1, h2] at h

/-! branch equations of `applyRR` -/

theorem applyRR_zone {c : Cfg} {z : Zone} {rr : Rec} (h : rr.cls = c.zclass) :
    applyRR c z rr = ((upsert c.zclass z rr).1, some (upsert c.zclass z rr).2) := by
  unfold applyRR; rw [if_pos h]

theorem applyRR_any_skip {c : Cfg} {z : Zone} {rr : Rec} (hz : rr.cls ≠ c.zclass) (ha : rr.cls = C_ANY)
    (h : (rr.rtype = T_SOA ∨ rr.rtype = T_NS) ∧ rr.name.toLowercase = c.origin) :
    applyRR c z rr = (z, some false) := by
  unfold applyRR; rw [if_neg hz, if_pos ha, if_pos h]

theorem applyRR_any_any {c : Cfg} {z : Zone} {rr : Rec} (hz : rr.cls ≠ c.zclass) (ha : rr.cls = C_ANY)
    (h : ¬((rr.rtype = T_SOA ∨ rr.rtype = T_NS) ∧ rr.name.toLowercase = c.origin)) (h2 : rr.rtype = T_ANY) :
    applyRR c z rr = (z.filter fun e => anyKeep c rr e.1,
       some (decide ((z.filter fun e => anyKeep c rr e.1).length < z.length))) := by
  unfold applyRR; rw [if_neg hz, if_pos ha, if_neg h, if_pos h2]

theorem applyRR_any_rrset {c : Cfg} {z : Zone} {rr : Rec} (hz : rr.cls ≠ c.zclass) (ha : rr.cls = C_ANY)
    (h : ¬((rr.rtype = T_SOA ∨ rr.rtype = T_NS) ∧ rr.name.toLowercase = c.origin)) (h2 : rr.rtype ≠ T_ANY)
    (he : rr.isEmptyData = true) :
    applyRR c z rr = (z.erase rr.key, some (z.get rr.key).isSome) := by
  unfold applyRR; rw [if_neg hz, if_pos ha, if_neg h, if_neg h2, if_pos he]

theorem applyRR_any_bad {c : Cfg} {z : Zone} {rr : Rec} (hz : rr.cls ≠ c.zclass) (ha : rr.cls = C_ANY)
    (h : ¬((rr.rtype = T_SOA ∨ rr.rtype = T_NS) ∧ rr.name.toLowercase = c.origin)) (h2 : rr.rtype ≠ T_ANY)
    (he : ¬ rr.isEmptyData = true) : applyRR c z rr = (z, none) := by
  unfold applyRR; rw [if_neg hz, if_pos ha, if_neg h, if_neg h2, if_neg he]

theorem applyRR_none_some {c : Cfg} {z : Zone} {rr : Rec} {rs : RSet} (hz : rr.cls ≠ c.zclass)
    (ha : rr.cls ≠ C_ANY) (hn : rr.cls = C_NONE) (hg : z.get rr.key = some rs) :
    applyRR c z rr =
      if (rsRemove rs rr).2 then (z.set rr.key (rsRemove rs rr).1, some true) else (z, some false) := by
  unfold applyRR; rw [if_neg hz, if_neg ha, if_pos hn, hg]

theorem applyRR_none_none {c : Cfg} {z : Zone} {rr : Rec} (hz : rr.cls ≠ c.zclass)
    (ha : rr.cls ≠ C_ANY) (hn : rr.cls = C_NONE) (hg : z.get rr.key = none) :
    applyRR c z rr = (z, some false) := by
  unfold applyRR; rw [if_neg hz, if_neg ha, if_pos hn, hg]

theorem applyRR_other {c : Cfg} {z : Zone} {rr : Rec} (hz : rr.cls ≠ c.zclass) (ha : rr.cls ≠ C_ANY)
    (hn : rr.cls ≠ C_NONE) : applyRR c z rr = (z, none) := by
  unfold applyRR; rw [if_neg hz, if_neg ha, if_neg hn]

/-- An RR the prescan lets through never makes the `update_records` loop bail out. -/
theorem applyRR_some_of_prescan (c : Cfg) (z : Zone) (rr : Rec) (h : Upd.prescanOne c rr = none) :
    ∃ u, (applyRR c z rr).2 = some u := by
  unfold Upd.prescanOne at h
  by_cases hz : rr.cls = c.zclass
  · rw [applyRR_zone hz]; exact ⟨_, rfl⟩
  · by_cases ha : rr.cls = C_ANY
    · by_cases h1 : (rr.rtype = T_SOA ∨ rr.rtype = T_NS) ∧ rr.name.toLowercase = c.origin
      · rw [applyRR_any_skip hz ha h1]; exact ⟨_, rfl⟩
      · by_cases h2 : rr.rtype = T_ANY
        · rw [applyRR_any_any hz ha h1 h2]; exact ⟨_, rfl⟩
        · by_cases he : rr.isEmptyData = true
          · rw [applyRR_any_rrset hz ha h1 h2 he]; exact ⟨_, rfl⟩
          · exfalso
            rw [if_neg hz, if_pos ha] at h
            have he' : (!rr.isEmptyData) = true := by simpa using he
            rw [if_pos he'] at h
            split at h <;> first | (simp at h; done) | (split at h <;> simp at h)
    · by_cases hn : rr.cls = C_NONE
      · cases hg : z.get rr.key with
        | none => rw [applyRR_none_none hz ha hn hg]; exact ⟨_, rfl⟩
        | some rs =>
          rw [applyRR_none_some hz ha hn hg]
          split <;> exact ⟨_, rfl⟩
      · exfalso
        rw [if_neg hz, if_neg ha, if_neg hn] at h
        split at h <;> simp at h

theorem applyAll_some_of_prescan (c : Cfg) (recs : List Rec) (h : preScan c recs = none) :
    ∀ (z : Zone) (u : Bool), ∃ b, (applyAll c z recs u).2 = some b := by
  induction recs with
  | nil => intro z u; exact ⟨u, rfl⟩
  | cons rr rest ih =>
    intro z u
    unfold preScan at h
    split at h
    · simp at h
    · rename_i h1
      obtain ⟨b, hb⟩ := applyRR_some_of_prescan c z rr h1
      unfold applyAll
      split
      · rename_i z' u' heq
        exact ih h z' (u' || u)
      · rename_i z' heq
        rw [heq] at hb; simp at hb

/-- After a successful prescan `update_records` never answers FORMERR: its only error answers
are SERVFAIL (SOA missing after the increment) — see `update_rc_unchanged` for why that cannot
happen on a well-formed zone. -/
theorem update_records_no_formerr (c : Cfg) (z : Zone) (recs : List Rec) (auto : Bool)
    (h : preScan c recs = none) : (updateRecords c z recs auto).2.1 ≠ .rc .formErr := by
  obtain ⟨b, hb⟩ := applyAll_some_of_prescan c recs h z false
  unfold updateRecords
  split
  · rename_i z1 heq; rw [heq] at hb; simp at hb
  · split
    · simp
    · split <;> try simp
      split <;> simp

/-- The half-way failure of `update_records` itself (reachable only *without* the prescan, i.e. by
calling `update_records` directly): the third RR is refused with FORMERR after the first two were
applied, and the zone keeps them. -/
example :
    let c : Cfg := { origin := { labels := [[101]], fqdn := true } }
    let a : Rec := { name := { labels := [[97], [101]], fqdn := true }, rtype := 1, cls := 1, ttl := 5, rdata := .bytes [1] }
    let bad : Rec := { a with cls := 3 }
    (updateRecords c [] [a, bad] true).2.1 = .rc .formErr ∧ (updateRecords c [] [a, bad] true).1 ≠ [] := by
  decide

/-! ## 2. The zone invariants are preserved by every message

`KInv` is the key-level form the code actually maintains (it decides on map *keys*, and a
class-NONE delete can leave a key with an empty `RecordSet` behind); it implies the
property's `Inv` (`Spec/Rfc2136.lean`). -/

structure KInv (c : Cfg) (z : Zone) : Prop where
  soa : ∃ r s rest, z.get (c.origin, T_SOA) = some [r] ∧ r.rdata = .soa s rest ∧
    r.key = (c.origin, T_SOA) ∧ r.cls = c.zclass
  ns : ∃ rs, z.get (c.origin, T_NS) = some rs ∧ rs ≠ [] ∧ Distinct rs
  cname : ∀ name t, (z.get (name, T_CNAME)).isSome → t ≠ T_CNAME → t ≠ T_NSEC → t ≠ T_NSEC3 →
    t < 65535 → z.get (name, t) = none
  nodup : (z.map (·.1)).Nodup

theorem KInv.toInv {c : Cfg} {z : Zone} (h : KInv c z) : Inv c z where
  apexSoa := by
    obtain ⟨r, s, rest, hg, hr, _⟩ := h.soa
    exact ⟨r, s, rest, by simp [rrsetOf, hg], hr⟩
  apexNs := by
    obtain ⟨rs, hg, hne, _⟩ := h.ns
    simp [rrsetOf, hg, hne]
  cnameAlone := by
    intro name t hc h1 h2 h3 h4
    have : (z.get (name, T_CNAME)).isSome := by
      cases hg : z.get (name, T_CNAME) with
      | none => simp [rrsetOf, hg] at hc
      | some v => rfl
    simp [rrsetOf, h.cname name t this h1 h2 h3 h4]
  nodup := h.nodup

theorem blocked_false {z : Zone} {r : Rec} (h : upsertBlocked z r = false) (t : Nat)
    (ht : t ∈ z.typesAt r.name.toLowercase) :
    (!isNsec r.rtype t && labelDisallow r.rtype t T_CNAME) = false := by
  unfold upsertBlocked at h
  rw [List.any_eq_false] at h
  simpa using h t ht

theorem kinv_upsert (c : Cfg) (z : Zone) (rr : Rec) (h : KInv c z) : KInv c (upsert c.zclass z rr).1 := by
  rcases upsert_cases c.zclass z rr with hu | ⟨hcls, hb, v, hi, hu⟩
  · rw [hu]; exact h
  · rw [hu]
    refine ⟨?_, ?_, ?_, nodup_set z rr.key v h.nodup⟩
    · obtain ⟨r, s, rest, hg, hr, hrk, hrc⟩ := h.soa
      by_cases hk : (c.origin, T_SOA) = rr.key
      · rw [get_set, if_pos hk]
        have ht : rr.rtype = T_SOA := by
          have := congrArg Prod.snd hk; simpa [Rec.key] using this.symm
        rw [← hk, hg] at hi
        simp only [Option.getD_some] at hi
        rcases rsInsert_soa r rr s rest ht hr with h1 | ⟨sn, rest', hd, _, h1⟩
        · rw [h1] at hi; cases hi
        · rw [h1] at hi
          have : v = [rr] := by cases hi; rfl
          exact ⟨rr, sn, rest', by rw [this], hd, hk.symm, hcls.symm⟩
      · rw [get_set, if_neg hk]; exact ⟨r, s, rest, hg, hr, hrk, hrc⟩
    · obtain ⟨rs, hg, hne, hd⟩ := h.ns
      by_cases hk : (c.origin, T_NS) = rr.key
      · rw [get_set, if_pos hk]
        have ht : rr.rtype = T_NS := by
          have := congrArg Prod.snd hk; simpa [Rec.key] using this.symm
        rw [← hk, hg] at hi
        simp only [Option.getD_some] at hi
        have h2 : (rsInsert rs rr).2 = true := by rw [hi]
        have h1 : (rsInsert rs rr).1 = v := by rw [hi]
        refine ⟨v, rfl, ?_, ?_⟩
        · rw [← h1]; exact rsInsert_ne_nil rs rr h2
        · rw [← h1]
          exact rsInsert_distinct rs rr (by rw [ht]; decide) (by rw [ht]; decide) hd
      · rw [get_set, if_neg hk]; exact ⟨rs, hg, hne, hd⟩
    · intro name t hc h1 h2 h3 h4
      rw [get_set] at hc ⊢
      by_cases hkc : (name, T_CNAME) = rr.key
      · -- the upsert adds / rewrites the CNAME at `name`
        have hn : name = rr.name.toLowercase := by
          have := congrArg Prod.fst hkc; simpa [Rec.key] using this
        have ht : rr.rtype = T_CNAME := by
          have := congrArg Prod.snd hkc; simpa [Rec.key] using this.symm
        have hne : (name, t) ≠ rr.key := by
          intro heq; rw [← hkc] at heq
          exact h1 (by have := congrArg Prod.snd heq; simpa using this)
        rw [if_neg hne]
        cases hg : z.get (name, t) with
        | none => rfl
        | some w =>
          exfalso
          have hm := Zone.mem_typesAt z name t w hg h4
          rw [hn] at hm
          have := blocked_false hb t hm
          rw [ht] at this
          simp [isNsec, labelDisallow, h1, h2, h3] at this
          revert this; decide
      · rw [if_neg hkc] at hc
        by_cases hkt : (name, t) = rr.key
        · -- a non-CNAME type is added at a name that holds a CNAME key: `upsert` refuses
          exfalso
          have hn : name = rr.name.toLowercase := by
            have := congrArg Prod.fst hkt; simpa [Rec.key] using this
          have ht : rr.rtype = t := by
            have := congrArg Prod.snd hkt; simpa [Rec.key] using this.symm
          obtain ⟨w, hw⟩ := Option.isSome_iff_exists.mp hc
          have hm := Zone.mem_typesAt z name T_CNAME w hw (by decide)
          rw [hn] at hm
          have := blocked_false hb T_CNAME hm
          rw [ht] at this
          simp [isNsec, labelDisallow, h1, h2, h3] at this
          revert this; decide
        · rw [if_neg hkt]; exact h.cname name t hc h1 h2 h3 h4

theorem key_ne_of_not_skip {c : Cfg} {rr : Rec} {t : Nat} (ht : t = T_SOA ∨ t = T_NS)
    (h : ¬((rr.rtype = T_SOA ∨ rr.rtype = T_NS) ∧ rr.name.toLowercase = c.origin)) :
    (c.origin, t) ≠ rr.key := by
  intro heq
  apply h
  have h1 := congrArg Prod.fst heq
  have h2 := congrArg Prod.snd heq
  simp only [Rec.key] at h1 h2
  refine ⟨?_, h1.symm⟩
  rcases ht with ht | ht
  · left; rw [← h2, ht]
  · right; rw [← h2, ht]

/-- every kind of Update RR keeps `KInv` -/
theorem kinv_applyRR (c : Cfg) (z : Zone) (rr : Rec) (h : KInv c z) : KInv c (applyRR c z rr).1 := by
  by_cases hz : rr.cls = c.zclass
  · rw [applyRR_zone hz]; exact kinv_upsert c z rr h
  · by_cases ha : rr.cls = C_ANY
    · by_cases h1 : (rr.rtype = T_SOA ∨ rr.rtype = T_NS) ∧ rr.name.toLowercase = c.origin
      · rw [applyRR_any_skip hz ha h1]; exact h
      · by_cases h2 : rr.rtype = T_ANY
        · rw [applyRR_any_any hz ha h1 h2]
          have hkeep : ∀ t, (t = T_SOA ∨ t = T_NS) → anyKeep c rr (c.origin, t) = true := by
            intro t ht; simp [anyKeep, ht]
          refine ⟨?_, ?_, ?_, nodup_filter z _ h.nodup⟩
          · rw [get_filter_key (anyKeep c rr), hkeep _ (Or.inl rfl)]; exact h.soa
          · rw [get_filter_key (anyKeep c rr), hkeep _ (Or.inr rfl)]; exact h.ns
          · intro name t hc h1 h2 h3 h4
            rw [get_filter_key (anyKeep c rr)] at hc ⊢
            split at hc
            · rw [h.cname name t hc h1 h2 h3 h4]; simp
            · simp at hc
        · by_cases he : rr.isEmptyData = true
          · rw [applyRR_any_rrset hz ha h1 h2 he]
            refine ⟨?_, ?_, ?_, nodup_erase z _ h.nodup⟩
            · rw [get_erase, if_neg (key_ne_of_not_skip (Or.inl rfl) h1)]; exact h.soa
            · rw [get_erase, if_neg (key_ne_of_not_skip (Or.inr rfl) h1)]; exact h.ns
            · intro name t hc h1 h2 h3 h4
              rw [get_erase] at hc ⊢
              split at hc
              · simp at hc
              · rw [h.cname name t hc h1 h2 h3 h4]; simp
          · rw [applyRR_any_bad hz ha h1 h2 he]; exact h
    · by_cases hn : rr.cls = C_NONE
      · cases hg : z.get rr.key with
        | none => rw [applyRR_none_none hz ha hn hg]; exact h
        | some rs =>
          rw [applyRR_none_some hz ha hn hg]
          split
          · rename_i hrem
            refine ⟨?_, ?_, ?_, nodup_set z _ _ h.nodup⟩
            · obtain ⟨r, s, rest, hgs, hr⟩ := h.soa
              by_cases hk : (c.origin, T_SOA) = rr.key
              · exfalso
                have ht : rr.rtype = T_SOA := by
                  have := congrArg Prod.snd hk; simpa [Rec.key] using this.symm
                rw [rsRemove_soa rs rr ht] at hrem; cases hrem
              · rw [get_set, if_neg hk]; exact ⟨r, s, rest, hgs, hr⟩
            · obtain ⟨ns, hgn, hne, hd⟩ := h.ns
              by_cases hk : (c.origin, T_NS) = rr.key
              · rw [get_set, if_pos hk]
                have ht : rr.rtype = T_NS := by
                  have := congrArg Prod.snd hk; simpa [Rec.key] using this.symm
                have hrs : ns = rs := by rw [← hk, hgn] at hg; exact Option.some.inj hg
                rw [← hrs]
                exact ⟨_, rfl, rsRemove_ns_ne_nil ns rr ht hne hd, rsRemove_distinct ns rr hd⟩
              · rw [get_set, if_neg hk]; exact ⟨ns, hgn, hne, hd⟩
            · intro name t hc h1 h2 h3 h4
              rw [get_set] at hc ⊢
              have hc' : (z.get (name, T_CNAME)).isSome = true := by
                split at hc
                · rename_i heq; rw [heq, hg]; rfl
                · exact hc
              have := h.cname name t hc' h1 h2 h3 h4
              split
              · rename_i heq; rw [heq, hg] at this; cases this
              · exact this
          · exact h
      · rw [applyRR_other hz ha hn]; exact h

theorem kinv_applyAll (c : Cfg) (recs : List Rec) : ∀ (z : Zone) (u : Bool), KInv c z →
    KInv c (applyAll c z recs u).1 := by
  induction recs with
  | nil => intro z u h; exact h
  | cons rr rest ih =>
    intro z u h
    have hs := kinv_applyRR c z rr h
    unfold applyAll
    split
    · rename_i z' u' heq; rw [heq] at hs; exact ih z' _ hs
    · rename_i z' heq; rw [heq] at hs; exact hs

/-- `increment_soa_serial` on a well-formed zone: either the debug-profile overflow panic at
`u32::MAX` — which leaves the zone *without* its SOA — or the SOA record with `serial + 1`. -/
theorem increment_spec (c : Cfg) (z : Zone) (h : KInv c z) :
    ∃ r s rest, z.get (c.origin, T_SOA) = some [r] ∧ r.rdata = .soa s rest ∧
      ((s + 1 > U32_MAX ∧ ∃ site, incrementSoaSerial c.zclass c.origin z =
          (z.erase (c.origin, T_SOA), .panic site)) ∨
       (s + 1 ≤ U32_MAX ∧ incrementSoaSerial c.zclass c.origin z =
          (z.set (c.origin, T_SOA) [{ r with rdata := .soa (s + 1) rest }], .ok (s + 1)))) := by
  obtain ⟨r, s, rest, hg, hr, hk, hcl⟩ := h.soa
  refine ⟨r, s, rest, hg, hr, ?_⟩
  unfold incrementSoaSerial
  simp only [hg, hr]
  by_cases hov : s + 1 > U32_MAX
  · left; rw [if_pos hov]; exact ⟨hov, _, rfl⟩
  · right; rw [if_neg hov]
    refine ⟨by omega, ?_⟩
    -- the upsert into the zone without the SOA key
    have hkey : ({ r with rdata := RData.soa (s + 1) rest } : Rec).key = (c.origin, T_SOA) := hk
    rcases upsert_cases c.zclass (z.erase (c.origin, T_SOA)) { r with rdata := .soa (s + 1) rest } with hu | ⟨_, _, v, hi, hu⟩
    · -- `upsert` refusing is impossible here
      exfalso
      unfold upsert at hu
      have h1 : ¬ c.zclass ≠ ({ r with rdata := RData.soa (s + 1) rest } : Rec).cls := by simp [hcl]
      rw [if_neg h1] at hu
      have hb : upsertBlocked (z.erase (c.origin, T_SOA)) { r with rdata := .soa (s + 1) rest } = false := by
        unfold upsertBlocked
        rw [List.any_eq_false]
        intro t ht
        have hname : ({ r with rdata := RData.soa (s + 1) rest } : Rec).name.toLowercase = c.origin := by
          have := congrArg Prod.fst hk; simpa [Rec.key] using this
        have hty : ({ r with rdata := RData.soa (s + 1) rest } : Rec).rtype = T_SOA := by
          have := congrArg Prod.snd hk; simpa [Rec.key] using this
        rw [hname] at ht
        rw [hty]
        have hsome := Zone.get_of_mem_typesAt _ _ _ ht
        rw [get_erase] at hsome
        have hlt : t < 65535 := by
          unfold Zone.typesAt at ht
          simp only [List.mem_map, List.mem_filter] at ht
          obtain ⟨e, ⟨_, he⟩, rfl⟩ := ht
          simpa using (show e.1.1 = c.origin ∧ e.1.2 < 65535 by simpa using he).2
        by_cases htc : t = T_CNAME
        · exfalso
          subst htc
          have hsome' : (z.get (c.origin, T_CNAME)).isSome = true := by
            split at hsome
            · simp at hsome
            · exact hsome
          have := h.cname c.origin T_SOA hsome' (by decide) (by decide) (by decide) (by decide)
          rw [hg] at this; cases this
        · have h65 : (T_SOA == T_CNAME) = false := by decide
          have htc' : (t == T_CNAME) = false := by simpa using htc
          simp [labelDisallow, h65, htc']
      rw [hb] at hu
      simp only [Bool.false_eq_true, if_false, hkey, get_erase_self, rsInsert_nil] at hu
      have := congrArg Prod.snd hu
      simp at this
    · rw [hu, hkey]
      rw [hkey, get_erase_self] at hi
      simp only [Option.getD_none, rsInsert_nil] at hi
      cases hi
      unfold Zone.set
      rw [erase_erase]

theorem kinv_set_soa (c : Cfg) (z : Zone) (h : KInv c z) (r' : Rec) (s rest : Nat)
    (hr : r'.rdata = .soa s rest) (hk : r'.key = (c.origin, T_SOA)) (hc : r'.cls = c.zclass) :
    KInv c (z.set (c.origin, T_SOA) [r']) := by
  refine ⟨⟨r', s, rest, by rw [get_set, if_pos rfl], hr, hk, hc⟩, ?_, ?_, nodup_set z _ _ h.nodup⟩
  · obtain ⟨ns, hgn, hne, hd⟩ := h.ns
    have hne' : (c.origin, T_NS) ≠ (c.origin, T_SOA) := by
      intro h
      have h2 : T_NS = T_SOA := congrArg Prod.snd h
      revert h2; decide
    rw [get_set, if_neg hne']; exact ⟨ns, hgn, hne, hd⟩
  · intro name t hcn h1 h2 h3 h4
    obtain ⟨r, _, _, hg, _⟩ := h.soa
    rw [get_set] at hcn ⊢
    have hc' : (z.get (name, T_CNAME)).isSome = true := by
      split at hcn
      · rename_i heq; cases heq
      · exact hcn
    have := h.cname name t hc' h1 h2 h3 h4
    split
    · rename_i heq; rw [heq, hg] at this; cases this
    · exact this

theorem serial_of_soa {c : Cfg} {z : Zone} {r : Rec} {s rest : Nat}
    (hg : z.get (c.origin, T_SOA) = some [r]) (hr : r.rdata = .soa s rest) : serial z c.origin = s := by
  simp [serial, soaRecord, hg, hr]

/-- What `update_records(.., true)` does on a well-formed zone once the loop has run (`z1`, `updated`):
nothing more; or the overflow panic that loses the SOA; or the serial bump, leaving a well-formed
zone whose serial is `serial z1 + 1` and handing that SOA record to the journal. -/
theorem updateRecords_spec (c : Cfg) (z : Zone) (recs : List Rec) (h : KInv c z) (updated : Bool)
    (hl : (applyAll c z recs false).2 = some updated) :
    (updated = false ∧ updateRecords c z recs true = ((applyAll c z recs false).1, .ok false, none)) ∨
    (updated = true ∧ serial (applyAll c z recs false).1 c.origin + 1 > U32_MAX ∧
      ∃ site, updateRecords c z recs true =
        (((applyAll c z recs false).1).erase (c.origin, T_SOA), .panic site, none)) ∨
    (updated = true ∧ serial (applyAll c z recs false).1 c.origin + 1 ≤ U32_MAX ∧
      ∃ soa, updateRecords c z recs true =
        (((applyAll c z recs false).1).set (c.origin, T_SOA) [soa], .ok true, some soa) ∧
        KInv c (((applyAll c z recs false).1).set (c.origin, T_SOA) [soa]) ∧
        serial (((applyAll c z recs false).1).set (c.origin, T_SOA) [soa]) c.origin =
          serial (applyAll c z recs false).1 c.origin + 1) := by
  have hk1 := kinv_applyAll c recs z false h
  generalize hz1 : applyAll c z recs false = res at hl hk1
  obtain ⟨z1, o⟩ := res
  simp only at hl hk1 ⊢
  subst hl
  unfold updateRecords
  rw [hz1]
  cases updated with
  | false => left; exact ⟨rfl, by simp⟩
  | true =>
    right
    obtain ⟨r, s, rest, hg, hr, hcase⟩ := increment_spec c z1 hk1
    obtain ⟨_, _, _, hg', _, hkey, hcls⟩ := hk1.soa
    have hser : serial z1 c.origin = s := serial_of_soa hg hr
    rcases hcase with ⟨hov, site, hinc⟩ | ⟨hok, hinc⟩
    · left
      refine ⟨rfl, by rw [hser]; exact hov, site, ?_⟩
      simp [hinc]
    · right
      have hrk : r.key = (c.origin, T_SOA) ∧ r.cls = c.zclass := by
        rw [hg] at hg'
        have : [r] = [_] := Option.some.inj hg'
        cases this
        exact ⟨hkey, hcls⟩
      let soa : Rec := { r with rdata := .soa (s + 1) rest }
      have hk2 : KInv c (z1.set (c.origin, T_SOA) [soa]) :=
        kinv_set_soa c z1 hk1 soa (s + 1) rest rfl hrk.1 hrk.2
      refine ⟨rfl, by rw [hser]; exact hok, soa, ?_, hk2, ?_⟩
      · have hsr : soaRecord (z1.set (c.origin, T_SOA) [soa]) c.origin = some soa := by
          simp [soaRecord, get_set]
        simp [hinc, soa, hsr]
      · rw [hser]
        exact serial_of_soa (r := soa) (by rw [get_set, if_pos rfl]) rfl

/-- **inv_preserved** — one message: unless the serial bump overflows (`u32::MAX`, a debug-profile
panic that leaves the zone without SOA: finding `soa-serial-increment-overflow`), the zone after
the message is well-formed again. -/
theorem inv_preserved (c : Cfg) (z : Zone) (m : Msg) (h : KInv c z)
    (hnp : ∀ site, (update c true z m).2.2.1 ≠ .panic site) : KInv c (update c true z m).1 := by
  unfold update at hnp ⊢
  simp only [Bool.not_true, Bool.false_eq_true, if_false] at hnp ⊢
  cases h1 : verifyPrereqs c z m.prereqs with
  | some e => simpa [h1] using h
  | none =>
    cases h2 : preScan c m.updates with
    | some e => simpa [h1, h2] using h
    | none =>
      simp only [h1, h2] at hnp ⊢
      obtain ⟨b, hb⟩ := applyAll_some_of_prescan c m.updates h2 z false
      rcases updateRecords_spec c z m.updates h b hb with ⟨_, hu⟩ | ⟨_, _, site, hu⟩ | ⟨_, _, soa, hu, hk, _⟩
      · rw [hu]; exact kinv_applyAll c m.updates z false h
      · exfalso; exact hnp site (by rw [hu])
      · rw [hu]; exact hk

/-- a history in which no message hits the overflow panic -/
def NoPanic (c : Cfg) : Zone → List Msg → Prop
  | _, [] => True
  | z, m :: ms => (∀ site, (update c true z m).2.2.1 ≠ .panic site) ∧ NoPanic c (update c true z m).1 ms

/-- **inv_preserved** lifted to every history, by induction over the message list: after every
message the zone has exactly one SOA at the apex, at least one apex NS, no CNAME beside other
data, and one map entry per key. -/
theorem inv_preserved_history (c : Cfg) (ms : List Msg) : ∀ z, KInv c z → NoPanic c z ms →
    KInv c (runAll c z ms) ∧ Inv c (runAll c z ms) := by
  induction ms with
  | nil => intro z h _; exact ⟨h, h.toInv⟩
  | cons m ms ih =>
    intro z h hnp
    exact ih _ (inv_preserved c z m h hnp.1) hnp.2

/-- the only panic is the serial overflow: below `u32::MAX` there is none -/
theorem no_panic_below_max (c : Cfg) (z : Zone) (m : Msg) (h : KInv c z)
    (hs : serial (applyAll c z m.updates false).1 c.origin < U32_MAX) :
    ∀ site, (update c true z m).2.2.1 ≠ .panic site := by
  intro site
  unfold update
  simp only [Bool.not_true, Bool.false_eq_true, if_false]
  cases h1 : verifyPrereqs c z m.prereqs with
  | some e => simp
  | none =>
    cases h2 : preScan c m.updates with
    | some e => simp
    | none =>
      simp only
      obtain ⟨b, hb⟩ := applyAll_some_of_prescan c m.updates h2 z false
      rcases updateRecords_spec c z m.updates h b hb with ⟨_, hu⟩ | ⟨_, hov, _, _⟩ | ⟨_, _, soa, hu, _, _⟩
      · rw [hu]; simp
      · omega
      · rw [hu]; simp

/-- Full strength of "a message whose prerequisites or prescan fail changes nothing": on a
well-formed zone *every* error answer of `update` leaves the zone as it was (after a successful
prescan `update_records` has no error answer left). -/
theorem update_rc_unchanged (c : Cfg) (z : Zone) (m : Msg) (h : KInv c z) (e : Rc)
    (he : (update c true z m).2.2.1 = .rc e) : (update c true z m).1 = z := by
  apply reject_unchanged
  intro hst
  unfold update at he hst
  simp only [Bool.not_true, Bool.false_eq_true, if_false] at he hst
  cases h1 : verifyPrereqs c z m.prereqs with
  | some e' => simp [h1] at hst
  | none =>
    cases h2 : preScan c m.updates with
    | some e' => simp [h1, h2] at hst
    | none =>
      simp only [h1, h2] at he
      obtain ⟨b, hb⟩ := applyAll_some_of_prescan c m.updates h2 z false
      rcases updateRecords_spec c z m.updates h b hb with ⟨_, hu⟩ | ⟨_, _, site, hu⟩ | ⟨_, _, soa, hu, _, _⟩ <;>
        (rw [hu] at he; cases he)

end HickoryVerif.C12
