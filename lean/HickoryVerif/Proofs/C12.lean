/-
C12 — Dynamic update applies RFC 2136 semantics and keeps the zone well-formed.

Property theorems about the model of `SqliteZoneHandler::{verify_prerequisites, pre_scan,
update_records, update}` (`Model/Update.lean`, `Model/Zone.lean`) against the RFC transcription
and the zone invariants of `Spec/Rfc2136.lean`.

Where the code does not satisfy a clause the full statement is kept in a comment, a `…_partial`
theorem is proved under the explicit decidable hypothesis the proof forced, and a concrete
counter-example outside the hypothesis is proved by `decide`; each counter-example is also a case
in `corpus/C12/` that is replayed on the real code and recorded in `known-findings.json`.
-/
import HickoryVerif.Lemmas.RecordSet
import HickoryVerif.Spec.Rfc2136

namespace HickoryVerif.C12
open HickoryVerif HickoryVerif.Upd HickoryVerif.Upd.Zone HickoryVerif.Spec
open HickoryVerif.Spec.Rfc2136 (rrsetOf Inv OnlyApexSoa serialLt)

/-! ## 1. A rejected message changes nothing -/

/-- `update` answers from the authorisation, prerequisite or prescan stage ⇒ the zone is the one
it was given (whatever the answer). -/
theorem reject_unchanged (c : Cfg) (a : Bool) (z : Zone) (m : Msg)
    (h : (update c a z m).2.1 ≠ .apply) : (update c a z m).1 = z := by
  cases a with
  | false => simp [update]
  | true =>
    cases h1 : verifyPrereqs c z m.prereqs with
    | some e => simp [update, h1]
    | none =>
      cases h2 : preScan c m.updates with
      | some e => simp [update, h1, h2]
      | none => simp [update, h1, h2] at h

/-! branch equations of `applyRR` -/

theorem applyRR_zone {c : Cfg} {z : Zone} {rr : Rec} (h : rr.cls = c.zclass) :
    applyRR c z rr = ((upsert c.zclass z rr).1, some (upsert c.zclass z rr).2) := by
  unfold applyRR; rw [if_pos h]

theorem applyRR_any_skip {c : Cfg} {z : Zone} {rr : Rec} (hz : rr.cls ≠ c.zclass) (ha : rr.cls = C_ANY)
    (h : (rr.rtype = T_SOA ∨ rr.rtype = T_NS) ∧ rr.name.toLowercase = c.origin) :
    applyRR c z rr = (z, some false) := by
  unfold applyRR; rw [if_neg hz, if_pos ha, if_pos h]

theorem applyRR_any_any {c : Cfg} {z : Zone} {rr : Rec} (hz : rr.cls ≠ c.zclass) (ha : rr.cls = C_ANY)
    (h : ¬((rr.rtype = T_SOA ∨ rr.rtype = T_NS) ∧ rr.name.toLowercase = c.origin)) (h2 : rr.rtype = T_ANY) :
    applyRR c z rr = (z.filter fun e => anyKeep c rr e.1,
       some (decide ((z.filter fun e => anyKeep c rr e.1).length < z.length))) := by
  unfold applyRR; rw [if_neg hz, if_pos ha, if_neg h, if_pos h2]

theorem applyRR_any_rrset {c : Cfg} {z : Zone} {rr : Rec} (hz : rr.cls ≠ c.zclass) (ha : rr.cls = C_ANY)
    (h : ¬((rr.rtype = T_SOA ∨ rr.rtype = T_NS) ∧ rr.name.toLowercase = c.origin)) (h2 : rr.rtype ≠ T_ANY)
    (he : rr.isEmptyData = true) :
    applyRR c z rr = (z.erase rr.key, some (z.get rr.key).isSome) := by
  unfold applyRR; rw [if_neg hz, if_pos ha, if_neg h, if_neg h2, if_pos he]

theorem applyRR_any_bad {c : Cfg} {z : Zone} {rr : Rec} (hz : rr.cls ≠ c.zclass) (ha : rr.cls = C_ANY)
    (h : ¬((rr.rtype = T_SOA ∨ rr.rtype = T_NS) ∧ rr.name.toLowercase = c.origin)) (h2 : rr.rtype ≠ T_ANY)
    (he : ¬ rr.isEmptyData = true) : applyRR c z rr = (z, none) := by
  unfold applyRR; rw [if_neg hz, if_pos ha, if_neg h, if_neg h2, if_neg he]

theorem applyRR_none_some {c : Cfg} {z : Zone} {rr : Rec} {rs : RSet} (hz : rr.cls ≠ c.zclass)
    (ha : rr.cls ≠ C_ANY) (hn : rr.cls = C_NONE) (hg : z.get rr.key = some rs) :
    applyRR c z rr =
      if (rsRemove rs rr).2 then (z.set rr.key (rsRemove rs rr).1, some true) else (z, some false) := by
  unfold applyRR; rw [if_neg hz, if_neg ha, if_pos hn, hg]

theorem applyRR_none_none {c : Cfg} {z : Zone} {rr : Rec} (hz : rr.cls ≠ c.zclass)
    (ha : rr.cls ≠ C_ANY) (hn : rr.cls = C_NONE) (hg : z.get rr.key = none) :
    applyRR c z rr = (z, some false) := by
  unfold applyRR; rw [if_neg hz, if_neg ha, if_pos hn, hg]

theorem applyRR_other {c : Cfg} {z : Zone} {rr : Rec} (hz : rr.cls ≠ c.zclass) (ha : rr.cls ≠ C_ANY)
    (hn : rr.cls ≠ C_NONE) : applyRR c z rr = (z, none) := by
  unfold applyRR; rw [if_neg hz, if_neg ha, if_neg hn]

/-- An RR the prescan lets through never makes the `update_records` loop bail out. -/
theorem applyRR_some_of_prescan (c : Cfg) (z : Zone) (rr : Rec) (h : Upd.prescanOne c rr = none) :
    ∃ u, (applyRR c z rr).2 = some u := by
  unfold Upd.prescanOne at h
  by_cases hz : rr.cls = c.zclass
  · rw [applyRR_zone hz]; exact ⟨_, rfl⟩
  · by_cases ha : rr.cls = C_ANY
    · by_cases h1 : (rr.rtype = T_SOA ∨ rr.rtype = T_NS) ∧ rr.name.toLowercase = c.origin
      · rw [applyRR_any_skip hz ha h1]; exact ⟨_, rfl⟩
      · by_cases h2 : rr.rtype = T_ANY
        · rw [applyRR_any_any hz ha h1 h2]; exact ⟨_, rfl⟩
        · by_cases he : rr.isEmptyData = true
          · rw [applyRR_any_rrset hz ha h1 h2 he]; exact ⟨_, rfl⟩
          · exfalso
            rw [if_neg hz, if_pos ha] at h
            have he' : (!rr.isEmptyData) = true := by simpa using he
            rw [if_pos he'] at h
            split at h <;> first | (simp at h; done) | (split at h <;> simp at h)
    · by_cases hn : rr.cls = C_NONE
      · cases hg : z.get rr.key with
        | none => rw [applyRR_none_none hz ha hn hg]; exact ⟨_, rfl⟩
        | some rs =>
          rw [applyRR_none_some hz ha hn hg]
          split <;> exact ⟨_, rfl⟩
      · exfalso
        rw [if_neg hz, if_neg ha, if_neg hn] at h
        split at h <;> simp at h

theorem applyAll_some_of_prescan (c : Cfg) (recs : List Rec) (h : preScan c recs = none) :
    ∀ (z : Zone) (u : Bool), ∃ b, (applyAll c z recs u).2 = some b := by
  induction recs with
  | nil => intro z u; exact ⟨u, rfl⟩
  | cons rr rest ih =>
    intro z u
    unfold preScan at h
    split at h
    · simp at h
    · rename_i h1
      obtain ⟨b, hb⟩ := applyRR_some_of_prescan c z rr h1
      unfold applyAll
      split
      · rename_i z' u' heq
        exact ih h z' (u' || u)
      · rename_i z' heq
        rw [heq] at hb; simp at hb

/-- After a successful prescan `update_records` never answers FORMERR: its only error answers
are SERVFAIL (SOA missing after the increment) — see `update_rc_unchanged` for why that cannot
happen on a well-formed zone. -/
theorem update_records_no_formerr (c : Cfg) (z : Zone) (recs : List Rec) (auto : Bool)
    (h : preScan c recs = none) : (updateRecords c z recs auto).2.1 ≠ .rc .formErr := by
  obtain ⟨b, hb⟩ := applyAll_some_of_prescan c recs h z false
  unfold updateRecords
  split
  · rename_i z1 heq; rw [heq] at hb; simp at hb
  · split
    · simp
    · split <;> try simp
      split <;> simp

/-- The half-way failure of `update_records` itself (reachable only *without* the prescan, i.e. by
calling `update_records` directly): the third RR is refused with FORMERR after the first two were
applied, and the zone keeps them. -/
example :
    let c : Cfg := { origin := { labels := [[101]], fqdn := true } }
    let a : Rec := { name := { labels := [[97], [101]], fqdn := true }, rtype := 1, cls := 1, ttl := 5, rdata := .bytes [1] }
    let bad : Rec := { a with cls := 3 }
    (updateRecords c [] [a, bad] true).2.1 = .rc .formErr ∧ (updateRecords c [] [a, bad] true).1 ≠ [] := by
  decide

/-! ## 2. The zone invariants are preserved by every message

`KInv` is the key-level form the code actually maintains (it decides on map *keys*, and a
class-NONE delete can leave a key with an empty `RecordSet` behind); it implies the
property's `Inv` (`Spec/Rfc2136.lean`). -/

structure KInv (c : Cfg) (z : Zone) : Prop where
  soa : ∃ r s rest, z.get (c.origin, T_SOA) = some [r] ∧ r.rdata = .soa s rest ∧
    r.key = (c.origin, T_SOA) ∧ r.cls = c.zclass
  ns : ∃ rs, z.get (c.origin, T_NS) = some rs ∧ rs ≠ [] ∧ Distinct rs
  cname : ∀ name t, (z.get (name, T_CNAME)).isSome → t ≠ T_CNAME → t ≠ T_NSEC → t ≠ T_NSEC3 →
    t < 65535 → z.get (name, t) = none
  nodup : (z.map (·.1)).Nodup

theorem KInv.toInv {c : Cfg} {z : Zone} (h : KInv c z) : Inv c z where
  apexSoa := by
    obtain ⟨r, s, rest, hg, hr, _⟩ := h.soa
    exact ⟨r, s, rest, by simp [rrsetOf, hg], hr⟩
  apexNs := by
    obtain ⟨rs, hg, hne, _⟩ := h.ns
    simp [rrsetOf, hg, hne]
  cnameAlone := by
    intro name t hc h1 h2 h3 h4
    have : (z.get (name, T_CNAME)).isSome := by
      cases hg : z.get (name, T_CNAME) with
      | none => simp [rrsetOf, hg] at hc
      | some v => rfl
    simp [rrsetOf, h.cname name t this h1 h2 h3 h4]
  nodup := h.nodup

theorem blocked_false {z : Zone} {r : Rec} (h : upsertBlocked z r = false) (t : Nat)
    (ht : t ∈ z.typesAt r.name.toLowercase) :
    (!isNsec r.rtype t && labelDisallow r.rtype t T_CNAME) = false := by
  unfold upsertBlocked at h
  rw [List.any_eq_false] at h
  simpa using h t ht

theorem kinv_upsert (c : Cfg) (z : Zone) (rr : Rec) (h : KInv c z) : KInv c (upsert c.zclass z rr).1 := by
  rcases upsert_cases c.zclass z rr with hu | ⟨hcls, hb, v, hi, hu⟩
  · rw [hu]; exact h
  · rw [hu]
    refine ⟨?_, ?_, ?_, nodup_set z rr.key v h.nodup⟩
    · obtain ⟨r, s, rest, hg, hr, hrk, hrc⟩ := h.soa
      by_cases hk : (c.origin, T_SOA) = rr.key
      · rw [get_set, if_pos hk]
        have ht : rr.rtype = T_SOA := by
          have := congrArg Prod.snd hk; simpa [Rec.key] using this.symm
        rw [← hk, hg] at hi
        simp only [Option.getD_some] at hi
        rcases rsInsert_soa r rr s rest ht hr with h1 | ⟨sn, rest', hd, _, h1⟩
        · rw [h1] at hi; cases hi
        · rw [h1] at hi
          have : v = [rr] := by cases hi; rfl
          exact ⟨rr, sn, rest', by rw [this], hd, hk.symm, hcls.symm⟩
      · rw [get_set, if_neg hk]; exact ⟨r, s, rest, hg, hr, hrk, hrc⟩
    · obtain ⟨rs, hg, hne, hd⟩ := h.ns
      by_cases hk : (c.origin, T_NS) = rr.key
      · rw [get_set, if_pos hk]
        have ht : rr.rtype = T_NS := by
          have := congrArg Prod.snd hk; simpa [Rec.key] using this.symm
        rw [← hk, hg] at hi
        simp only [Option.getD_some] at hi
        have h2 : (rsInsert rs rr).2 = true := by rw [hi]
        have h1 : (rsInsert rs rr).1 = v := by rw [hi]
        refine ⟨v, rfl, ?_, ?_⟩
        · rw [← h1]; exact rsInsert_ne_nil rs rr h2
        · rw [← h1]
          exact rsInsert_distinct rs rr (by rw [ht]; decide) (by rw [ht]; decide) hd
      · rw [get_set, if_neg hk]; exact ⟨rs, hg, hne, hd⟩
    · intro name t hc h1 h2 h3 h4
      rw [get_set] at hc ⊢
      by_cases hkc : (name, T_CNAME) = rr.key
      · -- the upsert adds / rewrites the CNAME at `name`
        have hn : name = rr.name.toLowercase := by
          have := congrArg Prod.fst hkc; simpa [Rec.key] using this
        have ht : rr.rtype = T_CNAME := by
          have := congrArg Prod.snd hkc; simpa [Rec.key] using this.symm
        have hne : (name, t) ≠ rr.key := by
          intro heq; rw [← hkc] at heq
          exact h1 (by have := congrArg Prod.snd heq; simpa using this)
        rw [if_neg hne]
        cases hg : z.get (name, t) with
        | none => rfl
        | some w =>
          exfalso
          have hm := Zone.mem_typesAt z name t w hg h4
          rw [hn] at hm
          have := blocked_false hb t hm
          rw [ht] at this
          simp [isNsec, labelDisallow, h1, h2, h3] at this
          revert this; decide
      · rw [if_neg hkc] at hc
        by_cases hkt : (name, t) = rr.key
        · -- a non-CNAME type is added at a name that holds a CNAME key: `upsert` refuses
          exfalso
          have hn : name = rr.name.toLowercase := by
            have := congrArg Prod.fst hkt; simpa [Rec.key] using this
          have ht : rr.rtype = t := by
            have := congrArg Prod.snd hkt; simpa [Rec.key] using this.symm
          obtain ⟨w, hw⟩ := Option.isSome_iff_exists.mp hc
          have hm := Zone.mem_typesAt z name T_CNAME w hw (by decide)
          rw [hn] at hm
          have := blocked_false hb T_CNAME hm
          rw [ht] at this
          simp [isNsec, labelDisallow, h1, h2, h3] at this
          revert this; decide
        · rw [if_neg hkt]; exact h.cname name t hc h1 h2 h3 h4

theorem key_ne_of_not_skip {c : Cfg} {rr : Rec} {t : Nat} (ht : t = T_SOA ∨ t = T_NS)
    (h : ¬((rr.rtype = T_SOA ∨ rr.rtype = T_NS) ∧ rr.name.toLowercase = c.origin)) :
    (c.origin, t) ≠ rr.key := by
  intro heq
  apply h
  have h1 := congrArg Prod.fst heq
  have h2 := congrArg Prod.snd heq
  simp only [Rec.key] at h1 h2
  refine ⟨?_, h1.symm⟩
  rcases ht with ht | ht
  · left; rw [← h2, ht]
  · right; rw [← h2, ht]

/-- every kind of Update RR keeps `KInv` -/
theorem kinv_applyRR (c : Cfg) (z : Zone) (rr : Rec) (h : KInv c z) : KInv c (applyRR c z rr).1 := by
  by_cases hz : rr.cls = c.zclass
  · rw [applyRR_zone hz]; exact kinv_upsert c z rr h
  · by_cases ha : rr.cls = C_ANY
    · by_cases h1 : (rr.rtype = T_SOA ∨ rr.rtype = T_NS) ∧ rr.name.toLowercase = c.origin
      · rw [applyRR_any_skip hz ha h1]; exact h
      · by_cases h2 : rr.rtype = T_ANY
        · rw [applyRR_any_any hz ha h1 h2]
          have hkeep : ∀ t, (t = T_SOA ∨ t = T_NS) → anyKeep c rr (c.origin, t) = true := by
            intro t ht; simp [anyKeep, ht]
          refine ⟨?_, ?_, ?_, nodup_filter z _ h.nodup⟩
          · rw [get_filter_key (anyKeep c rr), hkeep _ (Or.inl rfl)]; exact h.soa
          · rw [get_filter_key (anyKeep c rr), hkeep _ (Or.inr rfl)]; exact h.ns
          · intro name t hc h1 h2 h3 h4
            rw [get_filter_key (anyKeep c rr)] at hc ⊢
            split at hc
            · rw [h.cname name t hc h1 h2 h3 h4]; simp
            · simp at hc
        · by_cases he : rr.isEmptyData = true
          · rw [applyRR_any_rrset hz ha h1 h2 he]
            refine ⟨?_, ?_, ?_, nodup_erase z _ h.nodup⟩
            · rw [get_erase, if_neg (key_ne_of_not_skip (Or.inl rfl) h1)]; exact h.soa
            · rw [get_erase, if_neg (key_ne_of_not_skip (Or.inr rfl) h1)]; exact h.ns
            · intro name t hc h1 h2 h3 h4
              rw [get_erase] at hc ⊢
              split at hc
              · simp at hc
              · rw [h.cname name t hc h1 h2 h3 h4]; simp
          · rw [applyRR_any_bad hz ha h1 h2 he]; exact h
    · by_cases hn : rr.cls = C_NONE
      · cases hg : z.get rr.key with
        | none => rw [applyRR_none_none hz ha hn hg]; exact h
        | some rs =>
          rw [applyRR_none_some hz ha hn hg]
          split
          · rename_i hrem
            refine ⟨?_, ?_, ?_, nodup_set z _ _ h.nodup⟩
            · obtain ⟨r, s, rest, hgs, hr⟩ := h.soa
              by_cases hk : (c.origin, T_SOA) = rr.key
              · exfalso
                have ht : rr.rtype = T_SOA := by
                  have := congrArg Prod.snd hk; simpa [Rec.key] using this.symm
                rw [rsRemove_soa rs rr ht] at hrem; cases hrem
              · rw [get_set, if_neg hk]; exact ⟨r, s, rest, hgs, hr⟩
            · obtain ⟨ns, hgn, hne, hd⟩ := h.ns
              by_cases hk : (c.origin, T_NS) = rr.key
              · rw [get_set, if_pos hk]
                have ht : rr.rtype = T_NS := by
                  have := congrArg Prod.snd hk; simpa [Rec.key] using this.symm
                have hrs : ns = rs := by rw [← hk, hgn] at hg; exact Option.some.inj hg
                rw [← hrs]
                exact ⟨_, rfl, rsRemove_ns_ne_nil ns rr ht hne hd, rsRemove_distinct ns rr hd⟩
              · rw [get_set, if_neg hk]; exact ⟨ns, hgn, hne, hd⟩
            · intro name t hc h1 h2 h3 h4
              rw [get_set] at hc ⊢
              have hc' : (z.get (name, T_CNAME)).isSome = true := by
                split at hc
                · rename_i heq; rw [heq, hg]; rfl
                · exact hc
              have := h.cname name t hc' h1 h2 h3 h4
              split
              · rename_i heq; rw [heq, hg] at this; cases this
              · exact this
          · exact h
      · rw [applyRR_other hz ha hn]; exact h

theorem kinv_applyAll (c : Cfg) (recs : List Rec) : ∀ (z : Zone) (u : Bool), KInv c z →
    KInv c (applyAll c z recs u).1 := by
  induction recs with
  | nil => intro z u h; exact h
  | cons rr rest ih =>
    intro z u h
    have hs := kinv_applyRR c z rr h
    unfold applyAll
    split
    · rename_i z' u' heq; rw [heq] at hs; exact ih z' _ hs
    · rename_i z' heq; rw [heq] at hs; exact hs

/-- `increment_soa_serial` on a well-formed zone: either the debug-profile overflow panic at
`u32::MAX` — which leaves the zone *without* its SOA — or the SOA record with `serial + 1`. -/
theorem increment_spec (c : Cfg) (z : Zone) (h : KInv c z) :
    ∃ r s rest, z.get (c.origin, T_SOA) = some [r] ∧ r.rdata = .soa s rest ∧
      ((s + 1 > U32_MAX ∧ ∃ site, incrementSoaSerial c.zclass c.origin z =
          (z.erase (c.origin, T_SOA), .panic site)) ∨
       (s + 1 ≤ U32_MAX ∧ incrementSoaSerial c.zclass c.origin z =
          (z.set (c.origin, T_SOA) [{ r with rdata := .soa (s + 1) rest }], .ok (s + 1)))) := by
  obtain ⟨r, s, rest, hg, hr, hk, hcl⟩ := h.soa
  refine ⟨r, s, rest, hg, hr, ?_⟩
  unfold incrementSoaSerial
  simp only [hg, hr]
  by_cases hov : s + 1 > U32_MAX
  · left; rw [if_pos hov]; exact ⟨hov, _, rfl⟩
  · right; rw [if_neg hov]
    refine ⟨by omega, ?_⟩
    -- the upsert into the zone without the SOA key
    have hkey : ({ r with rdata := RData.soa (s + 1) rest } : Rec).key = (c.origin, T_SOA) := hk
    rcases upsert_cases c.zclass (z.erase (c.origin, T_SOA)) { r with rdata := .soa (s + 1) rest } with hu | ⟨_, _, v, hi, hu⟩
    · -- `upsert` refusing is impossible here
      exfalso
      unfold upsert at hu
      have h1 : ¬ c.zclass ≠ ({ r with rdata := RData.soa (s + 1) rest } : Rec).cls := by simp [hcl]
      rw [if_neg h1] at hu
      have hb : upsertBlocked (z.erase (c.origin, T_SOA)) { r with rdata := .soa (s + 1) rest } = false := by
        unfold upsertBlocked
        rw [List.any_eq_false]
        intro t ht
        have hname : ({ r with rdata := RData.soa (s + 1) rest } : Rec).name.toLowercase = c.origin := by
          have := congrArg Prod.fst hk; simpa [Rec.key] using this
        have hty : ({ r with rdata := RData.soa (s + 1) rest } : Rec).rtype = T_SOA := by
          have := congrArg Prod.snd hk; simpa [Rec.key] using this
        rw [hname] at ht
        rw [hty]
        have hsome := Zone.get_of_mem_typesAt _ _ _ ht
        rw [get_erase] at hsome
        have hlt : t < 65535 := by
          unfold Zone.typesAt at ht
          simp only [List.mem_map, List.mem_filter] at ht
          obtain ⟨e, ⟨_, he⟩, rfl⟩ := ht
          simpa using (show e.1.1 = c.origin ∧ e.1.2 < 65535 by simpa using he).2
        by_cases htc : t = T_CNAME
        · exfalso
          subst htc
          have hsome' : (z.get (c.origin, T_CNAME)).isSome = true := by
            split at hsome
            · simp at hsome
            · exact hsome
          have := h.cname c.origin T_SOA hsome' (by decide) (by decide) (by decide) (by decide)
          rw [hg] at this; cases this
        · have h65 : (T_SOA == T_CNAME) = false := by decide
          have htc' : (t == T_CNAME) = false := by simpa using htc
          simp [labelDisallow, h65, htc']
      rw [hb] at hu
      simp only [Bool.false_eq_true, if_false, hkey, get_erase_self, rsInsert_nil] at hu
      have := congrArg Prod.snd hu
      simp at this
    · rw [hu, hkey]
      rw [hkey, get_erase_self] at hi
      simp only [Option.getD_none, rsInsert_nil] at hi
      cases hi
      unfold Zone.set
      rw [erase_erase]

theorem kinv_set_soa (c : Cfg) (z : Zone) (h : KInv c z) (r' : Rec) (s rest : Nat)
    (hr : r'.rdata = .soa s rest) (hk : r'.key = (c.origin, T_SOA)) (hc : r'.cls = c.zclass) :
    KInv c (z.set (c.origin, T_SOA) [r']) := by
  refine ⟨⟨r', s, rest, by rw [get_set, if_pos rfl], hr, hk, hc⟩, ?_, ?_, nodup_set z _ _ h.nodup⟩
  · obtain ⟨ns, hgn, hne, hd⟩ := h.ns
    have hne' : (c.origin, T_NS) ≠ (c.origin, T_SOA) := by
      intro h
      have h2 : T_NS = T_SOA := congrArg Prod.snd h
      revert h2; decide
    rw [get_set, if_neg hne']; exact ⟨ns, hgn, hne, hd⟩
  · intro name t hcn h1 h2 h3 h4
    obtain ⟨r, _, _, hg, _⟩ := h.soa
    rw [get_set] at hcn ⊢
    have hc' : (z.get (name, T_CNAME)).isSome = true := by
      split at hcn
      · rename_i heq; cases heq
      · exact hcn
    have := h.cname name t hc' h1 h2 h3 h4
    split
    · rename_i heq; rw [heq, hg] at this; cases this
    · exact this

theorem serial_of_soa {c : Cfg} {z : Zone} {r : Rec} {s rest : Nat}
    (hg : z.get (c.origin, T_SOA) = some [r]) (hr : r.rdata = .soa s rest) : serial z c.origin = s := by
  simp [serial, soaRecord, hg, hr]

/-- What `update_records(.., true)` does on a well-formed zone once the loop has run (`z1`, `updated`):
nothing more; or the overflow panic that loses the SOA; or the serial bump, leaving a well-formed
zone whose serial is `serial z1 + 1` and handing that SOA record to the journal. -/
theorem updateRecords_spec (c : Cfg) (z : Zone) (recs : List Rec) (h : KInv c z) (updated : Bool)
    (hl : (applyAll c z recs false).2 = some updated) :
    (updated = false ∧ updateRecords c z recs true = ((applyAll c z recs false).1, .ok false, none)) ∨
    (updated = true ∧ serial (applyAll c z recs false).1 c.origin + 1 > U32_MAX ∧
      ∃ site, updateRecords c z recs true =
        (((applyAll c z recs false).1).erase (c.origin, T_SOA), .panic site, none)) ∨
    (updated = true ∧ serial (applyAll c z recs false).1 c.origin + 1 ≤ U32_MAX ∧
      ∃ soa, updateRecords c z recs true =
        (((applyAll c z recs false).1).set (c.origin, T_SOA) [soa], .ok true, some soa) ∧
        KInv c (((applyAll c z recs false).1).set (c.origin, T_SOA) [soa]) ∧
        serial (((applyAll c z recs false).1).set (c.origin, T_SOA) [soa]) c.origin =
          serial (applyAll c z recs false).1 c.origin + 1) := by
  have hk1 := kinv_applyAll c recs z false h
  generalize hz1 : applyAll c z recs false = res at hl hk1
  obtain ⟨z1, o⟩ := res
  simp only at hl hk1 ⊢
  subst hl
  unfold updateRecords
  rw [hz1]
  cases updated with
  | false => left; exact ⟨rfl, by simp⟩
  | true =>
    right
    obtain ⟨r, s, rest, hg, hr, hcase⟩ := increment_spec c z1 hk1
    obtain ⟨_, _, _, hg', _, hkey, hcls⟩ := hk1.soa
    have hser : serial z1 c.origin = s := serial_of_soa hg hr
    rcases hcase with ⟨hov, site, hinc⟩ | ⟨hok, hinc⟩
    · left
      refine ⟨rfl, by rw [hser]; exact hov, site, ?_⟩
      simp [hinc]
    · right
      have hrk : r.key = (c.origin, T_SOA) ∧ r.cls = c.zclass := by
        rw [hg] at hg'
        have : [r] = [_] := Option.some.inj hg'
        cases this
        exact ⟨hkey, hcls⟩
      let soa : Rec := { r with rdata := .soa (s + 1) rest }
      have hk2 : KInv c (z1.set (c.origin, T_SOA) [soa]) :=
        kinv_set_soa c z1 hk1 soa (s + 1) rest rfl hrk.1 hrk.2
      refine ⟨rfl, by rw [hser]; exact hok, soa, ?_, hk2, ?_⟩
      · have hsr : soaRecord (z1.set (c.origin, T_SOA) [soa]) c.origin = some soa := by
          simp [soaRecord, get_set]
        simp [hinc, soa, hsr]
      · rw [hser]
        exact serial_of_soa (r := soa) (by rw [get_set, if_pos rfl]) rfl

/-- **inv_preserved** — one message: unless the serial bump overflows (`u32::MAX`, a debug-profile
panic that leaves the zone without SOA: finding `soa-serial-increment-overflow`), the zone after
the message is well-formed again. -/
theorem inv_preserved (c : Cfg) (z : Zone) (m : Msg) (h : KInv c z)
    (hnp : ∀ site, (update c true z m).2.2.1 ≠ .panic site) : KInv c (update c true z m).1 := by
  unfold update at hnp ⊢
  simp only [Bool.not_true, Bool.false_eq_true, if_false] at hnp ⊢
  cases h1 : verifyPrereqs c z m.prereqs with
  | some e => simpa [h1] using h
  | none =>
    cases h2 : preScan c m.updates with
    | some e => simpa [h1, h2] using h
    | none =>
      simp only [h1, h2] at hnp ⊢
      obtain ⟨b, hb⟩ := applyAll_some_of_prescan c m.updates h2 z false
      rcases updateRecords_spec c z m.updates h b hb with ⟨_, hu⟩ | ⟨_, _, site, hu⟩ | ⟨_, _, soa, hu, hk, _⟩
      · rw [hu]; exact kinv_applyAll c m.updates z false h
      · exfalso; exact hnp site (by rw [hu])
      · rw [hu]; exact hk

/-- a history in which no message hits the overflow panic -/
def NoPanic (c : Cfg) : Zone → List Msg → Prop
  | _, [] => True
  | z, m :: ms => (∀ site, (update c true z m).2.2.1 ≠ .panic site) ∧ NoPanic c (update c true z m).1 ms

/-- **inv_preserved** lifted to every history, by induction over the message list: after every
message the zone has exactly one SOA at the apex, at least one apex NS, no CNAME beside other
data, and one map entry per key. -/
theorem inv_preserved_history (c : Cfg) (ms : List Msg) : ∀ z, KInv c z → NoPanic c z ms →
    KInv c (runAll c z ms) ∧ Inv c (runAll c z ms) := by
  induction ms with
  | nil => intro z h _; exact ⟨h, h.toInv⟩
  | cons m ms ih =>
    intro z h hnp
    exact ih _ (inv_preserved c z m h hnp.1) hnp.2

/-- the only panic is the serial overflow: below `u32::MAX` there is none -/
theorem no_panic_below_max (c : Cfg) (z : Zone) (m : Msg) (h : KInv c z)
    (hs : serial (applyAll c z m.updates false).1 c.origin < U32_MAX) :
    ∀ site, (update c true z m).2.2.1 ≠ .panic site := by
  intro site
  unfold update
  simp only [Bool.not_true, Bool.false_eq_true, if_false]
  cases h1 : verifyPrereqs c z m.prereqs with
  | some e => simp
  | none =>
    cases h2 : preScan c m.updates with
    | some e => simp
    | none =>
      simp only
      obtain ⟨b, hb⟩ := applyAll_some_of_prescan c m.updates h2 z false
      rcases updateRecords_spec c z m.updates h b hb with ⟨_, hu⟩ | ⟨_, hov, _, _⟩ | ⟨_, _, soa, hu, _, _⟩
      · rw [hu]; simp
      · omega
      · rw [hu]; simp

/-- Full strength of "a message whose prerequisites or prescan fail changes nothing": on a
well-formed zone *every* error answer of `update` leaves the zone as it was (after a successful
prescan `update_records` has no error answer left). -/
theorem update_rc_unchanged (c : Cfg) (z : Zone) (m : Msg) (h : KInv c z) (e : Rc)
    (he : (update c true z m).2.2.1 = .rc e) : (update c true z m).1 = z := by
  apply reject_unchanged
  intro hst
  unfold update at he hst
  simp only [Bool.not_true, Bool.false_eq_true, if_false] at he hst
  cases h1 : verifyPrereqs c z m.prereqs with
  | some e' => simp [h1] at hst
  | none =>
    cases h2 : preScan c m.updates with
    | some e' => simp [h1, h2] at hst
    | none =>
      simp only [h1, h2] at he
      obtain ⟨b, hb⟩ := applyAll_some_of_prescan c m.updates h2 z false
      rcases updateRecords_spec c z m.updates h b hb with ⟨_, hu⟩ | ⟨_, _, site, hu⟩ | ⟨_, _, soa, hu, _, _⟩ <;>
        (rw [hu] at he; cases he)

/-! ## 3. The serial advances iff the message changed something -/

theorem upsert_false_unchanged (zc : Nat) (z : Zone) (r : Rec) (h : (upsert zc z r).2 = false) :
    (upsert zc z r).1 = z := by
  rcases upsert_cases zc z r with hu | ⟨_, _, v, _, hu⟩
  · rw [hu]
  · rw [hu] at h; cases h

/-- an Update RR that reports "not updated" left the zone exactly as it was -/
theorem applyRR_false_unchanged (c : Cfg) (z : Zone) (rr : Rec) (h : (applyRR c z rr).2 = some false) :
    (applyRR c z rr).1 = z := by
  by_cases hz : rr.cls = c.zclass
  · rw [applyRR_zone hz] at h ⊢
    exact upsert_false_unchanged _ _ _ (by simpa using h)
  · by_cases ha : rr.cls = C_ANY
    · by_cases h1 : (rr.rtype = T_SOA ∨ rr.rtype = T_NS) ∧ rr.name.toLowercase = c.origin
      · rw [applyRR_any_skip hz ha h1]
      · by_cases h2 : rr.rtype = T_ANY
        · rw [applyRR_any_any hz ha h1 h2] at h ⊢
          simp only [Option.some.injEq, decide_eq_false_iff_not] at h
          exact filter_eq_self_of_length _ _ h
        · by_cases he : rr.isEmptyData = true
          · rw [applyRR_any_rrset hz ha h1 h2 he] at h ⊢
            simp only [Option.some.injEq] at h
            cases hg : z.get rr.key with
            | none => exact erase_of_get_none z _ hg
            | some v => rw [hg] at h; cases h
          · rw [applyRR_any_bad hz ha h1 h2 he]
    · by_cases hn : rr.cls = C_NONE
      · cases hg : z.get rr.key with
        | none => rw [applyRR_none_none hz ha hn hg]
        | some rs =>
          rw [applyRR_none_some hz ha hn hg] at h ⊢
          split
          · rename_i hr; rw [if_pos hr] at h; cases h
          · rfl
      · rw [applyRR_other hz ha hn]

theorem applyAll_false_unchanged (c : Cfg) (recs : List Rec) : ∀ (z : Zone) (u : Bool),
    (applyAll c z recs u).2 = some false → u = false ∧ (applyAll c z recs u).1 = z := by
  induction recs with
  | nil => intro z u h; exact ⟨by simpa [applyAll] using h, rfl⟩
  | cons rr rest ih =>
    intro z u h
    unfold applyAll at h ⊢
    cases hs : applyRR c z rr with
    | mk z' o =>
      cases o with
      | none => simp [hs] at h
      | some b =>
        simp only [hs] at h ⊢
        obtain ⟨hbu, hz'⟩ := ih z' (b || u) h
        have hb : b = false := by cases b <;> simp_all
        have hu : u = false := by cases u <;> simp_all
        have : (applyRR c z rr).1 = z := applyRR_false_unchanged c z rr (by rw [hs, hb])
        rw [hs] at this
        exact ⟨hu, by rw [hz']; exact this⟩

/-- **not_updated_unchanged** (full strength) — an accepted message that reports "nothing
updated" (so the serial stays) left every map entry exactly as it was. -/
theorem not_updated_unchanged (c : Cfg) (z : Zone) (m : Msg)
    (h : (update c true z m).2.2.1 = .ok false) : (update c true z m).1 = z := by
  unfold update at h ⊢
  simp only [Bool.not_true, Bool.false_eq_true, if_false] at h ⊢
  cases h1 : verifyPrereqs c z m.prereqs with
  | some e => simp
  | none =>
    cases h2 : preScan c m.updates with
    | some e => simp
    | none =>
      simp only [h1, h2] at h ⊢
      unfold updateRecords at h ⊢
      cases hl : applyAll c z m.updates false with
      | mk z1 o =>
        cases o with
        | none => simp [hl] at h
        | some b =>
          cases b with
          | false =>
            have := (applyAll_false_unchanged c m.updates z false (by rw [hl])).2
            rw [hl] at this
            simp [this]
          | true =>
            exfalso
            simp only [hl, Bool.true_and, Bool.not_true, Bool.false_eq_true, if_false] at h
            split at h
            · cases h
            · cases h
            · split at h <;> cases h

/-- the SOA entry after one Update RR: untouched, or the RR itself with a (plainly) larger serial -/
theorem applyRR_soa (c : Cfg) (z : Zone) (rr : Rec) (h : KInv c z) :
    serial z c.origin ≤ serial (applyRR c z rr).1 c.origin := by
  have h' := kinv_applyRR c z rr h
  obtain ⟨r, s, rest, hg, hr, _⟩ := h.soa
  obtain ⟨r', s', rest', hg', hr', _⟩ := h'.soa
  rw [serial_of_soa hg hr, serial_of_soa hg' hr']
  by_cases hz : rr.cls = c.zclass
  · rw [applyRR_zone hz] at hg'
    rcases upsert_cases c.zclass z rr with hu | ⟨_, _, v, hi, hu⟩
    · rw [hu, hg] at hg'; cases hg'; rw [hr] at hr'; cases hr'; exact Nat.le_refl _
    · rw [hu, get_set] at hg'
      by_cases hk : (c.origin, T_SOA) = rr.key
      · have ht : rr.rtype = T_SOA := by
          have := congrArg Prod.snd hk; simpa [Rec.key] using this.symm
        rw [← hk, hg] at hi
        simp only [Option.getD_some] at hi
        rcases rsInsert_soa r rr s rest ht hr with h1 | ⟨sn, rest2, hd, hlt, h1⟩
        · rw [h1] at hi; cases hi
        · rw [h1] at hi
          have hv : v = [rr] := by cases hi; rfl
          rw [if_pos hk, hv] at hg'
          cases hg'
          rw [hd] at hr'; cases hr'; omega
      · rw [if_neg hk, hg] at hg'; cases hg'; rw [hr] at hr'; cases hr'; exact Nat.le_refl _
  · -- deletions never touch the apex SOA entry
    have hsame : (applyRR c z rr).1.get (c.origin, T_SOA) = z.get (c.origin, T_SOA) := by
      by_cases ha : rr.cls = C_ANY
      · by_cases h1 : (rr.rtype = T_SOA ∨ rr.rtype = T_NS) ∧ rr.name.toLowercase = c.origin
        · rw [applyRR_any_skip hz ha h1]
        · by_cases h2 : rr.rtype = T_ANY
          · rw [applyRR_any_any hz ha h1 h2, get_filter_key (anyKeep c rr)]
            simp [anyKeep]
          · by_cases he : rr.isEmptyData = true
            · rw [applyRR_any_rrset hz ha h1 h2 he, get_erase,
                if_neg (key_ne_of_not_skip (Or.inl rfl) h1)]
            · rw [applyRR_any_bad hz ha h1 h2 he]
      · by_cases hn : rr.cls = C_NONE
        · cases hgk : z.get rr.key with
          | none => rw [applyRR_none_none hz ha hn hgk]
          | some rs =>
            rw [applyRR_none_some hz ha hn hgk]
            split
            · rename_i hrem
              by_cases hk : (c.origin, T_SOA) = rr.key
              · exfalso
                have ht : rr.rtype = T_SOA := by
                  have := congrArg Prod.snd hk; simpa [Rec.key] using this.symm
                rw [rsRemove_soa rs rr ht] at hrem; cases hrem
              · rw [get_set, if_neg hk]
            · rfl
        · rw [applyRR_other hz ha hn]
    rw [hsame, hg] at hg'; cases hg'; rw [hr] at hr'; cases hr'; exact Nat.le_refl _

theorem applyAll_serial_mono (c : Cfg) (recs : List Rec) : ∀ (z : Zone) (u : Bool), KInv c z →
    serial z c.origin ≤ serial (applyAll c z recs u).1 c.origin := by
  induction recs with
  | nil => intro z u _; exact Nat.le_refl _
  | cons rr rest ih =>
    intro z u h
    have h1 := applyRR_soa c z rr h
    have hk := kinv_applyRR c z rr h
    unfold applyAll
    split
    · rename_i z' u' heq
      rw [heq] at h1 hk
      exact Nat.le_trans h1 (ih z' _ hk)
    · rename_i z' heq
      rw [heq] at h1; exact h1

/-- **updated_serial_succ** (full strength, plain order on u32) — an accepted message that
updated something ends with serial = (serial after its own Update RRs) + 1, which is above the
serial it started from. -/
theorem updated_serial_succ (c : Cfg) (z : Zone) (m : Msg) (h : KInv c z)
    (hok : (update c true z m).2.2.1 = .ok true) :
    serial (update c true z m).1 c.origin = serial (applyAll c z m.updates false).1 c.origin + 1 ∧
    serial z c.origin < serial (update c true z m).1 c.origin ∧
    serial (update c true z m).1 c.origin ≤ U32_MAX := by
  have hm := applyAll_serial_mono c m.updates z false h
  unfold update at hok ⊢
  simp only [Bool.not_true, Bool.false_eq_true, if_false] at hok ⊢
  cases h1 : verifyPrereqs c z m.prereqs with
  | some e => simp [h1] at hok
  | none =>
    cases h2 : preScan c m.updates with
    | some e => simp [h1, h2] at hok
    | none =>
      simp only [h1, h2] at hok ⊢
      obtain ⟨b, hb⟩ := applyAll_some_of_prescan c m.updates h2 z false
      rcases updateRecords_spec c z m.updates h b hb with ⟨_, hu⟩ | ⟨_, _, site, hu⟩ | ⟨_, hle, soa, hu, _, hs⟩
      · rw [hu] at hok; cases hok
      · rw [hu] at hok; cases hok
      · rw [hu]; simp only
        rw [hs]; exact ⟨rfl, by omega, hle⟩

/-- **serial_advances_iff_changed_partial**.  Full statement wanted: after an accepted message
`serialLt (serial before) (serial after)` (RFC 1982) iff the content changed.  Proved:
* "not advanced ⇒ nothing changed" at full strength (`updated = false` ⇒ the zone is identical);
* "updated ⇒ advanced" in RFC 1982's sense under the hypothesis `after − before < 2³¹` — the code
  compares and bumps serials as plain u32, so an SOA in the Update Section that jumps ≥ 2³¹ (which
  RFC 1982 reads as *lower*) is accepted: `soa_serial_plain_compare_cex`;
* "advanced ⇒ content changed" does **not** hold: `cname_readd_bumps_serial_cex`,
  `emptied_rrset_bumps_serial_cex`. -/
theorem serial_advances_iff_changed_partial (c : Cfg) (z : Zone) (m : Msg) (h : KInv c z) (b : Bool)
    (hok : (update c true z m).2.2.1 = .ok b)
    (hclose : serial (update c true z m).1 c.origin - serial z c.origin < 2147483648) :
    (serialLt (serial z c.origin) (serial (update c true z m).1 c.origin) = true ↔ b = true) ∧
    (b = false → (update c true z m).1 = z) := by
  cases b with
  | false =>
    have := not_updated_unchanged c z m hok
    refine ⟨?_, fun _ => this⟩
    rw [this]; simp [serialLt]
  | true =>
    obtain ⟨_, hlt, _⟩ := updated_serial_succ c z m h hok
    refine ⟨?_, fun hf => by cases hf⟩
    simp only [serialLt, decide_eq_true_eq, iff_true]
    exact ⟨by omega, Or.inl ⟨hlt, hclose⟩⟩

/-! ## 4. An accepted message leaves the RRset contents RFC 2136 §3.4.2 prescribes

Stated per Update RR, from *any* zone state the code can be in: the code's step and the RFC's step
(`Rfc2136.stepRR`, the pseudocode reading that protects SOA / last NS at any name) produce zones
holding the same RRsets (`Zone.Same`), under the decidable hypothesis `Faithful` which names
exactly the places where the code departs from the RFC.  Each departure has a `decide`
counter-example below and is a recorded finding. -/

theorem rrsetOf_set (z : Zone) (k : Key) (v : RSet) (k' : Key) :
    rrsetOf (z.set k v) k' = if k' = k then v else rrsetOf z k' := by
  unfold rrsetOf; rw [get_set]; split <;> rfl

theorem rrsetOf_erase (z : Zone) (k k' : Key) :
    rrsetOf (z.erase k) k' = if k' = k then [] else rrsetOf z k' := by
  unfold rrsetOf; rw [get_erase]; split <;> rfl

theorem rrsetOf_filter_key (p : Key → Bool) (z : Zone) (k : Key) :
    rrsetOf (z.filter fun e => p e.1) k = if p k then rrsetOf z k else [] := by
  unfold rrsetOf; rw [get_filter_key]; split <;> rfl

theorem get_mem {z : Zone} {k : Key} {v : RSet} (h : z.get k = some v) : (k, v) ∈ z := by
  induction z with
  | nil => simp at h
  | cons e z ih =>
    obtain ⟨k1, v1⟩ := e
    rw [get_cons] at h
    by_cases hk : k1 = k
    · rw [if_pos hk] at h; cases h; subst hk; exact List.mem_cons_self
    · rw [if_neg hk] at h; exact List.mem_cons_of_mem _ (ih h)

theorem replaceDup_none_of (r : Rec) (rs : List Rec)
    (h : ∃ x ∈ rs, x.dataEq r = true ∧ x.eqv r = true) : replaceDup r rs = none := by
  induction rs with
  | nil => obtain ⟨x, hx, _⟩ := h; cases hx
  | cons y ys ih =>
    obtain ⟨x, hx, hd, he⟩ := h
    unfold replaceDup
    rcases List.mem_cons.mp hx with rfl | hx'
    · rw [if_pos hd, if_pos he]
    · have := ih ⟨x, hx', hd, he⟩
      split
      · split
        · rfl
        · rw [this]; rfl
      · rw [this]; rfl

theorem replaceDup_no_match (r : Rec) (rs : List Rec) (h : ∀ x ∈ rs, x.dataEq r = false) :
    replaceDup r rs = some (rs, false) := by
  induction rs with
  | nil => rfl
  | cons y ys ih =>
    unfold replaceDup
    have hy := h y List.mem_cons_self
    rw [hy]
    simp only [Bool.false_eq_true, if_false]
    rw [ih (fun x hx => h x (List.mem_cons_of_mem _ hx))]; rfl

/-- at `n` every map entry has an ordinary type and at least one record (no leftover of a
class-NONE delete, no NSEC/NSEC3, no type 65535 which the code's range scans skip) -/
def PlainAt (z : Zone) (n : Name) : Prop :=
  ∀ e ∈ z, e.1.1 = n → e.1.2 < 65535 ∧ e.1.2 ≠ T_NSEC ∧ e.1.2 ≠ T_NSEC3 ∧ e.2 ≠ []

instance (z : Zone) (n : Name) : Decidable (PlainAt z n) := by unfold PlainAt; exact inferInstance

theorem blocked_cname {z : Zone} {rr : Rec} (hp : PlainAt z rr.name.toLowercase) (ht : rr.rtype = T_CNAME) :
    upsertBlocked z rr = Rfc2136.otherDataAt z rr.name.toLowercase := by
  unfold upsertBlocked Rfc2136.otherDataAt Zone.typesAt
  rw [List.any_map, List.any_filter, Bool.eq_iff_iff, List.any_eq_true, List.any_eq_true]
  constructor
  · rintro ⟨e, he, hc⟩
    refine ⟨e, he, ?_⟩
    simp only [Function.comp, Bool.and_eq_true, decide_eq_true_eq] at hc
    obtain ⟨⟨hn, _⟩, hx⟩ := hc
    obtain ⟨_, h2, h3, h4⟩ := hp e he hn
    rw [ht] at hx
    have : e.1.2 ≠ T_CNAME := by
      intro heq; rw [heq] at hx; revert hx; decide
    simp [hn, this, h4]
  · rintro ⟨e, he, hc⟩
    refine ⟨e, he, ?_⟩
    simp only [decide_eq_true_eq] at hc
    obtain ⟨hn, hnc, _⟩ := hc
    obtain ⟨h1, h2, h3, _⟩ := hp e he hn
    have b1 : (e.1.2 == T_NSEC) = false := by simpa using h2
    have b2 : (e.1.2 == T_NSEC3) = false := by simpa using h3
    have b3 : (e.1.2 != T_CNAME) = true := by simpa using hnc
    have c1 : (T_CNAME == T_NSEC) = false := by decide
    have c2 : (T_CNAME == T_NSEC3) = false := by decide
    simp [Function.comp, hn, h1, ht, isNsec, labelDisallow, b1, b2, b3, c1, c2]

theorem blocked_other {z : Zone} {rr : Rec} (hp : PlainAt z rr.name.toLowercase) (ht : rr.rtype ≠ T_CNAME)
    (h2 : rr.rtype ≠ T_NSEC) (h3 : rr.rtype ≠ T_NSEC3) :
    upsertBlocked z rr = true ↔ rrsetOf z (rr.name.toLowercase, T_CNAME) ≠ [] := by
  have b0 : (rr.rtype == T_CNAME) = false := by simpa using ht
  have b0' : (rr.rtype != T_CNAME) = true := by simpa using ht
  have b1 : (rr.rtype == T_NSEC) = false := by simpa using h2
  have b2 : (rr.rtype == T_NSEC3) = false := by simpa using h3
  constructor
  · intro hb
    unfold upsertBlocked at hb
    rw [List.any_eq_true] at hb
    obtain ⟨t, htm, hc⟩ := hb
    have htc : t = T_CNAME := by
      simp only [isNsec, labelDisallow, b0, b0', b1, b2, Bool.false_and, Bool.false_or, Bool.true_and,
        Bool.and_eq_true, beq_iff_eq] at hc
      exact hc.2
    subst htc
    have hs := Zone.get_of_mem_typesAt z _ _ htm
    obtain ⟨v, hv⟩ := Option.isSome_iff_exists.mp hs
    have := (hp _ (get_mem hv) rfl).2.2.2
    simp [rrsetOf, hv, this]
  · intro hne
    cases hg : z.get (rr.name.toLowercase, T_CNAME) with
    | none => simp [rrsetOf, hg] at hne
    | some v =>
      have hm := Zone.mem_typesAt z _ _ v hg (by decide)
      unfold upsertBlocked
      rw [List.any_eq_true]
      refine ⟨T_CNAME, hm, ?_⟩
      have c1 : (T_CNAME == T_NSEC) = false := by decide
      have c2 : (T_CNAME == T_NSEC3) = false := by decide
      simp [isNsec, labelDisallow, b0, b0', b1, b2, c1, c2]

/-- The places where `update_records` departs from RFC 2136 §3.4.2, as a hypothesis on one
zone-class Update RR `rr` against the zone `z` it meets (nothing is asked of class ANY / NONE RRs). -/
structure Faithful (c : Cfg) (z : Zone) (rr : Rec) : Prop where
  /-- no emptied `RecordSet`, NSEC/NSEC3 or type-65535 entry at the name
  (finding `emptied-rrset-left-in-zone`; the other two are outside the modelled universe) -/
  plain : rr.cls = c.zclass → PlainAt z rr.name.toLowercase
  types : rr.cls = c.zclass → rr.rtype ≠ T_NSEC ∧ rr.rtype ≠ T_NSEC3 ∧ rr.rtype ≠ T_ANAME
  /-- an SOA RR meets an SOA RRset at its name (finding `non-apex-soa-added`) and the plain u32
  comparison agrees with RFC 1982 on the two serials (finding `soa-serial-plain-compare`) -/
  soa : rr.cls = c.zclass → rr.rtype = T_SOA → ∃ zrr zs zrest sn srest,
    z.get rr.key = some [zrr] ∧ zrr.rdata = .soa zs zrest ∧ rr.rdata = .soa sn srest ∧
    (sn ≤ zs ↔ (serialLt sn zs = true ∨ sn = zs))
  /-- an RR whose RDATA is already in the RRset is that very record, TTL included
  (finding `duplicate-rdata-ttl-not-replaced`) -/
  dup : rr.cls = c.zclass → rr.rtype ≠ T_SOA → rr.rtype ≠ T_CNAME →
    ∀ x ∈ rrsetOf z rr.key, x.dataEq rr = true → x = rr ∧ x.eqv rr = true

theorem same_refl (z : Zone) : Rfc2136.Zone.Same z z := fun _ => rfl

theorem same_set_self (z : Zone) (k : Key) : Rfc2136.Zone.Same z (z.set k (rrsetOf z k)) := by
  intro k'; rw [rrsetOf_set]; split
  · rename_i h; rw [h]
  · rfl

theorem upsert_cname_eq (c : Cfg) (z : Zone) (rr : Rec) (hz : rr.cls = c.zclass) (ht : rr.rtype = T_CNAME)
    (hb : upsertBlocked z rr = false) : (upsert c.zclass z rr).1 = z.set rr.key [rr] := by
  have hins : ∀ rs, rsInsert rs rr = ([rr], true) := by
    intro rs
    unfold rsInsert insertPre
    have h1 : ¬ rr.rtype = T_SOA := by rw [ht]; decide
    rw [if_neg h1, if_pos (Or.inl ht)]
    rfl
  unfold upsert
  rw [if_neg (by simp [hz]), hb]
  simp only [Bool.false_eq_true, if_false]
  cases hg : z.get rr.key with
  | some rs => simp [hins]
  | none => simp [hins]

/-- **apply_eq_rfc_partial** (one Update RR).  Full statement wanted: for every zone and every RR
the prescan lets through, the code's step and RFC 2136 §3.4.2.7's step leave the same RRsets.
Proved under `Faithful`; without it the statement is false (counter-examples below). -/
theorem applyRR_eq_rfc_partial (c : Cfg) (z : Zone) (rr : Rec) (u : Bool)
    (hok : (applyRR c z rr).2 = some u) (hf : Faithful c z rr) :
    Rfc2136.Zone.Same (applyRR c z rr).1 (Rfc2136.stepRR true c z rr) := by
  unfold Rfc2136.stepRR
  by_cases hz : rr.cls = c.zclass
  · -- add to an RRset
    rw [applyRR_zone hz, if_pos hz]
    have hp := hf.plain hz
    obtain ⟨hn1, hn2, hn3⟩ := hf.types hz
    by_cases hc : rr.rtype = T_CNAME
    · rw [if_pos hc, ← blocked_cname hp hc]
      cases hb : upsertBlocked z rr with
      | true =>
        simp only [if_true]
        have : upsert c.zclass z rr = (z, false) := by
          unfold upsert; rw [if_neg (by simp [hz]), hb]; simp
        rw [this]; exact same_refl z
      | false =>
        simp only [Bool.false_eq_true, if_false]
        rw [upsert_cname_eq c z rr hz hc hb]
        unfold Rfc2136.addOrReplace
        rw [if_pos (Or.inl hc)]
        exact same_refl _
    · rw [if_neg hc]
      have hbo := blocked_other hp hc hn1 hn2
      by_cases hcn : rrsetOf z (rr.name.toLowercase, T_CNAME) ≠ []
      · rw [if_pos hcn]
        have hb := hbo.mpr hcn
        have : upsert c.zclass z rr = (z, false) := by
          unfold upsert; rw [if_neg (by simp [hz]), hb]; simp
        rw [this]; exact same_refl z
      · rw [if_neg hcn]
        have hb : upsertBlocked z rr = false := by
          cases h : upsertBlocked z rr with
          | false => rfl
          | true => exact absurd (hbo.mp h) hcn
        by_cases hs : rr.rtype = T_SOA
        · -- SOA replace rule
          rw [if_pos hs]
          obtain ⟨zrr, zs, zrest, sn, srest, hg, hzr, hrr, hcmp⟩ := hf.soa hz hs
          have hrs : rrsetOf z rr.key = [zrr] := by simp [rrsetOf, hg]
          rw [hrs]
          simp only [Rfc2136.soaSerialOf, hrr, hzr]
          unfold upsert
          rw [if_neg (by simp [hz]), hb]
          simp only [Bool.false_eq_true, if_false, hg]
          rcases rsInsert_soa zrr rr zs zrest hs hzr with h1 | ⟨sn', rest', hd, hlt, h1⟩
          · -- ignored by the code: then sn ≤ zs, and the RFC ignores it too
            rw [h1]
            simp only [Bool.false_eq_true, if_false]
            have hle : sn ≤ zs := by
              unfold rsInsert insertPre at h1
              rw [if_pos hs] at h1
              simp only [hzr, hrr] at h1
              by_cases hle : sn ≤ zs
              · exact hle
              · rw [if_neg hle] at h1
                simp [replaceDup] at h1
            have := hcmp.mp hle
            rw [if_pos (by rcases this with h | h; exact Or.inl h; exact Or.inr h)]
            exact same_refl z
          · rw [h1]
            simp only [if_true]
            rw [hrr] at hd; cases hd
            have hnot : ¬ (serialLt sn zs = true ∨ sn = zs) := by
              intro h; have := hcmp.mpr h; omega
            rw [if_neg hnot]
            unfold Rfc2136.addOrReplace
            rw [if_pos (Or.inr hs)]
            exact same_refl _
        · rw [if_neg hs]
          -- ordinary type
          have hdup := hf.dup hz hs hc
          unfold Rfc2136.addOrReplace
          rw [if_neg (by intro h; rcases h with h | h; exact hc h; exact hs h)]
          have hpre : ∀ rs, insertPre rs rr = some rs := by
            intro rs; unfold insertPre
            rw [if_neg hs, if_neg (by intro h; rcases h with h | h; exact hc h; exact hn3 h)]
          by_cases hany : (rrsetOf z rr.key).any (fun x => x.dataEq rr) = true
          · -- the RDATA is already there: the code ignores the RR, the RFC rewrites it by itself
            rw [if_pos hany]
            obtain ⟨x, hx, hxd⟩ := List.any_eq_true.mp hany
            obtain ⟨hxeq, hxe⟩ := hdup x hx hxd
            have hmap : (rrsetOf z rr.key).map (fun x => if x.dataEq rr = true then rr else x) = rrsetOf z rr.key := by
              rw [List.map_congr_left (g := id)]
              · simp
              · intro y hy
                by_cases hyd : y.dataEq rr = true
                · simp [hyd, (hdup y hy hyd).1]
                · simp [hyd]
            rw [hmap]
            have hno : upsert c.zclass z rr = (z, false) := by
              unfold upsert
              rw [if_neg (by simp [hz]), hb]
              simp only [Bool.false_eq_true, if_false]
              cases hg : z.get rr.key with
              | none => simp [rrsetOf, hg] at hx
              | some rs =>
                have hrs : rrsetOf z rr.key = rs := by simp [rrsetOf, hg]
                rw [hrs] at hx
                have : rsInsert rs rr = (rs, false) := by
                  unfold rsInsert
                  simp only [hpre, replaceDup_none_of rr rs ⟨x, hx, hxd, hxe⟩]
                simp [this]
            rw [hno]
            exact same_set_self z rr.key
          · rw [if_neg hany]
            have hnone : ∀ x ∈ rrsetOf z rr.key, x.dataEq rr = false := by
              intro x hx
              cases h : x.dataEq rr with
              | false => rfl
              | true => exact absurd (List.any_eq_true.mpr ⟨x, hx, h⟩) hany
            have hins : rsInsert (rrsetOf z rr.key) rr = (rrsetOf z rr.key ++ [rr], true) := by
              unfold rsInsert
              simp only [hpre, replaceDup_no_match rr _ hnone]
            unfold upsert
            rw [if_neg (by simp [hz]), hb]
            simp only [Bool.false_eq_true, if_false]
            cases hg : z.get rr.key with
            | none =>
              have hrs : rrsetOf z rr.key = [] := by simp [rrsetOf, hg]
              simp only [rsInsert_nil, hrs, List.nil_append]
              exact same_refl _
            | some rs =>
              have hrs : rrsetOf z rr.key = rs := by simp [rrsetOf, hg]
              rw [hrs] at hins ⊢
              simp only [hins, if_true]
              exact same_refl _
  · rw [if_neg hz]
    by_cases ha : rr.cls = C_ANY
    · rw [if_pos ha]
      by_cases h1 : (rr.rtype = T_SOA ∨ rr.rtype = T_NS) ∧ rr.name.toLowercase = c.origin
      · rw [applyRR_any_skip hz ha h1]
        have hne : rr.rtype ≠ T_ANY := by
          rcases h1.1 with h | h <;> (rw [h]; decide)
        rw [if_neg hne, if_pos ⟨h1.2, h1.1⟩]
        exact same_refl z
      · by_cases h2 : rr.rtype = T_ANY
        · rw [applyRR_any_any hz ha h1 h2, if_pos h2]
          intro k
          by_cases ho : rr.name.toLowercase = c.origin
          · rw [if_pos ho]
            have e1 := rrsetOf_filter_key (anyKeep c rr) z k
            have e2 := rrsetOf_filter_key (fun k => decide (k.1 ≠ rr.name.toLowercase ∨ k.2 = T_SOA ∨ k.2 = T_NS)) z k
            rw [e1, e2]
            have : anyKeep c rr k = decide (k.1 ≠ rr.name.toLowercase ∨ k.2 = T_SOA ∨ k.2 = T_NS) := by
              unfold anyKeep; rw [ho]
              by_cases hk : k.1 = c.origin <;> simp [hk]
            rw [this]
          · rw [if_neg ho]
            have e1 := rrsetOf_filter_key (anyKeep c rr) z k
            have e2 := rrsetOf_filter_key (fun k => decide (k.1 ≠ rr.name.toLowercase)) z k
            rw [e1, e2]
            have : anyKeep c rr k = decide (k.1 ≠ rr.name.toLowercase) := by
              unfold anyKeep
              by_cases hk : k.1 = rr.name.toLowercase
              · have : k.1 ≠ c.origin := by rw [hk]; exact ho
                simp [hk, this, ho]
              · simp [hk]
            rw [this]
        · rw [if_neg h2, if_neg (by intro h; exact h1 ⟨h.2, h.1⟩)]
          by_cases he : rr.isEmptyData = true
          · rw [applyRR_any_rrset hz ha h1 h2 he]; exact same_refl _
          · rw [applyRR_any_bad hz ha h1 h2 he] at hok; cases hok
    · rw [if_neg ha]
      by_cases hn : rr.cls = C_NONE
      · rw [if_pos hn]
        simp only [true_or, and_true, true_and]
        cases hg : z.get rr.key with
        | none =>
          rw [applyRR_none_none hz ha hn hg]
          have hrs : rrsetOf z rr.key = [] := by simp [rrsetOf, hg]
          rw [hrs]
          split
          · exact same_refl z
          · split
            · exact same_refl z
            · intro k
              simp only [List.filter_nil, Rfc2136.writeSet, if_true]
              rw [rrsetOf_erase]; split
              · rename_i h; rw [h, hrs]
              · rfl
        | some rs =>
          rw [applyRR_none_some hz ha hn hg]
          have hrs : rrsetOf z rr.key = rs := by simp [rrsetOf, hg]
          rw [hrs]
          by_cases hs : rr.rtype = T_SOA
          · rw [if_pos hs, rsRemove_soa rs rr hs]; exact same_refl z
          · rw [if_neg hs]
            -- what the RFC writes, seen through `rrsetOf`
            have hwrite : ∀ k, rrsetOf (Rfc2136.writeSet z rr.key (rs.filter fun x => !(x.dataEq rr))) k =
                if k = rr.key then rs.filter (fun x => !(x.dataEq rr)) else rrsetOf z k := by
              intro k
              unfold Rfc2136.writeSet
              split
              · rename_i hnil; rw [rrsetOf_erase, hnil]
              · rw [rrsetOf_set]
            unfold rsRemove
            by_cases hns : rr.rtype = T_NS ∧ rs.length ≤ 1
            · -- the code protects the last NS whatever its RDATA
              rw [if_pos hns]
              simp only [Bool.false_eq_true, if_false]
              split
              · exact same_refl z
              · rename_i hnot
                intro k
                rw [hwrite]
                split
                · rename_i hk
                  rw [hk, hrs]
                  -- the filter removes nothing (a lone NS that matched would have been protected)
                  match rs, hns.2, hnot with
                  | [], _, _ => rfl
                  | [x], _, hnot =>
                    have : x.dataEq rr = false := by
                      cases h : x.dataEq rr with
                      | false => rfl
                      | true => exact absurd ⟨hns.1, rfl, by simp [h]⟩ hnot
                    simp [this]
                  | _ :: _ :: _, hl, _ => simp at hl
                · rfl
            · rw [if_neg hns, if_neg hs]
              simp only
              have hspec : ¬ (rr.rtype = T_NS ∧ rs.length = 1 ∧ rs.all (fun x => x.dataEq rr) = true) := by
                intro h; exact hns ⟨h.1, by omega⟩
              rw [if_neg hspec]
              split
              · rename_i hlt
                simp only [if_true]
                intro k
                rw [rrsetOf_set, hwrite]
              · rename_i hlt
                simp only [Bool.false_eq_true, if_false]
                have := filter_eq_self_of_length _ _ hlt
                intro k
                rw [hwrite, this]
                split
                · rename_i hk; rw [hk, hrs]
                · rfl
      · rw [applyRR_other hz ha hn] at hok; cases hok

/-- the whole Update Section: every step of the code's loop, taken from the state the code has
reached, is the RFC's step from that state -/
def StepwiseRfc (c : Cfg) : Zone → List Rec → Prop
  | _, [] => True
  | z, rr :: rest =>
    Rfc2136.Zone.Same (applyRR c z rr).1 (Rfc2136.stepRR true c z rr) ∧ StepwiseRfc c (applyRR c z rr).1 rest

/-- `Faithful` along the run of the loop -/
def FaithfulRun (c : Cfg) : Zone → List Rec → Prop
  | _, [] => True
  | z, rr :: rest => Faithful c z rr ∧ FaithfulRun c (applyRR c z rr).1 rest

/-- **apply_eq_rfc_partial** (whole Update Section of an accepted message) -/
theorem apply_eq_rfc_partial (c : Cfg) (recs : List Rec) : ∀ z, Upd.preScan c recs = none →
    FaithfulRun c z recs → StepwiseRfc c z recs := by
  induction recs with
  | nil => intro z _ _; trivial
  | cons rr rest ih =>
    intro z hp hf
    unfold Upd.preScan at hp
    cases h1 : Upd.prescanOne c rr with
    | some e => simp [h1] at hp
    | none =>
      simp only [h1] at hp
      obtain ⟨u, hu⟩ := applyRR_some_of_prescan c z rr h1
      exact ⟨applyRR_eq_rfc_partial c z rr u hu hf.1, ih _ hp hf.2⟩

/-! ## 5. "Exactly one SOA": none away from the apex -/

/-- **only_apex_soa_partial**.  Full statement wanted: no message ever creates an SOA away from the
apex.  False for the code (`non_apex_soa_added_cex`); proved for Update RRs that do not try it. -/
theorem only_apex_soa_partial (c : Cfg) (z : Zone) (rr : Rec) (h : OnlyApexSoa c z)
    (hrr : rr.cls = c.zclass → rr.rtype = T_SOA → rr.name.toLowercase = c.origin) :
    OnlyApexSoa c (applyRR c z rr).1 := by
  intro name hne
  have hz0 := h name hne
  by_cases hz : rr.cls = c.zclass
  · rw [applyRR_zone hz]
    rcases upsert_cases c.zclass z rr with hu | ⟨_, _, v, _, hu⟩
    · rw [hu]; exact hz0
    · rw [hu, rrsetOf_set]
      split
      · rename_i hk
        exfalso; apply hne
        have h1 := congrArg Prod.fst hk
        have h2 := congrArg Prod.snd hk
        simp only [Rec.key] at h1 h2
        rw [h1]; exact hrr hz h2.symm
      · exact hz0
  · by_cases ha : rr.cls = C_ANY
    · by_cases h1 : (rr.rtype = T_SOA ∨ rr.rtype = T_NS) ∧ rr.name.toLowercase = c.origin
      · rw [applyRR_any_skip hz ha h1]; exact hz0
      · by_cases h2 : rr.rtype = T_ANY
        · rw [applyRR_any_any hz ha h1 h2, rrsetOf_filter_key (anyKeep c rr), hz0]; simp
        · by_cases he : rr.isEmptyData = true
          · rw [applyRR_any_rrset hz ha h1 h2 he, rrsetOf_erase, hz0]; simp
          · rw [applyRR_any_bad hz ha h1 h2 he]; exact hz0
    · by_cases hn : rr.cls = C_NONE
      · cases hg : z.get rr.key with
        | none => rw [applyRR_none_none hz ha hn hg]; exact hz0
        | some rs =>
          rw [applyRR_none_some hz ha hn hg]
          split
          · rename_i hrem
            rw [rrsetOf_set]
            split
            · rename_i hk
              have ht : rr.rtype = T_SOA := by
                have := congrArg Prod.snd hk; simpa [Rec.key] using this.symm
              rw [rsRemove_soa rs rr ht] at hrem; cases hrem
            · exact hz0
          · exact hz0
      · rw [applyRR_other hz ha hn]; exact hz0

/-! ## 6. A decidable check that establishes `KInv` (used for the examples; the harness' initial
zones pass it) -/

def kinvCheck (c : Cfg) (z : Zone) : Bool :=
  (match z.get (c.origin, T_SOA) with
   | some [r] => (match r.rdata with | .soa _ _ => true | _ => false) && r.key == (c.origin, T_SOA) && r.cls == c.zclass
   | _ => false) &&
  (match z.get (c.origin, T_NS) with
   | some rs => !rs.isEmpty && decide (rs.Pairwise fun a b => a.dataEq b = false)
   | none => false) &&
  (z.all fun e => e.1.2 != T_CNAME || z.all fun e' =>
      e'.1.1 != e.1.1 || e'.1.2 == T_CNAME || e'.1.2 == T_NSEC || e'.1.2 == T_NSEC3 || decide (65535 ≤ e'.1.2)) &&
  decide ((z.map (·.1)).Nodup)

theorem kinv_of_check (c : Cfg) (z : Zone) (h : kinvCheck c z = true) : KInv c z := by
  unfold kinvCheck at h
  simp only [Bool.and_eq_true] at h
  obtain ⟨⟨⟨h1, h2⟩, h3⟩, h4⟩ := h
  refine ⟨?_, ?_, ?_, by simpa using h4⟩
  · split at h1
    · rename_i r hg
      simp only [Bool.and_eq_true, beq_iff_eq] at h1
      obtain ⟨⟨ha, hb⟩, hc⟩ := h1
      split at ha
      · rename_i s rest hr; exact ⟨r, s, rest, hg, hr, hb, hc⟩
      · cases ha
    · cases h1
  · split at h2
    · rename_i rs hg
      simp only [Bool.and_eq_true, Bool.not_eq_true', decide_eq_true_eq] at h2
      refine ⟨rs, hg, ?_, h2.2⟩
      intro hnil; rw [hnil] at h2; simp at h2
    · cases h2
  · intro name t hc ht1 ht2 ht3 ht4
    obtain ⟨v, hv⟩ := Option.isSome_iff_exists.mp hc
    cases hg : z.get (name, t) with
    | none => rfl
    | some w =>
      exfalso
      rw [List.all_eq_true] at h3
      have := h3 _ (get_mem hv)
      simp only [bne_self_eq_false, Bool.false_or, List.all_eq_true] at this
      have := this _ (get_mem hg)
      simp [ht1, ht2, ht3] at this
      omega

/-! ## 6b. Prerequisites: where the query-path lookup is the RFC's RRset test

`verify_prerequisites` asks `lookup()`.  For the four value-independent rows of table 3.2.4 the
code's per-RR verdict *is* RFC 2136 §3.2.5's under `ExactLookup` (no referral above the name, no
CNAME / ANAME at it, no wildcard standing in for a missing RRset) — outside it: finding
`prereq-uses-query-lookup`.  The value-dependent row is not set equality in the code at all
(finding `prereq-value-dependent-subset`). -/

structure ExactLookup (z : Zone) (name : Name) (t : Nat) : Prop where
  noDeleg : delegationWalk z t name name.labels = none
  noAlias : ∀ e ∈ z, e.1.1 = name → e.1.2 ≠ T_CNAME ∧ e.1.2 ≠ T_ANAME ∧ e.1.2 < 65535
  noWild : z.get (name, t) = none →
    (name.isWildcard || name.labels.isEmpty) = true ∨ wildcardWalk z t name.labels = none

theorem exactFind_eq_get (z : Zone) (name : Name) (t : Nat)
    (h : ∀ e ∈ z, e.1.1 = name → e.1.2 ≠ T_CNAME ∧ e.1.2 ≠ T_ANAME ∧ e.1.2 < 65535) :
    exactFind z name t = z.get (name, t) := by
  induction z with
  | nil => rfl
  | cons e z ih =>
    obtain ⟨k, v⟩ := e
    have ih' := ih (fun e he => h e (List.mem_cons_of_mem _ he))
    unfold exactFind at ih' ⊢
    rw [List.find?_cons, get_cons]
    by_cases hk : k = (name, t)
    · subst hk
      have := (h ((name, t), v) List.mem_cons_self rfl).2.2
      simp [this]
    · rw [if_neg hk]
      have hfalse : decide (k.1 = name ∧ k.2 < 65535 ∧
          (k.2 = t ∨ k.2 = T_CNAME ∨ ((t = T_A ∨ t = 28) ∧ k.2 = T_ANAME))) = false := by
        rw [decide_eq_false_iff_not]
        rintro ⟨hn, _, hor⟩
        obtain ⟨h1, h2, _⟩ := h (k, v) List.mem_cons_self hn
        rcases hor with ht | hc | ⟨_, ha⟩
        · exact hk (Prod.ext hn ht)
        · exact h1 hc
        · exact h2 ha
      simp only [hfalse]
      exact ih'

/-- under `ExactLookup` the records the prerequisite test sees are the RRset `<name, t>` itself -/
theorem lookupRecs_exact (z : Zone) (name : Name) (t : Nat) (h : ExactLookup z name t)
    (h1 : t ≠ T_ANY) (h2 : t ≠ T_AXFR) : lookupRecs z name t = rrsetOf z (name, t) := by
  unfold lookupRecs innerLookup lookupNoWild
  rw [if_neg h2, if_neg h1]
  simp only [h.noDeleg, exactFind_eq_get z name t h.noAlias]
  cases hg : z.get (name, t) with
  | some rs => simp [rrsetOf, hg]
  | none =>
    simp only [rrsetOf, hg, Option.getD_none]
    rcases h.noWild hg with hw | hw
    · simp [hw]
    · split
      · rfl
      · simp [hw]

/-- **prereq_rrset_eq_rfc_partial** — "RRset exists / does not exist (value independent)":
class ANY or NONE, type not ANY.  Same verdict, same rcode as RFC 2136 §3.2.5. -/
theorem prereq_rrset_eq_rfc_partial (c : Cfg) (z : Zone) (r : Rec)
    (hcls : r.cls = C_ANY ∨ r.cls = C_NONE) (ht : r.rtype ≠ T_ANY) (hax : r.rtype ≠ T_AXFR)
    (hnull : r.rtype ≠ T_NULL) (hx : ExactLookup z r.name.toLowercase r.rtype) :
    Upd.prereqOne c z r = Rfc2136.prereqOne c z r := by
  have hempty : r.isEmptyData = Rfc2136.rdlengthZero r := by
    unfold Rec.isEmptyData Rfc2136.rdlengthZero
    have : (r.rtype == T_NULL) = false := by simpa using hnull
    simp [this]
  have hl := lookupRecs_exact z r.name.toLowercase r.rtype hx ht hax
  unfold Upd.prereqOne Rfc2136.prereqOne
  simp only [hl, hempty, ht, if_false]
  have hie : ∀ l : List Rec, l.isEmpty = true ↔ l = [] := fun l => by cases l <;> simp
  by_cases h1 : r.ttl ≠ 0
  · simp [h1]
  · simp only [h1, if_false]
    by_cases h2 : (!Name.zoneOf c.origin r.name) = true
    · simp [h2]
    · simp only [h2, if_false]
      by_cases ha : r.cls = C_ANY
      · simp only [ha, if_true]
        cases hrd : Rfc2136.rdlengthZero r with
        | false => simp
        | true =>
          simp only [Bool.not_true, Bool.false_eq_true, if_true, if_false]
          by_cases hn : rrsetOf z (r.name.toLowercase, r.rtype) = []
          · simp [hn]
          · have : (rrsetOf z (r.name.toLowercase, r.rtype)).isEmpty = false := by
              cases h : (rrsetOf z (r.name.toLowercase, r.rtype)).isEmpty with
              | false => rfl
              | true => exact absurd ((hie _).mp h) hn
            simp [hn, this]
      · have hn : r.cls = C_NONE := by rcases hcls with h | h; exact absurd h ha; exact h
        have hne : ¬ C_NONE = C_ANY := by decide
        simp only [hn, hne, if_false, if_true]
        cases hrd : Rfc2136.rdlengthZero r with
        | false => simp
        | true =>
          simp only [Bool.not_true, Bool.false_eq_true, if_true, if_false]
          by_cases hnil : rrsetOf z (r.name.toLowercase, r.rtype) = []
          · simp [hnil]
          · have : (rrsetOf z (r.name.toLowercase, r.rtype)).isEmpty = false := by
              cases h : (rrsetOf z (r.name.toLowercase, r.rtype)).isEmpty with
              | false => rfl
              | true => exact absurd ((hie _).mp h) hnil
            simp [hnil, this]

/-- "each message's prerequisites are judged against the zone as left by the earlier messages":
in a history the message after `h₁` is processed by `update` on exactly `runAll h₁`. -/
theorem runAll_append (c : Cfg) (h1 h2 : List Msg) : ∀ z, runAll c z (h1 ++ h2) = runAll c (runAll c z h1) h2 := by
  induction h1 with
  | nil => intro z; rfl
  | cons m ms ih => intro z; simp only [List.cons_append, runAll]; exact ih _

theorem history_step (c : Cfg) (z : Zone) (h1 : List Msg) (m : Msg) :
    runAll c z (h1 ++ [m]) = (update c true (runAll c z h1) m).1 := by
  rw [runAll_append]; rfl

/-! ## 7. Concrete zone: non-vacuity of the hypotheses, and the counter-examples (findings)

Zone `e.` with SOA (serial 100), NS ×2, `a.e.` A ×1 (TTL 300), `c.e.` CNAME. -/

def exOrigin : Name := { labels := [[101]], fqdn := true }
def exCfg : Cfg := { origin := exOrigin }
def nm (l : Nat) : Name := { labels := [[l], [101]], fqdn := true }
def soaRec (s : Nat) : Rec := { name := exOrigin, rtype := T_SOA, cls := C_IN, ttl := 3600, rdata := .soa s 0 }
def nsRec (i : Nat) : Rec := { name := exOrigin, rtype := T_NS, cls := C_IN, ttl := 3600, rdata := .bytes [i] }
def aRec (l i ttl : Nat) : Rec := { name := nm l, rtype := T_A, cls := C_IN, ttl := ttl, rdata := .bytes [i] }
def cnameRec (l i ttl : Nat) : Rec := { name := nm l, rtype := T_CNAME, cls := C_IN, ttl := ttl, rdata := .bytes [i] }
def mkZone (recs : List Rec) : Zone := recs.foldl (fun z r => (upsert C_IN z r).1) []
def exZone (s : Nat) : Zone := mkZone [soaRec s, nsRec 1, nsRec 2, aRec 97 1 300, cnameRec 99 97 300]
def upd (us : List Rec) : Msg := { prereqs := [], updates := us }
def soaKey : Key := (exOrigin, T_SOA)

/-- the example zone is well-formed (so the hypotheses of the theorems above are satisfiable) -/
example : KInv exCfg (exZone 100) := kinv_of_check _ _ (by decide)

/-- an accepted, content-changing message: NOERROR, serial 100 → 101, invariant holds again -/
example : (update exCfg true (exZone 100) (upd [aRec 98 2 300])).2.2.1 = .ok true ∧
    serial (update exCfg true (exZone 100) (upd [aRec 98 2 300])).1 exOrigin = 101 ∧
    kinvCheck exCfg (update exCfg true (exZone 100) (upd [aRec 98 2 300])).1 = true := by decide

/-- `Faithful` is satisfiable by a non-trivial add, and `NoPanic` by a two-message history -/
example : Faithful exCfg (exZone 100) (aRec 98 2 300) where
  plain := fun _ => by decide
  types := fun _ => by decide
  soa := fun _ h => absurd h (by decide)
  dup := fun _ _ _ => by decide

example : NoPanic exCfg (exZone 100) [upd [aRec 98 2 300], upd [{ aRec 98 2 0 with cls := C_NONE }]] := by
  refine ⟨?_, ?_, trivial⟩
  · intro site h
    have e : (update exCfg true (exZone 100) (upd [aRec 98 2 300])).2.2.1 = .ok true := by decide
    rw [e] at h; cases h
  · intro site h
    have e : (update exCfg true (update exCfg true (exZone 100) (upd [aRec 98 2 300])).1
        (upd [{ aRec 98 2 0 with cls := C_NONE }])).2.2.1 = .ok true := by decide
    rw [e] at h; cases h

/-- a failing prerequisite (`b.e.` is not in use) rejects the message and nothing changes -/
example : (update exCfg true (exZone 100)
      { prereqs := [{ name := nm 98, rtype := T_ANY, cls := C_ANY, ttl := 0, rdata := .empty }],
        updates := [aRec 98 2 300] }).2.2.1 = .rc .nxDomain := by decide

/-! ### counter-examples — each is a corpus case replayed on the real code -/

/-- finding `soa-serial-increment-overflow`: at serial `u32::MAX` a content-changing update panics
(`serial += 1`, debug profile) after the SOA RRset was removed — the zone is left without SOA. -/
theorem soa_serial_increment_overflow_cex :
    (update exCfg true (exZone U32_MAX) (upd [aRec 98 2 300])).2.2.1 = .panic "soa:increment_serial:overflow" ∧
    soaRecord (update exCfg true (exZone U32_MAX) (upd [aRec 98 2 300])).1 exOrigin = none := by decide

/-- finding `soa-serial-plain-compare` (a): an SOA whose serial is 2³¹+5 ahead is, by RFC 1982,
*older*; the plain `<=` accepts it and the serial moves backwards in RFC 1982's order. -/
theorem soa_serial_plain_compare_cex :
    (update exCfg true (exZone 100) (upd [soaRec 2147483753])).2.2.1 = .ok true ∧
    serialLt 100 (serial (update exCfg true (exZone 100) (upd [soaRec 2147483753])).1 exOrigin) = false ∧
    rrsetOf (Rfc2136.stepRR true exCfg (exZone 100) (soaRec 2147483753)) soaKey = [soaRec 100] := by decide

/-- finding `soa-serial-plain-compare` (b): after a wrap-around the newer serial 5 is refused -/
theorem soa_serial_wrap_refused_cex :
    serialLt 4294967280 5 = true ∧
    (applyRR exCfg (exZone 4294967280) (soaRec 5)).1 = exZone 4294967280 ∧
    rrsetOf (Rfc2136.stepRR true exCfg (exZone 4294967280) (soaRec 5)) soaKey = [soaRec 5] := by decide

/-- finding `non-apex-soa-added`: an SOA RR for `a.e.` is added although there is no SOA there -/
theorem non_apex_soa_added_cex :
    rrsetOf (applyRR exCfg (exZone 100) { soaRec 7 with name := nm 97 }).1 (nm 97, T_SOA) ≠ [] ∧
    rrsetOf (Rfc2136.stepRR true exCfg (exZone 100) { soaRec 7 with name := nm 97 }) (nm 97, T_SOA) = [] := by
  decide

/-- finding `duplicate-rdata-ttl-not-replaced`: same RDATA, new TTL — RFC: replaced; code: ignored
(`Record == Record` does not look at the TTL, so the "identical" test always fires) -/
theorem duplicate_rdata_ttl_cex :
    rrsetOf (applyRR exCfg (exZone 100) (aRec 97 1 600)).1 (nm 97, T_A) = [aRec 97 1 300] ∧
    rrsetOf (Rfc2136.stepRR true exCfg (exZone 100) (aRec 97 1 600)) (nm 97, T_A) = [aRec 97 1 600] := by
  decide

/-- finding `identical-cname-readd-bumps-serial`: re-adding the CNAME that is already there
reports "updated" and bumps the serial although no record changed -/
theorem cname_readd_bumps_serial_cex :
    (update exCfg true (exZone 100) (upd [cnameRec 99 97 300])).2.2.1 = .ok true ∧
    serial (update exCfg true (exZone 100) (upd [cnameRec 99 97 300])).1 exOrigin = 101 ∧
    (update exCfg true (exZone 100) (upd [cnameRec 99 97 300])).1.erase soaKey = (exZone 100).erase soaKey := by
  decide

/-- the zone after `a.e. A` lost its only record by a class-NONE delete: the entry stays, empty -/
def ghostZone : Zone := (update exCfg true (exZone 100) (upd [{ aRec 97 1 0 with cls := C_NONE }])).1

/-- finding `emptied-rrset-left-in-zone` (a): the leftover entry blocks a CNAME the RFC would add -/
theorem emptied_rrset_blocks_cname_cex :
    ghostZone.get (nm 97, T_A) = some [] ∧
    rrsetOf (applyRR exCfg ghostZone (cnameRec 97 98 300)).1 (nm 97, T_CNAME) = [] ∧
    rrsetOf (Rfc2136.stepRR true exCfg ghostZone (cnameRec 97 98 300)) (nm 97, T_CNAME) = [cnameRec 97 98 300] := by
  decide

/-- finding `emptied-rrset-left-in-zone` (b): deleting the leftover bumps the serial -/
theorem emptied_rrset_bumps_serial_cex :
    let del : Rec := { name := nm 97, rtype := T_A, cls := C_ANY, ttl := 0, rdata := .empty }
    (update exCfg true ghostZone (upd [del])).2.2.1 = .ok true ∧
    serial ghostZone exOrigin = 101 ∧ serial (update exCfg true ghostZone (upd [del])).1 exOrigin = 102 ∧
    ∀ k ∈ ghostZone.map (·.1), k ≠ soaKey → rrsetOf (update exCfg true ghostZone (upd [del])).1 k = rrsetOf ghostZone k := by
  decide

/-- finding `prereq-uses-query-lookup`: "RRset exists (value independent)" for `c.e. A` passes
because the query-path lookup answers with the CNAME at `c.e.`; RFC 2136 §3.2.5: NXRRSET -/
theorem prereq_uses_query_lookup_cex :
    let p : Rec := { name := nm 99, rtype := T_A, cls := C_ANY, ttl := 0, rdata := .empty }
    verifyPrereqs exCfg (exZone 100) [p] = none ∧
    Rfc2136.prerequisites exCfg (exZone 100) [p] = some .nxRRSet := by decide

/-- finding `prereq-value-dependent-subset`: "RRset exists (value dependent)" with one of the two
apex NS passes (`any(rr == require)` per RR); RFC 2136 §3.2.3 wants set equality: NXRRSET -/
theorem prereq_value_subset_cex :
    let p : Rec := { nsRec 1 with ttl := 0 }
    verifyPrereqs exCfg (exZone 100) [p] = none ∧
    Rfc2136.prerequisites exCfg (exZone 100) [p] = some .nxRRSet := by decide

/-- finding `type-65535-escapes-cname-check`: `upsert`'s range scan ends *before* type 65535, so a
CNAME can be added beside a TYPE65535 RRset — `Inv.cnameAlone` (and `KInv.cname`) therefore carry
`t < 65535`, and without it the invariant is false for the code: -/
theorem type_65535_beside_cname_cex :
    let r1 : Rec := { name := nm 98, rtype := 65535, cls := C_IN, ttl := 300, rdata := .bytes [0] }
    let z := (update exCfg true (exZone 100) (upd [r1, cnameRec 98 97 300])).1
    rrsetOf z (nm 98, T_CNAME) ≠ [] ∧ rrsetOf z (nm 98, 65535) ≠ [] := by decide

/-- `ExactLookup` is satisfiable on the example zone (a host name), and the theorem then gives
RFC's NXRRSET for "RRset exists: a.e. TXT" -/
example : ExactLookup (exZone 100) (nm 97) 16 where
  noDeleg := by decide
  noAlias := by decide
  noWild := fun _ => Or.inr (by decide)

example : verifyPrereqs exCfg (exZone 100)
    [{ name := nm 97, rtype := 16, cls := C_ANY, ttl := 0, rdata := .empty }] = some .nxRRSet := by decide

end HickoryVerif.C12
