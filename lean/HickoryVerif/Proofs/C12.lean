/-
C12 — Dynamic update applies RFC 2136 semantics and keeps the zone well-formed.

Property theorems about the model of `SqliteZoneHandler::{verify_prerequisites, pre_scan,
update_records, update}` (`Model/Update.lean`, `Model/Zone.lean`) against the RFC transcription
and the zone invariants of `Spec/Rfc2136.lean`.

The model mirrors the code *after* the seven repairs this check led to (23d5f1e wrapping serial
increment, aeeb945 RFC 1982 SOA comparison, 4a1b96f SOA add away from the origin ignored, 24305ec
identical CNAME is not an update, 4cf469c duplicate RDATA replaces the TTL, d90c741 emptied RRset
removed, 1375dd7 inclusive range in `upsert`).  The `decide` counter-examples of those findings
are now regression `example`s showing the repaired behaviour (§7).  Where the code still does not
satisfy a clause (prerequisites: two open findings) the full statement is kept in a comment, a
`…_partial` theorem is proved under the explicit decidable hypothesis the proof forced, and a
concrete counter-example outside the hypothesis is proved by `decide`.
-/
import HickoryVerif.Lemmas.RecordSet
import HickoryVerif.Spec.Rfc2136

namespace HickoryVerif.C12
open HickoryVerif HickoryVerif.Upd HickoryVerif.Upd.Zone HickoryVerif.Spec
open HickoryVerif.Spec.Rfc2136 (rrsetOf Inv OnlyApexSoa serialLt)

/-! ## 1. A rejected message changes nothing -/

/-- `update` answers from the authorisation, prerequisite or prescan stage ⇒ the zone is the one
it was given (whatever the answer). -/
theorem reject_unchanged (c : Cfg) (a : Bool) (z : Zone) (m : Msg)
    (h : (update c a z m).2.1 ≠ .apply) : (update c a z m).1 = z := by
  cases a with
  | false => simp [update]
  | true =>
    cases h1 : verifyPrereqs c z m.prereqs with
    | some e => simp [update, h1]
    | none =>
      cases h2 : preScan c m.updates with
      | some e => simp [update, h1, h2]
      | none => simp [update, h1, h2] at h

/-! branch equations of `applyRR` -/

theorem applyRR_zone_skip {c : Cfg} {z : Zone} {rr : Rec} (h : rr.cls = c.zclass)
    (hs : rr.rtype = T_SOA ∧ rr.name.toLowercase ≠ c.origin) : applyRR c z rr = (z, some false) := by
  unfold applyRR; rw [if_pos h, if_pos hs]

theorem applyRR_zone {c : Cfg} {z : Zone} {rr : Rec} (h : rr.cls = c.zclass)
    (hs : ¬(rr.rtype = T_SOA ∧ rr.name.toLowercase ≠ c.origin)) :
    applyRR c z rr = ((upsert c.zclass z rr).1, some (upsert c.zclass z rr).2) := by
  unfold applyRR; rw [if_pos h, if_neg hs]

theorem applyRR_any_skip {c : Cfg} {z : Zone} {rr : Rec} (hz : rr.cls ≠ c.zclass) (ha : rr.cls = C_ANY)
    (h : (rr.rtype = T_SOA ∨ rr.rtype = T_NS) ∧ rr.name.toLowercase = c.origin) :
    applyRR c z rr = (z, some false) := by
  unfold applyRR; rw [if_neg hz, if_pos ha, if_pos h]

theorem applyRR_any_any {c : Cfg} {z : Zone} {rr : Rec} (hz : rr.cls ≠ c.zclass) (ha : rr.cls = C_ANY)
    (h : ¬((rr.rtype = T_SOA ∨ rr.rtype = T_NS) ∧ rr.name.toLowercase = c.origin)) (h2 : rr.rtype = T_ANY) :
    applyRR c z rr = (z.filter fun e => anyKeep c rr e.1,
       some (decide ((z.filter fun e => anyKeep c rr e.1).length < z.length))) := by
  unfold applyRR; rw [if_neg hz, if_pos ha, if_neg h, if_pos h2]

theorem applyRR_any_rrset {c : Cfg} {z : Zone} {rr : Rec} (hz : rr.cls ≠ c.zclass) (ha : rr.cls = C_ANY)
    (h : ¬((rr.rtype = T_SOA ∨ rr.rtype = T_NS) ∧ rr.name.toLowercase = c.origin)) (h2 : rr.rtype ≠ T_ANY)
    (he : rr.isEmptyData = true) :
    applyRR c z rr = (z.erase rr.key, some (z.get rr.key).isSome) := by
  unfold applyRR; rw [if_neg hz, if_pos ha, if_neg h, if_neg h2, if_pos he]

theorem applyRR_any_bad {c : Cfg} {z : Zone} {rr : Rec} (hz : rr.cls ≠ c.zclass) (ha : rr.cls = C_ANY)
    (h : ¬((rr.rtype = T_SOA ∨ rr.rtype = T_NS) ∧ rr.name.toLowercase = c.origin)) (h2 : rr.rtype ≠ T_ANY)
    (he : ¬ rr.isEmptyData = true) : applyRR c z rr = (z, none) := by
  unfold applyRR; rw [if_neg hz, if_pos ha, if_neg h, if_neg h2, if_neg he]

/-- class NONE, the RRset exists and `remove` deleted something: the shortened set is written
back, or — if it is empty now — its entry is removed -/
theorem applyRR_none_del {c : Cfg} {z : Zone} {rr : Rec} {rs : RSet} (hz : rr.cls ≠ c.zclass)
    (ha : rr.cls ≠ C_ANY) (hn : rr.cls = C_NONE) (hg : z.get rr.key = some rs)
    (hd : (rsRemove rs rr).2 = true) :
    applyRR c z rr =
      (if (rsRemove rs rr).1 = [] then z.erase rr.key else z.set rr.key (rsRemove rs rr).1, some true) := by
  unfold applyRR; rw [if_neg hz, if_neg ha, if_pos hn, hg]; simp only; rw [if_pos hd]

theorem applyRR_none_keep {c : Cfg} {z : Zone} {rr : Rec} {rs : RSet} (hz : rr.cls ≠ c.zclass)
    (ha : rr.cls ≠ C_ANY) (hn : rr.cls = C_NONE) (hg : z.get rr.key = some rs)
    (hd : ¬ (rsRemove rs rr).2 = true) : applyRR c z rr = (z, some false) := by
  unfold applyRR; rw [if_neg hz, if_neg ha, if_pos hn, hg]; simp only; rw [if_neg hd]

theorem applyRR_none_none {c : Cfg} {z : Zone} {rr : Rec} (hz : rr.cls ≠ c.zclass)
    (ha : rr.cls ≠ C_ANY) (hn : rr.cls = C_NONE) (hg : z.get rr.key = none) :
    applyRR c z rr = (z, some false) := by
  unfold applyRR; rw [if_neg hz, if_neg ha, if_pos hn, hg]

theorem applyRR_other {c : Cfg} {z : Zone} {rr : Rec} (hz : rr.cls ≠ c.zclass) (ha : rr.cls ≠ C_ANY)
    (hn : rr.cls ≠ C_NONE) : applyRR c z rr = (z, none) := by
  unfold applyRR; rw [if_neg hz, if_neg ha, if_neg hn]

/-- An RR the prescan lets through never makes the `update_records` loop bail out. -/
theorem applyRR_some_of_prescan (c : Cfg) (z : Zone) (rr : Rec) (h : Upd.prescanOne c rr = none) :
    ∃ u, (applyRR c z rr).2 = some u := by
  unfold Upd.prescanOne at h
  by_cases hz : rr.cls = c.zclass
  · by_cases hs : rr.rtype = T_SOA ∧ rr.name.toLowercase ≠ c.origin
    · rw [applyRR_zone_skip hz hs]; exact ⟨_, rfl⟩
    · rw [applyRR_zone hz hs]; exact ⟨_, rfl⟩
  · by_cases ha : rr.cls = C_ANY
    · by_cases h1 : (rr.rtype = T_SOA ∨ rr.rtype = T_NS) ∧ rr.name.toLowercase = c.origin
      · rw [applyRR_any_skip hz ha h1]; exact ⟨_, rfl⟩
      · by_cases h2 : rr.rtype = T_ANY
        · rw [applyRR_any_any hz ha h1 h2]; exact ⟨_, rfl⟩
        · by_cases he : rr.isEmptyData = true
          · rw [applyRR_any_rrset hz ha h1 h2 he]; exact ⟨_, rfl⟩
          · exfalso
            rw [if_neg hz, if_pos ha] at h
            have he' : (!rr.isEmptyData) = true := by simpa using he
            rw [if_pos he'] at h
            split at h <;> first | (simp at h; done) | (split at h <;> simp at h)
    · by_cases hn : rr.cls = C_NONE
      · cases hg : z.get rr.key with
        | none => rw [applyRR_none_none hz ha hn hg]; exact ⟨_, rfl⟩
        | some rs =>
          by_cases hd : (rsRemove rs rr).2 = true
          · rw [applyRR_none_del hz ha hn hg hd]; exact ⟨_, rfl⟩
          · rw [applyRR_none_keep hz ha hn hg hd]; exact ⟨_, rfl⟩
      · exfalso
        rw [if_neg hz, if_neg ha, if_neg hn] at h
        split at h <;> simp at h

theorem applyAll_some_of_prescan (c : Cfg) (recs : List Rec) (h : preScan c recs = none) :
    ∀ (z : Zone) (u : Bool), ∃ b, (applyAll c z recs u).2 = some b := by
  induction recs with
  | nil => intro z u; exact ⟨u, rfl⟩
  | cons rr rest ih =>
    intro z u
    unfold preScan at h
    split at h
    · simp at h
    · rename_i h1
      obtain ⟨b, hb⟩ := applyRR_some_of_prescan c z rr h1
      unfold applyAll
      split
      · rename_i z' u' heq
        exact ih h z' (u' || u)
      · rename_i z' heq
        rw [heq] at hb; simp at hb

/-- After a successful prescan `update_records` never answers FORMERR: its only error answer left
is SERVFAIL (SOA missing after the increment) — `update_rc_unchanged` shows that cannot happen on
a well-formed zone. -/
theorem update_records_no_formerr (c : Cfg) (z : Zone) (recs : List Rec) (auto : Bool)
    (h : preScan c recs = none) : (updateRecords c z recs auto).2.1 ≠ .rc .formErr := by
  obtain ⟨b, hb⟩ := applyAll_some_of_prescan c recs h z false
  unfold updateRecords
  split
  · rename_i z1 heq; rw [heq] at hb; simp at hb
  · split
    · simp
    · split <;> try simp
      split <;> simp

/-- The half-way failure of `update_records` itself (reachable only *without* the prescan, i.e. by
calling `update_records` directly): the second RR is refused with FORMERR after the first was
applied, and the zone keeps it. -/
example :
    let c : Cfg := { origin := { labels := [[101]], fqdn := true } }
    let a : Rec := { name := { labels := [[97], [101]], fqdn := true }, rtype := 1, cls := 1, ttl := 5, rdata := .bytes [1] }
    let bad : Rec := { a with cls := 3 }
    (updateRecords c [] [a, bad] true).2.1 = .rc .formErr ∧ (updateRecords c [] [a, bad] true).1 ≠ [] := by
  decide

/-! ## 2. The zone invariants are preserved by every message — unconditionally

`KInv` is the form of the invariant the code maintains (it decides on map keys); it implies the
property's `Inv` (`Spec/Rfc2136.lean`).  Since the repairs it needs no side condition: there is no
panic left (`no_panic`), no map entry is ever empty, and no SOA exists away from the apex. -/

structure KInv (c : Cfg) (z : Zone) : Prop where
  soa : ∃ r s rest, z.get (c.origin, T_SOA) = some [r] ∧ r.rdata = .soa s rest ∧
    r.key = (c.origin, T_SOA) ∧ r.cls = c.zclass
  noOtherSoa : ∀ name, name ≠ c.origin → z.get (name, T_SOA) = none
  ns : ∃ rs, z.get (c.origin, T_NS) = some rs ∧ rs ≠ []
  cname : ∀ name t, (z.get (name, T_CNAME)).isSome → t ≠ T_CNAME → t ≠ T_NSEC → t ≠ T_NSEC3 →
    z.get (name, t) = none
  nodup : (z.map (·.1)).Nodup
  /-- every map entry holds at least one record (an emptied RRset is removed, d90c741) -/
  noEmpty : ∀ e ∈ z, e.2 ≠ []
  /-- the RDATA inside an RRset are pairwise distinct -/
  distinct : ∀ e ∈ z, Distinct e.2
  /-- a CNAME / ANAME RRset has one record (`assert!(self.records.len() <= 1)`) -/
  single : ∀ e ∈ z, (e.1.2 = T_CNAME ∨ e.1.2 = T_ANAME) → e.2.length ≤ 1

theorem KInv.toInv {c : Cfg} {z : Zone} (h : KInv c z) : Inv c z where
  apexSoa := by
    obtain ⟨r, s, rest, hg, hr, _⟩ := h.soa
    exact ⟨r, s, rest, by simp [rrsetOf, hg], hr⟩
  noOtherSoa := by
    intro name hne; simp [rrsetOf, h.noOtherSoa name hne]
  apexNs := by
    obtain ⟨rs, hg, hne⟩ := h.ns
    simp [rrsetOf, hg, hne]
  cnameAlone := by
    intro name t hc h1 h2 h3
    have : (z.get (name, T_CNAME)).isSome := by
      cases hg : z.get (name, T_CNAME) with
      | none => simp [rrsetOf, hg] at hc
      | some v => rfl
    simp [rrsetOf, h.cname name t this h1 h2 h3]
  nodup := h.nodup

theorem blocked_false {z : Zone} {r : Rec} (h : upsertBlocked z r = false) (t : Nat)
    (ht : t ∈ z.typesAt r.name.toLowercase) :
    (!isNsec r.rtype t && labelDisallow r.rtype t T_CNAME) = false := by
  unfold upsertBlocked at h
  rw [List.any_eq_false] at h
  simpa using h t ht

/-- `insert` of a CNAME / ANAME leaves at most one record -/
theorem rsInsert_single (rs : RSet) (r : Rec) (ht : r.rtype = T_CNAME ∨ r.rtype = T_ANAME)
    (hl : rs.length ≤ 1) : (rsInsert rs r).1.length ≤ 1 := by
  unfold rsInsert insertPre
  have h1 : ¬ r.rtype = T_SOA := by rcases ht with h | h <;> (rw [h]; decide)
  rw [if_neg h1, if_pos ht]
  cases rs with
  | nil => simp [replaceDup]
  | cons ex rest =>
    by_cases hid : (ex.eqv r && ex.ttl == r.ttl) = true
    · simp only [hid, if_true]; simpa using hl
    · simp [hid, replaceDup]

/-- the facts about sets that only depend on membership survive every way the loop rewrites the map -/
theorem kinv_mem_set {c : Cfg} {z : Zone} (h : KInv c z) (k : Key) (v : RSet) (hv : v ≠ [])
    (hd : Distinct v) (hs : (k.2 = T_CNAME ∨ k.2 = T_ANAME) → v.length ≤ 1) :
    (∀ e ∈ z.set k v, e.2 ≠ []) ∧ (∀ e ∈ z.set k v, Distinct e.2) ∧
    (∀ e ∈ z.set k v, (e.1.2 = T_CNAME ∨ e.1.2 = T_ANAME) → e.2.length ≤ 1) := by
  refine ⟨?_, ?_, ?_⟩ <;> intro e he <;> rcases mem_set he with rfl | ⟨hm, _⟩
  · exact hv
  · exact h.noEmpty e hm
  · exact hd
  · exact h.distinct e hm
  · exact hs
  · exact h.single e hm

theorem kinv_upsert (c : Cfg) (z : Zone) (rr : Rec) (h : KInv c z)
    (hns : ¬(rr.rtype = T_SOA ∧ rr.name.toLowercase ≠ c.origin)) : KInv c (upsert c.zclass z rr).1 := by
  rcases upsert_cases c.zclass z rr with hu | ⟨hcls, hb, v, hi, hu⟩
  · rw [hu]; exact h
  · rw [hu]
    -- the set the record is inserted into
    have hold : Distinct ((z.get rr.key).getD []) ∧
        ((rr.rtype = T_CNAME ∨ rr.rtype = T_ANAME) → ((z.get rr.key).getD []).length ≤ 1) := by
      cases hg : z.get rr.key with
      | none => exact ⟨List.Pairwise.nil, fun _ => by simp⟩
      | some rs => exact ⟨h.distinct _ (get_mem hg), fun ht => h.single _ (get_mem hg) ht⟩
    have hv1 : (rsInsert ((z.get rr.key).getD []) rr).1 = v := by rw [hi]
    have hv2 : (rsInsert ((z.get rr.key).getD []) rr).2 = true := by rw [hi]
    have hvne : v ≠ [] := by rw [← hv1]; exact rsInsert_ne_nil _ rr hv2
    have hvd : Distinct v := by rw [← hv1]; exact rsInsert_distinct _ rr hold.1
    have hvs : (rr.key.2 = T_CNAME ∨ rr.key.2 = T_ANAME) → v.length ≤ 1 := by
      intro ht; rw [← hv1]; exact rsInsert_single _ rr ht (hold.2 ht)
    obtain ⟨m1, m2, m3⟩ := kinv_mem_set h rr.key v hvne hvd hvs
    refine ⟨?_, ?_, ?_, ?_, nodup_set z rr.key v h.nodup, m1, m2, m3⟩
    · obtain ⟨r, s, rest, hg, hr, hrk, hrc⟩ := h.soa
      by_cases hk : (c.origin, T_SOA) = rr.key
      · rw [get_set, if_pos hk]
        have ht : rr.rtype = T_SOA := by
          have := congrArg Prod.snd hk; simpa [Rec.key] using this.symm
        rw [← hk, hg] at hi
        simp only [Option.getD_some] at hi
        rcases rsInsert_soa r rr s rest ht hr with h1 | ⟨sn, rest', hd, _, h1⟩
        · rw [h1] at hi; cases hi
        · rw [h1] at hi
          have : v = [rr] := by cases hi; rfl
          exact ⟨rr, sn, rest', by rw [this], hd, hk.symm, hcls.symm⟩
      · rw [get_set, if_neg hk]; exact ⟨r, s, rest, hg, hr, hrk, hrc⟩
    · intro name hne
      rw [get_set]
      split
      · rename_i hk
        exfalso; apply hns
        have h1 := congrArg Prod.fst hk
        have h2 := congrArg Prod.snd hk
        simp only [Rec.key] at h1 h2
        exact ⟨h2.symm, by rw [← h1]; exact hne⟩
      · exact h.noOtherSoa name hne
    · obtain ⟨rs, hg, hne⟩ := h.ns
      by_cases hk : (c.origin, T_NS) = rr.key
      · rw [get_set, if_pos hk]; exact ⟨v, rfl, hvne⟩
      · rw [get_set, if_neg hk]; exact ⟨rs, hg, hne⟩
    · intro name t hc h1 h2 h3
      rw [get_set] at hc ⊢
      by_cases hkc : (name, T_CNAME) = rr.key
      · -- the upsert adds / rewrites the CNAME at `name`
        have hn : name = rr.name.toLowercase := by
          have := congrArg Prod.fst hkc; simpa [Rec.key] using this
        have ht : rr.rtype = T_CNAME := by
          have := congrArg Prod.snd hkc; simpa [Rec.key] using this.symm
        have hne : (name, t) ≠ rr.key := by
          intro heq; rw [← hkc] at heq
          exact h1 (by have := congrArg Prod.snd heq; simpa using this)
        rw [if_neg hne]
        cases hg : z.get (name, t) with
        | none => rfl
        | some w =>
          exfalso
          have hm := Zone.mem_typesAt z name t w hg
          rw [hn] at hm
          have := blocked_false hb t hm
          rw [ht] at this
          simp [isNsec, labelDisallow, h1, h2, h3] at this
          revert this; decide
      · rw [if_neg hkc] at hc
        by_cases hkt : (name, t) = rr.key
        · -- a non-CNAME type is added at a name that holds a CNAME key: `upsert` refuses
          exfalso
          have hn : name = rr.name.toLowercase := by
            have := congrArg Prod.fst hkt; simpa [Rec.key] using this
          have ht : rr.rtype = t := by
            have := congrArg Prod.snd hkt; simpa [Rec.key] using this.symm
          obtain ⟨w, hw⟩ := Option.isSome_iff_exists.mp hc
          have hm := Zone.mem_typesAt z name T_CNAME w hw
          rw [hn] at hm
          have := blocked_false hb T_CNAME hm
          rw [ht] at this
          simp [isNsec, labelDisallow, h1, h2, h3] at this
          revert this; decide
        · rw [if_neg hkt]; exact h.cname name t hc h1 h2 h3

theorem key_ne_of_not_skip {c : Cfg} {rr : Rec} {t : Nat} (ht : t = T_SOA ∨ t = T_NS)
    (h : ¬((rr.rtype = T_SOA ∨ rr.rtype = T_NS) ∧ rr.name.toLowercase = c.origin)) :
    (c.origin, t) ≠ rr.key := by
  intro heq
  apply h
  have h1 := congrArg Prod.fst heq
  have h2 := congrArg Prod.snd heq
  simp only [Rec.key] at h1 h2
  refine ⟨?_, h1.symm⟩
  rcases ht with ht | ht
  · left; rw [← h2, ht]
  · right; rw [← h2, ht]

/-- membership-only facts pass to any sub-map -/
theorem kinv_mem_sub {c : Cfg} {z z' : Zone} (h : KInv c z) (hsub : ∀ e ∈ z', e ∈ z) :
    (∀ e ∈ z', e.2 ≠ []) ∧ (∀ e ∈ z', Distinct e.2) ∧
    (∀ e ∈ z', (e.1.2 = T_CNAME ∨ e.1.2 = T_ANAME) → e.2.length ≤ 1) :=
  ⟨fun e he => h.noEmpty e (hsub e he), fun e he => h.distinct e (hsub e he),
   fun e he => h.single e (hsub e he)⟩

/-- every kind of Update RR keeps `KInv` -/
theorem kinv_applyRR (c : Cfg) (z : Zone) (rr : Rec) (h : KInv c z) : KInv c (applyRR c z rr).1 := by
  by_cases hz : rr.cls = c.zclass
  · by_cases hs : rr.rtype = T_SOA ∧ rr.name.toLowercase ≠ c.origin
    · rw [applyRR_zone_skip hz hs]; exact h
    · rw [applyRR_zone hz hs]; exact kinv_upsert c z rr h hs
  · by_cases ha : rr.cls = C_ANY
    · by_cases h1 : (rr.rtype = T_SOA ∨ rr.rtype = T_NS) ∧ rr.name.toLowercase = c.origin
      · rw [applyRR_any_skip hz ha h1]; exact h
      · by_cases h2 : rr.rtype = T_ANY
        · rw [applyRR_any_any hz ha h1 h2]
          have hkeep : ∀ t, (t = T_SOA ∨ t = T_NS) → anyKeep c rr (c.origin, t) = true := by
            intro t ht; simp [anyKeep, ht]
          obtain ⟨m1, m2, m3⟩ := kinv_mem_sub (z' := z.filter fun e => anyKeep c rr e.1) h
            (fun e he => (List.mem_filter.mp he).1)
          refine ⟨?_, ?_, ?_, ?_, nodup_filter z _ h.nodup, m1, m2, m3⟩
          · rw [get_filter_key (anyKeep c rr), hkeep _ (Or.inl rfl)]; exact h.soa
          · intro name hne
            rw [get_filter_key (anyKeep c rr), h.noOtherSoa name hne]; simp
          · rw [get_filter_key (anyKeep c rr), hkeep _ (Or.inr rfl)]; exact h.ns
          · intro name t hc h1 h2 h3
            rw [get_filter_key (anyKeep c rr)] at hc ⊢
            split at hc
            · rw [h.cname name t hc h1 h2 h3]; simp
            · simp at hc
        · by_cases he : rr.isEmptyData = true
          · rw [applyRR_any_rrset hz ha h1 h2 he]
            obtain ⟨m1, m2, m3⟩ := kinv_mem_sub (z' := z.erase rr.key) h (fun e he => (mem_erase he).1)
            refine ⟨?_, ?_, ?_, ?_, nodup_erase z _ h.nodup, m1, m2, m3⟩
            · rw [get_erase, if_neg (key_ne_of_not_skip (Or.inl rfl) h1)]; exact h.soa
            · intro name hne
              rw [get_erase, h.noOtherSoa name hne]; simp
            · rw [get_erase, if_neg (key_ne_of_not_skip (Or.inr rfl) h1)]; exact h.ns
            · intro name t hc h1 h2 h3
              rw [get_erase] at hc ⊢
              split at hc
              · simp at hc
              · rw [h.cname name t hc h1 h2 h3]; simp
          · rw [applyRR_any_bad hz ha h1 h2 he]; exact h
    · by_cases hn : rr.cls = C_NONE
      · cases hg : z.get rr.key with
        | none => rw [applyRR_none_none hz ha hn hg]; exact h
        | some rs =>
          by_cases hrem : (rsRemove rs rr).2 = true
          · rw [applyRR_none_del hz ha hn hg hrem]
            have hnsoa : (c.origin, T_SOA) ≠ rr.key := by
              intro hk
              have ht : rr.rtype = T_SOA := by
                have := congrArg Prod.snd hk; simpa [Rec.key] using this.symm
              rw [rsRemove_soa rs rr ht] at hrem; cases hrem
            have hnsoa' : ∀ name, (name, T_SOA) ≠ rr.key := by
              intro name hk
              have ht : rr.rtype = T_SOA := by
                have := congrArg Prod.snd hk; simpa [Rec.key] using this.symm
              rw [rsRemove_soa rs rr ht] at hrem; cases hrem
            have hrd : Distinct rs := h.distinct _ (get_mem hg)
            by_cases hnil : (rsRemove rs rr).1 = []
            · -- the RRset is gone
              simp only [hnil, if_true]
              obtain ⟨m1, m2, m3⟩ := kinv_mem_sub (z' := z.erase rr.key) h (fun e he => (mem_erase he).1)
              refine ⟨?_, ?_, ?_, ?_, nodup_erase z _ h.nodup, m1, m2, m3⟩
              · rw [get_erase, if_neg hnsoa]; exact h.soa
              · intro name hne
                rw [get_erase, h.noOtherSoa name hne]; simp
              · obtain ⟨ns, hgn, hne⟩ := h.ns
                have hk : (c.origin, T_NS) ≠ rr.key := by
                  intro hk
                  have ht : rr.rtype = T_NS := by
                    have := congrArg Prod.snd hk; simpa [Rec.key] using this.symm
                  have hrs : ns = rs := by rw [← hk, hgn] at hg; exact Option.some.inj hg
                  rw [← hrs] at hnil hrd
                  exact rsRemove_ns_ne_nil ns rr ht hne hrd hnil
                rw [get_erase, if_neg hk]; exact ⟨ns, hgn, hne⟩
              · intro name t hc h1 h2 h3
                rw [get_erase] at hc ⊢
                split at hc
                · simp at hc
                · rw [h.cname name t hc h1 h2 h3]; simp
            · simp only [hnil, if_false]
              have hsingle : (rr.key.2 = T_CNAME ∨ rr.key.2 = T_ANAME) → (rsRemove rs rr).1.length ≤ 1 := by
                intro ht
                have hl := h.single _ (get_mem hg) ht
                have : (rsRemove rs rr).1.length ≤ rs.length := by
                  unfold rsRemove
                  split
                  · exact Nat.le_refl _
                  · split
                    · exact Nat.le_refl _
                    · simp only; split
                      · exact List.length_filter_le _ _
                      · exact Nat.le_refl _
                exact Nat.le_trans this hl
              obtain ⟨m1, m2, m3⟩ := kinv_mem_set h rr.key _ hnil (rsRemove_distinct rs rr hrd) hsingle
              refine ⟨?_, ?_, ?_, ?_, nodup_set z _ _ h.nodup, m1, m2, m3⟩
              · rw [get_set, if_neg hnsoa]; exact h.soa
              · intro name hne
                rw [get_set, if_neg (hnsoa' name)]; exact h.noOtherSoa name hne
              · obtain ⟨ns, hgn, hne⟩ := h.ns
                by_cases hk : (c.origin, T_NS) = rr.key
                · rw [get_set, if_pos hk]; exact ⟨_, rfl, hnil⟩
                · rw [get_set, if_neg hk]; exact ⟨ns, hgn, hne⟩
              · intro name t hc h1 h2 h3
                rw [get_set] at hc ⊢
                have hc' : (z.get (name, T_CNAME)).isSome = true := by
                  split at hc
                  · rename_i heq; rw [heq, hg]; rfl
                  · exact hc
                have := h.cname name t hc' h1 h2 h3
                split
                · rename_i heq; rw [heq, hg] at this; cases this
                · exact this
          · rw [applyRR_none_keep hz ha hn hg hrem]; exact h
      · rw [applyRR_other hz ha hn]; exact h

theorem kinv_applyAll (c : Cfg) (recs : List Rec) : ∀ (z : Zone) (u : Bool), KInv c z →
    KInv c (applyAll c z recs u).1 := by
  induction recs with
  | nil => intro z u h; exact h
  | cons rr rest ih =>
    intro z u h
    have hs := kinv_applyRR c z rr h
    unfold applyAll
    split
    · rename_i z' u' heq; rw [heq] at hs; exact ih z' _ hs
    · rename_i z' heq; rw [heq] at hs; exact hs

/-- at the apex of a well-formed zone nothing blocks an SOA upsert — also not after the SOA entry
itself was taken out (`increment_soa_serial`) -/
theorem apex_soa_not_blocked (c : Cfg) (z z' : Zone) (h : KInv c z)
    (hsub : ∀ k, (z'.get k).isSome = true → (z.get k).isSome = true)
    (r : Rec) (hk : r.key = (c.origin, T_SOA)) : upsertBlocked z' r = false := by
  obtain ⟨r0, _, _, hg, _⟩ := h.soa
  have hname : r.name.toLowercase = c.origin := by
    have := congrArg Prod.fst hk; simpa [Rec.key] using this
  have hty : r.rtype = T_SOA := by
    have := congrArg Prod.snd hk; simpa [Rec.key] using this
  unfold upsertBlocked
  rw [List.any_eq_false]
  intro t ht
  rw [hname] at ht
  rw [hty]
  have hsome := hsub _ (Zone.get_of_mem_typesAt _ _ _ ht)
  by_cases htc : t = T_CNAME
  · exfalso
    subst htc
    have := h.cname c.origin T_SOA hsome (by decide) (by decide) (by decide)
    rw [hg] at this; cases this
  · have h65 : (T_SOA == T_CNAME) = false := by decide
    have htc' : (t == T_CNAME) = false := by simpa using htc
    simp [labelDisallow, h65, htc']

/-- `increment_soa_serial` on a well-formed zone: the SOA record with `serial.wrapping_add(1)` in
place of the old one; never a panic. -/
theorem increment_spec (c : Cfg) (z : Zone) (h : KInv c z) :
    ∃ r s rest, z.get (c.origin, T_SOA) = some [r] ∧ r.rdata = .soa s rest ∧
      incrementSoaSerial c.zclass c.origin z =
        (z.set (c.origin, T_SOA) [{ r with rdata := .soa ((s + 1) % 4294967296) rest }],
         .ok ((s + 1) % 4294967296)) := by
  obtain ⟨r, s, rest, hg, hr, hk, hcl⟩ := h.soa
  refine ⟨r, s, rest, hg, hr, ?_⟩
  unfold incrementSoaSerial
  simp only [hg, hr]
  have hkey : ({ r with rdata := RData.soa ((s + 1) % 4294967296) rest } : Rec).key = (c.origin, T_SOA) := hk
  have hb := apex_soa_not_blocked c z (z.erase (c.origin, T_SOA)) h
    (fun k hs => by rw [get_erase] at hs; split at hs; simp at hs; exact hs) _ hkey
  have hup : upsert c.zclass (z.erase (c.origin, T_SOA)) { r with rdata := .soa ((s + 1) % 4294967296) rest } =
      (z.set (c.origin, T_SOA) [{ r with rdata := .soa ((s + 1) % 4294967296) rest }], true) := by
    unfold upsert
    rw [if_neg (by simp [hcl]), hb]
    simp only [Bool.false_eq_true, if_false, hkey, get_erase_self, rsInsert_nil]
    unfold Zone.set
    rw [erase_erase]
  rw [hup]

theorem kinv_set_soa (c : Cfg) (z : Zone) (h : KInv c z) (r' : Rec) (s rest : Nat)
    (hr : r'.rdata = .soa s rest) (hk : r'.key = (c.origin, T_SOA)) (hc : r'.cls = c.zclass) :
    KInv c (z.set (c.origin, T_SOA) [r']) := by
  obtain ⟨m1, m2, m3⟩ := kinv_mem_set h (c.origin, T_SOA) [r'] (by simp) (List.pairwise_singleton _ _)
    (fun _ => by simp)
  have hne' : ∀ name t, t ≠ T_SOA → (name, t) ≠ (c.origin, T_SOA) := by
    intro name t ht h; exact ht (congrArg Prod.snd h)
  refine ⟨⟨r', s, rest, by rw [get_set, if_pos rfl], hr, hk, hc⟩, ?_, ?_, ?_, nodup_set z _ _ h.nodup, m1, m2, m3⟩
  · intro name hne
    have : (name, T_SOA) ≠ (c.origin, T_SOA) := fun h => hne (congrArg Prod.fst h)
    rw [get_set, if_neg this]; exact h.noOtherSoa name hne
  · obtain ⟨ns, hgn, hne⟩ := h.ns
    rw [get_set, if_neg (hne' _ _ (by decide))]; exact ⟨ns, hgn, hne⟩
  · intro name t hcn h1 h2 h3
    obtain ⟨r, _, _, hg, _⟩ := h.soa
    rw [get_set] at hcn ⊢
    have hc' : (z.get (name, T_CNAME)).isSome = true := by
      rw [if_neg (hne' _ _ (by decide))] at hcn; exact hcn
    have := h.cname name t hc' h1 h2 h3
    split
    · rename_i heq; rw [heq, hg] at this; cases this
    · exact this

theorem serial_of_soa {c : Cfg} {z : Zone} {r : Rec} {s rest : Nat}
    (hg : z.get (c.origin, T_SOA) = some [r]) (hr : r.rdata = .soa s rest) : serial z c.origin = s := by
  simp [serial, soaRecord, hg, hr]

/-- What `update_records(.., true)` does on a well-formed zone once the loop has run (`z1`, `updated`):
nothing more; or the serial bump, leaving a well-formed zone whose serial is
`(serial z1 + 1) mod 2³²` and handing that SOA record to the journal.  No other outcome. -/
theorem updateRecords_spec (c : Cfg) (z : Zone) (recs : List Rec) (h : KInv c z) (updated : Bool)
    (hl : (applyAll c z recs false).2 = some updated) :
    (updated = false ∧ updateRecords c z recs true = ((applyAll c z recs false).1, .ok false, none)) ∨
    (updated = true ∧
      ∃ soa, updateRecords c z recs true =
        (((applyAll c z recs false).1).set (c.origin, T_SOA) [soa], .ok true, some soa) ∧
        KInv c (((applyAll c z recs false).1).set (c.origin, T_SOA) [soa]) ∧
        serial (((applyAll c z recs false).1).set (c.origin, T_SOA) [soa]) c.origin =
          (serial (applyAll c z recs false).1 c.origin + 1) % 4294967296) := by
  have hk1 := kinv_applyAll c recs z false h
  generalize hz1 : applyAll c z recs false = res at hl hk1
  obtain ⟨z1, o⟩ := res
  simp only at hl hk1 ⊢
  subst hl
  unfold updateRecords
  rw [hz1]
  cases updated with
  | false => left; exact ⟨rfl, by simp⟩
  | true =>
    right
    obtain ⟨r, s, rest, hg, hr, hinc⟩ := increment_spec c z1 hk1
    obtain ⟨_, _, _, hg', _, hkey, hcls⟩ := hk1.soa
    have hser : serial z1 c.origin = s := serial_of_soa hg hr
    have hrk : r.key = (c.origin, T_SOA) ∧ r.cls = c.zclass := by
      rw [hg] at hg'
      have : [r] = [_] := Option.some.inj hg'
      cases this
      exact ⟨hkey, hcls⟩
    let soa : Rec := { r with rdata := .soa ((s + 1) % 4294967296) rest }
    have hk2 : KInv c (z1.set (c.origin, T_SOA) [soa]) :=
      kinv_set_soa c z1 hk1 soa _ rest rfl hrk.1 hrk.2
    refine ⟨rfl, soa, ?_, hk2, ?_⟩
    · have hsr : soaRecord (z1.set (c.origin, T_SOA) [soa]) c.origin = some soa := by
        simp [soaRecord, get_set]
      simp [hinc, soa, hsr]
    · rw [hser]
      exact serial_of_soa (r := soa) (by rw [get_set, if_pos rfl]) rfl

/-- **inv_preserved** (full strength) — the zone after any message is well-formed again. -/
theorem inv_preserved (c : Cfg) (z : Zone) (m : Msg) (h : KInv c z) : KInv c (update c true z m).1 := by
  unfold update
  simp only [Bool.not_true, Bool.false_eq_true, if_false]
  cases h1 : verifyPrereqs c z m.prereqs with
  | some e => simpa [h1] using h
  | none =>
    cases h2 : preScan c m.updates with
    | some e => simpa [h1, h2] using h
    | none =>
      simp only
      obtain ⟨b, hb⟩ := applyAll_some_of_prescan c m.updates h2 z false
      rcases updateRecords_spec c z m.updates h b hb with ⟨_, hu⟩ | ⟨_, soa, hu, hk, _⟩
      · rw [hu]; exact kinv_applyAll c m.updates z false h
      · rw [hu]; exact hk

/-- **inv_preserved** lifted to every history, by induction over the message list: after every
message the zone has exactly one SOA (one at the apex, none elsewhere), at least one apex NS, no
CNAME beside other data of any type, and one map entry per key.  No side condition. -/
theorem inv_preserved_history (c : Cfg) (ms : List Msg) : ∀ z, KInv c z →
    KInv c (runAll c z ms) ∧ Inv c (runAll c z ms) := by
  induction ms with
  | nil => intro z h; exact ⟨h, h.toInv⟩
  | cons m ms ih => intro z h; exact ih _ (inv_preserved c z m h)

/-- **no_panic** (full strength) — on a well-formed zone no message makes the update path panic
(the serial bump wraps; `increment_soa_serial` always finds an SOA record). -/
theorem no_panic (c : Cfg) (z : Zone) (m : Msg) (h : KInv c z) :
    ∀ site, (update c true z m).2.2.1 ≠ .panic site := by
  intro site
  unfold update
  simp only [Bool.not_true, Bool.false_eq_true, if_false]
  cases h1 : verifyPrereqs c z m.prereqs with
  | some e => simp
  | none =>
    cases h2 : preScan c m.updates with
    | some e => simp
    | none =>
      simp only
      obtain ⟨b, hb⟩ := applyAll_some_of_prescan c m.updates h2 z false
      rcases updateRecords_spec c z m.updates h b hb with ⟨_, hu⟩ | ⟨_, soa, hu, _, _⟩
      · rw [hu]; simp
      · rw [hu]; simp

/-- Full strength of "a message whose prerequisites or prescan fail changes nothing": on a
well-formed zone *every* error answer of `update` leaves the zone as it was (after a successful
prescan `update_records` has no error answer left). -/
theorem update_rc_unchanged (c : Cfg) (z : Zone) (m : Msg) (h : KInv c z) (e : Rc)
    (he : (update c true z m).2.2.1 = .rc e) : (update c true z m).1 = z := by
  apply reject_unchanged
  intro hst
  unfold update at he hst
  simp only [Bool.not_true, Bool.false_eq_true, if_false] at he hst
  cases h1 : verifyPrereqs c z m.prereqs with
  | some e' => simp [h1] at hst
  | none =>
    cases h2 : preScan c m.updates with
    | some e' => simp [h1, h2] at hst
    | none =>
      simp only [h1, h2] at he
      obtain ⟨b, hb⟩ := applyAll_some_of_prescan c m.updates h2 z false
      rcases updateRecords_spec c z m.updates h b hb with ⟨_, hu⟩ | ⟨_, soa, hu, _, _⟩ <;>
        (rw [hu] at he; cases he)

/-! ## 3. The serial advances (RFC 1982) iff the message changed something -/

/-- the code's `SerialNumber` comparison is RFC 1982's -/
theorem serialNumberLt_eq (a b : Nat) : serialNumberLt a b = serialLt a b := by
  unfold serialNumberLt serialLt
  rw [Bool.eq_iff_iff]
  simp only [decide_eq_true_eq]
  omega

theorem upsert_false_unchanged (zc : Nat) (z : Zone) (r : Rec) (h : (upsert zc z r).2 = false) :
    (upsert zc z r).1 = z := by
  rcases upsert_cases zc z r with hu | ⟨_, _, v, _, hu⟩
  · rw [hu]
  · rw [hu] at h; cases h

/-- an Update RR that reports "not updated" left the zone exactly as it was -/
theorem applyRR_false_unchanged (c : Cfg) (z : Zone) (rr : Rec) (h : (applyRR c z rr).2 = some false) :
    (applyRR c z rr).1 = z := by
  by_cases hz : rr.cls = c.zclass
  · by_cases hs : rr.rtype = T_SOA ∧ rr.name.toLowercase ≠ c.origin
    · rw [applyRR_zone_skip hz hs]
    · rw [applyRR_zone hz hs] at h ⊢
      exact upsert_false_unchanged _ _ _ (by simpa using h)
  · by_cases ha : rr.cls = C_ANY
    · by_cases h1 : (rr.rtype = T_SOA ∨ rr.rtype = T_NS) ∧ rr.name.toLowercase = c.origin
      · rw [applyRR_any_skip hz ha h1]
      · by_cases h2 : rr.rtype = T_ANY
        · rw [applyRR_any_any hz ha h1 h2] at h ⊢
          simp only [Option.some.injEq, decide_eq_false_iff_not] at h
          exact filter_eq_self_of_length _ _ h
        · by_cases he : rr.isEmptyData = true
          · rw [applyRR_any_rrset hz ha h1 h2 he] at h ⊢
            simp only [Option.some.injEq] at h
            cases hg : z.get rr.key with
            | none => exact erase_of_get_none z _ hg
            | some v => rw [hg] at h; cases h
          · rw [applyRR_any_bad hz ha h1 h2 he]
    · by_cases hn : rr.cls = C_NONE
      · cases hg : z.get rr.key with
        | none => rw [applyRR_none_none hz ha hn hg]
        | some rs =>
          by_cases hd : (rsRemove rs rr).2 = true
          · rw [applyRR_none_del hz ha hn hg hd] at h; cases h
          · rw [applyRR_none_keep hz ha hn hg hd]
      · rw [applyRR_other hz ha hn]

theorem applyAll_false_unchanged (c : Cfg) (recs : List Rec) : ∀ (z : Zone) (u : Bool),
    (applyAll c z recs u).2 = some false → u = false ∧ (applyAll c z recs u).1 = z := by
  induction recs with
  | nil => intro z u h; exact ⟨by simpa [applyAll] using h, rfl⟩
  | cons rr rest ih =>
    intro z u h
    unfold applyAll at h ⊢
    cases hs : applyRR c z rr with
    | mk z' o =>
      cases o with
      | none => simp [hs] at h
      | some b =>
        simp only [hs] at h ⊢
        obtain ⟨hbu, hz'⟩ := ih z' (b || u) h
        have hb : b = false := by cases b <;> simp_all
        have hu : u = false := by cases u <;> simp_all
        have : (applyRR c z rr).1 = z := applyRR_false_unchanged c z rr (by rw [hs, hb])
        rw [hs] at this
        exact ⟨hu, by rw [hz']; exact this⟩

/-- **not_updated_unchanged** (full strength) — an accepted message that reports "nothing
updated" (so the serial stays) left every map entry exactly as it was. -/
theorem not_updated_unchanged (c : Cfg) (z : Zone) (m : Msg)
    (h : (update c true z m).2.2.1 = .ok false) : (update c true z m).1 = z := by
  unfold update at h ⊢
  simp only [Bool.not_true, Bool.false_eq_true, if_false] at h ⊢
  cases h1 : verifyPrereqs c z m.prereqs with
  | some e => simp
  | none =>
    cases h2 : preScan c m.updates with
    | some e => simp
    | none =>
      simp only [h1, h2] at h ⊢
      unfold updateRecords at h ⊢
      cases hl : applyAll c z m.updates false with
      | mk z1 o =>
        cases o with
        | none => simp [hl] at h
        | some b =>
          cases b with
          | false =>
            have := (applyAll_false_unchanged c m.updates z false (by rw [hl])).2
            rw [hl] at this
            simp [this]
          | true =>
            exfalso
            simp only [hl, Bool.true_and, Bool.not_true, Bool.false_eq_true, if_false] at h
            split at h
            · cases h
            · cases h
            · split at h <;> cases h

/-- a serial reached from another by steps each of which is an advance in RFC 1982's order
("newer" is not transitive across more than 2³¹, so the chain is the honest statement) -/
inductive SerialPath : Nat → Nat → Prop
  | refl (a : Nat) : SerialPath a a
  | step {a b d : Nat} : SerialPath a b → serialLt b d = true → SerialPath a d

theorem SerialPath.trans {a b d : Nat} (h1 : SerialPath a b) (h2 : SerialPath b d) : SerialPath a d := by
  induction h2 with
  | refl => exact h1
  | step _ hlt ih => exact SerialPath.step ih hlt

/-- the apex SOA entry after one Update RR: untouched, or the RR itself with an RFC 1982-newer serial -/
theorem applyRR_soa (c : Cfg) (z : Zone) (rr : Rec) (h : KInv c z) :
    (applyRR c z rr).1.get (c.origin, T_SOA) = z.get (c.origin, T_SOA) ∨
    (rr.cls = c.zclass ∧ rr.key = (c.origin, T_SOA) ∧
      serialLt (serial z c.origin) (serial (applyRR c z rr).1 c.origin) = true) := by
  have h' := kinv_applyRR c z rr h
  obtain ⟨r, s, rest, hg, hr, _⟩ := h.soa
  by_cases hz : rr.cls = c.zclass
  · by_cases hs : rr.rtype = T_SOA ∧ rr.name.toLowercase ≠ c.origin
    · left; rw [applyRR_zone_skip hz hs]
    · rw [applyRR_zone hz hs] at h' ⊢
      rcases upsert_cases c.zclass z rr with hu | ⟨_, _, v, hi, hu⟩
      · left; rw [hu]
      · by_cases hk : (c.origin, T_SOA) = rr.key
        · right
          have ht : rr.rtype = T_SOA := by
            have := congrArg Prod.snd hk; simpa [Rec.key] using this.symm
          rw [← hk, hg] at hi
          simp only [Option.getD_some] at hi
          rcases rsInsert_soa r rr s rest ht hr with h1 | ⟨sn, rest2, hd, hlt, h1⟩
          · rw [h1] at hi; cases hi
          · rw [h1] at hi
            have hv : v = [rr] := by cases hi; rfl
            refine ⟨hz, hk.symm, ?_⟩
            rw [serial_of_soa hg hr, hu]
            have hg2 : (z.set rr.key v).get (c.origin, T_SOA) = some [rr] := by
              rw [get_set, if_pos hk, hv]
            rw [serial_of_soa hg2 hd, ← serialNumberLt_eq]; exact hlt
        · left; rw [hu, get_set, if_neg hk]
  · left
    -- deletions never touch the apex SOA entry
    by_cases ha : rr.cls = C_ANY
    · by_cases h1 : (rr.rtype = T_SOA ∨ rr.rtype = T_NS) ∧ rr.name.toLowercase = c.origin
      · rw [applyRR_any_skip hz ha h1]
      · by_cases h2 : rr.rtype = T_ANY
        · rw [applyRR_any_any hz ha h1 h2, get_filter_key (anyKeep c rr)]
          simp [anyKeep]
        · by_cases he : rr.isEmptyData = true
          · rw [applyRR_any_rrset hz ha h1 h2 he, get_erase,
              if_neg (key_ne_of_not_skip (Or.inl rfl) h1)]
          · rw [applyRR_any_bad hz ha h1 h2 he]
    · by_cases hn : rr.cls = C_NONE
      · cases hgk : z.get rr.key with
        | none => rw [applyRR_none_none hz ha hn hgk]
        | some rs =>
          by_cases hrem : (rsRemove rs rr).2 = true
          · rw [applyRR_none_del hz ha hn hgk hrem]
            have hk : (c.origin, T_SOA) ≠ rr.key := by
              intro hk
              have ht : rr.rtype = T_SOA := by
                have := congrArg Prod.snd hk; simpa [Rec.key] using this.symm
              rw [rsRemove_soa rs rr ht] at hrem; cases hrem
            simp only
            split
            · rw [get_erase, if_neg hk]
            · rw [get_set, if_neg hk]
          · rw [applyRR_none_keep hz ha hn hgk hrem]
      · rw [applyRR_other hz ha hn]

theorem serial_congr {c : Cfg} {z z' : Zone} (h : z'.get (c.origin, T_SOA) = z.get (c.origin, T_SOA)) :
    serial z' c.origin = serial z c.origin := by
  simp [serial, soaRecord, h]

/-- along the loop the serial only ever moves to RFC 1982-newer values -/
theorem applyAll_serial_path (c : Cfg) (recs : List Rec) : ∀ (z : Zone) (u : Bool), KInv c z →
    SerialPath (serial z c.origin) (serial (applyAll c z recs u).1 c.origin) := by
  induction recs with
  | nil => intro z u _; exact SerialPath.refl _
  | cons rr rest ih =>
    intro z u h
    have hk := kinv_applyRR c z rr h
    have hstep : SerialPath (serial z c.origin) (serial (applyRR c z rr).1 c.origin) := by
      rcases applyRR_soa c z rr h with he | ⟨_, _, hlt⟩
      · rw [serial_congr he]; exact SerialPath.refl _
      · exact SerialPath.step (SerialPath.refl _) hlt
    unfold applyAll
    split
    · rename_i z' u' heq
      rw [heq] at hstep hk
      exact hstep.trans (ih z' _ hk)
    · rename_i z' heq
      rw [heq] at hstep; exact hstep

/-- no Update RR of the message sets the apex SOA itself -/
def NoSoaAdd (c : Cfg) (recs : List Rec) : Prop :=
  ∀ rr ∈ recs, ¬(rr.cls = c.zclass ∧ rr.key = (c.origin, T_SOA))

theorem applyAll_serial_same (c : Cfg) (recs : List Rec) : ∀ (z : Zone) (u : Bool), KInv c z →
    NoSoaAdd c recs → serial (applyAll c z recs u).1 c.origin = serial z c.origin := by
  induction recs with
  | nil => intro z u _ _; rfl
  | cons rr rest ih =>
    intro z u h hno
    have hk := kinv_applyRR c z rr h
    have hstep : serial (applyRR c z rr).1 c.origin = serial z c.origin := by
      rcases applyRR_soa c z rr h with he | ⟨h1, h2, _⟩
      · exact serial_congr he
      · exact absurd ⟨h1, h2⟩ (hno rr List.mem_cons_self)
    unfold applyAll
    split
    · rename_i z' u' heq
      rw [heq] at hstep hk
      rw [ih z' _ hk (fun r hr => hno r (List.mem_cons_of_mem _ hr)), hstep]
    · rename_i z' heq
      rw [heq] at hstep; exact hstep

/-- **updated_serial_succ** (full strength) — an accepted message that updated something ends with
serial = (serial after its own Update RRs) + 1 mod 2³², an RFC 1982 advance over that serial, which
itself was reached from the starting serial by RFC 1982 advances only (explicit SOA RRs of the
message). -/
theorem updated_serial_succ (c : Cfg) (z : Zone) (m : Msg) (h : KInv c z)
    (hok : (update c true z m).2.2.1 = .ok true) :
    serial (update c true z m).1 c.origin =
      (serial (applyAll c z m.updates false).1 c.origin + 1) % 4294967296 ∧
    serialLt (serial (applyAll c z m.updates false).1 c.origin) (serial (update c true z m).1 c.origin) = true ∧
    SerialPath (serial z c.origin) (serial (applyAll c z m.updates false).1 c.origin) := by
  have hm := applyAll_serial_path c m.updates z false h
  unfold update at hok ⊢
  simp only [Bool.not_true, Bool.false_eq_true, if_false] at hok ⊢
  cases h1 : verifyPrereqs c z m.prereqs with
  | some e => simp [h1] at hok
  | none =>
    cases h2 : preScan c m.updates with
    | some e => simp [h1, h2] at hok
    | none =>
      simp only [h1, h2] at hok ⊢
      obtain ⟨b, hb⟩ := applyAll_some_of_prescan c m.updates h2 z false
      rcases updateRecords_spec c z m.updates h b hb with ⟨_, hu⟩ | ⟨_, soa, hu, _, hs⟩
      · rw [hu] at hok; cases hok
      · rw [hu]; simp only
        rw [hs]
        exact ⟨rfl, by rw [← serialNumberLt_eq]; exact serialNumberLt_succ _, hm⟩

/-! "updated" is exactly "some Update RR changed the RRsets it met" -/

theorem distinct_unique {rs : RSet} (hd : Distinct rs) : ∀ x ∈ rs, ∀ y ∈ rs, x.dataEq y = true → x = y := by
  induction rs with
  | nil => intro x hx; cases hx
  | cons a l ih =>
    have ha := (List.pairwise_cons.mp hd).1
    have hl := (List.pairwise_cons.mp hd).2
    intro x hx y hy hxy
    rcases List.mem_cons.mp hx with rfl | hx' <;> rcases List.mem_cons.mp hy with rfl | hy'
    · rfl
    · rw [ha y hy'] at hxy; cases hxy
    · have := Rec.dataEq_symm hxy; rw [ha x hx'] at this; cases this
    · exact ih hl x hx' y hy' hxy

theorem replaceDup_none_elim (r : Rec) (rs : List Rec) (h : replaceDup r rs = none) :
    ∃ x ∈ rs, x.dataEq r = true ∧ x.eqv r = true ∧ x.ttl = r.ttl := by
  induction rs with
  | nil => simp [replaceDup] at h
  | cons y ys ih =>
    unfold replaceDup at h
    by_cases hd : y.dataEq r = true
    · rw [if_pos hd] at h
      by_cases he : (y.eqv r && y.ttl == r.ttl) = true
      · simp only [Bool.and_eq_true, beq_iff_eq] at he
        exact ⟨y, List.mem_cons_self, hd, he.1, he.2⟩
      · rw [if_neg he] at h
        cases hr : replaceDup r ys with
        | none =>
          obtain ⟨x, hx, hh⟩ := ih hr
          exact ⟨x, List.mem_cons_of_mem _ hx, hh⟩
        | some p => rw [hr] at h; cases h
    · rw [if_neg hd] at h
      cases hr : replaceDup r ys with
      | none =>
        obtain ⟨x, hx, hh⟩ := ih hr
        exact ⟨x, List.mem_cons_of_mem _ hx, hh⟩
      | some p => rw [hr] at h; cases h

theorem replaceDup_none_of (r : Rec) (rs : List Rec)
    (h : ∃ x ∈ rs, x.dataEq r = true ∧ x.eqv r = true ∧ x.ttl = r.ttl) : replaceDup r rs = none := by
  induction rs with
  | nil => obtain ⟨x, hx, _⟩ := h; cases hx
  | cons y ys ih =>
    obtain ⟨x, hx, hd, he, ht⟩ := h
    unfold replaceDup
    rcases List.mem_cons.mp hx with rfl | hx'
    · rw [if_pos hd, if_pos (by simp [he, ht])]
    · have := ih ⟨x, hx', hd, he, ht⟩
      split
      · split
        · rfl
        · rw [this]; rfl
      · rw [this]; rfl

theorem map_eq_self_mem {α} (f : α → α) : ∀ (l : List α), l.map f = l → ∀ x ∈ l, f x = x := by
  intro l
  induction l with
  | nil => intro _ x hx; cases hx
  | cons a l ih =>
    intro h x hx
    simp only [List.map_cons, List.cons.injEq] at h
    rcases List.mem_cons.mp hx with rfl | hx'
    · exact h.1
    · exact ih h.2 x hx'

/-- `insert` returning `true` changed the records of the set -/
theorem rsInsert_true_ne (rs : RSet) (r : Rec) (h : (rsInsert rs r).2 = true) : (rsInsert rs r).1 ≠ rs := by
  unfold rsInsert at h ⊢
  cases hp : insertPre rs r with
  | none => simp [hp] at h
  | some recs =>
    simp only [hp] at h ⊢
    rcases replaceDup_eq r recs with hr | hr
    · simp [hr] at h
    · rw [hr]
      -- what `insertPre` can hand on
      unfold insertPre at hp
      by_cases hs : r.rtype = T_SOA
      · rw [if_pos hs] at hp
        cases rs with
        | nil => cases hp; simp
        | cons ex rest =>
          simp only at hp
          split at hp
          · split at hp
            · cases hp
            · rename_i se _ sn _ hex hrr hlt
              cases hp
              simp only [List.any_nil, List.map_nil, List.nil_append, Bool.false_eq_true, if_false]
              intro heq
              have : r = ex := by
                have := congrArg List.head? heq; simpa using this
              rw [this, hex] at hrr; cases hrr
              have : serialNumberLt se se = true := by simpa using hlt
              unfold serialNumberLt at this
              simp at this
          · cases hp
      · rw [if_neg hs] at hp
        by_cases hc : r.rtype = T_CNAME ∨ r.rtype = T_ANAME
        · rw [if_pos hc] at hp
          cases rs with
          | nil => cases hp; simp
          | cons ex rest =>
            simp only at hp
            split at hp
            · cases hp
            · rename_i hid
              cases hp
              simp only [List.any_nil, List.map_nil, List.nil_append, Bool.false_eq_true, if_false]
              intro heq
              have : r = ex := by
                have := congrArg List.head? heq; simpa using this
              apply hid
              rw [← this]; simp [Rec.eqv_refl]
        · rw [if_neg hc] at hp
          cases hp
          cases ha : rs.any (fun x => x.dataEq r) with
          | false =>
            simp only [Bool.false_eq_true, if_false]
            intro heq
            have := congrArg List.length heq
            simp at this
          | true =>
            simp only [if_true]
            obtain ⟨x, hx, hxd⟩ := List.any_eq_true.mp ha
            intro heq
            -- position-wise: the record matching `r` was replaced by `r`, so it was `r` already
            have hfx := map_eq_self_mem _ rs heq x hx
            simp only [hxd, if_true] at hfx
            have : replaceDup r rs = none :=
              replaceDup_none_of r rs ⟨x, hx, hxd, by rw [← hfx]; exact Rec.eqv_refl r, by rw [← hfx]⟩
            rw [this] at hr; cases hr

theorem rsRemove_true_lt (rs : RSet) (r : Rec) (h : (rsRemove rs r).2 = true) :
    (rsRemove rs r).1.length < rs.length := by
  unfold rsRemove at h ⊢
  split
  · rename_i h1; rw [if_pos h1] at h; cases h
  · rename_i h1; rw [if_neg h1] at h
    split
    · rename_i h2; rw [if_pos h2] at h; cases h
    · rename_i h2; rw [if_neg h2] at h
      simp only at h ⊢
      split
      · rename_i h3; exact h3
      · rename_i h3; rw [if_neg h3] at h; cases h

/-- an Update RR that reports "updated" changed the RRsets of the zone it met -/
theorem applyRR_true_changes (c : Cfg) (z : Zone) (rr : Rec) (h : KInv c z)
    (ht : (applyRR c z rr).2 = some true) : ¬ Rfc2136.Zone.Same (applyRR c z rr).1 z := by
  intro hsame
  by_cases hz : rr.cls = c.zclass
  · by_cases hs : rr.rtype = T_SOA ∧ rr.name.toLowercase ≠ c.origin
    · rw [applyRR_zone_skip hz hs] at ht; cases ht
    · rw [applyRR_zone hz hs] at ht hsame
      rcases upsert_cases c.zclass z rr with hu | ⟨_, _, v, hi, hu⟩
      · rw [hu] at ht; cases ht
      · rw [hu] at hsame
        have := hsame rr.key
        unfold rrsetOf at this
        rw [get_set, if_pos rfl] at this
        simp only [Option.getD_some] at this
        have hne := rsInsert_true_ne ((z.get rr.key).getD []) rr (by rw [hi])
        rw [hi] at hne
        exact hne this
  · by_cases ha : rr.cls = C_ANY
    · by_cases h1 : (rr.rtype = T_SOA ∨ rr.rtype = T_NS) ∧ rr.name.toLowercase = c.origin
      · rw [applyRR_any_skip hz ha h1] at ht; cases ht
      · by_cases h2 : rr.rtype = T_ANY
        · rw [applyRR_any_any hz ha h1 h2] at ht hsame
          simp only [Option.some.injEq, decide_eq_true_eq] at ht
          obtain ⟨e, he, hk⟩ := List.length_filter_lt_length_iff_exists.mp ht
          have hg := get_of_mem h.nodup (k := e.1) (v := e.2) he
          have := hsame e.1
          rw [Rfc2136.rrsetOf, Rfc2136.rrsetOf, get_filter_key (anyKeep c rr), hg] at this
          have hk' : anyKeep c rr e.1 = false := by simpa using hk
          simp only [hk', Bool.false_eq_true, if_false, Option.getD_none, Option.getD_some] at this
          exact h.noEmpty e he this.symm
        · by_cases he : rr.isEmptyData = true
          · rw [applyRR_any_rrset hz ha h1 h2 he] at ht hsame
            simp only [Option.some.injEq] at ht
            obtain ⟨v, hv⟩ := Option.isSome_iff_exists.mp ht
            have := hsame rr.key
            rw [Rfc2136.rrsetOf, Rfc2136.rrsetOf, get_erase_self, hv] at this
            exact h.noEmpty _ (get_mem hv) this.symm
          · rw [applyRR_any_bad hz ha h1 h2 he] at ht; cases ht
    · by_cases hn : rr.cls = C_NONE
      · cases hg : z.get rr.key with
        | none => rw [applyRR_none_none hz ha hn hg] at ht; cases ht
        | some rs =>
          by_cases hd : (rsRemove rs rr).2 = true
          · rw [applyRR_none_del hz ha hn hg hd] at hsame
            have hlt := rsRemove_true_lt rs rr hd
            have := hsame rr.key
            simp only at this
            split at this
            · rename_i hnil
              rw [Rfc2136.rrsetOf, Rfc2136.rrsetOf, get_erase_self, hg] at this
              simp only [Option.getD_none, Option.getD_some] at this
              rw [hnil, ← this] at hlt; simp at hlt
            · rw [Rfc2136.rrsetOf, Rfc2136.rrsetOf, get_set, if_pos rfl, hg] at this
              simp only [Option.getD_some] at this
              rw [this] at hlt; exact Nat.lt_irrefl _ hlt
          · rw [applyRR_none_keep hz ha hn hg hd] at ht; cases ht
      · rw [applyRR_other hz ha hn] at ht; cases ht

/-- some Update RR of the section changed the RRsets of the zone it met -/
def SomeStepChanged (c : Cfg) : Zone → List Rec → Prop
  | _, [] => False
  | z, rr :: rest =>
    ¬ Rfc2136.Zone.Same (applyRR c z rr).1 z ∨ SomeStepChanged c (applyRR c z rr).1 rest

/-- `updated` is exactly "some Update RR changed the RRsets it met" -/
theorem updated_iff_some_step_changed (c : Cfg) (recs : List Rec) : ∀ (z : Zone) (u b : Bool),
    KInv c z → (applyAll c z recs u).2 = some b → (b = true ↔ (u = true ∨ SomeStepChanged c z recs)) := by
  induction recs with
  | nil =>
    intro z u b _ h
    simp only [applyAll, Option.some.injEq] at h
    simp [SomeStepChanged, h]
  | cons rr rest ih =>
    intro z u b hk h
    have hk' := kinv_applyRR c z rr hk
    unfold applyAll at h
    cases hs : applyRR c z rr with
    | mk z' o =>
      cases o with
      | none => simp [hs] at h
      | some s =>
        simp only [hs] at h
        rw [hs] at hk'
        have ih' := ih z' (s || u) b hk' h
        have hstep : s = true ↔ ¬ Rfc2136.Zone.Same (applyRR c z rr).1 z := by
          constructor
          · intro hs1; exact applyRR_true_changes c z rr hk (by rw [hs, hs1])
          · intro hns
            cases s with
            | true => rfl
            | false =>
              exfalso; apply hns
              rw [applyRR_false_unchanged c z rr (by rw [hs])]
              exact fun _ => rfl
        unfold SomeStepChanged
        rw [ih', hs]
        simp only [Bool.or_eq_true]
        rw [hs] at hstep
        constructor
        · rintro (⟨h1 | h1⟩ | h1)
          · exact Or.inr (Or.inl (hstep.mp h1))
          · exact Or.inl h1
          · exact Or.inr (Or.inr h1)
        · rintro (h1 | h1 | h1)
          · exact Or.inl (Or.inr h1)
          · exact Or.inl (Or.inl (hstep.mpr h1))
          · exact Or.inr h1

theorem serialLt_irrefl (a : Nat) : serialLt a a = false := by simp [serialLt]

/-- **serial_advances_iff_changed** — for every accepted message on a well-formed zone:
* the serial was bumped (`Ok(true)`) **iff** some Update RR changed the RRsets of the zone it met;
* if not, the zone is identical (every map entry);
* if so, the new serial is `(s₁ + 1) mod 2³²`, an RFC 1982 advance over `s₁`, the serial after the
  message's own RRs, and `s₁` is reached from the old serial by RFC 1982 advances only.
What is *not* claimed: that the net content differs — a message whose RRs change the zone and undo
it again (add then delete) bumps the serial (`net_noop_bumps_serial`); the RFC would too. -/
theorem serial_advances_iff_changed (c : Cfg) (z : Zone) (m : Msg) (h : KInv c z) (b : Bool)
    (hok : (update c true z m).2.2.1 = .ok b) :
    (b = true ↔ SomeStepChanged c z m.updates) ∧
    (b = false → (update c true z m).1 = z) ∧
    (b = true →
      serial (update c true z m).1 c.origin = (serial (applyAll c z m.updates false).1 c.origin + 1) % 4294967296 ∧
      serialLt (serial (applyAll c z m.updates false).1 c.origin) (serial (update c true z m).1 c.origin) = true ∧
      SerialPath (serial z c.origin) (serial (applyAll c z m.updates false).1 c.origin)) := by
  refine ⟨?_, ?_, ?_⟩
  · -- which `updated` the loop computed
    have hres : (applyAll c z m.updates false).2 = some b := by
      unfold update at hok
      simp only [Bool.not_true, Bool.false_eq_true, if_false] at hok
      cases h1 : verifyPrereqs c z m.prereqs with
      | some e => simp [h1] at hok
      | none =>
        cases h2 : preScan c m.updates with
        | some e => simp [h1, h2] at hok
        | none =>
          simp only [h1, h2] at hok
          obtain ⟨b', hb'⟩ := applyAll_some_of_prescan c m.updates h2 z false
          rcases updateRecords_spec c z m.updates h b' hb' with ⟨hf, hu⟩ | ⟨ht, soa, hu, _, _⟩
          · rw [hu] at hok; cases hok; rw [hb', hf]
          · rw [hu] at hok; cases hok; rw [hb', ht]
    have := updated_iff_some_step_changed c m.updates z false b h hres
    simpa using this
  · intro hb; subst hb; exact not_updated_unchanged c z m hok
  · intro hb; subst hb; exact updated_serial_succ c z m h hok

/-- … and in RFC 1982's order directly, when the message does not set the apex SOA itself:
the serial has strictly advanced iff some Update RR changed what it met. -/
theorem serial_advances_iff_changed_no_soa (c : Cfg) (z : Zone) (m : Msg) (h : KInv c z) (b : Bool)
    (hok : (update c true z m).2.2.1 = .ok b) (hno : NoSoaAdd c m.updates) :
    (serialLt (serial z c.origin) (serial (update c true z m).1 c.origin) = true ↔
      SomeStepChanged c z m.updates) := by
  obtain ⟨h1, h2, h3⟩ := serial_advances_iff_changed c z m h b hok
  rw [← h1]
  cases b with
  | false => rw [h2 rfl, serialLt_irrefl]
  | true =>
    obtain ⟨_, hlt, _⟩ := h3 rfl
    rw [applyAll_serial_same c m.updates z false h hno] at hlt
    simp [hlt]

/-! ## 4. An accepted message leaves the RRset contents RFC 2136 §3.4.2 prescribes

Stated per Update RR, from any well-formed zone: the code's step and the RFC's step
(`Rfc2136.stepRR`, the pseudocode reading that protects SOA / last NS at any name) produce zones
holding the same RRsets (`Zone.Same`).  After the repairs the hypothesis `Faithful` only names
what RFC 2136 itself leaves open or does not know about:
* DNSSEC's NSEC/NSEC3 (which the code lets stand beside a CNAME, RFC 4034) and ANAME;
* two SOA serials exactly 2³¹ apart (RFC 1982: comparison undefined — the code ignores the RR);
* a record that is RFC-equal to the Update RR (RFC 2136 §1.1: names compare case-insensitively)
  but spells its owner name differently: the code keeps the zone's spelling, `zrr = rr` would not. -/

theorem rrsetOf_set (z : Zone) (k : Key) (v : RSet) (k' : Key) :
    rrsetOf (z.set k v) k' = if k' = k then v else rrsetOf z k' := by
  unfold rrsetOf; rw [get_set]; split <;> rfl

theorem rrsetOf_erase (z : Zone) (k k' : Key) :
    rrsetOf (z.erase k) k' = if k' = k then [] else rrsetOf z k' := by
  unfold rrsetOf; rw [get_erase]; split <;> rfl

theorem rrsetOf_filter_key (p : Key → Bool) (z : Zone) (k : Key) :
    rrsetOf (z.filter fun e => p e.1) k = if p k then rrsetOf z k else [] := by
  unfold rrsetOf; rw [get_filter_key]; split <;> rfl

/-- at `n` every map entry has a non-DNSSEC type and at least one record -/
def PlainAt (z : Zone) (n : Name) : Prop :=
  ∀ e ∈ z, e.1.1 = n → e.1.2 ≠ T_NSEC ∧ e.1.2 ≠ T_NSEC3 ∧ e.2 ≠ []

theorem blocked_cname {z : Zone} {rr : Rec} (hp : PlainAt z rr.name.toLowercase) (ht : rr.rtype = T_CNAME) :
    upsertBlocked z rr = Rfc2136.otherDataAt z rr.name.toLowercase := by
  unfold upsertBlocked Rfc2136.otherDataAt Zone.typesAt
  rw [List.any_map, List.any_filter, Bool.eq_iff_iff, List.any_eq_true, List.any_eq_true]
  constructor
  · rintro ⟨e, he, hc⟩
    refine ⟨e, he, ?_⟩
    simp only [Function.comp, Bool.and_eq_true, decide_eq_true_eq] at hc
    obtain ⟨hn, hx⟩ := hc
    obtain ⟨h2, h3, h4⟩ := hp e he hn
    rw [ht] at hx
    have : e.1.2 ≠ T_CNAME := by
      intro heq; rw [heq] at hx; revert hx; decide
    simp [hn, this, h4]
  · rintro ⟨e, he, hc⟩
    refine ⟨e, he, ?_⟩
    simp only [decide_eq_true_eq] at hc
    obtain ⟨hn, hnc, _⟩ := hc
    obtain ⟨h2, h3, _⟩ := hp e he hn
    have b1 : (e.1.2 == T_NSEC) = false := by simpa using h2
    have b2 : (e.1.2 == T_NSEC3) = false := by simpa using h3
    have b3 : (e.1.2 != T_CNAME) = true := by simpa using hnc
    have c1 : (T_CNAME == T_NSEC) = false := by decide
    have c2 : (T_CNAME == T_NSEC3) = false := by decide
    simp [Function.comp, hn, ht, isNsec, labelDisallow, b1, b2, b3, c1, c2]

theorem blocked_other {z : Zone} {rr : Rec} (hp : PlainAt z rr.name.toLowercase) (ht : rr.rtype ≠ T_CNAME)
    (h2 : rr.rtype ≠ T_NSEC) (h3 : rr.rtype ≠ T_NSEC3) :
    upsertBlocked z rr = true ↔ rrsetOf z (rr.name.toLowercase, T_CNAME) ≠ [] := by
  have b0 : (rr.rtype == T_CNAME) = false := by simpa using ht
  have b0' : (rr.rtype != T_CNAME) = true := by simpa using ht
  have b1 : (rr.rtype == T_NSEC) = false := by simpa using h2
  have b2 : (rr.rtype == T_NSEC3) = false := by simpa using h3
  constructor
  · intro hb
    unfold upsertBlocked at hb
    rw [List.any_eq_true] at hb
    obtain ⟨t, htm, hc⟩ := hb
    have htc : t = T_CNAME := by
      simp only [isNsec, labelDisallow, b0, b0', b1, b2, Bool.false_and, Bool.false_or, Bool.true_and,
        Bool.and_eq_true, beq_iff_eq] at hc
      exact hc.2
    subst htc
    have hs := Zone.get_of_mem_typesAt z _ _ htm
    obtain ⟨v, hv⟩ := Option.isSome_iff_exists.mp hs
    have := (hp _ (get_mem hv) rfl).2.2
    simp [rrsetOf, hv, this]
  · intro hne
    cases hg : z.get (rr.name.toLowercase, T_CNAME) with
    | none => simp [rrsetOf, hg] at hne
    | some v =>
      have hm := Zone.mem_typesAt z _ _ v hg
      unfold upsertBlocked
      rw [List.any_eq_true]
      refine ⟨T_CNAME, hm, ?_⟩
      have c1 : (T_CNAME == T_NSEC) = false := by decide
      have c2 : (T_CNAME == T_NSEC3) = false := by decide
      simp [isNsec, labelDisallow, b0, b0', b1, b2, c1, c2]

/-- What RFC 2136 leaves open or does not know about, as a hypothesis on one zone-class Update RR
`rr` against the zone `z` it meets (nothing is asked of class ANY / NONE RRs). -/
structure Faithful (c : Cfg) (z : Zone) (rr : Rec) : Prop where
  types : rr.cls = c.zclass → rr.rtype ≠ T_NSEC ∧ rr.rtype ≠ T_NSEC3 ∧ rr.rtype ≠ T_ANAME ∧
    ∀ e ∈ z, e.1.1 = rr.name.toLowercase → e.1.2 ≠ T_NSEC ∧ e.1.2 ≠ T_NSEC3
  soaDefined : rr.cls = c.zclass → rr.rtype = T_SOA → ∀ sn rest, rr.rdata = .soa sn rest →
    serial z c.origin - sn ≠ 2147483648 ∧ sn - serial z c.origin ≠ 2147483648
  spelling : rr.cls = c.zclass → rr.rtype ≠ T_SOA → ∀ x ∈ rrsetOf z rr.key,
    x.eqv rr = true → x.ttl = rr.ttl → x = rr

theorem same_refl (z : Zone) : Rfc2136.Zone.Same z z := fun _ => rfl

theorem same_set_self (z : Zone) (k : Key) : Rfc2136.Zone.Same z (z.set k (rrsetOf z k)) := by
  intro k'; rw [rrsetOf_set]; split
  · rename_i h; rw [h]
  · rfl

theorem eqv_dataEq {a b : Rec} (h : a.eqv b = true) : a.dataEq b = true := by
  simp only [Rec.eqv, Bool.and_eq_true] at h; exact h.2

/-- **apply_eq_rfc** (one Update RR).  Full statement wanted: for every zone and every RR the
prescan lets through, the code's step and RFC 2136 §3.4.2.7's step leave the same RRsets.  Proved
on every well-formed zone under `Faithful` (see the section header for what that still excludes). -/
theorem applyRR_eq_rfc_partial (c : Cfg) (z : Zone) (rr : Rec) (u : Bool) (hk : KInv c z)
    (hok : (applyRR c z rr).2 = some u) (hf : Faithful c z rr) :
    Rfc2136.Zone.Same (applyRR c z rr).1 (Rfc2136.stepRR true c z rr) := by
  unfold Rfc2136.stepRR
  by_cases hz : rr.cls = c.zclass
  · -- add to an RRset
    rw [if_pos hz]
    obtain ⟨hn1, hn2, hn3, hnsec⟩ := hf.types hz
    have hp : PlainAt z rr.name.toLowercase := fun e he hn =>
      ⟨(hnsec e he hn).1, (hnsec e he hn).2, hk.noEmpty e he⟩
    have hzc : ¬ c.zclass ≠ rr.cls := by simp [hz]
    by_cases hskip : rr.rtype = T_SOA ∧ rr.name.toLowercase ≠ c.origin
    · -- SOA away from the origin: ignored by the code; the RFC finds no SOA there and ignores it too
      rw [applyRR_zone_skip hz hskip]
      have hnc : ¬ rr.rtype = T_CNAME := by rw [hskip.1]; decide
      rw [if_neg hnc]
      split
      · exact same_refl z
      · rw [if_pos hskip.1]
        have : rrsetOf z rr.key = [] := by
          have := hk.noOtherSoa rr.name.toLowercase hskip.2
          unfold Rec.key; rw [hskip.1]; simp [rrsetOf, this]
        rw [this]
        exact same_refl z
    · rw [applyRR_zone hz hskip]
      by_cases hc : rr.rtype = T_CNAME
      · rw [if_pos hc, ← blocked_cname hp hc]
        cases hb : upsertBlocked z rr with
        | true =>
          simp only [if_true]
          have : upsert c.zclass z rr = (z, false) := by
            unfold upsert; rw [if_neg hzc, hb]; simp
          rw [this]; exact same_refl z
        | false =>
          simp only [Bool.false_eq_true, if_false]
          unfold Rfc2136.addOrReplace
          rw [if_pos (Or.inl hc)]
          have h1 : ¬ rr.rtype = T_SOA := by rw [hc]; decide
          unfold upsert
          rw [if_neg hzc, hb]
          simp only [Bool.false_eq_true, if_false]
          cases hg : z.get rr.key with
          | none => simp only [rsInsert_nil]; exact same_refl _
          | some rs =>
            simp only
            cases rs with
            | nil => exact absurd rfl (hk.noEmpty _ (get_mem hg))
            | cons ex rest =>
              have hlen := hk.single _ (get_mem hg) (Or.inl (by simpa [Rec.key] using hc))
              have hrest : rest = [] := by
                cases rest with
                | nil => rfl
                | cons _ _ => simp at hlen
              subst hrest
              by_cases hid : (ex.eqv rr && ex.ttl == rr.ttl) = true
              · -- identical CNAME: not an update; the RFC's `zrr = rr` writes the same record
                have hins : rsInsert [ex] rr = ([ex], false) := by
                  unfold rsInsert insertPre
                  rw [if_neg h1, if_pos (Or.inl hc)]
                  simp [hid]
                simp only [hins, Bool.false_eq_true, if_false]
                simp only [Bool.and_eq_true, beq_iff_eq] at hid
                have hex : ex = rr := hf.spelling hz h1 ex (by simp [rrsetOf, hg]) hid.1 hid.2
                have : rrsetOf z rr.key = [rr] := by simp [rrsetOf, hg, hex]
                rw [← this]; exact same_set_self z rr.key
              · have hins : rsInsert [ex] rr = ([rr], true) := by
                  unfold rsInsert insertPre
                  rw [if_neg h1, if_pos (Or.inl hc)]
                  simp [hid, replaceDup]
                simp only [hins, if_true]; exact same_refl _
      · rw [if_neg hc]
        have hbo := blocked_other hp hc hn1 hn2
        by_cases hcn : rrsetOf z (rr.name.toLowercase, T_CNAME) ≠ []
        · rw [if_pos hcn]
          have hb := hbo.mpr hcn
          have : upsert c.zclass z rr = (z, false) := by
            unfold upsert; rw [if_neg hzc, hb]; simp
          rw [this]; exact same_refl z
        · rw [if_neg hcn]
          have hb : upsertBlocked z rr = false := by
            cases h : upsertBlocked z rr with
            | false => rfl
            | true => exact absurd (hbo.mp h) hcn
          by_cases hs : rr.rtype = T_SOA
          · -- SOA at the origin: replaced iff RFC 1982-newer
            rw [if_pos hs]
            have horigin : rr.name.toLowercase = c.origin := by
              cases hdec : decide (rr.name.toLowercase = c.origin) with
              | true => simpa using hdec
              | false => exact absurd ⟨hs, by simpa using hdec⟩ hskip
            have hkey : rr.key = (c.origin, T_SOA) := by unfold Rec.key; rw [horigin, hs]
            obtain ⟨zrr, zs, zrest, hg, hzr, _, _⟩ := hk.soa
            have hzs : serial z c.origin = zs := serial_of_soa hg hzr
            rw [← hkey] at hg
            have hrs : rrsetOf z rr.key = [zrr] := by simp [rrsetOf, hg]
            rw [hrs]
            unfold upsert
            rw [if_neg hzc, hb]
            simp only [Bool.false_eq_true, if_false, hg]
            cases hrr : rr.rdata with
            | empty =>
              have : rsInsert [zrr] rr = ([zrr], false) := by
                rcases rsInsert_soa zrr rr zs zrest hs hzr with h1 | ⟨sn, r', hd, _, _⟩
                · exact h1
                · rw [hrr] at hd; cases hd
              simp only [this, Rfc2136.soaSerialOf, hrr, Bool.false_eq_true, if_false]
              exact same_refl z
            | bytes b =>
              have : rsInsert [zrr] rr = ([zrr], false) := by
                rcases rsInsert_soa zrr rr zs zrest hs hzr with h1 | ⟨sn, r', hd, _, _⟩
                · exact h1
                · rw [hrr] at hd; cases hd
              simp only [this, Rfc2136.soaSerialOf, hrr, Bool.false_eq_true, if_false]
              exact same_refl z
            | soa sn srest =>
              obtain ⟨hd1, hd2⟩ := hf.soaDefined hz hs sn srest hrr
              rw [hzs] at hd1 hd2
              simp only [Rfc2136.soaSerialOf, hrr, hzr]
              cases hlt : serialNumberLt zs sn with
              | false =>
                rw [rsInsert_soa_ignored zrr rr zs zrest sn srest hs hzr hrr hlt]
                simp only [Bool.false_eq_true, if_false]
                have : serialLt sn zs = true ∨ sn = zs := by
                  unfold serialNumberLt at hlt
                  unfold serialLt
                  simp only [decide_eq_false_iff_not, decide_eq_true_eq] at hlt ⊢
                  omega
                rw [if_pos this]; exact same_refl z
              | true =>
                have hins : rsInsert [zrr] rr = ([rr], true) := by
                  rcases rsInsert_soa zrr rr zs zrest hs hzr with h1 | ⟨sn', r', hd, _, h1⟩
                  · exfalso
                    have := rsInsert_soa_ignored zrr rr zs zrest sn srest hs hzr hrr
                    unfold rsInsert insertPre at h1
                    rw [if_pos hs] at h1
                    simp [hzr, hrr, hlt, replaceDup] at h1
                  · exact h1
                simp only [hins, if_true]
                have hnot : ¬ (serialLt sn zs = true ∨ sn = zs) := by
                  unfold serialNumberLt at hlt
                  unfold serialLt
                  simp only [decide_eq_true_eq] at hlt ⊢
                  omega
                rw [if_neg hnot]
                unfold Rfc2136.addOrReplace
                rw [if_pos (Or.inr hs)]
                exact same_refl _
          · rw [if_neg hs]
            -- ordinary type
            have hsp := hf.spelling hz hs
            unfold Rfc2136.addOrReplace
            rw [if_neg (by intro h; rcases h with h | h; exact hc h; exact hs h)]
            have hpre : ∀ rs, insertPre rs rr = some rs := by
              intro rs; unfold insertPre
              rw [if_neg hs, if_neg (by intro h; rcases h with h | h; exact hc h; exact hn3 h)]
            have hrd : Distinct (rrsetOf z rr.key) := by
              cases hg : z.get rr.key with
              | none => simp [rrsetOf, hg]; exact List.Pairwise.nil
              | some rs => simpa [rrsetOf, hg] using hk.distinct _ (get_mem hg)
            -- what `insert` does with the set the RR meets
            have hins : rsInsert (rrsetOf z rr.key) rr = (rrsetOf z rr.key, false) ∨
                rsInsert (rrsetOf z rr.key) rr =
                  (if (rrsetOf z rr.key).any (fun x => x.dataEq rr) then
                      (rrsetOf z rr.key).map (fun x => if x.dataEq rr then rr else x)
                    else rrsetOf z rr.key ++ [rr], true) := by
              unfold rsInsert
              simp only [hpre]
              rcases replaceDup_eq rr (rrsetOf z rr.key) with hr | hr
              · left; simp [hr]
              · right; rw [hr]
                cases hany : (rrsetOf z rr.key).any (fun x => x.dataEq rr) with
                | true => simp
                | false =>
                  have hmap : (rrsetOf z rr.key).map (fun x => if x.dataEq rr = true then rr else x) =
                      rrsetOf z rr.key := by
                    rw [List.map_congr_left (g := id)]
                    · simp
                    · intro y hy
                      have : y.dataEq rr = false := by
                        cases h : y.dataEq rr with
                        | false => rfl
                        | true =>
                          have : (rrsetOf z rr.key).any (fun x => x.dataEq rr) = true :=
                            List.any_eq_true.mpr ⟨y, hy, h⟩
                          rw [hany] at this; cases this
                      simp [this]
                  simp [hmap]
            have hmodel : (upsert c.zclass z rr).1 = z ∨ (upsert c.zclass z rr).1 =
                z.set rr.key (if (rrsetOf z rr.key).any (fun x => x.dataEq rr) then
                      (rrsetOf z rr.key).map (fun x => if x.dataEq rr then rr else x)
                    else rrsetOf z rr.key ++ [rr]) := by
              unfold upsert
              rw [if_neg hzc, hb]
              simp only [Bool.false_eq_true, if_false]
              cases hg : z.get rr.key with
              | none =>
                right
                have : rrsetOf z rr.key = [] := by simp [rrsetOf, hg]
                simp [rsInsert_nil, this]
              | some rs =>
                have hrs : rrsetOf z rr.key = rs := by simp [rrsetOf, hg]
                rw [hrs] at hins ⊢
                rcases hins with h1 | h1
                · left; simp [h1]
                · right; simp [h1]
            rcases hmodel with hm | hm
            · -- the code ignored the RR: the set holds the very same record (TTL included)
              rw [hm]
              have hnone : replaceDup rr (rrsetOf z rr.key) = none := by
                -- from `upsert` = unchanged, `insert` returned false
                cases hr : replaceDup rr (rrsetOf z rr.key) with
                | none => rfl
                | some p =>
                  exfalso
                  -- then `insert` succeeded and the zone changed at `rr.key`
                  have htrue : (rsInsert (rrsetOf z rr.key) rr).2 = true := by
                    unfold rsInsert; simp only [hpre, hr]
                    obtain ⟨ys, b⟩ := p; cases b <;> rfl
                  have hne := rsInsert_true_ne _ rr htrue
                  have hup : (upsert c.zclass z rr).1 = z.set rr.key (rsInsert (rrsetOf z rr.key) rr).1 := by
                    unfold upsert
                    rw [if_neg hzc, hb]
                    simp only [Bool.false_eq_true, if_false]
                    cases hg : z.get rr.key with
                    | none =>
                      have : rrsetOf z rr.key = [] := by simp [rrsetOf, hg]
                      rw [this]
                    | some rs =>
                      have hrs : rrsetOf z rr.key = rs := by simp [rrsetOf, hg]
                      rw [hrs] at htrue ⊢
                      simp [htrue]
                  rw [hup] at hm
                  have := congrArg (fun zz => rrsetOf zz rr.key) hm
                  simp only [rrsetOf_set, if_true] at this
                  exact hne this
              obtain ⟨x, hx, hxd, hxe, hxt⟩ := replaceDup_none_elim rr _ hnone
              have hxr : x = rr := hsp x hx hxe hxt
              have hany : (rrsetOf z rr.key).any (fun x => x.dataEq rr) = true :=
                List.any_eq_true.mpr ⟨x, hx, hxd⟩
              rw [if_pos hany]
              have hmap : (rrsetOf z rr.key).map (fun x => if x.dataEq rr = true then rr else x) = rrsetOf z rr.key := by
                rw [List.map_congr_left (g := id)]
                · simp
                · intro y hy
                  by_cases hyd : y.dataEq rr = true
                  · have : y = x := distinct_unique hrd y hy x hx
                      (Rec.dataEq_trans hyd (Rec.dataEq_symm hxd))
                    simp [hyd, this, hxr]
                  · simp [hyd]
              rw [hmap]
              exact same_set_self z rr.key
            · rw [hm]
              cases hany : (rrsetOf z rr.key).any (fun x => x.dataEq rr) with
              | true => simp only [if_true]; exact same_refl _
              | false => simp only [Bool.false_eq_true, if_false]; exact same_refl _
  · rw [if_neg hz]
    by_cases ha : rr.cls = C_ANY
    · rw [if_pos ha]
      by_cases h1 : (rr.rtype = T_SOA ∨ rr.rtype = T_NS) ∧ rr.name.toLowercase = c.origin
      · rw [applyRR_any_skip hz ha h1]
        have hne : rr.rtype ≠ T_ANY := by
          rcases h1.1 with h | h <;> (rw [h]; decide)
        rw [if_neg hne, if_pos ⟨h1.2, h1.1⟩]
        exact same_refl z
      · by_cases h2 : rr.rtype = T_ANY
        · rw [applyRR_any_any hz ha h1 h2, if_pos h2]
          intro k
          by_cases ho : rr.name.toLowercase = c.origin
          · rw [if_pos ho]
            have e1 := rrsetOf_filter_key (anyKeep c rr) z k
            have e2 := rrsetOf_filter_key (fun k => decide (k.1 ≠ rr.name.toLowercase ∨ k.2 = T_SOA ∨ k.2 = T_NS)) z k
            rw [e1, e2]
            have : anyKeep c rr k = decide (k.1 ≠ rr.name.toLowercase ∨ k.2 = T_SOA ∨ k.2 = T_NS) := by
              unfold anyKeep; rw [ho]
              by_cases hk : k.1 = c.origin <;> simp [hk]
            rw [this]
          · rw [if_neg ho]
            have e1 := rrsetOf_filter_key (anyKeep c rr) z k
            have e2 := rrsetOf_filter_key (fun k => decide (k.1 ≠ rr.name.toLowercase)) z k
            rw [e1, e2]
            have : anyKeep c rr k = decide (k.1 ≠ rr.name.toLowercase) := by
              unfold anyKeep
              by_cases hk : k.1 = rr.name.toLowercase
              · have : k.1 ≠ c.origin := by rw [hk]; exact ho
                simp [hk, this, ho]
              · simp [hk]
            rw [this]
        · rw [if_neg h2, if_neg (by intro h; exact h1 ⟨h.2, h.1⟩)]
          by_cases he : rr.isEmptyData = true
          · rw [applyRR_any_rrset hz ha h1 h2 he]; exact same_refl _
          · rw [applyRR_any_bad hz ha h1 h2 he] at hok; cases hok
    · rw [if_neg ha]
      by_cases hn : rr.cls = C_NONE
      · rw [if_pos hn]
        simp only [true_or, and_true, true_and]
        cases hg : z.get rr.key with
        | none =>
          rw [applyRR_none_none hz ha hn hg]
          have hrs : rrsetOf z rr.key = [] := by simp [rrsetOf, hg]
          rw [hrs]
          split
          · exact same_refl z
          · split
            · exact same_refl z
            · intro k
              simp only [List.filter_nil, Rfc2136.writeSet, if_true]
              rw [rrsetOf_erase]; split
              · rename_i h; rw [h, hrs]
              · rfl
        | some rs =>
          have hrs : rrsetOf z rr.key = rs := by simp [rrsetOf, hg]
          rw [hrs]
          -- what the RFC writes, seen through `rrsetOf`
          have hwrite : ∀ k, rrsetOf (Rfc2136.writeSet z rr.key (rs.filter fun x => !(x.dataEq rr))) k =
              if k = rr.key then rs.filter (fun x => !(x.dataEq rr)) else rrsetOf z k := by
            intro k
            unfold Rfc2136.writeSet
            split
            · rename_i hnil; rw [rrsetOf_erase, hnil]
            · rw [rrsetOf_set]
          by_cases hs : rr.rtype = T_SOA
          · rw [if_pos hs]
            have : ¬ (rsRemove rs rr).2 = true := by rw [rsRemove_soa rs rr hs]; simp
            rw [applyRR_none_keep hz ha hn hg this]; exact same_refl z
          · rw [if_neg hs]
            by_cases hns : rr.rtype = T_NS ∧ rs.length ≤ 1
            · -- the code protects the last NS whatever its RDATA
              have hkeep : ¬ (rsRemove rs rr).2 = true := by
                unfold rsRemove; rw [if_pos hns]; simp
              rw [applyRR_none_keep hz ha hn hg hkeep]
              split
              · exact same_refl z
              · rename_i hnot
                intro k
                rw [hwrite]
                split
                · rename_i hk'
                  rw [hk', hrs]
                  -- the filter removes nothing (a lone NS that matched would have been protected)
                  match rs, hns.2, hnot with
                  | [], _, _ => rfl
                  | [x], _, hnot =>
                    have : x.dataEq rr = false := by
                      cases h : x.dataEq rr with
                      | false => rfl
                      | true => exact absurd ⟨hns.1, rfl, by simp [h]⟩ hnot
                    simp [this]
                  | _ :: _ :: _, hl, _ => simp at hl
                · rfl
            · have hspec : ¬ (rr.rtype = T_NS ∧ rs.length = 1 ∧ rs.all (fun x => x.dataEq rr) = true) := by
                intro h; exact hns ⟨h.1, by omega⟩
              rw [if_neg hspec]
              have hrem : rsRemove rs rr =
                  (if (rs.filter fun x => !(x.dataEq rr)).length < rs.length
                    then (rs.filter fun x => !(x.dataEq rr), true) else (rs, false)) := by
                unfold rsRemove; rw [if_neg hns, if_neg hs]
              by_cases hlt : (rs.filter fun x => !(x.dataEq rr)).length < rs.length
              · rw [if_pos hlt] at hrem
                have hd : (rsRemove rs rr).2 = true := by rw [hrem]
                rw [applyRR_none_del hz ha hn hg hd, hrem]
                intro k
                rw [hwrite]
                simp only
                split
                · rename_i hnil; rw [rrsetOf_erase, hnil]
                · rw [rrsetOf_set]
              · rw [if_neg hlt] at hrem
                have hd : ¬ (rsRemove rs rr).2 = true := by rw [hrem]; simp
                rw [applyRR_none_keep hz ha hn hg hd]
                have := filter_eq_self_of_length _ _ hlt
                intro k
                rw [hwrite, this]
                split
                · rename_i hk'; rw [hk', hrs]
                · rfl
      · rw [applyRR_other hz ha hn] at hok; cases hok

/-- the whole Update Section: every step of the code's loop, taken from the state the code has
reached, is the RFC's step from that state -/
def StepwiseRfc (c : Cfg) : Zone → List Rec → Prop
  | _, [] => True
  | z, rr :: rest =>
    Rfc2136.Zone.Same (applyRR c z rr).1 (Rfc2136.stepRR true c z rr) ∧ StepwiseRfc c (applyRR c z rr).1 rest

/-- `Faithful` along the run of the loop -/
def FaithfulRun (c : Cfg) : Zone → List Rec → Prop
  | _, [] => True
  | z, rr :: rest => Faithful c z rr ∧ FaithfulRun c (applyRR c z rr).1 rest

/-- **apply_eq_rfc** (whole Update Section of an accepted message, any well-formed zone) -/
theorem apply_eq_rfc_partial (c : Cfg) (recs : List Rec) : ∀ z, KInv c z → Upd.preScan c recs = none →
    FaithfulRun c z recs → StepwiseRfc c z recs := by
  induction recs with
  | nil => intro z _ _ _; trivial
  | cons rr rest ih =>
    intro z hk hp hf
    unfold Upd.preScan at hp
    cases h1 : Upd.prescanOne c rr with
    | some e => simp [h1] at hp
    | none =>
      simp only [h1] at hp
      obtain ⟨u, hu⟩ := applyRR_some_of_prescan c z rr h1
      exact ⟨applyRR_eq_rfc_partial c z rr u hk hu hf.1, ih _ (kinv_applyRR c z rr hk) hp hf.2⟩

/-! ## 5. A decidable check that establishes `KInv` (used for the examples; the harness' initial
zones pass it) -/

def kinvCheck (c : Cfg) (z : Zone) : Bool :=
  (match z.get (c.origin, T_SOA) with
   | some [r] => (match r.rdata with | .soa _ _ => true | _ => false) && r.key == (c.origin, T_SOA) && r.cls == c.zclass
   | _ => false) &&
  (z.all fun e => e.1.2 != T_SOA || e.1.1 == c.origin) &&
  (match z.get (c.origin, T_NS) with
   | some rs => !rs.isEmpty
   | none => false) &&
  (z.all fun e => e.1.2 != T_CNAME || z.all fun e' =>
      e'.1.1 != e.1.1 || e'.1.2 == T_CNAME || e'.1.2 == T_NSEC || e'.1.2 == T_NSEC3) &&
  decide ((z.map (·.1)).Nodup) &&
  (z.all fun e => !e.2.isEmpty && decide (e.2.Pairwise fun a b => a.dataEq b = false) &&
    (e.1.2 != T_CNAME && e.1.2 != T_ANAME || decide (e.2.length ≤ 1)))

theorem kinv_of_check (c : Cfg) (z : Zone) (h : kinvCheck c z = true) : KInv c z := by
  unfold kinvCheck at h
  simp only [Bool.and_eq_true] at h
  obtain ⟨⟨⟨⟨⟨h1, h1b⟩, h2⟩, h3⟩, h4⟩, h5⟩ := h
  rw [List.all_eq_true] at h5
  refine ⟨?_, ?_, ?_, ?_, by simpa using h4, ?_, ?_, ?_⟩
  · split at h1
    · rename_i r hg
      simp only [Bool.and_eq_true, beq_iff_eq] at h1
      obtain ⟨⟨ha, hb⟩, hc⟩ := h1
      split at ha
      · rename_i s rest hr; exact ⟨r, s, rest, hg, hr, hb, hc⟩
      · cases ha
    · cases h1
  · intro name hne
    cases hg : z.get (name, T_SOA) with
    | none => rfl
    | some v =>
      exfalso
      rw [List.all_eq_true] at h1b
      have := h1b _ (get_mem hg)
      simp at this
      exact hne this
  · split at h2
    · rename_i rs hg
      refine ⟨rs, hg, ?_⟩
      intro hnil; rw [hnil] at h2; simp at h2
    · cases h2
  · intro name t hc ht1 ht2 ht3
    obtain ⟨v, hv⟩ := Option.isSome_iff_exists.mp hc
    cases hg : z.get (name, t) with
    | none => rfl
    | some w =>
      exfalso
      rw [List.all_eq_true] at h3
      have := h3 _ (get_mem hv)
      simp only [bne_self_eq_false, Bool.false_or, List.all_eq_true] at this
      have := this _ (get_mem hg)
      simp [ht1, ht2, ht3] at this
  · intro e he hnil
    have := h5 e he
    simp [hnil] at this
  · intro e he
    have := h5 e he
    simp only [Bool.and_eq_true, decide_eq_true_eq] at this
    exact this.1.2
  · intro e he ht
    have := h5 e he
    simp only [Bool.and_eq_true, Bool.or_eq_true, decide_eq_true_eq, bne_iff_ne] at this
    rcases this.2 with h | h
    · rcases ht with ht | ht
      · exact absurd ht h.1
      · exact absurd ht h.2
    · exact h

/-! ## 6. Prerequisites: where the query-path lookup is the RFC's RRset test

`verify_prerequisites` asks `lookup()`.  For the four value-independent rows of table 3.2.4 the
code's per-RR verdict *is* RFC 2136 §3.2.5's under `ExactLookup` (no referral above the name, no
CNAME / ANAME at it, no wildcard standing in for a missing RRset) — outside it: finding
`prereq-uses-query-lookup`.  The value-dependent row is not set equality in the code at all
(finding `prereq-value-dependent-subset`). -/

structure ExactLookup (z : Zone) (name : Name) (t : Nat) : Prop where
  noDeleg : delegationWalk z t name name.labels = none
  noAlias : ∀ e ∈ z, e.1.1 = name → e.1.2 ≠ T_CNAME ∧ e.1.2 ≠ T_ANAME ∧ e.1.2 < 65535
  noWild : z.get (name, t) = none →
    (name.isWildcard || name.labels.isEmpty) = true ∨ wildcardWalk z t name.labels = none

theorem exactFind_eq_get (z : Zone) (name : Name) (t : Nat)
    (h : ∀ e ∈ z, e.1.1 = name → e.1.2 ≠ T_CNAME ∧ e.1.2 ≠ T_ANAME ∧ e.1.2 < 65535) :
    exactFind z name t = z.get (name, t) := by
  induction z with
  | nil => rfl
  | cons e z ih =>
    obtain ⟨k, v⟩ := e
    have ih' := ih (fun e he => h e (List.mem_cons_of_mem _ he))
    unfold exactFind at ih' ⊢
    rw [List.find?_cons, get_cons]
    by_cases hk : k = (name, t)
    · subst hk
      have := (h ((name, t), v) List.mem_cons_self rfl).2.2
      simp [this]
    · rw [if_neg hk]
      have hfalse : decide (k.1 = name ∧ k.2 < 65535 ∧
          (k.2 = t ∨ k.2 = T_CNAME ∨ ((t = T_A ∨ t = 28) ∧ k.2 = T_ANAME))) = false := by
        rw [decide_eq_false_iff_not]
        rintro ⟨hn, _, hor⟩
        obtain ⟨h1, h2, _⟩ := h (k, v) List.mem_cons_self hn
        rcases hor with ht | hc | ⟨_, ha⟩
        · exact hk (Prod.ext hn ht)
        · exact h1 hc
        · exact h2 ha
      simp only [hfalse]
      exact ih'

/-- under `ExactLookup` the records the prerequisite test sees are the RRset `<name, t>` itself -/
theorem lookupRecs_exact (z : Zone) (name : Name) (t : Nat) (h : ExactLookup z name t)
    (h1 : t ≠ T_ANY) (h2 : t ≠ T_AXFR) : lookupRecs z name t = rrsetOf z (name, t) := by
  unfold lookupRecs innerLookup lookupNoWild
  rw [if_neg h2, if_neg h1]
  simp only [h.noDeleg, exactFind_eq_get z name t h.noAlias]
  cases hg : z.get (name, t) with
  | some rs => simp [rrsetOf, hg]
  | none =>
    simp only [rrsetOf, hg, Option.getD_none]
    rcases h.noWild hg with hw | hw
    · simp [hw]
    · split
      · rfl
      · simp [hw]

/-- **prereq_rrset_eq_rfc_partial** — "RRset exists / does not exist (value independent)":
class ANY or NONE, type not ANY.  Same verdict, same rcode as RFC 2136 §3.2.5. -/
theorem prereq_rrset_eq_rfc_partial (c : Cfg) (z : Zone) (r : Rec)
    (hcls : r.cls = C_ANY ∨ r.cls = C_NONE) (ht : r.rtype ≠ T_ANY) (hax : r.rtype ≠ T_AXFR)
    (hnull : r.rtype ≠ T_NULL) (hx : ExactLookup z r.name.toLowercase r.rtype) :
    Upd.prereqOne c z r = Rfc2136.prereqOne c z r := by
  have hempty : r.isEmptyData = Rfc2136.rdlengthZero r := by
    unfold Rec.isEmptyData Rfc2136.rdlengthZero
    have : (r.rtype == T_NULL) = false := by simpa using hnull
    simp [this]
  have hl := lookupRecs_exact z r.name.toLowercase r.rtype hx ht hax
  unfold Upd.prereqOne Rfc2136.prereqOne
  simp only [hl, hempty, ht, if_false]
  have hie : ∀ l : List Rec, l.isEmpty = true ↔ l = [] := fun l => by cases l <;> simp
  by_cases h1 : r.ttl ≠ 0
  · simp [h1]
  · simp only [h1, if_false]
    by_cases h2 : (!Name.zoneOf c.origin r.name) = true
    · simp [h2]
    · simp only [h2, if_false]
      by_cases ha : r.cls = C_ANY
      · simp only [ha, if_true]
        cases hrd : Rfc2136.rdlengthZero r with
        | false => simp
        | true =>
          simp only [Bool.not_true, Bool.false_eq_true, if_true, if_false]
          by_cases hn : rrsetOf z (r.name.toLowercase, r.rtype) = []
          · simp [hn]
          · have : (rrsetOf z (r.name.toLowercase, r.rtype)).isEmpty = false := by
              cases h : (rrsetOf z (r.name.toLowercase, r.rtype)).isEmpty with
              | false => rfl
              | true => exact absurd ((hie _).mp h) hn
            simp [hn, this]
      · have hn : r.cls = C_NONE := by rcases hcls with h | h; exact absurd h ha; exact h
        have hne : ¬ C_NONE = C_ANY := by decide
        simp only [hn, hne, if_false, if_true]
        cases hrd : Rfc2136.rdlengthZero r with
        | false => simp
        | true =>
          simp only [Bool.not_true, Bool.false_eq_true, if_true, if_false]
          by_cases hnil : rrsetOf z (r.name.toLowercase, r.rtype) = []
          · simp [hnil]
          · have : (rrsetOf z (r.name.toLowercase, r.rtype)).isEmpty = false := by
              cases h : (rrsetOf z (r.name.toLowercase, r.rtype)).isEmpty with
              | false => rfl
              | true => exact absurd ((hie _).mp h) hnil
            simp [hnil, this]

/-- "each message's prerequisites are judged against the zone as left by the earlier messages":
in a history the message after `h₁` is processed by `update` on exactly `runAll h₁`. -/
theorem runAll_append (c : Cfg) (h1 h2 : List Msg) : ∀ z, runAll c z (h1 ++ h2) = runAll c (runAll c z h1) h2 := by
  induction h1 with
  | nil => intro z; rfl
  | cons m ms ih => intro z; simp only [List.cons_append, runAll]; exact ih _

theorem history_step (c : Cfg) (z : Zone) (h1 : List Msg) (m : Msg) :
    runAll c z (h1 ++ [m]) = (update c true (runAll c z h1) m).1 := by
  rw [runAll_append]; rfl

/-! ## 7. Concrete zone: non-vacuity, the regression examples of the seven repaired findings,
and the counter-examples that remain

Zone `e.` with SOA (serial `s`), NS ×2, `a.e.` A ×1 (TTL 300), `c.e.` CNAME. -/

def exOrigin : Name := { labels := [[101]], fqdn := true }
def exCfg : Cfg := { origin := exOrigin }
def nm (l : Nat) : Name := { labels := [[l], [101]], fqdn := true }
def soaRec (s : Nat) : Rec := { name := exOrigin, rtype := T_SOA, cls := C_IN, ttl := 3600, rdata := .soa s 0 }
def nsRec (i : Nat) : Rec := { name := exOrigin, rtype := T_NS, cls := C_IN, ttl := 3600, rdata := .bytes [i] }
def aRec (l i ttl : Nat) : Rec := { name := nm l, rtype := T_A, cls := C_IN, ttl := ttl, rdata := .bytes [i] }
def cnameRec (l i ttl : Nat) : Rec := { name := nm l, rtype := T_CNAME, cls := C_IN, ttl := ttl, rdata := .bytes [i] }
def mkZone (recs : List Rec) : Zone := recs.foldl (fun z r => (upsert C_IN z r).1) []
def exZone (s : Nat) : Zone := mkZone [soaRec s, nsRec 1, nsRec 2, aRec 97 1 300, cnameRec 99 97 300]
def upd (us : List Rec) : Msg := { prereqs := [], updates := us }
def soaKey : Key := (exOrigin, T_SOA)

/-- the example zone is well-formed (so the hypotheses of the theorems above are satisfiable) -/
example : KInv exCfg (exZone 100) := kinv_of_check _ _ (by decide)

/-- an accepted, content-changing message: NOERROR, serial 100 → 101, invariant holds again -/
example : (update exCfg true (exZone 100) (upd [aRec 98 2 300])).2.2.1 = .ok true ∧
    serial (update exCfg true (exZone 100) (upd [aRec 98 2 300])).1 exOrigin = 101 ∧
    kinvCheck exCfg (update exCfg true (exZone 100) (upd [aRec 98 2 300])).1 = true := by decide

/-- `Faithful` is satisfiable by a non-trivial add -/
example : Faithful exCfg (exZone 100) (aRec 98 2 300) where
  types := fun _ => by decide
  soaDefined := fun _ h => absurd h (by decide)
  spelling := fun _ _ => by decide

/-- a failing prerequisite (`b.e.` is not in use) rejects the message and nothing changes -/
example : (update exCfg true (exZone 100)
      { prereqs := [{ name := nm 98, rtype := T_ANY, cls := C_ANY, ttl := 0, rdata := .empty }],
        updates := [aRec 98 2 300] }).2.2.1 = .rc .nxDomain := by decide

/-! ### regression examples — the seven repaired findings (each is also a corpus case that the
real code must now handle this way) -/

/-- fixed 23d5f1e (was `soa-serial-increment-overflow`): at serial `u32::MAX` the bump wraps to 0,
no panic, the zone stays well-formed -/
example : (update exCfg true (exZone U32_MAX) (upd [aRec 98 2 300])).2.2.1 = .ok true ∧
    serial (update exCfg true (exZone U32_MAX) (upd [aRec 98 2 300])).1 exOrigin = 0 ∧
    kinvCheck exCfg (update exCfg true (exZone U32_MAX) (upd [aRec 98 2 300])).1 = true := by decide

/-- fixed aeeb945 (was `soa-serial-plain-compare`): an SOA 2³¹+5 ahead is older by RFC 1982 and
is ignored; after a wrap-around the newer serial 5 replaces 4294967280 (then +1) -/
example : (update exCfg true (exZone 100) (upd [soaRec 2147483753])).2.2.1 = .ok false ∧
    (update exCfg true (exZone 100) (upd [soaRec 2147483753])).1 = exZone 100 ∧
    serialLt 4294967280 5 = true ∧
    (update exCfg true (exZone 4294967280) (upd [soaRec 5])).2.2.1 = .ok true ∧
    serial (update exCfg true (exZone 4294967280) (upd [soaRec 5])).1 exOrigin = 6 := by decide

/-- fixed 4a1b96f (was `non-apex-soa-added`): an SOA RR for `a.e.` is ignored -/
example : applyRR exCfg (exZone 100) { soaRec 7 with name := nm 97 } = (exZone 100, some false) := by
  decide

/-- fixed 4cf469c (was `duplicate-rdata-ttl-not-replaced`): same RDATA, new TTL — replaced, as the
RFC says -/
example :
    rrsetOf (applyRR exCfg (exZone 100) (aRec 97 1 600)).1 (nm 97, T_A) = [aRec 97 1 600] ∧
    rrsetOf (Rfc2136.stepRR true exCfg (exZone 100) (aRec 97 1 600)) (nm 97, T_A) = [aRec 97 1 600] := by
  decide

/-- fixed 24305ec (was `identical-cname-readd-bumps-serial`): re-adding the CNAME that is already
there is not an update: `Ok(false)`, serial stays -/
example : (update exCfg true (exZone 100) (upd [cnameRec 99 97 300])).2.2.1 = .ok false ∧
    (update exCfg true (exZone 100) (upd [cnameRec 99 97 300])).1 = exZone 100 := by decide

/-- the zone after `a.e. A` lost its only record by a class-NONE delete -/
def emptiedZone : Zone := (update exCfg true (exZone 100) (upd [{ aRec 97 1 0 with cls := C_NONE }])).1

/-- fixed d90c741 (was `emptied-rrset-left-in-zone`): the entry is gone, a CNAME can take the
name, and there is nothing left whose deletion could bump the serial -/
example :
    let del : Rec := { name := nm 97, rtype := T_A, cls := C_ANY, ttl := 0, rdata := .empty }
    emptiedZone.get (nm 97, T_A) = none ∧
    rrsetOf (applyRR exCfg emptiedZone (cnameRec 97 98 300)).1 (nm 97, T_CNAME) = [cnameRec 97 98 300] ∧
    (update exCfg true emptiedZone (upd [del])).2.2.1 = .ok false := by decide

/-- fixed 1375dd7 (was `type-65535-escapes-cname-check`): a CNAME is refused beside a TYPE65535
RRset -/
example :
    let r1 : Rec := { name := nm 98, rtype := 65535, cls := C_IN, ttl := 300, rdata := .bytes [0] }
    let z := (update exCfg true (exZone 100) (upd [r1, cnameRec 98 97 300])).1
    rrsetOf z (nm 98, T_CNAME) = [] ∧ rrsetOf z (nm 98, 65535) ≠ [] := by decide

/-! ### what remains -/

/-- A message whose RRs change the zone and undo it again bumps the serial although the net
content is the same (the RFC's own processing would, too): `SomeStepChanged`, not "net content
changed", is what `updated` means. -/
theorem net_noop_bumps_serial :
    let add := aRec 98 2 300
    let del : Rec := { name := nm 98, rtype := T_A, cls := C_ANY, ttl := 0, rdata := .empty }
    (update exCfg true (exZone 100) (upd [add, del])).2.2.1 = .ok true ∧
    serial (update exCfg true (exZone 100) (upd [add, del])).1 exOrigin = 101 ∧
    (update exCfg true (exZone 100) (upd [add, del])).1.erase soaKey = (exZone 100).erase soaKey := by
  decide

/-- Two SOA serials exactly 2³¹ apart are incomparable in RFC 1982; `!(existing < new)` ignores
the Update RR, the literal "lower or equal" of RFC 2136 §3.4.2.2 would not (`Faithful.soaDefined`). -/
theorem soa_serial_undefined_ignored :
    serialLt 100 2147483748 = false ∧ serialLt 2147483748 100 = false ∧
    (applyRR exCfg (exZone 100) (soaRec 2147483748)).1 = exZone 100 ∧
    rrsetOf (Rfc2136.stepRR true exCfg (exZone 100) (soaRec 2147483748)) soaKey = [soaRec 2147483748] := by
  decide

/-- open finding `prereq-uses-query-lookup`: "RRset exists (value independent)" for `c.e. A` passes
because the query-path lookup answers with the CNAME at `c.e.`; RFC 2136 §3.2.5: NXRRSET -/
theorem prereq_uses_query_lookup_cex :
    let p : Rec := { name := nm 99, rtype := T_A, cls := C_ANY, ttl := 0, rdata := .empty }
    verifyPrereqs exCfg (exZone 100) [p] = none ∧
    Rfc2136.prerequisites exCfg (exZone 100) [p] = some .nxRRSet := by decide

/-- open finding `prereq-value-dependent-subset`: "RRset exists (value dependent)" with one of the
two apex NS passes (`any(rr == require)` per RR); RFC 2136 §3.2.3 wants set equality: NXRRSET -/
theorem prereq_value_subset_cex :
    let p : Rec := { nsRec 1 with ttl := 0 }
    verifyPrereqs exCfg (exZone 100) [p] = none ∧
    Rfc2136.prerequisites exCfg (exZone 100) [p] = some .nxRRSet := by decide

/-- `ExactLookup` is satisfiable on the example zone (a host name), and the theorem then gives
RFC's NXRRSET for "RRset exists: a.e. TXT" -/
example : ExactLookup (exZone 100) (nm 97) 16 where
  noDeleg := by decide
  noAlias := by decide
  noWild := fun _ => Or.inr (by decide)

example : verifyPrereqs exCfg (exZone 100)
    [{ name := nm 97, rtype := 16, cls := C_ANY, ttl := 0, rdata := .empty }] = some .nxRRSet := by decide

end HickoryVerif.C12
