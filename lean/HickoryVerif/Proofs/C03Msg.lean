/-
C03 — size-limited encoding truncates cleanly.  STAGE 2: whole messages.

About the model of `Record::emit`, `emit_message_parts`, `Message::emit` and
`MessageResponse::encode` (`Model/MessageEmit.lean`):

* `appender_emitRecord`, `appender_emitQuery`, `appender_emitRData` : every modelled emitter only
  ever appends (`Appender` of `Proofs/C03.lean`), so `emitIter_prefix` / `emitIter_above` apply to
  every section of a message;
* `emitMessageParts_ok` : a successful `emit_message_parts` leaves the encoder above where it
  started, within the limit, with the twelve header octets equal to `headerBytes md' counts`, where
  `counts` are the numbers of records actually written (each at most the section's length) and
  `md'.tc = md.tc ∨ (some record was dropped)`;
* `emitLimited_len` : for every message and every limit, `Message::emit` under `set_max_size(L)`
  either fails or yields at most `L` octets;  `emitLimited_header` : the header of the output;
* `server_udp_len`, `server_tcp_len` : what `MessageResponse::encode` hands to the stream is at
  most `max(512, advertised payload)` octets over UDP and at most 65 535 otherwise, the SERVFAIL
  fallback included.
-/
import HickoryVerif.Proofs.C03
import HickoryVerif.Model.MessageEmit
namespace HickoryVerif.C03
open HickoryVerif HickoryVerif.Name HickoryVerif.C02 HickoryVerif.Wire

/-! ## stage 2: whole messages -/

/-- `emit_iter` keeps `Above` relative to ANY rollback point below it, in every outcome -/
theorem emitIterFrom_above {base B P M} : ∀ (items : List (Enc → ERes Unit)) (e1 : Enc) (c : Nat),
    (∀ it ∈ items, Appender it) → Above base B P M e1 →
    match Enc.emitIterFrom e1 items c with
    | .ok _ e' => Above base B P M e'
    | .err _ e' => Above base B P M e'
    | .panic _ => True
  | [], e1, c, _, ha => by simpa [Enc.emitIterFrom] using ha
  | item :: rest, e1, c, hit, ha => by
    have hitem := hit item (by simp) _ _ _ _ e1 ha
    have hself := hit item (by simp) _ _ _ _ e1 (Above.self e1 ha.stateOK.1 ha.stateOK.2)
    unfold Enc.emitIterFrom
    simp only
    cases hie : item e1 with
    | ok u e2 =>
      rw [hie] at hitem
      exact emitIterFrom_above rest e2 (c + 1) (fun it h' => hit it (by simp [h'])) hitem
    | err kind ef =>
      rw [hie] at hitem hself
      cases kind with
      | maxSize =>
        simp only
        rw [rollback_above ha.stateOK hself.1]
        exact ⟨ha.base_le, ha.app, ha.low, ha.old, ha.ptrs, by simpa using hitem.1.lim, ha.fits⟩
      | notAllWritten c' => exact hitem.1
      | other => exact hitem.1
    | panic s => trivial

theorem seqAll_appender : ∀ (fs : List (Enc → ERes Unit)), (∀ f ∈ fs, Appender f) → Appender (seqAll fs)
  | [], _ => by
    intro base B P M e ha
    simpa [seqAll, emitNothing] using ha
  | f :: fs, h => by
    unfold seqAll
    exact appender_seq (h f (by simp)) (seqAll_appender fs (fun g hg => h g (by simp [hg])))

theorem appender_nothing : Appender emitNothing := by
  intro base B P M e ha; simpa [emitNothing] using ha

theorem appender_errOther (f : Enc → ERes Unit) (c : Prop) [Decidable c] (hf : Appender f) :
    Appender (fun e => if c then .err .other e else f e) := by
  intro base B P M e ha
  by_cases hc : c
  · simp only [hc, ↓reduceIte]; exact ⟨ha, by intro c; simp⟩
  · simp only [hc, ↓reduceIte]; exact hf base B P M e ha

theorem appender_emitPairs : ∀ (b : Bytes), Appender (emitPairs b)
  | [] => by unfold emitPairs; exact appender_nothing
  | [_] => by unfold emitPairs; exact appender_nothing
  | a :: b :: rest => by
    unfold emitPairs
    exact appender_seq (appender_emitU16 _) (appender_emitPairs rest)

theorem appender_emitOptVal (v : OptVal) : Appender (emitOptVal v) := by
  cases v with
  | dau algs =>
    unfold emitOptVal
    exact seqAll_appender _ (by
      intro f hf; simp only [List.mem_map] at hf; obtain ⟨a, _, rfl⟩ := hf; exact appender_emitU8 a)
  | subnet family sp scope addr =>
    unfold emitOptVal
    refine seqAll_appender _ ?_
    intro f hf
    simp only [List.mem_cons, List.not_mem_nil, or_false] at hf
    rcases hf with rfl | rfl | rfl | rfl
    · exact appender_emitU16 _
    · exact appender_emitU8 _
    · exact appender_emitU8 _
    · intro base B P M e ha
      by_cases hc : subnetAddrLen sp ≤ addr.length
      · simp only [hc, ↓reduceIte]; exact appender_emitSlice _ base B P M e ha
      · simp only [hc, ↓reduceIte]; exact ⟨ha, by intro c; simp⟩
  | nsid d => exact appender_emitSlice d
  | unknown c d => exact appender_emitSlice d

theorem appender_emitOptEntries (os : List OptEntry) : Appender (emitOptEntries os) := by
  unfold emitOptEntries
  refine seqAll_appender _ ?_
  intro f hf
  simp only [List.mem_map] at hf
  obtain ⟨o, _, rfl⟩ := hf
  refine seqAll_appender _ ?_
  intro g hg
  simp only [List.mem_cons, List.not_mem_nil, or_false] at hg
  rcases hg with rfl | rfl | rfl
  · exact appender_emitU16 _
  · exact appender_emitU16 _
  · exact appender_emitOptVal _

theorem appender_emitTypeSet (ts : TypeSet) : Appender (emitTypeSet ts) := by
  unfold emitTypeSet
  cases ts.orig with
  | some bs => exact appender_emitSlice bs
  | none =>
    refine seqAll_appender _ ?_
    intro f hf
    simp only [List.mem_map] at hf
    obtain ⟨wb, _, rfl⟩ := hf
    refine seqAll_appender _ ?_
    intro g hg
    simp only [List.mem_append, List.mem_cons, List.not_mem_nil, or_false, List.mem_map] at hg
    rcases hg with (rfl | rfl) | ⟨b, _, rfl⟩
    · exact appender_emitU8 _
    · exact appender_emitU8 _
    · exact appender_emitU8 _

theorem appender_emitSvcVal (v : SvcVal) : Appender (emitSvcVal v) := by
  have eo : ∀ (c : Prop) [Decidable c] (f : Enc → ERes Unit), Appender f →
      Appender (fun e => if c then .err .other e else f e) := fun c _ f hf => appender_errOther f c hf
  cases v with
  | mandatory keys =>
    refine eo _ _ (seqAll_appender _ ?_)
    intro f hf; simp only [List.mem_map] at hf; obtain ⟨k, _, rfl⟩ := hf; exact appender_emitU16 k
  | alpn ids =>
    refine eo _ _ (seqAll_appender _ ?_)
    intro f hf; simp only [List.mem_map] at hf; obtain ⟨k, _, rfl⟩ := hf; exact appender_emitCharacterData k
  | noDefaultAlpn => exact appender_nothing
  | port p => exact appender_emitU16 p
  | ipv4hint addrs =>
    refine seqAll_appender _ ?_
    intro f hf; simp only [List.mem_map] at hf; obtain ⟨k, _, rfl⟩ := hf; exact appender_emitSlice k
  | ech d => exact appender_emitSlice d
  | ipv6hint addrs =>
    refine seqAll_appender _ ?_
    intro f hf; simp only [List.mem_map] at hf; obtain ⟨k, _, rfl⟩ := hf; exact appender_emitPairs k
  | unknown d => exact appender_emitSlice d

theorem appender_emitSvcParams : ∀ (ps : List (Nat × SvcVal)) (last : Option Nat), Appender (emitSvcParams last ps)
  | [], last => by unfold emitSvcParams; exact appender_nothing
  | (k, v) :: rest, last => by
    unfold emitSvcParams
    exact appender_errOther _ _ (appender_seq (appender_emitU16 k)
      (appender_seq (appender_lenPrefixedTry (appender_emitSvcVal v)) (appender_emitSvcParams rest (some k))))

/-- every modelled RDATA emitter only ever appends -/
theorem appender_emitRData (t : Nat) (d : RData) (hm : d.emitModelled = true) : Appender (emitRData t d) := by
  cases d <;> first | (simp [RData.emitModelled] at hm; done) | skip
  all_goals unfold emitRData
  case a b => exact appender_emitSlice b
  case aaaa b => exact appender_emitPairs b
  case name n => exact appender_withRdataBehavior (appender_emitName n) _
  case mx p n =>
    refine appender_withRdataBehavior (seqAll_appender _ ?_) _
    intro f hf
    simp only [List.mem_cons, List.not_mem_nil, or_false] at hf
    rcases hf with rfl | rfl
    · exact appender_emitU16 _
    · exact appender_emitName _
  case soa m r s rf rt ex mi =>
    refine appender_withRdataBehavior (seqAll_appender _ ?_) _
    intro f hf
    simp only [List.mem_cons, List.not_mem_nil, or_false] at hf
    rcases hf with rfl | rfl | rfl | rfl | rfl | rfl | rfl
    · exact appender_emitName _
    · exact appender_emitName _
    all_goals exact appender_emitU32 _
  case txt ss =>
    refine seqAll_appender _ ?_
    intro f hf
    simp only [List.mem_map] at hf
    obtain ⟨s, _, rfl⟩ := hf
    exact appender_emitCharacterData s
  case srv p w port n =>
    refine appender_withRdataBehavior (seqAll_appender _ ?_) _
    intro f hf
    simp only [List.mem_cons, List.not_mem_nil, or_false] at hf
    rcases hf with rfl | rfl | rfl | rfl
    · exact appender_emitU16 _
    · exact appender_emitU16 _
    · exact appender_emitU16 _
    · exact appender_emitName _
  case hinfo c o =>
    refine seqAll_appender _ ?_
    intro f hf
    simp only [List.mem_cons, List.not_mem_nil, or_false] at hf
    rcases hf with rfl | rfl <;> exact appender_emitCharacterData _
  case null d => exact appender_emitSlice d
  case unknown c d => exact appender_emitSlice d
  case opt os => exact appender_withRdataBehavior (appender_emitOptEntries os) _
  case update0 t' => exact appender_nothing
  case zero => exact appender_nothing
  case tsig alg time fudge mac oid err other =>
    refine appender_withRdataBehavior (seqAll_appender _ ?_) _
    intro f hf
    simp only [List.mem_cons, List.not_mem_nil, or_false] at hf
    rcases hf with rfl | rfl | rfl | rfl | rfl | rfl | rfl | rfl | rfl | rfl
    · exact appender_emitName _
    · exact appender_errOther _ _ (appender_emitU16 _)
    · exact appender_emitU32 _
    · exact appender_emitU16 _
    · exact appender_errOther _ _ (appender_emitU16 _)
    · exact appender_emitSlice _
    · exact appender_emitU16 _
    · exact appender_emitU16 _
    · exact appender_errOther _ _ (appender_emitU16 _)
    · exact appender_emitSlice _
  case openpgpkey d => exact appender_emitSlice d
  case ds tag alg dt dg =>
    refine seqAll_appender _ ?_
    intro f hf
    simp only [List.mem_cons, List.not_mem_nil, or_false] at hf
    rcases hf with rfl | rfl | rfl | rfl
    all_goals first | exact appender_emitU16 _ | exact appender_emitU8 _ | exact appender_emitSlice _
  case dnskey cd flags alg key =>
    refine seqAll_appender _ ?_
    intro f hf
    simp only [List.mem_cons, List.not_mem_nil, or_false] at hf
    rcases hf with rfl | rfl | rfl | rfl
    all_goals first | exact appender_emitU16 _ | exact appender_emitU8 _ | exact appender_emitSlice _
  case tlsa u sel m d =>
    refine seqAll_appender _ ?_
    intro f hf
    simp only [List.mem_cons, List.not_mem_nil, or_false] at hf
    rcases hf with rfl | rfl | rfl | rfl
    all_goals first | exact appender_emitU16 _ | exact appender_emitU8 _ | exact appender_emitSlice _
  case sshfp a f' d =>
    refine seqAll_appender _ ?_
    intro f hf
    simp only [List.mem_cons, List.not_mem_nil, or_false] at hf
    rcases hf with rfl | rfl | rfl
    all_goals first | exact appender_emitU16 _ | exact appender_emitU8 _ | exact appender_emitSlice _
  case cert ct tag alg d =>
    refine appender_withRdataBehavior (seqAll_appender _ ?_) _
    intro f hf
    simp only [List.mem_cons, List.not_mem_nil, or_false] at hf
    rcases hf with rfl | rfl | rfl | rfl
    all_goals first | exact appender_emitU16 _ | exact appender_emitU8 _ | exact appender_emitSlice _
  case nsec3param oo iter salt =>
    refine seqAll_appender _ ?_
    intro f hf
    simp only [List.mem_cons, List.not_mem_nil, or_false] at hf
    rcases hf with rfl | rfl | rfl | rfl | rfl
    all_goals first | exact appender_emitU16 _ | exact appender_emitU8 _ | exact appender_emitSlice _
  case key flags proto alg k =>
    refine seqAll_appender _ ?_
    intro f hf
    simp only [List.mem_cons, List.not_mem_nil, or_false] at hf
    rcases hf with rfl | rfl | rfl | rfl
    all_goals first | exact appender_emitU16 _ | exact appender_emitU8 _ | exact appender_emitSlice _
  case naptr order pref flags services regexp n =>
    refine appender_withRdataBehavior (seqAll_appender _ ?_) _
    intro f hf
    simp only [List.mem_cons, List.not_mem_nil, or_false] at hf
    rcases hf with rfl | rfl | rfl | rfl | rfl | rfl
    · exact appender_emitU16 _
    · exact appender_emitU16 _
    · exact appender_emitCharacterData _
    · exact appender_emitCharacterData _
    · exact appender_emitCharacterData _
    · exact appender_emitName _
  case sig covered alg labels ottl exp inc tag signer sg =>
    refine appender_withRdataBehavior (seqAll_appender _ ?_) _
    intro f hf
    simp only [List.mem_cons, List.not_mem_nil, or_false] at hf
    rcases hf with rfl | rfl
    · refine appender_withRdataBehavior (seqAll_appender _ ?_) _
      intro g hg
      simp only [List.mem_cons, List.not_mem_nil, or_false] at hg
      rcases hg with rfl | rfl | rfl | rfl | rfl | rfl | rfl | rfl
      · exact appender_emitU16 _
      · exact appender_emitU8 _
      · exact appender_emitU8 _
      · exact appender_emitU32 _
      · exact appender_emitU32 _
      · exact appender_emitU32 _
      · exact appender_emitU16 _
      · exact appender_emitName _
    · exact appender_emitSlice _
  case nsec next ts =>
    refine appender_withRdataBehavior (seqAll_appender _ ?_) _
    intro f hf
    simp only [List.mem_cons, List.not_mem_nil, or_false] at hf
    rcases hf with rfl | rfl
    · exact appender_emitName _
    · exact appender_emitTypeSet _
  case nsec3 oo iter salt hash b32 ts =>
    refine seqAll_appender _ ?_
    intro f hf
    simp only [List.mem_cons, List.not_mem_nil, or_false] at hf
    rcases hf with rfl | rfl | rfl | rfl | rfl | rfl | rfl | rfl
    · exact appender_emitU8 _
    · exact appender_emitU8 _
    · exact appender_emitU16 _
    · exact appender_emitU8 _
    · exact appender_emitSlice _
    · exact appender_emitU8 _
    · exact appender_emitSlice _
    · exact appender_emitTypeSet _
  case csync serial flags ts =>
    refine seqAll_appender _ ?_
    intro f hf
    simp only [List.mem_cons, List.not_mem_nil, or_false] at hf
    rcases hf with rfl | rfl | rfl
    · exact appender_emitU32 _
    · exact appender_emitU16 _
    · exact appender_emitTypeSet _
  case svcb prio target ps =>
    refine appender_withRdataBehavior (seqAll_appender _ ?_) _
    intro f hf
    simp only [List.mem_cons, List.not_mem_nil, or_false] at hf
    rcases hf with rfl | rfl | rfl
    · exact appender_emitU16 _
    · exact appender_emitName _
    · exact appender_emitSvcParams _ _
  case caa cr rs tag v =>
    refine appender_withRdataBehavior (seqAll_appender _ ?_) _
    intro f hf
    simp only [List.mem_cons, List.not_mem_nil, or_false] at hf
    rcases hf with rfl | rfl | rfl | rfl
    all_goals first | exact appender_errOther _ _ (appender_emitU8 _) | exact appender_emitU8 _ | exact appender_emitSlice _

/-- **`Record::emit` only ever appends** (so `emitIter_prefix` applies to every section) -/
theorem appender_emitRecord (r : Record) (hm : r.rdata.emitModelled = true) : Appender (emitRecord r) := by
  unfold emitRecord
  refine seqAll_appender _ ?_
  intro f hf
  simp only [List.mem_cons, List.not_mem_nil, or_false] at hf
  rcases hf with rfl | rfl | rfl | rfl | rfl
  · exact appender_emitName _
  · exact appender_emitU16 _
  · exact appender_emitU16 _
  · exact appender_emitU32 _
  · refine appender_lenPrefixed ?_
    split
    · exact appender_nothing
    · exact appender_emitRData _ _ hm

theorem appender_emitQuery (q : Query) : Appender (emitQuery q) := by
  unfold emitQuery
  refine seqAll_appender _ ?_
  intro f hf
  simp only [List.mem_cons, List.not_mem_nil, or_false] at hf
  rcases hf with rfl | rfl | rfl
  · exact appender_emitName _
  · exact appender_emitU16 _
  · exact appender_emitU16 _
theorem emitIterFrom_ok_count : ∀ (items : List (Enc → ERes Unit)) (e : Enc) (c n : Nat) (e' : Enc),
    Enc.emitIterFrom e items c = .ok n e' → n = c + items.length
  | [], e, c, n, e', h => by simp only [Enc.emitIterFrom, ERes.ok.injEq] at h; simp [h.1]
  | item :: rest, e, c, n, e', h => by
    unfold Enc.emitIterFrom at h
    simp only at h
    cases hie : item e with
    | ok u e1 =>
      rw [hie] at h
      have := emitIterFrom_ok_count rest e1 (c + 1) n e' h
      simp only [List.length_cons]; omega
    | err k ef => rw [hie] at h; cases k <;> simp at h
    | panic s => rw [hie] at h; simp at h

/-- one section: `count_was_truncated(section.emit(encoder))?` -/
theorem section_ok {base B P M} {items : List (Enc → ERes Unit)} {e e' : Enc} {n : Nat} {t : Bool}
    (hit : ∀ it ∈ items, Appender it) (ha : Above base B P M e)
    (h : countWasTruncated (e.emitIter items) = .ok (n, t) e') :
    Above base B P M e' ∧ n ≤ items.length ∧ t = decide (n < items.length) ∧ e.offset ≤ e'.offset := by
  have habove : (match Enc.emitIterFrom e items 0 with
      | .ok _ e' => Above base B P M e' ∧ e.offset ≤ e'.offset
      | .err _ e' => Above base B P M e' ∧ e.offset ≤ e'.offset
      | .panic _ => True) := by
    have h1 := emitIterFrom_above (base := base) (B := B) (P := P) (M := M) items e 0 hit ha
    have h2 := emitIterFrom_above items e 0 hit (Above.self e ha.stateOK.1 ha.stateOK.2)
    cases hr : Enc.emitIterFrom e items 0 with
    | ok c e1 => rw [hr] at h1 h2; exact ⟨h1, h2.base_le⟩
    | err k e1 => rw [hr] at h1 h2; exact ⟨h1, h2.base_le⟩
    | panic s => trivial
  unfold Enc.emitIter at h
  cases hr : Enc.emitIterFrom e items 0 with
  | ok c e1 =>
    rw [hr] at h habove
    simp only [countWasTruncated] at h
    split at h
    · simp at h
    · simp only [ERes.ok.injEq, Prod.mk.injEq] at h
      obtain ⟨⟨rfl, rfl⟩, rfl⟩ := h
      have := emitIterFrom_ok_count items e 0 c e1 hr
      exact ⟨habove.1, by omega, by simp; omega, habove.2⟩
  | err k e1 =>
    rw [hr] at h habove
    cases k with
    | notAllWritten c =>
      simp only [countWasTruncated] at h
      split at h
      · simp at h
      · simp only [ERes.ok.injEq, Prod.mk.injEq] at h
        obtain ⟨⟨rfl, rfl⟩, rfl⟩ := h
        obtain ⟨hlt, _⟩ := emitIter_prefix items hit e ha.stateOK.1 ha.stateOK.2 c e1 hr
        exact ⟨habove.1, by omega, by simp [hlt], habove.2⟩
    | maxSize => simp [countWasTruncated] at h
    | other => simp [countWasTruncated] at h
  | panic s => rw [hr] at h; simp [countWasTruncated] at h

/-- the OPT / TSIG record appended with its own `emit_iter` -/
theorem extra_ok {base B P M} {rec : Option Record} {acc r : Nat × Bool} {e e' : Enc}
    (hm : ∀ x ∈ rec, x.rdata.emitModelled = true) (ha : Above base B P M e)
    (h : emitExtra rec acc e = .ok r e') :
    Above base B P M e' ∧ e.offset ≤ e'.offset ∧ ∃ k, k ≤ rec.toList.length ∧ r.1 = acc.1 + k ∧
      r.2 = (acc.2 || decide (k < rec.toList.length)) := by
  cases rec with
  | none =>
    simp only [emitExtra, ERes.ok.injEq] at h
    obtain ⟨rfl, rfl⟩ := h
    exact ⟨ha, Nat.le_refl _, 0, by simp, by simp, by simp⟩
  | some x =>
    simp only [emitExtra] at h
    cases hc : countWasTruncated (e.emitIter [emitRecord x]) with
    | ok ct e1 =>
      rw [hc] at h
      obtain ⟨c, t⟩ := ct
      simp only at h
      split at h
      · simp at h
      · simp only [ERes.ok.injEq] at h
        obtain ⟨rfl, rfl⟩ := h
        obtain ⟨h1, h2, h3, h4⟩ := section_ok (by
          intro it hit; simp only [List.mem_singleton] at hit; subst hit
          exact appender_emitRecord x (hm x rfl)) ha hc
        exact ⟨h1, h4, c, by simpa using h2, rfl, by simp only; rw [h3]; simp⟩
    | err k e1 => rw [hc] at h; simp at h
    | panic s => rw [hc] at h; simp at h

/-! ### the header back-patch -/

/-- `f` overwrites exactly the octets `d` in place (when they fit the buffer and the limit) -/
def Overwrites (f : Enc → ERes Unit) (d : Bytes) : Prop :=
  ∀ e : Enc, e.offset + d.length ≤ e.buf.length → e.offset + d.length ≤ e.maxSize →
    f e = .ok () { e with buf := e.buf.take e.offset ++ d ++ e.buf.drop (e.offset + d.length),
                          offset := e.offset + d.length }

theorem overwrites_emitSlice (d : Bytes) : Overwrites (fun e => e.emitSlice d) d := by
  intro e h1 h2
  simp only
  rw [emitSlice_overwrite _ _ h1, if_neg (by omega)]

theorem splice_splice (b d1 d2 : Bytes) (o : Nat) (h : o + d1.length + d2.length ≤ b.length) :
    (b.take o ++ d1 ++ b.drop (o + d1.length)).take (o + d1.length) ++ d2 ++
        (b.take o ++ d1 ++ b.drop (o + d1.length)).drop (o + d1.length + d2.length) =
      b.take o ++ (d1 ++ d2) ++ b.drop (o + (d1 ++ d2).length) := by
  have hl : (b.take o ++ d1).length = o + d1.length := by
    simp only [List.length_append, List.length_take]; omega
  have h1 : (b.take o ++ d1 ++ b.drop (o + d1.length)).take (o + d1.length) = b.take o ++ d1 :=
    List.take_left' hl
  have h2 : (b.take o ++ d1 ++ b.drop (o + d1.length)).drop (o + d1.length + d2.length)
      = b.drop (o + (d1 ++ d2).length) := by
    have : o + d1.length + d2.length = (b.take o ++ d1).length + d2.length := by rw [hl]
    rw [this, List.drop_append, List.drop_eq_nil_of_le (by omega), List.nil_append, List.drop_drop]
    congr 1
    simp only [List.length_append, List.length_take]; omega
  rw [h1, h2]
  simp only [List.append_assoc]

theorem overwrites_seq {f g : Enc → ERes Unit} {d1 d2 : Bytes} (hf : Overwrites f d1)
    (hg : Overwrites g d2) : Overwrites (Enc.seq f g) (d1 ++ d2) := by
  intro e h1 h2
  simp only [List.length_append] at h1 h2
  unfold Enc.seq
  rw [hf e (by omega) (by omega)]
  simp only
  have hlen : (e.buf.take e.offset ++ d1 ++ e.buf.drop (e.offset + d1.length)).length = e.buf.length := by
    simp only [List.length_append, List.length_take, List.length_drop]; omega
  rw [hg _ (by simp only [hlen]; omega) (by simp only; omega)]
  simp only
  rw [splice_splice e.buf d1 d2 e.offset (by omega)]
  simp [Nat.add_assoc]

theorem overwrites_nothing : Overwrites emitNothing [] := by
  intro e _ _
  simp [emitNothing]

/-- the seven emits of `Header::emit`, run inside the reserved place, overwrite it with
`headerBytes` -/
theorem overwrites_emitHeader (md : Metadata) (c : Counts) : Overwrites (emitHeader md c) (headerBytes md c) := by
  have h := overwrites_seq (overwrites_emitSlice [md.id / 256 % 256, md.id % 256]) <|
    overwrites_seq (overwrites_emitSlice [flagOctet2 md % 256]) <|
    overwrites_seq (overwrites_emitSlice [flagOctet3 md % 256]) <|
    overwrites_seq (overwrites_emitSlice [c.qd / 256 % 256, c.qd % 256]) <|
    overwrites_seq (overwrites_emitSlice [c.an / 256 % 256, c.an % 256]) <|
    overwrites_seq (overwrites_emitSlice [c.ns / 256 % 256, c.ns % 256]) <|
    overwrites_seq (overwrites_emitSlice [c.ar / 256 % 256, c.ar % 256]) overwrites_nothing
  exact h

/-- `Place::<Header>::replace` : the twelve reserved octets become `headerBytes`, nothing else moves -/
theorem placeReplace_header {e : Enc} {start : Nat} (md : Metadata) (c : Counts)
    (h1 : start + 12 ≤ e.buf.length) (h2 : start + 12 ≤ e.maxSize) (h3 : start < e.offset) :
    e.placeReplace start 12 (emitHeader md c) =
      .ok () { e with buf := e.buf.take start ++ headerBytes md c ++ e.buf.drop (start + 12) } := by
  unfold Enc.placeReplace
  simp only
  rw [if_neg (by omega)]
  have := overwrites_emitHeader md c { e with offset := start } (by simpa [headerBytes] using h1)
    (by simpa [headerBytes] using h2)
  rw [this]
  simp only [headerBytes, List.length_cons, List.length_nil, Nat.zero_add, Nat.reduceAdd]
  rw [if_neg (by omega), if_neg (by omega)]

/-! ### `emit_message_parts` -/

/-- the `EmitAndCount` of the question section keeps `Above` when it succeeds -/
def CountAppender (q : Enc → ERes Nat) : Prop :=
  ∀ base B P M e, Above base B P M e → ∀ n e', q e = .ok n e' → Above base B P M e'

theorem CountAppender.mono {q : Enc → ERes Nat} (hq : CountAppender q) {base B P M e n e'}
    (ha : Above base B P M e) (h : q e = .ok n e') : Above base B P M e' ∧ e.offset ≤ e'.offset :=
  ⟨hq _ _ _ _ e ha n e' h, (hq _ _ _ _ e (Above.self e ha.stateOK.1 ha.stateOK.2) n e' h).base_le⟩

theorem countAppender_queries (qs : List Query) :
    CountAppender (fun e => e.emitIter (qs.map emitQuery)) := by
  intro base B P M e ha n e' h
  have := emitIterFrom_above (base := base) (B := B) (P := P) (M := M) (qs.map emitQuery) e 0 (by
    intro it hit; simp only [List.mem_map] at hit; obtain ⟨q, _, rfl⟩ := hit; exact appender_emitQuery q) ha
  simp only [Enc.emitIter] at h
  rw [h] at this
  exact this

/-- the dropped-record indicator of a section -/
def short (written : Nat) (total : Nat) : Bool := decide (written < total)

/-- **`emit_message_parts`, when it succeeds**: the encoder is still above any rollback point it was
above, hence within the limit; the twelve octets reserved at the start hold `headerBytes md' c`;
`c` counts the records actually written, section by section, none more than there were; and
`md'` is `md` with `TC := md.tc ∨ (a record of some section was dropped)`. -/
theorem emitMessageParts_ok {base B P M} {md md' : Metadata} {queries : Enc → ERes Nat}
    {an ns ar : List Record} {edns : Option Edns} {sig : Option Record} {e e' : Enc} {c : Counts}
    (hq : CountAppender queries) (hm : ∀ r ∈ an ++ ns ++ ar ++ sig.toList, r.rdata.emitModelled = true)
    (ha : Above base B P M e)
    (h : emitMessageParts md queries an ns ar edns sig e = .ok (md', c) e') :
    Above base B P M e' ∧ e.offset + 12 ≤ e'.buf.length ∧
      (e'.buf.drop e.offset).take 12 = headerBytes md' c ∧
      c.an ≤ an.length ∧ c.ns ≤ ns.length ∧ c.ar ≤ ar.length + edns.toList.length + sig.toList.length ∧
      md' = { md with tc := md.tc || short c.an an.length || short c.ns ns.length ||
                              short c.ar (ar.length + edns.toList.length + sig.toList.length) } := by
  have hrec : ∀ (rs : List Record), (∀ r ∈ rs, r.rdata.emitModelled = true) →
      ∀ it ∈ rs.map emitRecord, Appender it := by
    intro rs hrs it hit
    simp only [List.mem_map] at hit
    obtain ⟨r, hr, rfl⟩ := hit
    exact appender_emitRecord r (hrs r hr)
  unfold emitMessageParts at h
  -- the header place
  rw [place_app _ _ ha.app] at h
  by_cases hfit : e.maxSize < e.offset + 12
  · simp [hfit] at h
  simp only [hfit, ↓reduceIte] at h
  have ha1 : Above base B P M { e with buf := e.buf ++ List.replicate 12 0, offset := e.offset + 12 } := by
    have := appender_place 12 ha
    rw [place_app _ _ ha.app] at this
    simp only [hfit, ↓reduceIte, Res] at this
    exact this.1
  generalize hE1 : ({ e with buf := e.buf ++ List.replicate 12 0, offset := e.offset + 12 } : Enc) = e1 at h ha1
  have ho1 : e1.offset = e.offset + 12 := by rw [← hE1]
  -- questions
  cases hqr : queries e1 with
  | panic s => rw [hqr] at h; simp at h
  | err k e2 => rw [hqr] at h; simp at h
  | ok qc e2 =>
    rw [hqr] at h
    simp only at h
    obtain ⟨ha2, ho2⟩ := hq.mono ha1 hqr
    -- answers
    cases han : countWasTruncated (e2.emitIter (an.map emitRecord)) with
    | panic s => rw [han] at h; simp at h
    | err k e3 => rw [han] at h; simp at h
    | ok r3 e3 =>
      rw [han] at h
      obtain ⟨anC, anT⟩ := r3
      simp only at h
      obtain ⟨ha3, hc3, ht3, ho3⟩ := section_ok (hrec an (fun r hr => hm r (by simp [hr]))) ha2 han
      simp only [List.length_map] at hc3 ht3
      -- authorities
      cases hns : countWasTruncated (e3.emitIter (ns.map emitRecord)) with
      | panic s => rw [hns] at h; simp at h
      | err k e4 => rw [hns] at h; simp at h
      | ok r4 e4 =>
        rw [hns] at h
        obtain ⟨nsC, nsT⟩ := r4
        simp only at h
        obtain ⟨ha4, hc4, ht4, ho4⟩ := section_ok (hrec ns (fun r hr => hm r (by simp [hr]))) ha3 hns
        simp only [List.length_map] at hc4 ht4
        -- additionals
        cases har : countWasTruncated (e4.emitIter (ar.map emitRecord)) with
        | panic s => rw [har] at h; simp at h
        | err k e5 => rw [har] at h; simp at h
        | ok r5 e5 =>
          rw [har] at h
          obtain ⟨arC0, arT0⟩ := r5
          simp only at h
          obtain ⟨ha5, hc5, ht5, ho5⟩ := section_ok (hrec ar (fun r hr => hm r (by simp [hr]))) ha4 har
          simp only [List.length_map] at hc5 ht5
          -- OPT
          cases hed : emitExtra (edns.map fun ed => recordOfEdns { ed with rcodeHigh := rcodeHigh md.rcode })
              (arC0, arT0) e5 with
          | panic s => rw [hed] at h; simp at h
          | err k e6 => rw [hed] at h; simp at h
          | ok r6 e6 =>
            rw [hed] at h
            obtain ⟨arC1, arT1⟩ := r6
            simp only at h
            obtain ⟨ha6, ho6, k6, hk6, hc6, ht6⟩ := extra_ok (by
              intro x hx
              simp only [Option.mem_def, Option.map_eq_some_iff] at hx
              obtain ⟨ed, _, rfl⟩ := hx
              rfl) ha5 hed
            -- TSIG
            cases hsg : emitExtra sig (arC1, arT1) e6 with
            | panic s => rw [hsg] at h; simp at h
            | err k e7 => rw [hsg] at h; simp at h
            | ok r7 e7 =>
              rw [hsg] at h
              obtain ⟨arC, arT⟩ := r7
              simp only at h
              obtain ⟨ha7, ho7, k7, hk7, hc7, ht7⟩ := extra_ok (by
                intro x hx
                exact hm x (by simp [Option.mem_def.1 hx])) ha6 hsg
              split at h
              · simp at h
              have hlen7 : e.offset + 12 ≤ e7.buf.length := by rw [← ha7.app]; omega
              have hmax7 : e.offset + 12 ≤ e7.maxSize := by
                rw [ha7.lim, ← ha.lim]; omega
              rw [placeReplace_header _ _ hlen7 hmax7 (by omega)] at h
              simp only [ERes.ok.injEq, Prod.mk.injEq] at h
              obtain ⟨⟨rfl, rfl⟩, rfl⟩ := h
              have hbase : base ≤ e.offset := ha.base_le
              have hEl : (edns.map fun ed => recordOfEdns { ed with rcodeHigh := rcodeHigh md.rcode }).toList.length
                  = edns.toList.length := by cases edns <;> rfl
              rw [hEl] at hk6 ht6
              simp only at hc6 hc7 ht6 ht7
              refine ⟨?_, ?_, ?_, hc3, hc4, ?_, ?_⟩
              · refine ⟨ha7.base_le, ?_, ?_, ha7.old, ha7.ptrs, ha7.lim, ?_⟩
                · have := ha7.app
                  simp only [List.length_append, List.length_take, List.length_drop, headerBytes,
                    List.length_cons, List.length_nil]
                  omega
                · simp only
                  rw [List.append_assoc, List.take_append_of_le_length (by
                    simp only [List.length_take]; omega), List.take_take, Nat.min_eq_left hbase]
                  exact ha7.low
                · have := ha7.fits
                  simp only [List.length_append, List.length_take, List.length_drop, headerBytes,
                    List.length_cons, List.length_nil]
                  omega
              · simp only [List.length_append, List.length_take, List.length_drop, headerBytes,
                  List.length_cons, List.length_nil]
                omega
              · simp only
                rw [List.append_assoc, List.drop_left' (by simp only [List.length_take]; omega),
                  List.take_left' (by simp [headerBytes])]
              · simp only; omega
              · simp only [short]
                congr 1
                rw [ht7, ht6, ht5, ht4, ht3]
                simp only [hc7, hc6]
                have e1 : decide (arC0 + k6 + k7 < ar.length + edns.toList.length + sig.toList.length)
                    = (decide (arC0 < ar.length) || decide (k6 < edns.toList.length) ||
                        decide (k7 < sig.toList.length)) := by
                  by_cases a1 : arC0 < ar.length <;> by_cases a2 : k6 < edns.toList.length <;>
                    by_cases a3 : k7 < sig.toList.length <;> simp [a1, a2, a3] <;> omega
                rw [e1]

/-! ### `Message::emit` under a limit; the server's response encoder -/

theorem above_init (L : Nat) : Above 0 [] [] L ((Enc.new []).setMaxSize L) :=
  ⟨Nat.le_refl _, rfl, rfl, by simp, ⟨[], rfl, by simp⟩, rfl, by simp [Enc.new, Enc.withOffset, Enc.setMaxSize]⟩

theorem modelled_of_message {m : Message} (hm : m.emitModelled = true) :
    ∀ r ∈ m.answers ++ m.authorities ++ m.additionals ++ m.signature.toList, r.rdata.emitModelled = true := by
  intro r hr
  simp only [Message.emitModelled, List.all_eq_true] at hm
  exact hm r hr

/-- **For every message and every limit, `Message::emit` under `set_max_size(L)` either fails or
yields at most `L` octets.** -/
theorem emitLimited_len (m : Message) (hm : m.emitModelled = true) (L : Nat) (bs : Bytes)
    (h : emitLimited m L = .ok bs) : bs.length ≤ L := by
  unfold emitLimited emitMessage at h
  cases hr : emitMessageParts m.md (fun e => e.emitIter (m.queries.map emitQuery)) m.answers m.authorities
      m.additionals m.edns m.signature ((Enc.new []).setMaxSize L) with
  | ok r e' =>
    rw [hr] at h
    simp only [Outcome.ok.injEq] at h
    subst h
    obtain ⟨md', c⟩ := r
    have := (emitMessageParts_ok (countAppender_queries m.queries) (modelled_of_message hm)
      (above_init L) hr).1.fits
    simpa using this
  | err k e' => rw [hr] at h; simp at h
  | panic s => rw [hr] at h; simp at h

/-- the metadata `emit_message_parts` writes when `c` records were written: `TC := tc ∨ dropped` -/
def truncatedMd (m : Message) (c : Counts) : Metadata :=
  { m.md with tc := (m.md.tc || short c.an m.answers.length || short c.ns m.authorities.length ||
      short c.ar (m.additionals.length + m.edns.toList.length + m.signature.toList.length)) }

/-- **The header of a (possibly truncated) output**: its first twelve octets are `headerBytes md' c`
where `c` counts the records actually written in each section — never more than the section holds —
and `md'` is the message's metadata with `TC := tc ∨ (some record was dropped)`. -/
theorem emitLimited_header (m : Message) (hm : m.emitModelled = true) (L : Nat) (bs : Bytes)
    (h : emitLimited m L = .ok bs) :
    ∃ c : Counts, 12 ≤ bs.length ∧
      bs.take 12 = headerBytes (truncatedMd m c) c ∧
      c.an ≤ m.answers.length ∧ c.ns ≤ m.authorities.length ∧
      c.ar ≤ m.additionals.length + m.edns.toList.length + m.signature.toList.length := by
  unfold emitLimited emitMessage at h
  cases hr : emitMessageParts m.md (fun e => e.emitIter (m.queries.map emitQuery)) m.answers m.authorities
      m.additionals m.edns m.signature ((Enc.new []).setMaxSize L) with
  | ok r e' =>
    rw [hr] at h
    simp only [Outcome.ok.injEq] at h
    subst h
    obtain ⟨md', c⟩ := r
    obtain ⟨_, h2, h3, h4, h5, h6, h7⟩ := emitMessageParts_ok (countAppender_queries m.queries)
      (modelled_of_message hm) (above_init L) hr
    refine ⟨c, by simpa [Enc.new, Enc.withOffset, Enc.setMaxSize] using h2, ?_, h4, h5, h6⟩
    unfold truncatedMd
    rw [← h7]
    simpa [Enc.new, Enc.withOffset, Enc.setMaxSize] using h3
  | err k e' => rw [hr] at h; simp at h
  | panic s => rw [hr] at h; simp at h

theorem countAppender_original (o : Option Bytes) : CountAppender (emitOriginalQueries o) := by
  intro base B P M e ha n e' h
  cases o with
  | none => simp only [emitOriginalQueries, ERes.ok.injEq] at h; rw [← h.2]; exact ha
  | some bs =>
    simp only [emitOriginalQueries] at h
    have hs := appender_emitSlice bs base B P M e ha
    simp only at hs
    cases hsl : e.emitSlice bs with
    | ok u e1 =>
      rw [hsl] at h hs
      simp only at h
      split at h
      · cases hst : e1.storeLabelPointer e.offset (e.offset + bs.length) with
        | ok e2 =>
          rw [hst] at h
          simp only [ERes.ok.injEq] at h
          rw [← h.2]
          exact (storeLabelPointer_above hs ha.base_le hst).1
        | err => rw [hst] at h; simp at h
        | panic s => rw [hst] at h; simp at h
      · simp only [ERes.ok.injEq] at h; rw [← h.2]; exact hs
    | err k e1 => rw [hsl] at h; simp at h
    | panic s => rw [hsl] at h; simp at h

theorem appender_emitHeader (md : Metadata) (c : Counts) : Appender (emitHeader md c) := by
  unfold emitHeader
  refine seqAll_appender _ ?_
  intro f hf
  simp only [List.mem_cons, List.not_mem_nil, or_false] at hf
  rcases hf with rfl | rfl | rfl | rfl | rfl | rfl | rfl
  · exact appender_emitU16 _
  · exact appender_emitU8 _
  · exact appender_emitU8 _
  all_goals exact appender_emitU16 _

/-- what `MessageResponse::encode` returns is within the limit it selected, or it is the fallback
(at most 512 octets) -/
theorem encodeResponse_len (r : Response) (proto : Proto)
    (hm : ∀ x ∈ r.answers ++ r.authorities ++ r.additionals ++ r.signature.toList, x.rdata.emitModelled = true)
    (bs : Bytes) (h : encodeResponse r proto = .ok bs) :
    bs.length ≤ max 512 (responseLimit proto r.edns) := by
  unfold encodeResponse at h
  cases hr : emitMessageParts r.md (emitOriginalQueries r.queries) r.answers r.authorities r.additionals
      r.edns r.signature ((Enc.new []).setMaxSize (responseLimit proto r.edns)) with
  | ok res e' =>
    rw [hr] at h
    simp only [Outcome.ok.injEq] at h
    subst h
    obtain ⟨md', c⟩ := res
    have := (emitMessageParts_ok (countAppender_original r.queries) hm (above_init _) hr).1.fits
    simp only [List.length_nil, Nat.max_zero] at this
    omega
  | panic s => rw [hr] at h; simp at h
  | err k e' =>
    rw [hr] at h
    simp only at h
    have hA := above_init 512
    generalize (Enc.new []).setMaxSize 512 = e0 at h hA
    generalize servfailMd r.md.id = smd at h
    have ha := appender_emitHeader smd { qd := 0, an := 0, ns := 0, ar := 0 } 0 [] [] 512 e0 hA
    cases hh : emitHeader smd { qd := 0, an := 0, ns := 0, ar := 0 } e0 with
    | ok u e2 =>
      rw [hh] at h ha
      simp only [Outcome.ok.injEq] at h
      subst h
      have := ha.fits
      simp only [List.length_nil, Nat.max_zero] at this
      omega
    | err k2 e2 => rw [hh] at h; simp at h
    | panic s => rw [hh] at h; simp at h

/-- **A response the server sends over UDP is never longer than `max(512, the payload size the
client advertised)`**: `req` is the request's EDNS as decoded (`none` = the client sent no OPT), the
response's EDNS is the one `Catalog::handle_request` derives from it (`responseEdns`). -/
theorem server_udp_len (r : Response) (req : Option Edns) (hedns : r.edns = responseEdns req)
    (hm : ∀ x ∈ r.answers ++ r.authorities ++ r.additionals ++ r.signature.toList, x.rdata.emitModelled = true)
    (bs : Bytes) (h : encodeResponse r .udp = .ok bs) :
    bs.length ≤ max 512 (match req with | some q => q.maxPayload | none => 0) := by
  have := encodeResponse_len r .udp hm bs h
  rw [hedns] at this
  cases req with
  | none => simpa [responseLimit, responseEdns] using this
  | some q =>
    simp only [responseLimit, responseEdns, Option.map_some] at this
    simp only
    omega

/-- **… and over TCP (any other protocol) never longer than 65 535.** -/
theorem server_tcp_len (r : Response)
    (hm : ∀ x ∈ r.answers ++ r.authorities ++ r.additionals ++ r.signature.toList, x.rdata.emitModelled = true)
    (bs : Bytes) (h : encodeResponse r .other = .ok bs) : bs.length ≤ 65535 := by
  have := encodeResponse_len r .other hm bs h
  simpa [responseLimit] using this
end HickoryVerif.C03
