/-
C02 — a concrete instance of the chain (stage 4, non-vacuity of `EncFits` and of every hypothesis of
`reencode_stable_covered_partial`).

`smallMsg` : a response with the question `ex. A` and the answer `ex. 60 A 10.0.0.1`.
`smallMsg_emit` : `Message::emit` under the 64 KiB limit writes the 36 octets `smallBytes` — the answer's
owner as a compression pointer (`C0 0C`) to the question name — by evaluating the model (`simp`).
`smallMsg_encFits`, `smallMsg_wf`, `smallBytes_decodes` (from `decode_encode_partial`, not by evaluation),
`smallBytes_reencode` : `reencode_stable_covered_partial` applied to the octet string `smallBytes`, all
hypotheses discharged.
-/
import HickoryVerif.Proofs.C02Tsig
namespace HickoryVerif.C02
open HickoryVerif HickoryVerif.Wire HickoryVerif.Name HickoryVerif.C03

def exName : Name := { labels := [[101, 120]], fqdn := true }

def smallMsg : Message :=
  { md := { id := 4660, qr := true, op := 0, aa := false, tc := false, rd := true, ra := true, ad := false,
            cd := false, rcode := 0 }
    queries := [{ name := exName, qtype := 1, qclass := 1 }]
    answers := [{ name := exName, rtype := 1, cls := 1, ttl := 60, rdata := .a [10, 0, 0, 1] }]
    authorities := [], additionals := [], signature := none, edns := none }

def smallBytes : Bytes :=
  [18, 52, 129, 128, 0, 1, 0, 1, 0, 0, 0, 0, 2, 101, 120, 0, 0, 1, 0, 1, 192, 12, 0, 1, 0, 1, 0, 0, 0, 60,
   0, 4, 10, 0, 0, 1]

set_option maxRecDepth 4000 in
theorem smallMsg_emit : ∃ e', emitMessage smallMsg ((Enc.new []).setMaxSize 65535) =
    .ok (smallMsg.md, { qd := 1, an := 1, ns := 0, ar := 0 }) e' ∧ e'.buf = smallBytes := by
  simp [emitMessage, emitMessageParts, smallMsg, smallBytes, exName, Enc.new, Enc.withOffset, Enc.setMaxSize,
    Enc.place, Enc.reserve, Enc.resize, Enc.emitIter, Enc.emitIterFrom, countWasTruncated, emitExtra,
    Enc.placeReplace, emitHeader, seqAll, Enc.seq, Enc.emitU16, Enc.emitU8, Enc.emitU32, Enc.emitSlice, Enc.write,
    emitNothing, emitQuery, emitRecord, emitRData, Enc.lenPrefixed, Enc.lenSincePlace, Name.emit, emitLabels,
    RData.isUpdate, compressLoop, starts, Enc.storeLabelPointer, Enc.sliceOf, Enc.getLabelPointer, Enc.findPtr,
    Enc.trim, emitRoot, Enc.COMPRESSION_CANDIDATE_LIMIT, COMPRESSED_NAME_LIMIT, Enc.emitCharacterData,
    flagOctet2, flagOctet3]

/-- **`EncFits` is satisfiable**: the re-encoding of `smallMsg` under 65 535 is `smallBytes`, nothing dropped -/
theorem smallMsg_encFits : EncFits smallMsg smallBytes := by
  obtain ⟨e', h1, h2⟩ := smallMsg_emit
  exact ⟨_, _, e', h1, h2, rfl, rfl, rfl⟩

theorem smallMsg_wf : MsgWF smallMsg := by
  have wfEx : exName.WF := by decide
  refine ⟨by decide, by decide, by decide, ?_, ?_, ?_, ?_, rfl, rfl⟩
  · intro q hq
    simp only [smallMsg, List.mem_singleton] at hq
    subst hq
    exact ⟨wfEx, by decide, by decide⟩
  · intro r hr
    simp only [smallMsg, List.mem_singleton] at hr
    subst hr
    exact ⟨⟨wfEx, by decide, by decide, by decide, Or.inr ⟨rfl, ⟨rfl, rfl⟩, trivial, trivial⟩⟩,
      fun _ => ⟨by decide, by decide⟩, fun h => (by cases h), fun h => (by simp [RData.isUpdate] at h)⟩
  · intro r hr; simp [smallMsg] at hr
  · intro r hr; simp [smallMsg] at hr

/-- the 36 octets decode to `smallMsg` — by `decode_encode_partial`, not by running the decoder -/
theorem smallBytes_decodes (opq : Nat → Rd Bytes) :
    Rd.run (readMessage opq) smallBytes 0 = .ok (smallMsg, smallBytes.length) := by
  obtain ⟨e', h1, h2⟩ := smallMsg_emit
  have := decode_encode_partial opq smallMsg smallMsg_wf 65535 _ _ e' h1 ⟨rfl, rfl, rfl⟩
  rw [h2] at this
  have hfq : smallMsg.fq = smallMsg := rfl
  rwa [hfq] at this

/-- **`reencode_stable_covered_partial` on a concrete octet string**, every hypothesis discharged -/
theorem smallBytes_reencode (opq : Nat → Rd Bytes) :
    Rd.run (readMessage opq) smallBytes 0 = .ok (smallMsg, smallBytes.length) :=
  reencode_stable_covered_partial opq smallBytes smallBytes smallMsg smallBytes.length (by decide)
    (smallBytes_decodes opq)
    ⟨fun r hr => by simp [smallMsg] at hr; subst hr; exact Or.inl rfl,
     fun r hr => by simp [smallMsg] at hr, fun r hr => by simp [smallMsg] at hr⟩
    smallMsg_encFits

end HickoryVerif.C02
