/-
C06 — regression theorems about the validation cache **before** the repairs /repo 411522f
(`get` ignored the validator's clock and the signature's expiration) and a831deb (the key hashed
names inside RDATA case-insensitively): `SigCheck.servePreFix` / `runHistoryPreFix`.  They document
under which hypotheses the old cache was sound and the two histories on which it was not (regression
cases in `corpus/C06/histories.case`).
-/
import HickoryVerif.Proofs.C06

namespace HickoryVerif.C06
open HickoryVerif HickoryVerif.Tbs HickoryVerif.SigCheck

/-- **The hypothesis the pre-repair code did not guarantee**: the lifetime `ValidationCache::insert`
gives the entry of a Secure verdict does not exceed the remaining signature lifetime. -/
def LifetimeCapped (sigValid : SigOracle) (cfg : CacheConfig) (r : Request) : Prop :=
  ∀ t, firstTtl r = some t → (freshVerdict sigValid r).proof = .secure →
    cacheLifetime cfg (freshVerdict sigValid r) t ≤ r.rrsig.input.expiration - r.now

/-- `KeyFaithful`, and the validator's wall clock and the monotonic clock of the cache advanced by
the same amount between the two requests -/
def PairOK (r' r : Request) : Prop :=
  r'.ck = r.ck → SameContent r' r ∧ r'.now ≤ r.now ∧ r'.inst ≤ r.inst ∧
    r.now - r'.now = r.inst - r'.inst

theorem window_extends {now' now inc exp life : Nat} (hnow : now < M) (hinc : inc < M) (hexp : exp < M)
    (hwf : SerialLe inc exp) (hw : InWindow now' inc exp) (hle : now' ≤ now)
    (hd : now - now' < life) (hcap : life ≤ exp - now') : InWindow now inc exp := by
  unfold InWindow SerialLe M HALF at *
  omega

theorem step_secure_partial (sigValid : SigOracle) (cfg : CacheConfig)
    (past : List Request) (r : Request) (v : Verdict) (fresh : Bool)
    (hs : StepSound sigValid cfg servePreFix past r v fresh) (hsec : v.proof = .secure) (hb : Bounds r)
    (hpair : ∀ r' ∈ past, PairOK r' r ∧ LifetimeCapped sigValid cfg r') :
    SecureOK sigValid r := by
  obtain ⟨hnow, hinc, hexp, hwf⟩ := hb
  rcases hs with ⟨_, hv⟩ | ⟨_, r', hr', hck, t, ht, hlive, hv⟩
  · subst hv
    obtain ⟨k, _, hk⟩ := fresh_secure hsec
    have hc := secure_implies_checks sigValid k .secure r.rrsig r.keyName r.keyType r.records r.now _
      hnow hinc hexp hk
    exact ⟨hc.2.2.2.2.2.2.2.2.2.2.2.1, r.now, hnow, k, _, hk⟩
  · obtain ⟨hp, hcapd⟩ := hpair r' hr'
    obtain ⟨⟨hsig, hkn, hkt, hrec⟩, hle, hile, hsync⟩ := hp hck
    simp only [servePreFix, entryOf, Option.some.injEq] at hv
    subst hv
    obtain ⟨k, _, hk⟩ := fresh_secure hsec
    rw [hsig, hkn, hkt, hrec] at hk
    have hnow' : r'.now < M := by omega
    have hc := secure_implies_checks sigValid k .secure r.rrsig r.keyName r.keyType r.records r'.now _
      hnow' hinc hexp hk
    have hcap := hcapd t ht hsec
    rw [hsig] at hcap
    refine ⟨?_, r'.now, hnow', k, _, hk⟩
    exact window_extends hnow hinc hexp hwf hc.2.2.2.2.2.2.2.2.2.2.2.1 hle (by omega) hcap


/-
FULL STATEMENT (what the property says: "never yields Secure — also not via a previously cached
verdict", for all validate / advance-clock / re-validate histories; the pre-repair code did **not**
satisfy it, see `counterexample_cache_outlives_signature` and `counterexample_cache_key_case`, both
confirmed on the real `DnssecDnsHandle::send`):

  theorem cache_sound (sigValid cfg) (hist : List Request)
      (hb : ∀ r ∈ hist, Bounds r) (hkey : hist.Pairwise KeyFaithful) :
      AllSecure (fun r _ => SecureOK sigValid r) hist (runHistoryPreFix sigValid cfg [] hist)

i.e. without `LifetimeCapped` and without any assumption on how the clocks move.
(`Proofs/C06Fixed.lean` proves exactly this, plus the TTL clause, for the repaired cache.)
-/

/-- **History theorem, partial (`cache_sound_partial`), the code as it is.**  For every history of
validation requests answered from an initially empty cache — any interleaving of validate /
advance-clock / re-validate, any cache configuration — in which (i) requests with equal cache keys
present the same signed content and the two clocks advance together (`PairOK`), and (ii) every Secure
entry's lifetime is at most the remaining lifetime of its signature (`LifetimeCapped`): every Secure
verdict handed out, fresh or cached, is for content that passed `verify_rrset_with_dnskey` (all of
`secure_implies_checks`) at some validator time, and the validator's clock `now` is still inside
`[inception, expiration]`. -/
theorem cache_sound_partial (sigValid : SigOracle) (cfg : CacheConfig) (hist : List Request)
    (hb : ∀ r ∈ hist, Bounds r)
    (hcap : ∀ r ∈ hist, LifetimeCapped sigValid cfg r)
    (hpw : hist.Pairwise PairOK) :
    AllSecure (fun r _ => SecureOK sigValid r) hist (runHistoryPreFix sigValid cfg [] hist) :=
  allSecure_of_sound sigValid cfg servePreFix _ PairOK Bounds (LifetimeCapped sigValid cfg)
    (fun past r v fresh hs hsec hb hp => step_secure_partial sigValid cfg past r v fresh hs hsec hb hp)
    [] hist _ (cache_provenanceG sigValid cfg servePreFix hist)
    (fun r hr => ⟨hb r hr, hcap r hr⟩) (by simp) hpw

/-- **Finding `validation-cache-outlives-signature`.**  RRset TTL 3600, RRSIG expires at 1010.
Validate at time 1000: Secure, TTL 10, and the entry is kept for 3600 s.  Twenty seconds later (both
clocks advanced by 20) the answer is still Secure from the cache, with the stale TTL 10 — although the
clock is outside the window and a fresh validation says Bogus.  Every hypothesis of
`cache_sound_partial` holds except `LifetimeCapped` (lifetime 3600 > 1010 − 1000). -/
theorem counterexample_cache_outlives_signature :
    (runHistoryPreFix acceptAll {} [] [reqA 3600 1000 0, reqA 3600 1020 20]).map
        (fun o => (o.1.proof, o.1.adjustedTtl, o.2))
      = [(.secure, some 10, true), (.secure, some 10, false)] ∧
    (freshVerdict acceptAll (reqA 3600 1020 20)).proof = .bogus ∧
    ¬ (1010 + M - 1020) % M < HALF ∧
    cacheLifetime {} (freshVerdict acceptAll (reqA 3600 1000 0)) 3600 = 3600 := by
  decide

/-- with the lifetime capped (TTL 5 ≤ 10 s of remaining validity) the same history is harmless: served
from the cache while live and inside the window, re-validated afterwards -/
example :
    (runHistoryPreFix acceptAll {} [] [reqA 5 1000 0, reqA 5 1003 3, reqA 5 1020 20]).map
        (fun o => (o.1.proof, o.1.adjustedTtl, o.2))
      = [(.secure, some 5, true), (.secure, some 5, false), (.bogus, none, true)] := by
  decide

/-- an RRset of a type whose canonical form keeps the case of embedded names (opaque: key and canonical
bytes as the real code computes them), next name `B.` / `b.` -/
def recN (c : Nat) : Record := ⟨nameA, 1, 1, 3600, .opaque [1, c, 0] (some [1, c, 0])⟩

/-- **Finding `validation-cache-key-folds-rdata-case`.**  Two requests with the same cache key (the
hasher folds the case of names inside RDATA) but different signed RDATA (`B.` vs `b.`): the second
is answered Secure from the cache although the signature does not cover it. -/
theorem counterexample_cache_key_case :
    (runHistoryPreFix (acceptOnly [recN 66]) {} []
        [⟨[7], [(key0, .secure)], sig0, nameA, 1, [recN 66], 1000, 0, false, false⟩,
         ⟨[7], [(key0, .secure)], sig0, nameA, 1, [recN 98], 1000, 0, false, false⟩]).map
        (fun o => (o.1.proof, o.2))
      = [(.secure, true), (.secure, false)] ∧
    (freshVerdict (acceptOnly [recN 66])
      ⟨[7], [(key0, .secure)], sig0, nameA, 1, [recN 98], 1000, 0, false, false⟩).proof = .bogus := by
  decide

/-- the hypotheses of `cache_sound_partial` are satisfiable by a non-trivial history (second request
served from the cache), and the theorem then applies -/
example :
    AllSecure (fun r _ => SecureOK acceptAll r) [reqA 5 1000 0, reqA 5 1003 3]
      (runHistoryPreFix acceptAll {} [] [reqA 5 1000 0, reqA 5 1003 3]) := by
  apply cache_sound_partial
  · intro r hr
    simp only [List.mem_cons, List.mem_nil_iff, or_false] at hr
    rcases hr with rfl | rfl <;> (unfold Bounds SerialLe M HALF; decide)
  · intro r hr t ht _
    simp only [List.mem_cons, List.mem_nil_iff, or_false] at hr
    rcases hr with rfl | rfl
    all_goals
      simp only [firstTtl, reqA, recA, List.head?_cons, Option.map_some, Option.some.injEq] at ht
      subst ht
      decide
  · simp only [List.pairwise_cons, List.mem_cons, or_false, forall_eq,
      List.not_mem_nil, false_imp_iff, implies_true, List.Pairwise.nil, and_true]
    intro _
    exact ⟨⟨rfl, rfl, rfl, rfl⟩, by decide, by decide, by decide⟩

end HickoryVerif.C06
