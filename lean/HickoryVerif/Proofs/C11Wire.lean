/-
C11 (part 4) — the question name off the wire is a bounded absolute name, hence the gate never
panics and the zone selection theorems apply to every request.  (What the echoed question means
inside the response: `Proofs/C11Echo.lean`.)
-/
import HickoryVerif.Model.ServerGate
import HickoryVerif.Proofs.C04Wire
import HickoryVerif.Proofs.C11

namespace HickoryVerif.C11
open HickoryVerif HickoryVerif.Name HickoryVerif.ServerGate HickoryVerif.C04

/-! ### `Name::read` yields bounded absolute names and has no reachable panic site -/

theorem extendName_ne_panic (n : Name) (l : Bytes) (s : String) : n.extendName l ≠ .panic s := by
  unfold extendName; simp only []; split <;> simp

/-- Invariant of the decoding loop: as long as the decoder never sits before `name_start`
(true at every entry: `name_start` *is* the entry position) the `clone(location)` slice is in
range, and every name produced is bounded and absolute. -/
theorem readLabels_spec (buf : Bytes) (pos ns : Nat) (pm : Option Nat) (acc : Name) :
    ns ≤ pos → Bounded acc →
    (∀ s, readLabels buf pos ns pm acc ≠ .panic s) ∧
    (∀ n p, readLabels buf pos ns pm acc = .ok (n, p) → Bounded n ∧ n.fqdn = true) := by
  fun_induction readLabels buf pos ns pm acc <;> intro hle hb
  case case3 =>
    refine ⟨by simp, fun n p h => ?_⟩
    simp only [Outcome.ok.injEq, Prod.mk.injEq] at h
    obtain ⟨rfl, _⟩ := h
    exact ⟨bounded_setFqdn hb true, rfl⟩
  case case5 pos ns pm acc hpm b0 hb0 hne h3 b1 hb1 loc hlt hgt =>
    exfalso
    have : pos < buf.length := by
      rcases List.getElem?_eq_some_iff.1 hb0 with ⟨h, _⟩; exact h
    omega
  case case6 pos ns pm acc hpm b0 hb0 hne h3 b1 hb1 loc hlt hgt n' p' hrec ih =>
    refine ⟨by simp, fun n p h => ?_⟩
    simp only [Outcome.ok.injEq, Prod.mk.injEq] at h
    obtain ⟨rfl, _⟩ := h
    exact (ih (Nat.le_refl _) hb).2 _ _ hrec
  case case8 pos ns pm acc hpm b0 hb0 hne h3 b1 hb1 loc hlt hgt s' hrec ih =>
    exact absurd hrec ((ih (Nat.le_refl _) hb).1 s')
  case case10 pos ns pm acc hpm b0 hb0 hne h3 h0 hfit acc' hext ih =>
    apply ih (by omega)
    apply extendName_bounded hb _ hext
    simp only [List.length_take, List.length_drop]
    omega
  case case12 pos ns pm acc hpm b0 hb0 hne h3 h0 hfit s' hext =>
    exact absurd hext (extendName_ne_panic _ _ _)
  all_goals exact ⟨by simp, by simp⟩

theorem readName_spec (buf : Bytes) (pos : Nat) :
    (∀ s, readName buf pos ≠ .panic s) ∧
    (∀ n p, readName buf pos = .ok (n, p) → Bounded n ∧ n.fqdn = true) := by
  have h := readLabels_spec buf pos pos none new (Nat.le_refl _) bounded_new
  unfold readName
  constructor
  · intro s
    split
    · split <;> simp
    · simp
    · rename_i s' hs; exact absurd hs (h.1 s')
  · intro n p
    split
    · rename_i n' p' hs
      split
      · simp
      · intro he
        simp only [Outcome.ok.injEq, Prod.mk.injEq] at he
        obtain ⟨rfl, _⟩ := he
        exact h.2 _ _ hs
    · simp
    · simp

/-- the question the gate hands on carries a bounded absolute name -/
theorem readQueries_spec (buf : Bytes) (qd : Nat) :
    (∀ s, readQueries buf qd ≠ .panic s) ∧
    (∀ q, readQueries buf qd = .ok q → Bounded q.name ∧ q.name.fqdn = true) := by
  have h := readName_spec buf 12
  unfold readQueries
  constructor
  · intro s
    split
    · simp
    · split
      · split <;> simp
      · simp
      · rename_i s' hs; exact absurd hs (h.1 s')
  · intro q
    split
    · simp
    · split
      · rename_i n p hs
        split
        · intro he
          simp only [Outcome.ok.injEq] at he
          subst he
          exact h.2 _ _ hs
        · simp
      · simp
      · simp

/-! ### no request content makes the handler panic -/

theorem catalogHandle_no_panic (cat : Catalog) (h : Header) (q : Question) (e : Option Nat)
    (hb : Bounded q.name) (hf : q.name.fqdn = true) (s : String) :
    catalogHandle cat h q e ≠ .panic s := by
  have hfind := find_total cat q.name.toLowercase (toLowercase_bounded hb) hf
  unfold catalogHandle catLookup catUpdate
  rw [hfind]
  repeat' split
  all_goals simp_all

/-- **No request byte string, body summary, source, access list or catalog makes the gate reach a
panic site** (`Name::read`'s slice, `trim_to`'s `unwrap`, `Catalog::find`'s recursion). -/
theorem no_panic (cfg : Config) (src : Ip) (buf : Bytes) (body : Body) (s : String) :
    handleRequest cfg src buf body ≠ .panic s := by
  unfold handleRequest
  split
  · simp
  · rename_i h _
    split
    · simp
    · split
      · simp
      · have hq := readQueries_spec buf h.qd
        split
        · simp
        · rename_i s' hs; exact absurd hs (hq.1 s')
        · rename_i q hs
          obtain ⟨hb, hf⟩ := hq.2 q hs
          split
          · simp
          · split
            · simp
            · exact catalogHandle_no_panic _ _ _ _ hb hf s

/-- … so every message that is not dropped gets exactly one reply. -/
theorem one_reply_unless_dropped (cfg : Config) (src : Ip) (buf : Bytes) (body : Body)
    (hlen : 12 ≤ buf.length) (hqr : ∀ h, readHeader buf = some h → h.qr = false) :
    ∃ r, handleRequest cfg src buf body = .reply r := by
  obtain ⟨hdrop, hrest⟩ := exactly_one cfg src buf body
  have hnd : handleRequest cfg src buf body ≠ .drop := by
    intro hd
    rcases hdrop.1 hd with hs | ⟨h, hh, hq⟩
    · omega
    · rw [hqr h hh] at hq; cases hq
  rcases hrest hnd with hr | ⟨s, hs⟩
  · exact hr
  · exact absurd hs (no_panic cfg src buf body s)

/-- **The headline clause, with nothing assumed about the request**: a query that passes the gate
is answered by the configured zone whose origin is the longest suffix of the query name, and by
no other zone's handlers. -/
theorem query_right_zone (cfg : Config) (src : Ip) (buf : Bytes) {h : Header} {q : Question}
    {e : Option Nat} (hc : CatalogWF cfg.catalog)
    (hh : readHeader buf = some h) (hqr : h.qr = false) (hop : h.opcode = OP_QUERY)
    (hq : readQueries buf h.qd = .ok q) (hacl : cfg.acl.allows src = true)
    (he : ednsTooNew e = false)
    (z : Zone) (hz : z ∈ cfg.catalog) (henc : zoneOf z.origin q.name = true)
    (hmax : ∀ z' ∈ cfg.catalog, zoneOf z'.origin q.name = true →
      z'.origin.labels.length ≤ z.origin.labels.length) :
    ∃ r, handleRequest cfg src buf (.ok e) = .reply r ∧ r.via = some z.idx ∧
      ∀ c ∈ r.calls, Call.zone c = z.idx := by
  obtain ⟨hb, hf⟩ := (readQueries_spec buf h.qd).2 q hq
  exact query_answered_by_longest_suffix_zone cfg src buf hc hb hf hh hqr hop hq hacl he z hz henc
    hmax

/-- … and with no enclosing zone configured it is REFUSED. -/
theorem query_no_zone_refused (cfg : Config) (src : Ip) (buf : Bytes) {h : Header} {q : Question}
    {e : Option Nat} (hc : CatalogWF cfg.catalog)
    (hh : readHeader buf = some h) (hqr : h.qr = false) (hop : h.opcode = OP_QUERY)
    (hq : readQueries buf h.qd = .ok q) (hacl : cfg.acl.allows src = true)
    (he : ednsTooNew e = false)
    (hnone : ∀ z ∈ cfg.catalog, zoneOf z.origin q.name = false) :
    handleRequest cfg src buf (.ok e) = .reply (catError h e.isSome RC_REFUSED none []) := by
  obtain ⟨hb, hf⟩ := (readQueries_spec buf h.qd).2 q hq
  exact no_zone_refused cfg src buf hh hqr hop hq hacl he
    ((find_none_iff cfg.catalog hc q.name hb hf).2 hnone)

end HickoryVerif.C11
