/-
C10 — authoritative answers follow the RFC 1034 §4.3.2 algorithm.

Property theorems about `Model/AuthZone.lean` (the model of `inner_lookup`,
`inner_lookup_wildcard`, `chase_cnames`, `lookup`, `build_authoritative_response`) against
`Spec/Rfc1034.lean`.

The full statement — for every well-formed zone `z` with origin `o` and every query `q`

    conforms (answerImpl z o q) (answerSpec MAX_CNAME_DEPTH z o q) = true

(rcode, AA, answer section, and the authority section where the algorithm prescribes it) — is
FALSE for the code as it is: `Proofs/C10Witness.lean` has a kernel-checked counter-example for each
way it fails.  What holds is `impl_eq_spec_partial` below, under the decidable hypotheses that
exclude exactly those ways (`Model/AuthZoneDev.lean`), and `aa_iff_not_referral` for the AA bit.
-/
import HickoryVerif.Lemmas.AuthZoneChain
import HickoryVerif.Lemmas.AuthZoneAdd

namespace HickoryVerif.C10
open HickoryVerif HickoryVerif.AuthZone HickoryVerif.AuthZone.Dev HickoryVerif.Spec.Rfc1034

/-- `replace_any` is the specification's choice of the RRset standing in for ANY -/
theorem replaceAny_eq_anyType (z : Zone) (n : LName) : replaceAny z n = anyType z n := rfl

theorem chase_referral_visited {z : Zone} {o : LName} {t : Nat} :
    ∀ (k : Nat) (seen : List LName) (n : LName) (ns : RRset),
      (chase z o t k seen n).2 = .referral ns → ∃ m ∈ visited z o t k seen n, cuts z o m t ≠ [] := by
  intro k
  induction k with
  | zero => intro seen n ns h; simp [chase] at h
  | succ k ih =>
    intro seen n ns h
    cases hres : resolve z o n t with
    | referral ns' => exact ⟨n, visited_head, resolve_referral_cuts hres⟩
    | data rr => simp [chase, hres] at h
    | noData => simp [chase, hres] at h
    | nxDomain => simp [chase, hres] at h
    | cname rr tg =>
      rw [chase_cname_step hres] at h
      by_cases hstop : (!isAncestorOrSelf o tg || seen.contains tg || k == 0) = true
      · rw [if_pos hstop] at h; cases h
      · rw [if_neg hstop] at h
        obtain ⟨m, hm, hc⟩ := ih (tg :: seen) tg ns h
        refine ⟨m, ?_, hc⟩
        have hs : (!isAncestorOrSelf o tg || seen.contains tg || k == 0) = false := by
          cases hb : (!isAncestorOrSelf o tg || seen.contains tg || k == 0) <;> simp_all
        simp only [visited, hres, hs, Bool.false_eq_true, if_false]
        exact List.mem_cons_of_mem _ hm

/-- the type the specification looks up is the one `lookup` looks up (`ANY` at a name that owns
RRsets is replaced by the same type on both sides) -/
theorem specType_eq {z : Zone} {q : Query} (hany : anyNotAtOwner z q = false) :
    (if q.type == T_ANY then anyType z ((sourceNode z q.name).getD q.name) else q.type) = effType z q := by
  unfold effType
  by_cases h : q.type = T_ANY
  · simp only [h, beq_self_eq_true, if_true]
    have hown : z.any (·.name == q.name) = true := by
      simp only [anyNotAtOwner, h, beq_self_eq_true, Bool.true_and, Bool.not_eq_false'] at hany
      exact hany
    obtain ⟨r, hr, hrn⟩ := List.any_eq_true.1 hown
    have hex : nameExists z q.name = true :=
      nameExists_of_mem hr (by rw [beq_iff_eq] at hrn; rw [hrn]; exact List.suffix_refl _)
    simp [sourceNode, hex, replaceAny_eq_anyType]
  · have : (q.type == T_ANY) = false := beq_false_of_ne h
    simp [this]

/-- `isReferral` on a data RRset of the looked-up type -/
theorem isReferral_data {z : Zone} {q : Query} {rr : RRset} (hrt : rr.type = effType z q)
    (rest : List RRset) : isReferral (rr :: rest) q.type = false := by
  unfold isReferral effType at *
  by_cases h : q.type = T_ANY
  · simp [h]
  · have : (q.type == T_ANY) = false := beq_false_of_ne h
    simp only [this, Bool.false_eq_true, if_false] at hrt
    by_cases h2 : q.type = T_NS
    · simp [h2]
    · have : (rr.type == T_NS) = false := by rw [hrt]; exact beq_false_of_ne h2
      simp [this]

/--
**The code answers as RFC 1034 §4.3.2 / RFC 4592 prescribe** (rcode, answer section, and the
authority section of negative answers and referrals) for every well-formed zone and query
outside the recorded deviation classes.

Hypotheses (all decidable; each is violated by a kernel-checked witness in `C10Witness.lean`):
`WildcardGap` — none of the RFC 4592 gaps at the query name or a CNAME target followed;
`NestedCut` — at most one zone cut above each of these names; `nsAnyBelowCut`, `soaBelowCut` —
the query is not NS/ANY/SOA at or below a cut; `cnameIntoCut` — no CNAME target followed lies at
or below a cut; `anyNotAtOwner` — ANY only for names that own RRsets.
-/
theorem impl_eq_spec_partial {z : Zone} {o : LName} {q : Query}
    (hwf : zoneWF z o = true)
    (hgap : WildcardGap z o q = false) (hnest : NestedCut z o q = false)
    (hns : nsAnyBelowCut z o q = false) (hsoa : soaBelowCut z o q = false)
    (hcn : cnameIntoCut z o q = false) (hany : anyNotAtOwner z q = false) :
    conformsModAA (answerImpl z o q) (answerSpec MAX_CNAME_DEPTH z o q) = true := by
  have wf := wf_of_zoneWF hwf
  by_cases hin : o <:+ q.name
  · have hzo : zoneOf o q.name = true := zoneOf_iff.2 hin
    have hanc : isAncestorOrSelf o q.name = true := anc_iff.2 hin
    obtain ⟨s, hs⟩ := wf.soa
    have hsoaL := soa_lookup wf hs
    have hspecSoa : (rrsetAt z o T_SOA).toList = [s] := by rw [← get_eq_rrsetAt, hs]; rfl
    -- hypotheses per visited name
    have hvis : visitedOf z o q = visited z o (effType z q) MAX_CNAME_DEPTH [q.name] q.name := by
      simp [visitedOf, hanc]
    have hper : ∀ m ∈ visited z o (effType z q) MAX_CNAME_DEPTH [q.name] q.name,
        nestedCutAt z o m (effType z q) = false ∧ wildcardGapAt z o m (effType z q) = false := by
      intro m hm
      rw [← hvis] at hm
      constructor
      · have := hnest
        simp only [NestedCut, List.any_eq_false] at this
        have := this m hm
        simpa using this
      · have := hgap
        simp only [WildcardGap, List.any_eq_false] at this
        have := this m hm
        simpa using this
    obtain ⟨hn0, hg0⟩ := hper q.name visited_head
    have hnode := node_eq wf hin hn0 hg0
    have hty := specType_eq hany
    have heff : (if q.type == T_ANY then replaceAny z q.name else q.type) = effType z q := rfl
    generalize htdef : effType z q = t at *
    have hlaU : lookupAnswers z o q.name q.type =
        match innerLookup z q.name t with
        | some a =>
          if (a.type == T_CNAME && t != T_CNAME) = true then
            .ok (t, chaseCnames z q.name a t, (chaseCnames z q.name a t).getLast?.filter (·.type != T_CNAME))
          else .ok (t, [a], some a)
        | none =>
          .error (if z.any (fun r => r.name == q.name || zoneOf q.name r.name) then .nameExists
                  else if zoneOf o q.name then .nxDomain else .refused) := by
      unfold lookupAnswers
      rw [heff]
      dsimp only
      cases innerLookup z q.name t <;> rfl
    unfold answerImpl answerSpec
    simp only [hzo, hanc, if_true, Bool.not_true, Bool.false_eq_true, if_false, hty, hspecSoa]
    unfold buildAuthoritative
    rw [hlaU]
    cases hres : resolve z o q.name t with
    | referral ns =>
      rw [hres] at hnode
      obtain ⟨hil, hnt, hcuts⟩ := hnode
      have href : referralAA z o q = true := by
        simp only [referralAA, hanc, htdef, noCut, Bool.true_and]
        cases hc : cuts z o q.name t with
        | nil => exact absurd hc hcuts
        | cons _ _ => rfl
      have hq1 : ¬ q.type = T_NS ∧ ¬ q.type = T_ANY := by
        simp only [nsAnyBelowCut, href, Bool.true_and, Bool.or_eq_false_iff, beq_eq_false_iff_ne] at hns
        exact hns
      have hq2 : ¬ q.type = T_SOA := by
        simp only [soaBelowCut, href, Bool.true_and, beq_eq_false_iff_ne] at hsoa
        exact hsoa
      have hc : (ns.type == T_CNAME) = false := by rw [hnt]; decide
      have hchase : chase z o t MAX_CNAME_DEPTH [q.name] q.name = ([], .referral ns) := by
        simp [chase, hres]
      have hc2 : (ns.type == T_CNAME && t != T_CNAME) = false := by simp [hc]
      have hq2' : (q.type == T_SOA) = false := beq_false_of_ne hq2
      have hir : isReferral [ns] q.type = true := by
        simp [isReferral, hnt, hq1.1, hq1.2]
      simp only [hil, hc2, Bool.false_eq_true, if_false, hchase, hq2', hir, if_true]
      simp [conformsModAA]
    | noData =>
      rw [hres] at hnode
      obtain ⟨hil, hex⟩ := hnode
      have hchase : chase z o t MAX_CNAME_DEPTH [q.name] q.name = ([], .noData) := by
        simp [chase, hres]
      have hne := implNameExists_eq z q.name
      simp only [hil, hne, hex, if_true, hchase, hsoaL]
      simp [conformsModAA]
    | nxDomain =>
      rw [hres] at hnode
      obtain ⟨hil, hex⟩ := hnode
      have hchase : chase z o t MAX_CNAME_DEPTH [q.name] q.name = ([], .nxDomain) := by
        simp [chase, hres]
      have hne := implNameExists_eq z q.name
      simp only [hil, hne, hex, Bool.false_eq_true, if_false, hzo, if_true, hchase, hsoaL]
      simp [conformsModAA]
    | data rr =>
      rw [hres] at hnode
      obtain ⟨hil, hrt⟩ := hnode
      have hchase : chase z o t MAX_CNAME_DEPTH [q.name] q.name = ([], .data rr) := by
        simp [chase, hres]
      have hc : (rr.type == T_CNAME && t != T_CNAME) = false := by
        rw [hrt]; cases h : (t == T_CNAME) <;> simp [bne, h]
      have hir : isReferral [rr] q.type = false := isReferral_data (by rw [htdef]; exact hrt) []
      simp only [hil, hc, Bool.false_eq_true, if_false, hchase, hir]
      simp [conformsModAA]
    | cname rr tg =>
      rw [hres] at hnode
      obtain ⟨hil, hrt, htne, htg⟩ := hnode
      have hc : (rr.type == T_CNAME && t != T_CNAME) = true := by
        simp [hrt, htne]
      have hir : ∀ rest, isReferral (rr :: rest) q.type = false := by
        intro rest
        have : (rr.type == T_NS) = false := by rw [hrt]; decide
        simp [isReferral, this]
      -- the chain on both sides
      have hv : ∀ m ∈ (if MAX_CNAME_DEPTH - 1 = 0 ∨ ¬ o <:+ tg ∨ tg ∈ [q.name] then []
            else visited z o t (MAX_CNAME_DEPTH - 1) (tg :: [q.name]) tg),
          nestedCutAt z o m t = false ∧ wildcardGapAt z o m t = false := by
        intro m hm
        by_cases hstop : MAX_CNAME_DEPTH - 1 = 0 ∨ ¬ o <:+ tg ∨ tg ∈ [q.name]
        · rw [if_pos hstop] at hm; cases hm
        · rw [if_neg hstop] at hm
          apply hper m
          have hs2 : (!isAncestorOrSelf o tg || [q.name].contains tg || MAX_CNAME_DEPTH - 1 == 0) = false := by
            simp only [not_or, Decidable.not_not] at hstop
            obtain ⟨_, h2, h3⟩ := hstop
            have h3' : [q.name].contains tg = false := by
              cases hb : [q.name].contains tg with
              | false => rfl
              | true => exact absurd (List.contains_iff_mem.1 hb) h3
            rw [anc_iff.2 h2, h3']; rfl
          show m ∈ visited z o t (MAX_CNAME_DEPTH - 1 + 1) [q.name] q.name
          simp only [visited, hres, hs2, Bool.false_eq_true, if_false]
          exact List.mem_cons_of_mem _ hm
      have hrel := chase_rel wf htne (MAX_CNAME_DEPTH - 1) [q.name] rr tg hrt htg hv
      have hstep : chase z o t MAX_CNAME_DEPTH [q.name] q.name =
          if (!isAncestorOrSelf o tg || [q.name].contains tg || MAX_CNAME_DEPTH - 1 == 0) = true
          then ([rr], .chainEnd)
          else (rr :: (chase z o t (MAX_CNAME_DEPTH - 1) (tg :: [q.name]) tg).1,
                (chase z o t (MAX_CNAME_DEPTH - 1) (tg :: [q.name]) tg).2) :=
        chase_cname_step (k := MAX_CNAME_DEPTH - 1) hres
      simp only [hil, hc, if_true, chaseCnames, hrel, hir]
      by_cases hstop : MAX_CNAME_DEPTH - 1 = 0 ∨ ¬ o <:+ tg ∨ tg ∈ [q.name]
      · have hs2 : (!isAncestorOrSelf o tg || [q.name].contains tg || MAX_CNAME_DEPTH - 1 == 0) = true := by
          rcases hstop with h | h | h
          · exact absurd h (by decide)
          · simp [anc_false_iff.2 h]
          · have : [q.name].contains tg = true := List.contains_iff_mem.2 h
            rw [this]; simp
        have hstep' : chase z o t MAX_CNAME_DEPTH [q.name] q.name = ([rr], .chainEnd) := by
          rw [hstep, if_pos hs2]
        rw [if_pos hstop, hstep']
        simp [conformsModAA]
      · have hs2 : (!isAncestorOrSelf o tg || [q.name].contains tg || MAX_CNAME_DEPTH - 1 == 0) = false := by
          simp only [not_or, Decidable.not_not] at hstop
          obtain ⟨_, h2, h3⟩ := hstop
          have h3' : [q.name].contains tg = false := by
            cases hb : [q.name].contains tg with
            | false => rfl
            | true => exact absurd (List.contains_iff_mem.1 hb) h3
          rw [anc_iff.2 h2, h3']; rfl
        have hstep' : chase z o t MAX_CNAME_DEPTH [q.name] q.name =
            (rr :: (chase z o t (MAX_CNAME_DEPTH - 1) (tg :: [q.name]) tg).1,
              (chase z o t (MAX_CNAME_DEPTH - 1) (tg :: [q.name]) tg).2) := by
          rw [hstep, if_neg (by rw [hs2]; exact Bool.false_ne_true)]
        rw [if_neg hstop, hstep']
        -- how the chain ends in the specification
        cases hfin : (chase z o t (MAX_CNAME_DEPTH - 1) (tg :: [q.name]) tg).2 with
        | referral ns =>
          -- excluded: a CNAME target followed lies at or below a cut
          exfalso
          obtain ⟨m, hm, hcm⟩ := chase_referral_visited _ _ _ _ hfin
          have htail : m ∈ (visitedOf z o q).tail := by
            rw [hvis]
            show m ∈ (visited z o t (MAX_CNAME_DEPTH - 1 + 1) [q.name] q.name).tail
            simp only [visited, hres, hs2, Bool.false_eq_true, if_false, List.tail_cons]
            exact hm
          have := hcn
          simp only [cnameIntoCut, List.any_eq_false] at this
          have h1 := this m htail
          simp only [htdef, noCut, Bool.not_eq_true', Bool.not_eq_false'] at h1
          cases hcc : cuts z o m t with
          | nil => exact hcm hcc
          | cons _ _ => rw [hcc] at h1; simp at h1
        | data rr' => simp [conformsModAA, finTail]
        | noData => simp [conformsModAA, finTail]
        | nxDomain => simp [conformsModAA, finTail]
        | chainEnd => simp [conformsModAA, finTail]
  · -- not in the zone: REFUSED on both sides
    have hzo : zoneOf o q.name = false := by
      cases h : zoneOf o q.name with
      | false => rfl
      | true => exact absurd (zoneOf_iff.1 h) hin
    have hanc : isAncestorOrSelf o q.name = false := anc_false_iff.2 hin
    simp [answerImpl, answerSpec, hzo, hanc, conformsModAA]


/-! ### the AA bit -/

/-- `build_authoritative_response` sets AA on every response for a name in the zone -/
theorem impl_aa_true {z : Zone} {o : LName} {q : Query} (hin : zoneOf o q.name = true) :
    (answerImpl z o q).aa = true := by
  unfold answerImpl buildAuthoritative
  simp only [hin, if_true]
  split
  · rfl
  · rfl
  · split <;> rfl

theorem resolve_not_referral_of_noCut {z : Zone} {o n : LName} {t : Nat} (h : cuts z o n t = [])
    (ns : RRset) : resolve z o n t ≠ .referral ns := by
  intro hr
  exact resolve_referral_cuts hr h

/-- the specification sets AA unless the answer is a plain referral -/
theorem spec_aa_true_of_noCut {z : Zone} {o : LName} {q : Query} {d : Nat}
    (hin : isAncestorOrSelf o q.name = true) (hany : anyNotAtOwner z q = false)
    (hnc : cuts z o q.name (effType z q) = []) :
    (answerSpec (d + 1) z o q).aa = true := by
  have hty := specType_eq hany
  unfold answerSpec
  simp only [hin, Bool.not_true, Bool.false_eq_true, if_false, hty]
  generalize effType z q = t at *
  cases hres : resolve z o q.name t with
  | referral ns => exact absurd hres (resolve_not_referral_of_noCut hnc ns)
  | data rr => simp [chase, hres]
  | noData => simp [chase, hres]
  | nxDomain => simp [chase, hres]
  | cname rr tg =>
    rw [chase_cname_step hres]
    by_cases hs : (!isAncestorOrSelf o tg || [q.name].contains tg || d == 0) = true
    · rw [if_pos hs]
    · rw [if_neg hs]
      generalize (chase z o t d (tg :: [q.name]) tg).2 = fin
      cases fin <;> rfl

/--
**AA bit**: with no zone cut at or above the query name (`referralAA` false) the AA bit is the
prescribed one, so together with `impl_eq_spec_partial` the whole answer `conforms`.  On a
referral the code sets AA where the algorithm clears it (`witness_referral_aa`).
-/
theorem aa_correct_partial {z : Zone} {o : LName} {q : Query}
    (hany : anyNotAtOwner z q = false) (href : referralAA z o q = false) :
    (answerImpl z o q).aa = (answerSpec MAX_CNAME_DEPTH z o q).aa := by
  by_cases hin : zoneOf o q.name = true
  · have hanc : isAncestorOrSelf o q.name = true := hin
    have hnc : cuts z o q.name (effType z q) = [] := by
      simp only [referralAA, hanc, Bool.true_and, Bool.not_eq_false', noCut] at href
      cases hc : cuts z o q.name (effType z q) with
      | nil => rfl
      | cons _ _ => rw [hc] at href; simp at href
    rw [impl_aa_true hin]
    exact (spec_aa_true_of_noCut (d := MAX_CNAME_DEPTH - 1) hanc hany hnc).symm
  · have hzo : zoneOf o q.name = false := by
      cases h : zoneOf o q.name <;> simp_all
    have hanc : isAncestorOrSelf o q.name = false := hzo
    simp [answerImpl, answerSpec, hzo, hanc]

/-! ### negative answers carry the SOA -/

theorem lookupAnswers_ok_nonempty {z : Zone} {o n : LName} {t t' : Nat} {a : List RRset}
    {term : Option RRset} (h : lookupAnswers z o n t = .ok (t', a, term)) : a ≠ [] := by
  unfold lookupAnswers at h
  dsimp only at h
  cases hil : innerLookup z n (if (t == T_ANY) = true then replaceAny z n else t) with
  | none => rw [hil] at h; cases h
  | some a0 =>
    rw [hil] at h
    dsimp only at h
    by_cases hc : (a0.type == T_CNAME && (if (t == T_ANY) = true then replaceAny z n else t) != T_CNAME) = true
    · rw [if_pos hc] at h; cases h; simp [chaseCnames]
    · rw [if_neg hc] at h; cases h; simp

/-- a response of the model is *negative* when it is NXDOMAIN, or NOERROR with an empty answer
section and no NS RRset in the authority section (i.e. not a referral) -/
def isNegative (a : Answer) : Prop :=
  a.rcode = .nxDomain ∨ (a.rcode = .noError ∧ a.answers = [] ∧ ∀ r ∈ a.authority, r.type ≠ T_NS)

/--
**Every negative answer (NXDOMAIN or NODATA) carries exactly the apex SOA RRset in the authority
section** — for every well-formed zone and every query (no further hypothesis).
-/
theorem negative_has_soa {z : Zone} {o : LName} {q : Query} (hwf : zoneWF z o = true)
    {s : RRset} (hs : getRR z o T_SOA = some s) (hneg : isNegative (answerImpl z o q)) :
    (answerImpl z o q).authority = [s] := by
  have wf := wf_of_zoneWF hwf
  have hsoaL := soa_lookup wf hs
  unfold isNegative answerImpl at *
  by_cases hin : zoneOf o q.name = true
  · simp only [hin, if_true] at hneg ⊢
    unfold buildAuthoritative at hneg ⊢
    cases hla : lookupAnswers z o q.name q.type with
    | error e =>
      cases e with
      | refused => simp [hla] at hneg
      | nameExists => simp [hla, hsoaL]
      | nxDomain => simp [hla, hsoaL]
    | ok p =>
      obtain ⟨t', a, term⟩ := p
      have hne := lookupAnswers_ok_nonempty hla
      simp only [hla] at hneg ⊢
      by_cases hr : isReferral a q.type = true
      · exfalso
        simp only [hr, if_true] at hneg
        cases a with
        | nil => exact hne rfl
        | cons r rest =>
          have hrt : r.type = T_NS := by
            simp only [isReferral, Bool.and_eq_true, beq_iff_eq] at hr
            exact hr.1.1
          rcases hneg with h | ⟨_, _, h⟩
          · cases h
          · exact h r (by simp) hrt
      · exfalso
        have hr' : isReferral a q.type = false := by
          cases h : isReferral a q.type <;> simp_all
        simp only [hr', Bool.false_eq_true, if_false] at hneg
        rcases hneg with h | ⟨_, h, _⟩
        · cases h
        · exact hne h
  · have hzo : zoneOf o q.name = false := by
      cases h : zoneOf o q.name <;> simp_all
    simp [hzo] at hneg

/-! ### CNAME chasing terminates within the code's bound -/

theorem chaseFrom_length_le (z : Zone) (t : Nat) :
    ∀ (k : Nat) (seen : List LName) (last : RRset), (chaseFrom z t k seen last).length ≤ k := by
  intro k
  induction k with
  | zero => intro _ _; simp [chaseFrom]
  | succ k ih =>
    intro seen last
    unfold chaseFrom
    split
    · simp
    · split
      · simp
      · split
        · simp
        · split
          · simp
          · split
            · split
              · simp only [List.length_cons]
                exact Nat.succ_le_succ (ih _ _)
              · simp
            · simp

/-- **`chase_cnames` never returns more than `MAX_CNAME_DEPTH` RRsets** (loops included): the
recursion is on the code's own depth counter, so it terminates for every zone. -/
theorem chase_bounded (z : Zone) (name : LName) (first : RRset) (t : Nat) :
    (chaseCnames z name first t).length ≤ MAX_CNAME_DEPTH := by
  unfold chaseCnames
  have := chaseFrom_length_le z t (MAX_CNAME_DEPTH - 1) [name] first
  simp only [List.length_cons]
  have h : MAX_CNAME_DEPTH - 1 + 1 = MAX_CNAME_DEPTH := by decide
  omega

/-! ### never data from below a cut -/

/-- `rr` is not occluded: no zone cut at or above its owner (for a DS query the cut at the owner
itself does not count) — or it is the NS RRset of a delegation point itself -/
def notBelowCut (z : Zone) (o : LName) (t : Nat) (rr : RRset) : Prop :=
  cuts z o rr.name t = [] ∨ (rr.type = T_NS ∧ rr ∈ z ∧ rr.name ≠ o)

theorem innerLookup_notBelowCut {z : Zone} {o n : LName} {t : Nat} (wf : WF z o) {rr : RRset}
    (h : innerLookup z n t = some rr) : notBelowCut z o t rr := by
  by_cases hn : o <:+ n
  · unfold innerLookup lookupExact at h
    cases hw : walk z n t n with
    | some ns =>
      rw [hw] at h
      simp only [Option.some.injEq] at h
      subst h
      rw [walk_eq wf n t n hn] at hw
      cases hf : ((suffixes n).filter (isCutP z o n t)).head? with
      | none => rw [hf] at hw; cases hw
      | some c =>
        rw [hf] at hw
        simp only [Option.bind_some] at hw
        obtain ⟨hz, hnm, hty⟩ := get_some hw
        have hc : isCutP z o n t c = true :=
          (List.mem_filter.1 (List.mem_of_mem_head? hf)).2
        simp only [isCutP, Bool.and_eq_true, bne_iff_ne, ne_eq] at hc
        exact Or.inr ⟨hty, hz, hnm ▸ hc.2.2⟩
    | none =>
      have hcuts : cuts z o n t = [] := (walk_none_iff_noCut wf t hn).1 hw
      rw [hw] at h
      dsimp only at h
      cases hs : scan z n t with
      | some r =>
        rw [hs] at h
        simp only [Option.some.injEq] at h
        subst h
        have := List.find?_some hs
        simp only [Bool.and_eq_true, beq_iff_eq] at this
        exact Or.inl (this.1 ▸ hcuts)
      | none =>
        rw [hs] at h
        dsimp only at h
        unfold innerLookupWildcard at h
        cases hws : wildSource z n t with
        | none => rw [hws] at h; cases h
        | some p =>
          rw [hws] at h
          simp only [Option.map_some, Option.some.injEq] at h
          subst h
          exact Or.inl hcuts
  · rw [innerLookup_outzone wf hn] at h
    cases h

theorem chaseFrom_notBelowCut {z : Zone} {o : LName} {t : Nat} (wf : WF z o) :
    ∀ (k : Nat) (seen : List LName) (last : RRset),
      ∀ rr ∈ chaseFrom z t k seen last, notBelowCut z o t rr := by
  intro k
  induction k with
  | zero => intro _ _ rr h; simp [chaseFrom] at h
  | succ k ih =>
    intro seen last rr h
    unfold chaseFrom at h
    split at h
    · cases h
    · split at h
      · cases h
      · split at h
        · cases h
        · split at h
          · cases h
          · split at h
            · rename_i r hil
              split at h
              · rcases List.mem_cons.1 h with h | h
                · exact h ▸ innerLookup_notBelowCut wf hil
                · exact ih _ _ rr h
              · rw [List.mem_singleton] at h
                exact h ▸ innerLookup_notBelowCut wf hil
            · cases h

/--
**No RRset in the answer section is owned by a name below a zone cut** (occluded data is never
served), for every well-formed zone and every query — the one RRset of a delegation point that
can appear there is its NS RRset (deviation classes `ns-any-below-cut`, `cname-into-cut`), and
its DS RRset when DS is asked for.
-/
theorem never_data_below_cut {z : Zone} {o : LName} {q : Query} (hwf : zoneWF z o = true) :
    ∀ rr ∈ (answerImpl z o q).answers, notBelowCut z o (effType z q) rr := by
  have wf := wf_of_zoneWF hwf
  intro rr hrr
  unfold answerImpl at hrr
  by_cases hin : zoneOf o q.name = true
  · simp only [hin, if_true] at hrr
    unfold buildAuthoritative at hrr
    cases hla : lookupAnswers z o q.name q.type with
    | error e =>
      rw [hla] at hrr
      cases e <;> simp at hrr
    | ok p =>
      obtain ⟨t', a, term⟩ := p
      rw [hla] at hrr
      dsimp only at hrr
      have hmem : rr ∈ a := by
        split at hrr
        · simp at hrr
        · exact hrr
      -- where `a` comes from
      unfold lookupAnswers at hla
      dsimp only at hla
      have heff : (if (q.type == T_ANY) = true then replaceAny z q.name else q.type) = effType z q := rfl
      rw [heff] at hla
      cases hil : innerLookup z q.name (effType z q) with
      | none => rw [hil] at hla; cases hla
      | some a0 =>
        rw [hil] at hla
        dsimp only at hla
        by_cases hc : (a0.type == T_CNAME && effType z q != T_CNAME) = true
        · rw [if_pos hc] at hla
          cases hla
          unfold chaseCnames at hmem
          rcases List.mem_cons.1 hmem with h | h
          · exact h ▸ innerLookup_notBelowCut wf hil
          · exact chaseFrom_notBelowCut wf _ _ _ rr h
        · rw [if_neg hc] at hla
          cases hla
          rw [List.mem_singleton] at hmem
          exact hmem ▸ innerLookup_notBelowCut wf hil
  · have hzo : zoneOf o q.name = false := by
      cases h : zoneOf o q.name <;> simp_all
    simp [hzo] at hrr

/-! ### additional-section processing terminates -/

/--
**The `while` loop of `additional_search` — which has no counter in the code — ends by itself**:
for every zone, every start name taken from an rdata of the zone (that is where `maybe_next_name`
and the CNAME arm take it from) and every state of `names` / `additionals`, any amount of fuel
beyond `addFuel z` (= number of names embedded in the zone's rdatas + 2) gives the same result.
The names looked up are pairwise distinct rdata names of the zone, so there are at most
`(targets z).length` iterations that do a lookup.
-/
theorem addLoop_fuel_irrelevant (z : Zone) (qt : Nat) (names : List LName) (search : LName)
    (adds : List RRset) (hs : search ∈ targets z) (fuel : Nat) (h : addFuel z ≤ fuel) :
    addLoop z qt fuel names search adds = addLoop z qt (addFuel z) names search adds := by
  apply addLoop_stable z qt (addFuel z) names search adds hs _ fuel h
  have := remaining_le z names
  unfold addFuel
  omega

end HickoryVerif.C10
