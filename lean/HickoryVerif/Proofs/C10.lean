/-
C10 — authoritative answers follow the RFC 1034 §4.3.2 algorithm.

Property theorems about `Model/AuthZone.lean` (the model of `inner_lookup`,
`inner_lookup_wildcard`, `chase_cnames`, `lookup`, `build_authoritative_response`) against
`Spec/Rfc1034.lean`.

The full statement — for every well-formed zone `z` with origin `o` and every query `q`

    conforms (answerImpl z o q) (answerSpec MAX_CNAME_DEPTH z o q) = true

(rcode, AA, answer section, and the authority section where the algorithm prescribes it) — is
FALSE for the code as it is: `Proofs/C10Witness.lean` has a kernel-checked counter-example for each
way it fails.  What holds is `impl_eq_spec_partial` below, under the decidable hypotheses that
exclude exactly those ways (`Model/AuthZoneDev.lean`), and `aa_iff_not_referral` for the AA bit.
-/
import HickoryVerif.Lemmas.AuthZoneChain
import HickoryVerif.Lemmas.AuthZoneAdd

namespace HickoryVerif.C10
open HickoryVerif HickoryVerif.AuthZone HickoryVerif.AuthZone.Dev HickoryVerif.Spec.Rfc1034

/-- `replace_any` is the specification's choice of the RRset standing in for ANY -/
theorem replaceAny_eq_anyType (z : Zone) (n : LName) : replaceAny z n = anyType z n := rfl

theorem chase_referral_visited {z : Zone} {o : LName} {t : Nat} :
    ∀ (k : Nat) (seen : List LName) (n : LName) (ns : RRset),
      (chase z o t k seen n).2 = .referral ns → ∃ m ∈ visited z o t k seen n, cuts z o m t ≠ [] := by
  intro k
  induction k with
  | zero => intro seen n ns h; simp [chase] at h
  | succ k ih =>
    intro seen n ns h
    cases hres : resolve z o n t with
    | referral ns' => exact ⟨n, visited_head, resolve_referral_cuts hres⟩
    | data rr => simp [chase, hres] at h
    | noData => simp [chase, hres] at h
    | nxDomain => simp [chase, hres] at h
    | cname rr tg =>
      rw [chase_cname_step hres] at h
      by_cases hstop : (!isAncestorOrSelf o tg || seen.contains tg || k == 0) = true
      · rw [if_pos hstop] at h; cases h
      · rw [if_neg hstop] at h
        obtain ⟨m, hm, hc⟩ := ih (tg :: seen) tg ns h
        refine ⟨m, ?_, hc⟩
        have hs : (!isAncestorOrSelf o tg || seen.contains tg || k == 0) = false := by
          cases hb : (!isAncestorOrSelf o tg || seen.contains tg || k == 0) <;> simp_all
        simp only [visited, hres, hs, Bool.false_eq_true, if_false]
        exact List.mem_cons_of_mem _ hm

/-- the type the specification looks up is the one `lookup` looks up (`ANY` at a name that owns
RRsets is replaced by the same type on both sides) -/
theorem specType_eq {z : Zone} {q : Query} (hany : anyNotAtOwner z q = false) :
    (if q.type == T_ANY then anyType z ((sourceNode z q.name).getD q.name) else q.type) = effType z q := by
  unfold effType
  by_cases h : q.type = T_ANY
  · simp only [h, beq_self_eq_true, if_true]
    have hown : z.any (·.name == q.name) = true := by
      simp only [anyNotAtOwner, h, beq_self_eq_true, Bool.true_and, Bool.not_eq_false'] at hany
      exact hany
    obtain ⟨r, hr, hrn⟩ := List.any_eq_true.1 hown
    have hex : nameExists z q.name = true :=
      nameExists_of_mem hr (by rw [beq_iff_eq] at hrn; rw [hrn]; exact List.suffix_refl _)
    simp [sourceNode, hex, replaceAny_eq_anyType]
  · have : (q.type == T_ANY) = false := beq_false_of_ne h
    simp [this]

/-- `is_referral` is false on an RRset that is not a delegation NS RRset -/
theorem isReferral_false {o : LName} {rr : RRset} (h : rr.type = T_NS → rr.name = o)
    (rest : List RRset) : isReferral o (rr :: rest) = false := by
  unfold isReferral
  by_cases hns : rr.type = T_NS
  · simp [h hns]
  · simp [hns]

/--
**The code answers as RFC 1034 §4.3.2 / RFC 4592 prescribe** — rcode, AA bit, answer section,
and the authority section of negative answers and referrals — for every well-formed zone and
query outside the recorded deviation classes (code as repaired by /repo af8bb96).

Hypotheses (all decidable; each is violated by a kernel-checked witness in `C10Witness.lean`):
`WildcardGap` — none of the RFC 4592 gaps at the query name or a CNAME target followed;
`NestedCut` — at most one zone cut above each of these names; `cnameIntoCut` — no CNAME target
followed lies at or below a cut; `anyNotAtOwner` — ANY only for names that own RRsets.
-/
theorem impl_eq_spec_partial {z : Zone} {o : LName} {q : Query}
    (hwf : zoneWF z o = true)
    (hgap : WildcardGap z o q = false) (hnest : NestedCut z o q = false)
    (hcn : cnameIntoCut z o q = false) (hany : anyNotAtOwner z q = false) :
    conforms (answerImpl z o q) (answerSpec MAX_CNAME_DEPTH z o q) = true := by
  have wf := wf_of_zoneWF hwf
  by_cases hin : o <:+ q.name
  · have hzo : zoneOf o q.name = true := zoneOf_iff.2 hin
    have hanc : isAncestorOrSelf o q.name = true := anc_iff.2 hin
    obtain ⟨s, hs⟩ := wf.soa
    have hsoaL := soa_lookup wf hs
    have hspecSoa : (rrsetAt z o T_SOA).toList = [s] := by rw [← get_eq_rrsetAt, hs]; rfl
    -- hypotheses per visited name
    have hvis : visitedOf z o q = visited z o (effType z q) MAX_CNAME_DEPTH [q.name] q.name := by
      simp [visitedOf, hanc]
    have hper : ∀ m ∈ visited z o (effType z q) MAX_CNAME_DEPTH [q.name] q.name,
        nestedCutAt z o m (effType z q) = false ∧ wildcardGapAt z o m (effType z q) = false := by
      intro m hm
      rw [← hvis] at hm
      constructor
      · have := hnest
        simp only [NestedCut, List.any_eq_false] at this
        have := this m hm
        simpa using this
      · have := hgap
        simp only [WildcardGap, List.any_eq_false] at this
        have := this m hm
        simpa using this
    obtain ⟨hn0, hg0⟩ := hper q.name visited_head
    have hnode := node_eq wf hin hn0 hg0
    have hty := specType_eq hany
    have heff : (if q.type == T_ANY then replaceAny z q.name else q.type) = effType z q := rfl
    generalize htdef : effType z q = t at *
    have hlaU : lookupAnswers z o q.name q.type =
        match innerLookup z q.name t with
        | some a =>
          if (a.type == T_CNAME && t != T_CNAME) = true then
            .ok (t, chaseCnames z q.name a t, (chaseCnames z q.name a t).getLast?.filter (·.type != T_CNAME))
          else .ok (t, [a], some a)
        | none =>
          .error (if z.any (fun r => r.name == q.name || zoneOf q.name r.name) then .nameExists
                  else if zoneOf o q.name then .nxDomain else .refused) := by
      unfold lookupAnswers
      rw [heff]
      dsimp only
      cases innerLookup z q.name t <;> rfl
    unfold answerImpl answerSpec
    simp only [hzo, hanc, if_true, Bool.not_true, Bool.false_eq_true, if_false, hty, hspecSoa]
    unfold buildAuthoritative
    rw [hlaU]
    cases hres : resolve z o q.name t with
    | referral ns =>
      rw [hres] at hnode
      obtain ⟨hil, hnt, hno, _⟩ := hnode
      have hc : (ns.type == T_CNAME) = false := by rw [hnt]; decide
      have hchase : chase z o t MAX_CNAME_DEPTH [q.name] q.name = ([], .referral ns) := by
        simp [chase, hres]
      have hc2 : (ns.type == T_CNAME && t != T_CNAME) = false := by simp [hc]
      have hir : isReferral o [ns] = true := by
        simp [isReferral, hnt, hno]
      simp only [hil, hc2, Bool.false_eq_true, if_false, hchase, hir, if_true]
      simp [conforms, conformsModAA]
    | noData =>
      rw [hres] at hnode
      obtain ⟨hil, hex⟩ := hnode
      have hchase : chase z o t MAX_CNAME_DEPTH [q.name] q.name = ([], .noData) := by
        simp [chase, hres]
      have hne := implNameExists_eq z q.name
      simp only [hil, hne, hex, if_true, hchase, hsoaL]
      simp [conforms, conformsModAA]
    | nxDomain =>
      rw [hres] at hnode
      obtain ⟨hil, hex⟩ := hnode
      have hchase : chase z o t MAX_CNAME_DEPTH [q.name] q.name = ([], .nxDomain) := by
        simp [chase, hres]
      have hne := implNameExists_eq z q.name
      simp only [hil, hne, hex, Bool.false_eq_true, if_false, hzo, if_true, hchase, hsoaL]
      simp [conforms, conformsModAA]
    | data rr =>
      rw [hres] at hnode
      obtain ⟨hil, hrt, hown⟩ := hnode
      have hchase : chase z o t MAX_CNAME_DEPTH [q.name] q.name = ([], .data rr) := by
        simp [chase, hres]
      have hc : (rr.type == T_CNAME && t != T_CNAME) = false := by
        rw [hrt]; cases h : (t == T_CNAME) <;> simp [bne, h]
      have hir : isReferral o [rr] = false := isReferral_false hown []
      simp only [hil, hc, Bool.false_eq_true, if_false, hchase, hir]
      simp [conforms, conformsModAA]
    | cname rr tg =>
      rw [hres] at hnode
      obtain ⟨hil, hrt, htne, htg⟩ := hnode
      have hc : (rr.type == T_CNAME && t != T_CNAME) = true := by
        simp [hrt, htne]
      have hir : ∀ rest, isReferral o (rr :: rest) = false := by
        intro rest
        exact isReferral_false (by rw [hrt]; intro h; exact absurd h (by decide)) rest
      -- the chain on both sides
      have hv : ∀ m ∈ (if MAX_CNAME_DEPTH - 1 = 0 ∨ ¬ o <:+ tg ∨ tg ∈ [q.name] then []
            else visited z o t (MAX_CNAME_DEPTH - 1) (tg :: [q.name]) tg),
          nestedCutAt z o m t = false ∧ wildcardGapAt z o m t = false := by
        intro m hm
        by_cases hstop : MAX_CNAME_DEPTH - 1 = 0 ∨ ¬ o <:+ tg ∨ tg ∈ [q.name]
        · rw [if_pos hstop] at hm; cases hm
        · rw [if_neg hstop] at hm
          apply hper m
          have hs2 : (!isAncestorOrSelf o tg || [q.name].contains tg || MAX_CNAME_DEPTH - 1 == 0) = false := by
            simp only [not_or, Decidable.not_not] at hstop
            obtain ⟨_, h2, h3⟩ := hstop
            have h3' : [q.name].contains tg = false := by
              cases hb : [q.name].contains tg with
              | false => rfl
              | true => exact absurd (List.contains_iff_mem.1 hb) h3
            rw [anc_iff.2 h2, h3']; rfl
          show m ∈ visited z o t (MAX_CNAME_DEPTH - 1 + 1) [q.name] q.name
          simp only [visited, hres, hs2, Bool.false_eq_true, if_false]
          exact List.mem_cons_of_mem _ hm
      have hrel := chase_rel wf htne (MAX_CNAME_DEPTH - 1) [q.name] rr tg hrt htg hv
      have hstep : chase z o t MAX_CNAME_DEPTH [q.name] q.name =
          if (!isAncestorOrSelf o tg || [q.name].contains tg || MAX_CNAME_DEPTH - 1 == 0) = true
          then ([rr], .chainEnd)
          else (rr :: (chase z o t (MAX_CNAME_DEPTH - 1) (tg :: [q.name]) tg).1,
                (chase z o t (MAX_CNAME_DEPTH - 1) (tg :: [q.name]) tg).2) :=
        chase_cname_step (k := MAX_CNAME_DEPTH - 1) hres
      simp only [hil, hc, if_true, chaseCnames, hrel, hir]
      by_cases hstop : MAX_CNAME_DEPTH - 1 = 0 ∨ ¬ o <:+ tg ∨ tg ∈ [q.name]
      · have hs2 : (!isAncestorOrSelf o tg || [q.name].contains tg || MAX_CNAME_DEPTH - 1 == 0) = true := by
          rcases hstop with h | h | h
          · exact absurd h (by decide)
          · simp [anc_false_iff.2 h]
          · have : [q.name].contains tg = true := List.contains_iff_mem.2 h
            rw [this]; simp
        have hstep' : chase z o t MAX_CNAME_DEPTH [q.name] q.name = ([rr], .chainEnd) := by
          rw [hstep, if_pos hs2]
        rw [if_pos hstop, hstep']
        simp [conforms, conformsModAA]
      · have hs2 : (!isAncestorOrSelf o tg || [q.name].contains tg || MAX_CNAME_DEPTH - 1 == 0) = false := by
          simp only [not_or, Decidable.not_not] at hstop
          obtain ⟨_, h2, h3⟩ := hstop
          have h3' : [q.name].contains tg = false := by
            cases hb : [q.name].contains tg with
            | false => rfl
            | true => exact absurd (List.contains_iff_mem.1 hb) h3
          rw [anc_iff.2 h2, h3']; rfl
        have hstep' : chase z o t MAX_CNAME_DEPTH [q.name] q.name =
            (rr :: (chase z o t (MAX_CNAME_DEPTH - 1) (tg :: [q.name]) tg).1,
              (chase z o t (MAX_CNAME_DEPTH - 1) (tg :: [q.name]) tg).2) := by
          rw [hstep, if_neg (by rw [hs2]; exact Bool.false_ne_true)]
        rw [if_neg hstop, hstep']
        -- how the chain ends in the specification
        cases hfin : (chase z o t (MAX_CNAME_DEPTH - 1) (tg :: [q.name]) tg).2 with
        | referral ns =>
          -- excluded: a CNAME target followed lies at or below a cut
          exfalso
          obtain ⟨m, hm, hcm⟩ := chase_referral_visited _ _ _ _ hfin
          have htail : m ∈ (visitedOf z o q).tail := by
            rw [hvis]
            show m ∈ (visited z o t (MAX_CNAME_DEPTH - 1 + 1) [q.name] q.name).tail
            simp only [visited, hres, hs2, Bool.false_eq_true, if_false, List.tail_cons]
            exact hm
          have := hcn
          simp only [cnameIntoCut, List.any_eq_false] at this
          have h1 := this m htail
          simp only [htdef, noCut, Bool.not_eq_true', Bool.not_eq_false'] at h1
          cases hcc : cuts z o m t with
          | nil => exact hcm hcc
          | cons _ _ => rw [hcc] at h1; simp at h1
        | data rr' => simp [conforms, conformsModAA, finTail]
        | noData => simp [conforms, conformsModAA, finTail]
        | nxDomain => simp [conforms, conformsModAA, finTail]
        | chainEnd => simp [conforms, conformsModAA, finTail]
  · -- not in the zone: REFUSED on both sides
    have hzo : zoneOf o q.name = false := by
      cases h : zoneOf o q.name with
      | false => rfl
      | true => exact absurd (zoneOf_iff.1 h) hin
    have hanc : isAncestorOrSelf o q.name = false := anc_false_iff.2 hin
    simp [answerImpl, answerSpec, hzo, hanc, conforms, conformsModAA]


/-! ### the AA bit -/

theorem lookupAnswers_eq (z : Zone) (o n : LName) (qt : Nat) :
    lookupAnswers z o n qt =
      match innerLookup z n (if qt == T_ANY then replaceAny z n else qt) with
      | some a =>
        if (a.type == T_CNAME && (if qt == T_ANY then replaceAny z n else qt) != T_CNAME) = true then
          .ok ((if qt == T_ANY then replaceAny z n else qt),
            chaseCnames z n a (if qt == T_ANY then replaceAny z n else qt),
            (chaseCnames z n a (if qt == T_ANY then replaceAny z n else qt)).getLast?.filter (·.type != T_CNAME))
        else .ok ((if qt == T_ANY then replaceAny z n else qt), [a], some a)
      | none =>
        .error (if z.any (fun r => r.name == n || zoneOf n r.name) then .nameExists
                else if zoneOf o n then .nxDomain else .refused) := by
  unfold lookupAnswers
  dsimp only
  cases innerLookup z n (if qt == T_ANY then replaceAny z n else qt) <;> rfl

/-- `build_authoritative_response` clears AA exactly when the lookup returned a delegation -/
theorem impl_aa {z : Zone} {o : LName} {q : Query} (hin : zoneOf o q.name = true) :
    (answerImpl z o q).aa = !isReferral o (okAnswers (lookupAnswers z o q.name q.type)) := by
  unfold answerImpl buildAuthoritative
  simp only [hin, if_true]
  cases hla : lookupAnswers z o q.name q.type with
  | error e => cases e <;> simp [okAnswers, isReferral]
  | ok p =>
    obtain ⟨t', a, term⟩ := p
    dsimp only [okAnswers]
    by_cases hr : isReferral o a = true
    · simp [hr]
    · have : isReferral o a = false := by cases h : isReferral o a <;> simp_all
      simp [this]

theorem resolve_not_referral_of_noCut {z : Zone} {o n : LName} {t : Nat} (h : cuts z o n t = [])
    (ns : RRset) : resolve z o n t ≠ .referral ns := by
  intro hr
  exact resolve_referral_cuts hr h

/-- the specification sets AA unless the answer is a plain referral -/
theorem spec_aa_true_of_noCut {z : Zone} {o : LName} {q : Query} {d : Nat}
    (hin : isAncestorOrSelf o q.name = true) (hany : anyNotAtOwner z q = false)
    (hnc : cuts z o q.name (effType z q) = []) :
    (answerSpec (d + 1) z o q).aa = true := by
  have hty := specType_eq hany
  unfold answerSpec
  simp only [hin, Bool.not_true, Bool.false_eq_true, if_false, hty]
  generalize effType z q = t at *
  cases hres : resolve z o q.name t with
  | referral ns => exact absurd hres (resolve_not_referral_of_noCut hnc ns)
  | data rr => simp [chase, hres]
  | noData => simp [chase, hres]
  | nxDomain => simp [chase, hres]
  | cname rr tg =>
    rw [chase_cname_step hres]
    by_cases hs : (!isAncestorOrSelf o tg || [q.name].contains tg || d == 0) = true
    · rw [if_pos hs]
    · rw [if_neg hs]
      generalize (chase z o t d (tg :: [q.name]) tg).2 = fin
      cases fin <;> rfl

theorem spec_aa_false_of_cut {z : Zone} {o : LName} {q : Query} {d : Nat}
    (hin : isAncestorOrSelf o q.name = true) (hany : anyNotAtOwner z q = false)
    {c : LName} {rest : List LName} (hc : cuts z o q.name (effType z q) = c :: rest) :
    (answerSpec (d + 1) z o q).aa = false := by
  have hty := specType_eq hany
  obtain ⟨ns, hns⟩ := cut_has_ns (z := z) (o := o) (n := q.name) (t := effType z q) (c := c)
    (by rw [hc]; simp)
  unfold answerSpec
  simp only [hin, Bool.not_true, Bool.false_eq_true, if_false, hty]
  have hres : resolve z o q.name (effType z q) = .referral ns := by
    simp only [resolve, hc]
    rw [← get_eq_rrsetAt, hns]
  simp [chase, hres]

/--
**AA bit** (code as repaired by /repo af8bb96): for every well-formed zone and every query with
none of the RFC 4592 gaps *at the query name* the AA bit is the prescribed one — cleared exactly
on referrals, nested zone cuts included (the referral then names the wrong cut, `NestedCut`, but
is a referral all the same).
-/
theorem aa_correct_partial {z : Zone} {o : LName} {q : Query} (hwf : zoneWF z o = true)
    (hgap : wildcardGapAt z o q.name (effType z q) = false) (hany : anyNotAtOwner z q = false) :
    (answerImpl z o q).aa = (answerSpec MAX_CNAME_DEPTH z o q).aa := by
  have wf := wf_of_zoneWF hwf
  by_cases hin : zoneOf o q.name = true
  · have hanc : isAncestorOrSelf o q.name = true := hin
    have hsuf : o <:+ q.name := zoneOf_iff.1 hin
    rw [impl_aa hin, lookupAnswers_eq]
    have heff : (if q.type == T_ANY then replaceAny z q.name else q.type) = effType z q := rfl
    rw [heff]
    cases hcuts : cuts z o q.name (effType z q) with
    | nil =>
      rw [show MAX_CNAME_DEPTH = (MAX_CNAME_DEPTH - 1) + 1 from rfl,
        spec_aa_true_of_noCut hanc hany hcuts]
      have hnest : nestedCutAt z o q.name (effType z q) = false := by simp [nestedCutAt, hcuts]
      have hnode := node_eq wf hsuf hnest hgap
      cases hres : resolve z o q.name (effType z q) with
      | referral ns => exact absurd hres (resolve_not_referral_of_noCut hcuts ns)
      | data rr =>
        rw [hres] at hnode
        obtain ⟨hil, hrt, hown⟩ := hnode
        have hc : (rr.type == T_CNAME && effType z q != T_CNAME) = false := by
          rw [hrt]; cases h : (effType z q == T_CNAME) <;> simp [bne, h]
        simp [hil, hc, okAnswers, isReferral_false hown]
      | noData => rw [hres] at hnode; simp [hnode.1, okAnswers, isReferral]
      | nxDomain => rw [hres] at hnode; simp [hnode.1, okAnswers, isReferral]
      | cname rr tg =>
        rw [hres] at hnode
        obtain ⟨hil, hrt, htne, _⟩ := hnode
        have hc : (rr.type == T_CNAME && effType z q != T_CNAME) = true := by simp [hrt, htne]
        have hnr : ∀ rest, isReferral o (rr :: rest) = false := fun rest =>
          isReferral_false (by rw [hrt]; intro h; exact absurd h (by decide)) rest
        simp [hil, hc, okAnswers, chaseCnames, hnr]
    | cons c rest =>
      rw [show MAX_CNAME_DEPTH = (MAX_CNAME_DEPTH - 1) + 1 from rfl,
        spec_aa_false_of_cut hanc hany hcuts]
      -- the walk returns the NS RRset of the deepest cut
      have hw := walk_eq wf q.name (effType z q) q.name hsuf
      have hfne : (suffixes q.name).filter (isCutP z o q.name (effType z q)) ≠ [] := by
        intro h
        rw [cuts_eq, h] at hcuts
        simp at hcuts
      cases hf : (suffixes q.name).filter (isCutP z o q.name (effType z q)) with
      | nil => exact absurd hf hfne
      | cons c' rest' =>
        have hc'mem : c' ∈ cuts z o q.name (effType z q) := by
          rw [cuts_eq, hf]; simp
        obtain ⟨ns, hns⟩ := cut_has_ns hc'mem
        have hc'o := cut_ne_origin hc'mem
        obtain ⟨_, hnn, hnt⟩ := get_some hns
        rw [hf] at hw
        simp only [List.head?_cons, Option.bind_some, hns] at hw
        have hil : innerLookup z q.name (effType z q) = some ns := by
          simp [innerLookup, lookupExact, hw]
        have hc : (ns.type == T_CNAME && effType z q != T_CNAME) = false := by
          have : (ns.type == T_CNAME) = false := by rw [hnt]; decide
          simp [this]
        have hr : isReferral o [ns] = true := by
          simp [isReferral, hnt, hnn, hc'o]
        simp [hil, hc, okAnswers, hr]
  · have hzo : zoneOf o q.name = false := by
      cases h : zoneOf o q.name <;> simp_all
    have hanc : isAncestorOrSelf o q.name = false := hzo
    simp [answerImpl, answerSpec, hzo, hanc]

/-! ### negative answers carry the SOA -/

theorem lookupAnswers_ok_nonempty {z : Zone} {o n : LName} {t t' : Nat} {a : List RRset}
    {term : Option RRset} (h : lookupAnswers z o n t = .ok (t', a, term)) : a ≠ [] := by
  unfold lookupAnswers at h
  dsimp only at h
  cases hil : innerLookup z n (if (t == T_ANY) = true then replaceAny z n else t) with
  | none => rw [hil] at h; cases h
  | some a0 =>
    rw [hil] at h
    dsimp only at h
    by_cases hc : (a0.type == T_CNAME && (if (t == T_ANY) = true then replaceAny z n else t) != T_CNAME) = true
    · rw [if_pos hc] at h; cases h; simp [chaseCnames]
    · rw [if_neg hc] at h; cases h; simp

/-- a response of the model is *negative* when it is NXDOMAIN, or NOERROR with an empty answer
section and no NS RRset in the authority section (i.e. not a referral) -/
def isNegative (a : Answer) : Prop :=
  a.rcode = .nxDomain ∨ (a.rcode = .noError ∧ a.answers = [] ∧ ∀ r ∈ a.authority, r.type ≠ T_NS)

/--
**Every negative answer (NXDOMAIN or NODATA) carries exactly the apex SOA RRset in the authority
section** — for every well-formed zone and every query (no further hypothesis).
-/
theorem negative_has_soa {z : Zone} {o : LName} {q : Query} (hwf : zoneWF z o = true)
    {s : RRset} (hs : getRR z o T_SOA = some s) (hneg : isNegative (answerImpl z o q)) :
    (answerImpl z o q).authority = [s] := by
  have wf := wf_of_zoneWF hwf
  have hsoaL := soa_lookup wf hs
  unfold isNegative answerImpl at *
  by_cases hin : zoneOf o q.name = true
  · simp only [hin, if_true] at hneg ⊢
    unfold buildAuthoritative at hneg ⊢
    cases hla : lookupAnswers z o q.name q.type with
    | error e =>
      cases e with
      | refused => simp [hla] at hneg
      | nameExists => simp [hla, hsoaL]
      | nxDomain => simp [hla, hsoaL]
    | ok p =>
      obtain ⟨t', a, term⟩ := p
      have hne := lookupAnswers_ok_nonempty hla
      simp only [hla] at hneg ⊢
      by_cases hr : isReferral o a = true
      · exfalso
        simp only [hr, if_true] at hneg
        cases a with
        | nil => exact hne rfl
        | cons r rest =>
          have hrt : r.type = T_NS := by
            simp only [isReferral, Bool.and_eq_true, beq_iff_eq] at hr
            exact hr.1
          rcases hneg with h | ⟨_, _, h⟩
          · cases h
          · exact h r (by simp) hrt
      · exfalso
        have hr' : isReferral o a = false := by
          cases h : isReferral o a <;> simp_all
        simp only [hr', Bool.false_eq_true, if_false] at hneg
        rcases hneg with h | ⟨_, h, _⟩
        · cases h
        · exact hne h
  · have hzo : zoneOf o q.name = false := by
      cases h : zoneOf o q.name <;> simp_all
    simp [hzo] at hneg

/-! ### CNAME chasing terminates within the code's bound -/

theorem chaseFrom_length_le (z : Zone) (t : Nat) :
    ∀ (k : Nat) (seen : List LName) (last : RRset), (chaseFrom z t k seen last).length ≤ k := by
  intro k
  induction k with
  | zero => intro _ _; simp [chaseFrom]
  | succ k ih =>
    intro seen last
    unfold chaseFrom
    split
    · simp
    · split
      · simp
      · split
        · simp
        · split
          · simp
          · split
            · split
              · simp only [List.length_cons]
                exact Nat.succ_le_succ (ih _ _)
              · simp
            · simp

/-- **`chase_cnames` never returns more than `MAX_CNAME_DEPTH` RRsets** (loops included): the
recursion is on the code's own depth counter, so it terminates for every zone. -/
theorem chase_bounded (z : Zone) (name : LName) (first : RRset) (t : Nat) :
    (chaseCnames z name first t).length ≤ MAX_CNAME_DEPTH := by
  unfold chaseCnames
  have := chaseFrom_length_le z t (MAX_CNAME_DEPTH - 1) [name] first
  simp only [List.length_cons]
  have h : MAX_CNAME_DEPTH - 1 + 1 = MAX_CNAME_DEPTH := by decide
  omega

/-! ### never data from below a cut -/

/-- `rr` is not occluded: no zone cut at or above its owner (for a DS query the cut at the owner
itself does not count) — or it is the NS RRset of a delegation point itself -/
def notBelowCut (z : Zone) (o : LName) (t : Nat) (rr : RRset) : Prop :=
  cuts z o rr.name t = [] ∨ (rr.type = T_NS ∧ rr ∈ z ∧ rr.name ≠ o)

theorem innerLookup_notBelowCut {z : Zone} {o n : LName} {t : Nat} (wf : WF z o) {rr : RRset}
    (h : innerLookup z n t = some rr) : notBelowCut z o t rr := by
  by_cases hn : o <:+ n
  · unfold innerLookup lookupExact at h
    cases hw : walk z n t n with
    | some ns =>
      rw [hw] at h
      simp only [Option.some.injEq] at h
      subst h
      rw [walk_eq wf n t n hn] at hw
      cases hf : ((suffixes n).filter (isCutP z o n t)).head? with
      | none => rw [hf] at hw; cases hw
      | some c =>
        rw [hf] at hw
        simp only [Option.bind_some] at hw
        obtain ⟨hz, hnm, hty⟩ := get_some hw
        have hc : isCutP z o n t c = true :=
          (List.mem_filter.1 (List.mem_of_mem_head? hf)).2
        simp only [isCutP, Bool.and_eq_true, bne_iff_ne, ne_eq] at hc
        exact Or.inr ⟨hty, hz, hnm ▸ hc.2.2⟩
    | none =>
      have hcuts : cuts z o n t = [] := (walk_none_iff_noCut wf t hn).1 hw
      rw [hw] at h
      dsimp only at h
      cases hs : scan z n t with
      | some r =>
        rw [hs] at h
        simp only [Option.some.injEq] at h
        subst h
        have := List.find?_some hs
        simp only [Bool.and_eq_true, beq_iff_eq] at this
        exact Or.inl (this.1 ▸ hcuts)
      | none =>
        rw [hs] at h
        dsimp only at h
        unfold innerLookupWildcard at h
        cases hws : wildSource z n t with
        | none => rw [hws] at h; cases h
        | some p =>
          rw [hws] at h
          simp only [Option.map_some, Option.some.injEq] at h
          subst h
          exact Or.inl hcuts
  · rw [innerLookup_outzone wf hn] at h
    cases h

theorem chaseFrom_notBelowCut {z : Zone} {o : LName} {t : Nat} (wf : WF z o) :
    ∀ (k : Nat) (seen : List LName) (last : RRset),
      ∀ rr ∈ chaseFrom z t k seen last, notBelowCut z o t rr := by
  intro k
  induction k with
  | zero => intro _ _ rr h; simp [chaseFrom] at h
  | succ k ih =>
    intro seen last rr h
    unfold chaseFrom at h
    split at h
    · cases h
    · split at h
      · cases h
      · split at h
        · cases h
        · split at h
          · cases h
          · split at h
            · rename_i r hil
              split at h
              · rcases List.mem_cons.1 h with h | h
                · exact h ▸ innerLookup_notBelowCut wf hil
                · exact ih _ _ rr h
              · rw [List.mem_singleton] at h
                exact h ▸ innerLookup_notBelowCut wf hil
            · cases h

/--
**No RRset in the answer section is owned by a name below a zone cut** (occluded data is never
served), for every well-formed zone and every query — the one RRset of a delegation point that
can appear there is its NS RRset (deviation classes `ns-any-below-cut`, `cname-into-cut`), and
its DS RRset when DS is asked for.
-/
theorem never_data_below_cut {z : Zone} {o : LName} {q : Query} (hwf : zoneWF z o = true) :
    ∀ rr ∈ (answerImpl z o q).answers, notBelowCut z o (effType z q) rr := by
  have wf := wf_of_zoneWF hwf
  intro rr hrr
  unfold answerImpl at hrr
  by_cases hin : zoneOf o q.name = true
  · simp only [hin, if_true] at hrr
    unfold buildAuthoritative at hrr
    cases hla : lookupAnswers z o q.name q.type with
    | error e =>
      rw [hla] at hrr
      cases e <;> simp at hrr
    | ok p =>
      obtain ⟨t', a, term⟩ := p
      rw [hla] at hrr
      dsimp only at hrr
      have hmem : rr ∈ a := by
        split at hrr
        · simp at hrr
        · exact hrr
      -- where `a` comes from
      unfold lookupAnswers at hla
      dsimp only at hla
      have heff : (if (q.type == T_ANY) = true then replaceAny z q.name else q.type) = effType z q := rfl
      rw [heff] at hla
      cases hil : innerLookup z q.name (effType z q) with
      | none => rw [hil] at hla; cases hla
      | some a0 =>
        rw [hil] at hla
        dsimp only at hla
        by_cases hc : (a0.type == T_CNAME && effType z q != T_CNAME) = true
        · rw [if_pos hc] at hla
          cases hla
          unfold chaseCnames at hmem
          rcases List.mem_cons.1 hmem with h | h
          · exact h ▸ innerLookup_notBelowCut wf hil
          · exact chaseFrom_notBelowCut wf _ _ _ rr h
        · rw [if_neg hc] at hla
          cases hla
          rw [List.mem_singleton] at hmem
          exact hmem ▸ innerLookup_notBelowCut wf hil
  · have hzo : zoneOf o q.name = false := by
      cases h : zoneOf o q.name <;> simp_all
    simp [hzo] at hrr

/-! ### additional-section processing terminates -/

/--
**The `while` loop of `additional_search` — which has no counter in the code — ends by itself**:
for every zone, every start name taken from an rdata of the zone (that is where `maybe_next_name`
and the CNAME arm take it from) and every state of `names` / `additionals`, any amount of fuel
beyond `addFuel z` (= number of names embedded in the zone's rdatas + 2) gives the same result.
The names looked up are pairwise distinct rdata names of the zone, so there are at most
`(targets z).length` iterations that do a lookup.
-/
theorem addLoop_fuel_irrelevant (z : Zone) (qt : Nat) (names : List LName) (search : LName)
    (adds : List RRset) (hs : search ∈ targets z) (fuel : Nat) (h : addFuel z ≤ fuel) :
    addLoop z qt fuel names search adds = addLoop z qt (addFuel z) names search adds := by
  apply addLoop_stable z qt (addFuel z) names search adds hs _ fuel h
  have := remaining_le z names
  unfold addFuel
  omega

end HickoryVerif.C10
