/-
C18 — pool failover within the deadline: property theorems about `Model/Pool.lean`.
-/
import HickoryVerif.Model.Pool

namespace HickoryVerif.C18
open HickoryVerif HickoryVerif.Pool

/-! ## error classification -/

/-- an NXDOMAIN from a server not trusted for negative answers does not end the search: the reply
only updates the remembered error, the loop goes on with the next reply / the next round -/
theorem untrusted_nx_continues (cfg : Cfg) (st : PState) (ev : Event)
    (hnx : ev.reply = some .nx) (hu : (server cfg ev.srv).trust = false) :
    processEvent cfg st ev = ({ st with err := mostSpecific st.err .nx }, none) := by
  simp [processEvent, hnx, hu]

/-- … whereas a trusted one ends it at once -/
theorem trusted_nx_ends (cfg : Cfg) (st : PState) (ev : Event)
    (hnx : ev.reply = some .nx) (hu : (server cfg ev.srv).trust = true) :
    processEvent cfg st ev = (st, some (.err .nx)) := by
  simp [processEvent, hnx, hu]

example : (server ⟨[⟨false, 0, some [⟨.nx, 5⟩], none⟩], .user, 1, 100⟩ 0).trust = false := by decide

/-- the search goes on inside the batch: the remaining replies are still handled -/
theorem untrusted_nx_continues_batch (cfg : Cfg) (dl : Nat) (st : PState) (ev : Event) (evs : List Event)
    (hnx : ev.reply = some .nx) (hu : (server cfg ev.srv).trust = false) (hfin : ev.fin ≤ dl) :
    processEvents cfg dl st (ev :: evs) =
      processEvents cfg dl { st with clock := ev.fin, err := mostSpecific st.err .nx } evs := by
  have : ¬ dl < ev.fin := by omega
  simp [processEvents, processEvent, hnx, hu, this]

/-- once an NXDOMAIN (or NODATA) has been remembered no later transport error replaces it -/
theorem mostSpecific_keeps_norecords (e cur : Err) (h : e.isNoRecords = true) :
    mostSpecific e cur = e := by
  simp [mostSpecific, h]

/-- an I/O error is never "more specific" than what is already remembered -/
theorem mostSpecific_io_right (e : Err) : mostSpecific e .io = e := by
  cases e <;> simp [mostSpecific, Err.isNoRecords]

/-- `Busy` never replaces the remembered error either (an all-busy pool reports the initial
`NoConnections`) -/
theorem mostSpecific_busy_right (e : Err) (h : e ≠ .io) : mostSpecific e .busy = e := by
  cases e <;> simp_all [mostSpecific, Err.isNoRecords]

/-! ## truncated ⇒ TCP -/

/-- a truncated reply disables UDP for the rest of the lookup, records the "truncated" error and puts
the server back at the FRONT of the queue -/
theorem tc_requeues_front (cfg : Cfg) (st : PState) (ev : Event) (h : ev.reply = some .tc) :
    processEvent cfg st ev =
      ({ st with disableUdp := true, err := .msg, queue := ev.srv :: st.queue }, none) := by
  simp [processEvent, h]

/-- a reply whose query case does not match is treated as spoofed: UDP is disabled, the server goes
back to the front of the queue, the remembered error is left alone -/
theorem cm_requeues_front (cfg : Cfg) (st : PState) (ev : Event) (h : ev.reply = some .cm) :
    processEvent cfg st ev =
      ({ st with queue := ev.srv :: st.queue, disableUdp := true }, none) := by
  simp [processEvent, h]

theorem choose_tcp (s : Server) (c : Conn) (h : s.tcp.isSome = true) :
    choose s c true = .reused .tcp ∨ choose s c true = .fresh .tcp := by
  by_cases hl : c.liveT = true <;> simp [choose, hl, h]

theorem nsSendOnce_tcp (s : Server) (c : Conn) (t : Nat) (h : s.tcp.isSome = true) :
    (nsSendOnce s c true t).proto = .tcp ∧ (nsSendOnce s c true t).log = [⟨.tcp, t⟩] := by
  rcases choose_tcp s c h with hc | hc <;> simp [nsSendOnce, hc]

/-- with UDP disabled a server that has TCP is asked over TCP (reusing a live TCP connection or
opening one; also when a reset on the reused connection makes it reconnect) -/
theorem nsSend_tcp_when_udp_disabled (s : Server) (c : Conn) (t : Nat) (h : s.tcp.isSome = true) :
    (nsSend s c true t).proto = .tcp ∧ (nsSend s c true t).log.head? = some ⟨.tcp, t⟩ := by
  rcases choose_tcp s c h with hc | hc
  · by_cases hr : (exchange s c .tcp t).1 = .rst
    · have := nsSendOnce_tcp s (exchange s c .tcp t).2.2 (exchange s c .tcp t).2.1 h
      simp [nsSend, hc, hr, this.1]
    · simp [nsSend, hc, hr]
  · have := nsSendOnce_tcp s c t h
    simp [nsSend, hc, this.1, this.2]

/-- the head of the queue, if the policy allows it, is in the next batch -/
theorem takeBatch_head (cfg : Cfg) (du : Bool) (n : Nat) (i : Nat) (q : List Nat)
    (hn : 1 ≤ n) (ha : allows cfg du i = true) :
    ∃ rest, (takeBatch cfg du n (i :: q) []).1 = i :: rest := by
  have gen : ∀ (q acc : List Nat), ∃ rest, (takeBatch cfg du n q acc).1 = acc ++ rest := by
    intro q
    induction q with
    | nil => intro acc; exact ⟨[], by simp [takeBatch]⟩
    | cons x xs ih =>
      intro acc
      simp only [takeBatch]
      split
      · split
        · obtain ⟨r, hr⟩ := ih (acc ++ [x]); exact ⟨x :: r, by simp [hr]⟩
        · exact ih acc
      · exact ⟨[], by simp⟩
  have h0 : ([] : List Nat).length < n := by simp; omega
  simp only [takeBatch, h0, ha, if_true, List.nil_append]
  obtain ⟨r, hr⟩ := gen q [i]
  exact ⟨r, by simpa using hr⟩

/-! ## de-duplication of identical in-flight queries -/

/-- no event of the trace drops the future of a caller that created a shared lookup -/
def NoCreatorCancel : Dedup → List DEv → Prop
  | _, [] => True
  | d, ev :: evs =>
    (match ev with
      | .cancel c => d.waiting.any (fun w => w.caller = c && w.creator) = false
      | _ => True) ∧ NoCreatorCancel (d.step ev) evs

/-- everybody who is waiting awaits the lookup that is registered in the map -/
def Shared (d : Dedup) : Prop := ∀ w ∈ d.waiting, d.active = some w.lookup

theorem shared_step (d : Dedup) (ev : DEv) (h : Shared d)
    (hc : ∀ c, ev = .cancel c → d.waiting.any (fun w => w.caller = c && w.creator) = false) :
    Shared (d.step ev) := by
  cases ev with
  | call c =>
    unfold Shared at *
    cases ha : d.active with
    | some l =>
      simp only [Dedup.step, ha]
      intro w hw
      simp only [List.mem_append, List.mem_singleton] at hw
      rcases hw with hw | hw
      · simpa [ha] using h w hw
      · simp [hw]
    | none =>
      have hempty : d.waiting = [] := by
        cases hw : d.waiting with
        | nil => rfl
        | cons w ws => have := h w (by simp [hw]); simp [ha] at this
      simp only [Dedup.step, ha, hempty]
      intro w hw
      simp at hw
      simp [hw]
  | finish l =>
    unfold Shared at *
    simp only [Dedup.step]
    intro w hw
    simp only [List.mem_filter] at hw
    have hwl := h w hw.1
    have hne : w.lookup ≠ l := by simpa using hw.2
    have : (List.filter (fun w => decide (w.lookup = l)) d.waiting) = [] := by
      apply List.filter_eq_nil_iff.mpr
      intro x hx
      have hxl := h x hx
      rw [hwl] at hxl
      simp at hxl
      simp [← hxl, hne]
    simp [this, hwl]
  | cancel c =>
    unfold Shared at *
    simp only [Dedup.step, hc c rfl]
    intro w hw
    simp only [List.mem_filter] at hw
    simpa using h w hw.1

/-- in every state reachable without cancelling a creator, all waiting callers share ONE lookup -/
theorem dedup_shared (evs : List DEv) (d : Dedup) (h : Shared d) (hn : NoCreatorCancel d evs) :
    Shared (d.run evs) := by
  induction evs generalizing d with
  | nil => simpa [Dedup.run]
  | cons ev evs ih =>
    simp only [Dedup.run, List.foldl_cons]
    apply ih
    · apply shared_step d ev h
      intro c hc
      subst hc
      exact hn.1
    · exact hn.2

/-- a caller starts a new upstream lookup only when nobody is waiting for one -/
theorem dedup_starts_only_when_idle (d : Dedup) (c : Nat) (h : Shared d)
    (hs : (d.step (.call c)).started ≠ d.started) : d.waiting = [] := by
  cases ha : d.active with
  | some l => simp [Dedup.step, ha] at hs
  | none =>
    cases hw : d.waiting with
    | nil => rfl
    | cons w ws => have := h w (by simp [hw]); simp [ha] at this

/-- k callers of the same query while one exchange is in flight ⇒ one `try_send`, and every caller
receives its result; afterwards the map is clean -/
theorem dedup_one_exchange (c0 : Nat) (cs : List Nat) :
    let d := Dedup.run {} ((c0 :: cs).map DEv.call ++ [.finish 1])
    d.started = 1 ∧ d.served = (c0 :: cs).map (fun c => (c, 1)) ∧ d.waiting = [] ∧ d.active = none := by
  have calls : ∀ (cs : List Nat) (ws : List Waiter) (sv : List (Nat × Nat)),
      Dedup.run ⟨some 1, 1, ws, sv⟩ (cs.map DEv.call) =
        ⟨some 1, 1, ws ++ cs.map (fun c => ⟨c, 1, false⟩), sv⟩ := by
    intro cs
    induction cs with
    | nil => intro ws sv; simp [Dedup.run]
    | cons c cs ih =>
      intro ws sv
      simp only [Dedup.run, List.map_cons, List.foldl_cons, Dedup.step]
      have := ih (ws ++ [⟨c, 1, false⟩]) sv
      simp only [Dedup.run] at this
      rw [this]
      simp
  simp only [Dedup.run, List.map_cons, List.foldl_append, List.foldl_cons, List.foldl_nil]
  have h1 : Dedup.step {} (.call c0) = ⟨some 1, 1, [⟨c0, 1, true⟩], []⟩ := by simp [Dedup.step]
  rw [h1]
  have := calls cs [⟨c0, 1, true⟩] []
  simp only [Dedup.run] at this
  rw [this]
  simp [Dedup.step, List.filter_eq_self.mpr, Function.comp_def]

/-- non-vacuity + the deviation: once the creator is cancelled the entry is gone although the shared
lookup is still running for caller 1, and the next identical query starts a SECOND lookup -/
theorem dedup_split_after_creator_cancel :
    let d := Dedup.run {} [.call 0, .call 1, .cancel 0, .call 2]
    d.started = 2 ∧ d.waiting = [⟨1, 1, false⟩, ⟨2, 2, true⟩] ∧ ¬ Shared d := by
  refine ⟨by decide, by decide, ?_⟩
  intro h
  have := h ⟨1, 1, false⟩ (by decide)
  revert this
  decide

example : NoCreatorCancel {} [.call 0, .call 1, .cancel 1, .call 2, .finish 1] := by
  simp [NoCreatorCancel, Dedup.step]

end HickoryVerif.C18
