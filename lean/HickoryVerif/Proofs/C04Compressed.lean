/-
C04 (part 5) — the *compressed* wire round trip, as a corollary of the encoder theorems of C02:
a name of arbitrary octets is unchanged, including letter case, by `Name::emit` with name
compression followed by `Name::read`, at any message offset and whatever the compression state of
the encoder (any candidates, any number of names already compressed, offsets beyond 0x3FFF).
-/
import HickoryVerif.Proofs.C02
import HickoryVerif.Proofs.C04Bounds

namespace HickoryVerif.C04
open HickoryVerif HickoryVerif.Name

/-- **Compressed wire round trip at any offset / any encoder state.**  `e` is any encoder in the
appending state whose candidate table satisfies the invariant `C02.PtrInv` (which every state reached
by hickory's emitters from an empty encoder satisfies: `C02.emitName_readName` re-establishes it). -/
theorem compressed_wire_roundtrip (e e' : Enc) (n : Name) (hwf : n.WF)
    (happ : e.offset = e.buf.length) (hinv : C02.PtrInv e)
    (hmode : e.nameEncoding ≠ .uncompressedLowercase) (h : Name.emit e n = .ok () e') :
    readName e'.buf e.offset = .ok ({ n with fqdn := true }, e'.offset) :=
  C02.emitName_readName_case_preserved e e' n hwf happ hinv hmode h

/-- … and for a whole sequence of names emitted one after another from the empty encoder (each in
its own mode): every one of them decodes back at its own start offset from the final buffer. -/
theorem compressed_wire_roundtrip_seq (names : List (NameEncoding × Name))
    (hwf : ∀ mn ∈ names, mn.2.WF) (l : List (Nat × Name)) (e' : Enc)
    (h : C02.emitNames (Enc.new []) names = .ok l e') :
    (∀ sn ∈ l, ∃ p, readName e'.buf sn.1 = .ok (sn.2, p)) ∧
      l.map (·.2) = names.map (fun mn => C02.expected mn.1 mn.2) :=
  C02.emitNames_readName names hwf l e' h

end HickoryVerif.C04
