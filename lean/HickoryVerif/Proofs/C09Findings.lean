/-
C09 — where the code as it is (`asIs`) is NOT sound: one kernel-checked (`decide`) counter-example per
recorded finding, each with the class the model computes for it (`classOf`, the token the driver prints
and the harness computes independently) and the verdict of the code with the proposed repair.

Universe of the examples: zone `z.`, names `a.z.`, `w.z.`, hashes given by the table `H0`; the encoder
is the concrete `base32hex`.  The full-strength statements that fail are, for every `H`, `enc`, input:

  verifyNsec3 asIs H enc q t soa NXDOMAIN wl recs soft hard = Secure →
      ∀ Z, Z.WF → ConsistentWith3 H enc recs Z → ClaimNameError Z q                      (§8.4)
  verifyNsec3 asIs … NOERROR none … = Secure → … → ClaimNoData Z q t ∨ ClaimWildcardNoData Z q t   (§8.5/8.7)
  verifyNsec3 asIs … NOERROR (some k) … = Secure → … → ClaimWildcardAnswer Z q k          (§8.8)

`Proofs/C09.lean` proves the per-case versions under the explicit side conditions (`NoWrap`, `NoOptOut`,
`NoDelegNS`, or the corresponding repair switch).
-/
import HickoryVerif.Model.Nsec3
import HickoryVerif.Spec.Denial3

namespace HickoryVerif.C09
open HickoryVerif HickoryVerif.Nsec3 HickoryVerif.Denial3

def zN : Name := ⟨[[122]], true⟩
def aN : Name := ⟨[[97], [122]], true⟩
def wN : Name := ⟨[[119], [122]], true⟩

/-- `H(z.) = 01`, `H(a.z.) = 02`, `H(w.z.) = 05`, everything else `09` -/
def H0 (n : Name) : Bytes :=
  if n.labels == [[122]] then [1] else if n.labels == [[97], [122]] then [2]
  else if n.labels == [[119], [122]] then [5] else [9]

def recOf (h next : Bytes) (types : List Nat) (optOut : Bool := false) : Rec :=
  { owner := ⟨[base32hex h, [122]], true⟩, next, optOut, iterations := 0, salt := [], types }

/-- finding 1: NODATA for any type at the apex on the strength of any NSEC3 of the zone -/
theorem apex_nodata_counterexample :
    verifyNsec3 asIs H0 base32hex zN 16 (some zN) rcNoError none [recOf [5] [1] [1]] 100 500 = .secure ∧
    classOf H0 base32hex zN 16 (some zN) rcNoError none [recOf [5] [1] [1]] 100 500
      = "apex-nodata-without-matching-nsec3" ∧
    verifyNsec3 fixApex H0 base32hex zN 16 (some zN) rcNoError none [recOf [5] [1] [1]] 100 500 = .bogus ∧
    -- control: the same record proves nothing about a.z.
    verifyNsec3 asIs H0 base32hex aN 16 (some zN) rcNoError none [recOf [5] [1] [1]] 100 500 = .bogus := by
  decide

/-- finding 2: the last record of the chain (05 → 01, wrap-around) "covers" 02 = H(a.z.), which is
not inside it: NXDOMAIN for a.z. although a.z. is the very next name of the apex record. -/
theorem wraparound_counterexample :
    verifyNsec3 asIs H0 base32hex aN 1 (some zN) rcNXDomain none
      [recOf [1] [2] [2, 6], recOf [5] [1] [1]] 100 500 = .secure ∧
    classOf H0 base32hex aN 1 (some zN) rcNXDomain none
      [recOf [1] [2] [2, 6], recOf [5] [1] [1]] 100 500 = "wraparound-nsec3-covers-every-hash" ∧
    verifyNsec3 fixWrap H0 base32hex aN 1 (some zN) rcNXDomain none
      [recOf [1] [2] [2, 6], recOf [5] [1] [1]] 100 500 = .bogus := by
  decide

/-- the zone view of that example: z. {NS,SOA}, a.z. {A}, w.z. {A} -/
def Zwrap : ZoneView :=
  { apex := [[122]]
    types := fun n => if n == [[122]] then some [2, 6] else if n == [[97], [122]] then some [1]
                      else if n == [[119], [122]] then some [1] else none }

/-- … and in that zone view the name error claim is false: a.z. exists. -/
theorem wraparound_claim_false : ¬ ClaimNameError Zwrap aN.labels := by
  intro h
  exact h.1 (by simp [ZoneView.has, Zwrap, aN])

/-- finding 3: a wildcard expansion (RRSIG labels 1 < 2) accepted on a record *matching* QNAME -/
theorem wildcard_qname_match_counterexample :
    verifyNsec3 asIs H0 base32hex aN 1 none rcNoError (some 1) [recOf [2] [5] [16]] 100 500 = .secure ∧
    classOf H0 base32hex aN 1 none rcNoError (some 1) [recOf [2] [5] [16]] 100 500
      = "wildcard-answer-accepted-on-qname-nsec3" ∧
    verifyNsec3 fixWild H0 base32hex aN 1 none rcNoError (some 1) [recOf [2] [5] [16]] 100 500 = .bogus := by
  decide

/-- finding 4: NXDOMAIN proved with an Opt-Out record covering the next closer name -/
theorem optout_counterexample :
    verifyNsec3 asIs H0 base32hex aN 1 (some zN) rcNXDomain none
      [recOf [1] [10] [2, 6] true] 100 500 = .secure ∧
    classOf H0 base32hex aN 1 (some zN) rcNXDomain none
      [recOf [1] [10] [2, 6] true] 100 500 = "optout-next-closer-accepted-as-secure" ∧
    verifyNsec3 fixOptout H0 base32hex aN 1 (some zN) rcNXDomain none
      [recOf [1] [10] [2, 6] true] 100 500 = .insecure := by
  decide

/-- finding 5: the parent-side NSEC3 of the delegation a.z. {NS} accepted as NODATA proof for a.z. A -/
theorem ancestor_delegation_counterexample :
    verifyNsec3 asIs H0 base32hex aN 1 (some zN) rcNoError none [recOf [2] [5] [2]] 100 500 = .secure ∧
    classOf H0 base32hex aN 1 (some zN) rcNoError none [recOf [2] [5] [2]] 100 500
      = "ancestor-delegation-nsec3-accepted" ∧
    verifyNsec3 fixDeleg H0 base32hex aN 1 (some zN) rcNoError none [recOf [2] [5] [2]] 100 500 = .bogus := by
  decide

/-- with every repair switched on, none of the five inputs is accepted -/
theorem all_fixed_rejects_counterexamples :
    verifyNsec3 allFixed H0 base32hex zN 16 (some zN) rcNoError none [recOf [5] [1] [1]] 100 500 ≠ .secure ∧
    verifyNsec3 allFixed H0 base32hex aN 1 (some zN) rcNXDomain none
      [recOf [1] [2] [2, 6], recOf [5] [1] [1]] 100 500 ≠ .secure ∧
    verifyNsec3 allFixed H0 base32hex aN 1 none rcNoError (some 1) [recOf [2] [5] [16]] 100 500 ≠ .secure ∧
    verifyNsec3 allFixed H0 base32hex aN 1 (some zN) rcNXDomain none [recOf [1] [10] [2, 6] true] 100 500 ≠ .secure ∧
    verifyNsec3 allFixed H0 base32hex aN 1 (some zN) rcNoError none [recOf [2] [5] [2]] 100 500 ≠ .secure := by
  decide

end HickoryVerif.C09
