/-
C09 — where the code as it is (`current`) is still NOT sound, and regression examples for what was
repaired.

* Open findings (2: wrap-around comparison, 4: Opt-Out next closer): one kernel-checked (`decide`)
  counter-example each — the `current` model says `Secure`, the class the model computes (`classOf`,
  the token the driver prints and the harness computes independently), the verdict with the proposed
  repair, and (for the wrap-around one) a zone view consistent with the records in which the claim is
  false.  The full-strength statements that fail for `current` are, for every `H`, input:

    verifyNsec3 current H base32hex q t soa NXDOMAIN wl recs soft hard = Secure →
        ∀ Z, Z.WF → ConsistentWith3 H base32hex recs Z → ClaimNameError Z q              (§8.4)
    … NOERROR none … = Secure → … → ClaimNoData Z q t ∨ ClaimWildcardNoData Z q t          (§8.7 part)
    … NOERROR (some k) … = Secure → … → ClaimWildcardAnswer Z q k                          (§8.8)

  `Proofs/C09Main.lean` proves them under `NoWrap` and `NoOptOut` (`current_*_sound_partial`) and
  without side condition for `allFixed` (`repaired_sound`).
* Repaired findings (1: apex NODATA, /repo e7e2ac8; 3: wildcard expansion on a QNAME record, cd83193;
  5: ancestor delegation, 6960cfe): regression examples — the `pinned` model (snapshot 0f3cca1)
  accepted the input, the `current` model rejects it.

Universe of the examples: zone `z.`, names `a.z.`, `w.z.`, hashes given by the table `H0`; the encoder
is the concrete `base32hex`.
-/
import HickoryVerif.Model.Nsec3
import HickoryVerif.Spec.Denial3

namespace HickoryVerif.C09
open HickoryVerif HickoryVerif.Nsec3 HickoryVerif.Denial3

def zN : Name := ⟨[[122]], true⟩
def aN : Name := ⟨[[97], [122]], true⟩
def wN : Name := ⟨[[119], [122]], true⟩

/-- `H(z.) = 01`, `H(a.z.) = 02`, `H(w.z.) = 05`, everything else `09` -/
def H0 (n : Name) : Bytes :=
  if n.labels == [[122]] then [1] else if n.labels == [[97], [122]] then [2]
  else if n.labels == [[119], [122]] then [5] else [9]

def recOf (h next : Bytes) (types : List Nat) (optOut : Bool := false) : Rec :=
  { owner := ⟨[base32hex h, [122]], true⟩, next, optOut, iterations := 0, salt := [], types }

/-- finding 1 (repaired, e7e2ac8) — regression: NODATA for any type at the apex on the strength of
any NSEC3 of the zone was accepted by the pinned code and is rejected now -/
theorem apex_nodata_regression :
    verifyNsec3 pinned H0 base32hex zN 16 (some zN) rcNoError none [recOf [5] [1] [1]] 100 500 = .secure ∧
    verifyNsec3 current H0 base32hex zN 16 (some zN) rcNoError none [recOf [5] [1] [1]] 100 500 = .bogus ∧
    -- a record matching the apex still proves the NODATA
    verifyNsec3 current H0 base32hex zN 16 (some zN) rcNoError none [recOf [1] [5] [2, 6]] 100 500 = .secure := by
  decide

/-- finding 2 (OPEN): the last record of the chain (05 → 01, wrap-around) "covers" 02 = H(a.z.), which is
not inside it: NXDOMAIN for a.z. although a.z. is the very next name of the apex record. -/
theorem wraparound_counterexample :
    verifyNsec3 current H0 base32hex aN 1 (some zN) rcNXDomain none
      [recOf [1] [2] [2, 6], recOf [5] [1] [1]] 100 500 = .secure ∧
    classOf H0 base32hex aN 1 (some zN) rcNXDomain none
      [recOf [1] [2] [2, 6], recOf [5] [1] [1]] 100 500 = "wraparound-nsec3-covers-every-hash" ∧
    verifyNsec3 (current.or fixWrap) H0 base32hex aN 1 (some zN) rcNXDomain none
      [recOf [1] [2] [2, 6], recOf [5] [1] [1]] 100 500 = .bogus := by
  decide

/-- the zone view of that example: z. {NS,SOA}, a.z. {A}, w.z. {A} -/
def Zwrap : ZoneView :=
  { apex := [[122]]
    types := fun n => if n == [[122]] then some [2, 6] else if n == [[97], [122]] then some [1]
                      else if n == [[119], [122]] then some [1] else none }

theorem Zwrap_has {n : List Bytes} (h : Zwrap.has n) :
    n = [[122]] ∨ n = [[97], [122]] ∨ n = [[119], [122]] := by
  simp only [ZoneView.has, Zwrap] at h
  split at h
  · rename_i h1; left; simpa using h1
  · split at h
    · rename_i h2; right; left; simpa using h2
    · split at h
      · rename_i h3; right; right; simpa using h3
      · simp at h

/-- both records are links of that zone view's ring (the full chain is 01 → 02 → 05 → 01) -/
theorem wraparound_zone_consistent :
    ConsistentWith3 H0 base32hex [recOf [1] [2] [2, 6], recOf [5] [1] [1]] Zwrap := by
  intro r hr
  simp only [List.mem_cons, List.not_mem_nil, or_false] at hr
  rcases hr with rfl | rfl
  · refine ⟨base32hex [1], [[122]], [[122]], [2, 6], rfl, by decide, by simp [Zwrap], by decide,
      fun t => Iff.rfl, ?_⟩
    intro m hm hin
    exfalso
    rcases Zwrap_has hm with rfl | rfl | rfl <;> (revert hin; decide)
  · refine ⟨base32hex [5], [[122]], [[119], [122]], [1], rfl, by decide, by simp [Zwrap], by decide,
      fun t => Iff.rfl, ?_⟩
    intro m hm hin
    exfalso
    rcases Zwrap_has hm with rfl | rfl | rfl <;> (revert hin; decide)

/-- … and in that zone view the name error claim is false: a.z. exists. -/
theorem wraparound_claim_false : ¬ ClaimNameError Zwrap aN.labels := by
  intro h
  exact h.1 (by simp [ZoneView.has, Zwrap, aN])

/-- finding 3 (repaired, cd83193) — regression: a wildcard expansion (RRSIG labels 1 < 2) accepted on
a record *matching* QNAME -/
theorem wildcard_qname_match_regression :
    verifyNsec3 pinned H0 base32hex aN 1 none rcNoError (some 1) [recOf [2] [5] [16]] 100 500 = .secure ∧
    verifyNsec3 current H0 base32hex aN 1 none rcNoError (some 1) [recOf [2] [5] [16]] 100 500 = .bogus := by
  decide

/-- finding 4 (OPEN): NXDOMAIN proved with an Opt-Out record covering the next closer name -/
theorem optout_counterexample :
    verifyNsec3 current H0 base32hex aN 1 (some zN) rcNXDomain none
      [recOf [1] [10] [2, 6] true] 100 500 = .secure ∧
    classOf H0 base32hex aN 1 (some zN) rcNXDomain none
      [recOf [1] [10] [2, 6] true] 100 500 = "optout-next-closer-accepted-as-secure" ∧
    verifyNsec3 (current.or fixOptout) H0 base32hex aN 1 (some zN) rcNXDomain none
      [recOf [1] [10] [2, 6] true] 100 500 = .insecure := by
  decide

/-- the zone view of that example: z. {NS,SOA} and the insecure delegation a.z. {NS}, which the
Opt-Out link 01 → 0a may skip -/
def Zopt : ZoneView :=
  { apex := [[122]]
    types := fun n => if n == [[122]] then some [2, 6] else if n == [[97], [122]] then some [2]
                      else none }

theorem Zopt_has {n : List Bytes} (h : Zopt.has n) : n = [[122]] ∨ n = [[97], [122]] := by
  simp only [ZoneView.has, Zopt] at h
  split at h
  · rename_i h1; left; simpa using h1
  · split at h
    · rename_i h2; right; simpa using h2
    · simp at h

/-- the Opt-Out record is a link of that zone view's ring -/
theorem optout_zone_consistent :
    ConsistentWith3 H0 base32hex [recOf [1] [10] [2, 6] true] Zopt := by
  intro r hr
  simp only [List.mem_singleton] at hr
  subst hr
  refine ⟨base32hex [1], [[122]], [[122]], [2, 6], rfl, by decide, by simp [Zopt], by decide,
    fun t => Iff.rfl, ?_⟩
  intro m hm hin
  rcases Zopt_has hm with rfl | rfl
  · exfalso; revert hin; decide
  · refine ⟨rfl, ⟨⟨[2], by simp [Zopt], by simp [tNS]⟩, ?_⟩, ?_⟩
    · rintro ⟨ts, h, hs⟩
      simp [Zopt] at h
      subst h
      simp [tSOA] at hs
    · rintro ⟨ts, h, hs⟩
      simp [Zopt] at h
      subst h
      simp [tDS] at hs

/-- … in which the name error claim is false: a.z. exists (a referral was the right answer). -/
theorem optout_claim_false : ¬ ClaimNameError Zopt aN.labels := by
  intro h
  exact h.1 (by simp [ZoneView.has, Zopt, aN])

/-- finding 5 (repaired, 6960cfe) — regression: the parent-side NSEC3 of the delegation a.z. {NS}
accepted as NODATA proof for a.z. A; it still proves "no DS" -/
theorem ancestor_delegation_regression :
    verifyNsec3 pinned H0 base32hex aN 1 (some zN) rcNoError none [recOf [2] [5] [2]] 100 500 = .secure ∧
    verifyNsec3 current H0 base32hex aN 1 (some zN) rcNoError none [recOf [2] [5] [2]] 100 500 = .bogus ∧
    verifyNsec3 current H0 base32hex aN tDS (some zN) rcNoError none [recOf [2] [5] [2]] 100 500 = .secure := by
  decide

/-- with every repair switched on, none of the five inputs is accepted -/
theorem all_fixed_rejects_counterexamples :
    verifyNsec3 allFixed H0 base32hex zN 16 (some zN) rcNoError none [recOf [5] [1] [1]] 100 500 ≠ .secure ∧
    verifyNsec3 allFixed H0 base32hex aN 1 (some zN) rcNXDomain none
      [recOf [1] [2] [2, 6], recOf [5] [1] [1]] 100 500 ≠ .secure ∧
    verifyNsec3 allFixed H0 base32hex aN 1 none rcNoError (some 1) [recOf [2] [5] [16]] 100 500 ≠ .secure ∧
    verifyNsec3 allFixed H0 base32hex aN 1 (some zN) rcNXDomain none [recOf [1] [10] [2, 6] true] 100 500 ≠ .secure ∧
    verifyNsec3 allFixed H0 base32hex aN 1 (some zN) rcNoError none [recOf [2] [5] [2]] 100 500 ≠ .secure := by
  decide

end HickoryVerif.C09
