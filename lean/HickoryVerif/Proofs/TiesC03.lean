/-
Ties between the literals of the message-emit / server-encode model (C03) and the constants
regenerated from /repo's source on every run (tools/extract_consts.py → Generated/Consts.lean).
-/
import HickoryVerif.Generated.Consts
import HickoryVerif.Model.MessageEmit

namespace HickoryVerif.C03
open HickoryVerif HickoryVerif.Wire

/-- `MessageResponse::encode` : UDP without EDNS is limited to the 512 of RFC 1035 §4.2.1 -/
theorem tie_udp_no_edns : responseLimit .udp none = Generated.SERVER_UDP_NO_EDNS_LIMIT := rfl
/-- with EDNS it is the response EDNS payload; `Catalog` sets that to `max(request payload, 512)` -/
theorem tie_udp_edns (req : Edns) :
    responseLimit .udp (responseEdns (some req)) =
      max (max req.maxPayload Generated.CATALOG_MIN_PAYLOAD) Generated.EDNS_MIN_PAYLOAD := rfl
/-- every other protocol: `u16::MAX` -/
theorem tie_tcp (ed : Option Edns) : responseLimit .other ed = 65535 := rfl
/-- the OPT record's class is `DNSClass::for_opt(max_payload)` -/
theorem tie_for_opt (ed : Edns) : (recordOfEdns ed).cls = max ed.maxPayload Generated.EDNS_MIN_PAYLOAD := rfl
/-- the SERVFAIL fallback is encoded under the same 512 -/
theorem tie_fallback : Generated.SERVER_FALLBACK_LIMIT = 512 := rfl

end HickoryVerif.C03
