/-
Ties between the literals of `Model/Pool.lean` and the constants regenerated from
crates/resolver/src/name_server_pool.rs on every run (tools/extract_consts.py).
-/
import HickoryVerif.Generated.Consts
import HickoryVerif.Model.Pool

namespace HickoryVerif.C18
open HickoryVerif HickoryVerif.Pool

/-- `let mut backoff = Duration::from_millis(20)` -/
theorem tie_backoff_start : BACKOFF_START = Generated.POOL_BACKOFF_START_MS := rfl
/-- `backoff < Duration::from_millis(300)` -/
theorem tie_backoff_limit : BACKOFF_LIMIT = Generated.POOL_BACKOFF_LIMIT_MS := rfl
/-- `backoff *= 2` (the model's `st.backoff * 2` in `round`) -/
theorem tie_backoff_factor : Generated.POOL_BACKOFF_FACTOR = 2 := rfl

/-- consequence used in the text: at most four back-off sleeps (20, 40, 80, 160 ms; 320 ≥ 300) -/
theorem backoff_sleeps : [20, 40, 80, 160].all (· < BACKOFF_LIMIT) = true ∧ ¬ (320 < BACKOFF_LIMIT) := by
  decide

end HickoryVerif.C18
