/-
C04 (part 5) — the key forms of a name: `LowerName`, `RrKey` and `Label` carry exactly the identity
and order of `Name` (equal up to ASCII case and nothing else; RFC 4034 §6.1 canonical order).
-/
import HickoryVerif.Model.LowerName
import HickoryVerif.Proofs.C04

namespace HickoryVerif.C04
open HickoryVerif HickoryVerif.Name HickoryVerif.LowerName

theorem cmpLabel_lower (l r : Bytes) :
    cmpLabel false (lowerLabel l) (lowerLabel r) = cmpLabel true l r := by
  rw [cmpLabel_cs, cmpLabel_ci]

theorem cmpRev_lower (l r : List Bytes) :
    cmpRev false (l.map lowerLabel) (r.map lowerLabel) = cmpRev true l r := by
  induction l generalizing r with
  | nil => cases r <;> rfl
  | cons a l ih =>
    cases r with
    | nil => rfl
    | cons b r =>
      simp only [List.map_cons, cmpRev, cmpLabel_lower, ih]

theorem cmpLabels_lower (a b : Name) :
    cmpLabels false a.toLowercase b.toLowercase = cmpLabels true a b := by
  unfold cmpLabels toLowercase
  simp only [← List.map_reverse]
  exact cmpRev_lower _ _

theorem cmpWithF_lower (a b : Name) :
    cmpWithF false a.toLowercase b.toLowercase = cmpWithF true a b := by
  have := cmpLabels_lower a b
  unfold cmpWithF
  have hfa : a.toLowercase.fqdn = a.fqdn := rfl
  have hfb : b.toLowercase.fqdn = b.fqdn := rfl
  rw [hfa, hfb]
  cases a.fqdn <;> cases b.fqdn <;> simp [this]

/-- **`LowerName` order = `Name` order**: comparing the lower-cased forms case-sensitively (what the
zone map does) gives the order of the names themselves, hence RFC 4034 §6.1 canonical order
(`cmp_is_canonical`) and all the order laws of `Name.cmp`. -/
theorem lower_cmp (a b : Name) :
    LowerName.cmp (LowerName.new a) (LowerName.new b) = Name.cmp a b :=
  cmpWithF_lower a b

/-- **`LowerName` identity = `Name` identity** (equal up to ASCII case and nothing else, `eq_iff`). -/
theorem lower_eq (a b : Name) :
    LowerName.eq (LowerName.new a) (LowerName.new b) = Name.eq a b := by
  unfold LowerName.eq LowerName.new eqCase Name.eq
  rw [cmpWithF_lower]
  by_cases h : a.fqdn = b.fqdn
  · simp [h]
  · have : (a.fqdn == b.fqdn) = false := by simpa using h
    rw [this]
    unfold cmpWithF
    revert h
    cases a.fqdn <;> cases b.fqdn <;> simp

theorem lower_cmp_eq_iff (a b : Name) :
    LowerName.cmp (LowerName.new a) (LowerName.new b) = .eq
      ↔ LowerName.eq (LowerName.new a) (LowerName.new b) = true := by
  rw [lower_cmp, lower_eq, cmp_eq_iff]

/-- equal `LowerName`s feed identical bytes to the hasher -/
theorem lower_eq_hash (a b : Name)
    (h : LowerName.eq (LowerName.new a) (LowerName.new b) = true) :
    LowerName.hashInput (LowerName.new a) = LowerName.hashInput (LowerName.new b) := by
  rw [lower_eq] at h
  obtain ⟨_, hl⟩ := (eq_iff a b).1 h
  simp [LowerName.hashInput, LowerName.new, toLowercase, hl]

theorem lowerByte_idem (b : Nat) : lowerByte (lowerByte b) = lowerByte b := by
  by_cases h : 65 ≤ b ∧ b ≤ 90
  · have h1 : lowerByte b = b + 32 := by unfold lowerByte; rw [if_pos h]
    have h2 : ¬ (65 ≤ b + 32 ∧ b + 32 ≤ 90) := by omega
    rw [h1]; unfold lowerByte; rw [if_neg h2]
  · have h1 : lowerByte b = b := by unfold lowerByte; rw [if_neg h]
    rw [h1, h1]

theorem lowerLabel_idem (l : Bytes) : lowerLabel (lowerLabel l) = lowerLabel l := by
  simp [lowerLabel, lowerByte_idem]

/-- lower-casing is idempotent: a `LowerName` made from a `LowerName` is the same value -/
theorem lower_new_idem (n : Name) : LowerName.new (LowerName.new n) = LowerName.new n := by
  simp [LowerName.new, toLowercase, lowerLabel_idem]

/-- **`LowerName::zone_of` = `Name::zone_of`** -/
theorem lower_zone_of (z n : Name) :
    LowerName.zoneOfCase (LowerName.new z) (LowerName.new n) = Name.zoneOf z n := by
  simp [LowerName.zoneOfCase, LowerName.new, toLowercase, zoneOf, List.map_reverse]

/-- **`RrKey` order**: keys compare Equal exactly when the names are equal up to ASCII case and the
record types coincide — the zone map holds one entry per (name, type). -/
theorem rrKey_cmp_eq_iff (a b : Name) (t u : Nat) :
    rrKeyCmp (LowerName.new a, t) (LowerName.new b, u) = .eq ↔ (Name.eq a b = true ∧ t = u) := by
  unfold rrKeyCmp
  simp only
  rw [lower_cmp]
  cases h : Name.cmp a b with
  | eq =>
    have := (cmp_eq_iff a b).1 h
    simp [this]
  | lt =>
    have : ¬ (Name.eq a b = true) := fun he => by rw [(cmp_eq_iff a b).2 he] at h; cases h
    simp [this]
  | gt =>
    have : ¬ (Name.eq a b = true) := fun he => by rw [(cmp_eq_iff a b).2 he] at h; cases h
    simp [this]

/-- the name is the major key: keys of different names order as the names do, whatever the types -/
theorem rrKey_cmp_name_major (a b : Name) (t u : Nat) (h : Name.cmp a b ≠ .eq) :
    rrKeyCmp (LowerName.new a, t) (LowerName.new b, u) = Name.cmp a b := by
  unfold rrKeyCmp
  simp only
  rw [lower_cmp]
  cases hc : Name.cmp a b <;> simp_all

theorem rrKey_cmp_swap (a b : Name) (t u : Nat) :
    rrKeyCmp (LowerName.new a, t) (LowerName.new b, u)
      = (rrKeyCmp (LowerName.new b, u) (LowerName.new a, t)).swap := by
  unfold rrKeyCmp
  simp only
  rw [lower_cmp, lower_cmp, cmp_swap a b]
  cases Name.cmp b a
  · rfl
  · show compare t u = (compare u t).swap
    exact Std.OrientedCmp.eq_swap
  · rfl

/-- `eq_ignore_root` = labels equal up to ASCII case (the fqdn flag is the only thing dropped) -/
theorem eqIgnoreRoot_iff (a b : Name) :
    eqIgnoreRoot a b = true ↔ a.labels.map lowerLabel = b.labels.map lowerLabel := by
  unfold eqIgnoreRoot
  rw [cmpLabels_eq_canon]
  simp [canonCompare_eq_iff]

theorem eq_imp_eqIgnoreRoot (a b : Name) (h : Name.eq a b = true) : eqIgnoreRoot a b = true := by
  rw [eqIgnoreRoot_iff]; exact ((eq_iff a b).1 h).2

/-! ### `Label` -/

/-- `Label == Label` ⇔ `Label::cmp == Equal` -/
theorem labelCmp_eq_iff (a b : Bytes) : labelCmp true a b = .eq ↔ labelEq a b = true := by
  unfold labelCmp labelEq
  rw [cmpLabel_ci]
  simp

theorem labelEq_hash (a b : Bytes) (h : labelEq a b = true) :
    labelHashInput a = labelHashInput b := by
  simpa [labelEq, labelHashInput] using h

theorem labelCmp_swap (a b : Bytes) : labelCmp true a b = (labelCmp true b a).swap := by
  unfold labelCmp
  rw [cmpLabel_ci, cmpLabel_ci]
  exact Std.OrientedCmp.eq_swap

/-- one-label names order as their labels do -/
theorem labelCmp_is_name_cmp (a b : Bytes) :
    labelCmp true a b = Name.cmp { labels := [a], fqdn := true } { labels := [b], fqdn := true } := by
  unfold labelCmp Name.cmp cmpWithF cmpLabels
  simp only [List.reverse_cons, List.reverse_nil, List.nil_append, cmpRev]
  cases cmpLabel true a b <;> rfl

-- non-vacuity
example : LowerName.cmp (LowerName.new { labels := [[87, 119], [67]], fqdn := true })
    (LowerName.new { labels := [[119, 87], [99]], fqdn := true }) = .eq := by decide
example : rrKeyCmp (LowerName.new { labels := [[65]], fqdn := true }, 1)
    (LowerName.new { labels := [[97]], fqdn := true }, 28) = .lt := by decide

end HickoryVerif.C04
