/-
C11 (part 7) — the send queue under the request handlers: a failing send removes exactly the
message that failed, nothing else is lost or duplicated, and the loop cannot get stuck on it.
-/
import HickoryVerif.Model.SendQueue
import HickoryVerif.Model.ServerGate

namespace HickoryVerif.C11
open HickoryVerif HickoryVerif.SendQueue

/-- **A failing send pops exactly that message** and the loop goes on with the rest of the queue. -/
theorem failing_send_removes_only_that (rs : List SendRes) (m : Nat) (q s d : List Nat) :
    sendLoop (.err :: rs) ⟨m :: q, s, d⟩ = sendLoop rs ⟨q, s, d ++ [m]⟩ := by
  rw [sendLoop]

theorem ok_send_pops (rs : List SendRes) (m : Nat) (q s d : List Nat) :
    sendLoop (.ok :: rs) ⟨m :: q, s, d⟩ = sendLoop rs ⟨q, s ++ [m], d⟩ := by
  rw [sendLoop]

/-- a `Pending` send leaves queue, sent and dropped untouched (the message stays at the head) -/
theorem pending_send_keeps (rs : List SendRes) (m : Nat) (q s d : List Nat) :
    sendLoop (.pending :: rs) ⟨m :: q, s, d⟩ = (⟨m :: q, s, d⟩, rs) := by
  rw [sendLoop]

/-- **Nothing is lost, duplicated or reordered by one poll**: the new `sent` and `dropped` extend
the old ones, and what they gained, interleaved in order, followed by the remaining queue is the
old queue. -/
theorem sendLoop_conserves (rs : List SendRes) (u : Udp) :
    ∃ s₁ d₁ : List Nat,
      (sendLoop rs u).1.sent = u.sent ++ s₁ ∧ (sendLoop rs u).1.dropped = u.dropped ++ d₁ ∧
      (s₁ ++ d₁ ++ (sendLoop rs u).1.queue).Perm u.queue ∧
      (sendLoop rs u).1.queue <:+ u.queue := by
  fun_induction sendLoop rs u
  case case1 rs s d => exact ⟨[], [], by simp, by simp, by simp, List.suffix_refl _⟩
  case case2 m q s d ih =>
    obtain ⟨s₁, d₁, h1, h2, h3, h4⟩ := ih
    refine ⟨m :: s₁, d₁, by simp [h1], h2, ?_, h4.trans (List.suffix_cons _ _)⟩
    simpa using h3
  case case3 rs m q s d => exact ⟨[], [], by simp, by simp, by simp, List.suffix_refl _⟩
  case case4 rs m q s d ih =>
    obtain ⟨s₁, d₁, h1, h2, h3, h4⟩ := ih
    refine ⟨m :: s₁, d₁, by simp [h1], h2, ?_, h4.trans (List.suffix_cons _ _)⟩
    simpa using h3
  case case5 rs m q s d ih =>
    obtain ⟨s₁, d₁, h1, h2, h3, h4⟩ := ih
    refine ⟨s₁, m :: d₁, h1, by simp [h2], ?_, h4.trans (List.suffix_cons _ _)⟩
    have : (s₁ ++ m :: d₁ ++ (sendLoop rs ⟨q, s, d ++ [m]⟩).1.queue).Perm
        (m :: (s₁ ++ d₁ ++ (sendLoop rs ⟨q, s, d ++ [m]⟩).1.queue)) := by
      simp only [List.append_assoc, List.cons_append]
      exact List.perm_middle
    exact this.trans (List.Perm.cons m h3)

/-- **Progress: no livelock on a message that cannot be sent.**  Unless the socket says `Pending`
for the head message, a poll leaves a strictly shorter queue — whether the send succeeded or
failed. -/
theorem sendLoop_progress (r : SendRes) (rs : List SendRes) (m : Nat) (q s d : List Nat)
    (hr : r ≠ .pending) :
    (sendLoop (r :: rs) ⟨m :: q, s, d⟩).1.queue.length < (m :: q).length := by
  cases r with
  | pending => exact absurd rfl hr
  | ok =>
    rw [ok_send_pops]
    obtain ⟨_, _, _, _, _, h4⟩ := sendLoop_conserves rs ⟨q, s ++ [m], d⟩
    have := h4.length_le
    simp only [List.length_cons] at *
    omega
  | err =>
    rw [failing_send_removes_only_that]
    obtain ⟨_, _, _, _, _, h4⟩ := sendLoop_conserves rs ⟨q, s, d ++ [m]⟩
    have := h4.length_le
    simp only [List.length_cons] at *
    omega

/-- when the loop returns with a non-empty queue it is because the socket said `Pending` -/
theorem sendLoop_stops_only_on_pending (rs : List SendRes) (u : Udp)
    (h : (sendLoop rs u).1.queue ≠ []) : ∃ k, k < rs.length ∧ rs[k]? = some .pending := by
  fun_induction sendLoop rs u
  case case1 => simp at h
  case case2 m q s d ih => exact absurd (ih h) (by simp)
  case case3 rs m q s d => exact ⟨0, by simp, rfl⟩
  case case4 rs m q s d ih =>
    obtain ⟨k, hk, hp⟩ := ih h
    exact ⟨k + 1, by simp; omega, by simpa using hp⟩
  case case5 rs m q s d ih =>
    obtain ⟨k, hk, hp⟩ := ih h
    exact ⟨k + 1, by simp; omega, by simpa using hp⟩

/-- with a socket that never says `Pending`, one poll empties the queue whatever fails -/
theorem sendLoop_empties (rs : List SendRes) (u : Udp) (h : ∀ r ∈ rs, r ≠ .pending) :
    (sendLoop rs u).1.queue = [] := by
  apply Classical.byContradiction
  intro hne
  obtain ⟨k, hk, hp⟩ := sendLoop_stops_only_on_pending rs u hne
  exact h _ (List.mem_of_getElem? hp) rfl

-- non-vacuity: three responses, the second cannot be sent
example : (sendLoop [.ok, .err, .ok] ⟨[1, 2, 3], [], []⟩).1 = ⟨[], [1, 3], [2]⟩ := by
  simp [sendLoop]
example : (pollAll 5 [.ok, .pending, .pending, .err, .ok] ⟨[1, 2, 3], [], []⟩) = ⟨[], [1, 3], [2]⟩ := by
  simp [pollAll, sendLoop]

/-! ### when the response itself cannot be encoded (finding C11.EncodeFallbackDropsQuestion)

`reply_matches_request` (`Proofs/C11.lean`) is about `handleRequest`, i.e. about responses whose
encoding succeeds.  Full-strength statement one would like for what is actually sent:

    ∀ r, the reply sent for r carries the request's question whenever r does

It fails on the fallback of `MessageResponse::encode` (`ServerGate.encodeFallback`): a zone handler
result holding a record that cannot be encoded (e.g. a character-string of more than 255 octets)
makes the server send a bare SERVFAIL header with opcode QUERY — right id, no question. -/

open HickoryVerif.ServerGate in
/-- what the fallback keeps (QR, id) and what it loses (question, opcode, RD/CD, OPT) -/
theorem fallback_drops_question (r : Reply) :
    (encodeFallback r).qr = true ∧ (encodeFallback r).id = r.id ∧
    (encodeFallback r).rcode = some RC_SERVFAIL ∧
    (encodeFallback r).echo = false ∧ (encodeFallback r).opcode = OP_QUERY ∧
    (encodeFallback r).opt = false := ⟨rfl, rfl, rfl, rfl, rfl, rfl⟩

open HickoryVerif.ServerGate in
/-- counter-example: the reply owed to a NOTIFY-opcode request with its question echoed -/
theorem fallback_counterexample :
    ∃ r : Reply, r.echo = true ∧ r.opcode = 4 ∧
      (encodeFallback r).echo = false ∧ (encodeFallback r).opcode ≠ r.opcode :=
  ⟨{ qr := true, rcode := some 0, id := 7, opcode := 4, rd := true, cd := false, aa := true,
     ra := false, echo := true, opt := false, via := some 0, calls := [] },
   rfl, rfl, rfl, by decide⟩

end HickoryVerif.C11
